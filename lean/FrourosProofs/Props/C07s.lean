/-
  C07s — ROUNDING TRANSFER for the CUSUM family under the IEEE-VALID standard model (repair of `Props/C07r.lean`).

  Model: `CUSUMFam` (`FrourosModel/Change.lean`), `Mean` (`FrourosModel/Stats.lean`).

  WHY THIS FILE.  `C07r` proves its forward error bounds and its verdict transfer under `StdModel α toR u`, whose
  clauses are unconditional.  Reviewer T3 showed that no finite-precision format satisfies `StdModel` (it forces the
  carrier to be infinite, unbounded and free of underflow: `StdModel.infinite/unbounded/no_underflow` in
  `Lemmas/StdModelIEEE.lean`), so the `C07r` theorems cannot be about IEEE arithmetic even in principle.  Here the
  same theorems are proved under `sm : StdModelIEEE α fin toR u eta Omega Nmax` (`Lemmas/StdModelIEEE.lean`):
  clauses only for FINITE operands (`fin`: not NaN/±∞) whose EXACT result has magnitude `≤ Omega`, with an absolute
  underflow term `|η| ≤ eta` for `*` and `/`, counters exact only up to `Nmax`, comparisons exact only on finite
  operands.  A FINITE carrier with NaN, overflow and underflow satisfies it (`stdModelIEEE_grid`), and the theorems
  below are instantiated on that carrier (§6, §7).

  WHAT IS PROVED (every stream, every length, all three kinds, any history with resets).  Run the SAME model code
    * at `α` on `xs : List α` with configuration `c : Cfg α`, and
    * at ℝ on `xs.map toR` with `C07r.cfgR toR c`.
  Hypotheses, all of them conditions the user can check from the run:
    (a) the inputs and the configuration constants that the kind uses are finite numbers (`hfin`, `CfgFin`);
    (b) `|toR x_i| ≤ M`;
    (c) `t = xs.length ≤ Nmax` (the sample counter is converted exactly);
    (d) `Safe u eta Omega M c t`: NO OVERFLOW — for every `k < t` the explicit real functions `meanMag` and `sumMag`,
        which dominate the magnitude of every intermediate exact result of step `k+1` (computed from the a-priori
        bound `C07r.gBound` on the REAL run plus the error bounds), are `≤ Omega`.  `meanSafe_of_closed` /
        `meanSafe_binary64` give a ONE-inequality sufficient condition for the running-mean part,
        `sumSafe_of_bounds` reduces the statistic part to one inequality in any upper bounds of the three
        sequences involved.
  Conclusions:
    1. `mean_err`, `sum_err`, `run_err`, `run_err_take`, `run_err_spec`, `run_err_history` (and `sum_err_traj` with a
       bound on the real trajectory instead of `gBound`): every computed value is a finite number and
         `|toR mean_t − mean_t^ℝ| ≤ meanErr u eta M t`,   `|toR g_t − g_t^ℝ| ≤ sumErr u eta M c t`,
       where `meanErr`, `sumErr` are the `C07r` recursions plus `eta·(1+u)` per rounded `*` or `/` whose result is
       subsequently added (1 for the mean, 0 for cusum, 1 for Page-Hinkley, 2 for gma): `meanErr_succ`,
       `sumStepErr`; at `eta = 0` they ARE the `C07r` bounds (`meanErr_eta_zero`, `sumErr_eta_zero`); closed form
       `meanErr_closed` (`≤ (7+6u+2u²)·M·((1+u)^t − 1) + t·eta·(1+u)^t`), binary64 scale
       `meanErr_binary64_scale` (`≤ M/2^29 + 2^-1054` for `t ≤ 2^20`).
    2. `drift_of_sum_err`, `drift_transfer_run`, `drift_transfer`, `drift_transfer_traj`,
       `drift_transfer_history(_all)`, `drift_eq_spec`:
       if, once the warm-up is over, `sumErr u eta M c t < |g_t^ℝ − lambda|`, the verdict `drift` of the `α`-run equals
       the verdict of the ℝ-run (equivalently of the textbook recurrence `C07.specG` in exact arithmetic).
    3. `safe_needed_witness`: hypothesis (d) cannot be dropped — on the finite carrier a run whose inputs are
       bounded by `Omega` but whose mean update overflows ends in NaN and never alarms, while the real run alarms
       with a margin far above the error bound.  `margin_needed_witness`: the margin hypothesis cannot be dropped
       either — on the finite carrier (at `u = 0`!) the rounding of `2/3` to three decimals flips a verdict whose real
       margin is below the bound.

  WHAT THIS SAYS ABOUT THE REAL float64 CODE NOW.
    * Still no theorem about Lean's `Float` or NumPy doubles: `Float` is opaque to the kernel; no
      `StdModelIEEE Float …` is claimed, assumed as an axiom or registered as an instance.  The theorems are
      implications `StdModelIEEE α fin toR u eta Omega Nmax → …`.
    * But the antecedent is now one that binary64 arithmetic SATISFIES BY THE IEEE-754 STANDARD (round to nearest,
      gradual underflow) with `fin = isFinite`, `u = 2^-53`, `eta = 2^-1075`, `Omega = (2−2^-52)·2^1023 ≈ 1.797e308`,
      `Nmax = 2^53`: each clause is the textbook statement about ONE correctly rounded operation on finite operands
      whose exact result does not exceed the largest finite double.  It remains a hypothesis (Lean cannot check
      it), but it is no longer an unsatisfiable one, and NaN, ±∞, overflow, subnormals and the `2^53` counter limit
      are INSIDE the model instead of in a comment.
    * Every other hypothesis is a checkable condition on the run: stream length `≤ 2^53`; inputs and constants
      finite doubles; `|x_i| ≤ M`; `Safe`, i.e. all magnitudes that the analysis tracks stay below `1.797e308` —
      for the running mean this is ONE inequality (`meanSafe_of_closed`; `meanSafe_binary64`: it holds for any
      `M ≤ 2^1000` and any `t ≤ 2^20`); for the statistic it is the finite list of explicit inequalities `SumSafe`
      (magnitudes of order `t·(2M+|delta|)`, "far below 1.8e308"; one inequality given upper bounds:
      `sumSafe_of_bounds`; a closed form in `t` is NOT proved, see the UNPROVED block); and the margin
      `sumErr < |g_t^ℝ − lambda|`.
    * "Same stream" means the doubles the detector receives, read as reals; `lambda`, `delta`, `alpha` in the
      ℝ-run are the represented values of the doubles held by the detector.  The bounds follow the association
      order of the Python expressions (as in `C07r`) and are worst-case.
    * With `eta = 2^-1075` the underflow contribution to the mean bound is `≤ t·eta·(1+u)^t < 2^-1054` for
      `t ≤ 2^20` (`meanErr_binary64_scale`): underflow cannot change a verdict unless the margin itself is of that
      order.
-/
import Mathlib.Tactic.Ring
import Mathlib.Tactic.FieldSimp
import Mathlib.Tactic.Linarith
import Mathlib.Tactic.NormNum
import Mathlib.Tactic.Positivity
import Mathlib.Tactic.IntervalCases
import FrourosProofs.RealNum
import FrourosProofs.Machines
import FrourosProofs.Lemmas.StdModel
import FrourosProofs.Lemmas.StdModelIEEE
import FrourosProofs.Props.C07
import FrourosProofs.Props.C07r

namespace Frouros.C07s
open Frouros CUSUMFam C07 RoundLemmas

/-! ## 0. The bound functions -/

/-- one step of the running-mean error bound: the `C07r` step plus the underflow term of the division, which
afterwards passes through the final addition (`η·(1+δ₃)`) -/
noncomputable def meanStepErr (u eta M : ℝ) (n : ℕ) (E : ℝ) : ℝ :=
  C07r.meanStepErr u M n E + eta * (1 + u)

/-- bound on `|toR mean_t − mean_t^ℝ|` after `t` updates with `|x_i| ≤ M` -/
noncomputable def meanErr (u eta M : ℝ) : ℕ → ℝ
  | 0 => 0
  | t + 1 => meanStepErr u eta M (t + 1) (meanErr u eta M t)

/-- dominates the magnitude of every intermediate EXACT result of one mean update (`x − mean`, `(x − mean)/n`,
`mean + …`) when `|x|, |mean^ℝ| ≤ M` and the incoming error is `≤ E` -/
noncomputable def meanMag (u eta M E : ℝ) : ℝ :=
  (M + E) + ((M + (M + E)) * (1 + u) * (1 + u) + eta)

/-- number of rounded multiplications whose result is subsequently added, per kind -/
noncomputable def etaCount : Kind → ℝ
  | .cusum => 0
  | .pageHinkley => 1
  | .gma => 2

/-- one step of the statistic's error bound: the `C07r` step plus `etaCount · eta·(1+u)` -/
noncomputable def sumStepErr (u eta M : ℝ) (cR : Cfg ℝ) (G D E : ℝ) : ℝ :=
  C07r.sumStepErr u M cR G D E + etaCount cR.kind * (eta * (1 + u))

/-- dominates every intermediate exact result of a cusum step: `g + x`, `fl(g + x) − mean`, `fl(…) − delta` -/
noncomputable def cusumMag (u M Δ G D E : ℝ) : ℝ :=
  ((G + D + M) * (1 + u) + (M + E)) * (1 + u) + Δ

/-- Page-Hinkley: `alpha·g`, `x − mean`, `fl(x − mean) − delta`, and the final sum -/
noncomputable def phMag (u eta M Δ a G D E : ℝ) : ℝ :=
  (a * (G + D) * (1 + u) + eta) + ((M + (M + E)) * (1 + u) + Δ) * (1 + u)

/-- gma: `1 − alpha`, `x − mean`, `alpha·g`, `fl(1 − alpha)·fl(x − mean)`, and the final sum -/
noncomputable def gmaMag (u eta M a b G D E : ℝ) : ℝ :=
  b + (M + (M + E)) + ((a * (G + D) * (1 + u) + eta) + (b * (1 + u) * ((M + (M + E)) * (1 + u)) * (1 + u) + eta))

noncomputable def sumMag (u eta M : ℝ) (cR : Cfg ℝ) (G D E : ℝ) : ℝ :=
  match cR.kind with
  | .cusum => cusumMag u M |cR.delta| G D E
  | .pageHinkley => phMag u eta M |cR.delta| |cR.alpha| G D E
  | .gma => gmaMag u eta M |cR.alpha| |1 - cR.alpha| G D E

/-- bound on `|toR g_t − g_t^ℝ|` after `t` updates (`C07r.gBound` = a-priori bound on the REAL statistic) -/
noncomputable def sumErr (u eta M : ℝ) (cR : Cfg ℝ) : ℕ → ℝ
  | 0 => 0
  | t + 1 => sumStepErr u eta M cR (C07r.gBound M cR t) (sumErr u eta M cR t) (meanErr u eta M (t + 1))

/-- **no overflow in the running mean** during the first `t` updates: an explicit list of `t` real inequalities
in `u, eta, M, Omega` -/
def MeanSafe (u eta Omega M : ℝ) (t : ℕ) : Prop :=
  ∀ k < t, meanMag u eta M (meanErr u eta M k) ≤ Omega

/-- **no overflow in the statistic** during the first `t` updates: an explicit list of `t` real inequalities in
`u, eta, M, Omega` and the configuration (stated on the bound `gBound` of the REAL run plus the error bounds) -/
def SumSafe (u eta Omega M : ℝ) (cR : Cfg ℝ) (t : ℕ) : Prop :=
  ∀ k < t, sumMag u eta M cR (C07r.gBound M cR k) (sumErr u eta M cR k) (meanErr u eta M (k + 1)) ≤ Omega

def Safe (u eta Omega M : ℝ) (cR : Cfg ℝ) (t : ℕ) : Prop :=
  MeanSafe u eta Omega M t ∧ SumSafe u eta Omega M cR t

theorem MeanSafe.mono {u eta Omega M : ℝ} {k t : ℕ} (h : MeanSafe u eta Omega M t) (hk : k ≤ t) :
    MeanSafe u eta Omega M k := fun j hj => h j (lt_of_lt_of_le hj hk)

theorem SumSafe.mono {u eta Omega M : ℝ} {cR : Cfg ℝ} {k t : ℕ} (h : SumSafe u eta Omega M cR t) (hk : k ≤ t) :
    SumSafe u eta Omega M cR k := fun j hj => h j (lt_of_lt_of_le hj hk)

theorem Safe.mono {u eta Omega M : ℝ} {cR : Cfg ℝ} {k t : ℕ} (h : Safe u eta Omega M cR t) (hk : k ≤ t) :
    Safe u eta Omega M cR k := ⟨h.1.mono hk, h.2.mono hk⟩

/-! ## 1. One-step analyses in pure real arithmetic: the `C07r` analyses plus the `η` terms -/

theorem le_grow {P u : ℝ} (hP : 0 ≤ P) (hu : 0 ≤ u) : P ≤ P * (1 + u) := by
  nlinarith [mul_nonneg hP hu]

theorem abs_eta_le {η δ eta u : ℝ} (hη : |η| ≤ eta) (hδ : |δ| ≤ u) : |η * (1 + δ)| ≤ eta * (1 + u) :=
  abs_mul_le_of hη (abs_one_add_le hδ)

theorem mean_step_real {u eta M E μ μ' x N δ1 δ2 δ3 η : ℝ} (hN : 1 ≤ N)
    (h1 : |δ1| ≤ u) (h2 : |δ2| ≤ u) (h3 : |δ3| ≤ u) (hη : |η| ≤ eta)
    (hx : |x| ≤ M) (hm : |μ'| ≤ M) (he : |μ - μ'| ≤ E) :
    |(μ + ((x - μ) * (1 + δ1) / N * (1 + δ2) + η)) * (1 + δ3) - (μ' + (x - μ') / N)| ≤
      (1 - 1 / N) * E + u * (M + E) + ((1 + u) ^ 3 - 1) * ((2 * M + E) / N) + eta * (1 + u) := by
  have id : (μ + ((x - μ) * (1 + δ1) / N * (1 + δ2) + η)) * (1 + δ3) - (μ' + (x - μ') / N)
      = ((μ + (x - μ) * (1 + δ1) / N * (1 + δ2)) * (1 + δ3) - (μ' + (x - μ') / N)) + η * (1 + δ3) := by ring
  rw [id]
  exact abs_add_le_of (C07r.mean_step_real hN h1 h2 h3 hx hm he) (abs_eta_le hη h3)

theorem ph_step_real {u eta M Δ a G D E g g' x μ μ' δ1 δ2 δ3 δ4 η : ℝ}
    (h1 : |δ1| ≤ u) (h2 : |δ2| ≤ u) (h3 : |δ3| ≤ u) (h4 : |δ4| ≤ u) (hη : |η| ≤ eta)
    (hx : |x| ≤ M) (hm : |μ'| ≤ M) (hE : |μ - μ'| ≤ E) (hG : |g'| ≤ G) (hD : |g - g'| ≤ D) :
    |((a * g * (1 + δ1) + η) + ((x - μ) * (1 + δ2) - Δ) * (1 + δ3)) * (1 + δ4) - (a * g' + x - μ' - Δ)|
      ≤ C07r.phStepErr u M |Δ| |a| G D E + eta * (1 + u) := by
  have id : ((a * g * (1 + δ1) + η) + ((x - μ) * (1 + δ2) - Δ) * (1 + δ3)) * (1 + δ4) - (a * g' + x - μ' - Δ)
      = ((a * g * (1 + δ1) + ((x - μ) * (1 + δ2) - Δ) * (1 + δ3)) * (1 + δ4) - (a * g' + x - μ' - Δ))
        + η * (1 + δ4) := by ring
  rw [id]
  exact abs_add_le_of (C07r.ph_step_real (a := a) (Δ := Δ) h1 h2 h3 h4 hx hm hE hG hD) (abs_eta_le hη h4)

theorem gma_step_real {u eta M a G D E g g' x μ μ' δ1 δ2 δ3 δ4 δ5 η1 η4 : ℝ}
    (h1 : |δ1| ≤ u) (h2 : |δ2| ≤ u) (h3 : |δ3| ≤ u) (h4 : |δ4| ≤ u) (h5 : |δ5| ≤ u)
    (hη1 : |η1| ≤ eta) (hη4 : |η4| ≤ eta)
    (hx : |x| ≤ M) (hm : |μ'| ≤ M) (hE : |μ - μ'| ≤ E) (hG : |g'| ≤ G) (hD : |g - g'| ≤ D) :
    |((a * g * (1 + δ1) + η1) + ((1 - a) * (1 + δ2) * ((x - μ) * (1 + δ3)) * (1 + δ4) + η4)) * (1 + δ5)
        - (a * g' + (1 - a) * (x - μ'))|
      ≤ C07r.gmaStepErr u M |a| |1 - a| G D E + 2 * (eta * (1 + u)) := by
  have id : ((a * g * (1 + δ1) + η1) + ((1 - a) * (1 + δ2) * ((x - μ) * (1 + δ3)) * (1 + δ4) + η4)) * (1 + δ5)
        - (a * g' + (1 - a) * (x - μ'))
      = ((a * g * (1 + δ1) + (1 - a) * (1 + δ2) * ((x - μ) * (1 + δ3)) * (1 + δ4)) * (1 + δ5)
          - (a * g' + (1 - a) * (x - μ'))) + (η1 * (1 + δ5) + η4 * (1 + δ5)) := by ring
  rw [id]
  have := abs_add_le_of (C07r.gma_step_real (a := a) h1 h2 h3 h4 h5 hx hm hE hG hD)
    (abs_add_le_of (abs_eta_le hη1 h5) (abs_eta_le hη4 h5))
  linarith

/-! ## 2. One step of the MODEL at an abstract IEEE-like carrier versus the same step at ℝ -/

section Carrier
variable {α : Type} [Num α] {fin : α → Prop} {toR : α → ℝ} {u eta Omega : ℝ} {Nmax : ℕ}

/-- the constants that the kind actually uses are finite numbers (`alpha` is unused by cusum, `delta` by gma) -/
def CfgFin (fin : α → Prop) (c : Cfg α) : Prop :=
  fin c.lambda ∧
    match c.kind with
    | .cusum => fin c.delta
    | .pageHinkley => fin c.delta ∧ fin c.alpha
    | .gma => fin c.alpha

/-- **running mean, one step.**  `mean += (x − mean)/n` with three roundings (`−`, `/`, `+`), one underflow term
(`/`), and three no-overflow obligations, all discharged from `meanMag … ≤ Omega`. -/
theorem mean_step_err {M E : ℝ} (sm : StdModelIEEE α fin toR u eta Omega Nmax) (s : Mean α) (r : Mean ℝ) (v : α)
    (hn : s.n = r.n) (hN : s.n + 1 ≤ Nmax) (hfv : fin v) (hfm : fin s.mean)
    (hx : |toR v| ≤ M) (hm : |r.mean| ≤ M) (he : |toR s.mean - r.mean| ≤ E)
    (hsafe : meanMag u eta M E ≤ Omega) :
    fin (s.update v).mean ∧
      |toR (s.update v).mean - (r.update (toR v)).mean| ≤ meanStepErr u eta M (s.n + 1) E := by
  have hu := sm.u_nonneg
  have heta := sm.eta_nonneg
  have hM0 : 0 ≤ M := le_trans (abs_nonneg _) hx
  have hE0 : 0 ≤ E := le_trans (abs_nonneg _) he
  obtain ⟨hfn, hnR⟩ := sm.ofNat (s.n + 1) hN
  have hN1 : (1 : ℝ) ≤ ((s.n + 1 : ℕ) : ℝ) := by
    have : 1 ≤ s.n + 1 := by omega
    exact_mod_cast this
  have hNpos : (0 : ℝ) < ((s.n + 1 : ℕ) : ℝ) := by linarith
  have hn0 : toR (Num.ofNat (s.n + 1)) ≠ 0 := by rw [hnR]; linarith
  have hμ : |toR s.mean| ≤ M + E := abs_le_of_close hm he
  have hW : |toR v - toR s.mean| ≤ M + (M + E) := abs_sub_le_of hx hμ
  have hW0 : 0 ≤ M + (M + E) := by linarith
  have hA : M + (M + E) ≤ (M + (M + E)) * (1 + u) := le_grow hW0 hu
  have hB : (M + (M + E)) * (1 + u) ≤ (M + (M + E)) * (1 + u) * (1 + u) := le_grow (by positivity) hu
  have hmag1 : M + (M + E) ≤ meanMag u eta M E := by unfold meanMag; linarith
  have hmag2 : (M + (M + E)) * (1 + u) ≤ meanMag u eta M E := by unfold meanMag; linarith
  obtain ⟨hf1, δ1, h1, e1⟩ := sm.sub v s.mean hfv hfm (le_trans hW (le_trans hmag1 hsafe))
  have hq : |toR (v - s.mean) / toR (Num.ofNat (s.n + 1))| ≤ (M + (M + E)) * (1 + u) := by
    rw [e1, hnR, abs_div, abs_of_pos hNpos]
    exact le_trans (div_le_self (abs_nonneg _) hN1) (abs_mul_le_of hW (abs_one_add_le h1))
  obtain ⟨hf2, δ2, η2, h2, hη2, e2⟩ :=
    sm.div (v - s.mean) (Num.ofNat (s.n + 1)) hf1 hfn hn0 (le_trans hq (le_trans hmag2 hsafe))
  have hq' : |toR ((v - s.mean) / Num.ofNat (s.n + 1))| ≤ (M + (M + E)) * (1 + u) * (1 + u) + eta := by
    rw [e2]; exact abs_add_le_of (abs_mul_le_of hq (abs_one_add_le h2)) hη2
  have hs : |toR s.mean + toR ((v - s.mean) / Num.ofNat (s.n + 1))| ≤ meanMag u eta M E := by
    unfold meanMag; exact abs_add_le_of hμ hq'
  obtain ⟨hf3, δ3, h3, e3⟩ := sm.add s.mean _ hfm hf2 (le_trans hs hsafe)
  refine ⟨hf3, ?_⟩
  simp only [Mean.update, RealNum.ofNat_eq, meanStepErr, C07r.meanStepErr]
  rw [e3, e2, e1, hnR, ← hn]
  exact mean_step_real hN1 h1 h2 h3 hη2 hx hm he

/-- **statistic, one step, all three kinds.**  `g, m, v` are the carrier values (`m` = the NEW mean), `g', m'` the
real ones; `G` bounds `|g'|`, `D` the error of `g`, `E` the error of `m`.  `1 ≤ Nmax` is needed for the literal `1`
in the gma formula only. -/
theorem updateSum_err {M E G D : ℝ} (sm : StdModelIEEE α fin toR u eta Omega Nmax) (c : Cfg α) (hc : CfgFin fin c)
    (h1N : 1 ≤ Nmax) (g m v : α) (g' m' : ℝ) (hfg : fin g) (hfm : fin m) (hfv : fin v)
    (hx : |toR v| ≤ M) (hm : |m'| ≤ M) (hE : |toR m - m'| ≤ E) (hG : |g'| ≤ G) (hD : |toR g - g'| ≤ D)
    (hsafe : sumMag u eta M (C07r.cfgR toR c) G D E ≤ Omega) :
    fin (updateSum c g m v) ∧
      |toR (updateSum c g m v) - updateSum (C07r.cfgR toR c) g' m' (toR v)| ≤ sumStepErr u eta M (C07r.cfgR toR c) G D E := by
  have hu := sm.u_nonneg
  have heta := sm.eta_nonneg
  have hM0 : 0 ≤ M := le_trans (abs_nonneg _) hx
  have hE0 : 0 ≤ E := le_trans (abs_nonneg _) hE
  have hG0 : 0 ≤ G := le_trans (abs_nonneg _) hG
  have hD0 : 0 ≤ D := le_trans (abs_nonneg _) hD
  have hg : |toR g| ≤ G + D := abs_le_of_close hG hD
  have hμ : |toR m| ≤ M + E := abs_le_of_close hm hE
  have hW : |toR v - toR m| ≤ M + (M + E) := abs_sub_le_of hx hμ
  have hW0 : 0 ≤ M + (M + E) := by linarith
  rw [updateSum_eq_specStep]
  obtain ⟨kind, lam, del, al, minN⟩ := c
  cases kind with
  | cusum =>
    simp only [CfgFin] at hc
    simp only [sumMag, C07r.cfgR] at hsafe
    simp only [updateSum, specStep, C07r.cfgR, sumStepErr, C07r.sumStepErr, etaCount, zero_mul, add_zero]
    obtain ⟨_, hfd⟩ := hc
    have hΔ := abs_nonneg (toR del)
    have hs1 : |toR g + toR v| ≤ G + D + M := abs_add_le_of hg hx
    have hP1 : 0 ≤ G + D + M := by linarith
    have a1 := le_grow hP1 hu
    have hP2 : 0 ≤ (G + D + M) * (1 + u) + (M + E) := by positivity
    have a2 := le_grow hP2 hu
    have d1 : G + D + M ≤ cusumMag u M |toR del| G D E := by unfold cusumMag; linarith
    have d2 : (G + D + M) * (1 + u) + (M + E) ≤ cusumMag u M |toR del| G D E := by unfold cusumMag; linarith
    obtain ⟨hf1, δ1, h1, e1⟩ := sm.add g v hfg hfv (le_trans hs1 (le_trans d1 hsafe))
    have hs2 : |toR (g + v) - toR m| ≤ (G + D + M) * (1 + u) + (M + E) := by
      rw [e1]; exact abs_sub_le_of (abs_mul_le_of hs1 (abs_one_add_le h1)) hμ
    obtain ⟨hf2, δ2, h2, e2⟩ := sm.sub (g + v) m hf1 hfm (le_trans hs2 (le_trans d2 hsafe))
    have hs3 : |toR (g + v - m) - toR del| ≤ cusumMag u M |toR del| G D E := by
      rw [e2]; unfold cusumMag
      exact abs_sub_le_of (abs_mul_le_of hs2 (abs_one_add_le h2)) (le_refl _)
    obtain ⟨hf3, δ3, h3, e3⟩ := sm.sub (g + v - m) del hf2 hfd (le_trans hs3 hsafe)
    obtain ⟨hf4, e4⟩ := sm.max0 _ hf3
    refine ⟨hf4, ?_⟩
    rw [e4, e3, e2, e1]
    exact C07r.cusum_step_real h1 h2 h3 hx hm hE hG hD
  | pageHinkley =>
    simp only [CfgFin] at hc
    simp only [sumMag, C07r.cfgR] at hsafe
    simp only [updateSum, specStep, C07r.cfgR, sumStepErr, C07r.sumStepErr, etaCount, one_mul]
    obtain ⟨_, hfd, hfa⟩ := hc
    have hΔ := abs_nonneg (toR del)
    have hp1 : |toR al * toR g| ≤ |toR al| * (G + D) := abs_mul_le_of (le_refl _) hg
    have hP1 : 0 ≤ |toR al| * (G + D) := by positivity
    have a1 := le_grow hP1 hu
    have aW := le_grow hW0 hu
    have hW2 : 0 ≤ (M + (M + E)) * (1 + u) + |toR del| := by positivity
    have aW2 := le_grow hW2 hu
    have d1 : |toR al| * (G + D) ≤ phMag u eta M |toR del| |toR al| G D E := by unfold phMag; linarith
    have dW : M + (M + E) ≤ phMag u eta M |toR del| |toR al| G D E := by
      unfold phMag; nlinarith [mul_nonneg hP1 (by linarith : (0 : ℝ) ≤ 1 + u)]
    have dW2 : (M + (M + E)) * (1 + u) + |toR del| ≤ phMag u eta M |toR del| |toR al| G D E := by
      unfold phMag; nlinarith [mul_nonneg hP1 (by linarith : (0 : ℝ) ≤ 1 + u)]
    obtain ⟨hf1, δ1, η1, h1, hη1, e1⟩ := sm.mul al g hfa hfg (le_trans hp1 (le_trans d1 hsafe))
    have hp1' : |toR (al * g)| ≤ |toR al| * (G + D) * (1 + u) + eta := by
      rw [e1]; exact abs_add_le_of (abs_mul_le_of hp1 (abs_one_add_le h1)) hη1
    obtain ⟨hf2, δ2, h2, e2⟩ := sm.sub v m hfv hfm (le_trans hW (le_trans dW hsafe))
    have hw2 : |toR (v - m) - toR del| ≤ (M + (M + E)) * (1 + u) + |toR del| := by
      rw [e2]; exact abs_sub_le_of (abs_mul_le_of hW (abs_one_add_le h2)) (le_refl _)
    obtain ⟨hf3, δ3, h3, e3⟩ := sm.sub (v - m) del hf2 hfd (le_trans hw2 (le_trans dW2 hsafe))
    have hw3 : |toR (v - m - del)| ≤ ((M + (M + E)) * (1 + u) + |toR del|) * (1 + u) := by
      rw [e3]; exact abs_mul_le_of hw2 (abs_one_add_le h3)
    have hs4 : |toR (al * g) + toR (v - m - del)| ≤ phMag u eta M |toR del| |toR al| G D E := by
      unfold phMag; exact abs_add_le_of hp1' hw3
    obtain ⟨hf4, δ4, h4, e4⟩ := sm.add (al * g) (v - m - del) hf1 hf3 (le_trans hs4 hsafe)
    refine ⟨hf4, ?_⟩
    rw [e4, e3, e2, e1]
    exact ph_step_real h1 h2 h3 h4 hη1 hx hm hE hG hD
  | gma =>
    simp only [CfgFin] at hc
    simp only [sumMag, C07r.cfgR] at hsafe
    simp only [updateSum, specStep, C07r.cfgR, sumStepErr, C07r.sumStepErr, etaCount]
    obtain ⟨_, hfa⟩ := hc
    have hone := sm.one h1N
    have hfone := sm.fin_one h1N
    have hp1 : |toR al * toR g| ≤ |toR al| * (G + D) := abs_mul_le_of (le_refl _) hg
    have hP1 : 0 ≤ |toR al| * (G + D) := by positivity
    have a1 := le_grow hP1 hu
    have hB0 := abs_nonneg (1 - toR al)
    have h1u : (0 : ℝ) ≤ 1 + u := by linarith
    have hQ : 0 ≤ |1 - toR al| * (1 + u) * ((M + (M + E)) * (1 + u)) := by positivity
    have aQ := le_grow hQ hu
    have hP1u : 0 ≤ |toR al| * (G + D) * (1 + u) := by positivity
    have hQu : 0 ≤ |1 - toR al| * (1 + u) * ((M + (M + E)) * (1 + u)) * (1 + u) := by positivity
    have d1 : |toR al| * (G + D) ≤ gmaMag u eta M |toR al| |1 - toR al| G D E := by unfold gmaMag; linarith
    have dB : |1 - toR al| ≤ gmaMag u eta M |toR al| |1 - toR al| G D E := by unfold gmaMag; linarith
    have dW : M + (M + E) ≤ gmaMag u eta M |toR al| |1 - toR al| G D E := by unfold gmaMag; linarith
    have dQ : |1 - toR al| * (1 + u) * ((M + (M + E)) * (1 + u))
        ≤ gmaMag u eta M |toR al| |1 - toR al| G D E := by unfold gmaMag; linarith
    have d5 : (|toR al| * (G + D) * (1 + u) + eta)
        + (|1 - toR al| * (1 + u) * ((M + (M + E)) * (1 + u)) * (1 + u) + eta)
        ≤ gmaMag u eta M |toR al| |1 - toR al| G D E := by unfold gmaMag; linarith
    obtain ⟨hf1, δ1, η1, h1, hη1, e1⟩ := sm.mul al g hfa hfg (le_trans hp1 (le_trans d1 hsafe))
    have hp1' : |toR (al * g)| ≤ |toR al| * (G + D) * (1 + u) + eta := by
      rw [e1]; exact abs_add_le_of (abs_mul_le_of hp1 (abs_one_add_le h1)) hη1
    have hb : |toR (Num.one : α) - toR al| ≤ |1 - toR al| := by rw [hone]
    obtain ⟨hf2, δ2, h2, e2⟩ := sm.sub Num.one al hfone hfa (le_trans hb (le_trans dB hsafe))
    obtain ⟨hf3, δ3, h3, e3⟩ := sm.sub v m hfv hfm (le_trans hW (le_trans dW hsafe))
    have hb' : |toR (Num.one - al)| ≤ |1 - toR al| * (1 + u) := by
      rw [e2]; exact abs_mul_le_of hb (abs_one_add_le h2)
    have hw' : |toR (v - m)| ≤ (M + (M + E)) * (1 + u) := by
      rw [e3]; exact abs_mul_le_of hW (abs_one_add_le h3)
    have hp2 := abs_mul_le_of hb' hw'
    obtain ⟨hf4, δ4, η4, h4, hη4, e4⟩ :=
      sm.mul (Num.one - al) (v - m) hf2 hf3 (le_trans hp2 (le_trans dQ hsafe))
    have hp2' : |toR ((Num.one - al) * (v - m))|
        ≤ |1 - toR al| * (1 + u) * ((M + (M + E)) * (1 + u)) * (1 + u) + eta := by
      rw [e4]; exact abs_add_le_of (abs_mul_le_of hp2 (abs_one_add_le h4)) hη4
    have hs5 := abs_add_le_of hp1' hp2'
    obtain ⟨hf5, δ5, h5, e5⟩ :=
      sm.add (al * g) ((Num.one - al) * (v - m)) hf1 hf4 (le_trans hs5 (le_trans d5 hsafe))
    refine ⟨hf5, ?_⟩
    rw [e5, e4, e3, e2, e1, hone]
    exact gma_step_real h1 h2 h3 h4 h5 hη1 hη4 hx hm hE hG hD

/-! ## 3. Forward error bound for the whole run -/

/-- **mean_err** (running mean alone: `Mean.update` folded over any stream).  If the inputs are finite numbers with
`|toR x_i| ≤ M`, the stream is no longer than `Nmax`, and no intermediate result can overflow (`MeanSafe`), the
computed running mean is a finite number within `meanErr u eta M t` of the exact running mean of the same values. -/
theorem mean_err {M : ℝ} (sm : StdModelIEEE α fin toR u eta Omega Nmax) (xs : List α)
    (hfin : ∀ x ∈ xs, fin x) (hM : ∀ x ∈ xs, |toR x| ≤ M) (hN : xs.length ≤ Nmax)
    (hsafe : MeanSafe u eta Omega M xs.length) :
    fin (meanL xs).mean ∧ |toR (meanL xs).mean - (meanL (xs.map toR)).mean| ≤ meanErr u eta M xs.length := by
  induction xs using List.reverseRecOn with
  | nil => exact ⟨sm.fin_zero, by simp [meanL, Mean.init, meanErr, sm.zero]⟩
  | append_singleton xs x ih =>
    rw [List.length_append, List.length_singleton] at hN hsafe
    have hM' : ∀ z ∈ xs, |toR z| ≤ M := fun z hz => hM z (by simp [hz])
    have hfin' : ∀ z ∈ xs, fin z := fun z hz => hfin z (by simp [hz])
    obtain ⟨ihf, ihm⟩ := ih hfin' hM' (by omega) (hsafe.mono (by omega))
    have hx := hM x (by simp)
    have hM0 : 0 ≤ M := le_trans (abs_nonneg _) hx
    have hrm : |(meanL (xs.map toR)).mean| ≤ M := C07r.real_mean_bound hM0 _ (C07r.map_bound hM')
    have hn : (meanL xs).n = (meanL (xs.map toR)).n := by rw [mean_run_n, mean_run_n, List.length_map]
    have hsn : (meanL xs).n = xs.length := mean_run_n xs
    have hstep := mean_step_err sm (meanL xs) (meanL (xs.map toR)) x hn (by rw [hsn]; exact hN)
      (hfin x (by simp)) ihf hx hrm ihm (hsafe xs.length (by omega))
    rw [hsn] at hstep
    rw [List.map_append, List.map_singleton, meanL_snoc, meanL_snoc, List.length_append, List.length_singleton]
    exact hstep

/-- statistic part of `run_err` (proved by induction on the stream; the mean part is `mean_err`) -/
theorem sum_err {M : ℝ} (sm : StdModelIEEE α fin toR u eta Omega Nmax) (c : Cfg α) (hc : CfgFin fin c)
    (xs : List α) (hfin : ∀ x ∈ xs, fin x) (hM : ∀ x ∈ xs, |toR x| ≤ M) (hN : xs.length ≤ Nmax)
    (hsafe : Safe u eta Omega M (C07r.cfgR toR c) xs.length) :
    fin (runL c xs).sum ∧
    |toR (runL c xs).sum - (runL (C07r.cfgR toR c) (xs.map toR)).sum| ≤ sumErr u eta M (C07r.cfgR toR c) xs.length := by
  induction xs using List.reverseRecOn with
  | nil => exact ⟨sm.fin_zero, by simp [runL, init, sumErr, sm.zero]⟩
  | append_singleton xs x ih =>
    have hlen : (xs ++ [x]).length = xs.length + 1 := by simp
    have hmean := mean_err sm (xs ++ [x]) hfin hM hN hsafe.1
    rw [hlen] at hN hsafe hmean
    have hM' : ∀ z ∈ xs, |toR z| ≤ M := fun z hz => hM z (by simp [hz])
    have hfin' : ∀ z ∈ xs, fin z := fun z hz => hfin z (by simp [hz])
    obtain ⟨ihf, ihs⟩ := ih hfin' hM' (by omega) (hsafe.mono (by omega))
    have hx := hM x (by simp)
    have hM0 : 0 ≤ M := le_trans (abs_nonneg _) hx
    have hrm' : |((runL (C07r.cfgR toR c) (xs.map toR)).mean.update (toR x)).mean| ≤ M := by
      rw [run_mean, ← meanL_snoc]
      have := C07r.real_mean_bound hM0 _ (C07r.map_bound hM)
      rwa [List.map_append, List.map_singleton] at this
    have hG := C07r.real_sum_bound hM0 (C07r.cfgR toR c) (xs.map toR) (C07r.map_bound hM')
    rw [List.length_map] at hG
    rw [List.map_append, List.map_singleton, meanL_snoc, meanL_snoc, ← run_mean c xs,
      ← run_mean (C07r.cfgR toR c) (xs.map toR)] at hmean
    rw [List.map_append, List.map_singleton, runL_snoc, runL_snoc, hlen]
    exact updateSum_err sm c hc (by omega) (runL c xs).sum ((runL c xs).mean.update x).mean x
      (runL (C07r.cfgR toR c) (xs.map toR)).sum ((runL (C07r.cfgR toR c) (xs.map toR)).mean.update (toR x)).mean
      ihf hmean.1 (hfin x (by simp)) hx hrm' hmean.2 hG ihs (hsafe.2 xs.length (by omega))

/-- **run_err** (forward error bound, every stream, every `t = xs.length ≤ Nmax`, all three kinds).
Run the detector on the carrier values `xs` at the IEEE-like carrier `α` and on the represented reals `xs.map toR` at
ℝ, with the same configuration read through `toR`.  If inputs and used constants are finite numbers, every
`|toR x_i| ≤ M`, and `Safe u eta Omega M c t` (no overflow), then mean and statistic are finite numbers and

* `|toR mean_t − mean_t^ℝ| ≤ meanErr u eta M t`,
* `|toR g_t − g_t^ℝ| ≤ sumErr u eta M c t`. -/
theorem run_err {M : ℝ} (sm : StdModelIEEE α fin toR u eta Omega Nmax) (c : Cfg α) (hc : CfgFin fin c)
    (xs : List α) (hfin : ∀ x ∈ xs, fin x) (hM : ∀ x ∈ xs, |toR x| ≤ M) (hN : xs.length ≤ Nmax)
    (hsafe : Safe u eta Omega M (C07r.cfgR toR c) xs.length) :
    fin (runL c xs).mean.mean ∧ fin (runL c xs).sum ∧
    |toR (runL c xs).mean.mean - (runL (C07r.cfgR toR c) (xs.map toR)).mean.mean| ≤ meanErr u eta M xs.length ∧
    |toR (runL c xs).sum - (runL (C07r.cfgR toR c) (xs.map toR)).sum| ≤ sumErr u eta M (C07r.cfgR toR c) xs.length := by
  have hmean := mean_err sm xs hfin hM hN hsafe.1
  have hsum := sum_err sm c hc xs hfin hM hN hsafe
  rw [run_mean, run_mean]
  exact ⟨hmean.1, hsum.1, hmean.2, hsum.2⟩

/-- the same bounds at every step `t` of a stream (prefix form) -/
theorem run_err_take {M : ℝ} (sm : StdModelIEEE α fin toR u eta Omega Nmax) (c : Cfg α) (hc : CfgFin fin c)
    (xs : List α) (hfin : ∀ x ∈ xs, fin x) (hM : ∀ x ∈ xs, |toR x| ≤ M) (t : ℕ) (ht : t ≤ xs.length)
    (hN : t ≤ Nmax) (hsafe : Safe u eta Omega M (C07r.cfgR toR c) t) :
    fin (runL c (xs.take t)).mean.mean ∧ fin (runL c (xs.take t)).sum ∧
    |toR (runL c (xs.take t)).mean.mean - (runL (C07r.cfgR toR c) ((xs.map toR).take t)).mean.mean|
      ≤ meanErr u eta M t ∧
    |toR (runL c (xs.take t)).sum - (runL (C07r.cfgR toR c) ((xs.map toR).take t)).sum|
      ≤ sumErr u eta M (C07r.cfgR toR c) t := by
  have hlen : (xs.take t).length = t := by rw [List.length_take, Nat.min_eq_left ht]
  have h := run_err sm c hc (xs.take t) (fun x hx => hfin x (List.mem_of_mem_take hx))
    (fun x hx => hM x (List.mem_of_mem_take hx)) (by rw [hlen]; exact hN) (by rw [hlen]; exact hsafe)
  rw [hlen, List.map_take] at h
  exact h

/-- the statistic of the rounding run against the TEXTBOOK recurrence `C07.specG` evaluated in exact arithmetic -/
theorem run_err_spec {M : ℝ} (sm : StdModelIEEE α fin toR u eta Omega Nmax) (c : Cfg α) (hc : CfgFin fin c)
    (xs : List α) (hfin : ∀ x ∈ xs, fin x) (hM : ∀ x ∈ xs, |toR x| ≤ M) (hN : xs.length ≤ Nmax)
    (hsafe : Safe u eta Omega M (C07r.cfgR toR c) xs.length) :
    |toR (runL c xs).sum - specG (C07r.cfgR toR c) (xs.map toR)| ≤ sumErr u eta M (C07r.cfgR toR c) xs.length := by
  rw [← run_sum]; exact (sum_err sm c hc xs hfin hM hN hsafe).2

/-! ## 4. Transfer of the verdict -/

/-- core of the transfer: ANY valid error bound `E` on a FINITE statistic that is smaller than the real margin
transfers the verdict (the comparison with `lambda` is exact because both operands are finite numbers) -/
theorem drift_of_sum_err {E : ℝ} (sm : StdModelIEEE α fin toR u eta Omega Nmax) (c : Cfg α) (hl : fin c.lambda)
    (xs : List α) (hfs : fin (runL c xs).sum)
    (herr : |toR (runL c xs).sum - (runL (C07r.cfgR toR c) (xs.map toR)).sum| ≤ E)
    (hsep : c.minN ≤ xs.length → E < |(runL (C07r.cfgR toR c) (xs.map toR)).sum - toR c.lambda|) :
    (runL c xs).drift = (runL (C07r.cfgR toR c) (xs.map toR)).drift := by
  induction xs using List.reverseRecOn with
  | nil => rfl
  | append_singleton ys y _ =>
    have hd1 := C07r.run_drift_snoc c ys y
    have hd2 := C07r.run_drift_snoc (C07r.cfgR toR c) (ys.map toR) (toR y)
    rw [← List.map_singleton, ← List.map_append] at hd2
    rw [hd1, hd2, List.length_map]
    by_cases hmin : c.minN ≤ (ys ++ [y]).length
    · have hside := C07r.side_of_close herr (hsep hmin)
      have hminR : (C07r.cfgR toR c).minN ≤ (ys ++ [y]).length := hmin
      rw [decide_eq_true hmin, decide_eq_true hminR, Bool.true_and, Bool.true_and, Bool.eq_iff_iff,
        sm.gt _ _ hfs hl, RealNum.gt_iff]
      exact hside
    · have hminR : ¬ (C07r.cfgR toR c).minN ≤ (ys ++ [y]).length := hmin
      rw [decide_eq_false hmin, decide_eq_false hminR, Bool.false_and, Bool.false_and]

/-- **drift_transfer_run** (the transfer theorem, whole-prefix form).
Under the hypotheses of `run_err` (finite inputs and constants, `|toR x_i| ≤ M`, length `≤ Nmax`, no overflow):
if, once the warm-up is over (`minN ≤ t`; the warm-up test is on integer counters and is exact on every carrier),
the REAL statistic is separated from the threshold by more than the error bound,
`sumErr u eta M c t < |g_t^ℝ − lambda|`, then the verdict of the rounding run equals the verdict of the real run. -/
theorem drift_transfer_run {M : ℝ} (sm : StdModelIEEE α fin toR u eta Omega Nmax) (c : Cfg α) (hc : CfgFin fin c)
    (xs : List α) (hfin : ∀ x ∈ xs, fin x) (hM : ∀ x ∈ xs, |toR x| ≤ M) (hN : xs.length ≤ Nmax)
    (hsafe : Safe u eta Omega M (C07r.cfgR toR c) xs.length)
    (hsep : c.minN ≤ xs.length →
      sumErr u eta M (C07r.cfgR toR c) xs.length < |(runL (C07r.cfgR toR c) (xs.map toR)).sum - toR c.lambda|) :
    (runL c xs).drift = (runL (C07r.cfgR toR c) (xs.map toR)).drift := by
  obtain ⟨hfs, herr⟩ := sum_err sm c hc xs hfin hM hN hsafe
  exact drift_of_sum_err sm c hc.1 xs hfs herr hsep

/-- **drift_transfer** (at every step `t ≤ Nmax` of every stream). -/
theorem drift_transfer {M : ℝ} (sm : StdModelIEEE α fin toR u eta Omega Nmax) (c : Cfg α) (hc : CfgFin fin c)
    (xs : List α) (hfin : ∀ x ∈ xs, fin x) (hM : ∀ x ∈ xs, |toR x| ≤ M) (t : ℕ) (ht : t ≤ xs.length)
    (hN : t ≤ Nmax) (hsafe : Safe u eta Omega M (C07r.cfgR toR c) t)
    (hsep : c.minN ≤ t →
      sumErr u eta M (C07r.cfgR toR c) t
        < |(runL (C07r.cfgR toR c) ((xs.map toR).take t)).sum - toR c.lambda|) :
    (runL c (xs.take t)).drift = (runL (C07r.cfgR toR c) ((xs.map toR).take t)).drift := by
  have hlen : (xs.take t).length = t := by rw [List.length_take, Nat.min_eq_left ht]
  have h := drift_transfer_run sm c hc (xs.take t) (fun x hx => hfin x (List.mem_of_mem_take hx))
    (fun x hx => hM x (List.mem_of_mem_take hx)) (by rw [hlen]; exact hN) (by rw [hlen]; exact hsafe)
  rw [hlen, List.map_take] at h
  exact h hsep

/-- **Corollary (transfer of `C07.model_eq_spec`).**  The verdict of the ROUNDING run at step `t` is decided by the
textbook recurrence evaluated in EXACT arithmetic on the represented values:
`drift_t = (1 ≤ t ∧ minN ≤ t ∧ lambda < g_t)` with `g_t = C07.specG`. -/
theorem drift_eq_spec {M : ℝ} (sm : StdModelIEEE α fin toR u eta Omega Nmax) (c : Cfg α) (hc : CfgFin fin c)
    (xs : List α) (hfin : ∀ x ∈ xs, fin x) (hM : ∀ x ∈ xs, |toR x| ≤ M) (t : ℕ) (ht : t ≤ xs.length)
    (hN : t ≤ Nmax) (hsafe : Safe u eta Omega M (C07r.cfgR toR c) t)
    (hsep : c.minN ≤ t →
      sumErr u eta M (C07r.cfgR toR c) t < |specG (C07r.cfgR toR c) ((xs.map toR).take t) - toR c.lambda|) :
    (runL c (xs.take t)).drift
      = decide (1 ≤ t ∧ c.minN ≤ t ∧ toR c.lambda < specG (C07r.cfgR toR c) ((xs.map toR).take t)) := by
  have ht' : t ≤ (xs.map toR).length := by rw [List.length_map]; exact ht
  rw [drift_transfer sm c hc xs hfin hM t ht hN hsafe (by rw [run_sum]; exact hsep)]
  exact (model_eq_spec (C07r.cfgR toR c) (xs.map toR) t ht').2.2.2.2

/-! ### histories with resets -/

/-- **run_err_history.**  After ANY history (updates and resets interleaved arbitrarily) the bounds hold with
`t` = number of updates since the last reset; only the values since the last reset have to be finite and bounded by
`M`, and only their number has to be `≤ Nmax` (`reset` restores `init` exactly on every carrier, so neither rounding
errors nor a NaN survive a reset, and the counter restarts). -/
theorem run_err_history {M : ℝ} (sm : StdModelIEEE α fin toR u eta Omega Nmax) (c : Cfg α) (hc : CfgFin fin c)
    (ops : List (Op α)) (hfin : ∀ x ∈ sinceReset ops, fin x) (hM : ∀ x ∈ sinceReset ops, |toR x| ≤ M)
    (hN : (sinceReset ops).length ≤ Nmax)
    (hsafe : Safe u eta Omega M (C07r.cfgR toR c) (sinceReset ops).length) :
    fin ((CUSUMFam.machine c).run ops).mean.mean ∧ fin ((CUSUMFam.machine c).run ops).sum ∧
    |toR ((CUSUMFam.machine c).run ops).mean.mean
        - ((CUSUMFam.machine (C07r.cfgR toR c)).run (ops.map (C07r.opR toR))).mean.mean|
      ≤ meanErr u eta M (sinceReset ops).length ∧
    |toR ((CUSUMFam.machine c).run ops).sum
        - ((CUSUMFam.machine (C07r.cfgR toR c)).run (ops.map (C07r.opR toR))).sum|
      ≤ sumErr u eta M (C07r.cfgR toR c) (sinceReset ops).length := by
  rw [run_history, run_history, C07r.sinceReset_map]
  exact run_err sm c hc _ hfin hM hN hsafe

/-- **drift_transfer_history.**  The transfer theorem after any history with resets. -/
theorem drift_transfer_history {M : ℝ} (sm : StdModelIEEE α fin toR u eta Omega Nmax) (c : Cfg α)
    (hc : CfgFin fin c) (ops : List (Op α))
    (hfin : ∀ x ∈ sinceReset ops, fin x) (hM : ∀ x ∈ sinceReset ops, |toR x| ≤ M)
    (hN : (sinceReset ops).length ≤ Nmax)
    (hsafe : Safe u eta Omega M (C07r.cfgR toR c) (sinceReset ops).length)
    (hsep : c.minN ≤ (sinceReset ops).length →
      sumErr u eta M (C07r.cfgR toR c) (sinceReset ops).length
        < |((CUSUMFam.machine (C07r.cfgR toR c)).run (ops.map (C07r.opR toR))).sum - toR c.lambda|) :
    ((CUSUMFam.machine c).run ops).drift
      = ((CUSUMFam.machine (C07r.cfgR toR c)).run (ops.map (C07r.opR toR))).drift := by
  rw [run_history, run_history, C07r.sinceReset_map] at *
  exact drift_transfer_run sm c hc _ hfin hM hN hsafe hsep

/-- the whole verdict SEQUENCE of a history: if the hypotheses hold after every prefix of the history, the rounding
detector and the real detector raise exactly the same alarms at exactly the same places -/
theorem drift_transfer_history_all {M : ℝ} (sm : StdModelIEEE α fin toR u eta Omega Nmax) (c : Cfg α)
    (hc : CfgFin fin c) (ops : List (Op α))
    (hfin : ∀ k, ∀ x ∈ sinceReset (ops.take k), fin x)
    (hM : ∀ k, ∀ x ∈ sinceReset (ops.take k), |toR x| ≤ M)
    (hN : ∀ k, (sinceReset (ops.take k)).length ≤ Nmax)
    (hsafe : ∀ k, Safe u eta Omega M (C07r.cfgR toR c) (sinceReset (ops.take k)).length)
    (hsep : ∀ k, c.minN ≤ (sinceReset (ops.take k)).length →
      sumErr u eta M (C07r.cfgR toR c) (sinceReset (ops.take k)).length
        < |((CUSUMFam.machine (C07r.cfgR toR c)).run ((ops.map (C07r.opR toR)).take k)).sum - toR c.lambda|) :
    ∀ k, ((CUSUMFam.machine c).run (ops.take k)).drift
      = ((CUSUMFam.machine (C07r.cfgR toR c)).run ((ops.map (C07r.opR toR)).take k)).drift := by
  intro k
  have h := drift_transfer_history sm c hc (ops.take k) (hfin k) (hM k) (hN k) (hsafe k)
  rw [List.map_take] at h
  exact h (hsep k)

end Carrier

/-! ## 4b. Sharper bound from a bound on the real TRAJECTORY

`sumErr` and `SumSafe` use the a-priori bound `C07r.gBound` on `|g_t^ℝ|`, which for cusum grows like `t·(2M+|delta|)`.
If the real statistic is known to stay below `Gf k` at step `k`, the same analysis gives `sumErrG … Gf` and the
no-overflow condition `SumSafeG … Gf`. -/

noncomputable def sumErrG (u eta M : ℝ) (cR : Cfg ℝ) (Gf : ℕ → ℝ) : ℕ → ℝ
  | 0 => 0
  | t + 1 => sumStepErr u eta M cR (Gf t) (sumErrG u eta M cR Gf t) (meanErr u eta M (t + 1))

def SumSafeG (u eta Omega M : ℝ) (cR : Cfg ℝ) (Gf : ℕ → ℝ) (t : ℕ) : Prop :=
  ∀ k < t, sumMag u eta M cR (Gf k) (sumErrG u eta M cR Gf k) (meanErr u eta M (k + 1)) ≤ Omega

theorem sumErr_eq_sumErrG (u eta M : ℝ) (cR : Cfg ℝ) (t : ℕ) :
    sumErr u eta M cR t = sumErrG u eta M cR (C07r.gBound M cR) t := by
  induction t with
  | zero => rfl
  | succ t ih => rw [sumErr, sumErrG, ih]

theorem sumSafe_iff_sumSafeG (u eta Omega M : ℝ) (cR : Cfg ℝ) (t : ℕ) :
    SumSafe u eta Omega M cR t ↔ SumSafeG u eta Omega M cR (C07r.gBound M cR) t := by
  unfold SumSafe SumSafeG
  constructor <;> intro h k hk <;> have := h k hk
  · rwa [sumErr_eq_sumErrG] at this
  · rwa [sumErr_eq_sumErrG]

section Carrier
variable {α : Type} [Num α] {fin : α → Prop} {toR : α → ℝ} {u eta Omega : ℝ} {Nmax : ℕ}

/-- **sum_err_traj.**  `Gf k` bounds the real statistic after `k` updates, for every `k < t`. -/
theorem sum_err_traj {M : ℝ} (sm : StdModelIEEE α fin toR u eta Omega Nmax) (c : Cfg α) (hc : CfgFin fin c)
    (Gf : ℕ → ℝ) (xs : List α) (hfin : ∀ x ∈ xs, fin x) (hM : ∀ x ∈ xs, |toR x| ≤ M) (hN : xs.length ≤ Nmax)
    (hsafeM : MeanSafe u eta Omega M xs.length)
    (hsafeS : SumSafeG u eta Omega M (C07r.cfgR toR c) Gf xs.length)
    (hG : ∀ k < xs.length, |(runL (C07r.cfgR toR c) ((xs.map toR).take k)).sum| ≤ Gf k) :
    fin (runL c xs).sum ∧
    |toR (runL c xs).sum - (runL (C07r.cfgR toR c) (xs.map toR)).sum|
      ≤ sumErrG u eta M (C07r.cfgR toR c) Gf xs.length := by
  induction xs using List.reverseRecOn with
  | nil => exact ⟨sm.fin_zero, by simp [runL, init, sumErrG, sm.zero]⟩
  | append_singleton xs x ih =>
    have hlen : (xs ++ [x]).length = xs.length + 1 := by simp
    have hmean := mean_err sm (xs ++ [x]) hfin hM hN hsafeM
    have hG' : ∀ k < xs.length, |(runL (C07r.cfgR toR c) ((xs.map toR).take k)).sum| ≤ Gf k := by
      intro k hk
      have h := hG k (by rw [hlen]; omega)
      rwa [List.map_append, List.take_append_of_le_length (by rw [List.length_map]; omega)] at h
    have hGn : |(runL (C07r.cfgR toR c) (xs.map toR)).sum| ≤ Gf xs.length := by
      have h := hG xs.length (by rw [hlen]; omega)
      rwa [List.map_append, List.take_append_of_le_length (by rw [List.length_map]),
        List.take_of_length_le (by rw [List.length_map])] at h
    rw [hlen] at hN hsafeM hsafeS hmean
    have hM' : ∀ z ∈ xs, |toR z| ≤ M := fun z hz => hM z (by simp [hz])
    have hfin' : ∀ z ∈ xs, fin z := fun z hz => hfin z (by simp [hz])
    obtain ⟨ihf, ihs⟩ := ih hfin' hM' (by omega) (hsafeM.mono (by omega))
      (fun j hj => hsafeS j (by omega)) hG'
    have hx := hM x (by simp)
    have hM0 : 0 ≤ M := le_trans (abs_nonneg _) hx
    have hrm' : |((runL (C07r.cfgR toR c) (xs.map toR)).mean.update (toR x)).mean| ≤ M := by
      rw [run_mean, ← meanL_snoc]
      have := C07r.real_mean_bound hM0 _ (C07r.map_bound hM)
      rwa [List.map_append, List.map_singleton] at this
    rw [List.map_append, List.map_singleton, meanL_snoc, meanL_snoc, ← run_mean c xs,
      ← run_mean (C07r.cfgR toR c) (xs.map toR)] at hmean
    rw [List.map_append, List.map_singleton, runL_snoc, runL_snoc, hlen]
    exact updateSum_err sm c hc (by omega) (runL c xs).sum ((runL c xs).mean.update x).mean x
      (runL (C07r.cfgR toR c) (xs.map toR)).sum ((runL (C07r.cfgR toR c) (xs.map toR)).mean.update (toR x)).mean
      ihf hmean.1 (hfin x (by simp)) hx hrm' hmean.2 hGn ihs (hsafeS xs.length (by omega))

/-- the transfer theorem with the trajectory bound -/
theorem drift_transfer_traj {M : ℝ} (sm : StdModelIEEE α fin toR u eta Omega Nmax) (c : Cfg α) (hc : CfgFin fin c)
    (Gf : ℕ → ℝ) (xs : List α) (hfin : ∀ x ∈ xs, fin x) (hM : ∀ x ∈ xs, |toR x| ≤ M) (hN : xs.length ≤ Nmax)
    (hsafeM : MeanSafe u eta Omega M xs.length)
    (hsafeS : SumSafeG u eta Omega M (C07r.cfgR toR c) Gf xs.length)
    (hG : ∀ k < xs.length, |(runL (C07r.cfgR toR c) ((xs.map toR).take k)).sum| ≤ Gf k)
    (hsep : c.minN ≤ xs.length →
      sumErrG u eta M (C07r.cfgR toR c) Gf xs.length
        < |(runL (C07r.cfgR toR c) (xs.map toR)).sum - toR c.lambda|) :
    (runL c xs).drift = (runL (C07r.cfgR toR c) (xs.map toR)).drift := by
  obtain ⟨hfs, herr⟩ := sum_err_traj sm c hc Gf xs hfin hM hN hsafeM hsafeS hG
  exact drift_of_sum_err sm c hc.1 xs hfs herr hsep

end Carrier

/-! ## 5. Facts about the bound functions -/

/-- without underflow error (`eta = 0`) the bounds ARE the `C07r` bounds -/
theorem meanErr_eta_zero (u M : ℝ) (t : ℕ) : meanErr u 0 M t = C07r.meanErr u M t := by
  induction t with
  | zero => rfl
  | succ t ih => rw [meanErr, C07r.meanErr, ih, meanStepErr]; ring

theorem sumErr_eta_zero (u M : ℝ) (cR : Cfg ℝ) (t : ℕ) : sumErr u 0 M cR t = C07r.sumErr u M cR t := by
  induction t with
  | zero => rfl
  | succ t ih => rw [sumErr, C07r.sumErr, ih, meanErr_eta_zero, sumStepErr]; ring

/-- with exact arithmetic (`u = eta = 0`) the bounds vanish -/
theorem meanErr_zero (M : ℝ) (t : ℕ) : meanErr 0 0 M t = 0 := by
  rw [meanErr_eta_zero, C07r.meanErr_zero_u]

theorem sumErr_zero (M : ℝ) (cR : Cfg ℝ) (t : ℕ) : sumErr 0 0 M cR t = 0 := by
  rw [sumErr_eta_zero, C07r.sumErr_zero_u]

/-- the recursion of `meanErr` in the affine form `E (t+1) = a_t · E t + b_t` -/
theorem meanErr_succ (u eta M : ℝ) (t : ℕ) :
    meanErr u eta M (t + 1) =
      (1 - 1 / ((t + 1 : ℕ) : ℝ) + u + ((1 + u) ^ 3 - 1) / ((t + 1 : ℕ) : ℝ)) * meanErr u eta M t
        + ((u + 2 * ((1 + u) ^ 3 - 1) / ((t + 1 : ℕ) : ℝ)) * M + eta * (1 + u)) := by
  rw [meanErr, meanStepErr, C07r.meanStepErr]; ring

theorem meanErr_nonneg {u eta M : ℝ} (hu : 0 ≤ u) (he : 0 ≤ eta) (hM : 0 ≤ M) (t : ℕ) :
    0 ≤ meanErr u eta M t := by
  induction t with
  | zero => exact le_refl _
  | succ t ih =>
    have h1 := C07r.one_sub_inv_nonneg (t + 1) (by omega)
    have hγ : (0 : ℝ) ≤ (1 + u) ^ 3 - 1 := by
      have : (1 : ℝ) ≤ (1 + u) ^ 3 := one_le_pow₀ (by linarith)
      linarith
    rw [meanErr, meanStepErr, C07r.meanStepErr]
    positivity

theorem sumErr_nonneg {u eta M : ℝ} (hu : 0 ≤ u) (he : 0 ≤ eta) (hM : 0 ≤ M) (cR : Cfg ℝ) (t : ℕ) :
    0 ≤ sumErr u eta M cR t := by
  induction t with
  | zero => exact le_refl _
  | succ t ih =>
    rw [sumErr, sumStepErr]
    have h1 := C07r.sumStepErr_nonneg cR hu hM (C07r.gBound_nonneg hM cR t) ih
      (meanErr_nonneg hu he hM (t + 1))
    have h2 : 0 ≤ etaCount cR.kind * (eta * (1 + u)) := by
      unfold etaCount
      cases cR.kind <;> simp only [] <;> positivity
    linarith

/-- `meanMag` is monotone in the incoming error -/
theorem meanMag_mono {u eta M E E' : ℝ} (hu : 0 ≤ u) (hEE : E ≤ E') : meanMag u eta M E ≤ meanMag u eta M E' := by
  unfold meanMag
  have h1u : (0 : ℝ) ≤ (1 + u) * (1 + u) := by positivity
  nlinarith [mul_le_mul_of_nonneg_right hEE h1u]

/-- `sumMag` is monotone in the bound on the real statistic and in the two incoming errors -/
theorem sumMag_mono {u eta M G G' D D' E E' : ℝ} (cR : Cfg ℝ) (hu : 0 ≤ u)
    (hGG : G ≤ G') (hDD : D ≤ D') (hEE : E ≤ E') :
    sumMag u eta M cR G D E ≤ sumMag u eta M cR G' D' E' := by
  have h1u : (0 : ℝ) ≤ 1 + u := by linarith
  have ha := abs_nonneg cR.alpha
  have hb := abs_nonneg (1 - cR.alpha)
  unfold sumMag
  cases cR.kind with
  | cusum => simp only [cusumMag]; gcongr
  | pageHinkley => simp only [phMag]; gcongr
  | gma => simp only [gmaMag]; gcongr

/-- **`SumSafe` from ANY upper bounds**: if `Gb`, `Db`, `Eb` dominate `gBound k`, `sumErr k`, `meanErr (k+1)` for all
`k < t` (e.g. numerically evaluated maxima), ONE inequality `sumMag … Gb Db Eb ≤ Omega` implies `SumSafe`. -/
theorem sumSafe_of_bounds {u eta Omega M Gb Db Eb : ℝ} (cR : Cfg ℝ) (hu : 0 ≤ u) (t : ℕ)
    (hG : ∀ k < t, C07r.gBound M cR k ≤ Gb) (hD : ∀ k < t, sumErr u eta M cR k ≤ Db)
    (hE : ∀ k < t, meanErr u eta M (k + 1) ≤ Eb) (h : sumMag u eta M cR Gb Db Eb ≤ Omega) :
    SumSafe u eta Omega M cR t :=
  fun k hk => le_trans (sumMag_mono cR hu (hG k hk) (hD k hk) (hE k hk)) h

/-- **closed form for the running mean.**  For `(1+u)^3 ≤ 2` (true for `u ≤ 1/4`, in particular for `2^-53`):
`meanErr u eta M t ≤ (7 + 6u + 2u²)·M·((1+u)^t − 1) + t·eta·(1+u)^t`
(`≈ 7·t·u·M + t·eta` while `t·u ≪ 1`): the `C07r` closed form plus one underflow unit per update. -/
theorem meanErr_closed {u eta M : ℝ} (hu : 0 ≤ u) (hu3 : (1 + u) ^ 3 ≤ 2) (he : 0 ≤ eta) (hM : 0 ≤ M) (t : ℕ) :
    meanErr u eta M t ≤ (7 + 6 * u + 2 * u ^ 2) * M * ((1 + u) ^ t - 1) + (t : ℝ) * eta * (1 + u) ^ t := by
  induction t with
  | zero => simp [meanErr]
  | succ t ih =>
    have hE := meanErr_nonneg hu he hM t
    have hN : (1 : ℝ) ≤ ((t + 1 : ℕ) : ℝ) := by
      have : 1 ≤ t + 1 := by omega
      exact_mod_cast this
    have hNpos : (0 : ℝ) < ((t + 1 : ℕ) : ℝ) := by linarith
    have hγ0 : (0 : ℝ) ≤ (1 + u) ^ 3 - 1 := by
      have : (1 : ℝ) ≤ (1 + u) ^ 3 := one_le_pow₀ (by linarith)
      linarith
    have hγ1 : (1 + u) ^ 3 - 1 ≤ 1 := by linarith
    -- step inequality: E' ≤ (1+u) E + (u + 2γ) M + eta (1+u)
    have hstep : meanErr u eta M (t + 1)
        ≤ (1 + u) * meanErr u eta M t + (u + 2 * ((1 + u) ^ 3 - 1)) * M + eta * (1 + u) := by
      rw [meanErr, meanStepErr, C07r.meanStepErr]
      generalize ((t + 1 : ℕ) : ℝ) = N at hN hNpos
      generalize meanErr u eta M t = E at hE
      generalize (1 + u) ^ 3 - 1 = γ at hγ0 hγ1
      have hinv0 : 0 ≤ 1 / N := by positivity
      have hinv1 : 1 / N ≤ 1 := by rw [div_le_one hNpos]; exact hN
      have e : (2 * M + E) / N = (1 / N) * (2 * M + E) := by ring
      rw [e]
      nlinarith [mul_nonneg (mul_nonneg hinv0 hE) (sub_nonneg.mpr hγ1),
        mul_nonneg (mul_nonneg (sub_nonneg.mpr hinv1) hM) hγ0]
    have hK : u + 2 * ((1 + u) ^ 3 - 1) = (7 + 6 * u + 2 * u ^ 2) * u := by ring
    have h1u : (0 : ℝ) ≤ 1 + u := by linarith
    have hpow : (1 : ℝ) ≤ (1 + u) ^ t := one_le_pow₀ (by linarith)
    have hlast : eta * (1 + u) ≤ eta * (1 + u) ^ (t + 1) := by
      rw [pow_succ]
      have : eta * (1 + u) * 1 ≤ eta * (1 + u) * (1 + u) ^ t :=
        mul_le_mul_of_nonneg_left hpow (by positivity)
      linarith
    calc meanErr u eta M (t + 1)
        ≤ (1 + u) * meanErr u eta M t + (u + 2 * ((1 + u) ^ 3 - 1)) * M + eta * (1 + u) := hstep
      _ ≤ (1 + u) * ((7 + 6 * u + 2 * u ^ 2) * M * ((1 + u) ^ t - 1) + (t : ℝ) * eta * (1 + u) ^ t)
            + (u + 2 * ((1 + u) ^ 3 - 1)) * M + eta * (1 + u) ^ (t + 1) := by gcongr
      _ = (7 + 6 * u + 2 * u ^ 2) * M * ((1 + u) ^ (t + 1) - 1)
            + ((t + 1 : ℕ) : ℝ) * eta * (1 + u) ^ (t + 1) := by rw [hK]; push_cast; ring

/-- the closed form is monotone in `t` … -/
theorem closed_mono {u eta M : ℝ} (hu : 0 ≤ u) (he : 0 ≤ eta) (hM : 0 ≤ M) {k t : ℕ} (hk : k ≤ t) :
    (7 + 6 * u + 2 * u ^ 2) * M * ((1 + u) ^ k - 1) + (k : ℝ) * eta * (1 + u) ^ k
      ≤ (7 + 6 * u + 2 * u ^ 2) * M * ((1 + u) ^ t - 1) + (t : ℝ) * eta * (1 + u) ^ t := by
  have hp : (1 + u) ^ k ≤ (1 + u) ^ t := pow_le_pow_right₀ (by linarith) hk
  have hkt : (k : ℝ) ≤ (t : ℝ) := by exact_mod_cast hk
  have hk0 : (0 : ℝ) ≤ (1 + u) ^ k := by positivity
  gcongr

/-- … so ONE inequality at the final `t` implies `MeanSafe`: **closed sufficient condition for "the running mean
cannot overflow"**, checkable from `u, eta, M, t, Omega` alone. -/
theorem meanSafe_of_closed {u eta Omega M : ℝ} (hu : 0 ≤ u) (hu3 : (1 + u) ^ 3 ≤ 2) (he : 0 ≤ eta) (hM : 0 ≤ M)
    (t : ℕ)
    (h : meanMag u eta M ((7 + 6 * u + 2 * u ^ 2) * M * ((1 + u) ^ t - 1) + (t : ℝ) * eta * (1 + u) ^ t) ≤ Omega) :
    MeanSafe u eta Omega M t := by
  intro k hk
  refine le_trans (meanMag_mono hu ?_) h
  exact le_trans (meanErr_closed hu hu3 he hM k) (closed_mono hu he hM (le_of_lt hk))

/-- the size of the bound at binary64 scale (`u = 2^-53`, `eta = 2^-1075`): for streams of up to `2^20 ≈ 10^6` values
bounded by `M`, the computed running mean is within `M/2^29 + 2^-1054` of the exact one. -/
theorem meanErr_binary64_scale {M : ℝ} (hM : 0 ≤ M) (t : ℕ) (ht : t ≤ 2 ^ 20) :
    meanErr (1 / 2 ^ 53) (1 / 2 ^ 1075) M t ≤ M / 2 ^ 29 + 1 / 2 ^ 1054 := by
  have hu : (0 : ℝ) ≤ 1 / 2 ^ 53 := by positivity
  have he : (0 : ℝ) ≤ 1 / 2 ^ 1075 := by positivity
  have htR : (t : ℝ) ≤ 2 ^ 20 := by exact_mod_cast ht
  have ht0 : (0 : ℝ) ≤ (t : ℝ) := Nat.cast_nonneg t
  have hx : (t : ℝ) * (1 / 2 ^ 53) ≤ 1 / 2 ^ 33 := by
    calc (t : ℝ) * (1 / 2 ^ 53) ≤ 2 ^ 20 * (1 / 2 ^ 53) := by gcongr
      _ = 1 / 2 ^ 33 := by norm_num
  have hx0 : (0 : ℝ) ≤ (t : ℝ) * (1 / 2 ^ 53) := by positivity
  have hlt : (t : ℝ) * (1 / 2 ^ 53) < 1 := lt_of_le_of_lt hx (by norm_num)
  have hγ := C07r.gamma_bound hu t hlt
  have h := meanErr_closed hu (by norm_num) he hM t
  generalize (t : ℝ) * (1 / 2 ^ 53) = x at hx hx0 hlt hγ
  have h1x : 0 < 1 - x := by linarith
  have hfrac : x / (1 - x) ≤ 1 / 2 ^ 32 := by
    rw [div_le_iff₀ h1x]
    have : (1 : ℝ) / 2 ^ 33 ≤ 1 / 2 := by norm_num
    nlinarith
  have hg : (1 + (1 / 2 ^ 53 : ℝ)) ^ t - 1 ≤ 1 / 2 ^ 32 := le_trans hγ hfrac
  have hg0 : (0 : ℝ) ≤ (1 + (1 / 2 ^ 53 : ℝ)) ^ t - 1 := by
    have : (1 : ℝ) ≤ (1 + (1 / 2 ^ 53 : ℝ)) ^ t := one_le_pow₀ (by linarith)
    linarith
  have hp2 : (1 + (1 / 2 ^ 53 : ℝ)) ^ t ≤ 2 := by
    have : (1 : ℝ) / 2 ^ 32 ≤ 1 := by norm_num
    linarith
  have hK : (7 + 6 * (1 / 2 ^ 53 : ℝ) + 2 * (1 / 2 ^ 53) ^ 2) ≤ 8 := by norm_num
  calc meanErr (1 / 2 ^ 53) (1 / 2 ^ 1075) M t
      ≤ (7 + 6 * (1 / 2 ^ 53 : ℝ) + 2 * (1 / 2 ^ 53) ^ 2) * M * ((1 + (1 / 2 ^ 53 : ℝ)) ^ t - 1)
          + (t : ℝ) * (1 / 2 ^ 1075) * (1 + (1 / 2 ^ 53 : ℝ)) ^ t := h
    _ ≤ 8 * M * (1 / 2 ^ 32) + 2 ^ 20 * (1 / 2 ^ 1075) * 2 := by gcongr
    _ = M / 2 ^ 29 + 1 / 2 ^ 1054 := by
        have e : (2 : ℝ) ^ 1075 = 2 ^ 1054 * 2 ^ 21 := by rw [← pow_add]
        have hP : (0 : ℝ) < 2 ^ 1054 := by positivity
        rw [e]
        generalize (2 : ℝ) ^ 1054 = P at hP
        field_simp
        ring

/-- **the running mean cannot overflow at binary64 scale**: with the binary64 constants (`Omega ≥ 2^1023`), any
stream of at most `2^20` values of magnitude at most `2^1000` satisfies `MeanSafe` — the no-overflow hypothesis
of `mean_err` is a one-line check. -/
theorem meanSafe_binary64 {M Omega : ℝ} (hM : 0 ≤ M) (hM' : M ≤ 2 ^ 1000) (hO : 2 ^ 1023 ≤ Omega) (t : ℕ)
    (ht : t ≤ 2 ^ 20) : MeanSafe (1 / 2 ^ 53) (1 / 2 ^ 1075) Omega M t := by
  intro k hk
  have hE := meanErr_binary64_scale hM k (le_trans (le_of_lt hk) ht)
  have hE0 := meanErr_nonneg (u := 1 / 2 ^ 53) (eta := 1 / 2 ^ 1075) (by positivity) (by positivity) hM k
  refine le_trans ?_ hO
  generalize meanErr (1 / 2 ^ 53) (1 / 2 ^ 1075) M k = E at hE hE0
  have hE1 : E ≤ M + 1 := by
    have h1 : M / 2 ^ 29 ≤ M := div_le_self hM (by norm_num)
    have h2 : (1 : ℝ) / 2 ^ 1054 ≤ 1 := by
      rw [div_le_one (by positivity)]; exact one_le_pow₀ (by norm_num)
    generalize (1 : ℝ) / 2 ^ 1054 = e2 at hE h2
    linarith
  have hsq : (1 + (1 / 2 ^ 53 : ℝ)) * (1 + 1 / 2 ^ 53) ≤ 2 := by norm_num
  have heta : (1 : ℝ) / 2 ^ 1075 ≤ 1 := by
    rw [div_le_one (by positivity)]; exact one_le_pow₀ (by norm_num)
  unfold meanMag
  have hW : 0 ≤ M + (M + E) := by linarith
  have h3 : (M + (M + E)) * (1 + 1 / 2 ^ 53) * (1 + 1 / 2 ^ 53) ≤ (M + (M + E)) * 2 := by
    rw [mul_assoc]; exact mul_le_mul_of_nonneg_left hsq hW
  have hbig : (8 : ℝ) * 2 ^ 1000 + 4 ≤ 2 ^ 1023 := by
    have e : (2 : ℝ) ^ 1023 = 2 ^ 1000 * 2 ^ 23 := by rw [← pow_add]
    have h1 : (1 : ℝ) ≤ 2 ^ 1000 := one_le_pow₀ (by norm_num)
    rw [e]
    generalize (2 : ℝ) ^ 1000 = Q at h1
    norm_num
    linarith
  generalize (2 : ℝ) ^ 1000 = Q at hM' hbig
  generalize (2 : ℝ) ^ 1023 = R at hbig ⊢
  generalize (1 : ℝ) / 2 ^ 1075 = e at heta ⊢
  generalize (M + (M + E)) * (1 + 1 / 2 ^ 53) * (1 + 1 / 2 ^ 53) = T at h3 ⊢
  linarith

/-! ## 6. Non-vacuity: the hypothesis structure and the theorems on a FINITE carrier, and on one that rounds relatively -/

/-- satisfiable by the exact carrier at the binary64 constants (any `Omega`, `Nmax`), … -/
example : StdModelIEEE ℝ (fun _ => True) id 0 0 (2 ^ 1023) (2 ^ 53) := stdModelIEEE_real (by positivity) _
/-- … by a carrier with relative errors (`Biased u`: every `δ = u`), … -/
example : StdModelIEEE (Biased ((1 : ℝ) / 2 ^ 53)) (fun _ => True) Biased.val (1 / 2 ^ 53) (1 / 2 ^ 1075)
    (2 ^ 1023) (2 ^ 53) := stdModelIEEE_biased (by positivity) (by positivity) (by positivity) _
/-- … and by a FINITE carrier with NaN, overflow and underflow (which the old `StdModel` provably excludes). -/
example : ∃ (α : Type) (_ : Num α) (_ : Finite α) (fin : α → Prop) (toR : α → ℝ) (u eta Omega : ℝ) (Nmax : ℕ),
    StdModelIEEE α fin toR u eta Omega Nmax ∧ (∃ x, ¬ fin x) ∧ 0 < eta ∧ 1 ≤ Nmax := stdModelIEEE_finite_instance

/-- the example carrier: three decimals, range `±10000` (`K = 10^7`, `s = 1000`) plus NaN; finite -/
abbrev G3 : Type := Grid 10000000 1000

/-- the grid point `k/1000` -/
def g3 (k : ℤ) (h : |k| ≤ ((10000000 : ℕ) : ℤ) := by norm_num) : G3 := Grid.num k h

/-- `G3` with `u = 0`, `eta = 1/2000`, `Omega = 10000`, `Nmax = 10000` -/
theorem sm3 : StdModelIEEE G3 Grid.fin Grid.toR 0 (1 / 2000) 10000 10000 := by
  have h := stdModelIEEE_grid 10000000 1000 (by norm_num) (by norm_num)
  norm_num at h
  exact h

example : Finite G3 := inferInstance

theorem g3_bound {K s : ℕ} {M : ℝ} {xs : List (Grid K s)} {ks : List ℝ} (h : xs.map Grid.toR = ks)
    (hk : ∀ y ∈ ks, |y| ≤ M) :
    ∀ x ∈ xs, |Grid.toR x| ≤ M := fun x hx => hk _ (by rw [← h]; exact List.mem_map_of_mem hx)

/-- **non-vacuity of `run_err` and `drift_transfer_run` on the FINITE carrier** (cusum, `lambda = 1`, `delta = 0`,
`minN = 2`, stream `0, 0, 3`; the unused constant `alpha` is NaN).  All hypotheses hold — finite inputs, `M = 3`,
`3 ≤ Nmax`, `Safe` (six explicit inequalities), margin `1 > sumErr = 9/4000` — and the conclusions are the alarm at
`t = 3` and a statistic within `1/100` of the real value `2`. -/
example :
    (runL (⟨.cusum, g3 1000, g3 0, Grid.nan, 2⟩ : Cfg G3) [g3 0, g3 0, g3 3000]).drift = true ∧
    |Grid.toR (runL (⟨.cusum, g3 1000, g3 0, Grid.nan, 2⟩ : Cfg G3) [g3 0, g3 0, g3 3000]).sum - 2| ≤ 1 / 100 := by
  have hc : CfgFin Grid.fin (⟨.cusum, g3 1000, g3 0, Grid.nan, 2⟩ : Cfg G3) := ⟨trivial, trivial⟩
  have hcfg : C07r.cfgR Grid.toR (⟨.cusum, g3 1000, g3 0, Grid.nan, 2⟩ : Cfg G3) = ⟨.cusum, 1, 0, 0, 2⟩ := by
    simp [C07r.cfgR, g3, Grid.toR]
  have hmap : ([g3 0, g3 0, g3 3000] : List G3).map Grid.toR = [0, 0, 3] := by
    simp [g3, Grid.toR]; norm_num
  have hfin : ∀ x ∈ ([g3 0, g3 0, g3 3000] : List G3), Grid.fin x := by
    intro x hx
    simp only [List.mem_cons, List.not_mem_nil, or_false] at hx
    rcases hx with rfl | rfl | rfl <;> exact trivial
  have hM : ∀ x ∈ ([g3 0, g3 0, g3 3000] : List G3), |Grid.toR x| ≤ 3 := by
    apply g3_bound hmap
    intro y hy
    simp only [List.mem_cons, List.not_mem_nil, or_false] at hy
    rcases hy with rfl | rfl | rfl <;> norm_num
  have hreal : (runL (⟨.cusum, 1, 0, 0, 2⟩ : Cfg ℝ) [0, 0, 3]).sum = 2 := by
    rw [run_sum]; norm_num [specG, specFrom, specStep, amean]
  have hsafe : Safe 0 (1 / 2000) 10000 3
      (C07r.cfgR Grid.toR (⟨.cusum, g3 1000, g3 0, Grid.nan, 2⟩ : Cfg G3))
      ([g3 0, g3 0, g3 3000] : List G3).length := by
    rw [hcfg]
    constructor <;> intro k hk <;> simp only [List.length_cons, List.length_nil] at hk <;>
      interval_cases k <;>
      norm_num [meanMag, meanErr, meanStepErr, C07r.meanStepErr, sumMag, cusumMag, sumErr, sumStepErr,
        C07r.sumStepErr, C07r.cusumStepErr, C07r.gBound, C07r.gStep, etaCount]
  constructor
  · rw [drift_transfer_run sm3 _ hc _ hfin hM (by norm_num) hsafe, hcfg, hmap]
    · rw [run_drift]; norm_num [specG, specFrom, specStep, amean]
      exact List.cons_ne_nil _ _
    · intro _
      rw [hcfg, hmap, hreal]
      norm_num [sumErr, sumStepErr, C07r.sumStepErr, C07r.cusumStepErr, C07r.gBound, C07r.gStep, meanErr,
        meanStepErr, C07r.meanStepErr, etaCount, g3, Grid.toR]
  · have h := (run_err sm3 _ hc _ hfin hM (by norm_num) hsafe).2.2.2
    rw [hcfg, hmap, hreal] at h
    refine le_trans h ?_
    norm_num [sumErr, sumStepErr, C07r.sumStepErr, C07r.cusumStepErr, C07r.gBound, C07r.gStep, meanErr,
      meanStepErr, C07r.meanStepErr, etaCount]

/-- **non-vacuity for the other two kinds on the FINITE carrier** (Page-Hinkley and gma, `alpha = 1/2`, stream
`2, 4`): here `*` really rounds with an absolute error (the `eta` terms of the bound are exercised), all hypotheses
of `run_err` hold with `M = 4`, and the bound is a concrete small number. -/
example :
    |Grid.toR (runL (⟨.pageHinkley, g3 1000, g3 1000, g3 500, 1⟩ : Cfg G3) [g3 2000, g3 4000]).sum - (-1 / 2)|
      ≤ 1 / 100 ∧
    |Grid.toR (runL (⟨.gma, g3 1000, Grid.nan, g3 500, 1⟩ : Cfg G3) [g3 2000, g3 4000]).sum - 1 / 2| ≤ 1 / 100 := by
  have hmap : ([g3 2000, g3 4000] : List G3).map Grid.toR = [2, 4] := by
    simp [g3, Grid.toR]; norm_num
  have hfin : ∀ x ∈ ([g3 2000, g3 4000] : List G3), Grid.fin x := by
    intro x hx
    simp only [List.mem_cons, List.not_mem_nil, or_false] at hx
    rcases hx with rfl | rfl <;> exact trivial
  have hM : ∀ x ∈ ([g3 2000, g3 4000] : List G3), |Grid.toR x| ≤ 4 := by
    apply g3_bound hmap
    intro y hy
    simp only [List.mem_cons, List.not_mem_nil, or_false] at hy
    rcases hy with rfl | rfl <;> norm_num
  constructor
  · have hc : CfgFin Grid.fin (⟨.pageHinkley, g3 1000, g3 1000, g3 500, 1⟩ : Cfg G3) := ⟨trivial, trivial, trivial⟩
    have hcfg : C07r.cfgR Grid.toR (⟨.pageHinkley, g3 1000, g3 1000, g3 500, 1⟩ : Cfg G3)
        = ⟨.pageHinkley, 1, 1, 1 / 2, 1⟩ := by
      norm_num [C07r.cfgR, g3, Grid.toR]
    have hreal : (runL (⟨.pageHinkley, 1, 1, 1 / 2, 1⟩ : Cfg ℝ) [2, 4]).sum = -1 / 2 := by
      rw [run_sum]; norm_num [specG, specFrom, specStep, amean]
    have hsafe : Safe 0 (1 / 2000) 10000 4
        (C07r.cfgR Grid.toR (⟨.pageHinkley, g3 1000, g3 1000, g3 500, 1⟩ : Cfg G3))
        ([g3 2000, g3 4000] : List G3).length := by
      rw [hcfg]
      constructor <;> intro k hk <;> simp only [List.length_cons, List.length_nil] at hk <;>
        interval_cases k <;>
        norm_num [meanMag, meanErr, meanStepErr, C07r.meanStepErr, sumMag, phMag, sumErr, sumStepErr,
          C07r.sumStepErr, C07r.phStepErr, C07r.gBound, C07r.gStep, etaCount]
    have h := (run_err sm3 _ hc _ hfin hM (by norm_num) hsafe).2.2.2
    rw [hcfg, hmap, hreal] at h
    refine le_trans h ?_
    norm_num [sumErr, sumStepErr, C07r.sumStepErr, C07r.phStepErr, C07r.gBound, C07r.gStep, meanErr,
      meanStepErr, C07r.meanStepErr, etaCount]
  · have hc : CfgFin Grid.fin (⟨.gma, g3 1000, Grid.nan, g3 500, 1⟩ : Cfg G3) := ⟨trivial, trivial⟩
    have hcfg : C07r.cfgR Grid.toR (⟨.gma, g3 1000, Grid.nan, g3 500, 1⟩ : Cfg G3)
        = ⟨.gma, 1, 0, 1 / 2, 1⟩ := by
      norm_num [C07r.cfgR, g3, Grid.toR]
    have hreal : (runL (⟨.gma, 1, 0, 1 / 2, 1⟩ : Cfg ℝ) [2, 4]).sum = 1 / 2 := by
      rw [run_sum]; norm_num [specG, specFrom, specStep, amean]
    have hsafe : Safe 0 (1 / 2000) 10000 4
        (C07r.cfgR Grid.toR (⟨.gma, g3 1000, Grid.nan, g3 500, 1⟩ : Cfg G3))
        ([g3 2000, g3 4000] : List G3).length := by
      rw [hcfg]
      constructor <;> intro k hk <;> simp only [List.length_cons, List.length_nil] at hk <;>
        interval_cases k <;>
        norm_num [meanMag, meanErr, meanStepErr, C07r.meanStepErr, sumMag, gmaMag, sumErr, sumStepErr,
          C07r.sumStepErr, C07r.gmaStepErr, C07r.gBound, C07r.gStep, etaCount]
    have h := (run_err sm3 _ hc _ hfin hM (by norm_num) hsafe).2.2.2
    rw [hcfg, hmap, hreal] at h
    refine le_trans h ?_
    norm_num [sumErr, sumStepErr, C07r.sumStepErr, C07r.gmaStepErr, C07r.gBound, C07r.gStep, meanErr,
      meanStepErr, C07r.meanStepErr, etaCount]

/-- **non-vacuity with relative AND absolute error budget, small thresholds**: `Biased (1/1000)` (every operation
0.1 % too large) as an instance with `eta = 1/10^6`, `Omega = 100`, `Nmax = 5`; cusum, `lambda = 1`, `minN = 2`,
stream `0, 0, 3` (real statistic `2`, margin `1`): all hypotheses of `drift_transfer_run` hold and the conclusion
is the alarm at `t = 3`. -/
example :
    (runL (⟨.cusum, ⟨1⟩, ⟨0⟩, ⟨0⟩, 2⟩ : Cfg (Biased (1 / 1000))) [⟨0⟩, ⟨0⟩, ⟨3⟩]).drift = true := by
  have sm : StdModelIEEE (Biased (1 / 1000)) (fun _ => True) Biased.val (1 / 1000) (1 / 10 ^ 6) 100 5 :=
    stdModelIEEE_biased (by norm_num) (by norm_num) (by norm_num) 5
  have hc : CfgFin (fun _ => True) (⟨.cusum, ⟨1⟩, ⟨0⟩, ⟨0⟩, 2⟩ : Cfg (Biased (1 / 1000))) := ⟨trivial, trivial⟩
  have hM : ∀ x ∈ ([⟨0⟩, ⟨0⟩, ⟨3⟩] : List (Biased (1 / 1000))), |x.val| ≤ 3 := by
    intro x hx
    simp only [List.mem_cons, List.not_mem_nil, or_false] at hx
    rcases hx with rfl | rfl | rfl <;> norm_num
  have hcfg : C07r.cfgR Biased.val (⟨.cusum, ⟨1⟩, ⟨0⟩, ⟨0⟩, 2⟩ : Cfg (Biased (1 / 1000))) = ⟨.cusum, 1, 0, 0, 2⟩ :=
    rfl
  have hmap : ([⟨0⟩, ⟨0⟩, ⟨3⟩] : List (Biased (1 / 1000))).map Biased.val = [0, 0, 3] := rfl
  have hreal : (runL (⟨.cusum, 1, 0, 0, 2⟩ : Cfg ℝ) [0, 0, 3]).sum = 2 := by
    rw [run_sum]; norm_num [specG, specFrom, specStep, amean]
  have hsafe : Safe (1 / 1000) (1 / 10 ^ 6) 100 3
      (C07r.cfgR Biased.val (⟨.cusum, ⟨1⟩, ⟨0⟩, ⟨0⟩, 2⟩ : Cfg (Biased (1 / 1000))))
      ([⟨0⟩, ⟨0⟩, ⟨3⟩] : List (Biased (1 / 1000))).length := by
    rw [hcfg]
    constructor <;> intro k hk <;> simp only [List.length_cons, List.length_nil] at hk <;>
      interval_cases k <;>
      norm_num [meanMag, meanErr, meanStepErr, C07r.meanStepErr, sumMag, cusumMag, sumErr, sumStepErr,
        C07r.sumStepErr, C07r.cusumStepErr, C07r.gBound, C07r.gStep, etaCount]
  rw [drift_transfer_run sm _ hc _ (fun _ _ => trivial) hM (by norm_num) hsafe, hcfg, hmap]
  · rw [run_drift]; norm_num [specG, specFrom, specStep, amean]
    exact List.cons_ne_nil _ _
  · intro _
    rw [hcfg, hmap, hreal]
    norm_num [sumErr, sumStepErr, C07r.sumStepErr, C07r.cusumStepErr, C07r.gBound, C07r.gStep, meanErr,
      meanStepErr, C07r.meanStepErr, etaCount]

/-- **non-vacuity at the binary64 constants** (`u = 2^-53`, `eta = 2^-1075`, `Omega = 2^1023`, `Nmax = 2^53`) on the
carrier `Biased (2^-53)` (every operation off by the factor `1 + 2^-53`): all hypotheses of `mean_err` hold for the
stream `1, 2, 3` — `MeanSafe` by the one-line check `meanSafe_binary64` — and the computed mean is within
`3/2^29 + 2^-1054` of the exact one (`meanErr_binary64_scale`). -/
example :
    |((meanL ([⟨1⟩, ⟨2⟩, ⟨3⟩] : List (Biased (1 / 2 ^ 53)))).mean).val
        - (meanL (([⟨1⟩, ⟨2⟩, ⟨3⟩] : List (Biased (1 / 2 ^ 53))).map Biased.val)).mean|
      ≤ 3 / 2 ^ 29 + 1 / 2 ^ 1054 := by
  have sm : StdModelIEEE (Biased (1 / 2 ^ 53)) (fun _ => True) Biased.val (1 / 2 ^ 53) (1 / 2 ^ 1075) (2 ^ 1023)
      (2 ^ 53) := stdModelIEEE_biased (by positivity) (by positivity) (by positivity) _
  have hM : ∀ x ∈ ([⟨1⟩, ⟨2⟩, ⟨3⟩] : List (Biased (1 / 2 ^ 53))), |x.val| ≤ 3 := by
    intro x hx
    simp only [List.mem_cons, List.not_mem_nil, or_false] at hx
    rcases hx with rfl | rfl | rfl <;> norm_num
  have h3 : (3 : ℝ) ≤ 2 ^ 1000 :=
    le_trans (by norm_num : (3 : ℝ) ≤ 2 ^ 2) (pow_le_pow_right₀ (by norm_num) (by norm_num))
  have h := (mean_err sm _ (fun _ _ => trivial) hM (by norm_num)
    (meanSafe_binary64 (by norm_num) h3 (le_refl _) _ (by norm_num))).2
  exact le_trans h (meanErr_binary64_scale (by norm_num) _ (by norm_num))

/-! ## 7. Witnesses: neither the margin nor the no-overflow hypothesis can be dropped -/

theorem round_2000_3 : round ((2000 : ℝ) / 3) = 667 := by
  rw [round_eq, Int.floor_eq_iff]; constructor <;> norm_num

/-- **the margin hypothesis cannot be dropped — on the FINITE carrier, at `u = 0`.**  `G3`, cusum with
`lambda = 1.333`, `minN = 1`, stream `0, 0, 2`: every other hypothesis of `drift_transfer_run` holds
(finite inputs, `M = 2`, `3 ≤ Nmax`, `Safe`).  The real mean `2/3` is rounded to `0.667` by the division, so the
computed statistic is `1.333` (no alarm: `1.333 > 1.333` is false) while the real statistic is `4/3 > 1.333`
(alarm).  The real margin `1/3000` is below the bound `9/4000`, as it must be. -/
theorem margin_needed_witness :
    let c : Cfg G3 := ⟨.cusum, g3 1333, g3 0, g3 0, 1⟩
    let xs : List G3 := [g3 0, g3 0, g3 2000]
    CfgFin Grid.fin c ∧ (∀ x ∈ xs, Grid.fin x) ∧ (∀ x ∈ xs, |Grid.toR x| ≤ 2) ∧ xs.length ≤ 10000 ∧
    Safe 0 (1 / 2000) 10000 2 (C07r.cfgR Grid.toR c) xs.length ∧
    (runL c xs).drift = false ∧ (runL (C07r.cfgR Grid.toR c) (xs.map Grid.toR)).drift = true ∧
    ¬ sumErr 0 (1 / 2000) 2 (C07r.cfgR Grid.toR c) xs.length
        < |(runL (C07r.cfgR Grid.toR c) (xs.map Grid.toR)).sum - Grid.toR c.lambda| := by
  intro c xs
  have hcfg : C07r.cfgR Grid.toR c = ⟨.cusum, 1333 / 1000, 0, 0, 1⟩ := by
    norm_num [c, C07r.cfgR, g3, Grid.toR]
  have hmap : xs.map Grid.toR = [0, 0, 2] := by
    simp [xs, g3, Grid.toR]; norm_num
  have hreal : (runL (⟨.cusum, 1333 / 1000, 0, 0, 1⟩ : Cfg ℝ) [0, 0, 2]).sum = 4 / 3 := by
    rw [run_sum]; norm_num [specG, specFrom, specStep, amean]
  refine ⟨⟨trivial, trivial⟩, ?_, ?_, by simp [xs], ?_, ?_, ?_, ?_⟩
  · intro x hx
    simp only [xs, List.mem_cons, List.not_mem_nil, or_false] at hx
    rcases hx with rfl | rfl | rfl <;> exact trivial
  · apply g3_bound hmap
    intro y hy
    simp only [List.mem_cons, List.not_mem_nil, or_false] at hy
    rcases hy with rfl | rfl | rfl <;> norm_num
  · rw [hcfg]
    constructor <;> intro k hk <;> simp only [xs, List.length_cons, List.length_nil] at hk <;>
      interval_cases k <;>
      norm_num [meanMag, meanErr, meanStepErr, C07r.meanStepErr, sumMag, cusumMag, sumErr, sumStepErr,
        C07r.sumStepErr, C07r.cusumStepErr, C07r.gBound, C07r.gStep, etaCount]
  · simp only [c, xs, runL, List.foldl_cons, List.foldl_nil, step, init, updateSum, Mean.update, Mean.init,
      Num.max0, Num.zero, Num.gt, Grid.ofNat_def, g3]
    norm_num [Grid.pack, Grid.sub_num, Grid.div_num, Grid.add_num, Grid.lt_num, round_2000_3]
  · rw [hcfg, hmap, run_drift]; norm_num [specG, specFrom, specStep, amean]
    exact List.cons_ne_nil _ _
  · rw [hcfg, hmap, hreal]
    norm_num [c, xs, g3, Grid.toR, sumErr, sumStepErr, C07r.sumStepErr, C07r.cusumStepErr, C07r.gBound,
      C07r.gStep, meanErr, meanStepErr, C07r.meanStepErr, etaCount]

/-- a small grid: three decimals, range `±4` -/
abbrev G4 : Type := Grid 4000 1000
def g4 (k : ℤ) (h : |k| ≤ ((4000 : ℕ) : ℤ) := by norm_num) : G4 := Grid.num k h

theorem sm4 : StdModelIEEE G4 Grid.fin Grid.toR 0 (1 / 2000) 4 4 := by
  have h := stdModelIEEE_grid 4000 1000 (by norm_num) (by norm_num)
  norm_num at h
  exact h

/-- **the no-overflow hypothesis `Safe` cannot be dropped.**  On the finite carrier `G4` (`Omega = 4`), cusum with
`lambda = 1`, `minN = 1`, stream `4, −4, 4`: the carrier satisfies `StdModelIEEE`, inputs and constants are finite,
`|x_i| ≤ 4 = Omega`, `3 ≤ Nmax`, and the real margin `5/3` is far above the error bound `9/4000` — every hypothesis
of `drift_transfer_run` except `Safe`.  But `x_2 − mean_1 = −8` overflows to NaN, NaN propagates into the
statistic, `NaN > lambda` is false: the carrier never alarms while the real run does (`g_3 = 8/3 > 1`). -/
theorem safe_needed_witness :
    let c : Cfg G4 := ⟨.cusum, g4 1000, g4 0, g4 0, 1⟩
    let xs : List G4 := [g4 4000, g4 (-4000), g4 4000]
    CfgFin Grid.fin c ∧ (∀ x ∈ xs, Grid.fin x) ∧ (∀ x ∈ xs, |Grid.toR x| ≤ 4) ∧ xs.length ≤ 4 ∧
    (runL c xs).drift = false ∧ (runL (C07r.cfgR Grid.toR c) (xs.map Grid.toR)).drift = true ∧
    sumErr 0 (1 / 2000) 4 (C07r.cfgR Grid.toR c) xs.length
        < |(runL (C07r.cfgR Grid.toR c) (xs.map Grid.toR)).sum - Grid.toR c.lambda| ∧
    ¬ Safe 0 (1 / 2000) 4 4 (C07r.cfgR Grid.toR c) xs.length := by
  intro c xs
  have hcfg : C07r.cfgR Grid.toR c = ⟨.cusum, 1, 0, 0, 1⟩ := by
    norm_num [c, C07r.cfgR, g4, Grid.toR]
  have hmap : xs.map Grid.toR = [4, -4, 4] := by
    simp [xs, g4, Grid.toR]; norm_num
  have hreal : (runL (⟨.cusum, 1, 0, 0, 1⟩ : Cfg ℝ) [4, -4, 4]).sum = 8 / 3 := by
    rw [run_sum]; norm_num [specG, specFrom, specStep, amean]
  refine ⟨⟨trivial, trivial⟩, ?_, ?_, by simp [xs], ?_, ?_, ?_, ?_⟩
  · intro x hx
    simp only [xs, List.mem_cons, List.not_mem_nil, or_false] at hx
    rcases hx with rfl | rfl | rfl <;> exact trivial
  · apply g3_bound hmap
    intro y hy
    simp only [List.mem_cons, List.not_mem_nil, or_false] at hy
    rcases hy with rfl | rfl | rfl <;> norm_num
  · have m1 : (meanL [g4 4000]).mean = g4 4000 := by
      simp only [meanL, List.foldl_cons, List.foldl_nil, Mean.update, Mean.init, Num.zero, Grid.ofNat_def, g4]
      norm_num [Grid.pack, Grid.sub_num, Grid.div_num, Grid.add_num]
    have over : (g4 (-4000) - g4 4000 : G4) = Grid.nan := by
      simp only [g4, Grid.sub_num]
      norm_num [Grid.pack]
    have h2 : (runL c [g4 4000, g4 (-4000)]).mean.mean = Grid.nan := by
      rw [run_mean]
      show ((meanL [g4 4000]).update (g4 (-4000))).mean = Grid.nan
      simp only [Mean.update, m1, over, Grid.nan_div, Grid.add_nan]
    have e : xs = [g4 4000, g4 (-4000)] ++ [g4 4000] := rfl
    rw [e, runL_snoc]
    simp only [step, updateSum, Mean.update, h2, Grid.nan_add, Grid.sub_nan, Grid.nan_sub, Num.max0,
      Grid.nan_lt, Num.gt, c]
    simp only [if_false, Bool.false_eq_true]
    rw [Grid.lt_nan, Bool.and_false]
  · rw [hcfg, hmap, run_drift]; norm_num [specG, specFrom, specStep, amean]
    exact List.cons_ne_nil _ _
  · rw [hcfg, hmap, hreal]
    norm_num [c, xs, g4, Grid.toR, sumErr, sumStepErr, C07r.sumStepErr, C07r.cusumStepErr, C07r.gBound,
      C07r.gStep, meanErr, meanStepErr, C07r.meanStepErr, etaCount]
  · intro h
    have h0 := h.1 0 (by simp [xs])
    norm_num [meanMag, meanErr] at h0

/- UNPROVED (not attempted):
   * closed forms for `sumErr` (as in `C07r`): e.g. for cusum, `(1+u)^3 ≤ 2`, `t·u < 1`:
       `sumErr u eta M c t ≤ K·(M + |delta|)·t²·u/(1 − 3tu) + K'·t²·eta`   for explicit constants `K`, `K'`,
     and the corresponding ONE-inequality sufficient condition for `SumSafe` (the analogue of `meanSafe_of_closed`,
     `meanSafe_binary64`); `SumSafe` is stated and used as the explicit finite list of inequalities instead.
   * monotonicity of `meanErr`, `sumErr` in `t`, `M`, `u`, `eta` (monotonicity in `u` at `eta = 0` is `C07r.*_mono_u`).
   * `StdModelIEEE Float Float.isFinite toR (2^-53) (2^-1075) Omega (2^53)`: a statement about IEEE-754 hardware
     arithmetic, not provable in Lean (`Float` operations are opaque); it stays a hypothesis. -/

end Frouros.C07s

namespace Frouros.C07s
open Frouros CUSUMFam C07

/-- **A-posteriori form** (review T4): the margin is measured on the COMPUTED statistic - the quantity a user has - at twice the bound: if the statistic the
carrier run computed is farther from `lambda` than `2·sumErr`, its verdict is the verdict of the real run.  (In `drift_transfer*` the margin is a hypothesis on the
exact-arithmetic statistic, which the user does not have.) -/
theorem drift_transfer_posteriori {α : Type} [Num α] {fin : α → Prop} {toR : α → ℝ} {u eta Omega : ℝ} {Nmax : ℕ} {M : ℝ}
    (sm : StdModelIEEE α fin toR u eta Omega Nmax) (c : Cfg α) (hc : CfgFin fin c)
    (xs : List α) (hfin : ∀ x ∈ xs, fin x) (hM : ∀ x ∈ xs, |toR x| ≤ M) (hN : xs.length ≤ Nmax)
    (hsafe : Safe u eta Omega M (C07r.cfgR toR c) xs.length)
    (hsep : c.minN ≤ xs.length →
      2 * sumErr u eta M (C07r.cfgR toR c) xs.length < |toR (runL c xs).sum - toR c.lambda|) :
    (runL c xs).drift = (runL (C07r.cfgR toR c) (xs.map toR)).drift := by
  obtain ⟨hfs, herr⟩ := sum_err sm c hc xs hfin hM hN hsafe
  refine drift_of_sum_err sm c hc.1 xs hfs herr ?_
  intro h
  have h2 := hsep h
  have h3 : |toR (runL c xs).sum - toR c.lambda|
      ≤ |toR (runL c xs).sum - (runL (C07r.cfgR toR c) (xs.map toR)).sum|
        + |(runL (C07r.cfgR toR c) (xs.map toR)).sum - toR c.lambda| := by
    have := abs_add_le (toR (runL c xs).sum - (runL (C07r.cfgR toR c) (xs.map toR)).sum)
      ((runL (C07r.cfgR toR c) (xs.map toR)).sum - toR c.lambda)
    simpa using this
  linarith

/-- the finite grid satisfies the structure at every `u ≥ 0` as well (by `mono`): on it the relative part is vacuous (review T4) -/
theorem sm3_any_u : StdModelIEEE G3 Grid.fin Grid.toR (1 / 2 ^ 53) (1 / 2000) 10000 10000 :=
  sm3.mono (by positivity) (le_refl _) (le_refl _) (by norm_num) (le_refl _)

end Frouros.C07s

#print axioms Frouros.C07s.drift_transfer_posteriori
#print axioms Frouros.C07s.sm3_any_u
#print axioms Frouros.stdModelIEEE_real
#print axioms Frouros.stdModelIEEE_biased
#print axioms Frouros.stdModelIEEE_real_clip
#print axioms Frouros.stdModelIEEE_grid
#print axioms Frouros.stdModelIEEE_finite_instance
#print axioms Frouros.grid_not_stdModel
#print axioms Frouros.StdModelIEEE.of_stdModel
#print axioms Frouros.StdModelIEEE.mono
#print axioms Frouros.StdModel.not_finite
#print axioms Frouros.StdModel.unbounded
#print axioms Frouros.StdModel.no_underflow
#print axioms Frouros.Grid.finite
#print axioms Frouros.Grid.bounded
#print axioms Frouros.Grid.underflow_witness
#print axioms Frouros.Grid.overflow_witness
#print axioms Frouros.Grid.nan_le_witness
#print axioms Frouros.C07s.mean_step_err
#print axioms Frouros.C07s.updateSum_err
#print axioms Frouros.C07s.mean_err
#print axioms Frouros.C07s.sum_err
#print axioms Frouros.C07s.run_err
#print axioms Frouros.C07s.run_err_take
#print axioms Frouros.C07s.run_err_spec
#print axioms Frouros.C07s.run_err_history
#print axioms Frouros.C07s.drift_of_sum_err
#print axioms Frouros.C07s.drift_transfer_run
#print axioms Frouros.C07s.drift_transfer
#print axioms Frouros.C07s.drift_eq_spec
#print axioms Frouros.C07s.drift_transfer_history
#print axioms Frouros.C07s.drift_transfer_history_all
#print axioms Frouros.C07s.sum_err_traj
#print axioms Frouros.C07s.drift_transfer_traj
#print axioms Frouros.C07s.sumSafe_of_bounds
#print axioms Frouros.C07s.meanErr_eta_zero
#print axioms Frouros.C07s.sumErr_eta_zero
#print axioms Frouros.C07s.meanErr_zero
#print axioms Frouros.C07s.sumErr_zero
#print axioms Frouros.C07s.meanErr_succ
#print axioms Frouros.C07s.meanErr_closed
#print axioms Frouros.C07s.meanSafe_of_closed
#print axioms Frouros.C07s.meanErr_binary64_scale
#print axioms Frouros.C07s.meanSafe_binary64
#print axioms Frouros.C07s.sm3
#print axioms Frouros.C07s.margin_needed_witness
#print axioms Frouros.C07s.safe_needed_witness
