/-
  C01, constant-stream clause — no detector (BOCD excepted) raises a flag on a stream whose values
  are all identical.

  Shape of the statements.  For each detector `D` (packaged as a `Machine`, `FrourosProofs/Machines.lean`):
    * `D_const_inv`     an explicit invariant (closed forms: `mean = c`, `g = 0`, `s = 0`, …) holds after
                        EVERY history made of `update c` and `reset` operations (`ConstHist c ops`);
    * `D_const_resets`  hence no flag is up after any such history.  `ConstHist` is closed under
                        prefixes (`HistOf.of_prefix`), so this is "no flag at every prefix";
    * `D_const`         the stream form: folding `step` over `List.replicate k c` from `init` gives
                        `drift = false ∧ warning = false` for every `k` (every prefix of
                        `replicate k c` is some `replicate j c`, see `take_replicate_foldl`).
  All statements are at the carrier `ℝ`.  Hypotheses on the configuration are spelled out; each is
  implied by the validation table of the detector in `FrourosModel/Config.lean` unless the doc comment
  says otherwise (EDDM `alpha ≤ 1`, STEPD `alpha_w ≤ 1`, KSWIN `alpha < 1` are NOT validated: the
  `_witness` theorems show that a flag IS raised on a constant stream when they fail — findings).
-/
import FrourosProofs.Lemmas.ConstCommon
import FrourosProofs.Lemmas.ConstCusum
import FrourosProofs.Lemmas.ConstDDM
import FrourosProofs.Lemmas.ConstEDDM
import FrourosProofs.Lemmas.ConstHDDMA
import FrourosProofs.Lemmas.ConstSTEPD
import FrourosProofs.Lemmas.ConstKSWIN
import FrourosProofs.Lemmas.ConstHDDMW
import FrourosProofs.Lemmas.ConstHDDMWWitness
import FrourosProofs.Lemmas.ConstRDDM
import FrourosProofs.Lemmas.ConstADWIN

namespace Frouros.C01c
open Frouros

section Generic
variable {S V : Type}

/-- constant-history induction: `P` holds initially, is preserved by `reset` and by `step · c` -/
theorem const_run (M : Machine S V) {c : V} {P : S → Prop} (h0 : P M.init)
    (hs : ∀ s, P s → P (M.step s c)) (hr : ∀ s, P s → P (M.reset s))
    {ops : List (Op V)} (h : ConstHist c ops) : P (M.run ops) :=
  run_histOf M (· = c) P h0 (fun s v hv hp => by subst hv; exact hs s hp) hr ops h

/-- the state after the first `j` values of `replicate k c` is the state after `replicate (min j k) c` -/
theorem take_replicate_foldl (step : S → V → S) (init : S) (c : V) (k j : Nat) :
    ((List.replicate k c).take j).foldl step init = (List.replicate (min j k) c).foldl step init := by
  rw [List.take_replicate]

/-- no flag after a constant history ⇒ no flag at any prefix of it -/
theorem const_prefix (M : Machine S V) {c : V} {P : S → Prop}
    (H : ∀ ops, ConstHist c ops → P (M.run ops)) {ops pre : List (Op V)} (h : ConstHist c ops)
    (hp : pre <+: ops) : P (M.run pre) := H pre (HistOf.of_prefix h hp)
end Generic

/-! ## CUSUM, Page-Hinkley, geometric moving average  (any real constant `c`) -/

/-- Closed forms on a constant stream with resets: the running mean is exactly `c` once a value has
been seen, the statistic is `0` (cusum, gma) resp. `≤ 0` (Page-Hinkley), `drift = false`.
Hypotheses (all implied by `Config.cusum/pageHinkley/gma`): `0 ≤ lambda`; `0 ≤ delta` for cusum and
Page-Hinkley; `0 ≤ alpha` for Page-Hinkley.  Nothing is assumed for gma beyond `0 ≤ lambda`. -/
theorem cusum_const_inv (cfg : CUSUMFam.Cfg ℝ) (hl : 0 ≤ cfg.lambda)
    (hd : cfg.kind = .cusum ∨ cfg.kind = .pageHinkley → 0 ≤ cfg.delta)
    (ha : cfg.kind = .pageHinkley → 0 ≤ cfg.alpha) (c : ℝ) {ops : List (Op ℝ)} (h : ConstHist c ops) :
    Cusum.Inv cfg c ((CUSUMFam.machine cfg).run ops) :=
  const_run (CUSUMFam.machine cfg) (Cusum.inv_init cfg c) (fun _ hs => Cusum.inv_step ⟨hl, hd, ha⟩ hs)
    (fun s _ => Cusum.inv_reset cfg c s) h

theorem cusum_const_resets (cfg : CUSUMFam.Cfg ℝ) (hl : 0 ≤ cfg.lambda)
    (hd : cfg.kind = .cusum ∨ cfg.kind = .pageHinkley → 0 ≤ cfg.delta)
    (ha : cfg.kind = .pageHinkley → 0 ≤ cfg.alpha) (c : ℝ) {ops : List (Op ℝ)} (h : ConstHist c ops) :
    ((CUSUMFam.machine cfg).run ops).drift = false :=
  (cusum_const_inv cfg hl hd ha c h).drift

theorem cusum_const (cfg : CUSUMFam.Cfg ℝ) (hl : 0 ≤ cfg.lambda)
    (hd : cfg.kind = .cusum ∨ cfg.kind = .pageHinkley → 0 ≤ cfg.delta)
    (ha : cfg.kind = .pageHinkley → 0 ≤ cfg.alpha) (c : ℝ) (k : Nat) :
    ((List.replicate k c).foldl (CUSUMFam.step cfg) CUSUMFam.init).drift = false := by
  have := cusum_const_resets cfg hl hd ha c (constHist_replicate c k)
  rwa [← foldl_replicate_eq_run (CUSUMFam.machine cfg) c k] at this

/-- the closed forms, spelled out for the stream `c, c, …, c` (`k ≥ 1` values) -/
theorem cusum_const_closed_form (cfg : CUSUMFam.Cfg ℝ) (hl : 0 ≤ cfg.lambda)
    (hd : cfg.kind = .cusum ∨ cfg.kind = .pageHinkley → 0 ≤ cfg.delta)
    (ha : cfg.kind = .pageHinkley → 0 ≤ cfg.alpha) (c : ℝ) (k : Nat) (hk : 1 ≤ k) :
    let s := (List.replicate k c).foldl (CUSUMFam.step cfg) CUSUMFam.init
    s.mean.mean = c ∧ s.sum ≤ 0 ∧ (cfg.kind ≠ .pageHinkley → s.sum = 0) := by
  obtain ⟨j, rfl⟩ : ∃ j, k = j + 1 := ⟨k - 1, by omega⟩
  have h := cusum_const_inv cfg hl hd ha c (constHist_replicate c j)
  rw [← foldl_replicate_eq_run (CUSUMFam.machine cfg) c j] at h
  have h' := Cusum.inv_step ⟨hl, hd, ha⟩ h
  simp only [List.replicate_succ', List.foldl_append, List.foldl_cons, List.foldl_nil]
  exact ⟨meanConst_update_mean h.mean, h'.sum_le, h'.sum_eq⟩

/-- non-vacuity: the default-like configurations satisfy the hypotheses -/
example : ((List.replicate 50 (3 : ℝ)).foldl (CUSUMFam.step ⟨.cusum, 50, 1 / 200, 0, 30⟩) CUSUMFam.init).drift = false :=
  cusum_const _ (by norm_num) (by norm_num) (by simp) 3 50
example : ((List.replicate 50 (-2 : ℝ)).foldl (CUSUMFam.step ⟨.pageHinkley, 50, 1 / 200, 9999 / 10000, 30⟩) CUSUMFam.init).drift = false :=
  cusum_const _ (by norm_num) (by norm_num) (by norm_num) (-2) 50
example : ((List.replicate 50 (7 : ℝ)).foldl (CUSUMFam.step ⟨.gma, 1, 0, 99 / 100, 30⟩) CUSUMFam.init).drift = false :=
  cusum_const _ (by norm_num) (by simp) (by simp) 7 50

/-! ## DDM  (constant `c ∈ {0, 1}`; no hypothesis on the configuration at all) -/

/-- `p = c`, `s = 0`, `(p_min, s_min)` unset or `(c, 0)`, and no flag: `p + s > p_min + L s_min` reads
`c > c`, false for every level `L` -/
theorem ddm_const_inv (cfg : DDM.Cfg ℝ) (c : ℝ) (hc : c = 0 ∨ c = 1) {ops : List (Op ℝ)} (h : ConstHist c ops) :
    Ddm.Inv c ((DDM.machine cfg).run ops) :=
  const_run (DDM.machine cfg) (Ddm.inv_init c) (fun _ hs => Ddm.inv_step cfg hc hs) (fun s _ => Ddm.inv_reset c s) h

theorem ddm_const_resets (cfg : DDM.Cfg ℝ) (c : ℝ) (hc : c = 0 ∨ c = 1) {ops : List (Op ℝ)} (h : ConstHist c ops) :
    ((DDM.machine cfg).run ops).drift = false ∧ ((DDM.machine cfg).run ops).warning = false :=
  ⟨(ddm_const_inv cfg c hc h).drift, (ddm_const_inv cfg c hc h).warning⟩

theorem ddm_const (cfg : DDM.Cfg ℝ) (c : ℝ) (hc : c = 0 ∨ c = 1) (k : Nat) :
    ((List.replicate k c).foldl (DDM.step cfg) DDM.init).drift = false ∧
    ((List.replicate k c).foldl (DDM.step cfg) DDM.init).warning = false := by
  have := ddm_const_resets cfg c hc (constHist_replicate c k)
  rwa [← foldl_replicate_eq_run (DDM.machine cfg) c k] at this

example : ((List.replicate 100 (1 : ℝ)).foldl (DDM.step ⟨2, 3, 30⟩) DDM.init).warning = false :=
  (ddm_const _ 1 (Or.inr rfl) 100).2

/-! ## ECDD-WT  (constant `c ∈ {0, 1}`; needs `lam ≤ 1`, implied by `Config.ecdd`: `0 ≤ lam ≤ 1`) -/

/-- `p = c`, `z_t = c (1 - (1 - lam)^t)`, no flag (`p (1 - p) = 0` makes the control limit collapse
to `p`, and `z_t ≤ c = p`) -/
theorem ecdd_const_inv (cfg : ECDD.Cfg ℝ) (hlam : cfg.lam ≤ 1) (c : ℝ) (hc : c = 0 ∨ c = 1)
    {ops : List (Op ℝ)} (h : ConstHist c ops) : Ecdd.Inv cfg c ((ECDD.machine cfg).run ops) :=
  const_run (ECDD.machine cfg) (Ecdd.inv_init cfg c) (fun _ hs => Ecdd.inv_step hlam hc hs)
    (fun s _ => Ecdd.inv_reset cfg c s) h

theorem ecdd_const_resets (cfg : ECDD.Cfg ℝ) (hlam : cfg.lam ≤ 1) (c : ℝ) (hc : c = 0 ∨ c = 1)
    {ops : List (Op ℝ)} (h : ConstHist c ops) :
    ((ECDD.machine cfg).run ops).drift = false ∧ ((ECDD.machine cfg).run ops).warning = false :=
  ⟨(ecdd_const_inv cfg hlam c hc h).drift, (ecdd_const_inv cfg hlam c hc h).warning⟩

theorem ecdd_const (cfg : ECDD.Cfg ℝ) (hlam : cfg.lam ≤ 1) (c : ℝ) (hc : c = 0 ∨ c = 1) (k : Nat) :
    ((List.replicate k c).foldl (ECDD.step cfg) (ECDD.init cfg)).drift = false ∧
    ((List.replicate k c).foldl (ECDD.step cfg) (ECDD.init cfg)).warning = false := by
  have := ecdd_const_resets cfg hlam c hc (constHist_replicate c k)
  rwa [← foldl_replicate_eq_run (ECDD.machine cfg) c k] at this

example : ((List.replicate 100 (1 : ℝ)).foldl (ECDD.step ⟨1 / 5, 400, 1 / 2, 30⟩) (ECDD.init ⟨1 / 5, 400, 1 / 2, 30⟩)).drift = false :=
  (ecdd_const _ (by norm_num) 1 (Or.inr rfl) 100).1

/-! ## EDDM -/

/-- a constant other than `1` (e.g. `0`: no error ever) clears the flags at every step – for every
configuration -/
theorem eddm_const_ne_one_resets (cfg : EDDM.Cfg ℝ) (c : ℝ) (hc : c ≠ 1) {ops : List (Op ℝ)} (h : ConstHist c ops) :
    ((EDDM.machine cfg).run ops).drift = false ∧ ((EDDM.machine cfg).run ops).warning = false :=
  const_run (EDDM.machine cfg) (P := fun s => s.drift = false ∧ s.warning = false) ⟨rfl, rfl⟩
    (fun s _ => Eddm.step_ne_one cfg s hc) (fun _ _ => ⟨rfl, rfl⟩) h

/-- closed forms on the all-ones stream (every distance between errors is `1`): `mean = 1`, `var = 0`,
maximal threshold `1` once set – for every configuration -/
theorem eddm_ones_core (cfg : EDDM.Cfg ℝ) {ops : List (Op ℝ)} (h : ConstHist (1 : ℝ) ops) :
    Eddm.Core cfg ((EDDM.machine cfg).run ops) :=
  const_run (EDDM.machine cfg) (Eddm.core_init cfg) (fun _ hs => Eddm.core_step hs) (fun s _ => Eddm.core_reset cfg s) h

/-- All-ones stream: the ratio `(mean + level·std) / maxThr` is exactly `1`, so no flag is raised
provided `beta ≤ 1` and `alpha ≤ 1`.  `Config.eddm` validates `0 < beta < alpha` only: `alpha ≤ 1` is an
extra hypothesis (and `beta ≤ 1` follows from it); see `eddm_const_witness`. -/
theorem eddm_ones_resets (cfg : EDDM.Cfg ℝ) (hb : cfg.beta ≤ 1) (ha : cfg.alpha ≤ 1) {ops : List (Op ℝ)}
    (h : ConstHist (1 : ℝ) ops) :
    ((EDDM.machine cfg).run ops).drift = false ∧ ((EDDM.machine cfg).run ops).warning = false := by
  have := const_run (EDDM.machine cfg) (c := (1 : ℝ))
    (P := fun s => Eddm.Core cfg s ∧ s.drift = false ∧ s.warning = false)
    ⟨Eddm.core_init cfg, rfl, rfl⟩
    (fun s hs => ⟨Eddm.core_step hs.1, Eddm.flags_step hb ha hs.1 hs.2.1 hs.2.2⟩)
    (fun s _ => ⟨Eddm.core_reset cfg s, rfl, rfl⟩) h
  exact this.2

/-- EDDM, any constant `c ∈ ℝ`, validated configuration (`beta < alpha`) plus `alpha ≤ 1` -/
theorem eddm_const_resets (cfg : EDDM.Cfg ℝ) (hba : cfg.beta < cfg.alpha) (ha : cfg.alpha ≤ 1) (c : ℝ)
    {ops : List (Op ℝ)} (h : ConstHist c ops) :
    ((EDDM.machine cfg).run ops).drift = false ∧ ((EDDM.machine cfg).run ops).warning = false := by
  by_cases hc : c = 1
  · subst hc; exact eddm_ones_resets cfg (by linarith) ha h
  · exact eddm_const_ne_one_resets cfg c hc h

theorem eddm_const (cfg : EDDM.Cfg ℝ) (hba : cfg.beta < cfg.alpha) (ha : cfg.alpha ≤ 1) (c : ℝ) (k : Nat) :
    ((List.replicate k c).foldl (EDDM.step cfg) EDDM.init).drift = false ∧
    ((List.replicate k c).foldl (EDDM.step cfg) EDDM.init).warning = false := by
  have := eddm_const_resets cfg hba ha c (constHist_replicate c k)
  rwa [← foldl_replicate_eq_run (EDDM.machine cfg) c k] at this

example : ((List.replicate 100 (1 : ℝ)).foldl (EDDM.step ⟨95 / 100, 9 / 10, 2, 30⟩) EDDM.init).warning = false :=
  (eddm_const _ (by norm_num) (by norm_num) 1 100).2

/-- **Finding** (EDDM accepts `alpha > 1`): for every configuration with `beta ≤ 1 < alpha`, the
all-ones stream raises a *warning* at every step `k ≥ 2` with `k > minMis` -/
theorem eddm_const_witness (cfg : EDDM.Cfg ℝ) (hb : cfg.beta ≤ 1) (ha : 1 < cfg.alpha) (k : Nat)
    (hk : 2 ≤ k) (hmin : cfg.minMis < k) :
    ((List.replicate k (1 : ℝ)).foldl (EDDM.step cfg) EDDM.init).drift = false ∧
    ((List.replicate k (1 : ℝ)).foldl (EDDM.step cfg) EDDM.init).warning = true := by
  obtain ⟨j, rfl⟩ : ∃ j, k = j + 1 := ⟨k - 1, by omega⟩
  have hcore : Eddm.Core cfg ((List.replicate j (1 : ℝ)).foldl (EDDM.step cfg) EDDM.init) := by
    have := eddm_ones_core cfg (constHist_replicate (1 : ℝ) j)
    rwa [← foldl_replicate_eq_run (EDDM.machine cfg) (1 : ℝ) j] at this
  have hn : ((List.replicate j (1 : ℝ)).foldl (EDDM.step cfg) EDDM.init).n = j := by
    clear hcore hk hmin
    induction j with
    | zero => rfl
    | succ j ih =>
      rw [List.replicate_succ', List.foldl_append]
      simp only [List.foldl_cons, List.foldl_nil]
      rw [Eddm.step_one_n, ih]
  simp only [List.replicate_succ', List.foldl_append, List.foldl_cons, List.foldl_nil]
  exact Eddm.warn_step hb ha hcore (by rw [hn]; omega) (by rw [hn]; omega)

/-- a concrete instance of the finding: `alpha = 2`, `beta = 1/2` is accepted by `Config.eddm` -/
example : ((List.replicate 40 (1 : ℝ)).foldl (EDDM.step ⟨2, 1 / 2, 2, 30⟩) EDDM.init).warning = true :=
  (eddm_const_witness ⟨2, 1 / 2, 2, 30⟩ (by norm_num) (by norm_num) 40 (by norm_num) (by norm_num)).2

/-! ## HDDM-A  (any real constant `c`, one- and two-sided) -/

/-- The cut point moves at every step (`x = z`, and `y = z` in the two-sided test), so both tests see
`m = z.n - cut.n = 0` (a genuine `0`, not a truncated subtraction) and return no flag.
Needs `0 < alpha_d ≤ 1` (implied by `Config.hddma`): then `log(1/alpha_d) ≥ 0` and the Hoeffding bound
`sqrt(log(1/alpha_d) / (2n))` is antitone in `n`.  (For `alpha_d > 1` the model's real `sqrt` of a
negative number is the junk value `0`; the hypothesis excludes that.) -/
theorem hddma_const_inv (cfg : HDDMA.Cfg ℝ) (hpos : 0 < cfg.alphaD) (hle : cfg.alphaD ≤ 1) (c : ℝ)
    {ops : List (Op ℝ)} (h : ConstHist c ops) : Hddma.Inv cfg c ((HDDMA.machine cfg).run ops) :=
  const_run (HDDMA.machine cfg) (Hddma.inv_init cfg c) (fun _ hs => Hddma.inv_step ⟨hpos, hle⟩ hs)
    (fun s _ => Hddma.inv_reset cfg c s) h

theorem hddma_const_resets (cfg : HDDMA.Cfg ℝ) (hpos : 0 < cfg.alphaD) (hle : cfg.alphaD ≤ 1) (c : ℝ)
    {ops : List (Op ℝ)} (h : ConstHist c ops) :
    ((HDDMA.machine cfg).run ops).drift = false ∧ ((HDDMA.machine cfg).run ops).warning = false :=
  ⟨(hddma_const_inv cfg hpos hle c h).drift, (hddma_const_inv cfg hpos hle c h).warning⟩

theorem hddma_const (cfg : HDDMA.Cfg ℝ) (hpos : 0 < cfg.alphaD) (hle : cfg.alphaD ≤ 1) (c : ℝ) (k : Nat) :
    ((List.replicate k c).foldl (HDDMA.step cfg) HDDMA.init).drift = false ∧
    ((List.replicate k c).foldl (HDDMA.step cfg) HDDMA.init).warning = false := by
  have := hddma_const_resets cfg hpos hle c (constHist_replicate c k)
  rwa [← foldl_replicate_eq_run (HDDMA.machine cfg) c k] at this

example : ((List.replicate 100 (5 / 2 : ℝ)).foldl (HDDMA.step ⟨1 / 1000, 5 / 1000, true, 30⟩) HDDMA.init).warning = false :=
  (hddma_const _ (by norm_num) (by norm_num) (5 / 2) 100).2

/-! ## STEPD  (constant Boolean stream `b`; `sf` arbitrary) -/

/-- On a constant Boolean stream `p̂ (1 - p̂) = 0`, the statistic is `-inf` (`none`) and the p-value is
`1`; no flag provided `¬ 1 < alpha_d` and `¬ 1 < alpha_w`.  `Config.stepd` validates only
`0 < alpha_d < alpha_w`, so `alpha_w ≤ 1` is an extra hypothesis: see `stepd_const_witness`.
No hypothesis on `minN` (with `minN = 0` every update raises and the flags never change). -/
theorem stepd_const_inv (sf : ℝ → ℝ) (cfg : STEPD.Cfg ℝ) (hD : ¬ 1 < cfg.alphaD) (hW : ¬ 1 < cfg.alphaW)
    (b : Bool) {ops : List (Op Bool)} (h : ConstHist b ops) : Stepd.Inv b ((STEPD.machine sf cfg).run ops) :=
  const_run (STEPD.machine sf cfg) (Stepd.inv_init cfg b) (fun _ hs => Stepd.inv_step sf hD hW hs)
    (fun s _ => Stepd.inv_reset b s) h

theorem stepd_const_resets (sf : ℝ → ℝ) (cfg : STEPD.Cfg ℝ) (hD : ¬ 1 < cfg.alphaD) (hW : ¬ 1 < cfg.alphaW)
    (b : Bool) {ops : List (Op Bool)} (h : ConstHist b ops) :
    ((STEPD.machine sf cfg).run ops).drift = false ∧ ((STEPD.machine sf cfg).run ops).warning = false :=
  ⟨(stepd_const_inv sf cfg hD hW b h).drift, (stepd_const_inv sf cfg hD hW b h).warning⟩

theorem stepd_const (sf : ℝ → ℝ) (cfg : STEPD.Cfg ℝ) (hD : ¬ 1 < cfg.alphaD) (hW : ¬ 1 < cfg.alphaW)
    (b : Bool) (k : Nat) :
    ((List.replicate k b).foldl (STEPD.step sf cfg) (STEPD.init cfg)).drift = false ∧
    ((List.replicate k b).foldl (STEPD.step sf cfg) (STEPD.init cfg)).warning = false := by
  have := stepd_const_resets sf cfg hD hW b (constHist_replicate b k)
  rwa [← foldl_replicate_eq_run (STEPD.machine sf cfg) b k] at this

example (sf : ℝ → ℝ) :
    ((List.replicate 100 true).foldl (STEPD.step sf ⟨3 / 1000, 5 / 100, 30⟩) (STEPD.init (⟨3 / 1000, 5 / 100, 30⟩ : STEPD.Cfg ℝ))).warning = false :=
  (stepd_const sf _ (by norm_num) (by norm_num) true 100).2

/-- **Finding** (STEPD accepts `alpha_w > 1`): for every configuration with `minN ≥ 1`,
`¬ 1 < alpha_d` and `1 < alpha_w`, a constant stream raises a *warning* at every step `k ≥ 2 minN` -/
theorem stepd_const_witness (sf : ℝ → ℝ) (cfg : STEPD.Cfg ℝ) (hmin : 1 ≤ cfg.minN) (hD : ¬ 1 < cfg.alphaD)
    (hW : 1 < cfg.alphaW) (b : Bool) (k : Nat) (hk : 2 * cfg.minN ≤ k) :
    ((List.replicate k b).foldl (STEPD.step sf cfg) (STEPD.init cfg)).drift = false ∧
    ((List.replicate k b).foldl (STEPD.step sf cfg) (STEPD.init cfg)).warning = true := by
  obtain ⟨j, rfl⟩ : ∃ j, k = j + 1 := ⟨k - 1, by omega⟩
  -- after `j` values: the count invariant, the queue invariant and `n = j`
  have H : ∀ j : Nat, let s := (List.replicate j b).foldl (STEPD.step sf cfg) (STEPD.init cfg)
      Stepd.CInv b s ∧ Stepd.QInv cfg s ∧ s.n = j := by
    intro j
    induction j with
    | zero => exact ⟨Stepd.cinv_init cfg b, Stepd.qinv_init cfg, rfl⟩
    | succ j ih =>
      simp only [List.replicate_succ', List.foldl_append, List.foldl_cons, List.foldl_nil] at ih ⊢
      obtain ⟨hct, hq, hn⟩ := ih
      exact ⟨Stepd.cinv_step sf cfg hct, Stepd.qinv_step sf hq b, by rw [Stepd.step_n, hn]⟩
  obtain ⟨hct, hq, hn⟩ := H j
  simp only [List.replicate_succ', List.foldl_append, List.foldl_cons, List.foldl_nil] at hct hq hn ⊢
  obtain ⟨win, henq⟩ := Stepd.enqueue_succeeds hmin hq b
  exact Stepd.warn_step sf hD hW hct henq (by rw [hn]; exact hk)

/-- a concrete instance: `alpha_d = 1/2 < alpha_w = 2` is accepted by `Config.stepd` -/
example (sf : ℝ → ℝ) :
    ((List.replicate 60 false).foldl (STEPD.step sf ⟨1 / 2, 2, 30⟩) (STEPD.init (⟨1 / 2, 2, 30⟩ : STEPD.Cfg ℝ))).warning = true :=
  (stepd_const_witness sf ⟨1 / 2, 2, 30⟩ (by norm_num) (by norm_num) (by norm_num) false 60 (by norm_num)).2

/-! ## KSWIN  (any real constant `x`; the update also consumes the indices drawn by `np.random.choice`) -/

/-- what KSWIN is fed on the constant stream `x`: the value `x` and a tape of `numTest` in-range
indices into the older part of the window (`Kswin.TapeOk`) -/
def KswinConst (cfg : KSWIN.Cfg ℝ) (x : ℝ) (vt : ℝ × List Nat) : Prop := vt.1 = x ∧ Kswin.TapeOk cfg vt.2

/-- The window holds `min n minN` copies of `x` and `drift = false`, after every history of resets and
updates with `x` (whatever in-range indices are drawn).  Hypotheses:
`numTest ≤ minN` (implied by `Config.kswin`: `numTest ≤ minN / 2`);
`hks`: the p-value routine returns `1` on two identical constant samples of `numTest` values (true of
`ks_2samp`: `D = 0`) – implied by `∀ l, ksP l l = 1`;
`alpha < 1`: NOT validated (`Config.kswin` checks `alpha > 0` only), see `kswin_const_witness`. -/
theorem kswin_const_inv (ksP : List ℝ → List ℝ → ℝ) (cfg : KSWIN.Cfg ℝ) (hnt : cfg.numTest ≤ cfg.minN) (x : ℝ)
    (hks : ksP (List.replicate cfg.numTest x) (List.replicate cfg.numTest x) = 1) (ha : cfg.alpha < 1)
    {ops : List (Op (ℝ × List Nat))} (h : HistOf (KswinConst cfg x) ops) :
    Kswin.Inv cfg x ((KSWIN.machine ksP cfg).run ops) :=
  run_histOf (KSWIN.machine ksP cfg) (KswinConst cfg x) (Kswin.Inv cfg x) (Kswin.inv_init cfg x)
    (fun s vt hv hs => by
      obtain ⟨v, tape⟩ := vt
      obtain ⟨hv1, hv2⟩ := hv
      simp only at hv1 hv2; subst hv1
      exact Kswin.inv_step ksP hnt hks ha hs hv2)
    (fun s _ => Kswin.inv_reset cfg x s) ops h

theorem kswin_const_resets (ksP : List ℝ → List ℝ → ℝ) (cfg : KSWIN.Cfg ℝ) (hnt : cfg.numTest ≤ cfg.minN) (x : ℝ)
    (hks : ksP (List.replicate cfg.numTest x) (List.replicate cfg.numTest x) = 1) (ha : cfg.alpha < 1)
    {ops : List (Op (ℝ × List Nat))} (h : HistOf (KswinConst cfg x) ops) :
    ((KSWIN.machine ksP cfg).run ops).drift = false :=
  (kswin_const_inv ksP cfg hnt x hks ha h).drift

/-- stream form: the values are all `x`, the tapes arbitrary in-range index lists -/
theorem kswin_const (ksP : List ℝ → List ℝ → ℝ) (cfg : KSWIN.Cfg ℝ) (hnt : cfg.numTest ≤ cfg.minN) (x : ℝ)
    (hks : ksP (List.replicate cfg.numTest x) (List.replicate cfg.numTest x) = 1) (ha : cfg.alpha < 1)
    (tapes : List (List Nat)) (ht : ∀ t ∈ tapes, Kswin.TapeOk cfg t) :
    ((tapes.map (fun t => (x, t))).foldl (fun s vt => KSWIN.step ksP cfg s vt.1 vt.2) KSWIN.init).drift = false := by
  have := foldl_all (KSWIN.machine ksP cfg) (KswinConst cfg x) (Kswin.Inv cfg x) (Kswin.inv_init cfg x)
    (fun s vt hv hs => by
      obtain ⟨v, tape⟩ := vt
      obtain ⟨hv1, hv2⟩ := hv
      simp only at hv1 hv2; subst hv1
      exact Kswin.inv_step ksP hnt hks ha hs hv2)
    (tapes.map (fun t => (x, t)))
    (by
      intro v hv
      obtain ⟨t, ht1, rfl⟩ := List.mem_map.mp hv
      exact ⟨rfl, ht t ht1⟩)
  exact this.drift

/-- non-vacuity: `minN = 4`, `numTest = 2`, `alpha = 1/100`, a p-value routine that is `1` on identical
samples, tapes `[0, 1]` (in range: `< minN - numTest = 2`) -/
example : ((List.replicate 10 ((3 : ℝ), [0, 1])).foldl
    (fun s vt => KSWIN.step (fun a b => if a = b then 1 else 0) ⟨1 / 100, 4, 2⟩ s vt.1 vt.2) KSWIN.init).drift = false := by
  have := kswin_const (fun a b => if a = b then 1 else 0) ⟨1 / 100, 4, 2⟩ (by norm_num) 3 (by simp) (by norm_num)
    (List.replicate 10 [0, 1]) (by
      intro t ht; rw [List.mem_replicate] at ht; rw [ht.2]
      exact ⟨rfl, by intro i hi; simp at hi; rcases hi with rfl | rfl <;> norm_num⟩)
  simpa using this

/-- **Finding** (KSWIN accepts `alpha ≥ 1`): with `1 ≤ alpha`, a constant stream raises *drift* at
every step from the one that fills the window on (`k + 1 ≥ minN` values seen) -/
theorem kswin_const_witness (ksP : List ℝ → List ℝ → ℝ) (cfg : KSWIN.Cfg ℝ) (hnt : cfg.numTest ≤ cfg.minN) (x : ℝ)
    (hks : ksP (List.replicate cfg.numTest x) (List.replicate cfg.numTest x) = 1) (ha : 1 ≤ cfg.alpha)
    (tapes : List (List Nat)) (ht : ∀ t ∈ tapes, Kswin.TapeOk cfg t) (tape : List Nat) (htape : Kswin.TapeOk cfg tape)
    (hfull : cfg.minN ≤ tapes.length + 1) :
    (((tapes ++ [tape]).map (fun t => (x, t))).foldl (fun s vt => KSWIN.step ksP cfg s vt.1 vt.2) KSWIN.init).drift = true := by
  have H := foldl_all (KSWIN.machine ksP cfg) (KswinConst cfg x)
    (fun s => Kswin.WInv cfg x s) (Kswin.winv_init cfg x)
    (fun s vt hv hs => by
      obtain ⟨v, tp⟩ := vt
      obtain ⟨hv1, hv2⟩ := hv
      simp only at hv1 hv2; subst hv1
      exact Kswin.winv_step ksP hnt hs hv2)
    (tapes.map (fun t => (x, t)))
    (by
      intro v hv
      obtain ⟨t, ht1, rfl⟩ := List.mem_map.mp hv
      exact ⟨rfl, ht t ht1⟩)
  have hn : ∀ (l : List (ℝ × List Nat)) (s : KSWIN.State ℝ),
      (l.foldl (fun s vt => KSWIN.step ksP cfg s vt.1 vt.2) s).n = s.n + l.length := by
    intro l
    induction l with
    | nil => intro s; rfl
    | cons a l ih => intro s; rw [List.foldl_cons, ih, Kswin.step_n, List.length_cons]; omega
  rw [List.map_append, List.foldl_append]
  simp only [List.map_cons, List.map_nil, List.foldl_cons, List.foldl_nil]
  apply Kswin.drift_step ksP hnt hks ha H htape
  have := hn (tapes.map (fun t => (x, t))) KSWIN.init
  simp only [List.length_map] at this
  change cfg.minN ≤ (List.foldl (fun s vt => KSWIN.step ksP cfg s vt.1 vt.2) KSWIN.init (tapes.map (fun t => (x, t)))).n + 1
  rw [this]
  exact (by simpa [KSWIN.init] using hfull)

/-! ## HDDM-W -/

/-- Constant `0`: all five EWMA statistics stay `0`, the differences compared with the McDiarmid bounds
are `0 - 0`, and a square root is `≥ 0`: no flag, for EVERY configuration.  (Remark: the proof only uses
`sqrt ≥ 0`; under the validated configuration `0 < alpha ≤ 1`, `0 < lam ≤ 1` the radicands are `≥ 0`, so
this is not an artefact of `sqrt(negative) = 0`; and at IEEE doubles `0 > NaN` is false as well.) -/
theorem hddmw_const_zero_inv (cfg : HDDMW.Cfg ℝ) {ops : List (Op ℝ)} (h : ConstHist (0 : ℝ) ops) :
    Hddmw.Inv ((HDDMW.machine cfg).run ops) :=
  const_run (HDDMW.machine cfg) (Hddmw.inv_init cfg) (fun _ hs => Hddmw.inv_step cfg hs)
    (fun s _ => Hddmw.inv_reset cfg s) h

theorem hddmw_const_zero_resets (cfg : HDDMW.Cfg ℝ) {ops : List (Op ℝ)} (h : ConstHist (0 : ℝ) ops) :
    ((HDDMW.machine cfg).run ops).drift = false ∧ ((HDDMW.machine cfg).run ops).warning = false :=
  ⟨(hddmw_const_zero_inv cfg h).drift, (hddmw_const_zero_inv cfg h).warning⟩

theorem hddmw_const_zero (cfg : HDDMW.Cfg ℝ) (k : Nat) :
    ((List.replicate k (0 : ℝ)).foldl (HDDMW.step cfg) (HDDMW.init cfg)).drift = false ∧
    ((List.replicate k (0 : ℝ)).foldl (HDDMW.step cfg) (HDDMW.init cfg)).warning = false := by
  have := hddmw_const_zero_resets cfg (constHist_replicate (0 : ℝ) k)
  rwa [← foldl_replicate_eq_run (HDDMW.machine cfg) (0 : ℝ) k] at this

/-- The general claim "HDDM-W raises no flag on a constant stream" is FALSE for `c ≠ 0` (the EWMA statistics
start at `0`, so the stream `c, c, …` looks like a ramp `0 → c` to the test).  What is proved is the
case `c = 0` (`hddmw_const_zero*`, restated here); the refutation of the general statement is
`hddmw_const_witness` / `hddmw_const_general_false`. -/
theorem hddmw_const_partial (cfg : HDDMW.Cfg ℝ) {ops : List (Op ℝ)} (h : ConstHist (0 : ℝ) ops) :
    ((HDDMW.machine cfg).run ops).drift = false ∧ ((HDDMW.machine cfg).run ops).warning = false :=
  hddmw_const_zero_resets cfg h

/-- **Finding / witness**: the accepted configuration `alpha_d = 1/2`, `alpha_w = 1`, one-sided,
`lambda = 1/2`, `min_num_instances = 1` raises a *warning* at the third value of the all-ones stream
(`inc2.mean - inc1.mean = 3/4 - 1/2 > 0 = sqrt(ibc · log(1/alpha_w) / 2)`). -/
theorem hddmw_const_witness :
    ((List.replicate 3 (1 : ℝ)).foldl (HDDMW.step ⟨1 / 2, 1, false, 1 / 2, 1⟩) (HDDMW.init ⟨1 / 2, 1, false, 1 / 2, 1⟩)).drift = false ∧
    ((List.replicate 3 (1 : ℝ)).foldl (HDDMW.step ⟨1 / 2, 1, false, 1 / 2, 1⟩) (HDDMW.init ⟨1 / 2, 1, false, 1 / 2, 1⟩)).warning = true :=
  HddmwW.warning_on_ones

/-- the constant-stream clause fails for HDDM-W on validated configurations -/
theorem hddmw_const_general_false :
    ¬ ∀ (cfg : HDDMW.Cfg ℝ), 0 < cfg.alphaD → cfg.alphaD < cfg.alphaW → cfg.alphaW ≤ 1 → 0 < cfg.lam → cfg.lam ≤ 1 →
        1 ≤ cfg.minN → ∀ (c : ℝ) (k : Nat),
        ((List.replicate k c).foldl (HDDMW.step cfg) (HDDMW.init cfg)).drift = false ∧
        ((List.replicate k c).foldl (HDDMW.step cfg) (HDDMW.init cfg)).warning = false := by
  intro H
  have h := (H ⟨1 / 2, 1, false, 1 / 2, 1⟩ (by norm_num) (by norm_num) (by norm_num) (by norm_num) (by norm_num)
    (by norm_num) 1 3).2
  rw [hddmw_const_witness.2] at h
  cases h

/-! ## RDDM  (constant `c ∈ {0, 1}`; needs `minConcept ≥ 1`, implied by `Config.rddm`) -/

/-- Like DDM (`p = c`, `s = 0`, minimum unset or `(c, 0)`, no flag), and the periodic rebuild
(`n ≥ maxConcept` sets `rddm_drift`, the next update replays the prediction queue) keeps `p = c`: the
queue invariant `Rddm.QC` shows the replay reads only genuine entries, all equal to `c` (never the
`none ↦ 0` default), and that `enqueue` never raises.  No hypothesis on the levels, `minN`,
`maxConcept`, `maxWarn`. -/
theorem rddm_const_inv (cfg : RDDM.Cfg ℝ) (hcap : 1 ≤ cfg.minConcept) (c : ℝ) (hc : c = 0 ∨ c = 1)
    {ops : List (Op ℝ)} (h : ConstHist c ops) : Rddm.Inv cfg c ((RDDM.machine cfg).run ops) :=
  const_run (RDDM.machine cfg) (Rddm.inv_init hcap c) (fun _ hs => Rddm.inv_step cfg hc hs)
    (fun _ hs => Rddm.inv_reset hs) h

theorem rddm_const_resets (cfg : RDDM.Cfg ℝ) (hcap : 1 ≤ cfg.minConcept) (c : ℝ) (hc : c = 0 ∨ c = 1)
    {ops : List (Op ℝ)} (h : ConstHist c ops) :
    ((RDDM.machine cfg).run ops).drift = false ∧ ((RDDM.machine cfg).run ops).warning = false :=
  ⟨(rddm_const_inv cfg hcap c hc h).drift, (rddm_const_inv cfg hcap c hc h).warning⟩

theorem rddm_const (cfg : RDDM.Cfg ℝ) (hcap : 1 ≤ cfg.minConcept) (c : ℝ) (hc : c = 0 ∨ c = 1) (k : Nat) :
    ((List.replicate k c).foldl (RDDM.step cfg) (RDDM.init cfg)).drift = false ∧
    ((List.replicate k c).foldl (RDDM.step cfg) (RDDM.init cfg)).warning = false := by
  have := rddm_const_resets cfg hcap c hc (constHist_replicate c k)
  rwa [← foldl_replicate_eq_run (RDDM.machine cfg) c k] at this

/-- non-vacuity, with a small `maxConcept` so that the rebuild path is exercised many times -/
example : ((List.replicate 100 (1 : ℝ)).foldl (RDDM.step ⟨177 / 100, 2258 / 1000, 3, 10, 4, 5⟩)
    (RDDM.init ⟨177 / 100, 2258 / 1000, 3, 10, 4, 5⟩)).warning = false :=
  (rddm_const _ (by norm_num) 1 (Or.inr rfl) 100).2

/-! ## ADWIN  (any real constant `c`; needs `0 < delta ≤ 1`, implied by `Config.adwin`: `0 < delta < 1`) -/

/-- Representation invariant on a constant stream with resets: every entry of bucket row `i` has total
`2^i · c` (preserved by `_insert_bucket`/`_compress_buckets`), `total = width · c`, `variance = 0`; every
examined split therefore has equal means (`|c - c| = 0`, with `n0, n1 ≥ 1` genuinely: a split is only
tested when both sides exceed `minWindow`), and the threshold is `≥ 0` because `width ≥ 2` and
`0 < delta ≤ 1` make `log(2 log(width)/delta) ≥ 0` – so the shrinking loop never runs
(`Adwin.checkLoop_const`; in particular `_delete_bucket` is unreachable) and `drift = false`.
With `c ≥ 0` the `total ≥ 0` check of the setter never fails either (`err = false`). -/
theorem adwin_const_inv (cfg : ADWIN.Cfg ℝ) (hd : 0 < cfg.delta) (hd1 : cfg.delta ≤ 1) (c : ℝ)
    {ops : List (Op ℝ)} (h : ConstHist c ops) : Adwin.Inv c ((ADWIN.machine cfg).run ops) :=
  const_run (ADWIN.machine cfg) (Adwin.inv_init c) (fun _ hs => Adwin.inv_step hd hd1 hs)
    (fun s _ => Adwin.inv_reset c s) h

theorem adwin_const_resets (cfg : ADWIN.Cfg ℝ) (hd : 0 < cfg.delta) (hd1 : cfg.delta ≤ 1) (c : ℝ)
    {ops : List (Op ℝ)} (h : ConstHist c ops) : ((ADWIN.machine cfg).run ops).drift = false :=
  (adwin_const_inv cfg hd hd1 c h).drift

theorem adwin_const (cfg : ADWIN.Cfg ℝ) (hd : 0 < cfg.delta) (hd1 : cfg.delta ≤ 1) (c : ℝ) (k : Nat) :
    ((List.replicate k c).foldl (ADWIN.step cfg) ADWIN.init).drift = false := by
  have := adwin_const_resets cfg hd hd1 c (constHist_replicate c k)
  rwa [← foldl_replicate_eq_run (ADWIN.machine cfg) c k] at this

/-- for `c ≥ 0` the model's error flag (negative `total`) stays down as well -/
theorem adwin_const_no_error (cfg : ADWIN.Cfg ℝ) (hd : 0 < cfg.delta) (hd1 : cfg.delta ≤ 1) (c : ℝ) (hc : 0 ≤ c)
    {ops : List (Op ℝ)} (h : ConstHist c ops) : ((ADWIN.machine cfg).run ops).err = false :=
  (adwin_const_inv cfg hd hd1 c h).err hc

example : ((List.replicate 200 (3 / 10 : ℝ)).foldl (ADWIN.step ⟨32, 2 / 1000, 5, 5, 10⟩) ADWIN.init).drift = false :=
  adwin_const _ (by norm_num) (by norm_num) (3 / 10) 200

/-! ## Control-flow facts used above that hold for EVERY carrier (hence literally for IEEE doubles) -/
section AnyCarrier
variable {α : Type} [Num α]

/-- EDDM: a value that does not compare equal to `1` clears both flags, whatever the state -/
theorem eddm_step_no_error_any (cfg : EDDM.Cfg α) (s : EDDM.State α) (v : α) (hv : Num.beq v (Num.one : α) = false) :
    (EDDM.step cfg s v).drift = false ∧ (EDDM.step cfg s v).warning = false := by
  unfold EDDM.step
  simp only [hv]
  exact ⟨rfl, rfl⟩

/-- HDDM-A: a test whose cut point coincides with the current sample (`m = 0`) raises nothing -/
theorem hddma_side_self_any (cfg : HDDMA.Cfg α) (z : Mean α) (b : Bool) : HDDMA.side cfg z z b = (false, false) := by
  unfold HDDMA.side
  rw [Nat.sub_self]
  rfl

/-- STEPD: the window raises only when it has capacity 0, and then the flags are left untouched -/
theorem stepd_step_error_any (sf : α → α) (cfg : STEPD.Cfg α) (s : STEPD.State) (v : Bool) (e : Err)
    (h : s.win.enqueue v = .error e) :
    (STEPD.step sf cfg s v).drift = s.drift ∧ (STEPD.step sf cfg s v).warning = s.warning ∧
    s.win.q.isFull = true ∧ s.win.q.isEmpty = true := by
  refine ⟨?_, ?_, Stepd.enqueue_error h⟩
  · unfold STEPD.step; simp only [h]
  · unfold STEPD.step; simp only [h]
end AnyCarrier

/-! ## A history with resets (non-vacuity of the `_resets` theorems) -/
example : ((DDM.machine (⟨2, 3, 1⟩ : DDM.Cfg ℝ)).run [Op.update 1, Op.update 1, Op.reset, Op.update 1]).warning = false :=
  (ddm_const_resets _ 1 (Or.inr rfl) (constHist_example (1 : ℝ))).2

/-
  UNPROVED / FALSE (full statement), kept visible:
    ∀ (cfg : HDDMW.Cfg ℝ) accepted by `Config.hddmw`, ∀ (c : ℝ) (k : Nat),
      ((List.replicate k c).foldl (HDDMW.step cfg) (HDDMW.init cfg)).drift = false ∧ (…).warning = false
  This is refuted by `hddmw_const_general_false` (witness `hddmw_const_witness`); only `c = 0` holds
  (`hddmw_const_zero`, `hddmw_const_partial`).

  NOT PROVED (not needed): preservation of `Adwin.RowsFrom` by `ADWIN.deleteOldest`/`trimRows`.  On a
  constant stream `deleteOldest` is never executed (`Adwin.checkLoop_const`).
-/

/-! ## Axioms -/
#print axioms cusum_const_inv
#print axioms cusum_const_resets
#print axioms cusum_const
#print axioms cusum_const_closed_form
#print axioms ddm_const_inv
#print axioms ddm_const_resets
#print axioms ddm_const
#print axioms ecdd_const_inv
#print axioms ecdd_const_resets
#print axioms ecdd_const
#print axioms eddm_const_ne_one_resets
#print axioms eddm_ones_core
#print axioms eddm_ones_resets
#print axioms eddm_const_resets
#print axioms eddm_const
#print axioms eddm_const_witness
#print axioms hddma_const_inv
#print axioms hddma_const_resets
#print axioms hddma_const
#print axioms stepd_const_inv
#print axioms stepd_const_resets
#print axioms stepd_const
#print axioms stepd_const_witness
#print axioms kswin_const_inv
#print axioms kswin_const_resets
#print axioms kswin_const
#print axioms kswin_const_witness
#print axioms hddmw_const_zero_inv
#print axioms hddmw_const_zero_resets
#print axioms hddmw_const_zero
#print axioms hddmw_const_partial
#print axioms hddmw_const_witness
#print axioms hddmw_const_general_false
#print axioms rddm_const_inv
#print axioms rddm_const_resets
#print axioms rddm_const
#print axioms adwin_const_inv
#print axioms adwin_const_resets
#print axioms adwin_const
#print axioms adwin_const_no_error
#print axioms eddm_step_no_error_any
#print axioms hddma_side_self_any
#print axioms stepd_step_error_any

end Frouros.C01c
