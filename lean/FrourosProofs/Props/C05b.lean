/-
  C05b — ADWIN: the bound is pinned, every deletion is justified, a shrinking step exists, bucket counters.

  Model: `Frouros.ADWIN` in `FrourosModel/Window.lean` (unchanged).  Builds on `Props/C05.lean` and
  `Lemmas/ADWIN{Rows,Repr}.lean`.

  1. `threshold_none_iff` (every carrier), `threshold_spec`, `hit_iff`, `epsCut_genuine` (ℝ): the body of
     `ADWIN.threshold` is pinned to the closed form `epsCut`; for accepted `delta` it is positive and free of
     `log`/`sqrt`/`x/0`/truncated-subtraction junk.
  2. `scan_iff_exists`, `cutFound_iff_exists` (every carrier), `cutFound_iff_exceeds` (ℝ): the scan returns `true`
     iff SOME examined split passes the test.  `checkLoop_spec`, `checkLoop_trace`, `step_spec` (every carrier):
     `checkLoop` is `del^[k]` where EVERY one of the `k` deletions was applied to a state on which the scan had
     just returned `true`, and the loop stops at the first state where the scan returns `false`.
     `deletions_justified` (ℝ, run level): each deletion is justified by a declarative split `Exceeds` of the
     intermediate window, a suffix of the stream.
  3. `check_final_no_cut`, `drift_iff_deleted` (every carrier): fuel `numEntries s + 1` suffices; after the check no
     examined split passes; `drift = true` iff at least one entry was deleted at this update.
  4. `shrink_witness`, `detects_witness` (ℝ): accepted configuration + stream `0,0,0,0,100,100,100,100`.
  5. `step_numBuckets`, `numMax_trace`, `numMax_history`, `numBuckets_closed_form`, `reset_eq_init`,
     `numBuckets_gt_numMax_witness` (every carrier).
-/
import Mathlib.Analysis.SpecialFunctions.Log.Basic
import Mathlib.Analysis.SpecialFunctions.Sqrt
import Mathlib.Analysis.Complex.ExponentialBounds
import Mathlib.Tactic.Ring
import Mathlib.Tactic.Linarith
import Mathlib.Tactic.NormNum
import Mathlib.Tactic.Positivity
import FrourosProofs.Props.C05
import FrourosProofs.Props.C06
import FrourosProofs.Props.C19

namespace Frouros.C05b
open Frouros ADWIN Frouros.C05

/-! ## 1. The bound `eps_cut` is pinned -/

section AnyCarrier
variable {α : Type} [Num α]

/-- **threshold_none_iff** (every carrier, hence IEEE doubles).  `threshold` returns `none` ("never exceeded":
numpy's `1/int64(0) = inf`) EXACTLY when one of the two sub-window sizes equals `min_window_size + 1`. -/
theorem threshold_none_iff (c : Cfg α) (s : State α) (n0 n1 : Nat) :
    threshold c s n0 n1 = none ↔ n0 = c.minWindow + 1 ∨ n1 = c.minWindow + 1 := by
  unfold threshold
  by_cases h0 : n0 = c.minWindow + 1 <;> by_cases h1 : n1 = c.minWindow + 1 <;> simp [h0, h1]

end AnyCarrier

/-- ADWIN's bound `eps_cut`, written with REAL subtractions (no truncation):
`δ' = ln(2·ln(width)/delta)`, `m = 1/(n0 − k) + 1/(n1 − k)` with `k = min_window_size + 1`,
`eps_cut = √(2·m·(variance/width)·δ') + (2/3)·δ'·m`.  (`variance` is the un-normalised sum of squared deviations.) -/
noncomputable def epsCut (delta variance : ℝ) (width minWindow n0 n1 : ℕ) : ℝ :=
  let δ' := Real.log (2 * Real.log (width : ℝ) / delta)
  let m := 1 / ((n0 : ℝ) - ((minWindow : ℝ) + 1)) + 1 / ((n1 : ℝ) - ((minWindow : ℝ) + 1))
  Real.sqrt (2 * m * (variance / (width : ℝ)) * δ') + 2 / 3 * δ' * m

/-- **threshold_spec** (ℝ).  Under the guard with which `scan` calls it (`min_window_size < n0, n1`; this is what makes
the model's natural-number subtraction `n − (min_window_size+1)` a genuine subtraction), `threshold` is `none` on the two
`== k` cases and otherwise EXACTLY `epsCut`.  Any change to the body of `ADWIN.threshold` (constants `2`, `2/3`, the
nested logarithm, `variance/width`, the harmonic term, the `+1`) breaks this theorem. -/
theorem threshold_spec (c : Cfg ℝ) (s : State ℝ) (n0 n1 : Nat) (h0 : c.minWindow < n0) (h1 : c.minWindow < n1) :
    threshold c s n0 n1 =
      if n0 = c.minWindow + 1 ∨ n1 = c.minWindow + 1 then none
      else some (epsCut c.delta s.variance s.width c.minWindow n0 n1) := by
  have e0 : ((n0 - (c.minWindow + 1) : ℕ) : ℝ) = (n0 : ℝ) - ((c.minWindow : ℝ) + 1) := by
    rw [Nat.cast_sub (by omega)]; push_cast; ring
  have e1 : ((n1 - (c.minWindow + 1) : ℕ) : ℝ) = (n1 : ℝ) - ((c.minWindow : ℝ) + 1) := by
    rw [Nat.cast_sub (by omega)]; push_cast; ring
  unfold threshold epsCut
  by_cases g0 : n0 = c.minWindow + 1
  · simp [g0]
  by_cases g1 : n1 = c.minWindow + 1
  · simp [g1]
  have hg : (n0 == c.minWindow + 1 || n1 == c.minWindow + 1) = false := by simp [g0, g1]
  rw [if_neg (by rw [hg]; simp), if_neg (by tauto)]
  simp only [RealNum.ofNat_eq, RealNum.two_eq,
    RealNum.one_eq, RealNum.log_eq, RealNum.sqrt_eq, e0, e1]
  norm_num


/-! ## 2. the scan, declaratively (every carrier) -/
section Scan
variable {α : Type} [Num α]

/-- the Boolean test of ONE split exactly as `scan` evaluates it (sub-window sizes `n0`, `n1`, totals `t0`, `t1`):
both sizes exceed `min_window_size`, the threshold is not `none`, and `|t0/n0 − t1/n1| > threshold` -/
def hitB (c : Cfg α) (s : State α) (n0 n1 : Nat) (t0 t1 : α) : Bool :=
  if c.minWindow < n1 && c.minWindow < n0 then
    match threshold c s n0 n1 with
    | none => false
    | some thr => Num.gt (Num.abs (t0 / Num.ofNat n0 - t1 / Num.ofNat n1)) thr
  else false

theorem scan_cons (c : Cfg α) (s : State α) (sz : Nat) (t : α) (rest : List (Nat × α)) (n0 n1 : Nat) (t0 t1 : α) :
    scan c s ((sz, t) :: rest) n0 n1 t0 t1 =
      (hitB c s (n0 + sz) (n1 - sz) (t0 + t) (t1 - t) || scan c s rest (n0 + sz) (n1 - sz) (t0 + t) (t1 - t)) := by
  rw [scan.eq_2]
  unfold hitB
  cases (if (decide (c.minWindow < n1 - sz) && decide (c.minWindow < n0 + sz)) = true then
      match threshold c s (n0 + sz) (n1 - sz) with
      | none => false
      | some thr => Num.gt (Num.abs ((t0 + t) / Num.ofNat (n0 + sz) - (t1 - t) / Num.ofNat (n1 - sz))) thr
    else false) <;> rfl

/-- number of stream values summarised by the entries `P` -/
def sizeOf (P : List (Nat × α)) : Nat := (P.map Prod.fst).sum
/-- `((t0 + t₁) + t₂) + …` in the order and association of the loop -/
def addAll (t0 : α) (P : List (Nat × α)) : α := P.foldl (fun a e => a + e.2) t0
/-- `((t1 - t₁) - t₂) - …` -/
def subAll (t1 : α) (P : List (Nat × α)) : α := P.foldl (fun a e => a - e.2) t1

/-- **scan_iff_exists** (every carrier).  The scan returns `true` iff SOME non-empty prefix `P` of the examined
entries gives a split that passes the test `hitB`, evaluated with exactly the accumulators the loop has at that point:
sizes `n0 + Σ sizes P`, `n1 − Σ sizes P` and totals `((t0 + t₁) + t₂) + …`, `((t1 − t₁) − t₂) − …` (left-nested, as
executed — over `Float` the association matters). -/
theorem scan_iff_exists (c : Cfg α) (s : State α) (ex : List (Nat × α)) (n0 n1 : Nat) (t0 t1 : α) :
    scan c s ex n0 n1 t0 t1 = true ↔
      ∃ P Q, ex = P ++ Q ∧ P ≠ [] ∧
        hitB c s (n0 + sizeOf P) (n1 - sizeOf P) (addAll t0 P) (subAll t1 P) = true := by
  induction ex generalizing n0 n1 t0 t1 with
  | nil =>
    simp only [scan_nil, Bool.false_eq_true, false_iff]
    rintro ⟨P, Q, h, hne, _⟩
    exact hne (List.append_eq_nil_iff.mp h.symm).1
  | cons e ex ih =>
    obtain ⟨sz, t⟩ := e
    rw [scan_cons, Bool.or_eq_true, ih]
    have hconv : ∀ P' : List (Nat × α),
        hitB c s (n0 + sz + sizeOf P') (n1 - sz - sizeOf P') (addAll (t0 + t) P') (subAll (t1 - t) P') =
        hitB c s (n0 + sizeOf ((sz, t) :: P')) (n1 - sizeOf ((sz, t) :: P')) (addAll t0 ((sz, t) :: P'))
          (subAll t1 ((sz, t) :: P')) := by
      intro P'
      simp only [sizeOf, addAll, subAll, List.map_cons, List.sum_cons, List.foldl_cons]
      rw [Nat.add_assoc, Nat.sub_add_eq]
    constructor
    · rintro (h | ⟨P', Q, rfl, hne, hh⟩)
      · exact ⟨[(sz, t)], ex, rfl, by simp, by simpa [sizeOf, addAll, subAll] using h⟩
      · exact ⟨(sz, t) :: P', Q, rfl, by simp, by rw [← hconv]; exact hh⟩
    · rintro ⟨P, Q, heq, hne, hh⟩
      obtain ⟨e', P', rfl⟩ := List.exists_cons_of_ne_nil hne
      simp only [List.cons_append, List.cons.injEq] at heq
      obtain ⟨rfl, rfl⟩ := heq
      by_cases hP : P' = []
      · subst hP; left; simpa [sizeOf, addAll, subAll] using hh
      · right; exact ⟨P', Q, rfl, hP, by rw [hconv]; exact hh⟩


omit [Num α] in
theorem sizeOf_append (A B : List (Nat × α)) : sizeOf (A ++ B) = sizeOf A + sizeOf B := by
  simp [sizeOf]

omit [Num α] in
theorem sizeOf_entriesOf (i : Nat) (rows : List (List (α × α))) : sizeOf (entriesOf i rows) = wsum i rows := by
  induction rows generalizing i with
  | nil => rfl
  | cons r rs ih =>
    rw [entriesOf, sizeOf_append, ih, wsum_cons]
    have : sizeOf (r.map (fun e => (2 ^ i, e.1))) = 2 ^ i * r.length := by
      simp [sizeOf, Function.comp_def, Nat.mul_comm]
    omega

omit [Num α] in
theorem entriesOf_size_pos (i : Nat) (rows : List (List (α × α))) : ∀ e ∈ entriesOf i rows, 1 ≤ e.1 := by
  induction rows generalizing i with
  | nil => intro e he; cases he
  | cons r rs ih =>
    intro e he
    rw [entriesOf, List.mem_append] at he
    rcases he with he | he
    · exact ih _ e he
    · obtain ⟨x, _, rfl⟩ := List.mem_map.mp he
      exact Nat.one_le_two_pow

omit [Num α] in
/-- In a well-formed state every split the scan examines is PROPER: the older part `P` (non-empty by
construction) has fewer values than the window, so the newer part `width - sizeOf P` is a genuine
(non-truncated) positive difference. -/
theorem examined_size_lt (c : Cfg α) (s : State α) (h : WF c s) (P Q : List (Nat × α))
    (hex : examined s.rows = P ++ Q) : sizeOf P < s.width ∨ (P = [] ∧ s.width = 0) := by
  rw [examined_eq] at hex
  rcases List.eq_nil_or_concat (entriesOf 0 s.rows) with h0 | ⟨D, l, hD⟩
  · right
    rw [h0] at hex
    have hw : s.width = 0 := by rw [h.2, ← sizeOf_entriesOf, h0]; rfl
    simp at hex
    exact ⟨hex.1, hw⟩
  · left
    rw [List.concat_eq_append] at hD
    have hl : 1 ≤ l.1 := entriesOf_size_pos 0 s.rows l (by rw [hD]; simp)
    rw [hD, List.dropLast_concat] at hex
    have hw : s.width = sizeOf P + sizeOf Q + l.1 := by
      rw [h.2, ← sizeOf_entriesOf, hD, hex, sizeOf_append, sizeOf_append]; simp [sizeOf]
    omega

/-- **cutFound_iff_exists** (every carrier).  The scan of `checkLoop` on the state `s` succeeds iff some split of the
window after a non-empty prefix `P` of the examined entries (all entries except the newest) passes `hitB`.
By `examined_size_lt`, in a well-formed state `sizeOf P < width`, so `width − sizeOf P` does not truncate. -/
theorem cutFound_iff_exists (c : Cfg α) (s : State α) :
    cutFound c s = true ↔
      ∃ P Q, examined s.rows = P ++ Q ∧ P ≠ [] ∧
        hitB c s (sizeOf P) (s.width - sizeOf P) (addAll Num.zero P) (subAll s.total P) = true := by
  unfold cutFound
  rw [scan_iff_exists]
  simp only [Nat.zero_add]

/-! ## 2b. every deletion is justified (every carrier) -/

theorem iterate_del_succ (s : State α) (k : Nat) : del^[k + 1] s = del^[k] (del s) := rfl

theorem iterate_del_drift (s : State α) (k : Nat) (hk : 0 < k) : (del^[k] s).drift = true := by
  obtain ⟨j, rfl⟩ : ∃ j, k = j + 1 := ⟨k - 1, by omega⟩
  rw [Function.iterate_succ_apply']
  rfl

/-- **checkLoop_spec** (every carrier; `WF` = every reachable state, `C05.reachable_WF`, and the state after `insert`).
With fuel at least `numEntries s + 1` the loop returns `del^[k] s` for the unique `k` such that
* for EVERY `j < k` the scan on the intermediate state `del^[j] s` — the very state the `j+1`-st `deleteOldest` is applied
  to — returned `true`  (each deletion is justified, not only the first);
* the scan on the final state returns `false` (the loop did not stop for lack of fuel, and not a bucket more than needed
  was dropped: `k` is the FIRST index at which the scan fails);
* every intermediate state is well formed and each deletion removed exactly one entry. -/
theorem checkLoop_spec (c : Cfg α) (fuel : Nat) (s : State α) (h : WF c s) (hf : numEntries s + 1 ≤ fuel) :
    ∃ k, checkLoop c fuel s = del^[k] s
      ∧ (∀ j, j < k → cutFound c (del^[j] s) = true)
      ∧ cutFound c (del^[k] s) = false
      ∧ (∀ j, j ≤ k → WF c (del^[j] s) ∧ numEntries (del^[j] s) + j = numEntries s) := by
  induction fuel generalizing s with
  | zero => omega
  | succ f ih =>
    rw [checkLoop_succ]
    cases hc : cutFound c s with
    | false =>
      refine ⟨0, rfl, fun j hj => by omega, hc, fun j hj => ?_⟩
      obtain rfl : j = 0 := by omega
      exact ⟨h, rfl⟩
    | true =>
      obtain ⟨hwf, hlt, hne, _⟩ := WF_delete c s h (le_trans (by decide) (scan_true_two hc))
      have hpos : 0 < s.width := by omega
      simp only [if_true, hpos]
      have hne' : numEntries (del s) + 1 = numEntries s := hne
      obtain ⟨k, h1, h2, h3, h4⟩ := ih (del s) hwf (by omega)
      refine ⟨k + 1, h1, ?_, h3, ?_⟩
      · intro j hj
        cases j with
        | zero => exact hc
        | succ j => rw [iterate_del_succ]; exact h2 j (by omega)
      · intro j hj
        cases j with
        | zero => exact ⟨h, rfl⟩
        | succ j =>
          rw [iterate_del_succ]
          obtain ⟨h5, h6⟩ := h4 j (by omega)
          exact ⟨h5, by omega⟩

/-- the same for ANY state and ANY fuel (no well-formedness): whatever `checkLoop` returns, it got there
by applying `deleteOldest` only to states on which the scan had just returned `true`. -/
theorem checkLoop_trace (c : Cfg α) (fuel : Nat) (s : State α) :
    ∃ k, k ≤ fuel ∧ (∀ j, j < k → cutFound c (del^[j] s) = true) ∧
      (checkLoop c fuel s = del^[k] s ∨
        (cutFound c (del^[k] s) = true ∧ (del^[k] s).width = 0 ∧
          checkLoop c fuel s = { del^[k] s with drift := true })) := by
  induction fuel generalizing s with
  | zero => exact ⟨0, le_refl _, fun j hj => by omega, Or.inl rfl⟩
  | succ f ih =>
    rw [checkLoop_succ]
    cases hc : cutFound c s with
    | false => exact ⟨0, by omega, fun j hj => by omega, Or.inl rfl⟩
    | true =>
      by_cases hpos : 0 < s.width
      · simp only [if_true, hpos]
        obtain ⟨k, hk, h2, h3⟩ := ih (del s)
        refine ⟨k + 1, by omega, ?_, h3⟩
        intro j hj
        cases j with
        | zero => exact hc
        | succ j => rw [iterate_del_succ]; exact h2 j (by omega)
      · simp only [if_true, hpos, if_false]
        exact ⟨0, by omega, fun j hj => by omega, Or.inr ⟨hc, by simpa using hpos, rfl⟩⟩


/-- **step_spec** (every carrier).  One `update` = insertion followed by `k` justified deletions:
`k > 0` only if the check ran; when the check ran the final state has no passing split;
`drift = true ↔ k > 0`; exactly `k` entries disappeared. -/
theorem step_spec (c : Cfg α) (hm : 1 ≤ c.m) (s : State α) (hwf : WF c s) (v : α) :
    ∃ k, step c s v = del^[k] (afterInsert c s v)
      ∧ (∀ j, j < k → cutFound c (del^[j] (afterInsert c s v)) = true)
      ∧ (checkRuns c s → cutFound c (step c s v) = false)
      ∧ (0 < k → checkRuns c s)
      ∧ ((step c s v).drift = true ↔ 0 < k)
      ∧ numEntries (step c s v) + k = numEntries (afterInsert c s v)
      ∧ (∀ j, j ≤ k → WF c (del^[j] (afterInsert c s v))) := by
  have h1 := WF_afterInsert c hm s v hwf
  rw [step_eq]
  by_cases hr : checkRuns c s
  · rw [if_pos hr]
    obtain ⟨k, e, h2, h3, h4⟩ := checkLoop_spec c _ _ h1 (le_refl _)
    refine ⟨k, e, h2, fun _ => by rw [e]; exact h3, fun _ => hr, ?_, by rw [e]; exact (h4 k (le_refl _)).2,
      fun j hj => (h4 j hj).1⟩
    rw [e]
    constructor
    · intro hd
      rcases Nat.eq_zero_or_pos k with rfl | hk
      · simp at hd
      · exact hk
    · exact iterate_del_drift _ k
  · rw [if_neg hr]
    exact ⟨0, rfl, fun j hj => by omega, fun h => absurd h hr, fun h => by omega, by simp, rfl,
      fun j hj => by obtain rfl : j = 0 := by omega
                     exact h1⟩


/-- **check_final_no_cut** (every carrier).  Fuel `numEntries s + 1` suffices: on the final state `s'` of the loop the scan
returns `false`, i.e. NO examined split passes the test. -/
theorem check_final_no_cut (c : Cfg α) (s : State α) (h : WF c s) (fuel : Nat) (hf : numEntries s + 1 ≤ fuel) :
    let s' := checkLoop c fuel s
    scan c s' (examined s'.rows) 0 s'.width Num.zero s'.total = false ∧
    ∀ P Q, examined s'.rows = P ++ Q → P ≠ [] →
      hitB c s' (sizeOf P) (s'.width - sizeOf P) (addAll Num.zero P) (subAll s'.total P) = false := by
  intro s'
  have h1 : cutFound c s' = false := checkLoop_no_cut c fuel s h hf
  refine ⟨h1, fun P Q hex hne => ?_⟩
  cases hh : hitB c s' (sizeOf P) (s'.width - sizeOf P) (addAll Num.zero P) (subAll s'.total P) with
  | false => rfl
  | true =>
    have := (cutFound_iff_exists c s').2 ⟨P, Q, hex, hne, hh⟩
    rw [h1] at this; cases this

/-- **drift_iff_deleted** (every carrier, well-formed state, `1 ≤ m`).  `drift = true` iff at least one entry was
deleted at this update (equivalently, `C05.drift_iff_dropped`: iff the width is below `old width + 1`). -/
theorem drift_iff_deleted (c : Cfg α) (hm : 1 ≤ c.m) (s : State α) (hwf : WF c s) (v : α) :
    (step c s v).drift = true ↔ numEntries (step c s v) < numEntries (afterInsert c s v) := by
  obtain ⟨k, _, _, _, _, h5, h6, _⟩ := step_spec c hm s hwf v
  rw [h5]; omega

end Scan


/-! ## 2c. the test of one split over ℝ -/
section RealHit

/-- over ℝ the Boolean test is the proposition `C05.hit` -/
theorem hitB_iff_hit (c : Cfg ℝ) (s : State ℝ) (n0 n1 : Nat) (t0 t1 : ℝ) :
    hitB c s n0 n1 t0 t1 = true ↔ hit c s n0 n1 t0 t1 := by
  unfold hitB hit
  by_cases h1 : c.minWindow < n1 <;> by_cases h2 : c.minWindow < n0 <;>
    cases hthr : threshold c s n0 n1 <;> simp [h1, h2]

/-- **hit_iff** (ℝ).  The test of one split, with the bound pinned: both parts hold at least `min_window_size + 2`
values (`> min_window_size` and `≠ min_window_size + 1`) and `|t0/n0 − t1/n1| > epsCut`. -/
theorem hit_iff (c : Cfg ℝ) (s : State ℝ) (n0 n1 : Nat) (t0 t1 : ℝ) :
    hit c s n0 n1 t0 t1 ↔
      c.minWindow + 2 ≤ n0 ∧ c.minWindow + 2 ≤ n1 ∧
        epsCut c.delta s.variance s.width c.minWindow n0 n1 < |t0 / (n0 : ℝ) - t1 / (n1 : ℝ)| := by
  unfold hit
  constructor
  · rintro ⟨h1, h0, thr, hthr, hlt⟩
    rw [threshold_spec c s n0 n1 h0 h1] at hthr
    split_ifs at hthr with hg
    simp only [Option.some.injEq] at hthr
    subst hthr
    exact ⟨by omega, by omega, hlt⟩
  · rintro ⟨h0, h1, hlt⟩
    refine ⟨by omega, by omega, _, ?_, hlt⟩
    rw [threshold_spec c s n0 n1 (by omega) (by omega), if_neg (by omega)]

/-- `Exceeds delta minWindow W0 W1`: the split `W0 ++ W1` of a window passes ADWIN's test — stated on the
stream values only. -/
def Exceeds (delta : ℝ) (minWindow : ℕ) (W0 W1 : List ℝ) : Prop :=
  minWindow + 2 ≤ W0.length ∧ minWindow + 2 ≤ W1.length ∧
    epsCut delta (ssd (W0 ++ W1)) (W0 ++ W1).length minWindow W0.length W1.length < |mean W0 - mean W1|

/-- under the representation invariant the state-based test is the stream-based `Exceeds` -/
theorem hit_iff_exceeds (c : Cfg ℝ) (s : State ℝ) (xs : List ℝ) (B : List (List (List ℝ))) (h : ReprB s xs B)
    (P Q : List (List ℝ)) (hPQ : blocksOf B = P ++ Q) :
    hit c s P.flatten.length Q.flatten.length P.flatten.sum Q.flatten.sum ↔
      Exceeds c.delta c.minWindow P.flatten Q.flatten := by
  obtain ⟨_, _, _, hw, _, hv⟩ := h
  have hW : windowOf B = P.flatten ++ Q.flatten := by rw [windowOf_eq_flatten, hPQ, List.flatten_append]
  rw [hit_iff, hv, hw, hW]
  rfl

/-- **cutFound_iff_exceeds** (ℝ).  Under the representation invariant (`C05.repr`: holds after every history) the scan
returns `true` iff some PROPER split of the window along a bucket boundary satisfies the declarative `Exceeds`. -/
theorem cutFound_iff_exceeds (c : Cfg ℝ) (s : State ℝ) (xs : List ℝ) (B : List (List (List ℝ)))
    (h : ReprB s xs B) :
    cutFound c s = true ↔
      ∃ P Q, blocksOf B = P ++ Q ∧ P ≠ [] ∧ Q ≠ [] ∧ Exceeds c.delta c.minWindow P.flatten Q.flatten := by
  rw [cutFound_iff_split c s xs B h]
  constructor
  · rintro ⟨P, Q, h1, h2, h3, h4⟩
    exact ⟨P, Q, h1, h2, h3, (hit_iff_exceeds c s xs B h P Q h1).1 h4⟩
  · rintro ⟨P, Q, h1, h2, h3, h4⟩
    exact ⟨P, Q, h1, h2, h3, (hit_iff_exceeds c s xs B h P Q h1).2 h4⟩


/-! ### the bound is genuine (no `log`/`sqrt`/division junk) and positive -/

theorem log_two_ge_half : 1 / 2 ≤ Real.log 2 := by
  have h := Real.log_le_sub_one_of_pos (by norm_num : (0 : ℝ) < 2⁻¹)
  rw [Real.log_inv] at h
  linarith

theorem ssd_nonneg (L : List ℝ) : 0 ≤ ssd L := by
  unfold ssd
  apply List.sum_nonneg
  intro x hx
  obtain ⟨y, _, rfl⟩ := List.mem_map.mp hx
  positivity

/-- **epsCut_genuine** (ℝ).  For an accepted `delta ∈ (0,1)`, a non-negative `variance`, `width ≥ 2` and both parts of
size `≥ min_window_size + 2`: the argument of the outer logarithm is `> 1` (so `δ' > 0` is a genuine logarithm), both
denominators are positive (no `1/0`), the radicand is `≥ 0` (a genuine square root) and `eps_cut > 0`. -/
theorem epsCut_genuine {delta variance : ℝ} {width minWindow n0 n1 : ℕ} (hd : 0 < delta) (hd1 : delta < 1)
    (hv : 0 ≤ variance) (hw : 2 ≤ width) (h0 : minWindow + 2 ≤ n0) (h1 : minWindow + 2 ≤ n1) :
    1 < 2 * Real.log (width : ℝ) / delta
      ∧ 0 < Real.log (2 * Real.log (width : ℝ) / delta)
      ∧ 0 < (n0 : ℝ) - ((minWindow : ℝ) + 1) ∧ 0 < (n1 : ℝ) - ((minWindow : ℝ) + 1)
      ∧ 0 ≤ 2 * (1 / ((n0 : ℝ) - ((minWindow : ℝ) + 1)) + 1 / ((n1 : ℝ) - ((minWindow : ℝ) + 1)))
            * (variance / (width : ℝ)) * Real.log (2 * Real.log (width : ℝ) / delta)
      ∧ 0 < epsCut delta variance width minWindow n0 n1 := by
  have hlw : Real.log 2 ≤ Real.log (width : ℝ) := Real.log_le_log (by norm_num) (by exact_mod_cast hw)
  have h2 := log_two_ge_half
  have harg : 1 < 2 * Real.log (width : ℝ) / delta := by
    rw [lt_div_iff₀ hd]; linarith
  have hdp : 0 < Real.log (2 * Real.log (width : ℝ) / delta) := Real.log_pos harg
  have hn0 : (0 : ℝ) < (n0 : ℝ) - ((minWindow : ℝ) + 1) := by
    have : ((minWindow + 2 : ℕ) : ℝ) ≤ n0 := by exact_mod_cast h0
    push_cast at this; linarith
  have hn1 : (0 : ℝ) < (n1 : ℝ) - ((minWindow : ℝ) + 1) := by
    have : ((minWindow + 2 : ℕ) : ℝ) ≤ n1 := by exact_mod_cast h1
    push_cast at this; linarith
  have hwR : (0 : ℝ) < width := by exact_mod_cast (by omega : 0 < width)
  have hm : 0 < 1 / ((n0 : ℝ) - ((minWindow : ℝ) + 1)) + 1 / ((n1 : ℝ) - ((minWindow : ℝ) + 1)) := by positivity
  have hsq : 0 ≤ 2 * (1 / ((n0 : ℝ) - ((minWindow : ℝ) + 1)) + 1 / ((n1 : ℝ) - ((minWindow : ℝ) + 1)))
            * (variance / (width : ℝ)) * Real.log (2 * Real.log (width : ℝ) / delta) := by positivity
  refine ⟨harg, hdp, hn0, hn1, hsq, ?_⟩
  unfold epsCut
  have := Real.sqrt_nonneg (2 * (1 / ((n0 : ℝ) - ((minWindow : ℝ) + 1)) + 1 / ((n1 : ℝ) - ((minWindow : ℝ) + 1)))
            * (variance / (width : ℝ)) * Real.log (2 * Real.log (width : ℝ) / delta))
  have h3 : 0 < 2 / 3 * Real.log (2 * Real.log (width : ℝ) / delta) *
      (1 / ((n0 : ℝ) - ((minWindow : ℝ) + 1)) + 1 / ((n1 : ℝ) - ((minWindow : ℝ) + 1))) := by positivity
  simp only []
  linarith

/-- for an accepted `delta ∈ (0,1)` a split that passes the test has a POSITIVE bound, hence different means -/
theorem exceeds_means_differ {delta : ℝ} {minWindow : ℕ} {W0 W1 : List ℝ} (hd : 0 < delta) (hd1 : delta < 1)
    (h : Exceeds delta minWindow W0 W1) :
    0 < epsCut delta (ssd (W0 ++ W1)) (W0 ++ W1).length minWindow W0.length W1.length ∧ mean W0 ≠ mean W1 := by
  obtain ⟨h0, h1, hlt⟩ := h
  have hpos := (epsCut_genuine (variance := ssd (W0 ++ W1)) (width := (W0 ++ W1).length) hd hd1 (ssd_nonneg _)
    (by rw [List.length_append]; omega) h0 h1).2.2.2.2.2
  refine ⟨hpos, fun heq => ?_⟩
  rw [heq, sub_self, abs_zero] at hlt
  linarith

end RealHit


/-! ## 2d/3. every deletion of a run is justified by a declarative split; after the check none is left -/
section Run

theorem Repr_del (s : State ℝ) (xs : List ℝ) (h : Repr s xs) (h2 : 2 ≤ numEntries s) : Repr (del s) xs :=
  Repr_delete s xs h h2

theorem Repr_iterate_del (c : Cfg ℝ) (s : State ℝ) (xs : List ℝ) (h : Repr s xs) (k : Nat)
    (hcut : ∀ j, j < k → cutFound c (del^[j] s) = true) : ∀ j, j ≤ k → Repr (del^[j] s) xs := by
  intro j
  induction j with
  | zero => intro _; exact h
  | succ j ih =>
    intro hj
    rw [Function.iterate_succ_apply']
    exact Repr_del _ xs (ih (by omega)) (scan_true_two (hcut j (by omega)))

theorem run_snoc (c : Cfg ℝ) (ops : List (Op ℝ)) (v : ℝ) :
    (ADWIN.machine c).run (ops ++ [.update v]) = step c ((ADWIN.machine c).run ops) v := by
  simp [Machine.run, Machine.runFrom, List.foldl_append, Machine.apply, ADWIN.machine]

/-- **deletions_justified** (ℝ, run level, `1 ≤ m` = accepted).  For EVERY history `ops` (updates and resets, detections
without reset included) and every next value `v`: the update is "insert, then `k` deletions", `drift = true ↔ k > 0`,
`k > 0` only at a check, and for EVERY `j < k` the state the `j+1`-st deletion is applied to represents a suffix of the
stream since the last reset (ghost table `B`) that has a proper bucket-boundary split `W0 ++ W1` with
`|mean W0 − mean W1| > eps_cut` and both parts `≥ min_window_size + 2` long (`Exceeds`, stated on stream values only).
If the check ran, NO proper bucket-boundary split of the final window satisfies `Exceeds`. -/
theorem deletions_justified (c : Cfg ℝ) (hm : 1 ≤ c.m) (ops : List (Op ℝ)) (v : ℝ) :
    let s := (ADWIN.machine c).run ops
    let s' := (ADWIN.machine c).run (ops ++ [.update v])
    let xs := C05.sinceReset ops ++ [v]
    ∃ k, s' = del^[k] (afterInsert c s v)
      ∧ (s'.drift = true ↔ 0 < k)
      ∧ (0 < k → checkRuns c s)
      ∧ numEntries s' + k = numEntries (afterInsert c s v)
      ∧ (∀ j, j < k → ∃ B, ReprB (del^[j] (afterInsert c s v)) xs B ∧
            ∃ P Q, blocksOf B = P ++ Q ∧ P ≠ [] ∧ Q ≠ [] ∧ Exceeds c.delta c.minWindow P.flatten Q.flatten)
      ∧ (checkRuns c s → ∀ B, ReprB s' xs B →
            ∀ P Q, blocksOf B = P ++ Q → P ≠ [] → Q ≠ [] → ¬ Exceeds c.delta c.minWindow P.flatten Q.flatten) := by
  intro s s' xs
  have hwf : WF c s := reachable_WF c hm ((ADWIN.machine c).reachable_run ops)
  have hs' : s' = step c s v := run_snoc c ops v
  obtain ⟨k, e, h2, h3, h4, h5, h6, _⟩ := step_spec c hm s hwf v
  have hR0 : Repr (afterInsert c s v) xs := Repr_insert c _ _ v (repr c ops)
  have hR := Repr_iterate_del c _ xs hR0 k h2
  refine ⟨k, by rw [hs', e], by rw [hs']; exact h5, h4, by rw [hs']; exact h6, ?_, ?_⟩
  · intro j hj
    obtain ⟨B, hB⟩ := hR j (by omega)
    exact ⟨B, hB, (cutFound_iff_exceeds c _ xs B hB).1 (h2 j hj)⟩
  · intro hr B hB P Q h7 h8 h9 hex
    have := (cutFound_iff_exceeds c s' xs B hB).2 ⟨P, Q, h7, h8, h9, hex⟩
    rw [hs', h3 hr] at this
    cases this

end Run


/-! ## 4. A shrinking step exists: non-vacuity of every "a cut was found" hypothesis -/
section Witness

/-- accepted configuration: `clock = 1`, `delta = 0.9`, `m = 8`, `min_window_size = 1`, `min_num_instances = 7` -/
noncomputable def wc : Cfg ℝ := ⟨1, 9 / 10, 8, 1, 7⟩

/-- the state after the stream `0,0,0,0,100,100,100` -/
noncomputable def w7 : State ℝ :=
  { n := 7, drift := false,
    rows := [[(0, 0), (0, 0), (0, 0), (0, 0), (100, 0), (100, 0), (100, 0)]],
    total := 300, variance := 120000 / 7, width := 7, err := false, numBuckets := 7, numMaxBuckets := 7 }

/-- the state right after inserting the eighth value `100` (before the check) -/
noncomputable def w8 : State ℝ :=
  { n := 8, drift := false,
    rows := [[(0, 0), (0, 0), (0, 0), (0, 0), (100, 0), (100, 0), (100, 0), (100, 0)]],
    total := 400, variance := 20000, width := 8, err := false, numBuckets := 8, numMaxBuckets := 8 }

theorem w7_run : (ADWIN.machine wc).run ([0, 0, 0, 0, 100, 100, 100].map Op.update) = w7 := by
  simp [Machine.run, Machine.runFrom, Machine.apply, ADWIN.machine, step, ADWIN.insert, init, compress,
    compressMerges, wc, w7]
  norm_num

theorem w8_insert : afterInsert wc w7 100 = w8 := by
  simp [afterInsert, ADWIN.insert, compress, compressMerges, wc, w7, w8]
  norm_num

/-- `δ' = log(2·log 8 / 0.9) < 1.8` (from `log 2 < 0.6931471808`, `e > 2.7182818283`, `e^x ≥ 1 + x`) -/
theorem witness_dp_lt : Real.log (2 * Real.log (8 : ℝ) / (9 / 10)) < 9 / 5 := by
  have hl8 : Real.log (8 : ℝ) = 3 * Real.log 2 := by
    rw [show (8 : ℝ) = 2 ^ 3 by norm_num, Real.log_pow]; norm_num
  have hl2 := Real.log_two_lt_d9
  have hl2' : 0 < Real.log (2 : ℝ) := Real.log_pos (by norm_num)
  have hx : 0 < 2 * Real.log (8 : ℝ) / (9 / 10) := by rw [hl8]; positivity
  rw [Real.log_lt_iff_lt_exp hx]
  have he : Real.exp (9 / 5) = Real.exp 1 * Real.exp (4 / 5) := by rw [← Real.exp_add]; norm_num
  have h1 := Real.exp_one_gt_d9
  have h2 := Real.add_one_le_exp (4 / 5 : ℝ)
  have h3 : Real.exp 1 * (4 / 5 + 1) ≤ Real.exp 1 * Real.exp (4 / 5) :=
    mul_le_mul_of_nonneg_left h2 (Real.exp_pos 1).le
  rw [he, hl8]
  norm_num at hl2 h1 ⊢
  linarith

/-- the bound of the split 4|4 of the window `0,0,0,0,100,100,100,100` (`variance = 20000`, `width = 8`,
`min_window_size = 1`, `delta = 0.9`) is below the difference `100` of the two means:
`eps_cut = √(5000·δ') + (2/3)·δ' < 95 + 1.2`. -/
theorem witness_bound : epsCut (9 / 10) 20000 8 1 4 4 < 100 := by
  have hdp := witness_dp_lt
  have hpos : 0 < Real.log (2 * Real.log (8 : ℝ) / (9 / 10)) := by
    have := (epsCut_genuine (delta := 9 / 10) (variance := 0) (width := 8) (minWindow := 1) (n0 := 4) (n1 := 4)
      (by norm_num) (by norm_num) (le_refl _) (by norm_num) (by norm_num) (by norm_num)).2.1
    simpa using this
  simp only [epsCut, Nat.cast_ofNat, Nat.cast_one]
  generalize Real.log (2 * Real.log 8 / (9 / 10)) = L at hdp hpos ⊢
  have e1 : (2 * (1 / ((4 : ℝ) - (1 + 1)) + 1 / ((4 : ℝ) - (1 + 1))) * (20000 / 8) * L) = 5000 * L := by
    norm_num
  have e2 : (2 / 3 * L * (1 / ((4 : ℝ) - (1 + 1)) + 1 / ((4 : ℝ) - (1 + 1)))) = 2 / 3 * L := by norm_num
  rw [e1, e2]
  have hs : Real.sqrt (5000 * L) < 95 := by
    rw [Real.sqrt_lt' (by norm_num)]; linarith
  linarith

theorem witness_cut : cutFound wc w8 = true := by
  rw [cutFound_iff_exists]
  refine ⟨[(1, 0), (1, 0), (1, 0), (1, 0)], [(1, 100), (1, 100), (1, 100)], by simp [examined, w8], by simp, ?_⟩
  rw [hitB_iff_hit, hit_iff]
  refine ⟨by simp [wc, sizeOf], by simp [wc, sizeOf, w8], ?_⟩
  have hb := witness_bound
  have e3 : |addAll (Num.zero : ℝ) [(1, 0), (1, 0), (1, 0), (1, 0)] /
      ((sizeOf [((1 : ℕ), (0 : ℝ)), (1, 0), (1, 0), (1, 0)] : ℕ) : ℝ) -
      subAll w8.total [(1, 0), (1, 0), (1, 0), (1, 0)] /
      ((w8.width - sizeOf [((1 : ℕ), (0 : ℝ)), (1, 0), (1, 0), (1, 0)] : ℕ) : ℝ)| = 100 := by
    simp [w8, sizeOf, addAll, subAll]; norm_num
  rw [e3]
  simpa [wc, w8, sizeOf] using hb

/-- **shrink_witness** (ℝ).  The configuration `wc` is accepted by the constructor checks (`Config.adwin … = none`);
after the reachable state `s` produced by `0,0,0,0,100,100,100` (no check yet: `width ≤ min_num_instances = 7`) the
update with `100` runs the check, the scan finds the cut 4|4 (`eps_cut < 96.2 < 100 = |0 − 100|`), drift is reported,
the window is shorter than `s.width + 1` and at least one entry was deleted. -/
theorem shrink_witness :
    Config.adwin wc.delta (wc.clock : Int) (wc.m : Int) (wc.minWindow : Int) (wc.minN : Int) = none ∧
    (let s := (ADWIN.machine wc).run ([0, 0, 0, 0, 100, 100, 100].map Op.update)
     (ADWIN.machine wc).Reachable s ∧ s.width = 7 ∧ numEntries s = 7 ∧ checkRuns wc s ∧
       cutFound wc (afterInsert wc s 100) = true ∧
       (step wc s 100).drift = true ∧ (step wc s 100).width < s.width + 1 ∧
       numEntries (step wc s 100) < numEntries s + 1) := by
  refine ⟨by rw [C19.adwin_none_iff]; simp [wc]; norm_num, ?_⟩
  intro s
  have hreach : (ADWIN.machine wc).Reachable s := (ADWIN.machine wc).reachable_run _
  have hs : s = w7 := w7_run
  have hr : checkRuns wc s := by rw [hs]; simp [checkRuns, wc, w7]
  have hc : cutFound wc (afterInsert wc s 100) = true := by rw [hs, w8_insert]; exact witness_cut
  have hd : (step wc s 100).drift = true := (drift_iff_cut wc s 100).2 ⟨hr, hc⟩
  have hm : 1 ≤ wc.m := by simp [wc]
  have hw := (drift_iff_dropped_reachable wc hm hreach 100).1 hd
  obtain ⟨k, _, _, _, _, h5, h6, _⟩ := step_spec wc hm s (reachable_WF wc hm hreach) 100
  have hk : 0 < k := h5.1 hd
  have h8 : numEntries (afterInsert wc s 100) = 8 := by rw [hs, w8_insert]; simp [numEntries, w8]
  have h7 : numEntries s = 7 := by rw [hs]; simp [numEntries, w7]
  exact ⟨hreach, by rw [hs]; rfl, h7, hr, hc, hd, hw, by omega⟩

/-- run-level reading: an accepted configuration and a finite non-negative stream on which ADWIN reports drift
and the window after the update is shorter than the number of values seen -/
theorem detects_witness :
    ∃ (c : Cfg ℝ) (xs : List ℝ),
      Config.adwin c.delta (c.clock : Int) (c.m : Int) (c.minWindow : Int) (c.minN : Int) = none ∧
      (∀ x ∈ xs, 0 ≤ x) ∧
      ((ADWIN.machine c).run (xs.map Op.update)).drift = true ∧
      ((ADWIN.machine c).run (xs.map Op.update)).width < xs.length := by
  obtain ⟨hacc, _, hw7, _, _, _, hd, hw, _⟩ := shrink_witness
  refine ⟨wc, [0, 0, 0, 0, 100, 100, 100] ++ [100], hacc, by simp, ?_, ?_⟩
  · rw [List.map_append, List.map_singleton, run_snoc]; exact hd
  · rw [List.map_append, List.map_singleton, run_snoc]
    simp only [List.length_append, List.length_cons, List.length_nil]
    omega

/-- the declarative predicate `Exceeds` is satisfiable with an accepted `delta` -/
example : Exceeds (9 / 10) 1 [0, 0, 0, 0] [100, 100, 100, 100] := by
  refine ⟨by simp, by simp, ?_⟩
  have e1 : ssd ([0, 0, 0, 0] ++ [100, 100, 100, 100] : List ℝ) = 20000 := by
    simp [ssd, mean]; norm_num
  have e2 : |mean ([0, 0, 0, 0] : List ℝ) - mean [100, 100, 100, 100]| = 100 := by
    simp [mean]; norm_num
  rw [e1, e2]
  exact witness_bound

end Witness

/-! ## 5. `numBuckets` / `numMaxBuckets` bookkeeping (every carrier) -/
section Buckets
variable {α : Type} [Num α]

/-- the number of merges `_compress_buckets` performs when `v` is inserted into `s` -/
def mergesAt (c : Cfg α) (s : State α) (v : α) : Nat :=
  match s.rows with
  | [] => 0
  | r0 :: rest => compressMerges c.m 0 (r0 ++ [(v, Num.zero)]) rest

theorem insert_numBuckets (c : Cfg α) (s : State α) (v : α) :
    (ADWIN.insert c s v).numBuckets = s.numBuckets + 1 + mergesAt c s v := rfl

theorem insert_numMax (c : Cfg α) (s : State α) (v : α) :
    (ADWIN.insert c s v).numMaxBuckets = max s.numMaxBuckets (s.numBuckets + 1) := rfl

theorem deleteOldest_numMax (s : State α) : (deleteOldest s).numMaxBuckets = s.numMaxBuckets := by
  unfold deleteOldest
  split
  · rfl
  · split <;> rfl

theorem checkLoop_numMax (c : Cfg α) (fuel : Nat) (s : State α) :
    (checkLoop c fuel s).numMaxBuckets = s.numMaxBuckets := by
  induction fuel generalizing s with
  | zero => rfl
  | succ f ih =>
    rw [checkLoop_succ]
    split
    · split
      · rw [ih]; exact deleteOldest_numMax s
      · rfl
    · rfl

/-- every merge replaces two entries by one -/
theorem compress_cnt (m i : Nat) (row : List (α × α)) (rest : List (List (α × α))) :
    cnt (compress m i row rest) + compressMerges m i row rest = cnt (row :: rest) := by
  fun_induction compress m i row rest with
  | case1 i e1 e2 tl merged h => rw [compressMerges, if_pos h]; simp
  | case2 i e1 e2 tl merged nxt rest' nxt' hle h =>
    rw [compressMerges, if_pos h]; simp only [cnt_cons, List.length_cons]
    rw [if_pos hle]; simp [nxt']; omega
  | case3 i e1 e2 tl merged nxt rest' nxt' hle h ih =>
    rw [compressMerges, if_pos h]; simp only [cnt_cons, List.length_cons] at ih ⊢
    rw [if_neg hle]; simp [nxt', merged] at ih ⊢; omega
  | case4 i row rest h hno =>
    rw [compressMerges, if_pos h]
    · simp
    · exact hno
  | case5 i row rest h => rw [compressMerges.eq_def]; simp only [if_neg h]; simp


theorem insert_numEntries (c : Cfg α) (s : State α) (v : α) :
    numEntries (ADWIN.insert c s v) + mergesAt c s v = numEntries s + 1 := by
  cases hrows : s.rows with
  | nil => simp [numEntries_eq, ADWIN.insert, mergesAt, hrows]
  | cons r0 rest =>
    have h1 : (ADWIN.insert c s v).rows = compress c.m 0 (r0 ++ [(v, Num.zero)]) rest := by
      simp [ADWIN.insert, hrows]
    have h2 : mergesAt c s v = compressMerges c.m 0 (r0 ++ [(v, Num.zero)]) rest := by
      simp [mergesAt, hrows]
    rw [numEntries_eq, numEntries_eq, h1, h2, compress_cnt, hrows]
    simp; omega

theorem deleteOldest_numBuckets_cases (s : State α) :
    deleteOldest s = s ∨ (deleteOldest s).numBuckets = s.numBuckets - 1 := by
  unfold deleteOldest
  split
  · exact Or.inl rfl
  · split
    · exact Or.inl rfl
    · exact Or.inr rfl

/-- a genuine deletion (well-formed state with at least one entry) decrements `numBuckets` -/
theorem WF_delete_numBuckets (c : Cfg α) (s : State α) (h : WF c s) (h1 : 1 ≤ numEntries s) :
    (deleteOldest s).numBuckets = s.numBuckets - 1 := by
  rcases deleteOldest_numBuckets_cases s with he | he
  · have := (WF_delete c s h h1).2.2.1
    rw [he] at this; omega
  · exact he

theorem iterate_del_counts (c : Cfg α) (s : State α) (k : Nat)
    (hwf : ∀ j, j ≤ k → WF c (del^[j] s)) (hcut : ∀ j, j < k → cutFound c (del^[j] s) = true)
    (hnb : numEntries s ≤ s.numBuckets) :
    (del^[k] s).numBuckets + k = s.numBuckets ∧ numEntries (del^[k] s) + k = numEntries s := by
  induction k with
  | zero => exact ⟨rfl, rfl⟩
  | succ k ih =>
    obtain ⟨h1, h2⟩ := ih (fun j hj => hwf j (by omega)) (fun j hj => hcut j (by omega))
    rw [Function.iterate_succ_apply']
    have h2e : 2 ≤ numEntries (del^[k] s) := scan_true_two (hcut k (by omega))
    have hw := hwf k (by omega)
    have h3 : (del (del^[k] s)).numBuckets = (del^[k] s).numBuckets - 1 :=
      WF_delete_numBuckets c _ hw (by omega)
    have h4 : numEntries (del (del^[k] s)) + 1 = numEntries (del^[k] s) := (WF_delete c _ hw (by omega)).2.2.1
    omega

/-- **step_numBuckets** (every carrier).  One update changes the surplus `numBuckets − numEntries` by exactly twice the
number of merges (the code adds 1 per merge although a merge REMOVES an entry), stated additively so that no subtraction
occurs; `numEntries ≤ numBuckets` is preserved (so `numBuckets − 1` in `deleteOldest` never truncates); and
`numMaxBuckets` becomes `max numMaxBuckets (numBuckets + 1)`. -/
theorem step_numBuckets (c : Cfg α) (hm : 1 ≤ c.m) (s : State α) (hwf : WF c s) (hnb : numEntries s ≤ s.numBuckets)
    (v : α) :
    (step c s v).numBuckets + numEntries s = s.numBuckets + numEntries (step c s v) + 2 * mergesAt c s v
      ∧ numEntries (step c s v) ≤ (step c s v).numBuckets
      ∧ (step c s v).numMaxBuckets = max s.numMaxBuckets (s.numBuckets + 1) := by
  obtain ⟨k, e, h2, _, _, _, _, h7⟩ := step_spec c hm s hwf v
  have hi : numEntries (afterInsert c s v) + mergesAt c s v = numEntries s + 1 :=
    insert_numEntries c { s with n := s.n + 1, drift := false } v
  have hb : (afterInsert c s v).numBuckets = s.numBuckets + 1 + mergesAt c s v := rfl
  obtain ⟨h8, h9⟩ := iterate_del_counts c (afterInsert c s v) k h7 h2 (by omega)
  refine ⟨by rw [e]; omega, by rw [e]; omega, ?_⟩
  rw [step_eq]
  split
  · rw [checkLoop_numMax]; rfl
  · rfl


/-- `numMaxBuckets` after one update, for ANY state: the old maximum and `numBuckets + 1` taken right after the
insertion (before the merges of `_compress_buckets` are counted, and untouched by the deletions of the check) -/
theorem step_numMax (c : Cfg α) (s : State α) (v : α) :
    (step c s v).numMaxBuckets = max s.numMaxBuckets (s.numBuckets + 1) := by
  rw [step_eq]
  split
  · rw [checkLoop_numMax]; rfl
  · rfl

/-- `reset` zeroes both counters — in fact `reset` returns the literal initial state -/
theorem reset_eq_init (s : State α) : reset s = (init : State α) := rfl

theorem reset_buckets (s : State α) : (reset s).numBuckets = 0 ∧ (reset s).numMaxBuckets = 0 := ⟨rfl, rfl⟩

/-- feeding a list of values to a fresh detector -/
abbrev afeed (c : Cfg α) (xs : List α) : State α := C06.feed (ADWIN.machine c) xs

theorem run_eq_afeed (c : Cfg α) (ops : List (Op α)) :
    (ADWIN.machine c).run ops = afeed c (C06.sinceReset ops) :=
  C06.run_eq_feed_sinceReset _ (fun s _ => reset_eq_init s) ops

/-- **numMax_trace** (every carrier).  The true invariant of `numMaxBuckets`: after feeding `xs` to a fresh detector it
is the maximum, over the positions `i < |xs|`, of `numBuckets + 1` where `numBuckets` is the counter of the state reached
after the first `i` values — i.e. the value taken right after each insertion, BEFORE the merges of that insertion are
counted.  (`0` for the empty stream.) -/
theorem numMax_trace (c : Cfg α) (xs : List α) :
    (afeed c xs).numMaxBuckets =
      ((List.range xs.length).map (fun i => (afeed c (xs.take i)).numBuckets + 1)).foldl max 0 := by
  induction xs using List.reverseRecOn with
  | nil => rfl
  | append_singleton xs v ih =>
    have hstep : afeed c (xs ++ [v]) = step c (afeed c xs) v := C06.feed_append_singleton _ xs v
    rw [hstep, step_numMax, ih, List.length_append, List.length_singleton, List.range_succ, List.map_append,
      List.foldl_append]
    simp only [List.map_cons, List.map_nil, List.foldl_cons, List.foldl_nil]
    have h1 : (List.range xs.length).map (fun i => (afeed c ((xs ++ [v]).take i)).numBuckets + 1)
        = (List.range xs.length).map (fun i => (afeed c (xs.take i)).numBuckets + 1) := by
      apply List.map_congr_left
      intro i hi
      rw [List.take_append_of_le_length (le_of_lt (List.mem_range.mp hi))]
    have h2 : (xs ++ [v]).take xs.length = xs := by simp
    rw [h1, h2]

/-- **numMax_history.**  The same after ANY history of updates and resets. -/
theorem numMax_history (c : Cfg α) (ops : List (Op α)) :
    ((ADWIN.machine c).run ops).numMaxBuckets =
      ((List.range (C06.sinceReset ops).length).map
        (fun i => (afeed c ((C06.sinceReset ops).take i)).numBuckets + 1)).foldl max 0 := by
  rw [run_eq_afeed]; exact numMax_trace c _

/-- in every reachable state `numBuckets` is at least the number of stored entries -/
theorem reachable_numBuckets (c : Cfg α) (hm : 1 ≤ c.m) {s : State α} (h : (ADWIN.machine c).Reachable s) :
    WF c s ∧ numEntries s ≤ s.numBuckets := by
  refine (ADWIN.machine c).invariant (P := fun s => WF c s ∧ numEntries s ≤ s.numBuckets)
    ⟨WF_init c, Nat.zero_le _⟩ ?_ ?_ h
  · rintro s v ⟨h1, h2⟩
    exact ⟨WF_step c hm s v h1, (step_numBuckets c hm s h1 h2 v).2.1⟩
  · rintro s _
    exact ⟨WF_reset c s, Nat.zero_le _⟩

/-- total number of merges performed while feeding `xs` to a fresh detector (ghost) -/
def mergesTotal (c : Cfg α) (xs : List α) : Nat :=
  ((List.range xs.length).map (fun i => mergesAt c (afeed c (xs.take i)) (xs.getD i Num.zero))).sum

/-- **numBuckets_closed_form** (every carrier, `1 ≤ m`).  `numBuckets = (number of stored entries) + 2·(merges so far)`:
the counter is the number of stored entries only as long as no merge has happened. -/
theorem numBuckets_closed_form (c : Cfg α) (hm : 1 ≤ c.m) (xs : List α) :
    (afeed c xs).numBuckets = numEntries (afeed c xs) + 2 * mergesTotal c xs := by
  induction xs using List.reverseRecOn with
  | nil => simp [afeed, C06.feed, ADWIN.machine, init, numEntries, mergesTotal]
  | append_singleton xs v ih =>
    have hstep : afeed c (xs ++ [v]) = step c (afeed c xs) v := C06.feed_append_singleton _ xs v
    have hreach : (ADWIN.machine c).Reachable (afeed c xs) := by
      have := (ADWIN.machine c).reachable_run (xs.map Op.update)
      rwa [C06.run_map_update] at this
    obtain ⟨hwf, hnb⟩ := reachable_numBuckets c hm hreach
    obtain ⟨h1, _, _⟩ := step_numBuckets c hm _ hwf hnb v
    have hm' : mergesTotal c (xs ++ [v]) = mergesTotal c xs + mergesAt c (afeed c xs) v := by
      unfold mergesTotal
      rw [List.length_append, List.length_singleton, List.range_succ, List.map_append, List.sum_append]
      simp only [List.map_cons, List.map_nil, List.sum_cons, List.sum_nil, Nat.add_zero]
      congr 1
      · congr 1
        apply List.map_congr_left
        intro i hi
        have hi' := List.mem_range.mp hi
        rw [List.take_append_of_le_length (le_of_lt hi')]
        simp [List.getD_eq_getElem?_getD, List.getElem?_append_left hi']
      · simp [List.getD_eq_getElem?_getD]
    rw [hstep, hm']
    omega

/-- `numBuckets ≤ numMaxBuckets` is NOT an invariant, and `numBuckets` is not the number of stored entries: with `m = 1`
two updates give one stored entry, `numBuckets = 3`, `numMaxBuckets = 2` (the maximum is taken before the merge is counted). -/
theorem numBuckets_gt_numMax_witness (v : α) (d : α) :
    let c : Cfg α := ⟨1, d, 1, 1, 10⟩
    let s := (ADWIN.machine c).run [.update v, .update v]
    s.numBuckets = 3 ∧ s.numMaxBuckets = 2 ∧ numEntries s = 1 := by
  simp [Machine.run, Machine.runFrom, Machine.apply, ADWIN.machine, step, ADWIN.insert, init, compress,
    compressMerges, numEntries]

end Buckets

/-! ## Non-vacuity -/

/-- `threshold_spec`: a concrete call with both sizes `≥ min_window_size + 2` -/
example (s : State ℝ) : threshold (⟨1, 9 / 10, 8, 1, 7⟩ : Cfg ℝ) s 4 4 = some (epsCut (9 / 10) s.variance s.width 1 4 4) := by
  rw [threshold_spec _ _ _ _ (by simp) (by simp)]; simp
/-- … and one of the `== k` cases -/
example (s : State ℝ) : threshold (⟨1, 9 / 10, 8, 1, 7⟩ : Cfg ℝ) s 2 6 = none := by
  rw [threshold_none_iff]; simp

/-- `checkLoop_spec` / `step_spec` / `deletions_justified` with `k > 0`: the witness run -/
example : ∃ k, 0 < k ∧
    (ADWIN.machine wc).run (([0, 0, 0, 0, 100, 100, 100].map Op.update) ++ [.update 100])
      = del^[k] (afterInsert wc ((ADWIN.machine wc).run ([0, 0, 0, 0, 100, 100, 100].map Op.update)) 100) := by
  obtain ⟨k, h1, h2, _⟩ := deletions_justified wc (by simp [wc]) ([0, 0, 0, 0, 100, 100, 100].map Op.update) 100
  refine ⟨k, h2.1 ?_, h1⟩
  rw [run_snoc]; exact shrink_witness.2.2.2.2.2.2.1

/-- `epsCut_genuine`: hypotheses satisfiable -/
example : 0 < epsCut (9 / 10) 20000 8 1 4 4 :=
  (epsCut_genuine (by norm_num) (by norm_num) (by norm_num) (by norm_num) (by norm_num) (by norm_num)).2.2.2.2.2

/-- `numMax_trace` on a concrete stream with a merge (`m = 1`): the maxima are taken at `numBuckets + 1 = 1, 2` -/
example {α : Type} [Num α] (v d : α) : (afeed (⟨1, d, 1, 1, 10⟩ : Cfg α) [v, v]).numMaxBuckets = 2 := by
  have := (numBuckets_gt_numMax_witness v d).2.1
  rw [run_eq_afeed] at this
  simpa [C06.sinceReset] using this

/- UNPROVED (full statement), not needed for the property: the exact final state of the witness step.
   theorem shrink_witness_exact : (step wc w7 100).width = 7
   After the first deletion the window is `0,0,0,100,100,100,100` (width 7); the loop stops there because the splits
   3|4 and 4|3 have `eps_cut ≈ 103.7 + 1.46 > 100 ≥ |mean difference|`.  Proving this needs LOWER bounds on
   `log(2·log 7/0.9)` and on a square root; only `(step wc w7 100).width < 8` (strict shrinking) is proved. -/

/- NOT STATED AT FLOAT: `threshold_spec`, `hit_iff`, `epsCut_genuine`, `deletions_justified`, the witness — arithmetic, ℝ only.
   Everything in sections 2, 2b, 3 and 5 (`scan_iff_exists`, `checkLoop_spec`, `step_spec`, `check_final_no_cut`,
   `drift_iff_deleted`, the bucket counters) holds for every carrier, hence literally for IEEE doubles. -/

/-! ## Axioms -/
#print axioms threshold_none_iff
#print axioms threshold_spec
#print axioms hit_iff
#print axioms epsCut_genuine
#print axioms exceeds_means_differ
#print axioms scan_iff_exists
#print axioms examined_size_lt
#print axioms cutFound_iff_exists
#print axioms cutFound_iff_exceeds
#print axioms checkLoop_spec
#print axioms checkLoop_trace
#print axioms step_spec
#print axioms check_final_no_cut
#print axioms drift_iff_deleted
#print axioms deletions_justified
#print axioms witness_bound
#print axioms shrink_witness
#print axioms detects_witness
#print axioms step_numBuckets
#print axioms step_numMax
#print axioms reset_eq_init
#print axioms reset_buckets
#print axioms numMax_trace
#print axioms numMax_history
#print axioms reachable_numBuckets
#print axioms numBuckets_closed_form
#print axioms numBuckets_gt_numMax_witness

end Frouros.C05b
