/-
  C13 — method dispatch of the permutation callback (`_calculate_p_value`), for every carrier.
-/
import FrourosModel.Perm
namespace Frouros.C13
open Frouros Perm
variable {α : Type} [Num α]

/-- `resolve` never returns `auto` -/
theorem resolve_ne_auto (m : Method) (n : Nat) : resolve m n ≠ .auto := by
  unfold resolve; cases m <;> simp <;> split <;> simp

/-- for every accepted `num_permutations` (the constructor rejects values above `MAX_NUM_PERM`), `auto` means `exact`:
the approximate formula is never selected by `auto` -/
theorem auto_is_exact (n : Nat) (h : n ≤ maxNumPerm) : resolve .auto n = .exact := by
  unfold resolve; simp [Nat.not_lt.mpr h]

/-- an explicit method is used as given -/
theorem resolve_explicit (m : Method) (n : Nat) (h : m ≠ .auto) : resolve m n = m := by
  unfold resolve; cases m <;> simp_all

/-- the reported p-value is the formula of the resolved method evaluated at `b` = number of null statistics `≥` the observed
one, `m` = number of null statistics actually computed, `m_t` = the total number of permutations -/
theorem pValue_spec (m : Method) (n : Nat) (total : Option Nat) (maxPerms : Nat) (null : List α) (obs : α) (hn : n ≤ maxNumPerm) :
    pValue m n total maxPerms null obs =
      match m with
      | .auto | .exact => pExact (extreme null obs) null.length (totalPerms total maxPerms)
      | .conservative => pConservative (extreme null obs) null.length
      | .approximate => pApproximate (extreme null obs) null.length (totalPerms total maxPerms)
      | .estimate => pEstimate (extreme null obs) null.length := by
  unfold pValue
  cases m <;> simp [resolve, Nat.not_lt.mpr hn]

/-- when the user gives no total, it is the number of distinct permutations capped at `MAX_NUM_PERM` -/
theorem totalPerms_default (maxPerms : Nat) : totalPerms none maxPerms = min maxPerms maxNumPerm := rfl

example : resolve .auto 100 = .exact := by decide

end Frouros.C13

#print axioms Frouros.C13.resolve_ne_auto
#print axioms Frouros.C13.auto_is_exact
#print axioms Frouros.C13.resolve_explicit
#print axioms Frouros.C13.pValue_spec
