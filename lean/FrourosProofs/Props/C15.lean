/-
  C15 (decision part) — `frouros.utils.persistence.save`: what is tested, in which order
  (`FrourosModel/Misc.lean`, `Persist.save`).  Pure control flow over `Bool × Int × Nat`.
-/
import FrourosModel.Misc
namespace Frouros.C15
open Frouros Frouros.Persist

/-- **save_writes_iff**: the file is written iff the object is a detector/callback AND the pickle
protocol lies in `0 … HIGHEST_PROTOCOL`. -/
theorem save_writes_iff (isDC : Bool) (protocol : Int) (highest : Nat) :
    save isDC protocol highest = .written ↔ isDC = true ∧ 0 ≤ protocol ∧ protocol ≤ (highest : Int) := by
  unfold save
  cases isDC <;> by_cases h0 : 0 ≤ protocol <;> by_cases h1 : protocol ≤ (highest : Int) <;> simp [h0, h1]

/-- **type test wins**: a non-detector/non-callback gives `TypeError` whatever the protocol is
(valid, negative or too large). -/
theorem save_typeError_iff (isDC : Bool) (protocol : Int) (highest : Nat) :
    save isDC protocol highest = .typeError ↔ isDC = false := by
  unfold save
  cases isDC <;> by_cases h0 : 0 ≤ protocol <;> by_cases h1 : protocol ≤ (highest : Int) <;> simp [h0, h1]

/-- `ValueError` iff the type test passed and the protocol is out of range. -/
theorem save_valueError_iff (isDC : Bool) (protocol : Int) (highest : Nat) :
    save isDC protocol highest = .valueError ↔ isDC = true ∧ (protocol < 0 ∨ (highest : Int) < protocol) := by
  unfold save
  cases isDC <;> by_cases h0 : 0 ≤ protocol <;> by_cases h1 : protocol ≤ (highest : Int) <;> simp [h0, h1] <;> omega

/-- the complete table in one statement -/
theorem save_table (isDC : Bool) (protocol : Int) (highest : Nat) :
    save isDC protocol highest =
      if isDC = false then .typeError
      else if protocol < 0 ∨ (highest : Int) < protocol then .valueError
      else .written := by
  unfold save
  cases isDC <;> by_cases h0 : 0 ≤ protocol <;> by_cases h1 : protocol ≤ (highest : Int) <;> simp [h0, h1] <;> omega

/-- no write without passing both tests (safety reading of `save_writes_iff`) -/
theorem save_not_written (isDC : Bool) (protocol : Int) (highest : Nat)
    (h : isDC = false ∨ protocol < 0 ∨ (highest : Int) < protocol) : save isDC protocol highest ≠ .written := by
  rw [Ne, save_writes_iff]
  rintro ⟨h1, h2, h3⟩
  rcases h with h | h | h
  · rw [h] at h1; cases h1
  · omega
  · omega

/-- non-vacuity: each of the three outcomes occurs; an invalid protocol on a non-detector is a TypeError -/
example : save true 5 5 = .written := by decide
example : save true 0 5 = .written := by decide
example : save true (-1) 5 = .valueError := by decide
example : save true 6 5 = .valueError := by decide
example : save false 6 5 = .typeError := by decide
example : save false (-1) 5 = .typeError := by decide

end Frouros.C15

#print axioms Frouros.C15.save_writes_iff
#print axioms Frouros.C15.save_typeError_iff
#print axioms Frouros.C15.save_valueError_iff
#print axioms Frouros.C15.save_table
#print axioms Frouros.C15.save_not_written
