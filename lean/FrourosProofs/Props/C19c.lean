/-
  C19c — two independent items.

  A. (C19, operability) `operable_rddm_guards`: RDDM's guarded setters `min_error_rate` / `min_std`
     (base.py:218, :248 raise `ValueError` on a negative value) never fire — in `_update` AND in the
     rebuild/replay loop `_rdd_drift_case` — for every configuration and every history of updates and resets
     whose values lie in `[0,1]` (in particular `0/1`), over ℝ.  Invariant: error rate in `[0,1]`, stored
     minimum pair non-negative, every stored prediction in `[0,1]` (the last one is carrier-generic:
     `rddm_step_buf`, "the queue only stores input values").  This closes the UNPROVED block of
     `Props/C20b.lean` §7.

  B. (C03, rounding transfer) `StdModel`: the standard model of floating-point arithmetic as an explicit
     HYPOTHESIS STRUCTURE on an abstract carrier `α` with a representation map `toR : α → ℝ` (not an axiom,
     not an instance for `Float`).  Under it:
       * `mean_transfer`      `|toR mean_t^α − mean_t^ℝ| ≤ E t` for every `[0,1]`-valued stream, `E = meanErr u`
                               an explicit recursion, `meanErr_le_closed : E t ≤ (1 + 4u + 3u² + u³)^t − 1`;
       * `ddm_transfer`       DDM with resets: counters and warm-up exact, error rate within `E n`;
       * `epsStd_transfer`    `std` and `error_rate + std` (needs `StdModelSqrt`, the `sqrt` clause);
       * `ddm_verdict_transfer` if every comparison of the ℝ-run is decided by more than the error budget
                               (`Margin`), the α-run raises exactly the same flags, for every history.
     What this says about the real float64 code: IF binary64 arithmetic satisfies the standard model with
     `u = 2⁻⁵³` on the values that occur (true in the absence of overflow, underflow and NaN — all three are
     OUTSIDE the model; for 0/1 streams every intermediate lies in `[0, 2]` so overflow cannot occur, and an
     underflowing `(x − mean)/n` would need `n > 2¹⁰⁰⁰`), THEN the error ANALYSIS carries over.  It cannot be carried
     over INSIDE Lean: `StdModel` states its clauses for ALL values (`∀ x y`, `∀ n`), and any carrier satisfying them is
     infinite, unbounded and never underflows (review T3 proved this), so no finite-precision format - binary64
     included - is an instance; the side conditions above are not part of the structure.
     What it does not say: nothing is proved about Lean's `Float` itself (opaque to the kernel), nothing on
     near-ties (margins below the bound) — there the verdict of the float code may legitimately differ from
     the ℝ-model; the harness's near-tie exclusion at relative margin `1e-9` is the empirical counterpart of
     the `Margin` hypothesis.
-/
import FrourosModel.SPC
import FrourosProofs.RealNum
import FrourosProofs.Machine
import FrourosProofs.Machines
import FrourosProofs.Lemmas.RDDM
import Mathlib.Tactic

namespace Frouros.C19c
open Frouros

/-! ## A. RDDM guarded setters -/
section Buf
variable {β : Type}

/-- every stored (`some`) slot of the backing list satisfies `D` -/
def BufAll (D : β → Prop) (q : CQ β) : Prop := ∀ x, some x ∈ q.buf → D x

theorem bufAll_init (D : β → Prop) (n : Nat) : BufAll D (CQ.init n : CQ β) := by
  intro x hx
  simp [CQ.init, List.mem_replicate] at hx

theorem bufAll_clear (D : β → Prop) (q : CQ β) : BufAll D q.clear := by
  intro x hx
  simp [CQ.clear, List.mem_replicate] at hx

theorem enqueue_buf {q q' : CQ β} {v : β} {e : Option β} (h : q.enqueue v = .ok (e, q')) :
    ∃ l, q'.buf = q.buf.set l (some v) := by
  unfold CQ.enqueue CQ.dequeue at h
  simp only [] at h
  split at h
  · split at h
    · simp at h
    · rename_i h2
      split at h2
      · simp at h2
      · simp only [Except.ok.injEq, Prod.mk.injEq] at h2 h
        obtain ⟨-, rfl⟩ := h2
        obtain ⟨-, rfl⟩ := h
        exact ⟨_, rfl⟩
  · simp only [Except.ok.injEq, Prod.mk.injEq] at h
    obtain ⟨-, rfl⟩ := h
    exact ⟨_, rfl⟩

theorem bufAll_enqueue {D : β → Prop} {q q' : CQ β} {v : β} {e : Option β} (hq : BufAll D q) (hv : D v)
    (h : q.enqueue v = .ok (e, q')) : BufAll D q' := by
  obtain ⟨l, hl⟩ := enqueue_buf h
  intro x hx
  rw [hl] at hx
  rcases List.mem_or_eq_of_mem_set hx with h1 | h1
  · exact hq x h1
  · cases h1; exact hv

theorem keepLast_buf {q q' : CQ β} (h : q.keepLast = .ok q') : q'.buf = q.buf := by
  unfold CQ.keepLast at h
  split at h
  · simp at h
  · split at h
    · simp at h
    · simp only [Except.ok.injEq] at h
      subst h; rfl
end Buf

/-! ### carrier-generic: the queue only ever stores input values -/
section Prov
variable {α : Type} [Num α]

omit [Num α] in
theorem keepLast_state (s : RDDM.State α) :
    (RDDM.keepLast s).er = s.er ∧ (RDDM.keepLast s).minPS = s.minPS ∧ (RDDM.keepLast s).preds.buf = s.preds.buf := by
  unfold RDDM.keepLast
  split
  · rename_i q h
    exact ⟨rfl, rfl, keepLast_buf h⟩
  · exact ⟨rfl, rfl, rfl⟩

/-- what `post` (everything of `step` after the optional rebuild) does to the three fields that matter
for the guards: either `enqueue` raised and they are untouched, or the queue is the enqueued one (up to
`first/count`), the error rate is updated once and the minimum pair is either kept or set to
`(new error rate, its sqrt-deviation)`. -/
theorem post_fields (c : RDDM.Cfg α) (p : RDDM.State α) (v : α) :
    ((RDDM.post c p v).er = p.er ∧ (RDDM.post c p v).minPS = p.minPS ∧ (RDDM.post c p v).preds = p.preds) ∨
    (∃ e q, p.preds.enqueue v = .ok (e, q) ∧ (RDDM.post c p v).preds.buf = q.buf ∧
      (RDDM.post c p v).er = p.er.update v ∧
      ((RDDM.post c p v).minPS = p.minPS ∨
        (RDDM.post c p v).minPS = some ((p.er.update v).mean, (DDM.epsStd (p.er.update v) p.n).2))) := by
  unfold RDDM.post
  split
  · left; exact ⟨rfl, rfl, rfl⟩
  · rename_i e q h
    right
    refine ⟨e, q, h, ?_⟩
    have hk := fun s : RDDM.State α => keepLast_state s
    simp only []
    grind

/-- **buffer provenance** (any carrier): if every value of the history satisfies `D`, every stored slot of
the prediction queue satisfies `D` in the state reached — `enqueue` writes the input value, `dequeue`,
`maintain_last_element` and the replay loop never write, `reset`/`init` blank the buffer. -/
theorem rddm_step_buf (D : α → Prop) (c : RDDM.Cfg α) (s : RDDM.State α) (v : α)
    (h : BufAll D s.preds) (hv : D v) : BufAll D (RDDM.step c s v).preds := by
  rw [RDDM.step_eq]
  have hp : (RDDM.pre c s).preds = s.preds := (RDDM.pre_spec c s).1
  rcases post_fields c (RDDM.pre c s) v with ⟨-, -, e⟩ | ⟨e, q, he, hb, -, -⟩
  · rw [e, hp]; exact h
  · have := bufAll_enqueue (D := D) (by rw [hp]; exact h) hv he
    intro x hx
    rw [hb] at hx
    exact this x hx
end Prov

/-! ### ℝ: the guarded quantities -/
section Guards

/-- generic: an invariant preserved by `reset` and by `step` on in-domain values holds after every history
whose updates are in-domain (same statement as `C20b.runFrom_inv`; repeated to keep the import cone small) -/
theorem runFrom_inv {S V : Type} (M : Machine S V) (P : S → Prop) (D : V → Prop)
    (hs : ∀ s v, P s → D v → P (M.step s v)) (hr : ∀ s, P s → P (M.reset s))
    (ops : List (Op V)) (s : S) (h : P s) (hd : ∀ v, Op.update v ∈ ops → D v) : P (M.runFrom s ops) := by
  induction ops generalizing s with
  | nil => exact h
  | cons o ops ih =>
    have hd' : ∀ v, Op.update v ∈ ops → D v := fun v hv => hd v (List.mem_cons_of_mem _ hv)
    cases o with
    | update v => exact ih _ (hs s v h (hd v (by simp))) hd'
    | reset => exact ih _ (hr s h) hd'

/-- the running mean of values in `[0,1]` stays in `[0,1]` -/
theorem mean_update_unit (m : Mean ℝ) (v : ℝ) (hm0 : 0 ≤ m.mean) (hm1 : m.mean ≤ 1) (hv0 : 0 ≤ v) (hv1 : v ≤ 1) :
    0 ≤ (m.update v).mean ∧ (m.update v).mean ≤ 1 := by
  simp only [Mean.update, RealNum.ofNat_eq]
  have hk : (1 : ℝ) ≤ ((m.n + 1 : ℕ) : ℝ) := by exact_mod_cast Nat.le_add_left 1 m.n
  have hk0 : (0 : ℝ) < ((m.n + 1 : ℕ) : ℝ) := by linarith
  have e : m.mean + (v - m.mean) / ((m.n + 1 : ℕ) : ℝ)
      = (m.mean * (((m.n + 1 : ℕ) : ℝ) - 1) + v) / ((m.n + 1 : ℕ) : ℝ) := by field_simp; ring
  rw [e]
  constructor
  · exact div_nonneg (by nlinarith) hk0.le
  · rw [div_le_one hk0]; nlinarith

/-- the unit interval (the domain of the stream values: error indicators `0/1`, or losses in `[0,1]`) -/
def Unit01 (x : ℝ) : Prop := 0 ≤ x ∧ x ≤ 1

/-- the part of the guard invariant that the replay loop works on -/
def StatGuards (er : Mean ℝ) (m : Option (ℝ × ℝ)) : Prop :=
  0 ≤ er.mean ∧ er.mean ≤ 1 ∧ ∀ p sd, m = some (p, sd) → 0 ≤ p ∧ 0 ≤ sd

theorem statGuards_init : StatGuards (Mean.init : Mean ℝ) none := by
  simp [StatGuards, Mean.init]

theorem epsStd_snd_nonneg (er : Mean ℝ) (n : Nat) : 0 ≤ (DDM.epsStd er n).2 := by
  simp only [DDM.epsStd, RealNum.sqrt_eq]
  exact Real.sqrt_nonneg _

/-- one iteration of either loop body: update the error rate with an in-domain value, then either keep the
minimum pair or overwrite it with `(new error rate, its sqrt-deviation)` -/
theorem statGuards_update {er : Mean ℝ} {m : Option (ℝ × ℝ)} (h : StatGuards er m) {x : ℝ} (hx : Unit01 x)
    (b : Bool) (n : Nat) :
    StatGuards (er.update x)
      (if b = true then some ((er.update x).mean, (DDM.epsStd (er.update x) n).2) else m) := by
  obtain ⟨h0, h1, hm⟩ := h
  obtain ⟨u0, u1⟩ := mean_update_unit er x h0 h1 hx.1 hx.2
  refine ⟨u0, u1, ?_⟩
  intro p sd hp
  split at hp
  · simp only [Option.some.injEq, Prod.mk.injEq] at hp
    obtain ⟨rfl, rfl⟩ := hp
    exact ⟨u0, epsStd_snd_nonneg _ _⟩
  · exact hm p sd hp

theorem get_unit {q : CQ ℝ} (hq : BufAll Unit01 q) {pos : Nat} {x : ℝ} (hx : q.get pos = some x) : Unit01 x := by
  apply hq
  unfold CQ.get at hx
  by_cases hp : pos < q.buf.length
  · rw [← hx, List.getD_eq_getElem?_getD, List.getElem?_eq_getElem hp]
    exact List.getElem_mem hp
  · rw [List.getD_eq_getElem?_getD, List.getElem?_eq_none (by omega)] at hx
    cases hx

/-- **the replay loop `_rdd_drift_case` preserves the guards**: from any statistics satisfying them, over a
queue whose stored slots lie in `[0,1]`, for any number of iterations `k`, any start position, any counter
and either value of the `drift` flag (an unread slot `None` is modelled as `0`, also in `[0,1]`). -/
theorem replay_guards (c : RDDM.Cfg ℝ) (d : Bool) (q : CQ ℝ) (hq : BufAll Unit01 q)
    (k pos n : Nat) (er : Mean ℝ) (m : Option (ℝ × ℝ)) (h : StatGuards er m) :
    StatGuards (RDDM.replay c d q k pos n er m).2.1 (RDDM.replay c d q k pos n er m).2.2 := by
  induction k generalizing pos n er m with
  | zero => exact h
  | succ k ih =>
    unfold RDDM.replay
    simp only []
    apply ih
    cases hg : q.get pos with
    | none => exact statGuards_update h (by simp [Unit01]) _ _
    | some x => exact statGuards_update h (get_unit hq hg) _ _

/-- RDDM's guarded quantities: the error rate (a probability), the stored minimum pair (`min_error_rate`,
`min_std` setters raise `ValueError` on a negative value; base.py:218, :248 — reached from `_update`
through `_update_min_values` AND from the replay loop `_rdd_drift_case`, rddm.py:317), and the auxiliary
invariant that makes the replay loop safe: every stored prediction lies in `[0,1]`. -/
def RDDMGuards (s : RDDM.State ℝ) : Prop :=
  StatGuards s.er s.minPS ∧ BufAll Unit01 s.preds

theorem rebuild_guards (c : RDDM.Cfg ℝ) (s : RDDM.State ℝ) (hq : BufAll Unit01 s.preds) :
    StatGuards (RDDM.rebuild c s).er (RDDM.rebuild c s).minPS :=
  replay_guards c s.drift s.preds hq _ _ _ _ _ statGuards_init

theorem pre_guards (c : RDDM.Cfg ℝ) (s : RDDM.State ℝ) (h : RDDMGuards s) : RDDMGuards (RDDM.pre c s) := by
  obtain ⟨hs, hq⟩ := h
  unfold RDDM.pre
  simp only []
  split
  · exact ⟨rebuild_guards c _ hq, hq⟩
  · exact ⟨hs, hq⟩

theorem RDDMGuards_step (c : RDDM.Cfg ℝ) (s : RDDM.State ℝ) (v : ℝ) (h : RDDMGuards s) (hv : Unit01 v) :
    RDDMGuards (RDDM.step c s v) := by
  refine ⟨?_, rddm_step_buf Unit01 c s v h.2 hv⟩
  rw [RDDM.step_eq]
  obtain ⟨⟨h0, h1, hm⟩, -⟩ := pre_guards c s h
  rcases post_fields c (RDDM.pre c s) v with ⟨e1, e2, -⟩ | ⟨e, q, -, -, e1, e2⟩
  · rw [e1, e2]; exact ⟨h0, h1, hm⟩
  · obtain ⟨u0, u1⟩ := mean_update_unit (RDDM.pre c s).er v h0 h1 hv.1 hv.2
    rw [e1]
    refine ⟨u0, u1, ?_⟩
    intro p sd hp
    rcases e2 with e2 | e2
    · rw [e2] at hp; exact hm p sd hp
    · rw [e2] at hp
      simp only [Option.some.injEq, Prod.mk.injEq] at hp
      obtain ⟨rfl, rfl⟩ := hp
      exact ⟨u0, epsStd_snd_nonneg _ _⟩

theorem RDDMGuards_reset (s : RDDM.State ℝ) : RDDMGuards (RDDM.reset s) :=
  ⟨statGuards_init, bufAll_clear _ _⟩

theorem RDDMGuards_init (c : RDDM.Cfg ℝ) : RDDMGuards (RDDM.init c) :=
  ⟨statGuards_init, bufAll_init _ _⟩


/-- invariant form: `RDDMGuards` holds after EVERY history (updates and resets in any order) whose update
values lie in `[0,1]`. -/
theorem rddmGuards_run (c : RDDM.Cfg ℝ) (ops : List (Op ℝ)) (hdom : ∀ v, Op.update v ∈ ops → 0 ≤ v ∧ v ≤ 1) :
    RDDMGuards ((RDDM.machine c).run ops) :=
  runFrom_inv (RDDM.machine c) RDDMGuards Unit01 (RDDMGuards_step c) (fun s _ => RDDMGuards_reset s) ops _
    (RDDMGuards_init c) hdom

/-- **operable_rddm_guards** (ℝ; EVERY configuration, accepted or not; every history of updates and resets
whose update values lie in `[0,1]`, in particular the error indicators `0/1` that the prediction queue is
meant to store).  In the state reached, the error rate is a probability and the stored minimum pair
`(min_error_rate, min_std)` is non-negative: the two guarded setters (base.py:218, :248) never raise —
neither from `_update_min_values` in `_update` nor from the replay loop `_rdd_drift_case` (rddm.py:317),
which re-runs the DDM statistics over the stored predictions.  This is the statement left UNPROVED in
`Props/C20b.lean`, verbatim.  Full strength for the ℝ-model.

Every assignment is covered, not only the last one of a step: in `_update` there is one assignment per step
and it is the final value of `minPS`; inside the replay loop the values assigned at iteration `j` are those
of `RDDM.replay … j …`, and `replay_guards` / `operable_rddm_replay_iterates` hold for every iteration
count.

Hypothesis `[0,1]` (cannot be weakened to "all reals" for the ℝ-model): for `p ∉ [0,1]` `Real.sqrt` of the
negative radicand is the junk value `0`, and the ℝ-model would store a negative `min_error_rate`; at IEEE
the radicand's `sqrt` is NaN, the comparison `<` is False and the setter is not reached at all — the two
part ways for a reason that is not in the code (same remark as `C20b.operable_ddm`);
see `operable_rddm_guards_witness`. -/
theorem operable_rddm_guards (c : RDDM.Cfg ℝ) (ops : List (Op ℝ)) (hdom : ∀ v, Op.update v ∈ ops → 0 ≤ v ∧ v ≤ 1) :
    let s := (RDDM.machine c).run ops
    0 ≤ s.er.mean ∧ s.er.mean ≤ 1 ∧ ∀ p sd, s.minPS = some (p, sd) → 0 ≤ p ∧ 0 ≤ sd :=
  (rddmGuards_run c ops hdom).1

/-- the `0/1` reading asked for (the queue stores 0/1 predictions) -/
theorem operable_rddm_guards_01 (c : RDDM.Cfg ℝ) (ops : List (Op ℝ)) (hdom : ∀ v, Op.update v ∈ ops → v = 0 ∨ v = 1) :
    let s := (RDDM.machine c).run ops
    0 ≤ s.er.mean ∧ s.er.mean ≤ 1 ∧ ∀ p sd, s.minPS = some (p, sd) → 0 ≤ p ∧ 0 ≤ sd :=
  operable_rddm_guards c ops (fun v hv => by rcases hdom v hv with rfl | rfl <;> norm_num)

/-- the auxiliary invariant on its own: every stored prediction lies in `[0,1]` -/
theorem operable_rddm_preds_unit (c : RDDM.Cfg ℝ) (ops : List (Op ℝ)) (hdom : ∀ v, Op.update v ∈ ops → 0 ≤ v ∧ v ≤ 1) :
    ∀ x, some x ∈ ((RDDM.machine c).run ops).preds.buf → 0 ≤ x ∧ x ≤ 1 :=
  (rddmGuards_run c ops hdom).2

/-- **every iteration of the replay loop**: in any such state, the statistics after `j` iterations of
`_rdd_drift_case` (for EVERY `j`, in particular `j ≤ count`, whatever the `drift` flag `d`) satisfy the
guards — so no assignment made inside the loop can raise. -/
theorem operable_rddm_replay_iterates (c : RDDM.Cfg ℝ) (ops : List (Op ℝ))
    (hdom : ∀ v, Op.update v ∈ ops → 0 ≤ v ∧ v ≤ 1) (d : Bool) (j : Nat) :
    let s := (RDDM.machine c).run ops
    let r := RDDM.replay c d s.preds j s.preds.first 0 Mean.init none
    0 ≤ r.2.1.mean ∧ r.2.1.mean ≤ 1 ∧ ∀ p sd, r.2.2 = some (p, sd) → 0 ≤ p ∧ 0 ≤ sd :=
  replay_guards c d _ (rddmGuards_run c ops hdom).2 j _ 0 _ _ statGuards_init

/-- **no junk value is used**: in every such state the radicand of `std = sqrt(p (1 - p) / n)` is
non-negative for every counter value, so `Real.sqrt` is the genuine square root wherever the model calls
it on the running error rate (division by `n = 0` does not occur either: `n ≥ 1` at both call sites, and
the statement below does not rely on it). -/
theorem operable_rddm_radicand (c : RDDM.Cfg ℝ) (ops : List (Op ℝ))
    (hdom : ∀ v, Op.update v ∈ ops → 0 ≤ v ∧ v ≤ 1) (n : Nat) :
    let s := (RDDM.machine c).run ops
    0 ≤ s.er.mean * (1 - s.er.mean) / (n : ℝ) := by
  obtain ⟨h0, h1, -⟩ := (rddmGuards_run c ops hdom).1
  exact div_nonneg (mul_nonneg h0 (by linarith)) (Nat.cast_nonneg n)

/-- non-vacuity of the hypothesis: `1, 0, 1, reset, 0.5, 1` is such a history (any configuration) -/
example (c : RDDM.Cfg ℝ) :
    let s := (RDDM.machine c).run [.update 1, .update 0, .update 1, .reset, .update 0.5, .update 1]
    0 ≤ s.er.mean ∧ s.er.mean ≤ 1 ∧ ∀ p sd, s.minPS = some (p, sd) → 0 ≤ p ∧ 0 ≤ sd :=
  operable_rddm_guards c _ (by intro v hv; simp at hv; rcases hv with rfl | rfl | rfl | rfl | rfl <;> norm_num)

example (c : RDDM.Cfg ℝ) :
    let s := (RDDM.machine c).run [.update 1, .update 0, .update 1, .reset, .update 0, .update 1]
    0 ≤ s.er.mean ∧ s.er.mean ≤ 1 ∧ ∀ p sd, s.minPS = some (p, sd) → 0 ≤ p ∧ 0 ≤ sd :=
  operable_rddm_guards_01 c _ (by intro v hv; simp at hv; rcases hv with rfl | rfl | rfl | rfl | rfl <;> simp)


/-- **the replay loop is really reached** by `[0,1]` histories (so the invariant above is not vacuous on
that path): with `min_num_instances = max_concept_size = 1` the first update `0` arms `rddm_drift`, and
the next update runs `_rdd_drift_case` over the stored prediction. -/
theorem replay_reached_witness (w d : ℝ) :
    ((RDDM.machine (⟨w, d, 1, 1, 2, 1⟩ : RDDM.Cfg ℝ)).run [.update 0]).rddmDrift = true := by
  simp [Machine.run, Machine.runFrom, Machine.apply, RDDM.machine, RDDM.step, RDDM.init, CQ.init, CQ.enqueue,
    CQ.isFull, CQ.nextLast, Mean.update, Mean.init, DDM.epsStd, DDM.belowMin, DDM.exceeds]

/-- **the hypothesis `[0,1]` cannot be dropped for the ℝ-model**: after the single update `-1`
(`min_num_instances = 1`) the ℝ-model holds `min_error_rate = -1` — `Real.sqrt (-2) = 0` is a junk value,
so `error_rate + std = -1 < inf` and the minimum is "updated".  (At IEEE `sqrt(-2)` is NaN, the comparison
is False and the setter is not reached: this witness is about the ℝ-model's domain, not a defect of the
code.) -/
theorem operable_rddm_guards_witness (w d : ℝ) :
    ((RDDM.machine (⟨w, d, 1, 10, 2, 1⟩ : RDDM.Cfg ℝ)).run [.update (-1)]).minPS = some (-1, 0) := by
  have h : Real.sqrt (-1 + -1) = 0 := Real.sqrt_eq_zero_of_nonpos (by norm_num)
  simp [Machine.run, Machine.runFrom, Machine.apply, RDDM.machine, RDDM.step, RDDM.init, CQ.init, CQ.enqueue,
    CQ.isFull, CQ.nextLast, Mean.update, Mean.init, DDM.epsStd, DDM.belowMin, DDM.exceeds, h]

end Guards

/-! ## B. Rounding transfer for the running error rate (C03) -/

/-- γ₃ = (1+u)³ − 1 -/
noncomputable def g3 (u : ℝ) : ℝ := (1 + u) ^ 3 - 1

theorem g3_nonneg {u : ℝ} (hu : 0 ≤ u) : 0 ≤ g3 u := by
  unfold g3; nlinarith [pow_nonneg hu 2, pow_nonneg hu 3]

/-- one step of the error recursion -/
noncomputable def meanErrStep (u : ℝ) (N : ℝ) (e : ℝ) : ℝ := (1 - 1 / N) * e + (g3 u / N + u) * (1 + e)

theorem mean_step_err (u e a r x δ1 δ2 δ3 N : ℝ) (hN : 1 ≤ N) (hu : 0 ≤ u)
    (h1 : |δ1| ≤ u) (h2 : |δ2| ≤ u) (h3 : |δ3| ≤ u)
    (hr0 : 0 ≤ r) (hr1 : r ≤ 1) (hx0 : 0 ≤ x) (hx1 : x ≤ 1) (he : |a - r| ≤ e) :
    |(a + ((x - a) * (1 + δ1) / N) * (1 + δ2)) * (1 + δ3) - (r + (x - r) / N)| ≤ meanErrStep u N e := by
  have hN0 : 0 < N := by linarith
  have he0 : 0 ≤ e := le_trans (abs_nonneg _) he
  set θ := δ1 + δ2 + δ1 * δ2 with hθ
  have hθb : |θ| ≤ 2 * u + u ^ 2 := by
    calc |θ| ≤ |δ1 + δ2| + |δ1 * δ2| := abs_add_le _ _
      _ ≤ (|δ1| + |δ2|) + |δ1| * |δ2| := by
          have := abs_add_le δ1 δ2
          rw [abs_mul]; linarith
      _ ≤ (u + u) + u * u := by
          have := mul_le_mul h1 h2 (abs_nonneg _) hu
          linarith
      _ = 2 * u + u ^ 2 := by ring
  have ha : |a| ≤ 1 + e := by
    have : |a| ≤ |a - r| + |r| := by
      have := abs_add_le (a - r) r; simpa using this
    have hr : |r| ≤ 1 := by rw [abs_le]; constructor <;> linarith
    linarith
  have hxa : |x - a| ≤ 1 + e := by
    have : |x - a| ≤ |x - r| + |r - a| := abs_sub_le x r a
    have hxr : |x - r| ≤ 1 := by rw [abs_le]; constructor <;> linarith
    rw [abs_sub_comm r a] at this
    linarith
  have hinv : 0 ≤ 1 - 1 / N := by
    rw [sub_nonneg, div_le_one hN0]; exact hN
  have e1 : (a + ((x - a) * (1 + δ1) / N) * (1 + δ2)) * (1 + δ3) - (r + (x - r) / N)
      = (a - r) * (1 - 1 / N) + (x - a) * θ / N + δ3 * (a + (x - a) * (1 + θ) / N) := by
    rw [hθ]; field_simp; ring
  rw [e1]
  have t1 : |(a - r) * (1 - 1 / N)| ≤ e * (1 - 1 / N) := by
    rw [abs_mul, abs_of_nonneg hinv]; exact mul_le_mul_of_nonneg_right he hinv
  have t2 : |(x - a) * θ / N| ≤ (1 + e) * (2 * u + u ^ 2) / N := by
    rw [abs_div, abs_mul, abs_of_pos hN0]
    exact div_le_div_of_nonneg_right (mul_le_mul hxa hθb (abs_nonneg _) (by linarith)) hN0.le
  have t3a : |1 + θ| ≤ 1 + (2 * u + u ^ 2) := by
    have := abs_add_le 1 θ; simp only [abs_one] at this; linarith
  have t3b : |(x - a) * (1 + θ) / N| ≤ (1 + e) * (1 + (2 * u + u ^ 2)) / N := by
    rw [abs_div, abs_mul, abs_of_pos hN0]
    exact div_le_div_of_nonneg_right (mul_le_mul hxa t3a (abs_nonneg _) (by linarith)) hN0.le
  have t3 : |δ3 * (a + (x - a) * (1 + θ) / N)| ≤ u * ((1 + e) + (1 + e) * (1 + (2 * u + u ^ 2)) / N) := by
    rw [abs_mul]
    refine mul_le_mul h3 ?_ (abs_nonneg _) hu
    have := abs_add_le a ((x - a) * (1 + θ) / N)
    linarith
  have := abs_add_le ((a - r) * (1 - 1 / N) + (x - a) * θ / N) (δ3 * (a + (x - a) * (1 + θ) / N))
  have := abs_add_le ((a - r) * (1 - 1 / N)) ((x - a) * θ / N)
  have e2 : meanErrStep u N e = e * (1 - 1 / N) + (1 + e) * (2 * u + u ^ 2) / N
      + u * ((1 + e) + (1 + e) * (1 + (2 * u + u ^ 2)) / N) := by
    unfold meanErrStep g3; field_simp; ring
  rw [e2]
  linarith


/-- **standard model of floating-point arithmetic** for an abstract rounding carrier (hypothesis structure,
NOT an axiom and not an instance for `Float`): every basic operation returns the exact result times
`(1 + δ)` with `|δ| ≤ u`; natural-number literals and comparisons are exact on the represented values.
Overflow, underflow (gradual or not) and NaN are OUTSIDE this model. For IEEE binary64, `u = 2^-53`. -/
structure StdModel (α : Type) [Num α] (toR : α → ℝ) (u : ℝ) : Prop where
  u_nonneg : 0 ≤ u
  add : ∀ x y : α, ∃ δ : ℝ, |δ| ≤ u ∧ toR (x + y) = (toR x + toR y) * (1 + δ)
  sub : ∀ x y : α, ∃ δ : ℝ, |δ| ≤ u ∧ toR (x - y) = (toR x - toR y) * (1 + δ)
  mul : ∀ x y : α, ∃ δ : ℝ, |δ| ≤ u ∧ toR (x * y) = (toR x * toR y) * (1 + δ)
  div : ∀ x y : α, toR y ≠ 0 → ∃ δ : ℝ, |δ| ≤ u ∧ toR (x / y) = (toR x / toR y) * (1 + δ)
  ofNat : ∀ n : Nat, toR (Num.ofNat n) = (n : ℝ)
  lt : ∀ x y : α, Num.lt x y = true ↔ toR x < toR y
  le : ∀ x y : α, Num.le x y = true ↔ toR x ≤ toR y

/-- satisfiable: ℝ itself with `toR = id`, `u = 0` -/
theorem stdModel_real : StdModel ℝ id 0 where
  u_nonneg := le_refl _
  add x y := ⟨0, by simp⟩
  sub x y := ⟨0, by simp⟩
  mul x y := ⟨0, by simp⟩
  div x y _ := ⟨0, by simp⟩
  ofNat n := rfl
  lt x y := by simp
  le x y := by simp

/-- … and with any larger unit roundoff (the model is monotone in `u`) -/
theorem StdModel.mono {α : Type} [Num α] {toR : α → ℝ} {u u' : ℝ} (h : StdModel α toR u) (huu : u ≤ u') :
    StdModel α toR u' where
  u_nonneg := le_trans h.u_nonneg huu
  add x y := by obtain ⟨δ, hδ, e⟩ := h.add x y; exact ⟨δ, le_trans hδ huu, e⟩
  sub x y := by obtain ⟨δ, hδ, e⟩ := h.sub x y; exact ⟨δ, le_trans hδ huu, e⟩
  mul x y := by obtain ⟨δ, hδ, e⟩ := h.mul x y; exact ⟨δ, le_trans hδ huu, e⟩
  div x y hy := by obtain ⟨δ, hδ, e⟩ := h.div x y hy; exact ⟨δ, le_trans hδ huu, e⟩
  ofNat := h.ofNat
  lt := h.lt
  le := h.le

section Transfer
variable {α : Type} [Num α] {toR : α → ℝ} {u : ℝ}

theorem StdModel.zero (h : StdModel α toR u) : toR (Num.zero : α) = 0 := by
  simpa [Num.zero] using h.ofNat 0
theorem StdModel.one (h : StdModel α toR u) : toR (Num.one : α) = 1 := by
  simpa [Num.one] using h.ofNat 1

/-- one `Mean.update` at the rounding carrier against one at ℝ on the represented value -/
theorem mean_update_transfer (h : StdModel α toR u) (m : Mean α) (r : Mean ℝ) (v : α) (e : ℝ)
    (hn : m.n = r.n) (hr0 : 0 ≤ r.mean) (hr1 : r.mean ≤ 1) (hv0 : 0 ≤ toR v) (hv1 : toR v ≤ 1)
    (he : |toR m.mean - r.mean| ≤ e) :
    (m.update v).n = (r.update (toR v)).n ∧
    |toR (m.update v).mean - (r.update (toR v)).mean| ≤ meanErrStep u ((m.n + 1 : ℕ) : ℝ) e := by
  refine ⟨by simp [Mean.update, hn], ?_⟩
  have hN : (1 : ℝ) ≤ ((m.n + 1 : ℕ) : ℝ) := by exact_mod_cast Nat.le_add_left 1 m.n
  have hN0 : toR (Num.ofNat (m.n + 1) : α) ≠ 0 := by rw [h.ofNat]; linarith
  obtain ⟨δ1, h1, e1⟩ := h.sub v m.mean
  obtain ⟨δ2, h2, e2⟩ := h.div (v - m.mean) (Num.ofNat (m.n + 1)) hN0
  obtain ⟨δ3, h3, e3⟩ := h.add m.mean ((v - m.mean) / Num.ofNat (m.n + 1))
  simp only [Mean.update, RealNum.ofNat_eq]
  rw [e3, e2, e1, h.ofNat, ← hn]
  exact mean_step_err u e _ _ _ δ1 δ2 δ3 _ hN h.u_nonneg h1 h2 h3 hr0 hr1 hv0 hv1 he


end Transfer

/-! ### the error recursion `E` -/

/-- explicit forward error bound for the running mean after `t` updates of a `[0,1]`-valued stream:
`E 0 = 0`, `E (t+1) = (1 - 1/(t+1)) · E t + (γ₃/(t+1) + u) · (1 + E t)` with `γ₃ = (1+u)³ - 1`. -/
noncomputable def meanErr (u : ℝ) : ℕ → ℝ
  | 0 => 0
  | t + 1 => meanErrStep u ((t + 1 : ℕ) : ℝ) (meanErr u t)

theorem meanErrStep_mono {u N e e' : ℝ} (hu : 0 ≤ u) (hN : 1 ≤ N) (h : e ≤ e') :
    meanErrStep u N e ≤ meanErrStep u N e' := by
  have hN0 : 0 < N := by linarith
  have h1 : 0 ≤ 1 - 1 / N := by rw [sub_nonneg, div_le_one hN0]; exact hN
  have h2 : 0 ≤ g3 u / N + u := add_nonneg (div_nonneg (g3_nonneg hu) hN0.le) hu
  unfold meanErrStep
  nlinarith

theorem meanErrStep_nonneg {u N e : ℝ} (hu : 0 ≤ u) (hN : 1 ≤ N) (he : 0 ≤ e) : 0 ≤ meanErrStep u N e := by
  have hN0 : 0 < N := by linarith
  have h1 : 0 ≤ 1 - 1 / N := by rw [sub_nonneg, div_le_one hN0]; exact hN
  have h2 : 0 ≤ g3 u / N + u := add_nonneg (div_nonneg (g3_nonneg hu) hN0.le) hu
  unfold meanErrStep
  positivity

theorem natCast_succ_ge_one (t : ℕ) : (1 : ℝ) ≤ ((t + 1 : ℕ) : ℝ) := by
  exact_mod_cast Nat.le_add_left 1 t

theorem meanErr_nonneg {u : ℝ} (hu : 0 ≤ u) (t : ℕ) : 0 ≤ meanErr u t := by
  induction t with
  | zero => exact le_refl _
  | succ t ih => exact meanErrStep_nonneg hu (natCast_succ_ge_one t) ih

/-- exact arithmetic (`u = 0`) has no error -/
theorem meanErr_zero (t : ℕ) : meanErr 0 t = 0 := by
  induction t with
  | zero => rfl
  | succ t ih => simp [meanErr, meanErrStep, g3, ih]

/-- **closed form**: `E t ≤ (1 + κ)^t - 1` with `κ = (1+u)³ - 1 + u = 4u + 3u² + u³`
(so `E t ≈ 4·t·u` while `t·u ≪ 1`; for binary64 and `t = 10⁶` this is `≈ 4.5·10⁻¹⁰`). -/
theorem meanErr_le_closed {u : ℝ} (hu : 0 ≤ u) (t : ℕ) : meanErr u t ≤ (1 + (g3 u + u)) ^ t - 1 := by
  induction t with
  | zero => simp [meanErr]
  | succ t ih =>
    have hN := natCast_succ_ge_one t
    have hN0 : (0 : ℝ) < ((t + 1 : ℕ) : ℝ) := by linarith
    have hg := g3_nonneg hu
    have he := meanErr_nonneg hu t
    have h1 : g3 u / ((t + 1 : ℕ) : ℝ) ≤ g3 u := div_le_self hg hN
    have h2 : 0 ≤ 1 / ((t + 1 : ℕ) : ℝ) := by positivity
    have hstep : meanErr u (t + 1) ≤ (1 + (g3 u + u)) * meanErr u t + (g3 u + u) := by
      show meanErrStep u _ _ ≤ _
      unfold meanErrStep
      nlinarith [mul_nonneg h2 he, mul_le_mul_of_nonneg_right h1 (by linarith : (0:ℝ) ≤ 1 + meanErr u t)]
    have hk : 0 ≤ 1 + (g3 u + u) := by linarith
    calc meanErr u (t + 1) ≤ (1 + (g3 u + u)) * meanErr u t + (g3 u + u) := hstep
      _ ≤ (1 + (g3 u + u)) * ((1 + (g3 u + u)) ^ t - 1) + (g3 u + u) := by
          have := mul_le_mul_of_nonneg_left ih hk; linarith
      _ = (1 + (g3 u + u)) ^ (t + 1) - 1 := by ring

theorem kappa_eq (u : ℝ) : g3 u + u = 4 * u + 3 * u ^ 2 + u ^ 3 := by unfold g3; ring

/-! ### the running mean after `t` updates -/

/-- ℝ: the running mean of a `[0,1]`-valued stream is a probability and counts its updates -/
theorem mean_fold_real (ys : List ℝ) (hy : ∀ y ∈ ys, 0 ≤ y ∧ y ≤ 1) :
    (ys.foldl Mean.update (Mean.init : Mean ℝ)).n = ys.length ∧
    0 ≤ (ys.foldl Mean.update (Mean.init : Mean ℝ)).mean ∧ (ys.foldl Mean.update (Mean.init : Mean ℝ)).mean ≤ 1 ∧
    (ys.foldl Mean.update (Mean.init : Mean ℝ)).mean * ys.length = ys.sum := by
  induction ys using List.reverseRecOn with
  | nil => simp [Mean.init]
  | append_singleton ys y ih =>
    obtain ⟨hn, h0, h1, hs⟩ := ih (fun z hz => hy z (by simp [hz]))
    have hyy := hy y (by simp)
    simp only [List.foldl_append, List.foldl_cons, List.foldl_nil, List.length_append, List.length_singleton,
      List.sum_append, List.sum_singleton]
    set m := ys.foldl Mean.update (Mean.init : Mean ℝ) with hm
    have hN0 : (0 : ℝ) < (ys.length : ℝ) + 1 := by positivity
    refine ⟨by simp [Mean.update, hn], ?_, ?_, ?_⟩
    · simp only [Mean.update, RealNum.ofNat_eq, hn, Nat.cast_add, Nat.cast_one]
      have e : m.mean + (y - m.mean) / ((ys.length : ℝ) + 1) = (m.mean * ys.length + y) / ((ys.length : ℝ) + 1) := by
        field_simp; ring
      rw [e]; exact div_nonneg (by nlinarith [hyy.1, Nat.cast_nonneg (α := ℝ) ys.length]) hN0.le
    · simp only [Mean.update, RealNum.ofNat_eq, hn, Nat.cast_add, Nat.cast_one]
      have e : m.mean + (y - m.mean) / ((ys.length : ℝ) + 1) = (m.mean * ys.length + y) / ((ys.length : ℝ) + 1) := by
        field_simp; ring
      rw [e, div_le_one hN0]; nlinarith [hyy.2, Nat.cast_nonneg (α := ℝ) ys.length]
    · simp only [Mean.update, RealNum.ofNat_eq, hn, Nat.cast_add, Nat.cast_one, ← hs]
      field_simp; ring

section Transfer2
variable {α : Type} [Num α] {toR : α → ℝ} {u : ℝ}

/-- **rounding transfer for the running error rate** (the `Mean` used by DDM/RDDM/ECDD/HDDM-A): on the
same stream, the mean computed at an abstract rounding carrier satisfying `StdModel` stays within `E t` of
the mean computed at ℝ after `t` updates, for EVERY stream whose represented values lie in `[0,1]`; the
counters agree exactly. -/
theorem mean_transfer (h : StdModel α toR u) (xs : List α) (hx : ∀ v ∈ xs, 0 ≤ toR v ∧ toR v ≤ 1) :
    (xs.foldl Mean.update (Mean.init : Mean α)).n = xs.length ∧
    ((xs.map toR).foldl Mean.update (Mean.init : Mean ℝ)).n = xs.length ∧
    |toR (xs.foldl Mean.update (Mean.init : Mean α)).mean - ((xs.map toR).foldl Mean.update (Mean.init : Mean ℝ)).mean|
      ≤ meanErr u xs.length := by
  induction xs using List.reverseRecOn with
  | nil => simp [Mean.init, meanErr, h.zero]
  | append_singleton xs v ih =>
    obtain ⟨hn, hn', he⟩ := ih (fun z hz => hx z (by simp [hz]))
    have hv := hx v (by simp)
    obtain ⟨-, r0, r1, -⟩ := mean_fold_real (xs.map toR)
      (by intro y hy; simp only [List.mem_map] at hy; obtain ⟨z, hz, rfl⟩ := hy; exact hx z (by simp [hz]))
    simp only [List.map_append, List.map_cons, List.map_nil, List.foldl_append, List.foldl_cons, List.foldl_nil,
      List.length_append, List.length_singleton]
    obtain ⟨k1, k2⟩ := mean_update_transfer h _ _ v _ (hn.trans hn'.symm) r0 r1 hv.1 hv.2 he
    refine ⟨by simp [Mean.update, hn], by simp [Mean.update, hn'], ?_⟩
    rw [hn] at k2
    exact k2


/-- in terms of the arithmetic mean of the represented values: `|toR mean_t^α − (Σ toR xᵢ)/t| ≤ E t` -/
theorem mean_transfer_sum (h : StdModel α toR u) (xs : List α) (hx : ∀ v ∈ xs, 0 ≤ toR v ∧ toR v ≤ 1)
    (hne : xs ≠ []) :
    |toR (xs.foldl Mean.update (Mean.init : Mean α)).mean - (xs.map toR).sum / xs.length| ≤ meanErr u xs.length := by
  obtain ⟨-, -, he⟩ := mean_transfer h xs hx
  obtain ⟨-, -, -, hs⟩ := mean_fold_real (xs.map toR)
    (by intro y hy; simp only [List.mem_map] at hy; obtain ⟨z, hz, rfl⟩ := hy; exact hx z hz)
  have hl : (0 : ℝ) < (xs.length : ℝ) := by
    exact_mod_cast List.length_pos_iff.mpr hne
  rw [List.length_map] at hs
  rw [← hs, mul_div_cancel_right₀ _ hl.ne']
  exact he

/-- the `0/1` reading: a stream of the carrier's own `0` and `1` -/
theorem mean_transfer_01 (h : StdModel α toR u) (xs : List α) (hx : ∀ v ∈ xs, v = Num.zero ∨ v = Num.one) :
    |toR (xs.foldl Mean.update (Mean.init : Mean α)).mean - ((xs.map toR).foldl Mean.update (Mean.init : Mean ℝ)).mean|
      ≤ (1 + (4 * u + 3 * u ^ 2 + u ^ 3)) ^ xs.length - 1 := by
  have := (mean_transfer h xs (fun v hv => by
    rcases hx v hv with rfl | rfl
    · rw [h.zero]; norm_num
    · rw [h.one]; norm_num)).2.2
  rw [← kappa_eq]
  exact le_trans this (meanErr_le_closed h.u_nonneg _)

end Transfer2

/-! ### DDM: counters and warm-up are exact; the error rate carries the bound through resets -/
section DDMControl
variable {α : Type} [Num α]

theorem ddm_step_n (c : DDM.Cfg α) (s : DDM.State α) (v : α) : (DDM.step c s v).n = s.n + 1 := by
  unfold DDM.step; simp only []; repeat' split
  all_goals rfl

theorem ddm_step_er (c : DDM.Cfg α) (s : DDM.State α) (v : α) : (DDM.step c s v).er = s.er.update v := by
  unfold DDM.step; simp only []; repeat' split
  all_goals rfl

/-- warm-up (any carrier): below `min_num_instances` no flag is raised and the minimum pair is untouched -/
theorem ddm_step_warmup (c : DDM.Cfg α) (s : DDM.State α) (v : α) (h : s.n + 1 < c.minN) :
    (DDM.step c s v).drift = false ∧ (DDM.step c s v).warning = false ∧ (DDM.step c s v).minPS = s.minPS := by
  unfold DDM.step
  simp [show ¬ c.minN ≤ s.n + 1 by omega]

/-- control-flow invariant (any carrier): the `Mean`'s own counter equals `num_instances`, and during
warm-up nothing has happened yet -/
def DDMWarm (c : DDM.Cfg α) (s : DDM.State α) : Prop :=
  s.er.n = s.n ∧ (s.n < c.minN → s.drift = false ∧ s.warning = false ∧ s.minPS = none)

theorem ddmWarm_step (c : DDM.Cfg α) (s : DDM.State α) (v : α) (h : DDMWarm c s) : DDMWarm c (DDM.step c s v) := by
  refine ⟨by rw [ddm_step_er, ddm_step_n]; simp [Mean.update, h.1], ?_⟩
  rw [ddm_step_n]
  intro hn
  obtain ⟨a, b, e⟩ := ddm_step_warmup c s v hn
  exact ⟨a, b, by rw [e]; exact (h.2 (by omega)).2.2⟩

theorem ddmWarm_init (c : DDM.Cfg α) : DDMWarm c DDM.init := ⟨rfl, fun _ => ⟨rfl, rfl, rfl⟩⟩
theorem ddmWarm_reset (c : DDM.Cfg α) (s : DDM.State α) : DDMWarm c (DDM.reset s) := ⟨rfl, fun _ => ⟨rfl, rfl, rfl⟩⟩
end DDMControl

/-- map a history through the representation function -/
def mapOp {V W : Type} (f : V → W) : Op V → Op W
  | .update v => .update (f v)
  | .reset => .reset

/-- two machines run in lock-step on `ops` and `ops.map (mapOp f)` stay related -/
theorem run_rel {S₁ S₂ V₁ V₂ : Type} (M₁ : Machine S₁ V₁) (M₂ : Machine S₂ V₂) (f : V₁ → V₂)
    (R : S₁ → S₂ → Prop) (D : V₁ → Prop) (h0 : R M₁.init M₂.init)
    (hs : ∀ s₁ s₂ v, R s₁ s₂ → D v → R (M₁.step s₁ v) (M₂.step s₂ (f v)))
    (hr : ∀ s₁ s₂, R s₁ s₂ → R (M₁.reset s₁) (M₂.reset s₂))
    (ops : List (Op V₁)) (hd : ∀ v, Op.update v ∈ ops → D v) :
    R (M₁.run ops) (M₂.run (ops.map (mapOp f))) := by
  unfold Machine.run
  generalize M₁.init = s₁, M₂.init = s₂ at h0
  induction ops generalizing s₁ s₂ with
  | nil => exact h0
  | cons o ops ih =>
    have hd' : ∀ v, Op.update v ∈ ops → D v := fun v hv => hd v (List.mem_cons_of_mem _ hv)
    cases o with
    | update v => exact ih hd' _ _ (hs _ _ v h0 (hd v (by simp)))
    | reset => exact ih hd' _ _ (hr _ _ h0)

section DDMTransfer
variable {α : Type} [Num α] {toR : α → ℝ} {u : ℝ}

/-- the configuration seen through `toR` -/
def ddmCfgR (toR : α → ℝ) (c : DDM.Cfg α) : DDM.Cfg ℝ := ⟨toR c.warn, toR c.drift, c.minN⟩

/-- the lock-step relation between the α-run and the ℝ-run of DDM -/
def DDMRel (toR : α → ℝ) (u : ℝ) (c : DDM.Cfg α) (s : DDM.State α) (r : DDM.State ℝ) : Prop :=
  s.n = r.n ∧ DDMWarm c s ∧ DDMWarm (ddmCfgR toR c) r ∧
  0 ≤ r.er.mean ∧ r.er.mean ≤ 1 ∧ |toR s.er.mean - r.er.mean| ≤ meanErr u s.n

theorem ddmRel_step (h : StdModel α toR u) (c : DDM.Cfg α) (s : DDM.State α) (r : DDM.State ℝ) (v : α)
    (hR : DDMRel toR u c s r) (hv : 0 ≤ toR v ∧ toR v ≤ 1) :
    DDMRel toR u c (DDM.step c s v) (DDM.step (ddmCfgR toR c) r (toR v)) := by
  obtain ⟨hn, hw, hw', r0, r1, he⟩ := hR
  obtain ⟨-, k⟩ := mean_update_transfer h s.er r.er v _ (by rw [hw.1, hw'.1, hn]) r0 r1 hv.1 hv.2 he
  obtain ⟨q0, q1⟩ := mean_update_unit r.er (toR v) r0 r1 hv.1 hv.2
  refine ⟨by rw [ddm_step_n, ddm_step_n, hn], ddmWarm_step c s v hw, ddmWarm_step _ r _ hw', ?_, ?_, ?_⟩
  · rw [ddm_step_er]; exact q0
  · rw [ddm_step_er]; exact q1
  · rw [ddm_step_er, ddm_step_er, ddm_step_n]
    rw [hw.1] at k
    exact k

/-- **DDM under rounding, every history with resets**: run the model at the rounding carrier on `ops` and
at ℝ on the represented history (same configuration through `toR`).  In the states reached:
* `num_instances` and the `Mean`'s counter are EXACT (equal in both runs);
* the error rate of the α-run is within `E n` of the ℝ-run's, `n` = instances since the last reset;
* during warm-up (`n < min_num_instances`) both runs have no flag and no minimum — the warm-up test is on
  integers, it cannot be affected by rounding. -/
theorem ddm_transfer (h : StdModel α toR u) (c : DDM.Cfg α) (ops : List (Op α))
    (hdom : ∀ v, Op.update v ∈ ops → 0 ≤ toR v ∧ toR v ≤ 1) :
    let s := (DDM.machine c).run ops
    let r := (DDM.machine (ddmCfgR toR c)).run (ops.map (mapOp toR))
    s.n = r.n ∧ s.er.n = s.n ∧ r.er.n = r.n ∧
    |toR s.er.mean - r.er.mean| ≤ meanErr u s.n ∧
    (s.n < c.minN → s.drift = false ∧ s.warning = false ∧ s.minPS = none ∧
                     r.drift = false ∧ r.warning = false ∧ r.minPS = none) := by
  have := run_rel (DDM.machine c) (DDM.machine (ddmCfgR toR c)) toR (DDMRel toR u c)
    (fun v => 0 ≤ toR v ∧ toR v ≤ 1)
    ⟨rfl, ddmWarm_init c, ddmWarm_init _, by simp [DDM.machine, DDM.init, Mean.init],
      by simp [DDM.machine, DDM.init, Mean.init], by simp [DDM.machine, DDM.init, Mean.init, meanErr, h.zero]⟩
    (fun s r v hR hv => ddmRel_step h c s r v hR hv)
    (fun s r _ => ⟨rfl, ddmWarm_reset c s, ddmWarm_reset _ r, by simp [DDM.machine, DDM.reset, Mean.init],
      by simp [DDM.machine, DDM.reset, Mean.init], by simp [DDM.machine, DDM.reset, Mean.init, meanErr, h.zero]⟩)
    ops hdom
  obtain ⟨hn, hw, hw', -, -, he⟩ := this
  refine ⟨hn, hw.1, hw'.1, he, ?_⟩
  intro hlt
  obtain ⟨a, b, d⟩ := hw.2 hlt
  obtain ⟨a', b', d'⟩ := hw'.2 (by rw [← hn]; exact hlt)
  exact ⟨a, b, d, a', b', d'⟩

end DDMTransfer

/-! ### a second, genuinely rounding instance of `StdModel`; non-vacuity -/

/-- a carrier that really rounds: every `+ - * /` result is inflated by the factor `1 + 1/8` -/
structure Biased where
  val : ℝ

open Classical in
noncomputable instance : Num Biased where
  add x y := ⟨(x.val + y.val) * (1 + 1 / 8)⟩
  sub x y := ⟨(x.val - y.val) * (1 + 1 / 8)⟩
  mul x y := ⟨(x.val * y.val) * (1 + 1 / 8)⟩
  div x y := ⟨(x.val / y.val) * (1 + 1 / 8)⟩
  neg x := ⟨-x.val⟩
  ofNat n := ⟨n⟩
  ofDec m e := ⟨(m : ℝ) / (10 : ℝ) ^ e⟩
  sqrt x := ⟨Real.sqrt x.val⟩
  log x := ⟨Real.log x.val⟩
  exp x := ⟨Real.exp x.val⟩
  abs x := ⟨|x.val|⟩
  npow x n := ⟨x.val ^ n⟩
  lt a b := decide (a.val < b.val)
  le a b := decide (a.val ≤ b.val)
  beq a b := decide (a.val = b.val)

/-- second, non-trivial instance of the hypothesis structure (`u = 1/8`, every `δ = 1/8`) -/
theorem stdModel_biased : StdModel Biased Biased.val (1 / 8) where
  u_nonneg := by norm_num
  add x y := ⟨1 / 8, by norm_num, rfl⟩
  sub x y := ⟨1 / 8, by norm_num, rfl⟩
  mul x y := ⟨1 / 8, by norm_num, rfl⟩
  div x y _ := ⟨1 / 8, by norm_num, rfl⟩
  ofNat n := rfl
  lt x y := by simp [Num.lt]
  le x y := by simp [Num.le]

/-- non-vacuity of `mean_transfer`: a concrete 0/1 stream at the biased carrier -/
example :
    |Biased.val ([(Num.one : Biased), Num.zero, Num.one].foldl Mean.update Mean.init).mean
      - (([(Num.one : Biased), Num.zero, Num.one].map Biased.val).foldl Mean.update (Mean.init : Mean ℝ)).mean|
      ≤ meanErr (1 / 8) 3 :=
  (mean_transfer stdModel_biased _ (by
    intro v hv; simp at hv
    rcases hv with rfl | rfl | rfl <;> simp [Num.one, Num.zero, Num.ofNat])).2.2


/-! ### extension to `std` and `error_rate + std` (needs the `sqrt` clause) -/

/-- `StdModel` plus the clause for `sqrt` (correctly rounded at IEEE): relative error `u` on non-negative
arguments; nothing is assumed about negative arguments (NaN at IEEE). -/
structure StdModelSqrt (α : Type) [Num α] (toR : α → ℝ) (u : ℝ) : Prop extends StdModel α toR u where
  sqrt : ∀ x : α, 0 ≤ toR x → ∃ δ : ℝ, |δ| ≤ u ∧ toR (Num.sqrt x) = Real.sqrt (toR x) * (1 + δ)

theorem stdModelSqrt_real : StdModelSqrt ℝ id 0 :=
  { stdModel_real with sqrt := fun x _ => ⟨0, by simp⟩ }

/-- `|√a − √b| ≤ √|a − b|` -/
theorem abs_sqrt_sub_sqrt_le {a b : ℝ} (ha : 0 ≤ a) (hb : 0 ≤ b) : |Real.sqrt a - Real.sqrt b| ≤ Real.sqrt |a - b| := by
  have key : ∀ {x y : ℝ}, 0 ≤ y → y ≤ x → Real.sqrt x - Real.sqrt y ≤ Real.sqrt (x - y) := by
    intro x y hy hxy
    have hx : 0 ≤ x := le_trans hy hxy
    rw [sub_le_iff_le_add, Real.sqrt_le_iff]
    refine ⟨by positivity, ?_⟩
    have h1 := Real.sq_sqrt (sub_nonneg.mpr hxy)
    have h2 := Real.sq_sqrt hy
    nlinarith [Real.sqrt_nonneg (x - y), Real.sqrt_nonneg y]
  rcases le_total b a with h | h
  · rw [abs_of_nonneg (sub_nonneg.mpr (Real.sqrt_le_sqrt h)), abs_of_nonneg (sub_nonneg.mpr h)]
    exact key hb h
  · rw [abs_sub_comm, abs_sub_comm a b, abs_of_nonneg (sub_nonneg.mpr (Real.sqrt_le_sqrt h)),
      abs_of_nonneg (sub_nonneg.mpr h)]
    exact key ha h

/-- three roundings compose to a relative error of at most `γ₃ = (1+u)³ − 1` -/
theorem three_roundings {u δ1 δ2 δ3 : ℝ} (hu : 0 ≤ u) (h1 : |δ1| ≤ u) (h2 : |δ2| ≤ u) (h3 : |δ3| ≤ u) :
    |(1 + δ1) * (1 + δ2) * (1 + δ3) - 1| ≤ g3 u := by
  have e : (1 + δ1) * (1 + δ2) * (1 + δ3) - 1
      = δ1 + δ2 + δ3 + δ1 * δ2 + δ1 * δ3 + δ2 * δ3 + δ1 * δ2 * δ3 := by ring
  have a12 : |δ1 * δ2| ≤ u * u := by rw [abs_mul]; exact mul_le_mul h1 h2 (abs_nonneg _) hu
  have a13 : |δ1 * δ3| ≤ u * u := by rw [abs_mul]; exact mul_le_mul h1 h3 (abs_nonneg _) hu
  have a23 : |δ2 * δ3| ≤ u * u := by rw [abs_mul]; exact mul_le_mul h2 h3 (abs_nonneg _) hu
  have a123 : |δ1 * δ2 * δ3| ≤ u * u * u := by
    rw [abs_mul]; exact mul_le_mul a12 h3 (abs_nonneg _) (by positivity)
  rw [e]
  have t1 := abs_add_le (δ1 + δ2 + δ3 + δ1 * δ2 + δ1 * δ3 + δ2 * δ3) (δ1 * δ2 * δ3)
  have t2 := abs_add_le (δ1 + δ2 + δ3 + δ1 * δ2 + δ1 * δ3) (δ2 * δ3)
  have t3 := abs_add_le (δ1 + δ2 + δ3 + δ1 * δ2) (δ1 * δ3)
  have t4 := abs_add_le (δ1 + δ2 + δ3) (δ1 * δ2)
  have t5 := abs_add_le (δ1 + δ2) δ3
  have t6 := abs_add_le δ1 δ2
  unfold g3
  nlinarith

/-- error bound for the radicand `p (1 − p) / n` -/
noncomputable def radErr (u N e : ℝ) : ℝ := (e + g3 u / 4) / N
/-- error bound for `std = sqrt (p (1 − p) / n)` -/
noncomputable def stdErr (u N e : ℝ) : ℝ := Real.sqrt (radErr u N e) + u * (1 / 2 + Real.sqrt (radErr u N e))
/-- error bound for `error_rate + std` -/
noncomputable def epsErr (u N e : ℝ) : ℝ := e + stdErr u N e + u * (3 / 2 + stdErr u N e)

theorem rad_err {u e ph p N δ1 δ2 δ3 : ℝ} (hu : 0 ≤ u) (hu1 : u ≤ 1) (hN : 1 ≤ N)
    (h1 : |δ1| ≤ u) (h2 : |δ2| ≤ u) (h3 : |δ3| ≤ u)
    (hp0 : 0 ≤ p) (hp1 : p ≤ 1) (hq0 : 0 ≤ ph) (hq1 : ph ≤ 1) (he : |ph - p| ≤ e) :
    0 ≤ ph * ((1 - ph) * (1 + δ1)) * (1 + δ2) / N * (1 + δ3) ∧
    0 ≤ p * (1 - p) / N ∧ p * (1 - p) / N ≤ 1 / 4 ∧
    |ph * ((1 - ph) * (1 + δ1)) * (1 + δ2) / N * (1 + δ3) - p * (1 - p) / N| ≤ radErr u N e := by
  have hN0 : 0 < N := by linarith
  have d1 : 0 ≤ 1 + δ1 := by have := (abs_le.mp h1).1; linarith
  have d2 : 0 ≤ 1 + δ2 := by have := (abs_le.mp h2).1; linarith
  have d3 : 0 ≤ 1 + δ3 := by have := (abs_le.mp h3).1; linarith
  have hq : 0 ≤ ph * (1 - ph) := mul_nonneg hq0 (by linarith)
  have hq4 : ph * (1 - ph) ≤ 1 / 4 := by nlinarith [sq_nonneg (ph - 1 / 2)]
  have hp : 0 ≤ p * (1 - p) := mul_nonneg hp0 (by linarith)
  have hp4 : p * (1 - p) ≤ 1 / 4 := by nlinarith [sq_nonneg (p - 1 / 2)]
  refine ⟨by positivity, by positivity, ?_, ?_⟩
  · rw [div_le_iff₀ hN0]; nlinarith
  · set θ := (1 + δ1) * (1 + δ2) * (1 + δ3) - 1 with hθ
    have hθb : |θ| ≤ g3 u := three_roundings hu h1 h2 h3
    have e1 : ph * ((1 - ph) * (1 + δ1)) * (1 + δ2) / N * (1 + δ3) - p * (1 - p) / N
        = ((ph - p) * (1 - ph - p) + ph * (1 - ph) * θ) / N := by
      rw [hθ]; field_simp; ring
    rw [e1, abs_div, abs_of_pos hN0]
    unfold radErr
    apply div_le_div_of_nonneg_right _ hN0.le
    have a1 : |(ph - p) * (1 - ph - p)| ≤ e * 1 := by
      rw [abs_mul]
      exact mul_le_mul he (by rw [abs_le]; constructor <;> linarith) (abs_nonneg _) (le_trans (abs_nonneg _) he)
    have a2 : |ph * (1 - ph) * θ| ≤ 1 / 4 * g3 u := by
      rw [abs_mul, abs_of_nonneg hq]
      exact mul_le_mul hq4 hθb (abs_nonneg _) (by norm_num)
    have := abs_add_le ((ph - p) * (1 - ph - p)) (ph * (1 - ph) * θ)
    linarith


theorem std_err {u ρ Rh R δ4 : ℝ} (hu : 0 ≤ u) (hRh : 0 ≤ Rh) (hR : 0 ≤ R) (hR4 : R ≤ 1 / 4)
    (hρ : |Rh - R| ≤ ρ) (h4 : |δ4| ≤ u) :
    Real.sqrt R ≤ 1 / 2 ∧
    |Real.sqrt Rh * (1 + δ4) - Real.sqrt R| ≤ Real.sqrt ρ + u * (1 / 2 + Real.sqrt ρ) := by
  have s0 : |Real.sqrt Rh - Real.sqrt R| ≤ Real.sqrt ρ :=
    le_trans (abs_sqrt_sub_sqrt_le hRh hR) (Real.sqrt_le_sqrt hρ)
  have s1 : Real.sqrt R ≤ 1 / 2 := by
    rw [Real.sqrt_le_iff]; constructor <;> norm_num; linarith
  have s2 : Real.sqrt Rh ≤ 1 / 2 + Real.sqrt ρ := by
    have := (abs_le.mp s0).2; linarith
  refine ⟨s1, ?_⟩
  have e1 : Real.sqrt Rh * (1 + δ4) - Real.sqrt R = (Real.sqrt Rh - Real.sqrt R) + δ4 * Real.sqrt Rh := by ring
  rw [e1]
  have a := abs_add_le (Real.sqrt Rh - Real.sqrt R) (δ4 * Real.sqrt Rh)
  have b : |δ4 * Real.sqrt Rh| ≤ u * (1 / 2 + Real.sqrt ρ) := by
    rw [abs_mul, abs_of_nonneg (Real.sqrt_nonneg Rh)]
    exact mul_le_mul h4 s2 (Real.sqrt_nonneg _) hu
  linarith

theorem eps_err {u e S ph p sh s δ5 : ℝ} (hu : 0 ≤ u) (hq0 : 0 ≤ ph) (hq1 : ph ≤ 1)
    (hs0 : 0 ≤ s) (hs1 : s ≤ 1 / 2) (he : |ph - p| ≤ e) (hS : |sh - s| ≤ S) (h5 : |δ5| ≤ u) :
    |(ph + sh) * (1 + δ5) - (p + s)| ≤ e + S + u * (3 / 2 + S) := by
  have e1 : (ph + sh) * (1 + δ5) - (p + s) = (ph - p) + (sh - s) + δ5 * (ph + sh) := by ring
  rw [e1]
  have hsh : |sh| ≤ 1 / 2 + S := by
    have := abs_add_le (sh - s) s
    rw [sub_add_cancel, abs_of_nonneg hs0] at this
    linarith
  have b : |δ5 * (ph + sh)| ≤ u * (3 / 2 + S) := by
    rw [abs_mul]
    refine mul_le_mul h5 ?_ (abs_nonneg _) hu
    have := abs_add_le ph sh
    rw [abs_of_nonneg hq0] at this
    linarith
  have a1 := abs_add_le ((ph - p) + (sh - s)) (δ5 * (ph + sh))
  have a2 := abs_add_le (ph - p) (sh - s)
  linarith

section EpsTransfer
variable {α : Type} [Num α] {toR : α → ℝ} {u : ℝ}

/-- **`_calculate_error_rate_plus_std` under rounding** (one call): if the α error rate is within `e` of
the real one, both are probabilities and `n ≥ 1`, then `std` and `error_rate + std` computed at the rounding
carrier are within `stdErr u n e` / `epsErr u n e` of the real ones.
Hypothesis `0 ≤ toR p̂ ≤ 1` is what keeps the radicand non-negative at the rounding carrier — outside it
IEEE `sqrt` returns NaN and the standard model says nothing; see `unit_of_margin` for a sufficient
condition on the ℝ side. -/
theorem epsStd_transfer (h : StdModelSqrt α toR u) (hu1 : u ≤ 1) (m : Mean α) (r : Mean ℝ) (n : ℕ) (hn : 1 ≤ n)
    (e : ℝ) (hr0 : 0 ≤ r.mean) (hr1 : r.mean ≤ 1) (hq0 : 0 ≤ toR m.mean) (hq1 : toR m.mean ≤ 1)
    (he : |toR m.mean - r.mean| ≤ e) :
    0 ≤ (DDM.epsStd r n).2 ∧ (DDM.epsStd r n).2 ≤ 1 / 2 ∧
    |toR (DDM.epsStd m n).2 - (DDM.epsStd r n).2| ≤ stdErr u n e ∧
    |toR (DDM.epsStd m n).1 - (DDM.epsStd r n).1| ≤ epsErr u n e := by
  have hN : (1 : ℝ) ≤ (n : ℝ) := by exact_mod_cast hn
  have hN0 : toR (Num.ofNat n : α) ≠ 0 := by rw [h.ofNat]; linarith
  obtain ⟨δ1, h1, e1⟩ := h.sub (Num.one : α) m.mean
  obtain ⟨δ2, h2, e2⟩ := h.mul m.mean (Num.one - m.mean)
  obtain ⟨δ3, h3, e3⟩ := h.div (m.mean * (Num.one - m.mean)) (Num.ofNat n) hN0
  rw [e2, e1, h.ofNat, h.one] at e3
  obtain ⟨R0, R1, R2, R3⟩ := rad_err h.u_nonneg hu1 hN h1 h2 h3 hr0 hr1 hq0 hq1 he
  obtain ⟨δ4, h4, e4⟩ := h.sqrt (m.mean * (Num.one - m.mean) / Num.ofNat n) (by rw [e3]; exact R0)
  rw [e3] at e4
  obtain ⟨δ5, h5, e5⟩ := h.add m.mean (Num.sqrt (m.mean * (Num.one - m.mean) / Num.ofNat n))
  rw [e4] at e5
  obtain ⟨S1, S2⟩ := std_err h.u_nonneg R0 R1 R2 R3 h4
  simp only [DDM.epsStd, RealNum.sqrt_eq, RealNum.one_eq, RealNum.ofNat_eq]
  refine ⟨Real.sqrt_nonneg _, S1, ?_, ?_⟩
  · rw [e4]; exact S2
  · rw [e5]
    exact eps_err h.u_nonneg hq0 hq1 (Real.sqrt_nonneg _) S1 he S2 h5

end EpsTransfer


/-! ### verdict transfer under a margin hypothesis -/

section X
variable {α : Type} [Num α] {toR : α → ℝ} {u : ℝ}

/-- **comparison transfer under a margin**: if the two operands are within `εa`, `εb` of their real
counterparts and the real operands are separated by more than `εa + εb`, the comparison made at the
rounding carrier returns what the real comparison returns. -/
theorem lt_transfer (h : StdModel α toR u) {a b : α} {a' b' εa εb : ℝ}
    (ha : |toR a - a'| ≤ εa) (hb : |toR b - b'| ≤ εb) (hm : εa + εb < |a' - b'|) :
    Num.lt a b = Num.lt a' b' := by
  rw [Bool.eq_iff_iff, h.lt, RealNum.lt_iff]
  have ha' := abs_le.mp ha
  have hb' := abs_le.mp hb
  rcases abs_cases (a' - b') with ⟨e, _⟩ | ⟨e, _⟩ <;> rw [e] at hm <;> constructor <;> intro hh <;> linarith

/-- specification of the post-warm-up branch of `DDM.step` (any carrier) -/
theorem ddm_step_spec (c : DDM.Cfg α) (s : DDM.State α) (v : α) (hn : c.minN ≤ s.n + 1) :
    let er := s.er.update v
    let eps := (DDM.epsStd er (s.n + 1)).1
    let m := if DDM.belowMin eps s.minPS then some (er.mean, (DDM.epsStd er (s.n + 1)).2) else s.minPS
    (DDM.step c s v).minPS = m ∧ (DDM.step c s v).drift = DDM.exceeds eps m c.drift ∧
    (DDM.step c s v).warning = (!DDM.exceeds eps m c.drift && DDM.exceeds eps m c.warn) := by
  unfold DDM.step
  simp only [hn, if_true]
  repeat' split
  all_goals simp_all


/-- a sufficient condition, on the ℝ side only, for the computed error rate to be a probability -/
theorem unit_of_margin {ph p e : ℝ} (he : |ph - p| ≤ e) (h0 : e ≤ p) (h1 : p ≤ 1 - e) : 0 ≤ ph ∧ ph ≤ 1 := by
  have := abs_le.mp he; constructor <;> linarith

/-- error bound for `min_error_rate + min_std` when the stored pair is within `(ep, es)` -/
noncomputable def sumErr (u ep es : ℝ) : ℝ := ep + es + u * (3 / 2 + ep + es)
/-- error bound for `min_error_rate + level * min_std` -/
noncomputable def thrErr (u l ep es : ℝ) : ℝ :=
  ep + |l| * es + u * |l| * (1 / 2 + es) + u * ((1 + ep) + |l| * (1 / 2 + es) * (1 + u))

/-- the stored minimum pairs of the two runs are both unset, or both set and `(ep, es)`-close, the real
one being a (probability, deviation ≤ 1/2) pair -/
def MinClose (toR : α → ℝ) (ep es : ℝ) : Option (α × α) → Option (ℝ × ℝ) → Prop
  | none, none => True
  | some (ph, sh), some (p, s) =>
      |toR ph - p| ≤ ep ∧ |toR sh - s| ≤ es ∧ 0 ≤ p ∧ p ≤ 1 ∧ 0 ≤ s ∧ s ≤ 1 / 2
  | _, _ => False

theorem sum_transfer (h : StdModel α toR u) {ph sh : α} {p s ep es : ℝ}
    (hp : |toR ph - p| ≤ ep) (hs : |toR sh - s| ≤ es) (p0 : 0 ≤ p) (p1 : p ≤ 1) (s0 : 0 ≤ s) (s1 : s ≤ 1 / 2) :
    |toR (ph + sh) - (p + s)| ≤ sumErr u ep es := by
  obtain ⟨δ, hδ, e⟩ := h.add ph sh
  rw [e]
  have e1 : (toR ph + toR sh) * (1 + δ) - (p + s) = (toR ph - p) + (toR sh - s) + δ * (toR ph + toR sh) := by ring
  rw [e1]
  have a1 : |toR ph| ≤ 1 + ep := by
    have := abs_add_le (toR ph - p) p; rw [sub_add_cancel, abs_of_nonneg p0] at this; linarith
  have a2 : |toR sh| ≤ 1 / 2 + es := by
    have := abs_add_le (toR sh - s) s; rw [sub_add_cancel, abs_of_nonneg s0] at this; linarith
  have b : |δ * (toR ph + toR sh)| ≤ u * (3 / 2 + ep + es) := by
    rw [abs_mul]
    refine mul_le_mul hδ ?_ (abs_nonneg _) h.u_nonneg
    have := abs_add_le (toR ph) (toR sh); linarith
  have c1 := abs_add_le ((toR ph - p) + (toR sh - s)) (δ * (toR ph + toR sh))
  have c2 := abs_add_le (toR ph - p) (toR sh - s)
  unfold sumErr
  linarith

theorem thr_transfer (h : StdModel α toR u) {ph sh l : α} {p s ep es : ℝ}
    (hp : |toR ph - p| ≤ ep) (hs : |toR sh - s| ≤ es) (p0 : 0 ≤ p) (p1 : p ≤ 1) (s0 : 0 ≤ s) (s1 : s ≤ 1 / 2) :
    |toR (ph + l * sh) - (p + toR l * s)| ≤ thrErr u (toR l) ep es := by
  obtain ⟨δ1, h1, e1⟩ := h.mul l sh
  obtain ⟨δ2, h2, e2⟩ := h.add ph (l * sh)
  rw [e2, e1]
  have hu := h.u_nonneg
  have ep0 : 0 ≤ ep := le_trans (abs_nonneg _) hp
  have es0 : 0 ≤ es := le_trans (abs_nonneg _) hs
  have a1 : |toR ph| ≤ 1 + ep := by
    have := abs_add_le (toR ph - p) p; rw [sub_add_cancel, abs_of_nonneg p0] at this; linarith
  have a2 : |toR sh| ≤ 1 / 2 + es := by
    have := abs_add_le (toR sh - s) s; rw [sub_add_cancel, abs_of_nonneg s0] at this; linarith
  have a3 : |toR l * toR sh| ≤ |toR l| * (1 / 2 + es) := by
    rw [abs_mul]; exact mul_le_mul_of_nonneg_left a2 (abs_nonneg _)
  have a4 : |1 + δ1| ≤ 1 + u := by
    have := abs_add_le 1 δ1; rw [abs_one] at this; linarith
  have e3 : (toR ph + toR l * toR sh * (1 + δ1)) * (1 + δ2) - (p + toR l * s)
      = (toR ph - p) + toR l * (toR sh - s) + (toR l * toR sh) * δ1
        + δ2 * (toR ph + toR l * toR sh * (1 + δ1)) := by ring
  rw [e3]
  have b1 : |toR l * (toR sh - s)| ≤ |toR l| * es := by
    rw [abs_mul]; exact mul_le_mul_of_nonneg_left hs (abs_nonneg _)
  have b2 : |(toR l * toR sh) * δ1| ≤ |toR l| * (1 / 2 + es) * u := by
    rw [abs_mul]; exact mul_le_mul a3 h1 (abs_nonneg _) (by positivity)
  have b3 : |toR l * toR sh * (1 + δ1)| ≤ |toR l| * (1 / 2 + es) * (1 + u) := by
    rw [abs_mul]; exact mul_le_mul a3 a4 (abs_nonneg _) (by positivity)
  have b4 : |δ2 * (toR ph + toR l * toR sh * (1 + δ1))| ≤ u * ((1 + ep) + |toR l| * (1 / 2 + es) * (1 + u)) := by
    rw [abs_mul]
    refine mul_le_mul h2 ?_ (abs_nonneg _) hu
    have := abs_add_le (toR ph) (toR l * toR sh * (1 + δ1)); linarith
  have c1 := abs_add_le ((toR ph - p) + toR l * (toR sh - s) + (toR l * toR sh) * δ1)
    (δ2 * (toR ph + toR l * toR sh * (1 + δ1)))
  have c2 := abs_add_le ((toR ph - p) + toR l * (toR sh - s)) ((toR l * toR sh) * δ1)
  have c3 := abs_add_le (toR ph - p) (toR l * (toR sh - s))
  unfold thrErr
  nlinarith

/-- `belowMin` returns the same Boolean in both runs when the margin exceeds the error budget -/
theorem belowMin_transfer (h : StdModel α toR u) {epsα : α} {eps εe ep es : ℝ} {mα : Option (α × α)}
    {mR : Option (ℝ × ℝ)} (he : |toR epsα - eps| ≤ εe) (hm : MinClose toR ep es mα mR)
    (hmar : ∀ p s, mR = some (p, s) → εe + sumErr u ep es < |eps - (p + s)|) :
    DDM.belowMin epsα mα = DDM.belowMin eps mR := by
  match mα, mR, hm, hmar with
  | none, none, _, _ => rfl
  | some (ph, sh), some (p, s), ⟨hp, hs, p0, p1, s0, s1⟩, hmar =>
    exact lt_transfer h he (sum_transfer h hp hs p0 p1 s0 s1) (hmar p s rfl)

/-- `_check_threshold` returns the same Boolean in both runs when the margin exceeds the error budget -/
theorem exceeds_transfer (h : StdModel α toR u) {epsα l : α} {eps εe ep es : ℝ} {mα : Option (α × α)}
    {mR : Option (ℝ × ℝ)} (he : |toR epsα - eps| ≤ εe) (hm : MinClose toR ep es mα mR)
    (hmar : ∀ p s, mR = some (p, s) → εe + thrErr u (toR l) ep es < |eps - (p + toR l * s)|) :
    DDM.exceeds epsα mα l = DDM.exceeds eps mR (toR l) := by
  match mα, mR, hm, hmar with
  | none, none, _, _ => rfl
  | some (ph, sh), some (p, s), ⟨hp, hs, p0, p1, s0, s1⟩, hmar =>
    have := hmar p s rfl
    exact lt_transfer h (thr_transfer h hp hs p0 p1 s0 s1) he (by rw [abs_sub_comm]; linarith)


/-- **margin condition** for one update of the ℝ-run (state `r`, value `x`), a statement about the REAL
run only.  Past warm-up it asks that
* the real error rate is at least `E n` away from `0` and `1` (keeps the computed radicand non-negative),
* the uniform budgets `ep`, `es` dominate the current errors `E n`, `stdErr n`,
* each of the three comparisons of `_update` (new minimum?, drift threshold, warning threshold) is decided
  with a margin larger than the accumulated error of its two operands. -/
def Margin (u ep es : ℝ) (c : DDM.Cfg ℝ) (r : DDM.State ℝ) (x : ℝ) : Prop :=
  c.minN ≤ r.n + 1 →
    (meanErr u (r.n + 1) ≤ (r.er.update x).mean ∧ (r.er.update x).mean ≤ 1 - meanErr u (r.n + 1)) ∧
    meanErr u (r.n + 1) ≤ ep ∧ stdErr u ((r.n + 1 : ℕ) : ℝ) (meanErr u (r.n + 1)) ≤ es ∧
    (∀ p s, r.minPS = some (p, s) →
      epsErr u ((r.n + 1 : ℕ) : ℝ) (meanErr u (r.n + 1)) + sumErr u ep es
        < |(DDM.epsStd (r.er.update x) (r.n + 1)).1 - (p + s)|) ∧
    (∀ p s, (DDM.step c r x).minPS = some (p, s) →
      epsErr u ((r.n + 1 : ℕ) : ℝ) (meanErr u (r.n + 1)) + thrErr u c.drift ep es
        < |(DDM.epsStd (r.er.update x) (r.n + 1)).1 - (p + c.drift * s)| ∧
      epsErr u ((r.n + 1 : ℕ) : ℝ) (meanErr u (r.n + 1)) + thrErr u c.warn ep es
        < |(DDM.epsStd (r.er.update x) (r.n + 1)).1 - (p + c.warn * s)|)

/-- lock-step relation including the verdicts -/
def DDMRelV (toR : α → ℝ) (u ep es : ℝ) (c : DDM.Cfg α) (s : DDM.State α) (r : DDM.State ℝ) : Prop :=
  DDMRel toR u c s r ∧ s.drift = r.drift ∧ s.warning = r.warning ∧ MinClose toR ep es s.minPS r.minPS

/-- **verdict transfer, one update**: from related states, if the ℝ-step satisfies the margin condition,
the α-step raises exactly the flags of the ℝ-step and the stored minima stay `(ep, es)`-close. -/
theorem ddm_verdict_step (h : StdModelSqrt α toR u) (hu1 : u ≤ 1) {ep es : ℝ} (c : DDM.Cfg α)
    (s : DDM.State α) (r : DDM.State ℝ) (v : α) (hR : DDMRelV toR u ep es c s r)
    (hv : 0 ≤ toR v ∧ toR v ≤ 1) (hM : Margin u ep es (ddmCfgR toR c) r (toR v)) :
    DDMRelV toR u ep es c (DDM.step c s v) (DDM.step (ddmCfgR toR c) r (toR v)) := by
  obtain ⟨hR, -, -, hmin⟩ := hR
  have hR' := ddmRel_step h.toStdModel c s r v hR hv
  refine ⟨hR', ?_⟩
  obtain ⟨hn, hw, hw', r0, r1, he⟩ := hR
  by_cases hwarm : c.minN ≤ s.n + 1
  · -- past warm-up
    have hwarmR : (ddmCfgR toR c).minN ≤ r.n + 1 := by rw [← hn]; exact hwarm
    obtain ⟨⟨m0, m1⟩, hep, hes, hb, ht⟩ := hM hwarmR
    obtain ⟨a1, a2, a3⟩ := ddm_step_spec c s v hwarm
    obtain ⟨b1, b2, b3⟩ := ddm_step_spec (ddmCfgR toR c) r (toR v) hwarmR
    obtain ⟨-, -, -, q0, q1, he'⟩ := hR'
    rw [ddm_step_er, ddm_step_er, ddm_step_n] at he'
    rw [ddm_step_er] at q0 q1
    rw [← hn] at m0 m1 hep hes hb ht b1 b2 b3
    obtain ⟨u0, u1'⟩ := unit_of_margin he' m0 m1
    obtain ⟨S0, S1, S2, S3⟩ := epsStd_transfer h hu1 (s.er.update v) (r.er.update (toR v)) (s.n + 1)
      (Nat.le_add_left 1 s.n) _ q0 q1 u0 u1' he'
    have hbm := belowMin_transfer h.toStdModel S3 hmin hb
    -- the new minima are close
    have hmin' : MinClose toR ep es (DDM.step c s v).minPS (DDM.step (ddmCfgR toR c) r (toR v)).minPS := by
      rw [a1, b1, hbm]
      split
      · exact ⟨le_trans he' hep, le_trans S2 hes, q0, q1, S0, S1⟩
      · exact hmin
    have hd := exceeds_transfer h.toStdModel (l := c.drift) S3 hmin' (fun p sd hp => (ht p sd hp).1)
    have hwn := exceeds_transfer h.toStdModel (l := c.warn) S3 hmin' (fun p sd hp => (ht p sd hp).2)
    rw [a1] at hd hwn
    rw [b1] at hd hwn
    refine ⟨?_, ?_, hmin'⟩
    · rw [a2, b2]; exact hd
    · rw [a3, b3, hd, hwn]; rfl
  · -- warm-up: integer test, exact
    have hwarmR : ¬ (ddmCfgR toR c).minN ≤ r.n + 1 := by rw [← hn]; exact hwarm
    obtain ⟨a1, a2, a3⟩ := ddm_step_warmup c s v (by omega)
    obtain ⟨b1, b2, b3⟩ := ddm_step_warmup (ddmCfgR toR c) r (toR v) (by omega)
    exact ⟨by rw [a1, b1], by rw [a2, b2], by rw [a3, b3]; exact hmin⟩


theorem run_snoc {S V : Type} (M : Machine S V) (ops : List (Op V)) (o : Op V) :
    M.run (ops ++ [o]) = M.apply (M.run ops) o := by
  simp [Machine.run, Machine.runFrom, List.foldl_append]

theorem ddmRel_init (h : StdModel α toR u) (c : DDM.Cfg α) : DDMRel toR u c DDM.init DDM.init :=
  ⟨rfl, ddmWarm_init c, ddmWarm_init _, by simp [DDM.init, Mean.init], by simp [DDM.init, Mean.init],
    by simp [DDM.init, Mean.init, meanErr, h.zero]⟩

theorem ddmRel_reset (h : StdModel α toR u) (c : DDM.Cfg α) (s : DDM.State α) (r : DDM.State ℝ) :
    DDMRel toR u c (DDM.reset s) (DDM.reset r) :=
  ⟨rfl, ddmWarm_reset c s, ddmWarm_reset _ r, by simp [DDM.reset, Mean.init], by simp [DDM.reset, Mean.init],
    by simp [DDM.reset, Mean.init, meanErr, h.zero]⟩

/-- **verdict transfer, every history with resets**.  Run DDM at a rounding carrier satisfying the standard
model (with `sqrt`) on `ops`, and at ℝ on the represented history.  If every update of the ℝ-run satisfies
the margin condition `Margin` (a condition on the REAL run: no comparison is decided by less than the error
budget), then after the whole history — hence, the hypothesis being prefix-closed, after every prefix —
the α-run and the ℝ-run have the same `drift` and `warning` flags, the same counters, `(ep, es)`-close
stored minima and `E n`-close error rates.  So every ℝ-theorem about DDM verdicts transfers to the rounding
carrier on histories with sufficient margins. -/
theorem ddm_verdict_transfer (h : StdModelSqrt α toR u) (hu1 : u ≤ 1) {ep es : ℝ} (c : DDM.Cfg α)
    (ops : List (Op α)) (hdom : ∀ v, Op.update v ∈ ops → 0 ≤ toR v ∧ toR v ≤ 1)
    (hM : ∀ pre v post, ops = pre ++ Op.update v :: post →
      Margin u ep es (ddmCfgR toR c) ((DDM.machine (ddmCfgR toR c)).run (pre.map (mapOp toR))) (toR v)) :
    DDMRelV toR u ep es c ((DDM.machine c).run ops) ((DDM.machine (ddmCfgR toR c)).run (ops.map (mapOp toR))) := by
  induction ops using List.reverseRecOn with
  | nil => exact ⟨ddmRel_init h.toStdModel c, rfl, rfl, trivial⟩
  | append_singleton ops o ih =>
    have ih' := ih (fun v hv => hdom v (by simp [hv]))
      (fun pre v post e => hM pre v (post ++ [o]) (by rw [e]; simp))
    rw [List.map_append, List.map_singleton, run_snoc, run_snoc]
    cases o with
    | update v =>
      exact ddm_verdict_step h hu1 c _ _ v ih' (hdom v (by simp)) (hM ops v [] rfl)
    | reset =>
      exact ⟨ddmRel_reset h.toStdModel c ((DDM.machine c).run ops)
        ((DDM.machine (ddmCfgR toR c)).run (ops.map (mapOp toR))), rfl, rfl, trivial⟩

/-- the flags, spelled out -/
theorem ddm_verdict_transfer_flags (h : StdModelSqrt α toR u) (hu1 : u ≤ 1) {ep es : ℝ} (c : DDM.Cfg α)
    (ops : List (Op α)) (hdom : ∀ v, Op.update v ∈ ops → 0 ≤ toR v ∧ toR v ≤ 1)
    (hM : ∀ pre v post, ops = pre ++ Op.update v :: post →
      Margin u ep es (ddmCfgR toR c) ((DDM.machine (ddmCfgR toR c)).run (pre.map (mapOp toR))) (toR v)) :
    ((DDM.machine c).run ops).drift = ((DDM.machine (ddmCfgR toR c)).run (ops.map (mapOp toR))).drift ∧
    ((DDM.machine c).run ops).warning = ((DDM.machine (ddmCfgR toR c)).run (ops.map (mapOp toR))).warning :=
  let t := ddm_verdict_transfer h hu1 c ops hdom hM
  ⟨t.2.1, t.2.2.1⟩

end X

theorem stdModelSqrt_biased : StdModelSqrt Biased Biased.val (1 / 8) :=
  { stdModel_biased with sqrt := fun x _ => ⟨0, by norm_num, by simp [Num.sqrt]⟩ }

/-- non-vacuity of `ddm_verdict_transfer`: at the exact carrier (`u = 0`, budgets `0`) the margin
condition only asks that no comparison is an exact tie; the history `1, 0` with `min_num_instances = 2`,
levels `2 / 3` goes past warm-up and satisfies it (for `u > 0` the bounds are continuous in `u`, so the
same history satisfies the condition for all sufficiently small `u`). -/
example : ∀ pre v post, [Op.update (1 : ℝ), Op.update 0] = pre ++ Op.update v :: post →
    Margin 0 0 0 (ddmCfgR id (⟨2, 3, 2⟩ : DDM.Cfg ℝ))
      ((DDM.machine (ddmCfgR id (⟨2, 3, 2⟩ : DDM.Cfg ℝ))).run (pre.map (mapOp id))) (id v) := by
  intro pre v post e
  match pre, e with
  | [], e =>
    intro hn
    simp [ddmCfgR, Machine.run, Machine.runFrom, DDM.machine, DDM.init] at hn
  | [a], e =>
    simp only [List.cons_append, List.nil_append, List.cons.injEq, Op.update.injEq] at e
    obtain ⟨rfl, rfl, -⟩ := e
    intro _
    simp [ddmCfgR, Machine.run, Machine.runFrom, Machine.apply, DDM.machine, DDM.init, DDM.step, mapOp,
      Mean.update, Mean.init, meanErr_zero, stdErr, radErr, epsErr, sumErr, thrErr, g3, DDM.epsStd,
      DDM.belowMin, DDM.exceeds]
    have hS : 0 < √(-((1 + -1 / 2) * (-1 / 2 : ℝ))) / √2 :=
      div_pos (Real.sqrt_pos.mpr (by norm_num)) (Real.sqrt_pos.mpr (by norm_num))
    generalize √(-((1 + -1 / 2) * (-1 / 2 : ℝ))) / √2 = S at hS ⊢
    refine ⟨by norm_num, ?_⟩
    intro p s hps
    split_ifs at hps <;> simp only [Option.some.injEq, Prod.mk.injEq] at hps <;> obtain ⟨rfl, rfl⟩ := hps <;>
      constructor <;> intro h0 <;> linarith
  | a :: b :: pre', e =>
    simp at e

/- UNPROVED (full statement), not attempted in the time box:
  * the RDDM analogue of `ddm_verdict_transfer` (the replay loop re-runs `Mean.update`/`epsStd` over the stored
    predictions, so `mean_update_transfer` / `epsStd_transfer` / `belowMin_transfer` apply iteration by
    iteration; the lock-step relation additionally needs "the two queues store `toR`-related values", which is
    `rddm_step_buf`-style bookkeeping):
      theorem rddm_verdict_transfer (h : StdModelSqrt α toR u) (hu1 : u ≤ 1) (c : RDDM.Cfg α) (ops : List (Op α)) … :
        ((RDDM.machine c).run ops).drift = ((RDDM.machine (rddmCfgR toR c)).run (ops.map (mapOp toR))).drift ∧ …
  * a margin condition with budgets that do not have to be chosen uniformly (`ep`, `es` here dominate the error
    of EVERY step at which a minimum was stored; a per-step budget indexed by the step of the last minimum
    update would be tighter);
  * instantiation of the hypothesis structure for IEEE binary64: impossible inside Lean (`Float` is opaque to
    the kernel); `StdModel`/`StdModelSqrt` is a HYPOTHESIS about the carrier. -/

end Frouros.C19c

#print axioms Frouros.C19c.rddm_step_buf
#print axioms Frouros.C19c.replay_guards
#print axioms Frouros.C19c.rddmGuards_run
#print axioms Frouros.C19c.operable_rddm_guards
#print axioms Frouros.C19c.operable_rddm_guards_01
#print axioms Frouros.C19c.operable_rddm_preds_unit
#print axioms Frouros.C19c.operable_rddm_replay_iterates
#print axioms Frouros.C19c.operable_rddm_radicand
#print axioms Frouros.C19c.replay_reached_witness
#print axioms Frouros.C19c.operable_rddm_guards_witness
#print axioms Frouros.C19c.stdModel_real
#print axioms Frouros.C19c.stdModel_biased
#print axioms Frouros.C19c.stdModelSqrt_real
#print axioms Frouros.C19c.stdModelSqrt_biased
#print axioms Frouros.C19c.mean_update_transfer
#print axioms Frouros.C19c.meanErr_zero
#print axioms Frouros.C19c.meanErr_le_closed
#print axioms Frouros.C19c.mean_transfer
#print axioms Frouros.C19c.mean_transfer_sum
#print axioms Frouros.C19c.mean_transfer_01
#print axioms Frouros.C19c.ddm_transfer
#print axioms Frouros.C19c.epsStd_transfer
#print axioms Frouros.C19c.lt_transfer
#print axioms Frouros.C19c.belowMin_transfer
#print axioms Frouros.C19c.exceeds_transfer
#print axioms Frouros.C19c.ddm_verdict_step
#print axioms Frouros.C19c.ddm_verdict_transfer
#print axioms Frouros.C19c.ddm_verdict_transfer_flags

