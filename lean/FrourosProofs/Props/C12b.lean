/-
  C12 (part b) — Kuiper's test as coded: the four branches of `_false_positive_probability` and the statistic.
  Model: `FrourosModel/Kuiper.lean` (new; mirrors kuiper_test.py:69-164), `FrourosModel/KS.lean`, `Tests2.kuiperV`.
  Finding KF-C12-1: the p-value formula is not a probability (values > 1, NaN) for small `D·N`, and the statistic is
  the Kolmogorov–Smirnov `D`, not Kuiper's `V`.

  A. any carrier (hence IEEE doubles): `fpp_eq_branch` (decision table), `kuiper_statistic_is_ks`, `kuiper_p_wiring`
  B. ℝ, which branch for which `(D, N)`: `branch_small_iff`, `branch_mid_iff`, `branch_stephens_iff`,
       `branch_asymptotic_iff`, `branch_small_of_small_N` (for `N < 2` every `D ≤ 1` is in the first branch)
  C. ℝ, first branch (`D·N < 2`):
       `fppSmall_int`                      closed form `1 − N!·(D − 1/N)^(N−1)` for integral `N`
       `kuiper_p_gt_one`                   even `N`, `D < 1/N`  ⇒  p > 1            (negative theorem, whole family)
       `kuiper_p_small_int_range`          integral `N`, `0 ≤ D`, (`N` odd or `1/N ≤ D`)  ⇒  `0 ≤ p ≤ 1`
       `kuiper_p_small_int_le_one_iff`     … and that condition is necessary
       `kuiper_p_neg_base`                 non-integral `N`, `D < 1/N`  ⇒  the fractional power of a NEGATIVE base is
                                           evaluated (NaN in IEEE arithmetic)                  (whole family)
       `kuiper_p_neg_base_iff`             in the first branch that happens exactly then
  D. ℝ, second branch (`2 ≤ D·N < 3`): `fppMid_domain` (square root and both bases are in their domains)
  E. detector level (ℝ): `kuiper_p_gt_one_witness` ([1,2,3,4] vs [1.5,…,4.5]: p = 3/2),
       `kuiper_p_nan_witness` ([1,2,3] vs [1.5,2.5,3.5], the input of KF-C12-1), `ks_statistic_self`,
       `kuiper_self_gt_one` (a sample of size 4j against itself: p > 1), `kuiper_self_neg_base` (odd size: NaN),
       `kuiper_statistic_eq_V_iff`, `kuiper_statistic_is_ks_witness`
  F. the search bounds of the model are never reached: `floorNat_spec`, `floorNat_stephens`, `arangeFrom1_spec`,
       `arange_complete`
  G. a pinned value of the third branch: `kuiper_p_separated` (`D = 1`, integral `N ≥ 3`: p = 0)
-/
import Mathlib.Tactic
import Mathlib.Analysis.SpecialFunctions.Gamma.Basic
import Mathlib.Algebra.Order.Floor.Semifield
import FrourosProofs.RealNum
import FrourosProofs.Props.C11
import FrourosProofs.Props.C12
import FrourosModel.Kuiper

namespace Frouros.C12
open Frouros Frouros.Kuiper Frouros.RealNum

/-! ## A. control flow, any carrier -/
section AnyCarrier
variable {α : Type} [Num α]

inductive Branch where
  | small        -- line 88:  D < 2/N
  | mid          -- line 91:  D < 3/N
  | stephens     -- line 102: Stephens' finite sum
  | asymptotic   -- line 120: asymptotic series
  deriving DecidableEq, Repr

/-- the branch conditions of lines 88, 91, 102, in that order -/
def branch (D : α) (num den : Nat) : Branch :=
  let N : α := Num.ofNat num / Num.ofNat den
  if Num.lt D (Num.two / N) then .small
  else if Num.lt D (three / N) then .mid
  else if (Num.gt D (Num.ofDec 5 1) && isEvenInt num den)
      || (Num.gt D ((N - Num.one) / (Num.two * N)) && isOddInt num den) then .stephens
  else .asymptotic

/-- **C12b (`fpp_eq_branch`)** decision table of `_false_positive_probability`, for every carrier and every external
`factorial`: the value is the formula of the first branch whose condition holds -/
theorem fpp_eq_branch (fact : α → α) (D : α) (num den : Nat) :
    fpp fact D num den = match branch D num den with
      | .small => fppSmall fact D num den
      | .mid => fppMid fact D num den
      | .stephens => fppStephens D num den
      | .asymptotic => fppAsym D num den := by
  unfold fpp branch
  simp only []
  split
  · rfl
  · split
    · rfl
    · split <;> rfl

/-- the Stephens branch needs an integral `N` (`N % 2 ∈ {0, 1}`), any carrier -/
theorem branch_stephens_isInt (D : α) (num den : Nat) (h : branch D num den = .stephens) : isInt num den = true := by
  unfold branch at h
  simp only [] at h
  split at h
  · cases h
  · split at h
    · cases h
    · split at h
      · rename_i hc
        simp only [isEvenInt, isOddInt, Bool.or_eq_true, Bool.and_eq_true] at hc
        rcases hc with ⟨_, h1, _⟩ | ⟨_, h1, _⟩ <;> exact h1
      · cases h

/-- **C12b (`kuiper_statistic_is_ks`)** the statistic `KuiperTest` reports is `ks_2samp(...).statistic`, the KS `D`
(any carrier, any external factorial) -/
theorem kuiper_statistic_is_ks (fact : α → α) (X Y : List α) : (kuiper fact X Y).1 = KS.statistic X Y := rfl

/-- … and the p-value is `_false_positive_probability(D, N)` at that `D` with `N = |X|·|Y| / (|X|+|Y|)` -/
theorem kuiper_p_wiring (fact : α → α) (X Y : List α) :
    (kuiper fact X Y).2 = fpp fact (KS.statistic X Y) (X.length * Y.length) (X.length + Y.length) := rfl

end AnyCarrier

/-! ## B. which branch for which `(D, N)`, over ℝ -/
section Branches

/-- `N = num/den` as a real number -/
noncomputable def Nreal (num den : Nat) : ℝ := (num : ℝ) / (den : ℝ)

theorem Nreal_pos {num den : Nat} (hn : 0 < num) (hd : 0 < den) : 0 < Nreal num den := by
  unfold Nreal; positivity

theorem three_eq : (three : ℝ) = 3 := by simp [three]

theorem lt_div_N {num den : Nat} (hn : 0 < num) (hd : 0 < den) (D c : ℝ) :
    D < c / Nreal num den ↔ D * Nreal num den < c := lt_div_iff₀ (Nreal_pos hn hd)

/-- the three tests of `branch`, rewritten over ℝ -/
theorem branch_real (D : ℝ) (num den : Nat) :
    branch D num den =
      if D < 2 / Nreal num den then .small
      else if D < 3 / Nreal num den then .mid
      else if (1 / 2 < D ∧ isEvenInt num den = true)
          ∨ ((Nreal num den - 1) / (2 * Nreal num den) < D ∧ isOddInt num den = true) then .stephens
      else .asymptotic := by
  unfold branch Nreal
  simp only [three_eq, two_eq, one_eq, ofNat_eq, ofDec_eq, lt_iff, gt_iff, Bool.or_eq_true, Bool.and_eq_true]
  norm_num

variable {num den : Nat}

/-- **C12b** first branch ⇔ `D·N < 2` -/
theorem branch_small_iff (hn : 0 < num) (hd : 0 < den) (D : ℝ) :
    branch D num den = .small ↔ D * Nreal num den < 2 := by
  rw [branch_real, ← lt_div_N hn hd]
  split
  · simp [*]
  · rename_i h
    simp only [h, iff_false]
    split
    · simp
    · split <;> simp

/-- **C12b** second branch ⇔ `2 ≤ D·N < 3` -/
theorem branch_mid_iff (hn : 0 < num) (hd : 0 < den) (D : ℝ) :
    branch D num den = .mid ↔ 2 ≤ D * Nreal num den ∧ D * Nreal num den < 3 := by
  rw [branch_real, ← lt_div_N hn hd, ← not_lt, ← lt_div_N hn hd]
  split
  · rename_i h; simp [h]
  · rename_i h
    split
    · rename_i h'; simp [h, h']
    · rename_i h'
      split <;> simp [h']

/-- the condition of line 102 -/
def StephensCond (D : ℝ) (num den : Nat) : Prop :=
  (1 / 2 < D ∧ isEvenInt num den = true) ∨ ((Nreal num den - 1) / (2 * Nreal num den) < D ∧ isOddInt num den = true)

/-- **C12b** third branch ⇔ `3 ≤ D·N`, `N` an integer, and `D > 1/2` (even `N`) resp. `D > (N−1)/(2N)` (odd `N`) -/
theorem branch_stephens_iff (hn : 0 < num) (hd : 0 < den) (D : ℝ) :
    branch D num den = .stephens ↔ 3 ≤ D * Nreal num den ∧ StephensCond D num den := by
  rw [branch_real, ← not_lt, ← lt_div_N hn hd]
  unfold StephensCond
  split
  · rename_i h
    have : D < 3 / Nreal num den := h.trans_le (div_le_div_of_nonneg_right (by norm_num) (Nreal_pos hn hd).le)
    exact ⟨(fun h => by cases h), fun h => absurd this h.1⟩
  · split
    · rename_i h'; exact ⟨(fun h => by cases h), fun h => absurd h' h.1⟩
    · rename_i h'
      split
      · rename_i hc; exact ⟨fun _ => ⟨h', hc⟩, fun _ => rfl⟩
      · rename_i hc; exact ⟨(fun h => by cases h), fun h => absurd h.2 hc⟩

/-- **C12b** fourth branch ⇔ `3 ≤ D·N` and not the third -/
theorem branch_asymptotic_iff (hn : 0 < num) (hd : 0 < den) (D : ℝ) :
    branch D num den = .asymptotic ↔ 3 ≤ D * Nreal num den ∧ ¬ StephensCond D num den := by
  rw [branch_real, ← not_lt, ← lt_div_N hn hd]
  unfold StephensCond
  split
  · rename_i h
    have : D < 3 / Nreal num den := h.trans_le (div_le_div_of_nonneg_right (by norm_num) (Nreal_pos hn hd).le)
    exact ⟨(fun h => by cases h), fun h => absurd this h.1⟩
  · split
    · rename_i h'; exact ⟨(fun h => by cases h), fun h => absurd h' h.1⟩
    · rename_i h'
      split
      · rename_i hc; exact ⟨(fun h => by cases h), fun h => absurd hc h.2⟩
      · rename_i hc; exact ⟨fun _ => ⟨h', hc⟩, fun _ => rfl⟩

/-- for an effective size `N < 2` (e.g. `n = m ≤ 3`) every statistic `D ≤ 1` is handled by the FIRST branch -/
theorem branch_small_of_small_N (hn : 0 < num) (hd : 0 < den) (hN : Nreal num den < 2) (D : ℝ) (hD : D ≤ 1) :
    branch D num den = .small := by
  rw [branch_small_iff hn hd]
  have := Nreal_pos hn hd
  nlinarith

example : branch (1 / 3 : ℝ) 9 6 = .small :=
  (branch_small_iff (by norm_num) (by norm_num) _).mpr (by unfold Nreal; norm_num)
example : branch (1 / 2 : ℝ) 64 16 = .mid :=
  (branch_mid_iff (by norm_num) (by norm_num) _).mpr (by unfold Nreal; norm_num)
example : branch (4 / 5 : ℝ) 100 10 = .stephens :=
  (branch_stephens_iff (by norm_num) (by norm_num) _).mpr
    ⟨by unfold Nreal; norm_num, Or.inl ⟨by norm_num, by decide⟩⟩
example : branch (3 / 10 : ℝ) 100 2 = .asymptotic :=
  (branch_asymptotic_iff (by norm_num) (by norm_num) _).mpr
    ⟨by unfold Nreal; norm_num, by
      unfold StephensCond
      rintro (⟨h, _⟩ | ⟨_, h⟩)
      · norm_num at h
      · exact absurd h (by decide)⟩

end Branches

/-! ## C. the first branch over ℝ -/
section Small

/-- all the theorems assume of the external `scipy.special.factorial`: on integers it is the factorial -/
def FactSpec (fact : ℝ → ℝ) : Prop := ∀ k : ℕ, fact (k : ℝ) = (k.factorial : ℝ)

/-- scipy's definition for float arguments: `Γ(x + 1)` -/
noncomputable def realFact (x : ℝ) : ℝ := Real.Gamma (x + 1)
theorem realFact_spec : FactSpec realFact := fun k => Real.Gamma_nat_eq_factorial k

theorem ipow_nat (x : ℝ) (n : ℕ) : ipow x (n : ℤ) = x ^ n := by
  unfold ipow
  have : ¬ ((n : ℤ) < 0) := by omega
  simp [this]

theorem isInt_mul (k den : ℕ) : isInt (k * den) den = true := by
  simp [isInt]

theorem isInt_iff_dvd (num den : ℕ) : isInt num den = true ↔ den ∣ num := by
  simp [isInt, Nat.dvd_iff_mod_eq_zero]

theorem Nreal_mul (k : ℕ) {den : ℕ} (hd : 0 < den) : Nreal (k * den) den = k := by
  unfold Nreal
  have : (den : ℝ) ≠ 0 := by positivity
  push_cast
  field_simp

/-- integral `N = k ≥ j`: `x ** (N − j) = x^(k−j)` -/
theorem powN_int (x : ℝ) (k j : ℕ) {den : ℕ} (hd : 0 < den) (hj : j ≤ k) : powN x (k * den) den j = x ^ (k - j) := by
  unfold powN
  rw [if_pos (isInt_mul k den), Nat.mul_div_cancel _ hd]
  have : ((k : ℤ) - (j : ℤ)) = ((k - j : ℕ) : ℤ) := by omega
  rw [this, ipow_nat]

/-- **C12b (`fppSmall_int`)** for an integral effective size `N = k ≥ 1` the first branch is
`1 − k!·(D − 1/k)^(k−1)` (a genuine natural power: defined for every sign of the base) -/
theorem fppSmall_int (fact : ℝ → ℝ) (hf : FactSpec fact) {den : ℕ} (hd : 0 < den) (k : ℕ) (hk : 1 ≤ k) (D : ℝ) :
    fppSmall fact D (k * den) den = 1 - (k.factorial : ℝ) * (D - 1 / (k : ℝ)) ^ (k - 1) := by
  have hN := Nreal_mul k hd
  unfold Nreal at hN
  unfold fppSmall
  simp only [one_eq, ofNat_eq]
  rw [hN, hf k, powN_int _ k 1 hd hk]

theorem small_of_lt_one {num den : ℕ} (hn : 0 < num) (hd : 0 < den) (D : ℝ) (h : D * Nreal num den < 2)
    (fact : ℝ → ℝ) : fpp fact D num den = fppSmall fact D num den := by
  rw [fpp_eq_branch, (branch_small_iff hn hd D).mpr h]

/-- **C12b (`kuiper_p_gt_one`)** NEGATIVE theorem (KF-C12-1), a whole family: for every EVEN integral effective size
`N = k ≥ 2` and every `D < 1/N` (in particular `D = 0`) the reported "p-value" is strictly greater than 1 -/
theorem kuiper_p_gt_one (fact : ℝ → ℝ) (hf : FactSpec fact) {den : ℕ} (hd : 0 < den) (k : ℕ) (hk : 2 ≤ k)
    (hev : Even k) (D : ℝ) (hD : D < 1 / (k : ℝ)) : 1 < fpp fact D (k * den) den := by
  have hk0 : (0 : ℝ) < k := by exact_mod_cast (by omega : 0 < k)
  have hDk : D * k < 1 := (lt_div_iff₀ hk0).mp hD
  have hn : 0 < k * den := Nat.mul_pos (by omega) hd
  rw [small_of_lt_one hn hd D (by rw [Nreal_mul k hd]; linarith), fppSmall_int fact hf hd k (by omega)]
  have hodd : Odd (k - 1) := Nat.Even.sub_odd (by omega) hev odd_one
  have hneg : (D - 1 / (k : ℝ)) ^ (k - 1) < 0 := Odd.pow_neg hodd (by linarith)
  have hfac : (0 : ℝ) < (k.factorial : ℝ) := by exact_mod_cast k.factorial_pos
  nlinarith

theorem factorial_le_pow_pred (k : ℕ) (hk : 1 ≤ k) : k.factorial ≤ k ^ (k - 1) := by
  obtain ⟨j, rfl⟩ : ∃ j, k = j + 1 := ⟨k - 1, by omega⟩
  simp only [Nat.add_sub_cancel]
  induction j with
  | zero => simp
  | succ j ih =>
    have ih' := ih (by omega)
    calc (j + 1 + 1).factorial = (j + 2) * (j + 1).factorial := Nat.factorial_succ (j + 1)
      _ ≤ (j + 2) * (j + 1) ^ j := Nat.mul_le_mul_left _ ih'
      _ ≤ (j + 2) * (j + 2) ^ j := Nat.mul_le_mul_left _ (Nat.pow_le_pow_left (by omega) j)
      _ = (j + 1 + 1) ^ (j + 1) := by ring

/-- **C12b (`kuiper_p_small_int_range`)** the region of the first branch where the formula IS a probability:
integral `N = k ≥ 1`, `0 ≤ D`, `D·N < 2`, and (`N` odd or `1/N ≤ D`) -/
theorem kuiper_p_small_int_range (fact : ℝ → ℝ) (hf : FactSpec fact) {den : ℕ} (hd : 0 < den) (k : ℕ) (hk : 1 ≤ k)
    (D : ℝ) (h0 : 0 ≤ D) (h2 : D * k < 2) (hc : Odd k ∨ 1 / (k : ℝ) ≤ D) :
    0 ≤ fpp fact D (k * den) den ∧ fpp fact D (k * den) den ≤ 1 := by
  have hk0 : (0 : ℝ) < k := by exact_mod_cast (by omega : 0 < k)
  have hn : 0 < k * den := Nat.mul_pos (by omega) hd
  rw [small_of_lt_one hn hd D (by rw [Nreal_mul k hd]; exact h2), fppSmall_int fact hf hd k hk]
  set x : ℝ := D - 1 / (k : ℝ) with hx
  have hik : (0 : ℝ) < 1 / (k : ℝ) := by positivity
  have hlo : -(1 / (k : ℝ)) ≤ x := by rw [hx]; linarith
  have hhi : x ≤ 1 / (k : ℝ) := by
    have : D < 2 / (k : ℝ) := (lt_div_iff₀ hk0).mpr h2
    rw [hx]; have : 2 / (k : ℝ) = 1 / k + 1 / k := by ring
    linarith
  have habs : |x| ≤ 1 / (k : ℝ) := abs_le.mpr ⟨hlo, hhi⟩
  have hpow0 : 0 ≤ x ^ (k - 1) := by
    rcases hc with hodd | hge
    · have : Even (k - 1) := Nat.Odd.sub_odd hodd odd_one
      exact this.pow_nonneg x
    · exact pow_nonneg (by rw [hx]; linarith) _
  have hpow1 : x ^ (k - 1) ≤ (1 / (k : ℝ)) ^ (k - 1) :=
    calc x ^ (k - 1) ≤ |x ^ (k - 1)| := le_abs_self _
      _ = |x| ^ (k - 1) := abs_pow x _
      _ ≤ (1 / (k : ℝ)) ^ (k - 1) := pow_le_pow_left₀ (abs_nonneg x) habs _
  have hfac : (k.factorial : ℝ) ≤ (k : ℝ) ^ (k - 1) := by exact_mod_cast factorial_le_pow_pred k hk
  have hfac0 : (0 : ℝ) ≤ (k.factorial : ℝ) := by positivity
  have hkp : (0 : ℝ) < (k : ℝ) ^ (k - 1) := by positivity
  have hprod : (k.factorial : ℝ) * x ^ (k - 1) ≤ 1 :=
    calc (k.factorial : ℝ) * x ^ (k - 1) ≤ (k : ℝ) ^ (k - 1) * (1 / (k : ℝ)) ^ (k - 1) :=
          mul_le_mul hfac hpow1 hpow0 hkp.le
      _ = 1 := by rw [← mul_pow]; rw [mul_one_div_cancel hk0.ne']; exact one_pow _
  have hprod0 : 0 ≤ (k.factorial : ℝ) * x ^ (k - 1) := mul_nonneg hfac0 hpow0
  constructor <;> linarith

/-- **C12b (`kuiper_p_small_int_le_one_iff`)** … and the condition is necessary: on the first branch with an integral
`N` the value is `≤ 1` exactly when `N` is odd or `1/N ≤ D` -/
theorem kuiper_p_small_int_le_one_iff (fact : ℝ → ℝ) (hf : FactSpec fact) {den : ℕ} (hd : 0 < den) (k : ℕ) (hk : 1 ≤ k)
    (D : ℝ) (h0 : 0 ≤ D) (h2 : D * k < 2) :
    fpp fact D (k * den) den ≤ 1 ↔ (Odd k ∨ 1 / (k : ℝ) ≤ D) := by
  constructor
  · intro h
    by_contra hc
    rw [not_or, not_le] at hc
    obtain ⟨hno, hlt⟩ := hc
    have hev : Even k := Nat.not_odd_iff_even.mp hno
    have hk2 : 2 ≤ k := by
      rcases hev with ⟨r, hr⟩; omega
    exact absurd h (not_le.mpr (kuiper_p_gt_one fact hf hd k hk2 hev D hlt))
  · intro hc
    exact (kuiper_p_small_int_range fact hf hd k hk D h0 h2 hc).2

example : (0 : ℝ) ≤ fpp realFact (1 / 6) (3 * 12) 12 ∧ fpp realFact (1 / 6) (3 * 12) 12 ≤ 1 :=
  kuiper_p_small_int_range realFact realFact_spec (by norm_num) 3 (by norm_num) _ (by norm_num) (by norm_num)
    (Or.inl (by decide))
example : 1 < fpp realFact 0 (2 * 8) 8 :=
  kuiper_p_gt_one realFact realFact_spec (by norm_num) 2 (by norm_num) (by decide) 0 (by norm_num)

/-- **C12b (`kuiper_p_neg_base`)** NEGATIVE theorem (KF-C12-1), a whole family, for EVERY external factorial: for every
NON-integral effective size `N` (e.g. `n = m` odd) and every `D < 1/N`, the first branch is taken and it raises the
NEGATIVE number `D − 1/N` to the non-integral power `N − 1`: the model's value is literally `exp((N−1)·log(negative))`,
which is NaN in IEEE arithmetic (NumPy: "invalid value encountered in scalar power"; over ℝ it is a junk value). -/
theorem kuiper_p_neg_base (fact : ℝ → ℝ) {num den : ℕ} (hn : 0 < num) (hd : 0 < den) (hni : ¬ den ∣ num)
    (D : ℝ) (hD : D * Nreal num den < 1) :
    branch D num den = .small ∧ isInt num den = false ∧ D - 1 / Nreal num den < 0 ∧
    fpp fact D num den
      = 1 - fact (Nreal num den) * Real.exp ((Nreal num den - 1) * Real.log (D - 1 / Nreal num den)) := by
  have hN := Nreal_pos hn hd
  have hi : isInt num den = false := by
    rw [← Bool.not_eq_true, isInt_iff_dvd]; exact hni
  refine ⟨(branch_small_iff hn hd D).mpr (by linarith), hi, ?_, ?_⟩
  · have : D < 1 / Nreal num den := (lt_div_iff₀ hN).mpr hD
    linarith
  · rw [small_of_lt_one hn hd D (by linarith)]
    unfold fppSmall powN
    rw [hi]
    simp only [Bool.false_eq_true, if_false, one_eq, ofNat_eq, exp_eq, log_eq, Nat.cast_one]
    rfl

/-- on the first branch, the power is outside its domain exactly in that case -/
theorem kuiper_p_neg_base_iff {num den : ℕ} (hn : 0 < num) (hd : 0 < den) (D : ℝ) :
    (isInt num den = false ∧ D - 1 / Nreal num den < 0) ↔ (¬ den ∣ num ∧ D * Nreal num den < 1) := by
  have hN := Nreal_pos hn hd
  rw [← Bool.not_eq_true, isInt_iff_dvd, sub_neg, lt_div_iff₀ hN]

end Small

/-! ## D. the second branch over ℝ: everything is inside its domain -/
section Mid

/-- **C12b (`fppMid_domain`)** on the second branch (`2 ≤ D·N < 3`) the argument of `np.sqrt` is positive, both bases
`a = −k + r`, `b = −k − r` of the fractional powers are non-negative (`a > 0`) and the divisor `b − a` is non-zero
(the third base, `N` in `N ** (N−2)`, is positive by `Nreal_pos`): the ℝ rendering of "no NaN, no division by zero" for lines 92-100
(`k`, `r`, `a`, `b` are literally the terms of `Kuiper.fppMid`, see `fppMid_unfold`) -/
theorem fppMid_domain (N D : ℝ) (h2 : 2 ≤ D * N) (h3 : D * N < 3) :
    let k := -(N * D - 1) / 2
    let s := k ^ 2 - (N * D - 2) ^ 2 / 2
    let r := Real.sqrt s
    0 < s ∧ 0 < -k + r ∧ 0 ≤ -k - r ∧ (-k - r) - (-k + r) ≠ 0 := by
  intro k s r
  have hx : N * D = D * N := mul_comm _ _
  have hs : 0 < s := by
    simp only [s, k, hx]; nlinarith [mul_nonneg (sub_nonneg.mpr h2) (by linarith : (0:ℝ) ≤ 4 - D * N)]
  have hr : 0 < r := Real.sqrt_pos.mpr hs
  have hk : 0 < -k := by simp only [k, hx]; linarith
  have hrk : r ≤ -k := by
    rw [show r = Real.sqrt s from rfl, show -k = Real.sqrt ((-k) ^ 2) from (Real.sqrt_sq hk.le).symm]
    apply Real.sqrt_le_sqrt
    simp only [s]; nlinarith [sq_nonneg (N * D - 2)]
  refine ⟨hs, by linarith, by linarith, ?_⟩
  intro h; linarith

/-- the terms of `fppMid_domain` are the model's -/
theorem fppMid_unfold (fact : ℝ → ℝ) (D : ℝ) (num den : ℕ) :
    fppMid fact D num den =
      (let N := Nreal num den
       let k := -(N * D - 1) / 2
       let r := Real.sqrt (k ^ 2 - (N * D - 2) ^ 2 / 2)
       let a := -k + r
       let b := -k - r
       1 - (fact (N - 1) * (powN b num den 1 * (1 - a) - powN a num den 1 * (1 - b)) / powN N num den 2 / (b - a))) := by
  unfold fppMid Nreal
  simp only [one_eq, two_eq, ofNat_eq, sqrt_eq, npow_eq]

example : (2 : ℝ) ≤ (1 / 2) * 4 ∧ (1 / 2 : ℝ) * 4 < 3 := by norm_num

end Mid

/-! ## E. detector level: `KuiperTest._kuiper` on actual samples (ℝ) -/
section Detector
open Frouros.KS

theorem foldl_max_zero {β : Type} (l : List β) :
    (l.map (fun _ => (0 : Int))).foldl (fun acc d => max acc d.natAbs) 0 = 0 := by
  induction l with
  | nil => rfl
  | cons _ l ih => simpa using ih

/-- a sample against itself has KS statistic 0 -/
theorem ks_statistic_self (X : List ℝ) (hX : X ≠ []) : KS.statistic X X = 0 := by
  rw [C11.stat_eq_lattice X X hX hX]
  have : devs X X = (X ++ X).map (fun _ => (0 : Int)) := by
    unfold devs; simp
  unfold hTwoSided
  rw [this, foldl_max_zero]
  simp

/-- **C12b (`kuiper_self_gt_one`)** every sample whose size is a multiple of 4, compared with ITSELF, gets a
"p-value" greater than 1 (size 4: exactly 2, see `kuiper_self_witness`) -/
theorem kuiper_self_gt_one (fact : ℝ → ℝ) (hf : FactSpec fact) (X : List ℝ) (j : ℕ) (hj : 1 ≤ j) (hlen : X.length = 4 * j) :
    1 < (kuiper fact X X).2 := by
  have hX : X ≠ [] := by intro h; rw [h] at hlen; simp at hlen; omega
  rw [kuiper_p_wiring, ks_statistic_self X hX, hlen]
  have : 4 * j * (4 * j) = (2 * j) * (4 * j + 4 * j) := by ring
  rw [this]
  exact kuiper_p_gt_one fact hf (by omega) (2 * j) (by omega) ⟨j, by ring⟩ 0 (by positivity)

/-- **C12b (`kuiper_self_neg_base`)** every sample of ODD size compared with itself: the negative-base fractional
power is evaluated (NaN), for every external factorial -/
theorem kuiper_self_neg_base (fact : ℝ → ℝ) (X : List ℝ) (hodd : Odd X.length) :
    let n := X.length
    branch (0 : ℝ) (n * n) (n + n) = .small ∧ isInt (n * n) (n + n) = false ∧ (0 : ℝ) - 1 / Nreal (n * n) (n + n) < 0 ∧
    (kuiper fact X X).2 = 1 - fact (Nreal (n * n) (n + n)) *
        Real.exp ((Nreal (n * n) (n + n) - 1) * Real.log (0 - 1 / Nreal (n * n) (n + n))) := by
  intro n
  have hn : 0 < n := hodd.pos
  have hX : X ≠ [] := by intro h; simp [n, h] at hn
  have hni : ¬ (n + n) ∣ n * n := by
    intro h
    have h2 : 2 ∣ n * n := Dvd.dvd.trans ⟨n, by ring⟩ h
    have : Odd (n * n) := hodd.mul hodd
    exact (Nat.not_even_iff_odd.mpr this) (even_iff_two_dvd.mpr h2)
  have := kuiper_p_neg_base fact (Nat.mul_pos hn hn) (by omega : 0 < n + n) hni 0 (by simp)
  rw [kuiper_p_wiring, ks_statistic_self X hX]
  exact this

/-- **C12b (`kuiper_p_gt_one_witness`)** KF-C12-1: reference `[1,2,3,4]`, test `[1.5,2.5,3.5,4.5]`: `D = 1/4`, `N = 2`,
reported p-value `3/2` (observed on /repo: `StatisticalResult(statistic=0.25, p_value=1.5)`) -/
theorem kuiper_p_gt_one_witness (fact : ℝ → ℝ) (hf : FactSpec fact) :
    kuiper fact [(1 : ℝ), 2, 3, 4] [3 / 2, 5 / 2, 7 / 2, 9 / 2] = (1 / 4, 3 / 2) := by
  have hs : KS.statistic [(1 : ℝ), 2, 3, 4] [3 / 2, 5 / 2, 7 / 2, 9 / 2] = 1 / 4 := by
    rw [C11.stat_eq_lattice _ _ (by simp) (by simp)]
    simp [hTwoSided, devs, countLe]
    norm_num
  have hp : (kuiper fact [(1 : ℝ), 2, 3, 4] [3 / 2, 5 / 2, 7 / 2, 9 / 2]).2 = 3 / 2 := by
    rw [kuiper_p_wiring, hs]
    show fpp fact (1 / 4) (2 * 8) 8 = 3 / 2
    rw [small_of_lt_one (by norm_num) (by norm_num) _ (by rw [Nreal_mul 2 (by norm_num)]; norm_num),
      fppSmall_int fact hf (by norm_num) 2 (by norm_num)]
    norm_num [Nat.factorial]
  exact Prod.ext (by rw [kuiper_statistic_is_ks, hs]) hp

/-- a sample of size 4 against itself: statistic 0, "p-value" 2 (observed on /repo) -/
theorem kuiper_self_witness (fact : ℝ → ℝ) (hf : FactSpec fact) :
    kuiper fact [(1 : ℝ), 2, 3, 4] [1, 2, 3, 4] = (0, 2) := by
  have hs := ks_statistic_self [(1 : ℝ), 2, 3, 4] (by simp)
  have hp : (kuiper fact [(1 : ℝ), 2, 3, 4] [1, 2, 3, 4]).2 = 2 := by
    rw [kuiper_p_wiring, hs]
    show fpp fact 0 (2 * 8) 8 = 2
    rw [small_of_lt_one (by norm_num) (by norm_num) _ (by rw [Nreal_mul 2 (by norm_num)]; norm_num),
      fppSmall_int fact hf (by norm_num) 2 (by norm_num)]
    norm_num [Nat.factorial]
  exact Prod.ext (by rw [kuiper_statistic_is_ks, hs]) hp

/-- **C12b (`kuiper_p_nan_witness`)** KF-C12-1, the input of the finding: reference `[1,2,3]`, test `[1.5,2.5,3.5]`:
`D = 1/3`, `N = 9/6 = 1.5` (not an integer), first branch, base `D − 1/N = −1/3 < 0`, exponent `N − 1 = 1/2`: the
reported p-value is `1 − factorial(1.5)·exp(½·log(−1/3))`, i.e. NaN in IEEE arithmetic (observed on /repo:
`StatisticalResult(statistic=0.333…, p_value=nan)`), for every external factorial -/
theorem kuiper_p_nan_witness (fact : ℝ → ℝ) :
    (kuiper fact [(1 : ℝ), 2, 3] [3 / 2, 5 / 2, 7 / 2]).1 = 1 / 3 ∧
    branch (1 / 3 : ℝ) 9 6 = .small ∧ isInt 9 6 = false ∧
    (1 / 3 : ℝ) - 1 / Nreal 9 6 = -(1 / 3) ∧ Nreal 9 6 - 1 = 1 / 2 ∧
    (kuiper fact [(1 : ℝ), 2, 3] [3 / 2, 5 / 2, 7 / 2]).2
      = 1 - fact (3 / 2) * Real.exp (1 / 2 * Real.log (-(1 / 3))) := by
  have hs : KS.statistic [(1 : ℝ), 2, 3] [3 / 2, 5 / 2, 7 / 2] = 1 / 3 := by
    rw [C11.stat_eq_lattice _ _ (by simp) (by simp)]
    simp [hTwoSided, devs, countLe]
    norm_num
  have hN : Nreal 9 6 = 3 / 2 := by unfold Nreal; norm_num
  obtain ⟨h1, h2, _, h4⟩ := kuiper_p_neg_base fact (num := 9) (den := 6) (by norm_num) (by norm_num) (by decide)
    (1 / 3) (by rw [hN]; norm_num)
  have hb : (1 / 3 : ℝ) - 1 / Nreal 9 6 = -(1 / 3) := by rw [hN]; norm_num
  refine ⟨by rw [kuiper_statistic_is_ks, hs], h1, h2, hb, by rw [hN]; norm_num, ?_⟩
  rw [kuiper_p_wiring, hs]
  show fpp fact (1 / 3) 9 6 = _
  rw [h4, hb, hN]
  norm_num

/-- the lattice constant `lcm(n, m)` of `C11.stat_eq_lattice` is positive -/
theorem lcm_pos' {n m : ℕ} (hn : 0 < n) (hm : 0 < m) : 0 < n * m / Nat.gcd n m :=
  Nat.div_pos (Nat.le_of_dvd (Nat.mul_pos hn hm) (Dvd.dvd.mul_right (Nat.gcd_dvd_left n m) m))
    (Nat.gcd_pos_of_pos_left m hn)

/-- **C12b (`kuiper_statistic_eq_V_iff`)** for all non-empty real samples the reported statistic is
`D = max(D⁺, D⁻) ≤ V = D⁺ + D⁻` (both in units of `1/lcm`), with equality exactly when one of the one-sided
deviations vanishes; whenever the two empirical CDFs cross, the detector under-reports Kuiper's statistic -/
theorem kuiper_statistic_eq_V_iff (fact : ℝ → ℝ) (ref test : List ℝ) (hr : ref ≠ []) (ht : test ≠ []) :
    let lcm : ℝ := ((ref.length * test.length / Nat.gcd ref.length test.length : ℕ) : ℝ)
    (kuiper fact ref test).1 ≤ (Tests2.kuiperV ref test : ℝ) / lcm ∧
    ((kuiper fact ref test).1 = (Tests2.kuiperV ref test : ℝ) / lcm ↔ (hPlus ref test = 0 ∨ hMinus ref test = 0)) := by
  intro lcm
  have hl : 0 < lcm := by
    simp only [lcm]; exact_mod_cast lcm_pos' (List.length_pos_iff.mpr hr) (List.length_pos_iff.mpr ht)
  rw [kuiper_statistic_is_ks, C11.stat_eq_lattice ref test hr ht]
  constructor
  · apply div_le_div_of_nonneg_right _ hl.le
    exact_mod_cast (kuiper_ge_ks ref test).1
  · rw [div_left_inj' hl.ne', ← kuiper_eq_ks_iff]
    unfold Tests2.ksD
    constructor
    · intro h; exact_mod_cast h.symm
    · intro h; exact_mod_cast h.symm

/-- **C12b (`kuiper_statistic_is_ks_witness`)** crossing ECDFs, `ref = [1,4]`, `test = [2,3]`: the detector reports
`1/2` (the KS `D`); Kuiper's statistic is `V = D⁺ + D⁻ = 1/2 + 1/2 = 1` -/
theorem kuiper_statistic_is_ks_witness (fact : ℝ → ℝ) :
    (kuiper fact [(1 : ℝ), 4] [2, 3]).1 = 1 / 2 ∧ (Tests2.kuiperV [(1 : ℝ), 4] [2, 3] : ℝ) / 2 = 1 := by
  obtain ⟨_, _, hv, hk, _⟩ := kuiper_ne_ks_witness
  constructor
  · rw [kuiper_statistic_is_ks, C11.stat_eq_lattice _ _ (by simp) (by simp)]
    have : hTwoSided [(1 : ℝ), 4] [2, 3] = 1 := hk
    rw [this]
    norm_num
  · rw [hv]; norm_num

end Detector

/-! ## F. the search bounds of the model (`floorNat`, `arangeFrom1`) are never reached -/
section Bounds

/-- `takeWhile (· < T)` on `s, s+1, …, s+n-1` -/
theorem takeWhile_range' (p : ℕ → Bool) (T : ℕ) (hp : ∀ t, p t = true ↔ t < T) (s n : ℕ) :
    (List.range' s n).takeWhile p = List.range' s (min n (T - s)) := by
  induction n generalizing s with
  | zero => simp
  | succ n ih =>
    rw [List.range'_succ, List.takeWhile_cons]
    by_cases h : s < T
    · rw [if_pos ((hp s).mpr h), ih (s + 1)]
      have : min (n + 1) (T - s) = min n (T - (s + 1)) + 1 := by omega
      rw [this, List.range'_succ]
    · have : p s = false := by rw [← Bool.not_eq_true, hp]; exact h
      rw [this]
      have : min (n + 1) (T - s) = 0 := by omega
      simp [this]

/-- **C12b (`floorNat_spec`)** `floorNat x bound = ⌊x⌋` whenever `⌊x⌋ ≤ bound` -/
theorem floorNat_spec (x : ℝ) (bound : ℕ) (hb : ⌊x⌋₊ ≤ bound) : floorNat x bound = ⌊x⌋₊ := by
  unfold floorNat
  rw [List.range_eq_range', takeWhile_range' _ ⌊x⌋₊ _ 0 bound, List.length_range']
  · omega
  · intro t
    rw [le_iff, ofNat_eq, ← Nat.le_floor_iff' (Nat.succ_ne_zero t)]
    exact Nat.succ_le_iff

/-- in the Stephens branch the bound `num / den = N` is large enough: `0 ≤ D` gives `⌊N(1−D)⌋ ≤ N` -/
theorem floorNat_stephens {num den : ℕ} (D : ℝ) (hD : 0 ≤ D) :
    floorNat (Nreal num den * (1 - D)) (num / den) = ⌊Nreal num den * (1 - D)⌋₊ := by
  apply floorNat_spec
  have h0 : 0 ≤ Nreal num den := by unfold Nreal; positivity
  have : Nreal num den * (1 - D) ≤ Nreal num den := by nlinarith
  calc ⌊Nreal num den * (1 - D)⌋₊ ≤ ⌊Nreal num den⌋₊ := Nat.floor_le_floor this
    _ = num / den := by unfold Nreal; exact Nat.floor_div_eq_div num den

/-- **C12b (`arangeFrom1_spec`)** `arangeFrom1 stop bound = [1, 2, …, ⌈stop⌉ − 1]` (= `np.arange(1, stop)`) whenever
that many elements fit under the bound -/
theorem arangeFrom1_spec (stop : ℝ) (bound : ℕ) (hb : ⌈stop⌉₊ - 1 ≤ bound) :
    arangeFrom1 stop bound = List.range' 1 (⌈stop⌉₊ - 1) := by
  unfold arangeFrom1
  have : (List.range bound).map (· + 1) = List.range' 1 bound := by
    rw [List.range'_eq_map_range]; congr 1; funext x; omega
  rw [this, takeWhile_range' _ ⌈stop⌉₊ _ 1 bound, min_eq_right hb]
  intro t
  rw [lt_iff, ofNat_eq, Nat.lt_ceil]

/-- **C12b (`arange_complete`)** in the fourth branch (`3 ≤ D·N`) the series really runs over all `m = 1, 2, … < 18.82/z`
(`z = D√N`): the model's bound `7·(⌊N⌋ + 1)` is never reached -/
theorem arange_complete {num den : ℕ} (hn : 0 < num) (hd : 0 < den) (D : ℝ) (h3 : 3 ≤ D * Nreal num den) :
    let stop : ℝ := (1882 : ℝ) / 10 ^ 2 / (D * Real.sqrt (Nreal num den))
    arangeFrom1 stop (7 * (num / den + 1)) = List.range' 1 (⌈stop⌉₊ - 1) := by
  intro stop
  apply arangeFrom1_spec
  have hN := Nreal_pos hn hd
  have hD : 0 < D := by
    by_contra h
    have : D * Nreal num den ≤ 0 := mul_nonpos_of_nonpos_of_nonneg (not_lt.mp h) hN.le
    linarith
  set N := Nreal num den with hNdef
  have hsq : 0 < Real.sqrt N := Real.sqrt_pos.mpr hN
  have hsq2 : Real.sqrt N * Real.sqrt N = N := Real.mul_self_sqrt hN.le
  -- z ≥ 3/√N
  have hz : 3 ≤ D * Real.sqrt N * Real.sqrt N := by rw [mul_assoc, hsq2]; exact h3
  have hzpos : 0 < D * Real.sqrt N := mul_pos hD hsq
  -- √N ≤ ⌊N⌋ + 1
  have hq : Real.sqrt N ≤ ((num / den + 1 : ℕ) : ℝ) := by
    have hfl : (num / den : ℕ) = ⌊N⌋₊ := by rw [hNdef]; unfold Nreal; exact (Nat.floor_div_eq_div num den).symm
    have hlt : N < ((num / den + 1 : ℕ) : ℝ) := by
      rw [hfl]; push_cast; exact Nat.lt_floor_add_one N
    have hq1 : (1 : ℝ) ≤ ((num / den + 1 : ℕ) : ℝ) := by push_cast; linarith [Nat.cast_nonneg (α := ℝ) (num / den)]
    rw [show ((num / den + 1 : ℕ) : ℝ) = Real.sqrt (((num / den + 1 : ℕ) : ℝ) ^ 2) from
      (Real.sqrt_sq (by linarith)).symm]
    apply Real.sqrt_le_sqrt
    nlinarith
  have hstop : stop ≤ ((7 * (num / den + 1) : ℕ) : ℝ) := by
    simp only [stop]
    rw [div_le_iff₀ hzpos]
    push_cast
    push_cast at hq
    nlinarith
  have : ⌈stop⌉₊ ≤ 7 * (num / den + 1) := Nat.ceil_le.mpr hstop
  omega

/-- the `stop` of `arange_complete` is the model's -/
theorem fppAsym_stop (D : ℝ) (num den : ℕ) :
    (Num.ofDec 1882 2 / (D * Num.sqrt (Num.ofNat num / Num.ofNat den : ℝ)) : ℝ)
      = (1882 : ℝ) / 10 ^ 2 / (D * Real.sqrt (Nreal num den)) := by
  simp [Nreal]

example : floorNat (7 / 2 : ℝ) 10 = 3 := by
  rw [floorNat_spec _ _ (by rw [show ⌊(7 / 2 : ℝ)⌋₊ = 3 from by rw [Nat.floor_eq_iff (by norm_num)]; norm_num]; norm_num)]
  rw [Nat.floor_eq_iff (by norm_num)]; norm_num

end Bounds

/-! ## G. a pinned value of the third branch: completely separated samples -/
section Separated

theorem isEvenInt_mul (k : ℕ) {den : ℕ} (hd : 0 < den) : isEvenInt (k * den) den = (k % 2 == 0) := by
  unfold isEvenInt; rw [isInt_mul, Nat.mul_div_cancel _ hd]; rfl
theorem isOddInt_mul (k : ℕ) {den : ℕ} (hd : 0 < den) : isOddInt (k * den) den = (k % 2 == 1) := by
  unfold isOddInt; rw [isInt_mul, Nat.mul_div_cancel _ hd]; rfl

/-- **C12b (`kuiper_p_separated`)** `D = 1` (the two samples do not overlap) with an integral effective size `N ≥ 3`
(e.g. `n = m ≥ 6`, `n = m` even): the third branch is taken, its sum has the single term `t = 0`, whose factor
`(1 − D − 0)^(N−1)` vanishes: the reported p-value is exactly `0` (observed on /repo for `[1..6]` vs `[7..12]`) -/
theorem kuiper_p_separated (fact : ℝ → ℝ) {den : ℕ} (hd : 0 < den) (k : ℕ) (hk : 3 ≤ k) :
    branch (1 : ℝ) (k * den) den = .stephens ∧ fpp fact 1 (k * den) den = 0 := by
  have hn : 0 < k * den := Nat.mul_pos (by omega) hd
  have hk0 : (0 : ℝ) < k := by exact_mod_cast (by omega : 0 < k)
  have hbr : branch (1 : ℝ) (k * den) den = .stephens := by
    rw [branch_stephens_iff hn hd, Nreal_mul k hd]
    refine ⟨by rw [one_mul]; exact_mod_cast hk, ?_⟩
    unfold StephensCond
    rw [isEvenInt_mul k hd, isOddInt_mul k hd, Nreal_mul k hd]
    rcases Nat.mod_two_eq_zero_or_one k with h | h
    · exact Or.inl ⟨by norm_num, by simp [h]⟩
    · refine Or.inr ⟨?_, by simp [h]⟩
      rw [div_lt_one (by positivity)]; linarith
  refine ⟨hbr, ?_⟩
  rw [fpp_eq_branch, hbr]
  have hN := Nreal_mul k hd
  unfold Nreal at hN
  have hT : floorNat ((k : ℝ) * (1 - 1)) (k * den / den) = 0 := by
    rw [floorNat_spec _ _ (by simp)]; simp
  show fppStephens 1 (k * den) den = 0
  unfold fppStephens
  simp only [one_eq, ofNat_eq, hN, hT]
  have hterm : stephensTerm (1 : ℝ) (k * den) den 0 = 0 := by
    unfold stephensTerm
    simp only [one_eq, ofNat_eq, hN, Nat.mul_div_cancel _ hd, Nat.cast_zero, zero_div, sub_self, sub_zero]
    have : ((k : ℤ) - 1) = ((k - 1 : ℕ) : ℤ) := by omega
    rw [this, ipow_nat, zero_pow (by omega)]
    simp
  simp [Kuiper.sum, hterm]

example : fpp realFact 1 (3 * 12) 12 = 0 := (kuiper_p_separated realFact (by norm_num) 3 (by norm_num)).2

end Separated

/- UNPROVED (full statements; not attempted in the time box):
   (1) range on the rest of the first branch:
       theorem kuiper_p_small_range (hn : 0 < num) (hd : 0 < den) (D : ℝ) (h1 : 1 ≤ D * Nreal num den)
           (h2 : D * Nreal num den < 2) (hN1 : 1 ≤ Nreal num den) :
           0 ≤ fpp realFact D num den ∧ fpp realFact D num den ≤ 1
       (non-integral N: needs Γ(N+1) ≤ N^(N-1), i.e. bounds on `Real.Gamma` between integers; for N < 1 the exponent
       N − 1 is negative and the statement is FALSE near D = 1/N: the power blows up and the value is −∞-wards.)
   (2) range on the other branches:
       theorem kuiper_p_range (hn : 0 < num) (hd : 0 < den) (D : ℝ) (h2 : 2 ≤ D * Nreal num den) (hD : D ≤ 1) :
           0 ≤ fpp realFact D num den ∧ fpp realFact D num den ≤ 1
       (the Stephens sum and the truncated asymptotic series; the asymptotic series is known NOT to be a probability
       for moderate z — it is an approximation — so only a `_partial` with an error term can be true there.) -/

end Frouros.C12

section axioms
open Frouros.C12
#print axioms fpp_eq_branch
#print axioms branch_stephens_isInt
#print axioms kuiper_statistic_is_ks
#print axioms kuiper_p_wiring
#print axioms branch_small_iff
#print axioms branch_mid_iff
#print axioms branch_stephens_iff
#print axioms branch_asymptotic_iff
#print axioms branch_small_of_small_N
#print axioms realFact_spec
#print axioms fppSmall_int
#print axioms kuiper_p_gt_one
#print axioms kuiper_p_small_int_range
#print axioms kuiper_p_small_int_le_one_iff
#print axioms kuiper_p_neg_base
#print axioms kuiper_p_neg_base_iff
#print axioms fppMid_domain
#print axioms fppMid_unfold
#print axioms ks_statistic_self
#print axioms kuiper_self_gt_one
#print axioms kuiper_self_neg_base
#print axioms kuiper_p_gt_one_witness
#print axioms kuiper_self_witness
#print axioms kuiper_p_nan_witness
#print axioms kuiper_statistic_eq_V_iff
#print axioms kuiper_statistic_is_ks_witness
#print axioms floorNat_spec
#print axioms floorNat_stephens
#print axioms arangeFrom1_spec
#print axioms arange_complete
#print axioms kuiper_p_separated
end axioms
