/-
  C12 (part b) — Kuiper's test as coded: the four branches of `_false_positive_probability` and the statistic.
  Model: `FrourosModel/Kuiper.lean` (new; mirrors kuiper_test.py:69-164), `FrourosModel/KS.lean`, `Tests2.kuiperV`.
  Finding KF-C12-1: the p-value formula is not a probability (values > 1, NaN) for small `D·N`, and the statistic is
  the Kolmogorov–Smirnov `D`, not Kuiper's `V`.

  REPAIR (review T2, 2.1): `Kuiper.kuiper` now takes the statistic as scipy RETURNS it, `h * 1.0 / lcm` (exact mode of
  `ks_2samp`, sizes ≤ 10000; `Kuiper.ks2sampStatistic`), not the raw ECDF difference `KS.statistic`; the two are equal
  over ℝ (`kuiper_statistic_is_ks`, now a theorem and no longer `rfl`) but differ by an ulp at Float, exactly on the
  lattice where the p-value formula is discontinuous.  Section H decides the branch on integers, ties included.

  A. any carrier (hence IEEE doubles): `fpp_eq_branch` (decision table), `kuiper_statistic_lattice` (sizes ≤ 10000: the
       statistic is literally `ofNat h / ofNat lcm`), `kuiper_statistic_large`, `kuiper_p_wiring` (p = fpp at the REPORTED D)
  B. ℝ, which branch for which `(D, N)`: `branch_small_iff`, `branch_mid_iff`, `branch_stephens_iff`,
       `branch_asymptotic_iff`, `branch_small_of_small_N` (for `N < 2` every `D ≤ 1` is in the first branch)
  C. ℝ, first branch (`D·N < 2`):
       `fppSmall_int`                      closed form `1 − N!·(D − 1/N)^(N−1)` for integral `N`
       `kuiper_p_gt_one`                   even `N`, `D < 1/N`  ⇒  p > 1            (negative theorem, whole family)
       `kuiper_p_small_int_range`          integral `N`, `0 ≤ D`, (`N` odd or `1/N ≤ D`)  ⇒  `0 ≤ p ≤ 1`
       `kuiper_p_small_int_le_one_iff`     … and that condition is necessary
       `kuiper_p_neg_base`                 non-integral `N`, `D < 1/N`  ⇒  the fractional power of a NEGATIVE base is
                                           evaluated (NaN in IEEE arithmetic)                  (whole family)
       `kuiper_p_neg_base_iff`             in the first branch that happens exactly then
  D. ℝ, second branch (`2 ≤ D·N < 3`): `fppMid_domain` (square root and both bases are in their domains),
       `kuiper_p_mid_range_partial` (integral `N`: value ≤ 1; the half `0 ≤ p` is UNPROVED)
  E. detector level (ℝ): `kuiper_statistic_is_ks` (reported statistic = `KS.statistic` for non-empty samples of any size),
       `kuiper_statistic_eq_lattice`, `kuiper_p_wiring_real`, `kuiper_p_gt_one_witness` ([1,2,3,4] vs [1.5,…,4.5]: p = 3/2),
       `kuiper_p_nan_witness` ([1,2,3] vs [1.5,2.5,3.5], the input of KF-C12-1), `ks_statistic_self`,
       `kuiper_self_gt_one` (a sample of size 4j against itself: p > 1), `kuiper_self_neg_base` (odd size: NaN),
       `kuiper_statistic_eq_V_iff`, `kuiper_statistic_is_ks_witness`
  F. the search bounds of the model are never reached: `floorNat_spec`, `floorNat_stephens`, `arangeFrom1_spec`,
       `arange_complete`
  G. a pinned value of the third branch: `kuiper_p_separated` (`D = 1`, integral `N ≥ 3`: p = 0)
  H. ℝ, the branch on the lattice as a decision on INTEGERS (`D = h/lcm`, `D·N = h·gcd/(n+m)`):
       `kuiper_branch_lattice` (`branch (h/lcm) (n·m) (n+m) = branchLattice n m h`), `kuiper_branch_detector` (same for
       actual samples + the p-value is that branch's formula), `lattice_DN_eq` (`D·N = c ⇔ h·gcd = c(n+m)`),
       `kuiper_tie_one` (`D·N = 1`: first branch, base EXACTLY 0, p = 1 for integral `N ≥ 2`, `0` for `N = 1`),
       `kuiper_tie_two` (`D·N = 2`: second branch), `kuiper_tie_three` (`D·N = 3`: third/fourth by the integer Stephens
       condition), `onTie_iff` (Boolean oracle `onTie n m h` ⇔ `(D, N)` lies on a boundary of the formula),
       witnesses on actual samples: `kuiper_tie_one_witness` (n=3, m=12), `kuiper_tie_two_witness` ([1..4] vs [5..8]:
       (1, 0)), `kuiper_tie_three_witness` (the reviewer's `0..13` vs `+5.5`: double tie, asymptotic branch)
-/
import Mathlib.Tactic
import Mathlib.Analysis.SpecialFunctions.Gamma.Basic
import Mathlib.Algebra.Order.Floor.Semifield
import FrourosProofs.RealNum
import FrourosProofs.Props.C11
import FrourosProofs.Props.C12
import FrourosModel.Kuiper

namespace Frouros.C12
open Frouros Frouros.Kuiper Frouros.RealNum

/-! ## A. control flow, any carrier -/
section AnyCarrier
variable {α : Type} [Num α]

inductive Branch where
  | small        -- line 88:  D < 2/N
  | mid          -- line 91:  D < 3/N
  | stephens     -- line 102: Stephens' finite sum
  | asymptotic   -- line 120: asymptotic series
  deriving DecidableEq, Repr

/-- the branch conditions of lines 88, 91, 102, in that order -/
def branch (D : α) (num den : Nat) : Branch :=
  let N : α := Num.ofNat num / Num.ofNat den
  if Num.lt D (Num.two / N) then .small
  else if Num.lt D (three / N) then .mid
  else if (Num.gt D (Num.ofDec 5 1) && isEvenInt num den)
      || (Num.gt D ((N - Num.one) / (Num.two * N)) && isOddInt num den) then .stephens
  else .asymptotic

/-- **C12b (`fpp_eq_branch`)** decision table of `_false_positive_probability`, for every carrier and every external
`factorial`: the value is the formula of the first branch whose condition holds -/
theorem fpp_eq_branch (fact : α → α) (D : α) (num den : Nat) :
    fpp fact D num den = match branch D num den with
      | .small => fppSmall fact D num den
      | .mid => fppMid fact D num den
      | .stephens => fppStephens D num den
      | .asymptotic => fppAsym D num den := by
  unfold fpp branch
  simp only []
  split
  · rfl
  · split
    · rfl
    · split <;> rfl

/-- the Stephens branch needs an integral `N` (`N % 2 ∈ {0, 1}`), any carrier -/
theorem branch_stephens_isInt (D : α) (num den : Nat) (h : branch D num den = .stephens) : isInt num den = true := by
  unfold branch at h
  simp only [] at h
  split at h
  · cases h
  · split at h
    · cases h
    · split at h
      · rename_i hc
        simp only [isEvenInt, isOddInt, Bool.or_eq_true, Bool.and_eq_true] at hc
        rcases hc with ⟨_, h1, _⟩ | ⟨_, h1, _⟩ <;> exact h1
      · cases h

/-- **C12b (`kuiper_statistic_lattice`)** any carrier (hence bit-for-bit at IEEE doubles): for sample sizes up to scipy's
`MAX_AUTO_N = 10000` the statistic `KuiperTest` reports is scipy's RENORMALISED `h * 1.0 / lcm` (`_attempt_exact_2kssamp`),
one division of two integers, not the raw ECDF difference -/
theorem kuiper_statistic_lattice (fact : α → α) (X Y : List α) (hsz : max X.length Y.length ≤ maxAutoN) :
    (kuiper fact X Y).1 = Num.ofNat (KS.hTwoSided X Y) / Num.ofNat (Nat.lcm X.length Y.length) := by
  show ks2sampStatistic X Y = _
  unfold ks2sampStatistic
  rw [if_pos hsz]

/-- … and above `MAX_AUTO_N` (asymptotic mode of `ks_2samp`) it is the raw difference `KS.statistic` (any carrier) -/
theorem kuiper_statistic_large (fact : α → α) (X Y : List α) (hsz : maxAutoN < max X.length Y.length) :
    (kuiper fact X Y).1 = KS.statistic X Y := by
  show ks2sampStatistic X Y = _
  unfold ks2sampStatistic
  rw [if_neg (Nat.not_le.mpr hsz)]

/-- **C12b (`kuiper_p_wiring`)** any carrier, any external factorial: the p-value is `_false_positive_probability(D, N)`
at the REPORTED statistic `D` (the same double that is returned) with `N = |X|·|Y| / (|X|+|Y|)` -/
theorem kuiper_p_wiring (fact : α → α) (X Y : List α) :
    (kuiper fact X Y).2 = fpp fact (kuiper fact X Y).1 (X.length * Y.length) (X.length + Y.length) := rfl

example : max [(1 : Float), 2, 3].length [(4 : Float)].length ≤ maxAutoN := by decide

end AnyCarrier

/-! ## B. which branch for which `(D, N)`, over ℝ -/
section Branches

/-- `N = num/den` as a real number -/
noncomputable def Nreal (num den : Nat) : ℝ := (num : ℝ) / (den : ℝ)

theorem Nreal_pos {num den : Nat} (hn : 0 < num) (hd : 0 < den) : 0 < Nreal num den := by
  unfold Nreal; positivity

theorem three_eq : (three : ℝ) = 3 := by simp [three]

theorem lt_div_N {num den : Nat} (hn : 0 < num) (hd : 0 < den) (D c : ℝ) :
    D < c / Nreal num den ↔ D * Nreal num den < c := lt_div_iff₀ (Nreal_pos hn hd)

/-- the three tests of `branch`, rewritten over ℝ -/
theorem branch_real (D : ℝ) (num den : Nat) :
    branch D num den =
      if D < 2 / Nreal num den then .small
      else if D < 3 / Nreal num den then .mid
      else if (1 / 2 < D ∧ isEvenInt num den = true)
          ∨ ((Nreal num den - 1) / (2 * Nreal num den) < D ∧ isOddInt num den = true) then .stephens
      else .asymptotic := by
  unfold branch Nreal
  simp only [three_eq, two_eq, one_eq, ofNat_eq, ofDec_eq, lt_iff, gt_iff, Bool.or_eq_true, Bool.and_eq_true]
  norm_num

variable {num den : Nat}

/-- **C12b** first branch ⇔ `D·N < 2` -/
theorem branch_small_iff (hn : 0 < num) (hd : 0 < den) (D : ℝ) :
    branch D num den = .small ↔ D * Nreal num den < 2 := by
  rw [branch_real, ← lt_div_N hn hd]
  split
  · simp [*]
  · rename_i h
    simp only [h, iff_false]
    split
    · simp
    · split <;> simp

/-- **C12b** second branch ⇔ `2 ≤ D·N < 3` -/
theorem branch_mid_iff (hn : 0 < num) (hd : 0 < den) (D : ℝ) :
    branch D num den = .mid ↔ 2 ≤ D * Nreal num den ∧ D * Nreal num den < 3 := by
  rw [branch_real, ← lt_div_N hn hd, ← not_lt, ← lt_div_N hn hd]
  split
  · rename_i h; simp [h]
  · rename_i h
    split
    · rename_i h'; simp [h, h']
    · rename_i h'
      split <;> simp [h']

/-- the condition of line 102 -/
def StephensCond (D : ℝ) (num den : Nat) : Prop :=
  (1 / 2 < D ∧ isEvenInt num den = true) ∨ ((Nreal num den - 1) / (2 * Nreal num den) < D ∧ isOddInt num den = true)

/-- **C12b** third branch ⇔ `3 ≤ D·N`, `N` an integer, and `D > 1/2` (even `N`) resp. `D > (N−1)/(2N)` (odd `N`) -/
theorem branch_stephens_iff (hn : 0 < num) (hd : 0 < den) (D : ℝ) :
    branch D num den = .stephens ↔ 3 ≤ D * Nreal num den ∧ StephensCond D num den := by
  rw [branch_real, ← not_lt, ← lt_div_N hn hd]
  unfold StephensCond
  split
  · rename_i h
    have : D < 3 / Nreal num den := h.trans_le (div_le_div_of_nonneg_right (by norm_num) (Nreal_pos hn hd).le)
    exact ⟨(fun h => by cases h), fun h => absurd this h.1⟩
  · split
    · rename_i h'; exact ⟨(fun h => by cases h), fun h => absurd h' h.1⟩
    · rename_i h'
      split
      · rename_i hc; exact ⟨fun _ => ⟨h', hc⟩, fun _ => rfl⟩
      · rename_i hc; exact ⟨(fun h => by cases h), fun h => absurd h.2 hc⟩

/-- **C12b** fourth branch ⇔ `3 ≤ D·N` and not the third -/
theorem branch_asymptotic_iff (hn : 0 < num) (hd : 0 < den) (D : ℝ) :
    branch D num den = .asymptotic ↔ 3 ≤ D * Nreal num den ∧ ¬ StephensCond D num den := by
  rw [branch_real, ← not_lt, ← lt_div_N hn hd]
  unfold StephensCond
  split
  · rename_i h
    have : D < 3 / Nreal num den := h.trans_le (div_le_div_of_nonneg_right (by norm_num) (Nreal_pos hn hd).le)
    exact ⟨(fun h => by cases h), fun h => absurd this h.1⟩
  · split
    · rename_i h'; exact ⟨(fun h => by cases h), fun h => absurd h' h.1⟩
    · rename_i h'
      split
      · rename_i hc; exact ⟨(fun h => by cases h), fun h => absurd hc h.2⟩
      · rename_i hc; exact ⟨fun _ => ⟨h', hc⟩, fun _ => rfl⟩

/-- for an effective size `N < 2` (e.g. `n = m ≤ 3`) every statistic `D ≤ 1` is handled by the FIRST branch -/
theorem branch_small_of_small_N (hn : 0 < num) (hd : 0 < den) (hN : Nreal num den < 2) (D : ℝ) (hD : D ≤ 1) :
    branch D num den = .small := by
  rw [branch_small_iff hn hd]
  have := Nreal_pos hn hd
  nlinarith

example : branch (1 / 3 : ℝ) 9 6 = .small :=
  (branch_small_iff (by norm_num) (by norm_num) _).mpr (by unfold Nreal; norm_num)
example : branch (1 / 2 : ℝ) 64 16 = .mid :=
  (branch_mid_iff (by norm_num) (by norm_num) _).mpr (by unfold Nreal; norm_num)
example : branch (4 / 5 : ℝ) 100 10 = .stephens :=
  (branch_stephens_iff (by norm_num) (by norm_num) _).mpr
    ⟨by unfold Nreal; norm_num, Or.inl ⟨by norm_num, by decide⟩⟩
example : branch (3 / 10 : ℝ) 100 2 = .asymptotic :=
  (branch_asymptotic_iff (by norm_num) (by norm_num) _).mpr
    ⟨by unfold Nreal; norm_num, by
      unfold StephensCond
      rintro (⟨h, _⟩ | ⟨_, h⟩)
      · norm_num at h
      · exact absurd h (by decide)⟩

end Branches

/-! ## C. the first branch over ℝ -/
section Small

/-- all the theorems assume of the external `scipy.special.factorial`: on integers it is the factorial -/
def FactSpec (fact : ℝ → ℝ) : Prop := ∀ k : ℕ, fact (k : ℝ) = (k.factorial : ℝ)

/-- scipy's definition for float arguments: `Γ(x + 1)` -/
noncomputable def realFact (x : ℝ) : ℝ := Real.Gamma (x + 1)
theorem realFact_spec : FactSpec realFact := fun k => Real.Gamma_nat_eq_factorial k

theorem ipow_nat (x : ℝ) (n : ℕ) : ipow x (n : ℤ) = x ^ n := by
  unfold ipow
  have : ¬ ((n : ℤ) < 0) := by omega
  simp [this]

theorem isInt_mul (k den : ℕ) : isInt (k * den) den = true := by
  simp [isInt]

theorem isInt_iff_dvd (num den : ℕ) : isInt num den = true ↔ den ∣ num := by
  simp [isInt, Nat.dvd_iff_mod_eq_zero]

theorem Nreal_mul (k : ℕ) {den : ℕ} (hd : 0 < den) : Nreal (k * den) den = k := by
  unfold Nreal
  have : (den : ℝ) ≠ 0 := by positivity
  push_cast
  field_simp

/-- integral `N = k ≥ j`: `x ** (N − j) = x^(k−j)` -/
theorem powN_int (x : ℝ) (k j : ℕ) {den : ℕ} (hd : 0 < den) (hj : j ≤ k) : powN x (k * den) den j = x ^ (k - j) := by
  unfold powN
  rw [if_pos (isInt_mul k den), Nat.mul_div_cancel _ hd]
  have : ((k : ℤ) - (j : ℤ)) = ((k - j : ℕ) : ℤ) := by omega
  rw [this, ipow_nat]

/-- **C12b (`fppSmall_int`)** for an integral effective size `N = k ≥ 1` the first branch is
`1 − k!·(D − 1/k)^(k−1)` (a genuine natural power: defined for every sign of the base) -/
theorem fppSmall_int (fact : ℝ → ℝ) (hf : FactSpec fact) {den : ℕ} (hd : 0 < den) (k : ℕ) (hk : 1 ≤ k) (D : ℝ) :
    fppSmall fact D (k * den) den = 1 - (k.factorial : ℝ) * (D - 1 / (k : ℝ)) ^ (k - 1) := by
  have hN := Nreal_mul k hd
  unfold Nreal at hN
  unfold fppSmall
  simp only [one_eq, ofNat_eq]
  rw [hN, hf k, powN_int _ k 1 hd hk]

theorem small_of_lt_one {num den : ℕ} (hn : 0 < num) (hd : 0 < den) (D : ℝ) (h : D * Nreal num den < 2)
    (fact : ℝ → ℝ) : fpp fact D num den = fppSmall fact D num den := by
  rw [fpp_eq_branch, (branch_small_iff hn hd D).mpr h]

/-- **C12b (`kuiper_p_gt_one`)** NEGATIVE theorem (KF-C12-1), a whole family: for every EVEN integral effective size
`N = k ≥ 2` and every `D < 1/N` (in particular `D = 0`) the reported "p-value" is strictly greater than 1 -/
theorem kuiper_p_gt_one (fact : ℝ → ℝ) (hf : FactSpec fact) {den : ℕ} (hd : 0 < den) (k : ℕ) (hk : 2 ≤ k)
    (hev : Even k) (D : ℝ) (hD : D < 1 / (k : ℝ)) : 1 < fpp fact D (k * den) den := by
  have hk0 : (0 : ℝ) < k := by exact_mod_cast (by omega : 0 < k)
  have hDk : D * k < 1 := (lt_div_iff₀ hk0).mp hD
  have hn : 0 < k * den := Nat.mul_pos (by omega) hd
  rw [small_of_lt_one hn hd D (by rw [Nreal_mul k hd]; linarith), fppSmall_int fact hf hd k (by omega)]
  have hodd : Odd (k - 1) := Nat.Even.sub_odd (by omega) hev odd_one
  have hneg : (D - 1 / (k : ℝ)) ^ (k - 1) < 0 := Odd.pow_neg hodd (by linarith)
  have hfac : (0 : ℝ) < (k.factorial : ℝ) := by exact_mod_cast k.factorial_pos
  nlinarith

theorem factorial_le_pow_pred (k : ℕ) (hk : 1 ≤ k) : k.factorial ≤ k ^ (k - 1) := by
  obtain ⟨j, rfl⟩ : ∃ j, k = j + 1 := ⟨k - 1, by omega⟩
  simp only [Nat.add_sub_cancel]
  induction j with
  | zero => simp
  | succ j ih =>
    have ih' := ih (by omega)
    calc (j + 1 + 1).factorial = (j + 2) * (j + 1).factorial := Nat.factorial_succ (j + 1)
      _ ≤ (j + 2) * (j + 1) ^ j := Nat.mul_le_mul_left _ ih'
      _ ≤ (j + 2) * (j + 2) ^ j := Nat.mul_le_mul_left _ (Nat.pow_le_pow_left (by omega) j)
      _ = (j + 1 + 1) ^ (j + 1) := by ring

/-- **C12b (`kuiper_p_small_int_range`)** the region of the first branch where the formula IS a probability:
integral `N = k ≥ 1`, `0 ≤ D`, `D·N < 2`, and (`N` odd or `1/N ≤ D`) -/
theorem kuiper_p_small_int_range (fact : ℝ → ℝ) (hf : FactSpec fact) {den : ℕ} (hd : 0 < den) (k : ℕ) (hk : 1 ≤ k)
    (D : ℝ) (h0 : 0 ≤ D) (h2 : D * k < 2) (hc : Odd k ∨ 1 / (k : ℝ) ≤ D) :
    0 ≤ fpp fact D (k * den) den ∧ fpp fact D (k * den) den ≤ 1 := by
  have hk0 : (0 : ℝ) < k := by exact_mod_cast (by omega : 0 < k)
  have hn : 0 < k * den := Nat.mul_pos (by omega) hd
  rw [small_of_lt_one hn hd D (by rw [Nreal_mul k hd]; exact h2), fppSmall_int fact hf hd k hk]
  set x : ℝ := D - 1 / (k : ℝ) with hx
  have hik : (0 : ℝ) < 1 / (k : ℝ) := by positivity
  have hlo : -(1 / (k : ℝ)) ≤ x := by rw [hx]; linarith
  have hhi : x ≤ 1 / (k : ℝ) := by
    have : D < 2 / (k : ℝ) := (lt_div_iff₀ hk0).mpr h2
    rw [hx]; have : 2 / (k : ℝ) = 1 / k + 1 / k := by ring
    linarith
  have habs : |x| ≤ 1 / (k : ℝ) := abs_le.mpr ⟨hlo, hhi⟩
  have hpow0 : 0 ≤ x ^ (k - 1) := by
    rcases hc with hodd | hge
    · have : Even (k - 1) := Nat.Odd.sub_odd hodd odd_one
      exact this.pow_nonneg x
    · exact pow_nonneg (by rw [hx]; linarith) _
  have hpow1 : x ^ (k - 1) ≤ (1 / (k : ℝ)) ^ (k - 1) :=
    calc x ^ (k - 1) ≤ |x ^ (k - 1)| := le_abs_self _
      _ = |x| ^ (k - 1) := abs_pow x _
      _ ≤ (1 / (k : ℝ)) ^ (k - 1) := pow_le_pow_left₀ (abs_nonneg x) habs _
  have hfac : (k.factorial : ℝ) ≤ (k : ℝ) ^ (k - 1) := by exact_mod_cast factorial_le_pow_pred k hk
  have hfac0 : (0 : ℝ) ≤ (k.factorial : ℝ) := by positivity
  have hkp : (0 : ℝ) < (k : ℝ) ^ (k - 1) := by positivity
  have hprod : (k.factorial : ℝ) * x ^ (k - 1) ≤ 1 :=
    calc (k.factorial : ℝ) * x ^ (k - 1) ≤ (k : ℝ) ^ (k - 1) * (1 / (k : ℝ)) ^ (k - 1) :=
          mul_le_mul hfac hpow1 hpow0 hkp.le
      _ = 1 := by rw [← mul_pow]; rw [mul_one_div_cancel hk0.ne']; exact one_pow _
  have hprod0 : 0 ≤ (k.factorial : ℝ) * x ^ (k - 1) := mul_nonneg hfac0 hpow0
  constructor <;> linarith

/-- **C12b (`kuiper_p_small_int_le_one_iff`)** … and the condition is necessary: on the first branch with an integral
`N` the value is `≤ 1` exactly when `N` is odd or `1/N ≤ D` -/
theorem kuiper_p_small_int_le_one_iff (fact : ℝ → ℝ) (hf : FactSpec fact) {den : ℕ} (hd : 0 < den) (k : ℕ) (hk : 1 ≤ k)
    (D : ℝ) (h0 : 0 ≤ D) (h2 : D * k < 2) :
    fpp fact D (k * den) den ≤ 1 ↔ (Odd k ∨ 1 / (k : ℝ) ≤ D) := by
  constructor
  · intro h
    by_contra hc
    rw [not_or, not_le] at hc
    obtain ⟨hno, hlt⟩ := hc
    have hev : Even k := Nat.not_odd_iff_even.mp hno
    have hk2 : 2 ≤ k := by
      rcases hev with ⟨r, hr⟩; omega
    exact absurd h (not_le.mpr (kuiper_p_gt_one fact hf hd k hk2 hev D hlt))
  · intro hc
    exact (kuiper_p_small_int_range fact hf hd k hk D h0 h2 hc).2

example : (0 : ℝ) ≤ fpp realFact (1 / 6) (3 * 12) 12 ∧ fpp realFact (1 / 6) (3 * 12) 12 ≤ 1 :=
  kuiper_p_small_int_range realFact realFact_spec (by norm_num) 3 (by norm_num) _ (by norm_num) (by norm_num)
    (Or.inl (by decide))
example : 1 < fpp realFact 0 (2 * 8) 8 :=
  kuiper_p_gt_one realFact realFact_spec (by norm_num) 2 (by norm_num) (by decide) 0 (by norm_num)

/-- **C12b (`kuiper_p_neg_base`)** NEGATIVE theorem (KF-C12-1), a whole family, for EVERY external factorial: for every
NON-integral effective size `N` (e.g. `n = m` odd) and every `D < 1/N`, the first branch is taken and it raises the
NEGATIVE number `D − 1/N` to the non-integral power `N − 1`: the model's value is literally `exp((N−1)·log(negative))`,
which is NaN in IEEE arithmetic (NumPy: "invalid value encountered in scalar power"; over ℝ it is a junk value). -/
theorem kuiper_p_neg_base (fact : ℝ → ℝ) {num den : ℕ} (hn : 0 < num) (hd : 0 < den) (hni : ¬ den ∣ num)
    (D : ℝ) (hD : D * Nreal num den < 1) :
    branch D num den = .small ∧ isInt num den = false ∧ D - 1 / Nreal num den < 0 ∧
    fpp fact D num den
      = 1 - fact (Nreal num den) * Real.exp ((Nreal num den - 1) * Real.log (D - 1 / Nreal num den)) := by
  have hN := Nreal_pos hn hd
  have hi : isInt num den = false := by
    rw [← Bool.not_eq_true, isInt_iff_dvd]; exact hni
  refine ⟨(branch_small_iff hn hd D).mpr (by linarith), hi, ?_, ?_⟩
  · have : D < 1 / Nreal num den := (lt_div_iff₀ hN).mpr hD
    linarith
  · rw [small_of_lt_one hn hd D (by linarith)]
    unfold fppSmall powN
    rw [hi]
    simp only [Bool.false_eq_true, if_false, one_eq, ofNat_eq, exp_eq, log_eq, Nat.cast_one]
    rfl

/-- on the first branch, the power is outside its domain exactly in that case -/
theorem kuiper_p_neg_base_iff {num den : ℕ} (hn : 0 < num) (hd : 0 < den) (D : ℝ) :
    (isInt num den = false ∧ D - 1 / Nreal num den < 0) ↔ (¬ den ∣ num ∧ D * Nreal num den < 1) := by
  have hN := Nreal_pos hn hd
  rw [← Bool.not_eq_true, isInt_iff_dvd, sub_neg, lt_div_iff₀ hN]

end Small

/-! ## D. the second branch over ℝ: everything is inside its domain -/
section Mid

/-- **C12b (`fppMid_domain`)** on the second branch (`2 ≤ D·N < 3`) the argument of `np.sqrt` is positive, both bases
`a = −k + r`, `b = −k − r` of the fractional powers are non-negative (`a > 0`) and the divisor `b − a` is non-zero
(the third base, `N` in `N ** (N−2)`, is positive by `Nreal_pos`): the ℝ rendering of "no NaN, no division by zero" for lines 92-100
(`k`, `r`, `a`, `b` are literally the terms of `Kuiper.fppMid`, see `fppMid_unfold`) -/
theorem fppMid_domain (N D : ℝ) (h2 : 2 ≤ D * N) (h3 : D * N < 3) :
    let k := -(N * D - 1) / 2
    let s := k ^ 2 - (N * D - 2) ^ 2 / 2
    let r := Real.sqrt s
    0 < s ∧ 0 < -k + r ∧ 0 ≤ -k - r ∧ (-k - r) - (-k + r) ≠ 0 := by
  intro k s r
  have hx : N * D = D * N := mul_comm _ _
  have hs : 0 < s := by
    simp only [s, k, hx]; nlinarith [mul_nonneg (sub_nonneg.mpr h2) (by linarith : (0:ℝ) ≤ 4 - D * N)]
  have hr : 0 < r := Real.sqrt_pos.mpr hs
  have hk : 0 < -k := by simp only [k, hx]; linarith
  have hrk : r ≤ -k := by
    rw [show r = Real.sqrt s from rfl, show -k = Real.sqrt ((-k) ^ 2) from (Real.sqrt_sq hk.le).symm]
    apply Real.sqrt_le_sqrt
    simp only [s]; nlinarith [sq_nonneg (N * D - 2)]
  refine ⟨hs, by linarith, by linarith, ?_⟩
  intro h; linarith

/-- the terms of `fppMid_domain` are the model's -/
theorem fppMid_unfold (fact : ℝ → ℝ) (D : ℝ) (num den : ℕ) :
    fppMid fact D num den =
      (let N := Nreal num den
       let k := -(N * D - 1) / 2
       let r := Real.sqrt (k ^ 2 - (N * D - 2) ^ 2 / 2)
       let a := -k + r
       let b := -k - r
       1 - (fact (N - 1) * (powN b num den 1 * (1 - a) - powN a num den 1 * (1 - b)) / powN N num den 2 / (b - a))) := by
  unfold fppMid Nreal
  simp only [one_eq, two_eq, ofNat_eq, sqrt_eq, npow_eq]

example : (2 : ℝ) ≤ (1 / 2) * 4 ∧ (1 / 2 : ℝ) * 4 < 3 := by norm_num

/-- for an integral `N` every `x ** (N − j)` with `x > 0` is positive (also for a negative exponent) -/
theorem powN_int_pos (x : ℝ) (hx : 0 < x) (k j den : ℕ) : 0 < powN x (k * den) den j := by
  unfold powN
  rw [if_pos (isInt_mul k den)]
  unfold ipow
  simp only [one_eq, npow_eq]
  split <;> positivity

/-- **C12b (`kuiper_p_mid_range_partial`)** second branch, integral effective size `N = k ≥ 1`, `2 ≤ D·N < 3`: the branch is
taken and the reported value is `≤ 1` (the subtracted term `(N−1)!·(b^(N−1)(1−a) − a^(N−1)(1−b)) / N^(N−2) / (b−a)` is
non-negative: `0 ≤ b < a`, `b < 1`).
PARTIAL: the other half `0 ≤ p` (Stephens' CDF value `≤ 1`, tight at `N = 3`, `D·N → 3`) is not proved for integral `N`
(see the UNPROVED block at the end of the file), and for NON-integral `N` it is FALSE on reachable inputs: completely
separated samples of sizes 5 and 7 (`D = 1`, `N = 35/12`, `D·N = 2.9167`) get the p-value `−5.03e−4`, sizes 4 and 11
(`N = 44/15`) `−6.35e−4` (observed on /repo, `KuiperTest().fit(X=arange(5)); compare(X=arange(7)+10)`; the Float model
returns the same values); the Γ-interpolated `factorial(N−1)` overshoots for `N` slightly below 3. -/
theorem kuiper_p_mid_range_partial (fact : ℝ → ℝ) (hf : FactSpec fact) {den : ℕ} (hd : 0 < den) (k : ℕ) (hk : 1 ≤ k)
    (D : ℝ) (h2 : 2 ≤ D * k) (h3 : D * k < 3) :
    branch D (k * den) den = .mid ∧ fpp fact D (k * den) den ≤ 1 := by
  have hk0 : (0 : ℝ) < k := by exact_mod_cast (by omega : 0 < k)
  have hn : 0 < k * den := Nat.mul_pos (by omega) hd
  have hbr : branch D (k * den) den = .mid := by
    rw [branch_mid_iff hn hd, Nreal_mul k hd]; exact ⟨h2, h3⟩
  refine ⟨hbr, ?_⟩
  rw [fpp_eq_branch, hbr]
  show fppMid fact D (k * den) den ≤ 1
  rw [fppMid_unfold, Nreal_mul k hd]
  obtain ⟨hs, ha, hb, hba⟩ := fppMid_domain (k : ℝ) D h2 h3
  simp only [] at hs ha hb hba ⊢
  set c : ℝ := -(-((k : ℝ) * D - 1) / 2) with hc
  set r : ℝ := Real.sqrt ((-((k : ℝ) * D - 1) / 2) ^ 2 - ((k : ℝ) * D - 2) ^ 2 / 2) with hr
  have hr0 : 0 < r := Real.sqrt_pos.mpr hs
  have hc1 : c < 1 := by rw [hc]; nlinarith
  have hb1 : c - r < 1 := by linarith
  rw [powN_int _ k 1 hd hk, powN_int _ k 1 hd hk]
  have hP := powN_int_pos (k : ℝ) hk0 k 2 den
  have hF : 0 ≤ fact ((k : ℝ) - 1) := by
    have : ((k : ℝ) - 1) = ((k - 1 : ℕ) : ℝ) := by
      rw [Nat.cast_sub hk]; simp
    rw [this, hf (k - 1)]; positivity
  have hnum : (c - r) ^ (k - 1) * (1 - (c + r)) - (c + r) ^ (k - 1) * (1 - (c - r)) ≤ 0 := by
    have hpow : (c - r) ^ (k - 1) ≤ (c + r) ^ (k - 1) := pow_le_pow_left₀ hb (by linarith) _
    have hpb : 0 ≤ (c - r) ^ (k - 1) := pow_nonneg hb _
    have hpa : 0 ≤ (c + r) ^ (k - 1) := pow_nonneg ha.le _
    rcases le_or_gt (c + r) 1 with h1 | h1
    · have : (c - r) ^ (k - 1) * (1 - (c + r)) ≤ (c + r) ^ (k - 1) * (1 - (c - r)) :=
        mul_le_mul hpow (by linarith) (by linarith) hpa
      linarith
    · have e1 : (c - r) ^ (k - 1) * (1 - (c + r)) ≤ 0 := mul_nonpos_of_nonneg_of_nonpos hpb (by linarith)
      have e2 : 0 ≤ (c + r) ^ (k - 1) * (1 - (c - r)) := mul_nonneg hpa (by linarith)
      linarith
  have hden : (c - r) - (c + r) < 0 := by linarith
  have hq : 0 ≤ fact ((k : ℝ) - 1) * ((c - r) ^ (k - 1) * (1 - (c + r)) - (c + r) ^ (k - 1) * (1 - (c - r)))
      / powN (k : ℝ) (k * den) den 2 / ((c - r) - (c + r)) :=
    div_nonneg_of_nonpos (div_nonpos_of_nonpos_of_nonneg (mul_nonpos_of_nonneg_of_nonpos hF hnum) hP.le) hden.le
  linarith

example : fpp realFact (1 / 2) (4 * 16) 16 ≤ 1 :=
  (kuiper_p_mid_range_partial realFact realFact_spec (by norm_num) 4 (by norm_num) (1 / 2) (by norm_num) (by norm_num)).2

end Mid

/-! ## E. detector level: `KuiperTest._kuiper` on actual samples (ℝ) -/
section Detector
open Frouros.KS

theorem foldl_max_zero {β : Type} (l : List β) :
    (l.map (fun _ => (0 : Int))).foldl (fun acc d => max acc d.natAbs) 0 = 0 := by
  induction l with
  | nil => rfl
  | cons _ l ih => simpa using ih

/-- **C12b (`kuiper_statistic_is_ks`)** over ℝ, for non-empty samples of ANY sizes: the statistic `KuiperTest` reports
(scipy's renormalised lattice value `h / lcm(n, m)` up to `MAX_AUTO_N`, the raw difference above it) EQUALS
`KS.statistic X Y = sup_z |F_X z − F_Y z|` (`C11.stat_eq_sup`), the Kolmogorov–Smirnov `D`.  (No longer `rfl`: the two
expressions are different floating-point programs, equal as real numbers by `C11.stat_eq_lattice`.)  Non-emptiness
excludes the junk values `c / 0 = 0`; `ks_2samp` raises for an empty sample. -/
theorem kuiper_statistic_is_ks (fact : ℝ → ℝ) (X Y : List ℝ) (hX : X ≠ []) (hY : Y ≠ []) :
    (kuiper fact X Y).1 = KS.statistic X Y := by
  show ks2sampStatistic X Y = _
  unfold ks2sampStatistic
  split
  · rw [C11.stat_eq_lattice X Y hX hY, ofNat_eq, ofNat_eq, C11.lcm_eq]
  · rfl

/-- the same, in lattice form, for all sizes: `D = h / lcm(n, m)` -/
theorem kuiper_statistic_eq_lattice (fact : ℝ → ℝ) (X Y : List ℝ) (hX : X ≠ []) (hY : Y ≠ []) :
    (kuiper fact X Y).1 = (hTwoSided X Y : ℝ) / (Nat.lcm X.length Y.length : ℝ) := by
  rw [kuiper_statistic_is_ks fact X Y hX hY, C11.stat_eq_lattice X Y hX hY, C11.lcm_eq]

/-- **C12b (`kuiper_p_wiring_real`)** over ℝ the p-value is `_false_positive_probability(D, N)` at the KS statistic -/
theorem kuiper_p_wiring_real (fact : ℝ → ℝ) (X Y : List ℝ) (hX : X ≠ []) (hY : Y ≠ []) :
    (kuiper fact X Y).2 = fpp fact (KS.statistic X Y) (X.length * Y.length) (X.length + Y.length) := by
  rw [kuiper_p_wiring, kuiper_statistic_is_ks fact X Y hX hY]

example : (kuiper realFact [(1 : ℝ), 2] [3]).1 = KS.statistic [(1 : ℝ), 2] [3] :=
  kuiper_statistic_is_ks _ _ _ (by simp) (by simp)

/-- a sample against itself has KS statistic 0 -/
theorem ks_statistic_self (X : List ℝ) (hX : X ≠ []) : KS.statistic X X = 0 := by
  rw [C11.stat_eq_lattice X X hX hX]
  have : devs X X = (X ++ X).map (fun _ => (0 : Int)) := by
    unfold devs; simp
  unfold hTwoSided
  rw [this, foldl_max_zero]
  simp

/-- **C12b (`kuiper_self_gt_one`)** every sample whose size is a multiple of 4, compared with ITSELF, gets a
"p-value" greater than 1 (size 4: exactly 2, see `kuiper_self_witness`) -/
theorem kuiper_self_gt_one (fact : ℝ → ℝ) (hf : FactSpec fact) (X : List ℝ) (j : ℕ) (hj : 1 ≤ j) (hlen : X.length = 4 * j) :
    1 < (kuiper fact X X).2 := by
  have hX : X ≠ [] := by intro h; rw [h] at hlen; simp at hlen; omega
  rw [kuiper_p_wiring_real fact X X hX hX, ks_statistic_self X hX, hlen]
  have : 4 * j * (4 * j) = (2 * j) * (4 * j + 4 * j) := by ring
  rw [this]
  exact kuiper_p_gt_one fact hf (by omega) (2 * j) (by omega) ⟨j, by ring⟩ 0 (by positivity)

/-- **C12b (`kuiper_self_neg_base`)** every sample of ODD size compared with itself: the negative-base fractional
power is evaluated (NaN), for every external factorial -/
theorem kuiper_self_neg_base (fact : ℝ → ℝ) (X : List ℝ) (hodd : Odd X.length) :
    let n := X.length
    branch (0 : ℝ) (n * n) (n + n) = .small ∧ isInt (n * n) (n + n) = false ∧ (0 : ℝ) - 1 / Nreal (n * n) (n + n) < 0 ∧
    (kuiper fact X X).2 = 1 - fact (Nreal (n * n) (n + n)) *
        Real.exp ((Nreal (n * n) (n + n) - 1) * Real.log (0 - 1 / Nreal (n * n) (n + n))) := by
  intro n
  have hn : 0 < n := hodd.pos
  have hX : X ≠ [] := by intro h; simp [n, h] at hn
  have hni : ¬ (n + n) ∣ n * n := by
    intro h
    have h2 : 2 ∣ n * n := Dvd.dvd.trans ⟨n, by ring⟩ h
    have : Odd (n * n) := hodd.mul hodd
    exact (Nat.not_even_iff_odd.mpr this) (even_iff_two_dvd.mpr h2)
  have := kuiper_p_neg_base fact (Nat.mul_pos hn hn) (by omega : 0 < n + n) hni 0 (by simp)
  rw [kuiper_p_wiring_real fact X X hX hX, ks_statistic_self X hX]
  exact this

/-- **C12b (`kuiper_p_gt_one_witness`)** KF-C12-1: reference `[1,2,3,4]`, test `[1.5,2.5,3.5,4.5]`: `D = 1/4`, `N = 2`,
reported p-value `3/2` (observed on /repo: `StatisticalResult(statistic=0.25, p_value=1.5)`) -/
theorem kuiper_p_gt_one_witness (fact : ℝ → ℝ) (hf : FactSpec fact) :
    kuiper fact [(1 : ℝ), 2, 3, 4] [3 / 2, 5 / 2, 7 / 2, 9 / 2] = (1 / 4, 3 / 2) := by
  have hs : KS.statistic [(1 : ℝ), 2, 3, 4] [3 / 2, 5 / 2, 7 / 2, 9 / 2] = 1 / 4 := by
    rw [C11.stat_eq_lattice _ _ (by simp) (by simp)]
    simp [hTwoSided, devs, countLe]
    norm_num
  have hp : (kuiper fact [(1 : ℝ), 2, 3, 4] [3 / 2, 5 / 2, 7 / 2, 9 / 2]).2 = 3 / 2 := by
    rw [kuiper_p_wiring_real _ _ _ (by simp) (by simp), hs]
    show fpp fact (1 / 4) (2 * 8) 8 = 3 / 2
    rw [small_of_lt_one (by norm_num) (by norm_num) _ (by rw [Nreal_mul 2 (by norm_num)]; norm_num),
      fppSmall_int fact hf (by norm_num) 2 (by norm_num)]
    norm_num [Nat.factorial]
  exact Prod.ext (by rw [kuiper_statistic_is_ks _ _ _ (by simp) (by simp), hs]) hp

/-- a sample of size 4 against itself: statistic 0, "p-value" 2 (observed on /repo) -/
theorem kuiper_self_witness (fact : ℝ → ℝ) (hf : FactSpec fact) :
    kuiper fact [(1 : ℝ), 2, 3, 4] [1, 2, 3, 4] = (0, 2) := by
  have hs := ks_statistic_self [(1 : ℝ), 2, 3, 4] (by simp)
  have hp : (kuiper fact [(1 : ℝ), 2, 3, 4] [1, 2, 3, 4]).2 = 2 := by
    rw [kuiper_p_wiring_real _ _ _ (by simp) (by simp), hs]
    show fpp fact 0 (2 * 8) 8 = 2
    rw [small_of_lt_one (by norm_num) (by norm_num) _ (by rw [Nreal_mul 2 (by norm_num)]; norm_num),
      fppSmall_int fact hf (by norm_num) 2 (by norm_num)]
    norm_num [Nat.factorial]
  exact Prod.ext (by rw [kuiper_statistic_is_ks _ _ _ (by simp) (by simp), hs]) hp

/-- **C12b (`kuiper_p_nan_witness`)** KF-C12-1, the input of the finding: reference `[1,2,3]`, test `[1.5,2.5,3.5]`:
`D = 1/3`, `N = 9/6 = 1.5` (not an integer), first branch, base `D − 1/N = −1/3 < 0`, exponent `N − 1 = 1/2`: the
reported p-value is `1 − factorial(1.5)·exp(½·log(−1/3))`, i.e. NaN in IEEE arithmetic (observed on /repo:
`StatisticalResult(statistic=0.333…, p_value=nan)`), for every external factorial -/
theorem kuiper_p_nan_witness (fact : ℝ → ℝ) :
    (kuiper fact [(1 : ℝ), 2, 3] [3 / 2, 5 / 2, 7 / 2]).1 = 1 / 3 ∧
    branch (1 / 3 : ℝ) 9 6 = .small ∧ isInt 9 6 = false ∧
    (1 / 3 : ℝ) - 1 / Nreal 9 6 = -(1 / 3) ∧ Nreal 9 6 - 1 = 1 / 2 ∧
    (kuiper fact [(1 : ℝ), 2, 3] [3 / 2, 5 / 2, 7 / 2]).2
      = 1 - fact (3 / 2) * Real.exp (1 / 2 * Real.log (-(1 / 3))) := by
  have hs : KS.statistic [(1 : ℝ), 2, 3] [3 / 2, 5 / 2, 7 / 2] = 1 / 3 := by
    rw [C11.stat_eq_lattice _ _ (by simp) (by simp)]
    simp [hTwoSided, devs, countLe]
    norm_num
  have hN : Nreal 9 6 = 3 / 2 := by unfold Nreal; norm_num
  obtain ⟨h1, h2, _, h4⟩ := kuiper_p_neg_base fact (num := 9) (den := 6) (by norm_num) (by norm_num) (by decide)
    (1 / 3) (by rw [hN]; norm_num)
  have hb : (1 / 3 : ℝ) - 1 / Nreal 9 6 = -(1 / 3) := by rw [hN]; norm_num
  refine ⟨by rw [kuiper_statistic_is_ks _ _ _ (by simp) (by simp), hs], h1, h2, hb, by rw [hN]; norm_num, ?_⟩
  rw [kuiper_p_wiring_real _ _ _ (by simp) (by simp), hs]
  show fpp fact (1 / 3) 9 6 = _
  rw [h4, hb, hN]
  norm_num

/-- the lattice constant `lcm(n, m)` of `C11.stat_eq_lattice` is positive -/
theorem lcm_pos' {n m : ℕ} (hn : 0 < n) (hm : 0 < m) : 0 < n * m / Nat.gcd n m :=
  Nat.div_pos (Nat.le_of_dvd (Nat.mul_pos hn hm) (Dvd.dvd.mul_right (Nat.gcd_dvd_left n m) m))
    (Nat.gcd_pos_of_pos_left m hn)

/-- **C12b (`kuiper_statistic_eq_V_iff`)** for all non-empty real samples the reported statistic is
`D = max(D⁺, D⁻) ≤ V = D⁺ + D⁻` (both in units of `1/lcm`), with equality exactly when one of the one-sided
deviations vanishes; whenever the two empirical CDFs cross, the detector under-reports Kuiper's statistic -/
theorem kuiper_statistic_eq_V_iff (fact : ℝ → ℝ) (ref test : List ℝ) (hr : ref ≠ []) (ht : test ≠ []) :
    let lcm : ℝ := ((ref.length * test.length / Nat.gcd ref.length test.length : ℕ) : ℝ)
    (kuiper fact ref test).1 ≤ (Tests2.kuiperV ref test : ℝ) / lcm ∧
    ((kuiper fact ref test).1 = (Tests2.kuiperV ref test : ℝ) / lcm ↔ (hPlus ref test = 0 ∨ hMinus ref test = 0)) := by
  intro lcm
  have hl : 0 < lcm := by
    simp only [lcm]; exact_mod_cast lcm_pos' (List.length_pos_iff.mpr hr) (List.length_pos_iff.mpr ht)
  rw [kuiper_statistic_is_ks fact ref test hr ht, C11.stat_eq_lattice ref test hr ht]
  constructor
  · apply div_le_div_of_nonneg_right _ hl.le
    exact_mod_cast (kuiper_ge_ks ref test).1
  · rw [div_left_inj' hl.ne', ← kuiper_eq_ks_iff]
    unfold Tests2.ksD
    constructor
    · intro h; exact_mod_cast h.symm
    · intro h; exact_mod_cast h.symm

/-- **C12b (`kuiper_statistic_is_ks_witness`)** crossing ECDFs, `ref = [1,4]`, `test = [2,3]`: the detector reports
`1/2` (the KS `D`); Kuiper's statistic is `V = D⁺ + D⁻ = 1/2 + 1/2 = 1` -/
theorem kuiper_statistic_is_ks_witness (fact : ℝ → ℝ) :
    (kuiper fact [(1 : ℝ), 4] [2, 3]).1 = 1 / 2 ∧ (Tests2.kuiperV [(1 : ℝ), 4] [2, 3] : ℝ) / 2 = 1 := by
  obtain ⟨_, _, hv, hk, _⟩ := kuiper_ne_ks_witness
  constructor
  · rw [kuiper_statistic_is_ks _ _ _ (by simp) (by simp), C11.stat_eq_lattice _ _ (by simp) (by simp)]
    have : hTwoSided [(1 : ℝ), 4] [2, 3] = 1 := hk
    rw [this]
    norm_num
  · rw [hv]; norm_num

end Detector

/-! ## F. the search bounds of the model (`floorNat`, `arangeFrom1`) are never reached -/
section Bounds

/-- `takeWhile (· < T)` on `s, s+1, …, s+n-1` -/
theorem takeWhile_range' (p : ℕ → Bool) (T : ℕ) (hp : ∀ t, p t = true ↔ t < T) (s n : ℕ) :
    (List.range' s n).takeWhile p = List.range' s (min n (T - s)) := by
  induction n generalizing s with
  | zero => simp
  | succ n ih =>
    rw [List.range'_succ, List.takeWhile_cons]
    by_cases h : s < T
    · rw [if_pos ((hp s).mpr h), ih (s + 1)]
      have : min (n + 1) (T - s) = min n (T - (s + 1)) + 1 := by omega
      rw [this, List.range'_succ]
    · have : p s = false := by rw [← Bool.not_eq_true, hp]; exact h
      rw [this]
      have : min (n + 1) (T - s) = 0 := by omega
      simp [this]

/-- **C12b (`floorNat_spec`)** `floorNat x bound = ⌊x⌋` whenever `⌊x⌋ ≤ bound` -/
theorem floorNat_spec (x : ℝ) (bound : ℕ) (hb : ⌊x⌋₊ ≤ bound) : floorNat x bound = ⌊x⌋₊ := by
  unfold floorNat
  rw [List.range_eq_range', takeWhile_range' _ ⌊x⌋₊ _ 0 bound, List.length_range']
  · omega
  · intro t
    rw [le_iff, ofNat_eq, ← Nat.le_floor_iff' (Nat.succ_ne_zero t)]
    exact Nat.succ_le_iff

/-- in the Stephens branch the bound `num / den = N` is large enough: `0 ≤ D` gives `⌊N(1−D)⌋ ≤ N` -/
theorem floorNat_stephens {num den : ℕ} (D : ℝ) (hD : 0 ≤ D) :
    floorNat (Nreal num den * (1 - D)) (num / den) = ⌊Nreal num den * (1 - D)⌋₊ := by
  apply floorNat_spec
  have h0 : 0 ≤ Nreal num den := by unfold Nreal; positivity
  have : Nreal num den * (1 - D) ≤ Nreal num den := by nlinarith
  calc ⌊Nreal num den * (1 - D)⌋₊ ≤ ⌊Nreal num den⌋₊ := Nat.floor_le_floor this
    _ = num / den := by unfold Nreal; exact Nat.floor_div_eq_div num den

/-- **C12b (`arangeFrom1_spec`)** `arangeFrom1 stop bound = [1, 2, …, ⌈stop⌉ − 1]` (= `np.arange(1, stop)`) whenever
that many elements fit under the bound -/
theorem arangeFrom1_spec (stop : ℝ) (bound : ℕ) (hb : ⌈stop⌉₊ - 1 ≤ bound) :
    arangeFrom1 stop bound = List.range' 1 (⌈stop⌉₊ - 1) := by
  unfold arangeFrom1
  have : (List.range bound).map (· + 1) = List.range' 1 bound := by
    rw [List.range'_eq_map_range]; congr 1; funext x; omega
  rw [this, takeWhile_range' _ ⌈stop⌉₊ _ 1 bound, min_eq_right hb]
  intro t
  rw [lt_iff, ofNat_eq, Nat.lt_ceil]

/-- **C12b (`arange_complete`)** in the fourth branch (`3 ≤ D·N`) the series really runs over all `m = 1, 2, … < 18.82/z`
(`z = D√N`): the model's bound `7·(⌊N⌋ + 1)` is never reached -/
theorem arange_complete {num den : ℕ} (hn : 0 < num) (hd : 0 < den) (D : ℝ) (h3 : 3 ≤ D * Nreal num den) :
    let stop : ℝ := (1882 : ℝ) / 10 ^ 2 / (D * Real.sqrt (Nreal num den))
    arangeFrom1 stop (7 * (num / den + 1)) = List.range' 1 (⌈stop⌉₊ - 1) := by
  intro stop
  apply arangeFrom1_spec
  have hN := Nreal_pos hn hd
  have hD : 0 < D := by
    by_contra h
    have : D * Nreal num den ≤ 0 := mul_nonpos_of_nonpos_of_nonneg (not_lt.mp h) hN.le
    linarith
  set N := Nreal num den with hNdef
  have hsq : 0 < Real.sqrt N := Real.sqrt_pos.mpr hN
  have hsq2 : Real.sqrt N * Real.sqrt N = N := Real.mul_self_sqrt hN.le
  -- z ≥ 3/√N
  have hz : 3 ≤ D * Real.sqrt N * Real.sqrt N := by rw [mul_assoc, hsq2]; exact h3
  have hzpos : 0 < D * Real.sqrt N := mul_pos hD hsq
  -- √N ≤ ⌊N⌋ + 1
  have hq : Real.sqrt N ≤ ((num / den + 1 : ℕ) : ℝ) := by
    have hfl : (num / den : ℕ) = ⌊N⌋₊ := by rw [hNdef]; unfold Nreal; exact (Nat.floor_div_eq_div num den).symm
    have hlt : N < ((num / den + 1 : ℕ) : ℝ) := by
      rw [hfl]; push_cast; exact Nat.lt_floor_add_one N
    have hq1 : (1 : ℝ) ≤ ((num / den + 1 : ℕ) : ℝ) := by push_cast; linarith [Nat.cast_nonneg (α := ℝ) (num / den)]
    rw [show ((num / den + 1 : ℕ) : ℝ) = Real.sqrt (((num / den + 1 : ℕ) : ℝ) ^ 2) from
      (Real.sqrt_sq (by linarith)).symm]
    apply Real.sqrt_le_sqrt
    nlinarith
  have hstop : stop ≤ ((7 * (num / den + 1) : ℕ) : ℝ) := by
    simp only [stop]
    rw [div_le_iff₀ hzpos]
    push_cast
    push_cast at hq
    nlinarith
  have : ⌈stop⌉₊ ≤ 7 * (num / den + 1) := Nat.ceil_le.mpr hstop
  omega

/-- the `stop` of `arange_complete` is the model's -/
theorem fppAsym_stop (D : ℝ) (num den : ℕ) :
    (Num.ofDec 1882 2 / (D * Num.sqrt (Num.ofNat num / Num.ofNat den : ℝ)) : ℝ)
      = (1882 : ℝ) / 10 ^ 2 / (D * Real.sqrt (Nreal num den)) := by
  simp [Nreal]

example : floorNat (7 / 2 : ℝ) 10 = 3 := by
  rw [floorNat_spec _ _ (by rw [show ⌊(7 / 2 : ℝ)⌋₊ = 3 from by rw [Nat.floor_eq_iff (by norm_num)]; norm_num]; norm_num)]
  rw [Nat.floor_eq_iff (by norm_num)]; norm_num

end Bounds

/-! ## G. a pinned value of the third branch: completely separated samples -/
section Separated

theorem isEvenInt_mul (k : ℕ) {den : ℕ} (hd : 0 < den) : isEvenInt (k * den) den = (k % 2 == 0) := by
  unfold isEvenInt; rw [isInt_mul, Nat.mul_div_cancel _ hd]; rfl
theorem isOddInt_mul (k : ℕ) {den : ℕ} (hd : 0 < den) : isOddInt (k * den) den = (k % 2 == 1) := by
  unfold isOddInt; rw [isInt_mul, Nat.mul_div_cancel _ hd]; rfl

/-- **C12b (`kuiper_p_separated`)** `D = 1` (the two samples do not overlap) with an integral effective size `N ≥ 3`
(e.g. `n = m ≥ 6`, `n = m` even): the third branch is taken, its sum has the single term `t = 0`, whose factor
`(1 − D − 0)^(N−1)` vanishes: the reported p-value is exactly `0` (observed on /repo for `[1..6]` vs `[7..12]`) -/
theorem kuiper_p_separated (fact : ℝ → ℝ) {den : ℕ} (hd : 0 < den) (k : ℕ) (hk : 3 ≤ k) :
    branch (1 : ℝ) (k * den) den = .stephens ∧ fpp fact 1 (k * den) den = 0 := by
  have hn : 0 < k * den := Nat.mul_pos (by omega) hd
  have hk0 : (0 : ℝ) < k := by exact_mod_cast (by omega : 0 < k)
  have hbr : branch (1 : ℝ) (k * den) den = .stephens := by
    rw [branch_stephens_iff hn hd, Nreal_mul k hd]
    refine ⟨by rw [one_mul]; exact_mod_cast hk, ?_⟩
    unfold StephensCond
    rw [isEvenInt_mul k hd, isOddInt_mul k hd, Nreal_mul k hd]
    rcases Nat.mod_two_eq_zero_or_one k with h | h
    · exact Or.inl ⟨by norm_num, by simp [h]⟩
    · refine Or.inr ⟨?_, by simp [h]⟩
      rw [div_lt_one (by positivity)]; linarith
  refine ⟨hbr, ?_⟩
  rw [fpp_eq_branch, hbr]
  have hN := Nreal_mul k hd
  unfold Nreal at hN
  have hT : floorNat ((k : ℝ) * (1 - 1)) (k * den / den) = 0 := by
    rw [floorNat_spec _ _ (by simp)]; simp
  show fppStephens 1 (k * den) den = 0
  unfold fppStephens
  simp only [one_eq, ofNat_eq, hN, hT]
  have hterm : stephensTerm (1 : ℝ) (k * den) den 0 = 0 := by
    unfold stephensTerm
    simp only [one_eq, ofNat_eq, hN, Nat.mul_div_cancel _ hd, Nat.cast_zero, zero_div, sub_self, sub_zero]
    have : ((k : ℤ) - 1) = ((k - 1 : ℕ) : ℤ) := by omega
    rw [this, ipow_nat, zero_pow (by omega)]
    simp
  simp [Kuiper.sum, hterm]

example : fpp realFact 1 (3 * 12) 12 = 0 := (kuiper_p_separated realFact (by norm_num) 3 (by norm_num)).2

end Separated

/-! ## H. the branch as a decision on INTEGERS (the statistic lives on the lattice `h / lcm(n, m)`), ties included -/
section Lattice
open Frouros.KS

/-- the branch of `_false_positive_probability` for samples of sizes `n`, `m` whose lattice statistic is `h`
(`D = h / lcm(n, m)`, `N = n·m/(n+m)`, hence `D·N = h·gcd(n, m)/(n+m)`), decided on natural numbers only -/
def branchLattice (n m h : ℕ) : Branch :=
  let g := Nat.gcd n m
  let L := Nat.lcm n m
  let s := n + m
  let N := n * m / s
  if h * g < 2 * s then .small
  else if h * g < 3 * s then .mid
  else if s ∣ n * m ∧ ((N % 2 = 0 ∧ L < 2 * h) ∨ (N % 2 = 1 ∧ N * L < 2 * N * h + L)) then .stephens
  else .asymptotic

/-- `D·N = h·gcd(n, m)/(n + m)` -/
theorem lattice_DN {n m : ℕ} (hn : 0 < n) (hm : 0 < m) (h : ℕ) :
    (h : ℝ) / (Nat.lcm n m : ℝ) * Nreal (n * m) (n + m) = ((h * Nat.gcd n m : ℕ) : ℝ) / ((n + m : ℕ) : ℝ) := by
  have hL : (0 : ℝ) < (Nat.lcm n m : ℝ) := by exact_mod_cast Nat.lcm_pos hn hm
  have hs : (0 : ℝ) < ((n + m : ℕ) : ℝ) := by exact_mod_cast (by omega : 0 < n + m)
  have hgl : ((n * m : ℕ) : ℝ) = (Nat.gcd n m : ℝ) * (Nat.lcm n m : ℝ) := by
    exact_mod_cast (Nat.gcd_mul_lcm n m).symm
  unfold Nreal
  rw [hgl]
  push_cast
  field_simp

/-- `D·N < c  ⇔  h·gcd < c·(n+m)` -/
theorem lattice_DN_lt {n m : ℕ} (hn : 0 < n) (hm : 0 < m) (h c : ℕ) :
    (h : ℝ) / (Nat.lcm n m : ℝ) * Nreal (n * m) (n + m) < c ↔ h * Nat.gcd n m < c * (n + m) := by
  have hs : (0 : ℝ) < ((n + m : ℕ) : ℝ) := by exact_mod_cast (by omega : 0 < n + m)
  rw [lattice_DN hn hm, div_lt_iff₀ hs]
  exact_mod_cast Iff.rfl

/-- `c ≤ D·N  ⇔  c·(n+m) ≤ h·gcd` -/
theorem lattice_DN_le {n m : ℕ} (hn : 0 < n) (hm : 0 < m) (h c : ℕ) :
    (c : ℝ) ≤ (h : ℝ) / (Nat.lcm n m : ℝ) * Nreal (n * m) (n + m) ↔ c * (n + m) ≤ h * Nat.gcd n m := by
  rw [← not_lt, lattice_DN_lt hn hm, Nat.not_lt]

/-- **C12b (`lattice_DN_eq`)** the ties: `D·N = c  ⇔  h·gcd(n, m) = c·(n+m)` -/
theorem lattice_DN_eq {n m : ℕ} (hn : 0 < n) (hm : 0 < m) (h c : ℕ) :
    (h : ℝ) / (Nat.lcm n m : ℝ) * Nreal (n * m) (n + m) = c ↔ h * Nat.gcd n m = c * (n + m) := by
  have hs : (0 : ℝ) < ((n + m : ℕ) : ℝ) := by exact_mod_cast (by omega : 0 < n + m)
  rw [lattice_DN hn hm, div_eq_iff hs.ne']
  exact_mod_cast Iff.rfl

/-- the condition of line 102 for an integral `N = k` and a lattice `D = h/L`, on integers
(`(k−1)/(2k) < h/L` is written `k·L < 2·k·h + L`: no truncated subtraction) -/
theorem stephensCond_int {den : ℕ} (hd : 0 < den) (k L h : ℕ) (hL : 0 < L) :
    StephensCond ((h : ℝ) / (L : ℝ)) (k * den) den ↔
      ((k % 2 = 0 ∧ L < 2 * h) ∨ (k % 2 = 1 ∧ k * L < 2 * k * h + L)) := by
  have hLR : (0 : ℝ) < (L : ℝ) := by exact_mod_cast hL
  unfold StephensCond
  rw [isEvenInt_mul k hd, isOddInt_mul k hd, Nreal_mul k hd]
  simp only [beq_iff_eq]
  have e1 : (1 / 2 < (h : ℝ) / (L : ℝ)) ↔ L < 2 * h := by
    rw [lt_div_iff₀ hLR]
    constructor
    · intro hh
      have : (L : ℝ) < 2 * (h : ℝ) := by linarith
      exact_mod_cast this
    · intro hh
      have : (L : ℝ) < 2 * (h : ℝ) := by exact_mod_cast hh
      linarith
  have e2 : k % 2 = 1 → ((((k : ℝ) - 1) / (2 * (k : ℝ)) < (h : ℝ) / (L : ℝ)) ↔ k * L < 2 * k * h + L) := by
    intro hk
    have hk0 : (0 : ℝ) < (k : ℝ) := by exact_mod_cast (by omega : 0 < k)
    rw [div_lt_div_iff₀ (by positivity) hLR]
    constructor
    · intro hh
      have : (k : ℝ) * (L : ℝ) < 2 * (k : ℝ) * (h : ℝ) + (L : ℝ) := by linarith
      exact_mod_cast this
    · intro hh
      have : (k : ℝ) * (L : ℝ) < 2 * (k : ℝ) * (h : ℝ) + (L : ℝ) := by exact_mod_cast hh
      linarith
  constructor
  · rintro (⟨h1, h2⟩ | ⟨h1, h2⟩)
    · exact Or.inl ⟨h2, e1.mp h1⟩
    · exact Or.inr ⟨h2, (e2 h2).mp h1⟩
  · rintro (⟨h1, h2⟩ | ⟨h1, h2⟩)
    · exact Or.inl ⟨e1.mpr h2, h1⟩
    · exact Or.inr ⟨(e2 h1).mpr h2, h1⟩

/-- for a non-integral `N` the condition of line 102 is false (`N % 2` is neither 0 nor 1) -/
theorem stephensCond_nonint (D : ℝ) {num den : ℕ} (hni : ¬ den ∣ num) : ¬ StephensCond D num den := by
  have hi : isInt num den = false := by
    rw [← Bool.not_eq_true, isInt_iff_dvd]; exact hni
  unfold StephensCond isEvenInt isOddInt
  simp [hi]

/-- the condition of line 102 on the lattice, on integers -/
theorem stephensCond_lattice {n m : ℕ} (hn : 0 < n) (hm : 0 < m) (h : ℕ) :
    StephensCond ((h : ℝ) / (Nat.lcm n m : ℝ)) (n * m) (n + m) ↔
      ((n + m) ∣ n * m ∧
        ((n * m / (n + m) % 2 = 0 ∧ Nat.lcm n m < 2 * h) ∨
         (n * m / (n + m) % 2 = 1 ∧ n * m / (n + m) * Nat.lcm n m < 2 * (n * m / (n + m)) * h + Nat.lcm n m))) := by
  have hs : 0 < n + m := by omega
  by_cases hdv : (n + m) ∣ n * m
  · obtain ⟨k, hk⟩ := hdv
    have hk' : n * m = k * (n + m) := by rw [hk, Nat.mul_comm]
    have hq : n * m / (n + m) = k := by rw [hk', Nat.mul_div_cancel _ hs]
    rw [hq, hk', stephensCond_int hs k _ h (Nat.lcm_pos hn hm)]
    exact ⟨fun hc => ⟨Dvd.intro_left k rfl, hc⟩, fun hc => hc.2⟩
  · exact ⟨fun hc => absurd hc (stephensCond_nonint _ hdv), fun hc => absurd hc.1 hdv⟩

/-- **C12b (`kuiper_branch_lattice`)** over ℝ, for all sample sizes `n, m ≥ 1` and every lattice value `h` of the statistic
(`D = h / lcm(n, m)`, which by `kuiper_statistic_eq_lattice` is what `KuiperTest` passes on): the branch of
`_false_positive_probability(D, N = n·m/(n+m))` is `branchLattice n m h`, a decision on natural numbers:

* `h·g < 2(n+m)`                     → first branch            (`D·N < 2`;  `g = gcd(n, m)`)
* `2(n+m) ≤ h·g < 3(n+m)`            → second branch           (`2 ≤ D·N < 3`)
* `3(n+m) ≤ h·g`, `(n+m) ∣ n·m`, and `lcm < 2h` (`N` even) resp. `N·lcm < 2·N·h + lcm` (`N` odd)  → Stephens' sum
* otherwise                          → asymptotic series.

All comparisons are the STRICT ones of the code, so the ties are decided: `h·g = 2(n+m)` is the second branch,
`h·g = 3(n+m)` the third/fourth, `lcm = 2h` (`D = ½`) and `N·lcm = 2·N·h + lcm` (`D = (N−1)/(2N)`) the fourth. -/
theorem kuiper_branch_lattice {n m : ℕ} (hn : 0 < n) (hm : 0 < m) (h : ℕ) :
    branch ((h : ℝ) / (Nat.lcm n m : ℝ)) (n * m) (n + m) = branchLattice n m h := by
  have hnm : 0 < n * m := Nat.mul_pos hn hm
  have hs : 0 < n + m := by omega
  have hlt := lattice_DN_lt hn hm h
  have hle := lattice_DN_le hn hm h
  unfold branchLattice
  simp only []
  split_ifs with h1 h2 h3
  · exact (branch_small_iff hnm hs _).mpr (by exact_mod_cast (hlt 2).mpr h1)
  · exact (branch_mid_iff hnm hs _).mpr
      ⟨by exact_mod_cast (hle 2).mpr (Nat.not_lt.mp h1), by exact_mod_cast (hlt 3).mpr h2⟩
  · exact (branch_stephens_iff hnm hs _).mpr
      ⟨by exact_mod_cast (hle 3).mpr (Nat.not_lt.mp h2), (stephensCond_lattice hn hm h).mpr h3⟩
  · exact (branch_asymptotic_iff hnm hs _).mpr
      ⟨by exact_mod_cast (hle 3).mpr (Nat.not_lt.mp h2), fun hc => h3 ((stephensCond_lattice hn hm h).mp hc)⟩

/-- **C12b (`kuiper_branch_detector`)** detector level, all non-empty real samples: the branch `KuiperTest._kuiper`
takes is `branchLattice |X| |Y| (hTwoSided X Y)`, and the reported p-value is that branch's formula -/
theorem kuiper_branch_detector (fact : ℝ → ℝ) (X Y : List ℝ) (hX : X ≠ []) (hY : Y ≠ []) :
    branch (kuiper fact X Y).1 (X.length * Y.length) (X.length + Y.length)
      = branchLattice X.length Y.length (hTwoSided X Y) ∧
    (kuiper fact X Y).2 = match branchLattice X.length Y.length (hTwoSided X Y) with
      | .small => fppSmall fact (kuiper fact X Y).1 (X.length * Y.length) (X.length + Y.length)
      | .mid => fppMid fact (kuiper fact X Y).1 (X.length * Y.length) (X.length + Y.length)
      | .stephens => fppStephens (kuiper fact X Y).1 (X.length * Y.length) (X.length + Y.length)
      | .asymptotic => fppAsym (kuiper fact X Y).1 (X.length * Y.length) (X.length + Y.length) := by
  have hb : branch (kuiper fact X Y).1 (X.length * Y.length) (X.length + Y.length)
      = branchLattice X.length Y.length (hTwoSided X Y) := by
    rw [kuiper_statistic_eq_lattice fact X Y hX hY]
    exact kuiper_branch_lattice (List.length_pos_iff.mpr hX) (List.length_pos_iff.mpr hY) _
  refine ⟨hb, ?_⟩
  rw [kuiper_p_wiring, fpp_eq_branch, hb]

/-- first branch, non-integral `N`: the value is literally `1 − factorial(N)·exp((N−1)·log(D − 1/N))` -/
theorem fppSmall_nonint (fact : ℝ → ℝ) {num den : ℕ} (hni : ¬ den ∣ num) (D : ℝ) :
    fppSmall fact D num den
      = 1 - fact (Nreal num den) * Real.exp ((Nreal num den - 1) * Real.log (D - 1 / Nreal num den)) := by
  have hi : isInt num den = false := by
    rw [← Bool.not_eq_true, isInt_iff_dvd]; exact hni
  unfold fppSmall powN
  rw [hi]
  simp only [Bool.false_eq_true, if_false, one_eq, ofNat_eq, exp_eq, log_eq, Nat.cast_one]
  rfl

/-- **C12b (`kuiper_tie_one`)** the tie `D·N = 1` (`h·gcd(n, m) = n + m`): the FIRST branch is taken and the base
`D − 1/N` of the power is EXACTLY 0.
* integral `N = k` (`n·m = k·(n+m)`): the power is the natural power `0^(k−1)`, the reported p-value is exactly `1` for
  `k ≥ 2` (and `1 − 1!·0^0 = 0` for `k = 1`, i.e. `n = m = 2`, `D = 1`).  At `Float` too: `h/lcm` and `1.0/k` are the
  correctly rounded values of the same rational, so the base is exactly `+0.0`.
* non-integral `N`: the code evaluates `0 ** (N−1)` as a floating-point power, the model as `exp((N−1)·log 0)`; the last
  conjunct exhibits that expression without evaluating `log 0` (`Real.log 0 = 0` is a junk value over ℝ; at `Float`
  `log 0 = −inf` and the value is `1 − factorial(N)·0 = 1` for `N > 1`).  At `Float` the base `D − 1.0/N` is
  `fl(h/lcm) − fl(1/fl(n·m/(n+m)))`, which is `0` or `±1 ulp` depending on the two roundings of `N`: `p = 1.0` or `NaN`
  (observed on /repo: `n = 3, m = 12, h = 5`: `1.0`; `n = 11, m = 22, h = 3`: `NaN`).  After the repair of the
  statistic the model evaluates the same float expression on the same operands as the code. -/
theorem kuiper_tie_one (fact : ℝ → ℝ) {n m : ℕ} (hn : 0 < n) (hm : 0 < m) (h : ℕ)
    (ht : h * Nat.gcd n m = n + m) :
    let D : ℝ := (h : ℝ) / (Nat.lcm n m : ℝ)
    branch D (n * m) (n + m) = .small ∧ D - 1 / Nreal (n * m) (n + m) = 0 ∧
    (∀ k, n * m = k * (n + m) → FactSpec fact → fpp fact D (n * m) (n + m) = if k = 1 then 0 else 1) ∧
    (¬ (n + m) ∣ n * m → fpp fact D (n * m) (n + m)
        = 1 - fact (Nreal (n * m) (n + m)) * Real.exp ((Nreal (n * m) (n + m) - 1) * Real.log (D - 1 / Nreal (n * m) (n + m)))) := by
  intro D
  have hnm : 0 < n * m := Nat.mul_pos hn hm
  have hs : 0 < n + m := by omega
  have hN := Nreal_pos hnm hs
  have hDN : D * Nreal (n * m) (n + m) = 1 := by
    have := (lattice_DN_eq hn hm h 1).mpr (by omega)
    exact_mod_cast this
  have hbase : D - 1 / Nreal (n * m) (n + m) = 0 := by
    rw [sub_eq_zero, eq_div_iff hN.ne']; exact hDN
  have hsmall : D * Nreal (n * m) (n + m) < 2 := by rw [hDN]; norm_num
  refine ⟨(branch_small_iff hnm hs D).mpr hsmall, hbase, ?_, ?_⟩
  · intro k hk hf
    have hk1 : 1 ≤ k := by
      rcases Nat.eq_zero_or_pos k with h0 | h0
      · rw [h0, Nat.zero_mul] at hk; omega
      · exact h0
    have hNk : Nreal (n * m) (n + m) = k := by rw [hk]; exact Nreal_mul k hs
    rw [small_of_lt_one hnm hs D hsmall]
    rw [hNk] at hbase
    rw [hk, fppSmall_int fact hf hs k hk1, hbase]
    by_cases h1 : k = 1
    · subst h1; simp
    · rw [if_neg h1, zero_pow (by omega)]; simp
  · intro hni
    rw [small_of_lt_one hnm hs D hsmall, fppSmall_nonint fact hni]

/-- **C12b (`kuiper_tie_two`)** the tie `D·N = 2` (`h·gcd(n, m) = 2(n+m)`) belongs to the SECOND branch (`D < 2.0/N` is
strict) -/
theorem kuiper_tie_two {n m : ℕ} (hn : 0 < n) (hm : 0 < m) (h : ℕ) (ht : h * Nat.gcd n m = 2 * (n + m)) :
    branch ((h : ℝ) / (Nat.lcm n m : ℝ)) (n * m) (n + m) = .mid := by
  rw [kuiper_branch_lattice hn hm]
  unfold branchLattice
  simp only []
  rw [if_neg (by omega), if_pos (by omega)]

/-- **C12b (`kuiper_tie_three`)** the tie `D·N = 3` (`h·gcd(n, m) = 3(n+m)`) is NOT in the second branch (`D < 3.0/N` is
strict): Stephens' sum or the asymptotic series, by the integer condition -/
theorem kuiper_tie_three {n m : ℕ} (hn : 0 < n) (hm : 0 < m) (h : ℕ) (ht : h * Nat.gcd n m = 3 * (n + m)) :
    branch ((h : ℝ) / (Nat.lcm n m : ℝ)) (n * m) (n + m) =
      if (n + m) ∣ n * m ∧
        ((n * m / (n + m) % 2 = 0 ∧ Nat.lcm n m < 2 * h) ∨
         (n * m / (n + m) % 2 = 1 ∧ n * m / (n + m) * Nat.lcm n m < 2 * (n * m / (n + m)) * h + Nat.lcm n m))
      then .stephens else .asymptotic := by
  rw [kuiper_branch_lattice hn hm]
  unfold branchLattice
  simp only []
  rw [if_neg (by omega), if_neg (by omega)]

/-- the ties of the Stephens condition on the lattice: `D = ½ ⇔ lcm = 2h`; for an integral odd… any `k ≥ 1`:
`D = (k−1)/(2k) ⇔ k·lcm = 2·k·h + lcm` -/
theorem lattice_half_eq {L : ℕ} (hL : 0 < L) (h : ℕ) : (h : ℝ) / (L : ℝ) = 1 / 2 ↔ L = 2 * h := by
  have hLR : (0 : ℝ) < (L : ℝ) := by exact_mod_cast hL
  rw [div_eq_iff hLR.ne']
  constructor
  · intro hh
    have : (L : ℝ) = 2 * (h : ℝ) := by linarith
    exact_mod_cast this
  · intro hh
    have : (L : ℝ) = 2 * (h : ℝ) := by exact_mod_cast hh
    linarith

theorem lattice_odd_eq {L : ℕ} (hL : 0 < L) (h k : ℕ) (hk : 0 < k) :
    (h : ℝ) / (L : ℝ) = ((k : ℝ) - 1) / (2 * (k : ℝ)) ↔ k * L = 2 * k * h + L := by
  have hLR : (0 : ℝ) < (L : ℝ) := by exact_mod_cast hL
  have hk0 : (0 : ℝ) < (k : ℝ) := by exact_mod_cast hk
  rw [div_eq_div_iff hLR.ne' (by positivity)]
  constructor
  · intro hh
    have : (k : ℝ) * (L : ℝ) = 2 * (k : ℝ) * (h : ℝ) + (L : ℝ) := by linarith
    exact_mod_cast this
  · intro hh
    have : (k : ℝ) * (L : ℝ) = 2 * (k : ℝ) * (h : ℝ) + (L : ℝ) := by exact_mod_cast hh
    linarith

/-- the oracle for the harness: `(n, m, h)` sits on a discontinuity of the p-value formula -/
def onTie (n m h : ℕ) : Bool :=
  let g := Nat.gcd n m
  let L := Nat.lcm n m
  let s := n + m
  let N := n * m / s
  h * g == s || h * g == 2 * s || h * g == 3 * s ||
    (decide (s ∣ n * m) && decide (3 * s ≤ h * g) &&
      ((N % 2 == 0 && L == 2 * h) || (N % 2 == 1 && N * L == 2 * N * h + L)))

/-- **C12b (`onTie_iff`)** `onTie n m h` says exactly that `(D, N) = (h/lcm, n·m/(n+m))` lies on one of the boundaries of
`_false_positive_probability`: `D·N ∈ {1, 2, 3}`, or (beyond `D·N ≥ 3`) `D = ½` with `N` an even integer, or
`D = (N−1)/(2N)` with `N` an odd integer -/
theorem onTie_iff {n m : ℕ} (hn : 0 < n) (hm : 0 < m) (h : ℕ) :
    onTie n m h = true ↔
      (let D : ℝ := (h : ℝ) / (Nat.lcm n m : ℝ)
       let N : ℝ := Nreal (n * m) (n + m)
       D * N = 1 ∨ D * N = 2 ∨ D * N = 3 ∨
       (3 ≤ D * N ∧ ((isEvenInt (n * m) (n + m) = true ∧ D = 1 / 2) ∨
                     (isOddInt (n * m) (n + m) = true ∧ D = (N - 1) / (2 * N))))) := by
  have hs : 0 < n + m := by omega
  have hL := Nat.lcm_pos hn hm
  have e1 := lattice_DN_eq hn hm h 1
  have e2 := lattice_DN_eq hn hm h 2
  have e3 := lattice_DN_eq hn hm h 3
  have l3 := lattice_DN_le hn hm h 3
  simp only [Nat.cast_one, Nat.cast_ofNat, Nat.one_mul] at e1 e2 e3 l3
  simp only [e1, e2, e3, l3]
  unfold onTie
  simp only [Bool.or_eq_true, Bool.and_eq_true, beq_iff_eq, decide_eq_true_eq]
  have key : (((n + m) ∣ n * m ∧ 3 * (n + m) ≤ h * Nat.gcd n m) ∧
        ((n * m / (n + m) % 2 = 0 ∧ Nat.lcm n m = 2 * h) ∨
         (n * m / (n + m) % 2 = 1 ∧ n * m / (n + m) * Nat.lcm n m = 2 * (n * m / (n + m)) * h + Nat.lcm n m))) ↔
      (3 * (n + m) ≤ h * Nat.gcd n m ∧
        ((isEvenInt (n * m) (n + m) = true ∧ (h : ℝ) / (Nat.lcm n m : ℝ) = 1 / 2) ∨
         (isOddInt (n * m) (n + m) = true ∧
            (h : ℝ) / (Nat.lcm n m : ℝ) = (Nreal (n * m) (n + m) - 1) / (2 * Nreal (n * m) (n + m))))) := by
    by_cases hdv : (n + m) ∣ n * m
    · obtain ⟨k, hk⟩ := hdv
      have hk' : n * m = k * (n + m) := by rw [hk, Nat.mul_comm]
      have hq : n * m / (n + m) = k := by rw [hk', Nat.mul_div_cancel _ hs]
      have hk0 : 0 < k := by
        rcases Nat.eq_zero_or_pos k with h0 | h0
        · rw [h0, Nat.zero_mul] at hk'
          have := Nat.mul_pos hn hm
          omega
        · exact h0
      rw [hq, hk', isEvenInt_mul k hs, isOddInt_mul k hs, Nreal_mul k hs, lattice_half_eq hL,
        lattice_odd_eq hL h k hk0]
      simp only [beq_iff_eq]
      constructor
      · rintro ⟨⟨_, h3⟩, hc⟩
        exact ⟨h3, hc.imp (fun a => ⟨a.1, a.2⟩) (fun a => ⟨a.1, a.2⟩)⟩
      · rintro ⟨h3, hc⟩
        exact ⟨⟨Dvd.intro_left k rfl, h3⟩, hc.imp (fun a => ⟨a.1, a.2⟩) (fun a => ⟨a.1, a.2⟩)⟩
    · have hi : isInt (n * m) (n + m) = false := by
        rw [← Bool.not_eq_true, isInt_iff_dvd]; exact hdv
      constructor
      · rintro ⟨⟨hd, _⟩, _⟩; exact absurd hd hdv
      · rintro ⟨_, hc⟩
        unfold isEvenInt isOddInt at hc
        simp [hi] at hc
  constructor
  · rintro (((h1 | h1) | h1) | h1)
    · exact Or.inl h1
    · exact Or.inr (Or.inl h1)
    · exact Or.inr (Or.inr (Or.inl h1))
    · exact Or.inr (Or.inr (Or.inr (key.mp h1)))
  · rintro (h1 | h1 | h1 | h1)
    · exact Or.inl (Or.inl (Or.inl h1))
    · exact Or.inl (Or.inl (Or.inr h1))
    · exact Or.inl (Or.inr h1)
    · exact Or.inr (key.mpr h1)

/-! non-vacuity and the reviewer's inputs, on integers -/
-- `ref = 0..13`, `test = ref + 5.5` (`n = m = 14`, `h = 6`): a DOUBLE tie, `D·N = 3` and `D = (N−1)/(2N) = 3/7`:
-- fourth branch (code: `p = 0.44467`)
example : branchLattice 14 14 6 = .asymptotic ∧ onTie 14 14 6 = true := by decide
-- `n = 11`, `m = 22`, `h = 3`: `D·N = 1`, `N = 22/3` not an integer
example : branchLattice 11 22 3 = .small ∧ onTie 11 22 3 = true ∧ ¬ (11 + 22) ∣ 11 * 22 := by decide
-- `n = 3`, `m = 12`, `h = 5`: `D·N = 1`
example : 5 * Nat.gcd 3 12 = 3 + 12 ∧ onTie 3 12 5 = true := by decide
-- `n = m = 4`, `h = 4` (`D = 1`, `N = 2`): `D·N = 2`, second branch;  `n = m = 12`, `h = 6`: `D = ½`, `N = 6`, `D·N = 3`
example : branchLattice 4 4 4 = .mid ∧ branchLattice 12 12 6 = .asymptotic ∧ branchLattice 12 12 7 = .stephens := by decide
-- a generic point: not a tie
example : onTie 10 15 7 = false ∧ branchLattice 10 15 7 = .small := by decide
-- separated samples of sizes 5 and 7 (`h = lcm = 35`): second branch, not a tie (the input with the NEGATIVE p-value)
example : branchLattice 5 7 35 = .mid ∧ onTie 5 7 35 = false := by decide

/-! ### detector-level tie witnesses (actual samples) -/

/-- `KS.devs` for samples of natural numbers (evaluated by `decide`) -/
def devsNat (a b : List ℕ) : List ℤ :=
  (a ++ b).map (fun z => (((a.filter (· ≤ z)).length : ℤ) * ((b.length / Nat.gcd a.length b.length : ℕ) : ℤ))
    - (((b.filter (· ≤ z)).length : ℤ) * ((a.length / Nat.gcd a.length b.length : ℕ) : ℤ)))

def hNat (a b : List ℕ) : ℕ := (devsNat a b).foldl (fun acc d => max acc d.natAbs) 0

theorem countLe_map_nat (f : ℕ → ℝ) (hf : StrictMono f) (l : List ℕ) (z : ℕ) :
    countLe (l.map f) (f z) = (l.filter (· ≤ z)).length := by
  unfold countLe
  rw [List.filter_map, List.length_map]
  congr 1
  apply List.filter_congr
  intro x _
  simp only [Function.comp]
  by_cases h : x ≤ z
  · simp [h, hf.le_iff_le]
  · simp [h, hf.le_iff_le]

/-- the lattice statistic of the images of two samples of naturals under a strictly increasing map is computed on the
naturals (`h` only depends on the order type of the pooled sample) -/
theorem hTwoSided_map (f : ℕ → ℝ) (hf : StrictMono f) (a b : List ℕ) :
    hTwoSided (a.map f) (b.map f) = hNat a b := by
  unfold hTwoSided hNat
  congr 1
  unfold devs devsNat
  simp only [List.length_map]
  rw [← List.map_append, List.map_map]
  apply List.map_congr_left
  intro z _
  simp only [Function.comp, countLe_map_nat f hf]
  push_cast
  rfl

theorem half_strictMono : StrictMono (fun k : ℕ => (k : ℝ) / 2) := by
  intro a b h
  have : (a : ℝ) < b := by exact_mod_cast h
  simp only; linarith

/-- **C12b (`kuiper_tie_three_witness`)** the reviewer's input: `ref = 0, 1, …, 13`, `test = ref + 5.5` (`n = m = 14`,
`N = 7`): `h = 6`, `D = 3/7`, a DOUBLE tie `D·N = 3` and `D = (N−1)/(2N)`.  Neither `D < 3.0/N` nor
`D > (N−1)/(2N)` holds: the code (and now the model) evaluates the ASYMPTOTIC series (observed on /repo: `p = 0.44467`;
the model before the repair passed `fl(max(cdf1 − cdf2)) = 0.4285714285714286 > fl(3/7)` and took Stephens' branch: `0.46986`). -/
theorem kuiper_tie_three_witness (fact : ℝ → ℝ) :
    let X : List ℝ := [0, 1, 2, 3, 4, 5, 6, 7, 8, 9, 10, 11, 12, 13]
    let Y : List ℝ := [11 / 2, 13 / 2, 15 / 2, 17 / 2, 19 / 2, 21 / 2, 23 / 2, 25 / 2, 27 / 2, 29 / 2, 31 / 2, 33 / 2,
      35 / 2, 37 / 2]
    hTwoSided X Y = 6 ∧ (kuiper fact X Y).1 = 3 / 7 ∧
    (3 / 7 : ℝ) * Nreal (14 * 14) (14 + 14) = 3 ∧
    (3 / 7 : ℝ) = (Nreal (14 * 14) (14 + 14) - 1) / (2 * Nreal (14 * 14) (14 + 14)) ∧
    branch (3 / 7 : ℝ) (14 * 14) (14 + 14) = .asymptotic ∧
    (kuiper fact X Y).2 = fppAsym (3 / 7 : ℝ) (14 * 14) (14 + 14) := by
  intro X Y
  have hX : X ≠ [] := by simp [X]
  have hY : Y ≠ [] := by simp [Y]
  have hh : hTwoSided X Y = 6 := by
    have h1 : X = [0, 2, 4, 6, 8, 10, 12, 14, 16, 18, 20, 22, 24, 26].map (fun k : ℕ => (k : ℝ) / 2) := by
      simp only [X, List.map]; norm_num
    have h2 : Y = [11, 13, 15, 17, 19, 21, 23, 25, 27, 29, 31, 33, 35, 37].map (fun k : ℕ => (k : ℝ) / 2) := by
      simp only [Y, List.map]; norm_num
    rw [h1, h2, hTwoSided_map _ half_strictMono]
    decide
  have hst : (kuiper fact X Y).1 = 3 / 7 := by
    rw [kuiper_statistic_eq_lattice fact X Y hX hY, hh]
    have : Nat.lcm X.length Y.length = 14 := by decide
    rw [this]; norm_num
  have hN : Nreal (14 * 14) (14 + 14) = 7 := by unfold Nreal; norm_num
  obtain ⟨hb, hp⟩ := kuiper_branch_detector fact X Y hX hY
  rw [hh] at hb hp
  have hbl : branchLattice X.length Y.length 6 = .asymptotic := by decide
  rw [hbl] at hb hp
  rw [hst] at hb hp
  exact ⟨hh, hst, by rw [hN]; norm_num, by rw [hN]; norm_num, hb, hp⟩

/-- **C12b (`kuiper_tie_two_witness`)** the tie `D·N = 2` on actual samples: `[1,2,3,4]` vs `[5,6,7,8]` (`D = 1`, `N = 2`):
the SECOND branch is taken (`1 < 2.0/2` is false) with `k = −½`, `r = ½`, `a = 1`, `b = 0`, and the reported p-value is
exactly `0` (observed on /repo: `(1.0, 0.0)`) -/
theorem kuiper_tie_two_witness (fact : ℝ → ℝ) (hf : FactSpec fact) :
    branch (1 : ℝ) (2 * 8) 8 = .mid ∧ kuiper fact [(1 : ℝ), 2, 3, 4] [5, 6, 7, 8] = (1, 0) := by
  have hX : [(1 : ℝ), 2, 3, 4] ≠ [] := by simp
  have hY : [(5 : ℝ), 6, 7, 8] ≠ [] := by simp
  have hh : hTwoSided [(1 : ℝ), 2, 3, 4] [5, 6, 7, 8] = 4 := by
    have h1 : [(1 : ℝ), 2, 3, 4] = [2, 4, 6, 8].map (fun k : ℕ => (k : ℝ) / 2) := by
      simp only [List.map]; norm_num
    have h2 : [(5 : ℝ), 6, 7, 8] = [10, 12, 14, 16].map (fun k : ℕ => (k : ℝ) / 2) := by
      simp only [List.map]; norm_num
    rw [h1, h2, hTwoSided_map _ half_strictMono]
    decide
  have hst : (kuiper fact [(1 : ℝ), 2, 3, 4] [5, 6, 7, 8]).1 = 1 := by
    rw [kuiper_statistic_eq_lattice fact _ _ hX hY, hh]
    have : Nat.lcm [(1 : ℝ), 2, 3, 4].length [(5 : ℝ), 6, 7, 8].length = 4 := by decide
    rw [this]; norm_num
  have hbr : branch (1 : ℝ) (2 * 8) 8 = .mid := by
    rw [branch_mid_iff (by norm_num) (by norm_num), Nreal_mul 2 (by norm_num)]; norm_num
  refine ⟨hbr, Prod.ext hst ?_⟩
  rw [kuiper_p_wiring, hst]
  show fpp fact 1 (2 * 8) 8 = 0
  rw [fpp_eq_branch, hbr]
  show fppMid fact 1 (2 * 8) 8 = 0
  rw [fppMid_unfold, Nreal_mul 2 (by norm_num)]
  simp only [powN_int _ 2 1 (by norm_num : 0 < 8) (by norm_num), powN_int _ 2 2 (by norm_num : 0 < 8) (by norm_num)]
  have hsq : Real.sqrt ((-(((2 : ℕ) : ℝ) * 1 - 1) / 2) ^ 2 - (((2 : ℕ) : ℝ) * 1 - 2) ^ 2 / 2) = 1 / 2 := by
    rw [show ((-(((2 : ℕ) : ℝ) * 1 - 1) / 2) ^ 2 - (((2 : ℕ) : ℝ) * 1 - 2) ^ 2 / 2) = (1 / 2 : ℝ) ^ 2 by norm_num]
    exact Real.sqrt_sq (by norm_num)
  have hf1 : fact (((2 : ℕ) : ℝ) - 1) = 1 := by
    have := hf 1
    rw [show (((2 : ℕ) : ℝ) - 1) = ((1 : ℕ) : ℝ) by norm_num, this]; norm_num
  rw [hsq, hf1]
  norm_num

/-- **C12b (`kuiper_tie_one_witness`)** the tie `D·N = 1` with a non-integral `N` on actual samples:
`[5.5, 6.5, 12.5]` vs `[1, …, 12]` (`n = 3`, `m = 12`, `N = 12/5`): `h = 5`, `D = 5/12 = 1/N`, first branch, and the
base of the fractional power is exactly `0` (observed on /repo: `(0.4166666666666667, 1.0)`; with the raw-difference
statistic the base is `−5.6e−17` and the value NaN) -/
theorem kuiper_tie_one_witness (fact : ℝ → ℝ) :
    let X : List ℝ := [11 / 2, 13 / 2, 25 / 2]
    let Y : List ℝ := [1, 2, 3, 4, 5, 6, 7, 8, 9, 10, 11, 12]
    hTwoSided X Y = 5 ∧ (kuiper fact X Y).1 = 5 / 12 ∧ Nreal (3 * 12) (3 + 12) = 12 / 5 ∧
    branch (5 / 12 : ℝ) (3 * 12) (3 + 12) = .small ∧ isInt (3 * 12) (3 + 12) = false ∧
    (5 / 12 : ℝ) - 1 / Nreal (3 * 12) (3 + 12) = 0 ∧
    (kuiper fact X Y).2 = 1 - fact (Nreal (3 * 12) (3 + 12)) *
      Real.exp ((Nreal (3 * 12) (3 + 12) - 1) * Real.log ((5 / 12 : ℝ) - 1 / Nreal (3 * 12) (3 + 12))) := by
  intro X Y
  have hX : X ≠ [] := by simp [X]
  have hY : Y ≠ [] := by simp [Y]
  have hh : hTwoSided X Y = 5 := by
    have h1 : X = [11, 13, 25].map (fun k : ℕ => (k : ℝ) / 2) := by
      simp only [X, List.map]; norm_num
    have h2 : Y = [2, 4, 6, 8, 10, 12, 14, 16, 18, 20, 22, 24].map (fun k : ℕ => (k : ℝ) / 2) := by
      simp only [Y, List.map]; norm_num
    rw [h1, h2, hTwoSided_map _ half_strictMono]
    decide
  have hst : (kuiper fact X Y).1 = 5 / 12 := by
    rw [kuiper_statistic_eq_lattice fact X Y hX hY, hh]
    have : Nat.lcm X.length Y.length = 12 := by decide
    rw [this]; norm_num
  obtain ⟨t1, t2, _, t4⟩ := kuiper_tie_one fact (n := 3) (m := 12) (by norm_num) (by norm_num) 5 (by decide)
  have hL : ((5 : ℕ) : ℝ) / ((Nat.lcm 3 12 : ℕ) : ℝ) = 5 / 12 := by
    have : Nat.lcm 3 12 = 12 := by decide
    rw [this]; norm_num
  simp only [hL] at t1 t2 t4
  refine ⟨hh, hst, by unfold Nreal; norm_num, t1, by decide, t2, ?_⟩
  rw [kuiper_p_wiring, hst]
  exact t4 (by decide)

end Lattice

/- UNPROVED (full statements; not attempted in the time box):
   (1) range on the rest of the first branch:
       theorem kuiper_p_small_range (hn : 0 < num) (hd : 0 < den) (D : ℝ) (h1 : 1 ≤ D * Nreal num den)
           (h2 : D * Nreal num den < 2) (hN1 : 1 ≤ Nreal num den) :
           0 ≤ fpp realFact D num den ∧ fpp realFact D num den ≤ 1
       (non-integral N: needs Γ(N+1) ≤ N^(N-1), i.e. bounds on `Real.Gamma` between integers; for N < 1 the exponent
       N − 1 is negative and the statement is FALSE near D = 1/N: the power blows up and the value is −∞-wards.)
   (1b) the missing half of `kuiper_p_mid_range_partial`, integral N:
       theorem kuiper_p_mid_range (fact) (hf : FactSpec fact) (hd : 0 < den) (k : ℕ) (hk : 1 ≤ k) (D : ℝ)
           (h2 : 2 ≤ D * k) (h3 : D * k < 3) : 0 ≤ fpp fact D (k * den) den
       (`0 ≤ p` says Stephens' exact CDF `(N−1)!·(h_{N−2}(a,b) − ab·h_{N−3}(a,b)) / N^(N−2)` (`h_j` the complete homogeneous
       polynomial, `a + b = D·N − 1`, `ab = (D·N − 2)²/2`) is ≤ 1; it is TIGHT at N = 3, D·N → 3, so no crude bound works:
       it needs monotonicity in `D·N` and `(N−1)!·(a^(N−1) + b^(N−1)) ≤ 2·N^(N−2)` at `a, b = 1 ± 1/√2`.)
   (1c) NEGATIVE witness, non-integral N (extends KF-C12-1; observed on /repo and on the Float model, not proved over ℝ:
       it needs 5-digit enclosures of `Real.Gamma (35/12)` and of three real powers):
       theorem kuiper_p_negative_witness :
           (kuiper realFact [(0 : ℝ), 1, 2, 3, 4] [10, 11, 12, 13, 14, 15, 16]).1 = 1 ∧
           (kuiper realFact [(0 : ℝ), 1, 2, 3, 4] [10, 11, 12, 13, 14, 15, 16]).2 < 0
       (`D = 1`, `N = 35/12`, second branch (`kuiper_branch_lattice`: `branchLattice 5 7 35 = .mid`); code: −5.0276e−4; also
       n = 4, m = 11: −6.3477e−4.  Of the 10 591 lattice points `(n, m, h)`, `n, m ≤ 25`, of the second branch these four
       (`{5,7}`, `{4,11}`, `h = lcm`) are the only ones outside [0, 1].)
   (2) range on the other branches:
       theorem kuiper_p_range (hn : 0 < num) (hd : 0 < den) (D : ℝ) (h2 : 2 ≤ D * Nreal num den) (hD : D ≤ 1) :
           0 ≤ fpp realFact D num den ∧ fpp realFact D num den ≤ 1
       (the Stephens sum and the truncated asymptotic series; the asymptotic series is known NOT to be a probability
       for moderate z — it is an approximation — so only a `_partial` with an error term can be true there.) -/

end Frouros.C12

section axioms
open Frouros.C12
#print axioms fpp_eq_branch
#print axioms branch_stephens_isInt
#print axioms kuiper_statistic_lattice
#print axioms kuiper_statistic_large
#print axioms kuiper_p_wiring
#print axioms branch_small_iff
#print axioms branch_mid_iff
#print axioms branch_stephens_iff
#print axioms branch_asymptotic_iff
#print axioms branch_small_of_small_N
#print axioms realFact_spec
#print axioms fppSmall_int
#print axioms kuiper_p_gt_one
#print axioms kuiper_p_small_int_range
#print axioms kuiper_p_small_int_le_one_iff
#print axioms kuiper_p_neg_base
#print axioms kuiper_p_neg_base_iff
#print axioms fppMid_domain
#print axioms fppMid_unfold
#print axioms kuiper_p_mid_range_partial
#print axioms kuiper_statistic_is_ks
#print axioms kuiper_statistic_eq_lattice
#print axioms kuiper_p_wiring_real
#print axioms ks_statistic_self
#print axioms kuiper_self_gt_one
#print axioms kuiper_self_neg_base
#print axioms kuiper_p_gt_one_witness
#print axioms kuiper_self_witness
#print axioms kuiper_p_nan_witness
#print axioms kuiper_statistic_eq_V_iff
#print axioms kuiper_statistic_is_ks_witness
#print axioms floorNat_spec
#print axioms floorNat_stephens
#print axioms arangeFrom1_spec
#print axioms arange_complete
#print axioms kuiper_p_separated
#print axioms lattice_DN
#print axioms lattice_DN_eq
#print axioms stephensCond_lattice
#print axioms kuiper_branch_lattice
#print axioms kuiper_branch_detector
#print axioms kuiper_tie_one
#print axioms kuiper_tie_two
#print axioms kuiper_tie_three
#print axioms onTie_iff
#print axioms hTwoSided_map
#print axioms kuiper_tie_one_witness
#print axioms kuiper_tie_two_witness
#print axioms kuiper_tie_three_witness
end axioms
