/-
  C16 on the OBJECT-LEVEL model `FrourosModel/Heap.lean`, third part: instance isolation as an EQUALITY OF RUNS
  for ANY NUMBER of detectors, of possibly DIFFERENT CLASSES (a `Sem` per detector), built from the same or from
  different configuration objects, under every interleaving.  (`C16c.run_equality`: two detectors of one class
  built from one configuration object.)

  About different classes: the semantics `Sem` is a parameter of the OPERATIONS (`newDetectorG`, `applyG`), not of
  the cell type `Obj D` — a detector cell does not record its class — so a family of detectors with a semantics
  per index is expressible without changing the model: `applyAt sem det h (i, op) = applyG true (sem i) (det i) h op`.

  Layers:
  * section 1 (invariant level): an arbitrary index type `ι` (finite or not), `det : ι → Ref`, `sem : ι → Sem D V R`;
    pairwise separation `PSep` + every detector represented (`HeapLocal.Rep`)  ⟹  run equality for every schedule
    `σ : List (ι × SOp V)` and every index (`run_equality_family`);
  * section 2: one more constructor call keeps the invariant (`Inv0.extend`), hypotheses on the configuration in
    the INITIAL store and on the callbacks argument in the CURRENT store;
  * section 3: `run_equality_separate_cfg` (two detectors, two classes, two configurations);
  * section 4: `run_equality_n` (a list of `k` constructor calls `(class, configuration, callbacks)`).
-/
import FrourosProofs.Props.C16c
namespace Frouros.C16d
open Frouros.Heap Frouros.C16b Frouros.C16c

variable {D V R : Type}

/-! ## 1. Families of detectors: invariant level -/

section family
variable {ι : Type} [DecidableEq ι]

/-- an operation addressed to detector `e.1` of the family, executed with the semantics of ITS class -/
def applyAt (sem : ι → Sem D V R) (det : ι → Ref) (h : Heap D) (e : ι × SOp V) : Option (Heap D) :=
  applyG true (sem e.1) (det e.1) h e.2

/-- the operations of a schedule addressed to detector `i`, in order -/
def opsAt (i : ι) (σ : List (ι × SOp V)) : List (SOp V) :=
  (σ.filter (fun e => e.1 = i)).map (·.2)

/-- **pairwise separation**: for any two different indices, everything reachable from the one detector is
allocated and outside the write footprint of the other (`C16b.Sep`, in both directions since `i`, `j` range over
all ordered pairs) -/
def PSep (h : Heap D) (det : ι → Ref) : Prop := ∀ i j, i ≠ j → Sep h (det i) (det j)

/-- a step of `d`, separated from `dj` and from `dl`, keeps `dj` and `dl` separated from each other -/
theorem sep_step_third {h h' : Heap D} {d dj dl : Ref} (sj : Sep h d dj) (sl : Sep h d dl) (sjl : Sep h dj dl)
    (hst : Step d h h') : Sep h' dj dl := by
  obtain ⟨fj, _, _⟩ := sep_step sj hst
  obtain ⟨_, rl, _⟩ := sep_step sl hst
  exact ⟨fun r hr => Nat.lt_of_lt_of_le (sjl.alloc r ((rl r).mp hr)) hst.len,
    fun r hr hf => sjl.disj r ((rl r).mp hr) (foot_of_frame fj hf)⟩

/-- one operation of any detector of the family: pairwise separation is kept, and no cell reachable from any
OTHER detector changes -/
theorem psep_applyAt {sem : ι → Sem D V R} {det : ι → Ref} {h h' : Heap D} (hs : PSep h det) (e : ι × SOp V)
    (hop : applyAt sem det h e = some h') :
    PSep h' det ∧ ∀ j, j ≠ e.1 → ∀ r, Reach h (det j) r → read h' r = read h r := by
  obtain ⟨k, op⟩ := e
  have hst : Step (det k) h h' := apply_step (S := sem k) (op := op) hop
  refine ⟨fun i j hij => ?_, fun j hj => (sep_step (hs k j (Ne.symm hj)) hst).1⟩
  by_cases hi : i = k
  · rw [hi]; rw [hi] at hij
    exact (sep_step (hs k j hij) hst).2.2
  · by_cases hj : j = k
    · rw [hj]
      exact sep_step_other (hs i k hi) (hs k i (Ne.symm hi)) hst
    · exact sep_step_third (hs k i (Ne.symm hi)) (hs k j (Ne.symm hj)) (hs i j hij) hst

/-- **a detector in ANY interleaving with any number of others**, pairwise separated: after any schedule it
represents the state of the pure machine OF ITS CLASS run on ITS OWN operations only -/
theorem family_rep {sem : ι → Sem D V R} {det : ι → Ref} (i : ι) (σ : List (ι × SOp V)) {h ha : Heap D}
    {L : Layout} {a : AState D} (hs : PSep h det) (R : Rep h (det i) L a)
    (hrun : runOps (applyAt sem det) h σ = some ha) :
    ∃ L', Rep ha (det i) L' (arun (sem i) a (opsAt i σ)) ∧ PSep ha det := by
  induction σ generalizing h L a with
  | nil =>
    simp only [runOps, Option.some.injEq] at hrun
    subst hrun
    exact ⟨L, R, hs⟩
  | cons e σ ih =>
    simp only [runOps] at hrun
    split at hrun
    · next h1 hop =>
      obtain ⟨hs1, hfr⟩ := psep_applyAt hs e hop
      obtain ⟨k, op⟩ := e
      by_cases hk : k = i
      · subst hk
        obtain ⟨h1', mref', hop', _, R1⟩ := R.apply (S := sem k) op
        have : h1' = h1 := by
          have e1 : applyAt sem det h (k, op) = applyG true (sem k) (det k) h op := rfl
          rw [e1, hop'] at hop
          exact Option.some.inj hop
        subst this
        have hops : opsAt k ((k, op) :: σ) = op :: opsAt k σ := by simp [opsAt]
        rw [hops]
        exact ih hs1 R1 hrun
      · have R1 : Rep h1 (det i) L a := R.frame (hfr i (fun e => hk e.symm))
        have hops : opsAt i ((k, op) :: σ) = opsAt i σ := by simp [opsAt, hk]
        rw [hops]
        exact ih hs1 R1 hrun
    · exact absurd hrun (by simp)

/-- **no schedule raises**: represented, pairwise separated detectors accept every schedule -/
theorem family_total {sem : ι → Sem D V R} {det : ι → Ref} (σ : List (ι × SOp V)) {h : Heap D}
    (hs : PSep h det) (hR : ∀ i, ∃ L a, Rep h (det i) L a) :
    ∃ ha, runOps (applyAt sem det) h σ = some ha := by
  induction σ generalizing h with
  | nil => exact ⟨h, rfl⟩
  | cons e σ ih =>
    obtain ⟨k, op⟩ := e
    obtain ⟨L, a, Rk⟩ := hR k
    obtain ⟨h1, mref', hop, _, Rk'⟩ := Rk.apply (S := sem k) op
    have hop' : applyAt sem det h (k, op) = some h1 := hop
    obtain ⟨hs1, hfr⟩ := psep_applyAt hs (k, op) hop'
    obtain ⟨ha, hrun⟩ := ih hs1 (fun j => by
      by_cases hj : j = k
      · subst hj; exact ⟨_, _, Rk'⟩
      · obtain ⟨Lj, aj, Rj⟩ := hR j
        exact ⟨Lj, aj, Rj.frame (hfr j hj)⟩)
    exact ⟨ha, by simp only [runOps, hop']; exact hrun⟩

/-- **run equality for a family** (C16, object level, invariant form).  ANY family of detector objects
`det : ι → Ref` (any index type: any number of instances), detector `i` operated with the semantics `sem i` of its
own class, such that in the store `h` every detector is a well-formed detector object with its cells (`Rep`) and
the detectors are pairwise separated.  Then for EVERY schedule `σ` of `update`/`reset` calls addressed to any of
them in any order, and for EVERY index `i`:
* the interleaved run does not raise, nor does the run of detector `i`'s own operations ALONE from `h`;
* the observable projection `view` of detector `i` is defined and THE SAME after both runs. -/
theorem run_equality_family {sem : ι → Sem D V R} {det : ι → Ref} {h : Heap D}
    (hs : PSep h det) (hR : ∀ i, ∃ L a, Rep h (det i) L a) (σ : List (ι × SOp V)) (i : ι) :
    ∃ ha hb vw, runOps (applyAt sem det) h σ = some ha ∧
      runOps (applyG true (sem i) (det i)) h (opsAt i σ) = some hb ∧
      view ha (det i) = some vw ∧ view hb (det i) = some vw := by
  obtain ⟨ha, hrun⟩ := family_total (sem := sem) σ hs hR
  obtain ⟨L, a, Ri⟩ := hR i
  obtain ⟨La, Ra, _⟩ := family_rep i σ hs Ri hrun
  obtain ⟨hb, Lb, hrunb, Rb⟩ := alone_rep (S := sem i) (opsAt i σ) Ri
  exact ⟨ha, hb, _, hrun, hrunb, Ra.view, Rb.view⟩

/-- the same, naming the value: the projection after the interleaved run is the one of the PURE machine of the
detector's class (`HeapLocal.astep`) run on the detector's own operations from its abstract state in `h` — a
function of that state and of the detector's own stream only -/
theorem run_pure_family {sem : ι → Sem D V R} {det : ι → Ref} {h : Heap D}
    (hs : PSep h det) (hR : ∀ i, ∃ L a, Rep h (det i) L a) (σ : List (ι × SOp V)) (i : ι)
    {L : Layout} {a : AState D} (Ri : Rep h (det i) L a) :
    ∃ ha, runOps (applyAt sem det) h σ = some ha ∧
      view ha (det i) = some ⟨(arun (sem i) a (opsAt i σ)).own, (arun (sem i) a (opsAt i σ)).vars,
        (arun (sem i) a (opsAt i σ)).model.map some, (arun (sem i) a (opsAt i σ)).cbs.map (fun k => some k.2)⟩ := by
  obtain ⟨ha, hrun⟩ := family_total (sem := sem) σ hs hR
  obtain ⟨La, Ra, _⟩ := family_rep i σ hs Ri hrun
  exact ⟨ha, hrun, Ra.view⟩

end family

/-! ## 2. One more constructor call keeps the invariant -/

theorem read_of_lt {h : Heap D} {r : Ref} (hr : r < h.length) : ∃ o, read h r = some o :=
  ⟨h[r], by unfold Heap.read; exact List.getElem?_eq_getElem hr⟩

/-- the write footprint of a represented detector: the detector object, its own containers, its own model
copy, its callback objects -/
theorem rep_foot {h : Heap D} {d r : Ref} {L : Layout} {a : AState D} (R : Rep h d L a) (hf : Foot h d r) :
    r = d ∨ r = L.vars ∨ L.model = some r ∨ r ∈ L.items := by
  obtain ⟨x, hx, hc⟩ := hf
  rw [getDet_eq_some, R.hd] at hx
  cases hx
  rcases hc with e | e | e | ⟨items', hl, hm⟩
  · exact Or.inl e
  · exact Or.inr (Or.inl e)
  · exact Or.inr (Or.inr (Or.inl e))
  · rw [getList_eq_some, R.hlist] at hl
    cases hl
    exact Or.inr (Or.inr (Or.inr hm))

/-- nothing reachable from a represented detector dangles -/
theorem rep_alloc {h : Heap D} {d : Ref} {L : Layout} {a : AState D} (R : Rep h d L a) :
    ∀ r, Reach h d r → r < h.length := by
  intro r hr
  rcases R.cell_read (R.reach_cell hr) with ⟨_, cb, hcb⟩ | ⟨o, ho, _⟩
  · exact read_lt hcb
  · exact read_lt ho

/-- separation only looks at the cells reachable from the two detectors -/
theorem sep_frame {h h' : Heap D} {d1 d2 : Ref} (s : Sep h d1 d2) (hlen : h.length ≤ h'.length)
    (f1 : ∀ r, Reach h d1 r → read h' r = read h r) (f2 : ∀ r, Reach h d2 r → read h' r = read h r) :
    Sep h' d1 d2 := by
  have hre := reach_frame f2
  exact ⟨fun r hr => Nat.lt_of_lt_of_le (s.alloc r ((hre r).mp hr)) hlen,
    fun r hr hf => s.disj r ((hre r).mp hr) (foot_of_frame f1 hf)⟩

/-- a constructor argument designates one list of callback objects -/
theorem argItems_unique {h : Heap D} {arg : CbArg} {i1 i2 : List Ref} (h1 : ArgItems h arg i1)
    (h2 : ArgItems h arg i2) : i1 = i2 := by
  cases arg with
  | none => exact h1.trans h2.symm
  | single c => exact h1.trans h2.symm
  | list l =>
    have e1 : getList h l = some i1 := h1
    have e2 : getList h l = some i2 := h2
    rw [e1] at e2
    exact Option.some.inj e2

/-- the current store `h` against the INITIAL store `h0` (the one in which the first constructor ran): the store
has only grown, every cell of `h0` that is not a callback object is unchanged, callback objects are still
callback objects (constructors only set back-references) -/
structure Ext (h0 h : Heap D) : Prop where
  len : h0.length ≤ h.length
  keep : ∀ r o, read h0 r = some o → (∀ cb, o ≠ .callback cb) → read h r = some o
  cb : ∀ r cb0, read h0 r = some (.callback cb0) → ∃ cb, read h r = some (.callback cb)

theorem Ext.refl (h : Heap D) : Ext h h :=
  ⟨Nat.le_refl _, fun _ _ hr _ => hr, fun _ cb0 hr => ⟨cb0, hr⟩⟩

theorem Ext.newDetector {S : Sem D V R} {h0 h h' : Heap D} {cfg d : Ref} {arg : CbArg} (E : Ext h0 h)
    (hnew : newDetector S h cfg arg = some (d, h')) : Ext h0 h' := by
  obtain ⟨sc, cm, cbs, items, vars, model, B⟩ := newDetectorG_spec hnew
  obtain ⟨_, hcbs⟩ := newDetectorG_extra hnew
  refine ⟨Nat.le_trans E.len B.len, fun r o hr hn => ?_, fun r cb0 hr => ?_⟩
  · have h1 := E.keep r o hr hn
    rw [B.frame r (read_lt h1) (fun hm => by
      obtain ⟨_, ⟨cb0, e⟩, _⟩ := B.hitems r hm
      rw [h1] at e; cases e; exact hn _ rfl)]
    exact h1
  · obtain ⟨cb, hcb⟩ := E.cb r cb0 hr
    rcases hcbs r cb hcb with e | e
    · exact ⟨_, e⟩
    · exact ⟨_, e⟩

/-- a callbacks argument that designates objects of the initial store designates the same objects later -/
theorem Ext.argItems {h0 h : Heap D} (E : Ext h0 h) {arg : CbArg} {items : List Ref} (ha : ArgItems h0 arg items) :
    ArgItems h arg items := by
  cases arg with
  | none => exact ha
  | single c => exact ha
  | list l =>
    have e : getList h0 l = some items := ha
    show getList h l = some items
    exact getList_eq_some.mpr (E.keep l _ (getList_eq_some.mp e) (by intro cb e; cases e))

/-- the configuration handed to a successful constructor call, if its references did not dangle in the INITIAL
store: what it reaches in the current store are cells of the initial store, namely the configuration object itself
and its model object (a `data` cell) -/
theorem cfg_cells {S : Sem D V R} {h0 h h' : Heap D} {cfg d : Ref} {arg : CbArg} (E : Ext h0 h)
    (hnew : newDetector S h cfg arg = some (d, h')) (hwf : ∀ r, Reach h0 cfg r → r < h0.length) :
    ∀ r, Reach h cfg r → r < h0.length ∧
      ((∃ sc cm, read h r = some (.config sc cm)) ∨ ∃ p, read h r = some (.data p)) := by
  obtain ⟨sc, cm, cbs, items, vars, model, B⟩ := newDetectorG_spec hnew
  have hc := getCfg_eq_some.mp B.hcfg
  have hc_lt : cfg < h0.length := hwf cfg (Reach.refl _)
  have hc0 : read h0 cfg = some (.config sc cm) := by
    obtain ⟨o, ho⟩ := read_of_lt hc_lt
    by_cases hcb : ∃ cb, o = .callback cb
    · obtain ⟨cb0, rfl⟩ := hcb
      obtain ⟨cb, e⟩ := E.cb cfg cb0 ho
      rw [hc] at e; cases e
    · have := E.keep cfg o ho (fun cb e => hcb ⟨cb, e⟩)
      rw [hc] at this; cases this; exact ho
  have hm : ∀ m, cm = some m → m < h0.length ∧ ∃ p, read h m = some (.data p) := by
    intro m e
    have hml : m < h0.length := hwf m (Reach.edge hc0 (by simp [edges, e]))
    refine ⟨hml, ?_⟩
    rcases B.hmodel with ⟨e1, _⟩ | ⟨m', e1, ⟨hcp, _⟩ | ⟨_, p, mr, hp, _⟩⟩
    · rw [e1] at e; cases e
    · cases hcp
    · rw [e1] at e; cases e
      refine ⟨p, ?_⟩
      rw [← B.frame m (Nat.lt_of_lt_of_le hml E.len) (fun hmi => by
        obtain ⟨_, _, cb, hcb, _⟩ := B.hitems m hmi
        rw [hp] at hcb; cases hcb)]
      exact hp
  intro r hr
  have hcases : r = cfg ∨ cm = some r := by
    refine Reach.subset (P := fun r => r = cfg ∨ cm = some r) ?_ hr (Or.inl rfl)
    intro x o y hx hxo hy
    rcases hx with hx | hx
    · rw [hx, hc] at hxo; cases hxo
      right
      cases hcm : cm with
      | none => rw [hcm] at hy; cases hy
      | some m => rw [hcm] at hy; simp only [edges, Option.toList, List.mem_singleton] at hy; rw [hy]
    · obtain ⟨_, p, hp⟩ := hm x hx
      rw [hp] at hxo; cases hxo; cases hy
  rcases hcases with e | e
  · rw [e]; exact ⟨hc_lt, Or.inl ⟨sc, cm, hc⟩⟩
  · obtain ⟨hl, p, hp⟩ := hm r e
    exact ⟨hl, Or.inr ⟨p, hp⟩⟩

/-- **the invariant of a store with a list of detectors built one after another from the initial store `h0`**:
`used` is the set of callback objects handed to the constructors so far.
* the detectors are pairwise separated (both directions);
* every detector is represented (`Rep`), its own containers and its own model copy were allocated AFTER `h0`, and
  its callback objects are among the `used` ones. -/
structure Inv0 (h0 h : Heap D) (ds : List Ref) (used : Ref → Prop) : Prop where
  ext : Ext h0 h
  sep : ds.Pairwise (fun a b => Sep h a b ∧ Sep h b a)
  reps : ∀ d ∈ ds, ∃ L a, Rep h d L a ∧ h0.length ≤ L.vars ∧ (∀ m, L.model = some m → h0.length ≤ m) ∧
    ∀ c ∈ L.items, used c

theorem Inv0.nil (h0 : Heap D) : Inv0 h0 h0 [] (fun _ => False) :=
  ⟨Ext.refl h0, List.Pairwise.nil, fun d hd => by cases hd⟩

/-- **one more detector, of any class, from any configuration object** (the same as an earlier one or not).
Hypotheses: the constructor call succeeds in the current store; (`hwf`) the references below its configuration
object do not dangle in the INITIAL store (cf. `C16b.isolation_dangling_witness`); the callback objects handed
over — `items`, read off the argument in the CURRENT store — are pairwise distinct (`hnd`) and none of them was
handed to an earlier constructor (`hfresh`, cf. `C16c.run_equality_sharedCallbacks_witness`). -/
theorem Inv0.extend {S : Sem D V R} {h0 h h' : Heap D} {ds : List Ref} {used : Ref → Prop} {cfg d : Ref}
    {arg : CbArg} {items : List Ref} (I : Inv0 h0 h ds used)
    (hnew : newDetector S h cfg arg = some (d, h'))
    (hwf : ∀ r, Reach h0 cfg r → r < h0.length)
    (harg : ArgItems h arg items) (hnd : items.Nodup) (hfresh : ∀ c ∈ items, ¬ used c) :
    Inv0 h0 h' (ds ++ [d]) (fun c => used c ∨ c ∈ items) := by
  obtain ⟨sc, cm, cbs, bitems, vars, model, B⟩ := newDetectorG_spec hnew
  have hbi : bitems = items := argItems_unique B.arg_items harg
  subst hbi
  have hcfgc := cfg_cells I.ext hnew hwf
  have hwf' : ∀ r, Reach h cfg r → r < h.length :=
    fun r hr => Nat.lt_of_lt_of_le (hcfgc r hr).1 I.ext.len
  have hnd' : ∀ its, ArgItems h arg its → its.Nodup := fun its e => argItems_unique harg e ▸ hnd
  obtain ⟨L, sc', cm', ks, _, _, hLitems, _, _, Rnew⟩ := newDetector_rep hnew hwf' hnd'
  have hLi : L.items = bitems := argItems_unique hLitems harg
  -- the new detector against every existing one
  have key : ∀ d0 ∈ ds, (∀ r, Reach h d0 r → read h' r = read h r) ∧ Sep h' d d0 ∧ Sep h' d0 d := by
    intro d0 hd0
    obtain ⟨L0, a0, R0, hv0, hm0, hu0⟩ := I.reps d0 hd0
    refine newDetector_sep hnew d0 (rep_alloc R0) ?_ ?_ ?_
    · intro its hits c hc hr
      have := argItems_unique hits harg
      subst this
      obtain ⟨_, ⟨cb0, hcb0⟩, _⟩ := B.hitems c hc
      rcases R0.cell_read (R0.reach_cell hr) with ⟨hm, _⟩ | ⟨o, ho, hn⟩
      · exact hfresh c hc (hu0 c hm)
      · rw [hcb0] at ho; cases ho; exact hn _ rfl
    · intro r hr hf
      obtain ⟨hlt, htype⟩ := hcfgc r hr
      rcases rep_foot R0 hf with e | e | e | e
      · rw [e, R0.hd] at htype
        rcases htype with ⟨sc1, cm1, e1⟩ | ⟨p, e1⟩ <;> cases e1
      · rw [e] at hlt; exact absurd hlt (Nat.not_lt.mpr hv0)
      · exact absurd hlt (Nat.not_lt.mpr (hm0 r e))
      · obtain ⟨k, _, hk⟩ := R0.item e
        rw [hk] at htype; unfold cbCell at htype
        rcases htype with ⟨sc1, cm1, e1⟩ | ⟨p, e1⟩ <;> cases e1
    · intro l hl hf
      subst hl
      have hll : read h l = some (.list bitems) := getList_eq_some.mp harg
      rcases rep_foot R0 hf with e | e | e | e
      · rw [e, R0.hd] at hll; cases hll
      · rw [e, R0.hvars] at hll; cases hll
      · rcases R0.hmodel with ⟨e1, _⟩ | ⟨m, p, e1, _, e3, _⟩
        · rw [e1] at e; cases e
        · rw [e1] at e; cases e; rw [e3] at hll; cases hll
      · obtain ⟨k, _, hk⟩ := R0.item e
        rw [hk] at hll; unfold cbCell at hll; cases hll
  have hfr0 : ∀ d0 ∈ ds, ∀ r, Reach h d0 r → read h' r = read h r := fun d0 hd0 => (key d0 hd0).1
  refine ⟨I.ext.newDetector hnew, ?_, ?_⟩
  · rw [List.pairwise_append]
    refine ⟨List.Pairwise.imp_of_mem (fun ha hb s => ?_) I.sep, List.pairwise_singleton _ _, ?_⟩
    · exact ⟨sep_frame s.1 B.len (hfr0 _ ha) (hfr0 _ hb), sep_frame s.2 B.len (hfr0 _ hb) (hfr0 _ ha)⟩
    · intro a ha b hb
      rw [List.mem_singleton] at hb
      subst hb
      exact ⟨(key a ha).2.2, (key a ha).2.1⟩
  · intro x hx
    rcases List.mem_append.mp hx with hx | hx
    · obtain ⟨L0, a0, R0, hv0, hm0, hu0⟩ := I.reps x hx
      exact ⟨L0, a0, R0.frame (hfr0 x hx), hv0, hm0, fun c hc => Or.inl (hu0 c hc)⟩
    · rw [List.mem_singleton] at hx
      subst hx
      have e := Rnew.hd
      rw [B.hd] at e
      have e' := Obj.detector.inj (Option.some.inj e)
      have ev : vars = L.vars := congrArg Det.vars e'
      have em : model = L.model := congrArg Det.model e'
      refine ⟨L, _, Rnew, ?_, ?_, fun c hc => Or.inr (hLi ▸ hc)⟩
      · rw [← ev]; exact Nat.le_trans I.ext.len B.vars_fresh
      · intro m hm
        rw [← em] at hm
        rcases B.hmodel with ⟨_, e2⟩ | ⟨m', _, ⟨hcp, _⟩ | ⟨_, p, mr, _, e3, hge, _⟩⟩
        · rw [e2] at hm; cases hm
        · cases hcp
        · rw [e3] at hm; cases hm; exact Nat.le_trans I.ext.len hge

/-! ## 3. Two detectors, two classes, two configuration objects -/

/-- an operation addressed to the first (`false`, class `S1`) or to the second (`true`, class `S2`) detector -/
def applyTo2 (S1 S2 : Sem D V R) (d1 d2 : Ref) (h : Heap D) (e : Bool × SOp V) : Option (Heap D) :=
  applyG true (if e.1 then S2 else S1) (if e.1 then d2 else d1) h e.2

/-- with one class it is `Heap.applyTo` -/
theorem applyTo2_same (S : Sem D V R) (d1 d2 : Ref) : applyTo2 S S d1 d2 = applyTo S d1 d2 := by
  funext h e
  obtain ⟨b, op⟩ := e
  cases b <;> rfl

theorem opsAt_bool (b : Bool) (σ : List (Bool × SOp V)) : opsAt b σ = opsOf b σ := by
  unfold opsAt opsOf
  congr 1

/-- the store right after the two constructors satisfies the invariant of section 2 -/
theorem construct2 {S1 S2 : Sem D V R} {h0 h1 h2 : Heap D} {cfg1 cfg2 d1 d2 : Ref} {c1 c2 : CbArg}
    (hn1 : newDetector S1 h0 cfg1 c1 = some (d1, h1)) (hn2 : newDetector S2 h1 cfg2 c2 = some (d2, h2))
    (hwf1 : ∀ r, Reach h0 cfg1 r → r < h0.length) (hwf2 : ∀ r, Reach h0 cfg2 r → r < h0.length)
    (hdisj : ∀ i1 i2, ArgItems h0 c1 i1 → ArgItems h1 c2 i2 → ∀ c, c ∈ i1 → c ∉ i2)
    (hnd1 : ∀ items, ArgItems h0 c1 items → items.Nodup) (hnd2 : ∀ items, ArgItems h1 c2 items → items.Nodup) :
    ∃ used, Inv0 h0 h2 [d1, d2] used := by
  obtain ⟨_, _, _, items1, _, _, B1⟩ := newDetectorG_spec hn1
  obtain ⟨_, _, _, items2, _, _, B2⟩ := newDetectorG_spec hn2
  have I1 := (Inv0.nil h0).extend hn1 hwf1 B1.arg_items (hnd1 _ B1.arg_items) (fun c _ hu => hu)
  have I2 := I1.extend hn2 hwf2 B2.arg_items (hnd2 _ B2.arg_items)
    (fun c hc hu => hu.elim (fun f => f) (fun h1' => hdisj items1 items2 B1.arg_items B2.arg_items c h1' hc))
  exact ⟨_, I2⟩

/-- **run equality for two detectors of possibly different classes built from possibly different configuration
objects** (C16, object level).  `d1 = Class1(config=cfg1, callbacks=c1)`, then `d2 = Class2(config=cfg2, callbacks=c2)`;
`cfg1 = cfg2` is allowed (then, with `S1 = S2`, this is `C16c.run_equality`: `run_equality_recovered`), so is
`cfg1 ≠ cfg2`, and so are two configurations referring to the SAME model object.  Hypotheses, as in
`C16c.run_equality`: (`hwf1`, `hwf2`) the references below either configuration do not dangle in the initial store;
(`hdisj`) no callback object is handed to both constructors; (`hnd1`, `hnd2`) no callback object occurs twice in one
list.  For EVERY schedule `σ` of `update`/`reset` calls addressed to either detector in any order, and for each of the
two detectors (`b = false`: the first, `b = true`: the second): the interleaved run does not raise, neither does the
run of that detector's own operations ALONE from the store right after both constructors, and the observable
projection `view` of the detector is defined and THE SAME after both runs. -/
theorem run_equality_separate_cfg {S1 S2 : Sem D V R} {h0 h1 h2 : Heap D} {cfg1 cfg2 d1 d2 : Ref} {c1 c2 : CbArg}
    (hn1 : newDetector S1 h0 cfg1 c1 = some (d1, h1)) (hn2 : newDetector S2 h1 cfg2 c2 = some (d2, h2))
    (hwf1 : ∀ r, Reach h0 cfg1 r → r < h0.length) (hwf2 : ∀ r, Reach h0 cfg2 r → r < h0.length)
    (hdisj : ∀ i1 i2, ArgItems h0 c1 i1 → ArgItems h1 c2 i2 → ∀ c, c ∈ i1 → c ∉ i2)
    (hnd1 : ∀ items, ArgItems h0 c1 items → items.Nodup) (hnd2 : ∀ items, ArgItems h1 c2 items → items.Nodup)
    (σ : List (Bool × SOp V)) (b : Bool) :
    ∃ ha hb vw, runOps (applyTo2 S1 S2 d1 d2) h2 σ = some ha ∧
      runOps (applyG true (if b then S2 else S1) (if b then d2 else d1)) h2 (opsOf b σ) = some hb ∧
      view ha (if b then d2 else d1) = some vw ∧ view hb (if b then d2 else d1) = some vw := by
  obtain ⟨used, I⟩ := construct2 hn1 hn2 hwf1 hwf2 hdisj hnd1 hnd2
  obtain ⟨s12, s21⟩ := (List.pairwise_cons.mp I.sep).1 d2 (List.mem_singleton.mpr rfl)
  obtain ⟨L1, a1, R1, _⟩ := I.reps d1 (by simp)
  obtain ⟨L2, a2, R2, _⟩ := I.reps d2 (by simp)
  have hs : PSep h2 (fun b : Bool => if b then d2 else d1) := by
    intro i j hij
    cases i <;> cases j
    · exact absurd rfl hij
    · exact s12
    · exact s21
    · exact absurd rfl hij
  have hR : ∀ b : Bool, ∃ L a, Rep h2 (if b then d2 else d1) L a := by
    intro b
    cases b
    · exact ⟨L1, a1, R1⟩
    · exact ⟨L2, a2, R2⟩
  have key := run_equality_family (sem := fun b : Bool => if b then S2 else S1) hs hR σ b
  rw [opsAt_bool] at key
  exact key

/-- `C16c.run_equality`, word for word, is the instance `S1 = S2`, `cfg1 = cfg2` -/
theorem run_equality_recovered {S : Sem D V R} {h0 h1 h2 : Heap D} {cfg d1 d2 : Ref} {c1 c2 : CbArg}
    (hn1 : newDetector S h0 cfg c1 = some (d1, h1)) (hn2 : newDetector S h1 cfg c2 = some (d2, h2))
    (hwf : ∀ r, Reach h0 cfg r → r < h0.length)
    (hdisj : ∀ i1 i2, ArgItems h0 c1 i1 → ArgItems h1 c2 i2 → ∀ c, c ∈ i1 → c ∉ i2)
    (hnd1 : ∀ items, ArgItems h0 c1 items → items.Nodup) (hnd2 : ∀ items, ArgItems h1 c2 items → items.Nodup)
    (σ : List (Bool × SOp V)) (b : Bool) :
    ∃ ha hb vw, runOps (applyTo S d1 d2) h2 σ = some ha ∧
      runOps (applyG true S (if b then d2 else d1)) h2 (opsOf b σ) = some hb ∧
      view ha (if b then d2 else d1) = some vw ∧ view hb (if b then d2 else d1) = some vw := by
  have key := run_equality_separate_cfg (S1 := S) (S2 := S) hn1 hn2 hwf hwf hdisj hnd1 hnd2 σ b
  rw [applyTo2_same] at key
  have e : (if b then S else S) = S := by cases b <;> rfl
  rw [e] at key
  exact key

/-! ## 4. `k` detectors: a list of constructor calls -/

/-- one constructor call `Class(config=cfg, callbacks=arg)`: the class is its semantics -/
structure Spec (D V R : Type) where
  sem : Sem D V R
  cfg : Ref
  arg : CbArg

/-- the constructor calls of the list, one after another; result: for every call, in order, the class and the
reference of the detector object created, and the final store (`none`: some constructor raised) -/
def build : Heap D → List (Spec D V R) → Option (List (Sem D V R × Ref) × Heap D)
  | h, [] => some ([], h)
  | h, s :: rest =>
    match newDetector s.sem h s.cfg s.arg with
    | none => none
    | some (d, h1) =>
      match build h1 rest with
      | none => none
      | some (ds, h') => some ((s.sem, d) :: ds, h')

/-- detector `j` of the result is of the class of call `j` -/
theorem build_sems : ∀ (specs : List (Spec D V R)) {h hk : Heap D} {dets : List (Sem D V R × Ref)},
    build h specs = some (dets, hk) → dets.map (·.1) = specs.map (·.sem) := by
  intro specs
  induction specs with
  | nil =>
    intro h hk dets hb
    simp only [build, Option.some.injEq, Prod.mk.injEq] at hb
    rw [← hb.1]; rfl
  | cons s rest ih =>
    intro h hk dets hb
    simp only [build] at hb
    split at hb
    · exact absurd hb (by simp)
    next d h1 hnew =>
    split at hb
    · exact absurd hb (by simp)
    next ds h' hrest =>
    simp only [Option.some.injEq, Prod.mk.injEq] at hb
    rw [← hb.1]
    simp [ih hrest]

/-- the invariant of section 2 holds after the whole list of constructor calls -/
theorem build_inv {h0 : Heap D} : ∀ (specs : List (Spec D V R)) {h hk : Heap D} {pre : List Ref} {used : Ref → Prop}
    {dets : List (Sem D V R × Ref)}, Inv0 h0 h pre used → build h specs = some (dets, hk) →
    (∀ s ∈ specs, ∀ r, Reach h0 s.cfg r → r < h0.length) →
    (∀ s ∈ specs, ∃ items, ArgItems h0 s.arg items ∧ items.Nodup ∧ ∀ c ∈ items, ¬ used c) →
    specs.Pairwise (fun s t => ∀ i1 i2, ArgItems h0 s.arg i1 → ArgItems h0 t.arg i2 → ∀ c ∈ i1, c ∉ i2) →
    ∃ used', Inv0 h0 hk (pre ++ dets.map (·.2)) used' := by
  intro specs
  induction specs with
  | nil =>
    intro h hk pre used dets I hb _ _ _
    simp only [build, Option.some.injEq, Prod.mk.injEq] at hb
    obtain ⟨rfl, rfl⟩ := hb
    exact ⟨used, by simpa using I⟩
  | cons s rest ih =>
    intro h hk pre used dets I hb hwf hargs hdisj
    simp only [build] at hb
    split at hb
    · exact absurd hb (by simp)
    next d h1 hnew =>
    split at hb
    · exact absurd hb (by simp)
    next ds h' hrest =>
    simp only [Option.some.injEq, Prod.mk.injEq] at hb
    obtain ⟨rfl, rfl⟩ := hb
    obtain ⟨items, hit, hnd, hfr⟩ := hargs s List.mem_cons_self
    have I1 := I.extend hnew (hwf s List.mem_cons_self) (I.ext.argItems hit) hnd hfr
    obtain ⟨hp1, hp2⟩ := List.pairwise_cons.mp hdisj
    obtain ⟨used', I'⟩ := ih I1 hrest (fun t ht => hwf t (List.mem_cons_of_mem _ ht))
      (fun t ht => by
        obtain ⟨it, a1, a2, a3⟩ := hargs t (List.mem_cons_of_mem _ ht)
        exact ⟨it, a1, a2, fun c hc hu => hu.elim (a3 c hc) (fun hci => hp1 t ht items it hit a1 c hci hc)⟩)
      hp2
    refine ⟨used', ?_⟩
    simpa [List.append_assoc] using I'

/-- from the list form of the invariant to the family form of section 1 (index type `Fin k`) -/
theorem Inv0.family {h0 h : Heap D} {dets : List (Sem D V R × Ref)} {used : Ref → Prop}
    (I : Inv0 h0 h (dets.map (·.2)) used) :
    PSep h (fun j : Fin dets.length => (dets.get j).2) ∧
      ∀ j : Fin dets.length, ∃ L a, Rep h (dets.get j).2 L a := by
  have hp := List.pairwise_iff_getElem.mp (List.pairwise_map.mp I.sep)
  refine ⟨fun i j hij => ?_, fun j => ?_⟩
  · rcases Nat.lt_or_gt_of_ne (fun e => hij (Fin.ext e)) with hlt | hgt
    · exact (hp i.1 j.1 i.2 j.2 hlt).1
    · exact (hp j.1 i.1 j.2 i.2 hgt).2
  · obtain ⟨L, a, Rj, _⟩ := I.reps (dets.get j).2 (List.mem_map.mpr ⟨dets.get j, List.get_mem _ _, rfl⟩)
    exact ⟨L, a, Rj⟩

/-- **run equality for `k` detectors of possibly different classes, built from possibly different (or shared)
configuration objects** (C16, object level).  `specs` is any list of constructor calls
`(class, configuration object, callbacks argument)` executed one after another from the initial store `h0`
(`build`); `dets` are the `k` detector objects created, `hk` the store right after ALL constructors.  Hypotheses, all
about the initial store:
* (`hwf`) the references below each configuration object do not dangle;
* (`hargs`) each callbacks argument designates objects of the initial store (a list argument is a list object of
  `h0`), no callback object twice in one list;
* (`hdisj`) no callback object is handed to two constructors.
A schedule is a list of `(index, operation)` with `index : Fin k`.  For EVERY schedule `σ` and EVERY index `i`:
* the interleaved run (every operation executed with the semantics of the class of the detector it is addressed
  to) does not raise, nor does the run of detector `i`'s own operations (`opsAt i σ`: the sub-list of the schedule
  with index `i`) ALONE from `hk`;
* the observable projection `view` of detector `i` is defined and THE SAME after both runs. -/
theorem run_equality_n {h0 hk : Heap D} {specs : List (Spec D V R)} {dets : List (Sem D V R × Ref)}
    (hb : build h0 specs = some (dets, hk))
    (hwf : ∀ s ∈ specs, ∀ r, Reach h0 s.cfg r → r < h0.length)
    (hargs : ∀ s ∈ specs, ∃ items, ArgItems h0 s.arg items ∧ items.Nodup)
    (hdisj : specs.Pairwise (fun s t => ∀ i1 i2, ArgItems h0 s.arg i1 → ArgItems h0 t.arg i2 → ∀ c ∈ i1, c ∉ i2))
    (σ : List (Fin dets.length × SOp V)) (i : Fin dets.length) :
    ∃ ha hb vw,
      runOps (applyAt (fun j : Fin dets.length => (dets.get j).1) (fun j => (dets.get j).2)) hk σ = some ha ∧
      runOps (applyG true (dets.get i).1 (dets.get i).2) hk (opsAt i σ) = some hb ∧
      view ha (dets.get i).2 = some vw ∧ view hb (dets.get i).2 = some vw := by
  obtain ⟨used', I⟩ := build_inv specs (Inv0.nil h0) hb hwf
    (fun s hs => by
      obtain ⟨it, a1, a2⟩ := hargs s hs
      exact ⟨it, a1, a2, fun _ _ hu => hu⟩) hdisj
  have I' : Inv0 h0 hk (dets.map (·.2)) used' := I
  obtain ⟨hs, hR⟩ := I'.family
  exact run_equality_family hs hR σ i

/-! ## concrete instances on `Nat` stores: non-vacuity, and witnesses for the hypotheses -/

/-- a SECOND class (`C16b.S0` is the first): scalars start from the configuration scalar and accumulate it,
containers double, the model parameters enter the containers -/
def S1 : Sem Nat Nat Nat where
  initOwn := fun sc => sc
  initVars := fun _ => 1
  stepOwn := fun sc own _ _ v => own + sc + v
  stepVars := fun _ _ vd m v => 2 * vd + v + m.getD 0
  stepModel := fun _ _ _ p v => 2 * p + v
  snap := fun own vd v => own + vd + v
  fitAux := fun x => x
  stat := fun _ _ _ => 0
  fires := fun _ _ => false

/-- a configuration with a model object reaches itself and the model -/
theorem wf_config_data {h : Heap D} {cfg m : Ref} {sc p : D} (hc : read h cfg = some (.config sc (some m)))
    (hm : read h m = some (.data p)) : ∀ r, Reach h cfg r → r < h.length := by
  intro r hr
  have hcases : r = cfg ∨ r = m := by
    refine Reach.subset (P := fun r => r = cfg ∨ r = m) ?_ hr (Or.inl rfl)
    intro x o y hx hxo hy
    rcases hx with hx | hx
    · rw [hx, hc] at hxo; cases hxo
      simp only [edges, Option.toList, List.mem_singleton] at hy
      exact Or.inr hy
    · rw [hx, hm] at hxo; cases hxo; cases hy
  rcases hcases with e | e
  · rw [e]; exact read_lt hc
  · rw [e]; exact read_lt hm

/-- cells 0, 1: two `HistoryConceptDrift` objects; cell 2: a configuration without model (class `S0`); cell 3: a
BOCD-like model object; cell 4: a configuration referring to it (class `S1`) -/
def hN : Heap Nat :=
  [.callback ⟨.history, none, []⟩, .callback ⟨.history, none, []⟩, .config 1 none, .data 7, .config 2 (some 3)]

/-- after `d1 = ClassS0(cfg 2, callbacks=cb0)` (cell 7) and `d2 = ClassS1(cfg 4)` (cell 11, model copy in cell 10) -/
def hN2 : Heap Nat :=
  [.callback ⟨.history, some 7, []⟩, .callback ⟨.history, none, []⟩, .config 1 none, .data 7, .config 2 (some 3),
   .list [0], .data 0, .detector ⟨some 2, 5, 6, none, none, 0⟩,
   .list [], .data 1, .data 7, .detector ⟨some 4, 8, 9, some 10, none, 2⟩]

theorem hN2_built : ∃ h1, newDetector S0 hN 2 (.single 0) = some (7, h1) ∧ newDetector S1 h1 4 .none = some (11, hN2) :=
  ⟨_, rfl, rfl⟩

theorem hdisj_none_right {h0 h1 : Heap D} {a1 : CbArg} :
    ∀ i1 i2, ArgItems h0 a1 i1 → ArgItems h1 .none i2 → ∀ c, c ∈ i1 → c ∉ i2 := by
  intro i1 i2 _ e2 c _
  have : i2 = [] := e2
  subst this
  exact List.not_mem_nil

def σ2 : List (Bool × SOp Nat) :=
  [(false, .update 5), (true, .update 6), (false, .reset), (true, .update 1), (true, .reset), (true, .update 3),
   (false, .update 2)]

/-- non-vacuity of `run_equality_separate_cfg`: two classes, two configuration objects (one with a model object), a
history callback on the first detector; every hypothesis holds, and the conclusion, computed -/
example :
    (∃ ha hb vw, runOps (applyTo2 S0 S1 7 11) hN2 σ2 = some ha ∧
      runOps (applyG true (if true then S1 else S0) (if true then 11 else 7)) hN2 (opsOf true σ2) = some hb ∧
      view ha (if true then 11 else 7) = some vw ∧ view hb (if true then 11 else 7) = some vw) ∧
    (runOps (applyTo2 S0 S1 7 11) hN2 σ2).bind (view · 11) = some ⟨7, 12, some (some 17), []⟩ ∧
    (runOps (applyG true S1 11) hN2 (opsOf true σ2)).bind (view · 11) = some ⟨7, 12, some (some 17), []⟩ ∧
    (runOps (applyTo2 S0 S1 7 11) hN2 σ2).bind (view · 7) = some ⟨1, 2, none, [some [102]]⟩ ∧
    (runOps (applyG true S0 7) hN2 (opsOf false σ2)).bind (view · 7) = some ⟨1, 2, none, [some [102]]⟩ := by
  obtain ⟨h1, e1, e2⟩ := hN2_built
  exact ⟨run_equality_separate_cfg e1 e2 (wf_config_none (sc := 1) rfl) (wf_config_data (sc := 2) (p := 7) rfl rfl)
    hdisj_none_right nodup_single nodup_none σ2 true, rfl, rfl, rfl, rfl⟩

/-- cell 0: a configuration (class `S0`); cell 1: a configuration whose `model` reference DANGLES (cell 3 is not
allocated) -/
def hDg : Heap Nat := [.config 1 none, .config 2 (some 3)]

/-- **the hypothesis `hwf2` of `run_equality_separate_cfg` is necessary** (in the model; Python has no dangling
references).  The first constructor allocates its own containers exactly where the second configuration's `model`
reference points (cell 3); the second constructor succeeds (it copies that cell).  Then `update 5` of the FIRST
detector changes what `reset` of the SECOND detector copies: interleaved, the second detector ends with model
parameters `5`; alone with `0`.  Every other hypothesis holds (no callbacks at all). -/
theorem run_equality_separate_cfg_dangling_witness :
    ∃ (h1 h2 : Heap Nat), newDetector S0 hDg 0 .none = some (4, h1) ∧ newDetector S1 h1 1 .none = some (8, h2) ∧
      (runOps (applyTo2 S0 S1 4 8) h2 [(false, .update 5), (true, .reset)]).bind (view · 8) =
        some ⟨2, 1, some (some 5), []⟩ ∧
      (runOps (applyG true S1 8) h2 (opsOf true [(false, SOp.update 5), (true, SOp.reset)])).bind (view · 8) =
        some ⟨2, 1, some (some 0), []⟩ ∧
      Reach hDg 1 3 ∧ ¬ 3 < hDg.length :=
  ⟨_, _, rfl, rfl, rfl, rfl, Reach.edge (a := 1) (b := 3) rfl (by decide), by decide⟩

/-- three constructor calls from `hN`: class `S0` on configuration 2 with callback 0, class `S1` on configuration 4
(with the model object), class `S0` AGAIN ON CONFIGURATION 2 with callback 1 -/
def specsN : List (Spec Nat Nat Nat) := [⟨S0, 2, .single 0⟩, ⟨S1, 4, .none⟩, ⟨S0, 2, .single 1⟩]

def detsN : List (Sem Nat Nat Nat × Ref) := [(S0, 7), (S1, 11), (S0, 14)]

/-- the store right after the three constructors -/
def hN3 : Heap Nat :=
  [.callback ⟨.history, some 7, []⟩, .callback ⟨.history, some 14, []⟩, .config 1 none, .data 7, .config 2 (some 3),
   .list [0], .data 0, .detector ⟨some 2, 5, 6, none, none, 0⟩,
   .list [], .data 1, .data 7, .detector ⟨some 4, 8, 9, some 10, none, 2⟩,
   .list [1], .data 0, .detector ⟨some 2, 12, 13, none, none, 0⟩]

theorem hN3_built : build hN specsN = some (detsN, hN3) := rfl

theorem specsN_wf : ∀ s ∈ specsN, ∀ r, Reach hN s.cfg r → r < hN.length := by
  intro s hs
  simp only [specsN, List.mem_cons, List.not_mem_nil, or_false] at hs
  rcases hs with rfl | rfl | rfl
  · exact wf_config_none (sc := 1) rfl
  · exact wf_config_data (sc := 2) (p := 7) rfl rfl
  · exact wf_config_none (sc := 1) rfl

theorem specsN_args : ∀ s ∈ specsN, ∃ items, ArgItems hN s.arg items ∧ items.Nodup := by
  intro s hs
  simp only [specsN, List.mem_cons, List.not_mem_nil, or_false] at hs
  rcases hs with rfl | rfl | rfl
  · exact ⟨[0], rfl, by simp⟩
  · exact ⟨[], rfl, by simp⟩
  · exact ⟨[1], rfl, by simp⟩

theorem specsN_disj :
    specsN.Pairwise (fun s t => ∀ i1 i2, ArgItems hN s.arg i1 → ArgItems hN t.arg i2 → ∀ c ∈ i1, c ∉ i2) := by
  refine List.Pairwise.cons ?_ (List.Pairwise.cons ?_ (List.Pairwise.cons ?_ List.Pairwise.nil))
  · intro t ht
    simp only [List.mem_cons, List.not_mem_nil, or_false] at ht
    rcases ht with rfl | rfl
    · intro i1 i2 _ e2 c _
      have : i2 = [] := e2
      subst this; exact List.not_mem_nil
    · intro i1 i2 e1 e2 c hc
      have e1 : i1 = [0] := e1
      have e2 : i2 = [1] := e2
      subst e1 e2
      simp only [List.mem_singleton] at hc ⊢
      subst hc; decide
  · intro t ht
    simp only [List.mem_cons, List.not_mem_nil, or_false] at ht
    subst ht
    intro i1 i2 e1 _ c hc
    have : i1 = [] := e1
    subst this; cases hc
  · intro t ht; cases ht

def σN : List (Fin 3 × SOp Nat) :=
  [(0, .update 5), (1, .update 6), (2, .update 9), (0, .reset), (1, .update 1), (1, .reset), (1, .update 3),
   (2, .update 4), (0, .update 2)]

/-- non-vacuity of `run_equality_n` (hence of `run_equality_family`, `Inv0.extend`): THREE detectors of TWO classes,
two of them built from the SAME configuration object, the third from another one that has a model object; every
hypothesis holds; the conclusion for the middle detector (index 1), computed: scalars `7`, containers `12`, model
parameters `17`, interleaved and alone — although its model copy lives in different cells in the two runs; and
the computed projections of the other two (history callbacks `[102]` and `[109, 204]`) -/
example :
    (∃ ha hb vw,
      runOps (applyAt (fun j : Fin detsN.length => (detsN.get j).1) (fun j => (detsN.get j).2)) hN3 σN = some ha ∧
      runOps (applyG true (detsN.get ⟨1, by decide⟩).1 (detsN.get ⟨1, by decide⟩).2) hN3
        (opsAt (⟨1, by decide⟩ : Fin detsN.length) σN) = some hb ∧
      view ha (detsN.get ⟨1, by decide⟩).2 = some vw ∧ view hb (detsN.get ⟨1, by decide⟩).2 = some vw) ∧
    (runOps (applyAt (fun j : Fin 3 => (detsN.get j).1) (fun j => (detsN.get j).2)) hN3 σN).bind (view · 11) =
      some ⟨7, 12, some (some 17), []⟩ ∧
    (runOps (applyG true S1 11) hN3 (opsAt (1 : Fin 3) σN)).bind (view · 11) = some ⟨7, 12, some (some 17), []⟩ ∧
    (runOps (applyAt (fun j : Fin 3 => (detsN.get j).1) (fun j => (detsN.get j).2)) hN3 σN).bind (view · 7) =
      some ⟨1, 2, none, [some [102]]⟩ ∧
    (runOps (applyG true S0 7) hN3 (opsAt (0 : Fin 3) σN)).bind (view · 7) = some ⟨1, 2, none, [some [102]]⟩ ∧
    (runOps (applyAt (fun j : Fin 3 => (detsN.get j).1) (fun j => (detsN.get j).2)) hN3 σN).bind (view · 14) =
      some ⟨2, 13, none, [some [109, 204]]⟩ ∧
    (runOps (applyG true S0 14) hN3 (opsAt (2 : Fin 3) σN)).bind (view · 14) = some ⟨2, 13, none, [some [109, 204]]⟩ ∧
    (runOps (applyAt (fun j : Fin 3 => (detsN.get j).1) (fun j => (detsN.get j).2)) hN3 σN).bind (getDet · 11) =
      some ⟨some 4, 8, 9, some 15, none, 7⟩ :=
  ⟨run_equality_n hN3_built specsN_wf specsN_args specsN_disj σN ⟨1, by decide⟩, rfl, rfl, rfl, rfl, rfl, rfl, rfl⟩

/-- the same three calls, but the THIRD constructor is handed the callback object of the FIRST -/
def specsW : List (Spec Nat Nat Nat) := [⟨S0, 2, .single 0⟩, ⟨S1, 4, .none⟩, ⟨S0, 2, .single 0⟩]

/-- **the hypothesis `hdisj` of `run_equality_n` is necessary**: with the callback object 0 handed to the first AND to
the third constructor (all three constructors succeed, `hwf` and `hargs` hold as before), ONE `update 5` of detector 0
makes the projection of detector 2 (cell 14) differ from its projection after its own — empty — history: the shared
callback has recorded an entry (computed from detector 2's scalars: its back-reference was overwritten). -/
theorem run_equality_n_sharedCallback_witness :
    ∃ hk, build hN specsW = some (detsN, hk) ∧
      (runOps (applyAt (fun j : Fin 3 => (detsN.get j).1) (fun j => (detsN.get j).2)) hk [((0 : Fin 3), .update 5)]).bind
        (view · 14) = some ⟨0, 0, none, [some [5]]⟩ ∧
      (runOps (applyG true S0 14) hk (opsAt (2 : Fin 3) [((0 : Fin 3), SOp.update 5)])).bind (view · 14) =
        some ⟨0, 0, none, [some []]⟩ ∧
      ¬ specsW.Pairwise (fun s t => ∀ i1 i2, ArgItems hN s.arg i1 → ArgItems hN t.arg i2 → ∀ c ∈ i1, c ∉ i2) := by
  refine ⟨_, rfl, rfl, rfl, fun hp => ?_⟩
  have key := (List.pairwise_cons.mp hp).1 ⟨S0, 2, .single 0⟩ (List.mem_cons_of_mem _ List.mem_cons_self)
    [0] [0] rfl rfl 0 List.mem_cons_self
  exact key List.mem_cons_self

/-! ### the same with every hypothesis read AT THE TIME OF THE CALL -/

theorem Inv0.mono {h0 h : Heap D} {ds : List Ref} {used used' : Ref → Prop} (I : Inv0 h0 h ds used)
    (hu : ∀ c, used c → used' c) : Inv0 h0 h ds used' :=
  ⟨I.ext, I.sep, fun d hd => by
    obtain ⟨L, a, R, h1, h2, h3⟩ := I.reps d hd
    exact ⟨L, a, R, h1, h2, fun c hc => hu c (h3 c hc)⟩⟩

/-- the hypotheses of `Inv0.extend` along a list of constructor calls, the callbacks argument of each call read in
the store IN WHICH THE CALL IS EXECUTED (`used`: the callback objects handed over so far): the configuration's
references do not dangle in the initial store `h0`; the callback objects designated by the argument are pairwise
distinct and not used before; and so on for the remaining calls in whatever store the call returns -/
def CallsOK (h0 : Heap D) : Heap D → List Ref → List (Spec D V R) → Prop
  | _, _, [] => True
  | h, used, s :: rest =>
    (∀ r, Reach h0 s.cfg r → r < h0.length) ∧
    ∃ items, ArgItems h s.arg items ∧ items.Nodup ∧ (∀ c ∈ items, c ∉ used) ∧
      ∀ d h1, newDetector s.sem h s.cfg s.arg = some (d, h1) → CallsOK h0 h1 (used ++ items) rest

/-- introduction rule for a call whose result is known -/
theorem callsOK_cons {h0 h h1 : Heap D} {used items : List Ref} {s : Spec D V R} {rest : List (Spec D V R)} {d : Ref}
    (hwf : ∀ r, Reach h0 s.cfg r → r < h0.length) (hit : ArgItems h s.arg items) (hnd : items.Nodup)
    (hfr : ∀ c ∈ items, c ∉ used) (e : newDetector s.sem h s.cfg s.arg = some (d, h1))
    (hrest : CallsOK h0 h1 (used ++ items) rest) : CallsOK h0 h used (s :: rest) :=
  ⟨hwf, items, hit, hnd, hfr, fun d' h1' e' => by
    rw [e] at e'
    simp only [Option.some.injEq, Prod.mk.injEq] at e'
    obtain ⟨rfl, rfl⟩ := e'
    exact hrest⟩

theorem build_inv_calls {h0 : Heap D} : ∀ (specs : List (Spec D V R)) {h hk : Heap D} {pre used : List Ref}
    {dets : List (Sem D V R × Ref)}, Inv0 h0 h pre (· ∈ used) → build h specs = some (dets, hk) →
    CallsOK h0 h used specs → ∃ used', Inv0 h0 hk (pre ++ dets.map (·.2)) used' := by
  intro specs
  induction specs with
  | nil =>
    intro h hk pre used dets I hb _
    simp only [build, Option.some.injEq, Prod.mk.injEq] at hb
    obtain ⟨rfl, rfl⟩ := hb
    exact ⟨_, by simpa using I⟩
  | cons s rest ih =>
    intro h hk pre used dets I hb hok
    simp only [build] at hb
    split at hb
    · exact absurd hb (by simp)
    next d h1 hnew =>
    split at hb
    · exact absurd hb (by simp)
    next ds h' hrest =>
    simp only [Option.some.injEq, Prod.mk.injEq] at hb
    obtain ⟨rfl, rfl⟩ := hb
    obtain ⟨hwf, items, hit, hnd, hfr, hnext⟩ := hok
    have I1 : Inv0 h0 h1 (pre ++ [d]) (· ∈ used ++ items) :=
      (I.extend hnew hwf hit hnd hfr).mono (fun c hc => List.mem_append.mpr hc)
    obtain ⟨used', I'⟩ := ih I1 hrest (hnext d h1 hnew)
    refine ⟨used', ?_⟩
    simpa [List.append_assoc] using I'

/-- **run equality for `k` detectors, hypotheses at the time of each call** (`run_equality_n` with `hargs`/`hdisj`
replaced by `CallsOK`: a callbacks argument may now designate a list object created by an EARLIER constructor —
`Detector(callbacks=other.callbacks)` — as long as no callback OBJECT is handed over twice). -/
theorem run_equality_calls {h0 hk : Heap D} {specs : List (Spec D V R)} {dets : List (Sem D V R × Ref)}
    (hb : build h0 specs = some (dets, hk)) (hok : CallsOK h0 h0 [] specs)
    (σ : List (Fin dets.length × SOp V)) (i : Fin dets.length) :
    ∃ ha hb vw,
      runOps (applyAt (fun j : Fin dets.length => (dets.get j).1) (fun j => (dets.get j).2)) hk σ = some ha ∧
      runOps (applyG true (dets.get i).1 (dets.get i).2) hk (opsAt i σ) = some hb ∧
      view ha (dets.get i).2 = some vw ∧ view hb (dets.get i).2 = some vw := by
  obtain ⟨used', I⟩ := build_inv_calls specs ((Inv0.nil h0).mono (fun _ hf => hf.elim)) hb hok
  have I' : Inv0 h0 hk (dets.map (·.2)) used' := I
  obtain ⟨hs, hR⟩ := I'.family
  exact run_equality_family hs hR σ i

/-- three calls from `hN`; the SECOND detector is handed the (empty) callbacks list object that the FIRST constructor
created (cell 5 = `hN.length`): not a list of the initial store, so `run_equality_n` does not apply -/
def specsL : List (Spec Nat Nat Nat) := [⟨S0, 2, .none⟩, ⟨S1, 4, .list 5⟩, ⟨S0, 2, .single 0⟩]

def detsL : List (Sem Nat Nat Nat × Ref) := [(S0, 7), (S1, 10), (S0, 13)]

def hL3 : Heap Nat :=
  [.callback ⟨.history, some 13, []⟩, .callback ⟨.history, none, []⟩, .config 1 none, .data 7, .config 2 (some 3),
   .list [], .data 0, .detector ⟨some 2, 5, 6, none, none, 0⟩,
   .data 1, .data 7, .detector ⟨some 4, 5, 8, some 9, none, 2⟩,
   .list [0], .data 0, .detector ⟨some 2, 11, 12, none, none, 0⟩]

theorem hL3_built : build hN specsL = some (detsL, hL3) := rfl

theorem specsL_ok : CallsOK hN hN [] specsL := by
  refine callsOK_cons (items := []) (d := 7) (wf_config_none (sc := 1) rfl) rfl List.nodup_nil
    (fun c hc => by cases hc) rfl ?_
  refine callsOK_cons (items := []) (d := 10) (wf_config_data (sc := 2) (p := 7) rfl rfl) rfl List.nodup_nil
    (fun c hc => by cases hc) rfl ?_
  refine callsOK_cons (items := [0]) (d := 13) (wf_config_none (sc := 1) rfl) rfl (by simp)
    (fun c _ hc => by cases hc) rfl trivial

/-- non-vacuity of `run_equality_calls`: three detectors, two classes, the first two SHARING their (empty) callbacks
list object; schedule `σN`; the conclusion for the middle detector, and the three computed projections -/
example :
    (∃ ha hb vw,
      runOps (applyAt (fun j : Fin detsL.length => (detsL.get j).1) (fun j => (detsL.get j).2)) hL3 σN = some ha ∧
      runOps (applyG true (detsL.get ⟨1, by decide⟩).1 (detsL.get ⟨1, by decide⟩).2) hL3
        (opsAt (⟨1, by decide⟩ : Fin detsL.length) σN) = some hb ∧
      view ha (detsL.get ⟨1, by decide⟩).2 = some vw ∧ view hb (detsL.get ⟨1, by decide⟩).2 = some vw) ∧
    (runOps (applyAt (fun j : Fin 3 => (detsL.get j).1) (fun j => (detsL.get j).2)) hL3 σN).bind (view · 10) =
      some ⟨7, 12, some (some 17), []⟩ ∧
    (runOps (applyG true S1 10) hL3 (opsAt (1 : Fin 3) σN)).bind (view · 10) = some ⟨7, 12, some (some 17), []⟩ ∧
    (runOps (applyAt (fun j : Fin 3 => (detsL.get j).1) (fun j => (detsL.get j).2)) hL3 σN).bind (view · 7) =
      some ⟨1, 2, none, []⟩ ∧
    (runOps (applyAt (fun j : Fin 3 => (detsL.get j).1) (fun j => (detsL.get j).2)) hL3 σN).bind (view · 13) =
      some ⟨2, 13, none, [some [109, 204]]⟩ :=
  ⟨run_equality_calls hL3_built specsL_ok σN ⟨1, by decide⟩, rfl, rfl, rfl, rfl⟩

/- NOT ACHIEVED / remarks.

   * `run_equality_n` asks (`hargs`) that a callbacks LIST argument be a list object of the INITIAL store; the form
     `run_equality_calls` (hypotheses at the time of each call, `CallsOK`) and `run_equality_separate_cfg` do not.
     NOT proved: that the hypotheses of `run_equality_n` imply `CallsOK` (the two closed forms are proved
     independently from `Inv0.extend`).
   * The hypotheses without counterpart in Python heaps: `hwf` (witness above and `C16b.isolation_dangling_witness`).
     The `Nodup` hypotheses are inherited from `HeapLocal.Rep` (see the end of `C16c.lean`).
   * Families here contain STREAMING (concept-drift) detectors only: the batch detectors of the model
     (`newBatch`/`fit`/`compare`) have no `Rep`/locality lemma yet; and the global-generator carve-out
     (`C16c.generator_one_drawer`) is not generalised from two detectors to a family.
   * Different classes: no change of the model was needed — `Sem` is an argument of `newDetectorG`/`applyG`, not of
     the cell type — and nothing in `Rep`, `Sep`, `Step` mentions `S`. -/

/-! ## axioms -/
#print axioms psep_applyAt
#print axioms family_rep
#print axioms family_total
#print axioms run_equality_family
#print axioms run_pure_family
#print axioms cfg_cells
#print axioms Inv0.extend
#print axioms construct2
#print axioms run_equality_separate_cfg
#print axioms run_equality_recovered
#print axioms run_equality_separate_cfg_dangling_witness
#print axioms build_sems
#print axioms build_inv
#print axioms Inv0.family
#print axioms run_equality_n
#print axioms run_equality_n_sharedCallback_witness
#print axioms build_inv_calls
#print axioms run_equality_calls

end Frouros.C16d
