/-
  C13d — mixed items from the second statement review (`seeded/reviews/review-T2-third-round-statements.md`,
  proposals 8-10 and the "non-vacuity" paragraph).

  A. C13 — `pApproximate_mono` (left UNPROVED in `C13c.lean`): the `approximate` p-value AS CODED
     (`Perm.pApproximate`, the integral multiplied by `0.5/mt` twice) is monotone in the count `b`, over ℝ:
       `cdfTerm_bounds`            `0 ≤ C(m,k) ∫₀^a p^k (1-p)^(m-k) ≤ 1/(m+1)` for `0 ≤ a ≤ 1`, EVERY `k`
       `cdfIntegral_diff_bounds`   `0 ≤ ∫₀^a (F_{b'} − F_b) ≤ (b' − b)/(m+1)`
       `pApproximate_mono`         `b ≤ b' → p(b) ≤ p(b')`          (hypothesis `1 ≤ mt` only; `b' ≤ m` NOT needed)
       `pApproximate_strictMono`   `b < b' → p(b) < p(b')`
       `pApproximateSpec_mono`     the same for the specification (single factor)
       `pValue_antitone_obs_approximate`, `pValue_antitone_obs_all`   end to end: a larger observed statistic never
                                   gets a larger reported p-value, for ALL five methods (closes the `meth ≠ .approximate`
                                   restriction of `C13.pValue_antitone_obs`)
  B. C01 — `ddm_const_exact`: DDM is silent on `0^k` and `1^k` (resets anywhere) for EVERY carrier satisfying the nine
     identities `ExactOn01 α` (all on the two literals `0`, `1`) and two identities on the configuration
     (`level * 0 = 0`).  `ddm_const_exact_inv_core` is the same with the two threshold comparisons kept literal (covers
     NaN/inf levels).  Carriers: `exactOn01_real`, `exactOn01_nan` (adjoining a NaN preserves the structure),
     `exactOn01_coarse`; instances `ddm_const_exact_real` (= `C01c.ddm_const_resets`), `ddm_const_exact_real_nan` (every
     configuration, NaN levels included), `ddm_const_exact_coarse`.  `ddm_const_inexact_witness`: a carrier satisfying
     eight of the nine identities (all but `zero_div`) on which an accepted DDM raises drift on `0, 0`.
  C. Non-vacuity repairs for `C06b.kswin_ks_rule`, `C06b.stepd_threshold_form`, `C06b.stepd_monotone`,
     `C08.lseShift_sum_bounds`: fully instantiated THEOREMS with the conclusion written out and evaluated
     (`kswin_ks_rule_instance`, `stepd_threshold_form_instance`, `stepd_monotone_instance`,
     `lseShift_sum_bounds_instance`).
  D. C19 — `nan_rejected_*` on a carrier with ONE NaN adjoined (`Option α` with `C07.nanNum`): `unordered_none`,
     `ddm/hddmw/kswin_accepts_nan_iff` (accepted on `α ∪ {NaN}` ⇔ no parameter is NaN and accepted on `α`),
     `nan_rejected_real_nan_instances` (ℝ ∪ {NaN}: NaN rejected, the library defaults accepted; EDDM's NaN `alpha`
     still accepted).
-/
import Mathlib.Tactic
import FrourosProofs.RealNum
import FrourosProofs.Machines
import FrourosProofs.Props.C13c
import FrourosProofs.Props.C01c
import FrourosProofs.Props.C06b
import FrourosProofs.Props.C07b
import FrourosProofs.Props.C08c
import FrourosProofs.Props.C20b

namespace Frouros.C13d
open Frouros

/-! ## A. `pApproximate_mono` -/
section A
open Frouros.Perm Frouros.C13 Frouros.RealNum

/-- `monoIntegral k j x = ∫₀^x p^k (1-p)^j dp` -/
theorem monoIntegral_eq_integral (k j : Nat) (x : ℝ) :
    monoIntegral k j x = ∫ p in (0:ℝ)..x, p ^ k * (1 - p) ^ j := by
  rw [intervalIntegral.integral_eq_sub_of_hasDerivAt (f := fun x => monoIntegral k j x)
    (fun x _ => monoIntegral_hasDerivAt k j x) (by apply Continuous.intervalIntegrable; fun_prop)]
  simp [monoIntegral_zero]

theorem monoIntegral_nonneg (k j : Nat) {a : ℝ} (h0 : 0 ≤ a) (h1 : a ≤ 1) : 0 ≤ monoIntegral k j a := by
  rw [monoIntegral_eq_integral]
  apply intervalIntegral.integral_nonneg h0
  intro p hp
  have : 0 ≤ 1 - p := by linarith [hp.2]
  have := hp.1
  positivity

theorem monoIntegral_le_one (k j : Nat) {a : ℝ} (h0 : 0 ≤ a) (h1 : a ≤ 1) :
    monoIntegral k j a ≤ monoIntegral k j 1 := by
  rw [monoIntegral_eq_integral, monoIntegral_eq_integral, ← sub_nonneg,
    intervalIntegral.integral_interval_sub_left (by apply Continuous.intervalIntegrable; fun_prop)
      (by apply Continuous.intervalIntegrable; fun_prop)]
  apply intervalIntegral.integral_nonneg h1
  intro p hp
  have : 0 ≤ 1 - p := by linarith [hp.2]
  have : 0 ≤ p := h0.trans hp.1
  positivity

/-- one summand of `cdfIntegral`: `0 ≤ C(m,k) ∫₀^a p^k (1-p)^(m-k) ≤ 1/(m+1)` for EVERY `k` (for `k > m` the
coefficient `C(m,k)` is the genuine `0`, so the truncated exponent `m - k` is never looked at) -/
theorem cdfTerm_bounds (m k : Nat) {a : ℝ} (h0 : 0 ≤ a) (h1 : a ≤ 1) :
    0 ≤ (m.choose k : ℝ) * monoIntegral k (m - k) a ∧
    (m.choose k : ℝ) * monoIntegral k (m - k) a ≤ 1 / ((m : ℝ) + 1) := by
  have hm : (0 : ℝ) < (m : ℝ) + 1 := by positivity
  refine ⟨mul_nonneg (by positivity) (monoIntegral_nonneg k _ h0 h1), ?_⟩
  rcases Nat.lt_or_ge m k with hk | hk
  · rw [Nat.choose_eq_zero_of_lt hk]; simp; positivity
  · have h1' := monoIntegral_one k (m - k)
    have e : k + (m - k) = m := by omega
    rw [e] at h1'
    have e2 : (k : ℝ) + ((m - k : Nat) : ℝ) = m := by exact_mod_cast e
    rw [e2] at h1'
    have hc : (0 : ℝ) ≤ (m.choose k : ℝ) := by positivity
    have hle := mul_le_mul_of_nonneg_left (monoIntegral_le_one k (m - k) h0 h1) hc
    refine hle.trans (le_of_eq ?_)
    rw [eq_div_iff hm.ne']
    linear_combination h1'

/-- `0 ≤ ∫₀^a (F_{b'} − F_b) ≤ (b' − b)/(m+1)` -/
theorem cdfIntegral_diff_bounds (m : Nat) {b b' : Nat} (h : b ≤ b') {a : ℝ} (h0 : 0 ≤ a) (h1 : a ≤ 1) :
    0 ≤ cdfIntegral b' m a - cdfIntegral b m a ∧
    cdfIntegral b' m a - cdfIntegral b m a ≤ ((b' : ℝ) - b) / ((m : ℝ) + 1) := by
  induction b', h using Nat.le_induction with
  | base => simp
  | succ n hn ih =>
    have hstep : cdfIntegral (n + 1) m a = cdfIntegral n m a + (m.choose (n + 1) : ℝ) * monoIntegral (n + 1) (m - (n + 1)) a := by
      rw [cdfIntegral_eq_sum, cdfIntegral_eq_sum, Finset.sum_range_succ]
    obtain ⟨t0, t1⟩ := cdfTerm_bounds m (n + 1) h0 h1
    obtain ⟨i0, i1⟩ := ih
    rw [hstep]
    refine ⟨by linarith, ?_⟩
    have : (((n + 1 : Nat) : ℝ) - b) / ((m : ℝ) + 1) = ((n : ℝ) - b) / ((m : ℝ) + 1) + 1 / ((m : ℝ) + 1) := by
      push_cast; ring
    rw [this]; linarith

/-- **C13 (`pApproximate_mono`)** — the `approximate` p-value as coded is monotone in the number `b` of null statistics
at least as extreme as the observed one: more extreme null statistics, larger p-value.  For ALL `m`, `b ≤ b'`, `mt ≥ 1`.
* `1 ≤ mt` is the hypothesis of the range theorem `C13.p_approx_sandwich`; it excludes the junk integration limit
  `0.5/0 = 0` of the totalised division (Python raises `ZeroDivisionError` there; `Config.permutation` rejects `total < 1`).
* `b' ≤ m` (`C13.extreme_le`, assumed in the UNPROVED statement of `C13c.lean`) is NOT needed: the summands of
  `cdfIntegral` with `k > m` carry the genuine coefficient `C(m,k) = 0`, see `cdfTerm_bounds`.
Proof: `p(b') − p(b) = (b'−b)/(m+1) − a·∫₀^a (F_{b'} − F_b)` with `a = 0.5/mt ∈ (0, ½]`, and each of the `b'−b` extra terms
`C(m,k) ∫₀^a p^k (1-p)^(m-k)` is at most the full Beta integral `C(m,k) ∫₀¹ … = 1/(m+1)` (`C13.monoIntegral_one`). -/
theorem pApproximate_mono (m mt : Nat) {b b' : Nat} (h : b ≤ b') (hmt : 1 ≤ mt) :
    (pApproximate b m mt : ℝ) ≤ pApproximate b' m mt := by
  obtain ⟨ha0, ha1⟩ := halfStep_mem mt hmt
  obtain ⟨d0, d1⟩ := cdfIntegral_diff_bounds m h ha0.le (by linarith : 1 / (2 * (mt : ℝ)) ≤ 1)
  rw [pApproximate_eq, pApproximate_eq]
  have hm : (0 : ℝ) < (m : ℝ) + 1 := by positivity
  have hbb : (0 : ℝ) ≤ ((b' : ℝ) - b) / ((m : ℝ) + 1) := d0.trans d1
  have e : ((b' : ℝ) + 1) / ((m : ℝ) + 1) = ((b : ℝ) + 1) / ((m : ℝ) + 1) + ((b' : ℝ) - b) / ((m : ℝ) + 1) := by ring
  rw [e]
  nlinarith

/-- strict version: one more extreme null statistic strictly increases the p-value (the subtracted term is at most
`a ≤ ½` times the increase of `(b+1)/(m+1)`) -/
theorem pApproximate_strictMono (m mt : Nat) {b b' : Nat} (h : b < b') (hmt : 1 ≤ mt) :
    (pApproximate b m mt : ℝ) < pApproximate b' m mt := by
  obtain ⟨ha0, ha1⟩ := halfStep_mem mt hmt
  obtain ⟨d0, d1⟩ := cdfIntegral_diff_bounds m h.le ha0.le (by linarith : 1 / (2 * (mt : ℝ)) ≤ 1)
  rw [pApproximate_eq, pApproximate_eq]
  have hm : (0 : ℝ) < (m : ℝ) + 1 := by positivity
  have hb : (0 : ℝ) < (b' : ℝ) - b := by have : (b : ℝ) < b' := by exact_mod_cast h
                                         linarith
  have hbb : (0 : ℝ) < ((b' : ℝ) - b) / ((m : ℝ) + 1) := div_pos hb hm
  have e : ((b' : ℝ) + 1) / ((m : ℝ) + 1) = ((b : ℝ) + 1) / ((m : ℝ) + 1) + ((b' : ℝ) - b) / ((m : ℝ) + 1) := by ring
  rw [e]
  nlinarith

/-- the specification (single factor, Phipson–Smyth) is monotone as well -/
theorem pApproximateSpec_mono (m mt : Nat) {b b' : Nat} (h : b ≤ b') (hmt : 1 ≤ mt) :
    (pApproximateSpec b m mt : ℝ) ≤ pApproximateSpec b' m mt := by
  obtain ⟨ha0, ha1⟩ := halfStep_mem mt hmt
  obtain ⟨d0, d1⟩ := cdfIntegral_diff_bounds m h ha0.le (by linarith : 1 / (2 * (mt : ℝ)) ≤ 1)
  rw [pApproximateSpec_eq, pApproximateSpec_eq]
  have e : ((b' : ℝ) + 1) / ((m : ℝ) + 1) = ((b : ℝ) + 1) / ((m : ℝ) + 1) + ((b' : ℝ) - b) / ((m : ℝ) + 1) := by ring
  rw [e]
  linarith

/-- non-vacuity: `b = 2 ≤ b' = 5`, `m = 99` null statistics, `mt = 1000` -/
example : (pApproximate 2 99 1000 : ℝ) ≤ pApproximate 5 99 1000 := pApproximate_mono 99 1000 (by decide) (by decide)
example : (pApproximate 2 99 1000 : ℝ) < pApproximate 3 99 1000 := pApproximate_strictMono 99 1000 (by decide) (by decide)

/-- **C13 (`pValue_antitone_obs_approximate`)** — end to end for `method = "approximate"`: a larger observed statistic
never gets a larger reported p-value from the same null statistics.  `n ≤ MAX_NUM_PERM` is `Config.permutation`'s bound
on `num_permutations`; `1 ≤ totalPerms …` excludes the junk limit `0.5/0`. -/
theorem pValue_antitone_obs_approximate (n : Nat) (hn : n ≤ maxNumPerm) (total : Option Nat) (maxPerms : Nat)
    (hmt : 1 ≤ totalPerms total maxPerms) (null : List ℝ) {obs obs' : ℝ} (h : obs ≤ obs') :
    pValue .approximate n total maxPerms null obs' ≤ pValue .approximate n total maxPerms null obs := by
  rw [pValue_spec .approximate n total maxPerms null obs hn, pValue_spec .approximate n total maxPerms null obs' hn]
  exact pApproximate_mono _ _ (extreme_antitone null h) hmt

/-- **C13 (`pValue_antitone_obs_all`)** — the same for EVERY method (`C13.pValue_antitone_obs` excluded `approximate`) -/
theorem pValue_antitone_obs_all (meth : Method) (n : Nat) (hn : n ≤ maxNumPerm) (total : Option Nat) (maxPerms : Nat)
    (hmt : 1 ≤ totalPerms total maxPerms) (null : List ℝ) {obs obs' : ℝ} (h : obs ≤ obs') :
    pValue meth n total maxPerms null obs' ≤ pValue meth n total maxPerms null obs := by
  by_cases hm : meth = .approximate
  · subst hm; exact pValue_antitone_obs_approximate n hn total maxPerms hmt null h
  · exact pValue_antitone_obs meth hm n hn total maxPerms null h

/-- non-vacuity: four null statistics, 24 distinct permutations, observed `4 ≤ 6` -/
example : pValue .approximate 100 none 24 [1, 5, 3, 7] (6 : ℝ) ≤ pValue .approximate 100 none 24 [1, 5, 3, 7] (4 : ℝ) :=
  pValue_antitone_obs_approximate 100 (by decide) none 24 (by decide) _ (by norm_num)

end A

/-! ## B. carrier-generic constant-stream silence of DDM -/
section B
open Frouros.C01c

/-- `c` is one of the two literals `0`, `1` of the carrier -/
def B01 {α : Type} [Num α] (c : α) : Prop := c = Num.zero ∨ c = Num.one

/-- **Exactness of the carrier on the two literals `0` and `1`.**  Nine identities; every one is a statement about
the constants `0`, `1` only (plus the family `0 / (n+1) = 0`), i.e. finitely many closed facts and one family.  All hold over
ℝ and for IEEE doubles in round-to-nearest (`1 - 1 = +0`, `0 / k = +0`, `sqrt(+0) = +0`, `1 * (1 - 1) = +0`, no `-0`
arises); for `Float` they cannot be proved inside Lean (opaque primitives), which is why they are hypotheses.
Where each is used on the trace of `DDM.step` on `c, c, c, …`:
  first update   `0 + (c - 0)/1`            `sub_zero`, `div_one`, `zero_add`
  later updates  `c + (c - c)/(n+1)`        `sub_self`, `zero_div`, `add_zero`
  `epsStd`       `sqrt(c (1 - c)/(n+1))`    `mul_compl`, `zero_div`, `sqrt_zero`;  `p + s = c + 0`  `add_zero`
  thresholds     `c > c + L·0`              (configuration: `L·0 = 0`), `add_zero`, `lt_irrefl` -/
structure ExactOn01 (α : Type) [Num α] : Prop where
  /-- running mean, later updates -/
  sub_self : ∀ c : α, B01 c → c - c = Num.zero
  /-- running mean, first update -/
  sub_zero : ∀ c : α, B01 c → c - Num.zero = c
  /-- running mean, `p + s`, `p_min + L·s_min` -/
  add_zero : ∀ c : α, B01 c → c + Num.zero = c
  /-- running mean, first update -/
  zero_add : ∀ c : α, B01 c → Num.zero + c = c
  /-- divisor `n + 1 ≥ 1`: never the junk `x / 0` -/
  zero_div : ∀ n : Nat, (Num.zero : α) / Num.ofNat (n + 1) = Num.zero
  /-- running mean, first update -/
  div_one : ∀ c : α, B01 c → c / Num.ofNat 1 = c
  /-- `p (1 - p)` -/
  mul_compl : ∀ c : α, B01 c → c * (Num.one - c) = Num.zero
  sqrt_zero : Num.sqrt (Num.zero : α) = Num.zero
  /-- `c > c` is False -/
  lt_irrefl : ∀ c : α, B01 c → Num.lt c c = false

namespace ExactDDM
open DDM
variable {α : Type} [Num α]

/-- the running mean after `≥ 0` updates with the constant `c` (any carrier): untouched, or exactly `c` -/
def MeanConstG (c : α) (m : Mean α) : Prop := (m.n = 0 ∧ m.mean = Num.zero) ∨ (1 ≤ m.n ∧ m.mean = c)

theorem meanConstG_init (c : α) : MeanConstG c (Mean.init : Mean α) := Or.inl ⟨rfl, rfl⟩

theorem mean_update_mean (E : ExactOn01 α) {c : α} (hc : B01 c) {m : Mean α} (h : MeanConstG c m) :
    (m.update c).mean = c := by
  unfold Mean.update
  rcases h with ⟨hn, hm⟩ | ⟨_, hm⟩
  · simp only [hn, hm, Nat.zero_add, E.sub_zero c hc, E.div_one c hc, E.zero_add c hc]
  · simp only [hm, E.sub_self c hc, E.zero_div, E.add_zero c hc]

theorem meanConstG_update (E : ExactOn01 α) {c : α} (hc : B01 c) {m : Mean α} (h : MeanConstG c m) :
    MeanConstG c (m.update c) :=
  Or.inr ⟨Nat.le_add_left 1 m.n, mean_update_mean E hc h⟩

/-- `_calculate_error_rate_plus_std` on a constant 0/1 stream, any exact carrier: `(c, 0)`.
The divisor is `ofNat (n+1)` — at every call site of `DDM.step` it is `s.n + 1 ≥ 1`, no `x/0`. -/
theorem epsStd_const (E : ExactOn01 α) {c : α} (hc : B01 c) {m : Mean α} (h : MeanConstG c m) (n : Nat) :
    epsStd (m.update c) (n + 1) = (c, Num.zero) := by
  unfold epsStd
  simp only [mean_update_mean E hc h, E.mul_compl c hc, E.zero_div, E.sqrt_zero, E.add_zero c hc]

structure Inv (c : α) (s : State α) : Prop where
  er : MeanConstG c s.er
  ern : s.er.n = s.n
  minPS : s.minPS = none ∨ s.minPS = some (c, Num.zero)
  drift : s.drift = false
  warning : s.warning = false

theorem inv_init (c : α) : Inv c (init : State α) := ⟨meanConstG_init c, rfl, Or.inl rfl, rfl, rfl⟩
theorem inv_reset (c : α) (s : State α) : Inv c (reset s) := ⟨meanConstG_init c, rfl, Or.inl rfl, rfl, rfl⟩

/-- one step, with the two threshold comparisons as they are literally evaluated kept as hypotheses -/
theorem inv_step_core (E : ExactOn01 α) (cfg : Cfg α) {c : α} (hc : B01 c)
    (hW : Num.gt c (c + cfg.warn * Num.zero) = false) (hD : Num.gt c (c + cfg.drift * Num.zero) = false)
    {s : State α} (h : Inv c s) : Inv c (step cfg s c) := by
  have hE := epsStd_const E hc h.er s.n
  have hm := meanConstG_update E hc h.er
  have hmean := mean_update_mean E hc h.er
  have hn : (s.er.update c).n = s.n + 1 := by show s.er.n + 1 = s.n + 1; rw [h.ern]
  unfold step
  simp only [hE]
  by_cases hmin : cfg.minN ≤ s.n + 1
  · have hm' : (if belowMin c s.minPS = true then some ((s.er.update c).mean, (Num.zero : α)) else s.minPS)
        = some (c, Num.zero) := by
      rcases h.minPS with hp | hp
      · simp [hp, belowMin, hmean]
      · rw [hp, hmean]; split <;> rfl
    simp only [hmin, if_true, hm', exceeds, hW, hD, Bool.false_eq_true, if_false]
    exact ⟨hm, hn, Or.inr rfl, rfl, rfl⟩
  · simp only [hmin, if_false]
    exact ⟨hm, hn, h.minPS, rfl, rfl⟩

theorem gt_level_false (E : ExactOn01 α) {c : α} (hc : B01 c) {L : α} (hL : L * Num.zero = Num.zero) :
    Num.gt c (c + L * Num.zero) = false := by
  rw [hL, E.add_zero c hc]; exact E.lt_irrefl c hc

end ExactDDM

variable {α : Type} [Num α]

/-- the invariant (`p = c`, `s = 0`, `(p_min, s_min)` unset or `(c, 0)`, no flag) after EVERY history of `update c` and
`reset`, with the two threshold comparisons kept exactly as the code evaluates them.  This form also covers levels for which
`L * 0 ≠ 0` (IEEE: `±inf * 0 = NaN`, `NaN * 0 = NaN`, and `c > c + NaN` is False) — see `ddm_const_exact_real_nan`. -/
theorem ddm_const_exact_inv_core (E : ExactOn01 α) (cfg : DDM.Cfg α) (c : α) (hc : B01 c)
    (hW : Num.gt c (c + cfg.warn * Num.zero) = false) (hD : Num.gt c (c + cfg.drift * Num.zero) = false)
    {ops : List (Op α)} (h : ConstHist c ops) : ExactDDM.Inv c ((DDM.machine cfg).run ops) :=
  const_run (DDM.machine cfg) (ExactDDM.inv_init c) (fun _ hs => ExactDDM.inv_step_core E cfg hc hW hD hs)
    (fun s _ => ExactDDM.inv_reset c s) h

theorem ddm_const_exact_inv (E : ExactOn01 α) (cfg : DDM.Cfg α)
    (hw : cfg.warn * Num.zero = Num.zero) (hd : cfg.drift * Num.zero = Num.zero)
    (c : α) (hc : B01 c) {ops : List (Op α)} (h : ConstHist c ops) :
    ExactDDM.Inv c ((DDM.machine cfg).run ops) :=
  ddm_const_exact_inv_core E cfg c hc (ExactDDM.gt_level_false E hc hw) (ExactDDM.gt_level_false E hc hd) h

/-- **C01 (`ddm_const_exact`)** — constant-stream silence of DDM for EVERY carrier that is exact on `{0, 1}`:
after any history of `update c` (`c` the literal `0` or the literal `1`) and `reset` operations — hence at every prefix of
it, `ConstHist` being prefix-closed — neither `drift` nor `warning` is up.  Hypotheses: the nine identities of
`ExactOn01 α` and `warn * 0 = 0`, `drift * 0 = 0` (true for every finite level of every carrier considered here; false for
`±inf`/NaN levels of IEEE doubles, for which use `ddm_const_exact_inv_core`).  NO hypothesis on `minN`, on the order of the
levels, or on any other operation of the carrier (`log`, `exp`, `abs`, `npow`, `le`, `beq`, `ofDec`, negation unused). -/
theorem ddm_const_exact (E : ExactOn01 α) (cfg : DDM.Cfg α)
    (hw : cfg.warn * Num.zero = Num.zero) (hd : cfg.drift * Num.zero = Num.zero)
    (c : α) (hc : c = Num.zero ∨ c = Num.one) {ops : List (Op α)} (h : ConstHist c ops) :
    ((DDM.machine cfg).run ops).drift = false ∧ ((DDM.machine cfg).run ops).warning = false :=
  ⟨(ddm_const_exact_inv E cfg hw hd c hc h).drift, (ddm_const_exact_inv E cfg hw hd c hc h).warning⟩

/-- stream form: folding `step` over `k` copies of `c` -/
theorem ddm_const_exact_stream (E : ExactOn01 α) (cfg : DDM.Cfg α)
    (hw : cfg.warn * Num.zero = Num.zero) (hd : cfg.drift * Num.zero = Num.zero)
    (c : α) (hc : c = Num.zero ∨ c = Num.one) (k : Nat) :
    ((List.replicate k c).foldl (DDM.step cfg) DDM.init).drift = false ∧
    ((List.replicate k c).foldl (DDM.step cfg) DDM.init).warning = false := by
  have := ddm_const_exact E cfg hw hd c hc (constHist_replicate c k)
  rwa [← foldl_replicate_eq_run (DDM.machine cfg) c k] at this

/-! ### carriers satisfying `ExactOn01` -/

/-- ℝ -/
theorem exactOn01_real : ExactOn01 ℝ where
  sub_self c _ := by simp
  sub_zero c _ := by simp
  add_zero c _ := by simp
  zero_add c _ := by simp
  zero_div n := by simp
  div_one c _ := by simp
  mul_compl c hc := by rcases hc with rfl | rfl <;> simp
  sqrt_zero := by simp
  lt_irrefl c _ := by simp

theorem level_real (L : ℝ) : L * (Num.zero : ℝ) = Num.zero := by simp

/-- adjoining one NaN (`Option α`, `none` = NaN, `C07.nanNum`) preserves exactness on `{0, 1}` -/
theorem exactOn01_nan (E : ExactOn01 α) : @ExactOn01 (Option α) (C07.nanNum α) := by
  let _ := C07.nanNum α
  have hz : (Num.zero : Option α) = some (Num.zero : α) := rfl
  have ho : (Num.one : Option α) = some (Num.one : α) := rfl
  have hB : ∀ c : Option α, B01 c → ∃ x : α, c = some x ∧ B01 x := by
    intro c hc
    rcases hc with rfl | rfl
    · exact ⟨Num.zero, rfl, Or.inl rfl⟩
    · exact ⟨Num.one, rfl, Or.inr rfl⟩
  refine ⟨?_, ?_, ?_, ?_, ?_, ?_, ?_, ?_, ?_⟩
  · intro c hc; obtain ⟨x, rfl, hx⟩ := hB c hc
    show some (x - x) = some Num.zero; rw [E.sub_self x hx]
  · intro c hc; obtain ⟨x, rfl, hx⟩ := hB c hc
    show some (x - Num.zero) = some x; rw [E.sub_zero x hx]
  · intro c hc; obtain ⟨x, rfl, hx⟩ := hB c hc
    show some (x + Num.zero) = some x; rw [E.add_zero x hx]
  · intro c hc; obtain ⟨x, rfl, hx⟩ := hB c hc
    show some (Num.zero + x) = some x; rw [E.zero_add x hx]
  · intro n
    show some ((Num.zero : α) / Num.ofNat (n + 1)) = some Num.zero; rw [E.zero_div n]
  · intro c hc; obtain ⟨x, rfl, hx⟩ := hB c hc
    show some (x / Num.ofNat 1) = some x; rw [E.div_one x hx]
  · intro c hc; obtain ⟨x, rfl, hx⟩ := hB c hc
    show some (x * (Num.one - x)) = some Num.zero; rw [E.mul_compl x hx]
  · show some (Num.sqrt (Num.zero : α)) = some Num.zero; rw [E.sqrt_zero]
  · intro c hc; obtain ⟨x, rfl, hx⟩ := hB c hc
    show Num.lt x x = false; exact E.lt_irrefl x hx

/-- the rounding toy carrier of `C07b` (integers, magnitudes `≥ 100` rounded to multiples of 100) -/
theorem exactOn01_coarse : ExactOn01 C07.Coarse := by
  have hz : (Num.zero : C07.Coarse) = ⟨0⟩ := by decide
  have ho : (Num.one : C07.Coarse) = ⟨1⟩ := by decide
  refine ⟨?_, ?_, ?_, ?_, ?_, ?_, ?_, ?_, ?_⟩
  · intro c hc; rcases hc with rfl | rfl <;> decide
  · intro c hc; rcases hc with rfl | rfl <;> decide
  · intro c hc; rcases hc with rfl | rfl <;> decide
  · intro c hc; rcases hc with rfl | rfl <;> decide
  · intro n
    rw [hz]
    show C07.Coarse.rnd ((0 : Int) / _) = _
    rw [Int.zero_ediv]; decide
  · intro c hc; rcases hc with rfl | rfl <;> decide
  · intro c hc; rcases hc with rfl | rfl <;> decide
  · decide
  · intro c hc; rcases hc with rfl | rfl <;> decide

theorem level_coarse (L : C07.Coarse) : L * (Num.zero : C07.Coarse) = Num.zero := by
  have hz : (Num.zero : C07.Coarse) = ⟨0⟩ := by decide
  rw [hz]
  show C07.Coarse.rnd (L.v * 0) = _
  rw [Int.mul_zero]; decide

/-! ### the theorem at the three carriers -/

/-- ℝ: `C01c.ddm_const_resets` is the instance `α = ℝ` (no hypothesis on the configuration is left) -/
theorem ddm_const_exact_real (cfg : DDM.Cfg ℝ) (c : ℝ) (hc : c = 0 ∨ c = 1) {ops : List (Op ℝ)}
    (h : ConstHist c ops) :
    ((DDM.machine cfg).run ops).drift = false ∧ ((DDM.machine cfg).run ops).warning = false :=
  ddm_const_exact exactOn01_real cfg (level_real _) (level_real _) c (by simpa using hc) h

/-- "ℝ with a NaN": EVERY configuration, NaN levels included -/
theorem ddm_const_exact_real_nan :
    letI := C07.nanNum ℝ
    ∀ (cfg : DDM.Cfg (Option ℝ)) (c : Option ℝ), c = some 0 ∨ c = some 1 →
      ∀ {ops : List (Op (Option ℝ))}, ConstHist c ops →
        ((DDM.machine cfg).run ops).drift = false ∧ ((DDM.machine cfg).run ops).warning = false := by
  let _ := C07.nanNum ℝ
  intro cfg c hc ops h
  have E := exactOn01_nan exactOn01_real
  have hc' : B01 c := by
    rcases hc with rfl | rfl
    · left; show some (0 : ℝ) = some ((0 : Nat) : ℝ); simp
    · right; show some (1 : ℝ) = some ((1 : Nat) : ℝ); simp
  have hlev : ∀ L : Option ℝ, Num.gt c (c + L * Num.zero) = false := by
    intro L
    cases L with
    | none => rcases hc with rfl | rfl <;> rfl
    | some w =>
      apply ExactDDM.gt_level_false E hc'
      show some (w * ((0 : Nat) : ℝ)) = some ((0 : Nat) : ℝ)
      simp
  have := ddm_const_exact_inv_core E cfg c hc' (hlev _) (hlev _) h
  exact ⟨this.drift, this.warning⟩

/-- the rounding carrier `Coarse`: every configuration -/
theorem ddm_const_exact_coarse (cfg : DDM.Cfg C07.Coarse) (c : C07.Coarse) (hc : c = ⟨0⟩ ∨ c = ⟨1⟩)
    {ops : List (Op C07.Coarse)} (h : ConstHist c ops) :
    ((DDM.machine cfg).run ops).drift = false ∧ ((DDM.machine cfg).run ops).warning = false :=
  ddm_const_exact exactOn01_coarse cfg (level_coarse _) (level_coarse _) c
    (by rcases hc with rfl | rfl; exacts [Or.inl (by decide), Or.inr (by decide)]) h


/-! ### non-vacuity of the three instances (concrete configurations and histories) -/

/-- ℝ, defaults `(2, 3, 30)`, the history `1, 1, reset, 1` -/
example : ((DDM.machine (⟨2, 3, 30⟩ : DDM.Cfg ℝ)).run [Op.update 1, Op.update 1, Op.reset, Op.update 1]).warning = false :=
  (ddm_const_exact_real _ 1 (Or.inr rfl) (constHist_example (1 : ℝ))).2

/-- ℝ ∪ {NaN}: a NaN drift level, 100 ones, short warm-up -/
example :
    letI := C07.nanNum ℝ
    ((DDM.machine (⟨some 2, none, 1⟩ : DDM.Cfg (Option ℝ))).run (List.replicate 100 (Op.update (some 1)))).drift = false :=
  (ddm_const_exact_real_nan ⟨some 2, none, 1⟩ (some 1) (Or.inr rfl) (constHist_replicate _ 100)).1

/-- the rounding carrier, 1000 zeros (the divisor `ofNat (n+1)` is rounded from `n = 100` on) -/
example : ((DDM.machine (⟨⟨2⟩, ⟨3⟩, 1⟩ : DDM.Cfg C07.Coarse)).run (List.replicate 1000 (Op.update ⟨0⟩))).drift = false :=
  (ddm_const_exact_coarse _ ⟨0⟩ (Or.inl rfl) (constHist_replicate _ 1000)).1

/-! ### the hypotheses are not decoration: one broken identity, and DDM alarms on a constant stream -/

/-- `Coarse` with ONE law broken: `0 / k = k - 1` (so `0 / 1 = 0` but `0 / (n+1) ≠ 0` for `n ≥ 1`) -/
@[reducible] def lossyDiv : Num C07.Coarse :=
  { (inferInstance : Num C07.Coarse) with
    div := fun a b => if a.v = 0 then ⟨b.v - 1⟩ else C07.Coarse.rnd (a.v / b.v) }

/-- **`ddm_const_inexact_witness`** — on the carrier `lossyDiv` every field of `ExactOn01` EXCEPT `zero_div` holds, both
configuration identities hold, the configuration `(warn, drift, minN) = (1, 2, 1)` is accepted by `Config.ddm`, and DDM
raises `drift` on the constant stream `0, 0` (the mean becomes `0 + (0 - 0)/2 = 1`).  So `ddm_const_exact` is false
without `zero_div`: constant-stream silence of DDM is an ARITHMETIC fact, not control flow. -/
theorem ddm_const_inexact_witness :
    letI := lossyDiv
    (∀ c : C07.Coarse, B01 c → c - c = Num.zero) ∧ (∀ c : C07.Coarse, B01 c → c - Num.zero = c) ∧
    (∀ c : C07.Coarse, B01 c → c + Num.zero = c) ∧ (∀ c : C07.Coarse, B01 c → Num.zero + c = c) ∧
    (∀ c : C07.Coarse, B01 c → c / Num.ofNat 1 = c) ∧ (∀ c : C07.Coarse, B01 c → c * (Num.one - c) = Num.zero) ∧
    Num.sqrt (Num.zero : C07.Coarse) = Num.zero ∧ (∀ c : C07.Coarse, B01 c → Num.lt c c = false) ∧
    (Num.zero : C07.Coarse) / Num.ofNat (1 + 1) ≠ Num.zero ∧
    (⟨1⟩ : C07.Coarse) * Num.zero = Num.zero ∧ (⟨2⟩ : C07.Coarse) * Num.zero = Num.zero ∧
    Config.ddm (⟨1⟩ : C07.Coarse) ⟨2⟩ 1 = none ∧
    ((List.replicate 2 (Num.zero : C07.Coarse)).foldl (DDM.step ⟨⟨1⟩, ⟨2⟩, 1⟩) DDM.init).drift = true := by
  let _ := lossyDiv
  refine ⟨?_, ?_, ?_, ?_, ?_, ?_, by decide, ?_, by decide, by decide, by decide, by decide, by decide⟩ <;>
    (intro c hc; rcases hc with rfl | rfl <;> decide)

/- UNPROVED (full statement), NOT ATTEMPTED — the other two 0/1 detectors of review proposal 10:

     theorem rddm_const_exact [Num α] (E : ExactOn01 α) (cfg : RDDM.Cfg α) (hcap : 1 ≤ cfg.minConcept)
         (hw : cfg.warn * Num.zero = Num.zero) (hd : cfg.drift * Num.zero = Num.zero)
         (c : α) (hc : c = Num.zero ∨ c = Num.one) {ops} (h : ConstHist c ops) :
         ((RDDM.machine cfg).run ops).drift = false ∧ ((RDDM.machine cfg).run ops).warning = false
   (expected to go through with the same nine identities: RDDM's statistics are DDM's; the extra work is the bookkeeping
   of the stored-predictions window, cf. `Lemmas/ConstRDDM.lean`.)

     theorem ecdd_const_exact …
   is NOT an exactness fact: over ℝ the proof (`C01c.Ecdd.inv_step`) uses `z_t = c (1 − (1−λ)^t) ≤ c`, an order property of
   the EWMA recursion `λ c + (1−λ) z`, which no finite list of identities on `{0, 1}` gives for a rounding carrier; for
   `c = 0` it would need `λ·0 + (1−λ)·0 = 0`, for `c = 1` monotone rounding of `λ + (1−λ) z ≤ 1`. -/

end B

/-! ## C. Non-vacuity repairs (review §1 C06b / C08c, §4 item 5)

The four `example`s named by the review (`C06b.lean` l. 334/351/355, `C08c.lean` l. 230) are `example := f a₁ … aₖ` with
no type ascription; their remaining arguments are on continuation lines, so they are in fact fully applied, but the
proposition they establish is not displayed anywhere and the reader has to elaborate the term to see that no hypothesis is
left open.  Below each theorem is instantiated as a NAMED theorem whose statement lists the discharged hypotheses and the
conclusion, evaluated down to the verdict. -/
section C
open Frouros.KS Frouros.C06 Frouros.C06b

/-- **`C06b.kswin_ks_rule`, fully instantiated.**  `alpha = 0.05`, `minN = 4`, `numTest = 2`; stream `1, 2, 3, 4`; the draw
`[1, 0]` at the step that fills the window.  All three hypotheses (`hfull`, `hk`, `ValidTape`) are part of the statement
and proved; the older part is `[1, 2]`, the newest `[3, 4]`, the drawn sample `[2, 1]`, lattice distance `h = 2`,
`2` of the `C(4,2) = 6` interleavings reach it, `p = 1/3 > 0.05`: no drift. -/
theorem kswin_ks_rule_instance :
    let c : KSWIN.Cfg ℝ := ⟨0.05, 4, 2⟩
    let xs : List (ℝ × List Nat) := [(1, []), (2, []), (3, [])]
    let v : ℝ := 4
    let tape : List Nat := [1, 0]
    (c.minN ≤ xs.length + 1) ∧ (c.numTest ≤ c.minN) ∧
    ValidTape c.numTest (older c (xs.map Prod.fst ++ [v])).length tape ∧
    older c (xs.map Prod.fst ++ [v]) = [1, 2] ∧ lastN c.numTest (xs.map Prod.fst ++ [v]) = [3, 4] ∧
    hTwoSided ([2, 1] : List ℝ) [3, 4] = 2 ∧
    (C11.paths 2 2).countP (fun p => decide (2 ≤ C11.pathH 2 2 p)) = 2 ∧
    (kfeed pReal c (xs ++ [(v, tape)])).drift = false := by
  intro c xs v tape
  have h1 : c.minN ≤ xs.length + 1 := by simp [c, xs]
  have h2 : c.numTest ≤ c.minN := by simp [c]
  have ho : older c (xs.map Prod.fst ++ [v]) = [1, 2] := by simp [older, lastN, c, xs, v]
  have hl : lastN c.numTest (xs.map Prod.fst ++ [v]) = [3, 4] := by simp [lastN, c, xs, v]
  have h3 : ValidTape c.numTest (older c (xs.map Prod.fst ++ [v])).length tape := by
    rw [ho]; simp [ValidTape, c, tape]
  have hh : hTwoSided ([2, 1] : List ℝ) [3, 4] = 2 := by
    simp [hTwoSided, devs, countLe, Num.le]
    norm_num
  have hcnt : (C11.paths 2 2).countP (fun p => decide (2 ≤ C11.pathH 2 2 p)) = 2 := by
    simp [C11.paths, C11.pathH, C11.latDev, List.inits]
  refine ⟨h1, h2, h3, ho, hl, hh, hcnt, ?_⟩
  obtain ⟨sample, hs, -, -, hiff⟩ := kswin_ks_rule c xs v tape h1 h2 h3
  have hsample : sample = [2, 1] := by
    rw [ho] at hs
    have : sample.map some = [some 2, some 1] := by simpa [tape] using hs
    exact List.map_injective_iff.mpr (Option.some_injective _) (by simpa using this)
  rw [← Bool.not_eq_true, hiff, hsample, hl]
  simp only [c, hh, hcnt]
  norm_num [Nat.choose]

/-! ### STEPD: `sf t = 1 − t`, levels `0.003 / 0.05`, window 2, and two streams that DO alarm -/

/-- a strictly decreasing stand-in for the survival function (the normal `sf` is not available, see `C06b.lean`) -/
noncomputable def sfLin : ℝ → ℝ := fun t => 1 - t
theorem sfLin_strictAnti : StrictAnti sfLin := fun _ _ h => sub_lt_sub_left h 1
/-- `alpha_d = 0.003`, `alpha_w = 0.05` (the defaults), `min_num_instances = 2` -/
noncomputable def cfgS : STEPD.Cfg ℝ := ⟨0.003, 0.05, 2⟩
/-- eight correct predictions, then two wrong ones -/
def bsA : List Bool := List.replicate 8 true ++ [false, false]
/-- eighteen correct predictions, then two wrong ones -/
def bsB : List Bool := List.replicate 18 true ++ [false, false]

theorem bsA_counts : bsA.length = 10 ∧ coOf 2 bsA = 8 ∧ cwOf 2 bsA = 0 := by decide
theorem bsB_counts : bsB.length = 20 ∧ coOf 2 bsB = 18 ∧ cwOf 2 bsB = 0 := by decide

/-- the statistic of `bsA`: `(|8/8 − 0/2| − ½(1/8 + 1/2)) / √(0.8·0.2·(1/8 + 1/2)) = (11/16)/√(1/10) ≈ 2.17` -/
theorem specT_A : specT 10 2 8 0 = (11 / 16) / √(1 / 10) := by
  unfold specT specP specInv
  norm_num
/-- the statistic of `bsB`: `(13/18)/√(1/20) ≈ 3.23` -/
theorem specT_B : specT 20 2 18 0 = (13 / 18) / √(1 / 20) := by
  unfold specT specP specInv
  norm_num

theorem specT_A_gt : (0.997 : ℝ) < specT 10 2 8 0 := by
  have hpos : 0 < √((1 : ℝ) / 10) := Real.sqrt_pos.mpr (by norm_num)
  have hlt : √((1 : ℝ) / 10) < 1 / 2 := by rw [Real.sqrt_lt' (by norm_num)]; norm_num
  rw [specT_A, lt_div_iff₀ hpos]
  nlinarith

theorem specT_A_le_B : specT 10 2 8 0 ≤ specT 20 2 18 0 := by
  rw [specT_A, specT_B]
  have h1 : √((1 : ℝ) / 20) ≤ √((1 : ℝ) / 10) := Real.sqrt_le_sqrt (by norm_num)
  have h2 : 0 < √((1 : ℝ) / 20) := Real.sqrt_pos.mpr (by norm_num)
  exact div_le_div₀ (by norm_num) (by norm_num) h2 h1

/-- `hvar` for `bsA`: the pooled variance `0.8 · 0.2` is not zero -/
theorem hvar_A : specP bsA.length (coOf cfgS.minN bsA) (cwOf cfgS.minN bsA)
    * (1 - specP bsA.length (coOf cfgS.minN bsA) (cwOf cfgS.minN bsA)) ≠ 0 := by
  show specP bsA.length (coOf 2 bsA) (cwOf 2 bsA) * (1 - specP bsA.length (coOf 2 bsA) (cwOf 2 bsA)) ≠ 0
  rw [bsA_counts.1, bsA_counts.2.1, bsA_counts.2.2]; unfold specP; norm_num
/-- `hvar` for `bsB`: `0.9 · 0.1 ≠ 0` -/
theorem hvar_B : specP bsB.length (coOf cfgS.minN bsB) (cwOf cfgS.minN bsB)
    * (1 - specP bsB.length (coOf cfgS.minN bsB) (cwOf cfgS.minN bsB)) ≠ 0 := by
  show specP bsB.length (coOf 2 bsB) (cwOf 2 bsB) * (1 - specP bsB.length (coOf 2 bsB) (cwOf 2 bsB)) ≠ 0
  rw [bsB_counts.1, bsB_counts.2.1, bsB_counts.2.2]; unfold specP; norm_num

/-- **`C06b.stepd_threshold_form`, fully instantiated** (`StrictAnti sf`, `0 < minN`, `2·minN ≤ t`, `hvar`, and the
attained levels `sf 0.997 = alpha_d`, `sf 0.95 = alpha_w` all discharged): on `bsA` the statistic exceeds the critical
value `0.997`, so the model reports `drift` and no `warning`. -/
theorem stepd_threshold_form_instance :
    sfLin 0.997 = cfgS.alphaD ∧ sfLin 0.95 = cfgS.alphaW ∧
    (sfeed sfLin cfgS bsA).drift = true ∧ (sfeed sfLin cfgS bsA).warning = false := by
  have hpos : 0 < cfgS.minN := by decide
  have ht : 2 * cfgS.minN ≤ bsA.length := by decide
  have hzD : sfLin 0.997 = cfgS.alphaD := by norm_num [sfLin, cfgS]
  have hzW : sfLin 0.95 = cfgS.alphaW := by norm_num [sfLin, cfgS]
  obtain ⟨hd, hw⟩ := stepd_threshold_form sfLin sfLin_strictAnti cfgS hpos bsA ht hvar_A 0.997 0.95 hzD hzW
  have hT : specT bsA.length cfgS.minN (coOf cfgS.minN bsA) (cwOf cfgS.minN bsA) = specT 10 2 8 0 := by
    show specT bsA.length 2 (coOf 2 bsA) (cwOf 2 bsA) = _
    rw [bsA_counts.1, bsA_counts.2.1, bsA_counts.2.2]
  rw [hT] at hd hw
  refine ⟨hzD, hzW, hd.mpr specT_A_gt, ?_⟩
  rw [← Bool.not_eq_true, hw]
  intro h
  exact absurd specT_A_gt (not_lt.mpr h.2)

/-- **`C06b.stepd_monotone`, fully instantiated with two DIFFERENT streams**: `bsA` alarms (previous theorem), `bsB` has
the larger statistic (`specT_A_le_B`), both are non-degenerate and past the warm-up — hence `bsB` alarms. -/
theorem stepd_monotone_instance : (sfeed sfLin cfgS bsB).drift = true := by
  have hpos : 0 < cfgS.minN := by decide
  refine stepd_monotone sfLin sfLin_strictAnti.antitone cfgS hpos bsA bsB (by decide) (by decide) hvar_A hvar_B ?_
    stepd_threshold_form_instance.2.2.1
  show specT bsA.length 2 (coOf 2 bsA) (cwOf 2 bsA) ≤ specT bsB.length 2 (coOf 2 bsB) (cwOf 2 bsB)
  rw [bsA_counts.1, bsA_counts.2.1, bsA_counts.2.2, bsB_counts.1, bsB_counts.2.1, bsB_counts.2.2]
  exact specT_A_le_B

open Frouros.C08 in
/-- `hneg` of `C08.lseShift_sum_bounds` for the stand-in `-5` and the entries `1, 3, 2` -/
theorem lse_hneg : ∀ x ∈ ([1, 3, 2] : List ℝ), (realPrims (-5)).negInf < x := by
  intro x hx
  simp only [List.mem_cons, List.not_mem_nil, or_false] at hx
  rcases hx with rfl | rfl | rfl <;> norm_num [realPrims]

open Frouros.C08 in
/-- **`C08.lseShift_sum_bounds`, fully instantiated** (`E.zero = 0`, `isFinite ≡ true`, `l ≠ []`, `hneg` discharged):
for `l = [1, 3, 2]` the shift is `3`, every shifted exponent is `≤ 0`, and the summed quantity lies in `[1, 3]`. -/
theorem lseShift_sum_bounds_instance :
    lseAmax (realPrims (-5)) [1, 3, 2] = 3 ∧
    (∀ x ∈ ([1, 3, 2] : List ℝ), x - 3 ≤ 0) ∧
    1 ≤ lseSum (realPrims (-5)) 3 [1, 3, 2] ∧ lseSum (realPrims (-5)) 3 [1, 3, 2] ≤ 3 := by
  have hmax : lseAmax (realPrims (-5)) [1, 3, 2] = 3 := by
    simp [lseAmax, realPrims]; norm_num
  have h := lseShift_sum_bounds (realPrims (-5)) rfl (fun _ => rfl) [1, 3, 2] (by simp) lse_hneg
  rw [hmax] at h
  refine ⟨hmax, h.1, h.2.1, ?_⟩
  have := h.2.2
  norm_num at this ⊢
  exact this

end C

/-! ## D. `nan_rejected_*` on a carrier with ONE NaN (review §1 C20b, NV)

`C20b.lean` exhibits `Unordered` only on `Unit` with every comparison False, where `0` and `1` are "NaN" too and NOTHING
is accepted.  On `Option α` with `C07.nanNum α` (`none` = NaN; arithmetic propagates it, every comparison with it is False —
IEEE semantics) `none` is unordered while `some x` compares as `x` does, so validation separates the two. -/
section D
open Frouros.C20b Frouros.Config
variable {α : Type} [Num α]

/-- the adjoined NaN is unordered, for every base carrier -/
theorem unordered_none : @Unordered (Option α) (C07.nanNum α) none := by
  let _ := C07.nanNum α
  intro w
  refine ⟨rfl, ?_, rfl, ?_, rfl⟩ <;> cases w <;> rfl

/-- on non-NaN parameters the validation over `α ∪ {NaN}` IS the validation over `α` (definitionally) -/
theorem config_ddm_some (w d : α) (n : Int) :
    @Config.ddm (Option α) (C07.nanNum α) (some w) (some d) n = Config.ddm w d n := rfl
theorem config_hddmw_some (aD aW lam : α) (n : Int) :
    @Config.hddmw (Option α) (C07.nanNum α) (some aD) (some aW) (some lam) n = Config.hddmw aD aW lam n := rfl
theorem config_kswin_some (a : α) (n k : Int) :
    @Config.kswin (Option α) (C07.nanNum α) (some a) n k = Config.kswin a n k := rfl

/-- **DDM on `α ∪ {NaN}`**: accepted iff neither level is NaN and the pair is accepted over `α`
(`⇒` is `C20b.nan_rejected_ddm` at `Unordered none`) -/
theorem ddm_accepts_nan_iff :
    letI := C07.nanNum α
    ∀ (w d : Option α) (n : Int), Config.ddm w d n = none ↔
      ∃ w' d', w = some w' ∧ d = some d' ∧ Config.ddm w' d' n = none := by
  let _ := C07.nanNum α
  intro w d n
  cases w with
  | none => exact ⟨fun h => absurd h (nan_rejected_ddm _ _ _ (Or.inl unordered_none)), fun ⟨_, _, h, _⟩ => by cases h⟩
  | some w' =>
    cases d with
    | none => exact ⟨fun h => absurd h (nan_rejected_ddm _ _ _ (Or.inr unordered_none)), fun ⟨_, _, _, h, _⟩ => by cases h⟩
    | some d' =>
      rw [config_ddm_some]
      exact ⟨fun h => ⟨w', d', rfl, rfl, h⟩, fun ⟨_, _, h1, h2, h⟩ => by cases h1; cases h2; exact h⟩

/-- **KSWIN on `α ∪ {NaN}`** (`C20b.nan_rejected_kswin`) -/
theorem kswin_accepts_nan_iff :
    letI := C07.nanNum α
    ∀ (a : Option α) (n k : Int), Config.kswin a n k = none ↔ ∃ a', a = some a' ∧ Config.kswin a' n k = none := by
  let _ := C07.nanNum α
  intro a n k
  cases a with
  | none => exact ⟨fun h => absurd h (nan_rejected_kswin _ _ _ unordered_none), fun ⟨_, h, _⟩ => by cases h⟩
  | some a' =>
    rw [config_kswin_some]
    exact ⟨fun h => ⟨a', rfl, h⟩, fun ⟨_, h1, h⟩ => by cases h1; exact h⟩

/-- **HDDM-W on `α ∪ {NaN}`** (`C20b.nan_rejected_hddmw`, all three real parameters) -/
theorem hddmw_accepts_nan_iff :
    letI := C07.nanNum α
    ∀ (aD aW lam : Option α) (n : Int), Config.hddmw aD aW lam n = none ↔
      ∃ aD' aW' lam', aD = some aD' ∧ aW = some aW' ∧ lam = some lam' ∧ Config.hddmw aD' aW' lam' n = none := by
  let _ := C07.nanNum α
  intro aD aW lam n
  cases aD with
  | none => exact ⟨fun h => absurd h (nan_rejected_hddmw _ _ _ _ (Or.inl unordered_none)), fun ⟨_, _, _, h, _⟩ => by cases h⟩
  | some aD' =>
    cases aW with
    | none => exact ⟨fun h => absurd h (nan_rejected_hddmw _ _ _ _ (Or.inr (Or.inl unordered_none))),
        fun ⟨_, _, _, _, h, _⟩ => by cases h⟩
    | some aW' =>
      cases lam with
      | none => exact ⟨fun h => absurd h (nan_rejected_hddmw _ _ _ _ (Or.inr (Or.inr unordered_none))),
          fun ⟨_, _, _, _, _, h, _⟩ => by cases h⟩
      | some lam' =>
        rw [config_hddmw_some]
        exact ⟨fun h => ⟨aD', aW', lam', rfl, rfl, rfl, h⟩,
          fun ⟨_, _, _, h1, h2, h3, h⟩ => by cases h1; cases h2; cases h3; exact h⟩

/-- **concrete, on "ℝ with one NaN"**: NaN is rejected while the library defaults are accepted — and the finding
`C20b.nan_accepted_eddm_alpha_witness` is visible on this carrier too. -/
theorem nan_rejected_real_nan_instances :
    letI := C07.nanNum ℝ
    -- DDM: NaN warning level / NaN drift level rejected, the defaults `(2, 3, 30)` accepted
    Config.ddm (none : Option ℝ) (some 3) 30 ≠ none ∧ Config.ddm (some 2 : Option ℝ) none 30 ≠ none ∧
    Config.ddm (some 2 : Option ℝ) (some 3) 30 = none ∧
    -- HDDM-W: NaN `lambda` rejected, the defaults `(0.001, 0.005, 0.05, 30)` accepted
    Config.hddmw (some 0.001 : Option ℝ) (some 0.005) none 30 ≠ none ∧
    Config.hddmw (some 0.001 : Option ℝ) (some 0.005) (some 0.05) 30 = none ∧
    -- KSWIN: NaN `alpha` rejected, the defaults `(0.0001, 100, 30)` accepted
    Config.kswin (none : Option ℝ) 100 30 ≠ none ∧ Config.kswin (some 0.0001 : Option ℝ) 100 30 = none ∧
    -- the finding survives on this carrier: EDDM accepts a NaN `alpha` (other parameters at their defaults)
    Config.eddm (none : Option ℝ) (some 0.9) (some 2) 30 = none := by
  let _ := C07.nanNum ℝ
  refine ⟨nan_rejected_ddm _ _ _ (Or.inl unordered_none), nan_rejected_ddm _ _ _ (Or.inr unordered_none), ?_,
    nan_rejected_hddmw _ _ _ _ (Or.inr (Or.inr unordered_none)), ?_,
    nan_rejected_kswin _ _ _ unordered_none, ?_, ?_⟩
  · rw [config_ddm_some, accepts_iff_any_ddm]; simp [Pos]; norm_num
  · rw [config_hddmw_some, accepts_iff_any_hddmw]; simp [InOC]; norm_num
  · rw [config_kswin_some, accepts_iff_any_kswin]; simp [Pos]; norm_num
  · rw [nan_accepted_eddm_alpha_witness _ _ _ _ unordered_none]
    refine ⟨?_, ?_, by norm_num⟩
    · show Num.lt (Num.zero : ℝ) 0.9 = true; simp; norm_num
    · show Num.lt (Num.zero : ℝ) 2 = true; simp

end D
end Frouros.C13d

/-! ## Axioms -/
section axioms
open Frouros.C13d
#print axioms cdfTerm_bounds
#print axioms cdfIntegral_diff_bounds
#print axioms pApproximate_mono
#print axioms pApproximate_strictMono
#print axioms pApproximateSpec_mono
#print axioms pValue_antitone_obs_approximate
#print axioms pValue_antitone_obs_all
#print axioms ddm_const_exact_inv_core
#print axioms ddm_const_exact_inv
#print axioms ddm_const_exact
#print axioms ddm_const_exact_stream
#print axioms exactOn01_real
#print axioms exactOn01_nan
#print axioms exactOn01_coarse
#print axioms ddm_const_exact_real
#print axioms ddm_const_exact_real_nan
#print axioms ddm_const_exact_coarse
#print axioms ddm_const_inexact_witness
#print axioms kswin_ks_rule_instance
#print axioms stepd_threshold_form_instance
#print axioms stepd_monotone_instance
#print axioms lseShift_sum_bounds_instance
#print axioms unordered_none
#print axioms ddm_accepts_nan_iff
#print axioms kswin_accepts_nan_iff
#print axioms hddmw_accepts_nan_iff
#print axioms nan_rejected_real_nan_instances
end axioms
