/-
  C16 / C17 on the OBJECT-LEVEL model `FrourosModel/Heap.lean`, second half (the first half, the FRAME
  property, is `Props/C16b.lean`): "each detector reports what it would report alone" as an EQUALITY OF
  RUNS, what the history callback records, constructor-level transparency, and the global generator.

  Method: a detector object together with the cells it refers to refines a pure state machine
  (`Lemmas/HeapLocal.lean`: `Rep`, `astep`, locality lemma `Rep.apply`).  The observable projection
  `Heap.view` (scalars, own containers, own model parameters, recorded entries of every callback) is read
  THROUGH the detector's references, so no renaming of addresses is needed even though `reset` of a BOCD-like
  detector allocates (the model copy): the statements below cover detectors WITH a model object as well.

  Everything is control flow / pointer structure: arbitrary payload type `D`, value type `V`, result type
  `R`, arbitrary pure computations `S : Sem D V R`.
-/
import FrourosProofs.Props.C16b
import FrourosProofs.Lemmas.HeapLocal
namespace Frouros.C16c
open Frouros.Heap Frouros.C16b

variable {D V R : Type}

/-! ## 1. Run equality (C16): interleaved = alone -/

/-- the operations of a schedule addressed to the first (`b = false`) / second (`b = true`) detector -/
def opsOf (b : Bool) (σ : List (Bool × SOp V)) : List (SOp V) :=
  (σ.filter (fun e => e.1 == b)).map (·.2)

/-- the pure machine run on a history -/
def arun (S : Sem D V R) (a : AState D) (ops : List (SOp V)) : AState D := ops.foldl (astep S) a

/-- **a detector ALONE**: a represented detector never raises, and after any history represents the
state of the pure machine -/
theorem alone_rep {S : Sem D V R} {d : Ref} (ops : List (SOp V)) {h : Heap D} {L : Layout} {a : AState D}
    (R : Rep h d L a) :
    ∃ hb L', runOps (applyG true S d) h ops = some hb ∧ Rep hb d L' (arun S a ops) := by
  induction ops generalizing h L a with
  | nil => exact ⟨h, L, rfl, R⟩
  | cons op ops ih =>
    obtain ⟨h1, mref', hop, _, R1⟩ := R.apply (S := S) op
    obtain ⟨hb, L', hrun, R'⟩ := ih R1
    exact ⟨hb, L', by simp only [runOps, hop]; exact hrun, R'⟩

/-- **a detector in ANY interleaving** with another one, mutually separated from it (`C16b.Sep2`): after
any schedule it represents the state of the pure machine run on ITS OWN operations only -/
theorem interleaved_rep {S : Sem D V R} {d1 d2 : Ref} (b : Bool) (σ : List (Bool × SOp V)) {h ha : Heap D}
    {L : Layout} {a : AState D} (hs : Sep2 h d1 d2) (R : Rep h (if b then d2 else d1) L a)
    (hrun : runOps (applyTo S d1 d2) h σ = some ha) :
    ∃ L', Rep ha (if b then d2 else d1) L' (arun S a (opsOf b σ)) ∧ Sep2 ha d1 d2 := by
  induction σ generalizing h L a with
  | nil =>
    simp only [runOps, Option.some.injEq] at hrun
    subst hrun
    exact ⟨L, R, hs⟩
  | cons e σ ih =>
    simp only [runOps] at hrun
    split at hrun
    · next h1 hop =>
      obtain ⟨hs1, hfr⟩ := sep2_applyTo hs e hop
      obtain ⟨eb, op⟩ := e
      by_cases heb : eb = b
      · -- an operation of the detector itself
        subst heb
        obtain ⟨h1', mref', hop', _, R1⟩ := R.apply (S := S) op
        have : h1' = h1 := by
          have e1 : applyTo S d1 d2 h (eb, op) = applyG true S (if eb then d2 else d1) h op := rfl
          rw [e1, hop'] at hop
          exact Option.some.inj hop
        subst this
        have hops : opsOf eb ((eb, op) :: σ) = op :: opsOf eb σ := by
          simp [opsOf]
        rw [hops]
        exact ih hs1 R1 hrun
      · -- an operation of the other detector: frame
        have hsame : (if eb then d1 else d2) = (if b then d2 else d1) := by
          cases eb <;> cases b <;> simp_all
        have R1 : Rep h1 (if b then d2 else d1) L a := R.frame (fun r hr => hfr r (by simpa only [hsame] using hr))
        have hops : opsOf b ((eb, op) :: σ) = opsOf b σ := by
          simp [opsOf, heb]
        rw [hops]
        exact ih hs1 R1 hrun
    · exact absurd hrun (by simp)

/-- **no schedule raises**: two represented, mutually separated detectors accept every schedule -/
theorem interleaved_total {S : Sem D V R} {d1 d2 : Ref} (σ : List (Bool × SOp V)) {h : Heap D}
    {L1 L2 : Layout} {a1 a2 : AState D} (hs : Sep2 h d1 d2) (R1 : Rep h d1 L1 a1) (R2 : Rep h d2 L2 a2) :
    ∃ ha, runOps (applyTo S d1 d2) h σ = some ha := by
  induction σ generalizing h L1 L2 a1 a2 with
  | nil => exact ⟨h, rfl⟩
  | cons e σ ih =>
    obtain ⟨eb, op⟩ := e
    cases eb with
    | false =>
      obtain ⟨h1, mref', hop, _, R1'⟩ := R1.apply (S := S) op
      have hop' : applyTo S d1 d2 h (false, op) = some h1 := hop
      obtain ⟨hs1, hfr⟩ := sep2_applyTo hs (false, op) hop'
      obtain ⟨ha, hrun⟩ := ih hs1 R1' (R2.frame hfr)
      exact ⟨ha, by simp only [runOps, hop']; exact hrun⟩
    | true =>
      obtain ⟨h1, mref', hop, _, R2'⟩ := R2.apply (S := S) op
      have hop' : applyTo S d1 d2 h (true, op) = some h1 := hop
      obtain ⟨hs1, hfr⟩ := sep2_applyTo hs (true, op) hop'
      obtain ⟨ha, hrun⟩ := ih hs1 (R1.frame hfr) R2'
      exact ⟨ha, by simp only [runOps, hop']; exact hrun⟩

/-- the state right after both constructors: both detectors are represented and mutually separated.
Hypotheses as in `C16b.isolation` (`hwf`: the references below the configuration do not dangle; `hdisj`: no
common callback object) plus `hnd1`, `hnd2`: no callback object occurs twice in one list (then it would
record twice per update; `Rep` describes duplicate-free lists). -/
theorem construct_rep {S : Sem D V R} {h0 h1 h2 : Heap D} {cfg d1 d2 : Ref} {c1 c2 : CbArg}
    (hn1 : newDetector S h0 cfg c1 = some (d1, h1)) (hn2 : newDetector S h1 cfg c2 = some (d2, h2))
    (hwf : ∀ r, Reach h0 cfg r → r < h0.length)
    (hdisj : ∀ i1 i2, ArgItems h0 c1 i1 → ArgItems h1 c2 i2 → ∀ c, c ∈ i1 → c ∉ i2)
    (hnd1 : ∀ items, ArgItems h0 c1 items → items.Nodup) (hnd2 : ∀ items, ArgItems h1 c2 items → items.Nodup) :
    ∃ (L1 L2 : Layout) (sc : D) (cm : Option Ref) (k1 k2 : List (CbKind D × List D)),
      getCfg h0 cfg = some (sc, cm) ∧
      ArgItems h0 c1 L1.items ∧ cbStates h0 L1.items = k1.map some ∧
      ArgItems h1 c2 L2.items ∧ cbStates h1 L2.items = k2.map some ∧
      (∀ r p, L1.Cell d1 r → read h0 r = some (.data p) → cm = some r) ∧
      (∀ r p, L2.Cell d2 r → read h1 r = some (.data p) → cm = some r) ∧
      Sep2 h2 d1 d2 ∧
      Rep h2 d1 L1 ⟨sc, cm.bind (getData h0), S.initOwn sc, S.initVars sc, cm.bind (getData h0), k1⟩ ∧
      Rep h2 d2 L2 ⟨sc, cm.bind (getData h0), S.initOwn sc, S.initVars sc, cm.bind (getData h0), k2⟩ := by
  obtain ⟨L1, sc, cm, k1, hc0, hL1, ha1, hk1, ho1, R1⟩ := newDetector_rep hn1 hwf hnd1
  -- the configuration and its model in `h1`
  have hwf1 : ∀ r, Reach h1 cfg r → r < h1.length := by
    intro r hr
    have : r = L1.cfg ∨ L1.cm = some r := by
      refine Reach.subset (P := fun r => r = L1.cfg ∨ L1.cm = some r) ?_ hr (Or.inl hL1.symm)
      intro x o y hx hxo hy
      rcases hx with rfl | hx
      · rw [R1.hcfg] at hxo; cases hxo
        right
        cases hcm : L1.cm with
        | none => rw [hcm] at hy; cases hy
        | some m => rw [hcm] at hy; simp only [edges, Option.toList, List.mem_singleton] at hy; rw [hy]
      · rcases R1.hcm with ⟨e, _⟩ | ⟨m, p, e1, _, e3, _⟩
        · rw [e] at hx; cases hx
        · rw [e1] at hx; cases hx; rw [e3] at hxo; cases hxo; cases hy
    rcases this with rfl | hm
    · exact read_lt R1.hcfg
    · rcases R1.hcm with ⟨e, _⟩ | ⟨m, p, e1, _, e3, _⟩
      · rw [e] at hm; cases hm
      · rw [e1] at hm; cases hm; exact read_lt e3
  obtain ⟨L2, sc2, cm2, k2, hc1, hL2, ha2, hk2, ho2, R2⟩ := newDetector_rep hn2 hwf1 hnd2
  -- the configuration cell is the same in `h0` and `h1`
  have hcfg1 : getCfg h1 cfg = some (sc, L1.cm) := by
    rw [getCfg_eq_some, ← hL1]; exact R1.hcfg
  have hcm01 : L1.cm = cm ∧ cm.bind (getData h1) = cm.bind (getData h0) := by
    obtain ⟨sc', cm', cbs, items, vars, model, B⟩ := newDetectorG_spec hn1
    have e0 := B.hcfg
    rw [hc0] at e0; cases e0
    have hcc := getCfg_eq_some.mp hc0
    have hni : cfg ∉ items := by
      intro hm
      obtain ⟨_, ⟨cb0, e⟩, _⟩ := B.hitems cfg hm
      rw [hcc] at e; cases e
    have e1 : read h1 cfg = some (.config sc cm) := by rw [B.frame cfg (read_lt hcc) hni]; exact hcc
    have e2 := getCfg_eq_some.mp hcfg1
    rw [e1] at e2; cases e2
    refine ⟨rfl, ?_⟩
    rcases R1.hcm with ⟨e, _⟩ | ⟨m, p, e3, e4, e5, _⟩
    · rw [e]; rfl
    · have e4' : (L1.cm.bind (getData h0)) = some p := e4
      rw [e3] at e4' ⊢
      simp only [Option.bind] at e4' ⊢
      rw [e4', getData_eq_some.mpr e5]
  rw [hcfg1] at hc1
  cases hc1
  rw [hcm01.1] at R2 ho2
  rw [hcm01.2] at R2
  -- the second constructor leaves the cells of the first detector alone
  have R1' : Rep h2 d1 L1 ⟨sc, cm.bind (getData h0), S.initOwn sc, S.initVars sc, cm.bind (getData h0), k1⟩ := by
    obtain ⟨sc', cm', cbs, items, vars, model, B⟩ := newDetectorG_spec hn2
    refine R1.frame_cells (fun r hr => ?_)
    rcases R1.cell_read hr with ⟨hm, cb, hcb⟩ | ⟨o, ho, hn⟩
    · exact B.frame r (read_lt hcb) (fun hm2 => hdisj L1.items items ha1 B.arg_items r hm hm2)
    · refine B.frame r (read_lt ho) (fun hm2 => ?_)
      obtain ⟨_, ⟨cb0, e⟩, _⟩ := B.hitems r hm2
      rw [ho] at e; cases e; exact hn _ rfl
  obtain ⟨s12, s21⟩ := construct_sep hn1 hn2 hwf hdisj
  exact ⟨L1, L2, sc, cm, k1, k2, hc0, ha1, hk1, ha2, hk2, ho1, ho2, ⟨s12, s21⟩, R1', R2⟩

/-- **run equality** (C16, object level — "each detector reports what it would report alone").
Two detectors constructed from the SAME configuration object (with or without a BOCD-like model object),
callbacks `None`, one callback or a caller-owned list, no callback object shared or repeated.  For EVERY
schedule `σ` of `update`/`reset` calls addressed to either of them in any order, and for each of the two
detectors (`b = false`: the first, `b = true`: the second):
* the interleaved run does not raise, and neither does the run of that detector's own operations ALONE
  from the state right after both constructors;
* the observable projection `view` of the detector (scalar attributes, own containers, own model
  parameters, the recorded entries of each of its callbacks) is THE SAME after both runs — and is defined.
No renaming of references is involved: `view` reads through the detector's references. -/
theorem run_equality {S : Sem D V R} {h0 h1 h2 : Heap D} {cfg d1 d2 : Ref} {c1 c2 : CbArg}
    (hn1 : newDetector S h0 cfg c1 = some (d1, h1)) (hn2 : newDetector S h1 cfg c2 = some (d2, h2))
    (hwf : ∀ r, Reach h0 cfg r → r < h0.length)
    (hdisj : ∀ i1 i2, ArgItems h0 c1 i1 → ArgItems h1 c2 i2 → ∀ c, c ∈ i1 → c ∉ i2)
    (hnd1 : ∀ items, ArgItems h0 c1 items → items.Nodup) (hnd2 : ∀ items, ArgItems h1 c2 items → items.Nodup)
    (σ : List (Bool × SOp V)) (b : Bool) :
    ∃ ha hb vw, runOps (applyTo S d1 d2) h2 σ = some ha ∧
      runOps (applyG true S (if b then d2 else d1)) h2 (opsOf b σ) = some hb ∧
      view ha (if b then d2 else d1) = some vw ∧ view hb (if b then d2 else d1) = some vw := by
  obtain ⟨L1, L2, sc, cm, k1, k2, _, _, _, _, _, _, _, hs, R1, R2⟩ := construct_rep hn1 hn2 hwf hdisj hnd1 hnd2
  obtain ⟨ha, hrun⟩ := interleaved_total (S := S) σ hs R1 R2
  cases b with
  | false =>
    obtain ⟨La, Ra, _⟩ := interleaved_rep false σ hs R1 hrun
    obtain ⟨hb, Lb, hrunb, Rb⟩ := alone_rep (S := S) (opsOf false σ) R1
    exact ⟨ha, hb, _, hrun, hrunb, Ra.view, Rb.view⟩
  | true =>
    obtain ⟨La, Ra, _⟩ := interleaved_rep true σ hs R2 hrun
    obtain ⟨hb, Lb, hrunb, Rb⟩ := alone_rep (S := S) (opsOf true σ) R2
    exact ⟨ha, hb, _, hrun, hrunb, Ra.view, Rb.view⟩

/-! ## 2. What the history callback records (C17) -/

/-- the part of the pure state that `_update` / the detector's own `reset` read and write -/
def core (a : AState D) : D × Option D × D × D × Option D := (a.sc, a.cmd, a.own, a.vars, a.model)

theorem astep_core (S : Sem D V R) {a a' : AState D} (e : core a = core a') (op : SOp V) :
    core (astep S a op) = core (astep S a' op) := by
  simp only [core, Prod.mk.injEq] at e
  obtain ⟨e1, e2, e3, e4, e5⟩ := e
  cases op <;> simp [core, astep, e1, e2, e3, e4, e5]

theorem arun_core (S : Sem D V R) (ops : List (SOp V)) {a a' : AState D} (e : core a = core a') :
    core (arun S a ops) = core (arun S a' ops) := by
  induction ops generalizing a a' with
  | nil => exact e
  | cons op ops ih => exact ih (astep_core S e op)

theorem arun_append (S : Sem D V R) (a : AState D) (o1 o2 : List (SOp V)) :
    arun S a (o1 ++ o2) = arun S (arun S a o1) o2 := by
  simp [arun, List.foldl_append]

/-- SPECIFICATION of the recorded entries: along the updates `vs` from state `a`, entry `i` is `S.snap` of
the detector's scalars and containers RIGHT AFTER update `i`, together with the value of update `i` -/
def trace (S : Sem D V R) (a : AState D) : List V → List D
  | [] => []
  | v :: vs =>
    let a' := astep S a (.update v)
    S.snap a'.own a'.vars v :: trace S a' vs

/-- exactly one entry per update -/
theorem trace_length (S : Sem D V R) (a : AState D) (vs : List V) : (trace S a vs).length = vs.length := by
  induction vs generalizing a with
  | nil => rfl
  | cons v vs ih => simp [trace, ih]

/-- entry `i`, spelled out with indices: the snapshot of the state after the first `i + 1` updates -/
theorem trace_getElem (S : Sem D V R) (a : AState D) (vs : List V) (i : Nat) (hi : i < vs.length) :
    (trace S a vs)[i]? =
      some (S.snap (arun S a ((vs.take (i + 1)).map .update)).own (arun S a ((vs.take (i + 1)).map .update)).vars vs[i]) := by
  induction vs generalizing a i with
  | nil => cases hi
  | cons v vs ih =>
    cases i with
    | zero => simp [trace, arun]
    | succ i =>
      have hi' : i < vs.length := by simpa using hi
      simp only [trace, List.getElem?_cons_succ, List.take_succ_cons, List.map_cons, List.getElem_cons_succ]
      rw [ih (astep S a (.update v)) i hi']
      rfl

/-- the trace does not depend on what the callbacks have recorded -/
theorem trace_core (S : Sem D V R) (vs : List V) {a a' : AState D} (e : core a = core a') :
    trace S a vs = trace S a' vs := by
  induction vs generalizing a a' with
  | nil => rfl
  | cons v vs ih =>
    have e1 := astep_core S e (.update v)
    have e2 := e1
    simp only [core, Prod.mk.injEq] at e2
    simp only [trace]
    rw [ih e1, e2.2.2.1, e2.2.2.2.1]

/-- a single history callback stays a single history callback -/
theorem arun_single (S : Sem D V R) (ops : List (SOp V)) {a : AState D} {hs : List D}
    (e : a.cbs = [(.history, hs)]) : ∃ hs', (arun S a ops).cbs = [(.history, hs')] := by
  induction ops generalizing a hs with
  | nil => exact ⟨hs, e⟩
  | cons op ops ih =>
    cases op with
    | update v =>
      exact ih (a := astep S a (.update v))
        (hs := hs ++ [S.snap (astep S a (.update v)).own (astep S a (.update v)).vars v]) (by simp [astep, e])
    | reset => exact ih (a := astep S a .reset) (hs := []) (by simp [astep, e])

/-- updates append the trace -/
theorem arun_updates (S : Sem D V R) (vs : List V) {a : AState D} {hs : List D} (e : a.cbs = [(.history, hs)]) :
    (arun S a (vs.map .update)).cbs = [(.history, hs ++ trace S a vs)] := by
  induction vs generalizing a hs with
  | nil => simpa [arun, trace] using e
  | cons v vs ih =>
    have e1 : (astep S a (.update v)).cbs =
        [(.history, hs ++ [S.snap (astep S a (.update v)).own (astep S a (.update v)).vars v])] := by
      simp [astep, e]
    have := ih e1
    simpa [arun, trace] using this

/-- **what a history callback records, on the pure machine**: split the history as `pre ++ updates` where
`pre` is empty or ends with a `reset` (i.e. `vs` are the updates since the last reset).  A history callback
that was empty at the start then holds exactly `trace` of those updates: one entry per update, entry `i` the
snapshot right after update `i`; in particular it is EMPTY right after a `reset` (`vs = []`). -/
theorem arun_records (S : Sem D V R) {a : AState D} (e : a.cbs = [(.history, [])]) (pre : List (SOp V)) (vs : List V)
    (hpre : pre = [] ∨ ∃ p, pre = p ++ [.reset]) :
    (arun S a (pre ++ vs.map .update)).cbs = [(.history, trace S (arun S a pre) vs)] := by
  rw [arun_append]
  have e0 : (arun S a pre).cbs = [(.history, [])] := by
    rcases hpre with rfl | ⟨p, rfl⟩
    · exact e
    · obtain ⟨hs', e'⟩ := arun_single S p e
      rw [arun_append]
      have : arun S (arun S a p) [.reset] = astep S (arun S a p) .reset := rfl
      rw [this]
      simp [astep, e']
  simpa using arun_updates S vs e0

/-- the pure state of a freshly constructed detector, callbacks left out -/
def initState (S : Sem D V R) (sc : D) (cmd : Option D) : AState D :=
  ⟨sc, cmd, S.initOwn sc, S.initVars sc, cmd, []⟩

theorem nodup_none {h : Heap D} : ∀ items, ArgItems h .none items → items.Nodup := by
  intro items e
  have : items = [] := e
  subst this; exact List.nodup_nil

theorem nodup_single {h : Heap D} {c : Ref} : ∀ items, ArgItems h (.single c) items → items.Nodup := by
  intro items e
  have : items = [c] := e
  subst this; simp

/-- **what the history callback records** (C17, object level).  `det = Detector(config=cfg, callbacks=cb)` with
`cb` a `HistoryConceptDrift` object that has recorded nothing yet (`hc`; its back-reference may be anything),
`hwf`: the references below the configuration do not dangle.  Run ANY history on `det`, written as
`pre ++ updates vs` with `pre` empty or ending in a `reset` (`vs` = the updates since the last reset).  Then
* no call raises, the observable projection is defined, and the detector's scalars / containers / model are
  those of the pure machine started in `initState` (no dependence on the callback);
* the callback holds exactly `trace … vs`: ONE entry per update since the last reset (`trace_length`), entry
  `i` = `S.snap` of the detector's scalars and containers RIGHT AFTER update `i` and of the value `vs[i]`
  (`trace_getElem`); right after a `reset` (`vs = []`) it is empty. -/
theorem history_records {S : Sem D V R} {h h' : Heap D} {cfg d c : Ref} {det0 : Option Ref}
    (hnew : newDetector S h cfg (.single c) = some (d, h'))
    (hwf : ∀ r, Reach h cfg r → r < h.length)
    (hc : read h c = some (.callback ⟨.history, det0, []⟩))
    (pre : List (SOp V)) (vs : List V) (hpre : pre = [] ∨ ∃ p, pre = p ++ [.reset]) :
    ∃ sc cm hb vw, getCfg h cfg = some (sc, cm) ∧
      runOps (applyG true S d) h' (pre ++ vs.map .update) = some hb ∧ view hb d = some vw ∧
      vw.hists = [some (trace S (arun S (initState S sc (cm.bind (getData h))) pre) vs)] ∧
      vw.own = (arun S (initState S sc (cm.bind (getData h))) (pre ++ vs.map .update)).own ∧
      vw.vars = (arun S (initState S sc (cm.bind (getData h))) (pre ++ vs.map .update)).vars ∧
      vw.model = (arun S (initState S sc (cm.bind (getData h))) (pre ++ vs.map .update)).model.map some := by
  obtain ⟨L, sc, cm, ks, hcfg, _, hitems, hks, _, R0⟩ := newDetector_rep hnew hwf nodup_single
  have hL : L.items = [c] := hitems
  have hks' : ks = [(.history, [])] := by
    rw [hL] at hks
    simp only [cbStates, List.map_cons, List.map_nil, getCb, hc, Option.map] at hks
    cases ks with
    | nil => simp at hks
    | cons k ks =>
      cases ks with
      | nil => simp only [List.map_cons, List.map_nil, List.cons.injEq, Option.some.injEq, and_true] at hks; rw [← hks]
      | cons k' ks => simp at hks
  subst hks'
  obtain ⟨hb, L', hrun, Rb⟩ := alone_rep (S := S) (pre ++ vs.map .update) R0
  have hcore : core (⟨sc, cm.bind (getData h), S.initOwn sc, S.initVars sc, cm.bind (getData h),
      [(.history, [])]⟩ : AState D) = core (initState S sc (cm.bind (getData h))) := rfl
  have e1 := arun_core S (pre ++ vs.map .update) hcore
  simp only [core, Prod.mk.injEq] at e1
  refine ⟨sc, cm, hb, _, hcfg, hrun, Rb.view, ?_, e1.2.2.1, e1.2.2.2.1, by rw [e1.2.2.2.2]⟩
  simp only
  rw [arun_records S rfl pre vs hpre, trace_core S vs (arun_core S pre hcore)]
  rfl

/-! ## 3. Constructor-level transparency (C17) -/

/-- **attaching callbacks never changes what the detector computes** (C17, constructor level).  Build a
detector from the configuration `cfg` with callbacks argument `arg1`, and — in the same initial store — one
with callbacks argument `arg2` (e.g. `.none` and `.single c`: see `ctor_transparent_none_single`); run the SAME
history on each.  Neither run raises, both projections are defined, and scalar attributes (flags, counters),
own containers and own model parameters are EQUAL; both are those of the pure machine started in `initState`.
Hypotheses: `hwf` (no dangling reference below the configuration), no callback object repeated in a list. -/
theorem ctor_transparent {S : Sem D V R} {h ha hb : Heap D} {cfg da db : Ref} {arg1 arg2 : CbArg}
    (hn1 : newDetector S h cfg arg1 = some (da, ha)) (hn2 : newDetector S h cfg arg2 = some (db, hb))
    (hwf : ∀ r, Reach h cfg r → r < h.length)
    (hnd1 : ∀ items, ArgItems h arg1 items → items.Nodup) (hnd2 : ∀ items, ArgItems h arg2 items → items.Nodup)
    (ops : List (SOp V)) :
    ∃ sc cm ha' hb' va vb, getCfg h cfg = some (sc, cm) ∧
      runOps (applyG true S da) ha ops = some ha' ∧ runOps (applyG true S db) hb ops = some hb' ∧
      view ha' da = some va ∧ view hb' db = some vb ∧
      va.own = vb.own ∧ va.vars = vb.vars ∧ va.model = vb.model ∧
      va.own = (arun S (initState S sc (cm.bind (getData h))) ops).own ∧
      va.vars = (arun S (initState S sc (cm.bind (getData h))) ops).vars := by
  obtain ⟨L1, sc, cm, k1, hcfg, _, _, _, _, R1⟩ := newDetector_rep hn1 hwf hnd1
  obtain ⟨L2, sc2, cm2, k2, hcfg2, _, _, _, _, R2⟩ := newDetector_rep hn2 hwf hnd2
  rw [hcfg] at hcfg2
  cases hcfg2
  obtain ⟨ha', L1', hrun1, Ra⟩ := alone_rep (S := S) ops R1
  obtain ⟨hb', L2', hrun2, Rb⟩ := alone_rep (S := S) ops R2
  have c1 : core (⟨sc, cm.bind (getData h), S.initOwn sc, S.initVars sc, cm.bind (getData h), k1⟩ : AState D) =
      core (initState S sc (cm.bind (getData h))) := rfl
  have c2 : core (⟨sc, cm.bind (getData h), S.initOwn sc, S.initVars sc, cm.bind (getData h), k2⟩ : AState D) =
      core (initState S sc (cm.bind (getData h))) := rfl
  have e1 := arun_core S ops c1
  have e2 := arun_core S ops c2
  simp only [core, Prod.mk.injEq] at e1 e2
  refine ⟨sc, cm, ha', hb', _, _, hcfg, hrun1, hrun2, Ra.view, Rb.view, ?_, ?_, ?_, e1.2.2.1, e1.2.2.2.1⟩
  · exact e1.2.2.1.trans e2.2.2.1.symm
  · exact e1.2.2.2.1.trans e2.2.2.2.1.symm
  · simp only; rw [e1.2.2.2.2, e2.2.2.2.2]

/-- the instance asked for: no callbacks vs one (fresh or not) callback object -/
theorem ctor_transparent_none_single {S : Sem D V R} {h ha hb : Heap D} {cfg da db c : Ref}
    (hn1 : newDetector S h cfg .none = some (da, ha)) (hn2 : newDetector S h cfg (.single c) = some (db, hb))
    (hwf : ∀ r, Reach h cfg r → r < h.length) (ops : List (SOp V)) :
    ∃ ha' hb' va vb,
      runOps (applyG true S da) ha ops = some ha' ∧ runOps (applyG true S db) hb ops = some hb' ∧
      view ha' da = some va ∧ view hb' db = some vb ∧
      va.own = vb.own ∧ va.vars = vb.vars ∧ va.model = vb.model := by
  obtain ⟨_, _, ha', hb', va, vb, _, r1, r2, v1, v2, e1, e2, e3, _⟩ :=
    ctor_transparent hn1 hn2 hwf nodup_none nodup_single ops
  exact ⟨ha', hb', va, vb, r1, r2, v1, v2, e1, e2, e3⟩

/-! ## 4. The global generator as a cell (the carve-out of C16) -/

/-- a store with the same outgoing references in every cell has the same reachability -/
theorem reach_of_edges {h h' : Heap D} (hE : ∀ x o', read h' x = some o' → ∃ o, read h x = some o ∧ edges o' = edges o)
    {a r : Ref} (hr : Reach h' a r) : Reach h a r := by
  induction hr with
  | refl => exact Reach.refl _
  | step hx hy _ ih =>
    obtain ⟨o, ho, he⟩ := hE _ _ hx
    exact Reach.step ho (he ▸ hy) ih

/-- overwriting the contents of a `data` cell changes no reference -/
theorem reach_write_data {h : Heap D} {g : Ref} {s : D} (hg : read h g = some (.data s)) (s' : D) (a r : Ref) :
    Reach (write h g (.data s')) a r ↔ Reach h a r := by
  constructor
  · refine reach_of_edges (fun x o' hx => ?_)
    by_cases e : x = g
    · subst e
      rw [read_write_eq _ (read_lt hg)] at hx
      cases hx
      exact ⟨_, hg, rfl⟩
    · rw [read_write_ne _ e] at hx
      exact ⟨o', hx, rfl⟩
  · refine reach_of_edges (fun x o' hx => ?_)
    by_cases e : x = g
    · subst e
      rw [hg] at hx
      cases hx
      exact ⟨_, read_write_eq _ (read_lt hg), rfl⟩
    · exact ⟨o', by rw [read_write_ne _ e]; exact hx, rfl⟩

/-- the invariant of a store with two detectors and the generator cell `g` (current state `s`): the detectors
are mutually separated and the generator cell is a `data` cell that neither of them refers to -/
structure GInv (h : Heap D) (d1 d2 g : Ref) (s : D) : Prop where
  sep : Sep2 h d1 d2
  hg : read h g = some (.data s)
  ng1 : ¬ Reach h d1 g
  ng2 : ¬ Reach h d2 g

theorem sep_write_data {h : Heap D} {d1 d2 g : Ref} {s : D} (hg : read h g = some (.data s)) (s' : D)
    (n1 : ¬ Reach h d1 g) (hs : Sep h d1 d2) : Sep (write h g (.data s')) d1 d2 := by
  have hfr1 : ∀ r, Reach h d1 r → read (write h g (.data s')) r = read h r := by
    intro r hr
    exact read_write_ne _ (fun e => n1 (by rw [← e]; exact hr))
  refine ⟨fun r hr => ?_, fun r hr hf => ?_⟩
  · rw [length_write]; exact hs.alloc r ((reach_write_data hg s' d2 r).mp hr)
  · exact hs.disj r ((reach_write_data hg s' d2 r).mp hr) (foot_of_frame hfr1 hf)

/-- a draw keeps the invariant (new generator state) -/
theorem GInv.write {h : Heap D} {d1 d2 g : Ref} {s : D} (I : GInv h d1 d2 g s) (s' : D) :
    GInv (write h g (.data s')) d1 d2 g s' :=
  { sep := ⟨sep_write_data I.hg s' I.ng1 I.sep.1, sep_write_data I.hg s' I.ng2 I.sep.2⟩
    hg := read_write_eq _ (read_lt I.hg)
    ng1 := fun hr => I.ng1 ((reach_write_data I.hg s' d1 g).mp hr)
    ng2 := fun hr => I.ng2 ((reach_write_data I.hg s' d2 g).mp hr) }

/-- an ordinary operation of either detector keeps the invariant and the generator state -/
theorem GInv.plain {S : Sem D V R} {h h' : Heap D} {d1 d2 g : Ref} {s : D} (I : GInv h d1 d2 g s) (e : Bool × SOp V)
    (hop : applyTo S d1 d2 h e = some h') : GInv h' d1 d2 g s := by
  have hst : Step (if e.1 then d2 else d1) h h' := apply_step hop
  have hnf : ¬ Foot h (if e.1 then d2 else d1) g := by
    intro hf
    have := foot_reach hf
    cases he : e.1 <;> simp only [he, if_true, if_false, Bool.false_eq_true] at this
    · exact I.ng1 this
    · exact I.ng2 this
  have hgl := read_lt I.hg
  have hng : ∀ a, ¬ Reach h a g → ¬ Reach h' a g := by
    intro a hn hr
    rcases hst.reach hr with h0 | ⟨hge, _⟩
    · exact hn h0
    · exact absurd hgl (Nat.not_lt.mpr hge)
  exact
    { sep := (sep2_applyTo I.sep e hop).1
      hg := by rw [hst.frame g hgl hnf]; exact I.hg
      ng1 := hng d1 I.ng1
      ng2 := hng d2 I.ng2 }

/-- the plain operation effectively executed by a generator-aware operation when the generator state is `s` -/
def gop (mix : D → V → V) (s : D) : GOp V → SOp V
  | .update v => .update v
  | .draw v => .update (mix s v)
  | .reset => .reset

/-- the generator state afterwards -/
def gadv (adv : D → D) (s : D) : GOp V → D
  | .draw _ => adv s
  | _ => s

/-- the JOINT pure machine of two detectors and the generator: the only coupling is the generator state -/
def jstep (S : Sem D V R) (adv : D → D) (mix : D → V → V) (j : AState D × AState D × D) (e : Bool × GOp V) :
    AState D × AState D × D :=
  if e.1 then (j.1, astep S j.2.1 (gop mix j.2.2 e.2), gadv adv j.2.2 e.2)
  else (astep S j.1 (gop mix j.2.2 e.2), j.2.1, gadv adv j.2.2 e.2)

def jrun (S : Sem D V R) (adv : D → D) (mix : D → V → V) (j : AState D × AState D × D) (σ : List (Bool × GOp V)) :
    AState D × AState D × D := σ.foldl (jstep S adv mix) j

/-- one generator-aware operation = (a write to the generator cell, then) a plain operation -/
theorem applyGenTo_eq {S : Sem D V R} {adv : D → D} {mix : D → V → V} {g d1 d2 : Ref} {h : Heap D} {s : D}
    (hg : read h g = some (.data s)) (e : Bool × GOp V) :
    applyGenTo S adv mix g d1 d2 h e =
      applyTo S d1 d2 (match e.2 with | .draw _ => write h g (.data (adv s)) | _ => h) (e.1, gop mix s e.2) := by
  obtain ⟨b, op⟩ := e
  cases op <;> simp [applyGenTo, applyGen, applyTo, applyG, gop, drawUpdate, getData, hg]

/-- **the store refines the joint machine**: one step -/
theorem gen_step {S : Sem D V R} {adv : D → D} {mix : D → V → V} {g d1 d2 : Ref} {h : Heap D} {s : D}
    {L1 L2 : Layout} {a1 a2 : AState D} (I : GInv h d1 d2 g s) (R1 : Rep h d1 L1 a1) (R2 : Rep h d2 L2 a2)
    (e : Bool × GOp V) :
    ∃ h' L1' L2', applyGenTo S adv mix g d1 d2 h e = some h' ∧
      GInv h' d1 d2 g (jstep S adv mix (a1, a2, s) e).2.2 ∧
      Rep h' d1 L1' (jstep S adv mix (a1, a2, s) e).1 ∧ Rep h' d2 L2' (jstep S adv mix (a1, a2, s) e).2.1 := by
  -- the plain step, in any store satisfying the invariant
  have plain : ∀ (h0 : Heap D) (s0 : D) (b : Bool) (op : SOp V), GInv h0 d1 d2 g s0 → Rep h0 d1 L1 a1 → Rep h0 d2 L2 a2 →
      ∃ h' L1' L2', applyTo S d1 d2 h0 (b, op) = some h' ∧ GInv h' d1 d2 g s0 ∧
        Rep h' d1 L1' (if b then a1 else astep S a1 op) ∧ Rep h' d2 L2' (if b then astep S a2 op else a2) := by
    intro h0 s0 b op I0 P1 P2
    cases b with
    | false =>
      obtain ⟨h', mref', hop, _, P1'⟩ := P1.apply (S := S) op
      have hop' : applyTo S d1 d2 h0 (false, op) = some h' := hop
      exact ⟨h', _, L2, hop', I0.plain _ hop', P1', P2.frame (sep2_applyTo I0.sep _ hop').2⟩
    | true =>
      obtain ⟨h', mref', hop, _, P2'⟩ := P2.apply (S := S) op
      have hop' : applyTo S d1 d2 h0 (true, op) = some h' := hop
      exact ⟨h', L1, _, hop', I0.plain _ hop', P1.frame (sep2_applyTo I0.sep _ hop').2, P2'⟩
  rw [applyGenTo_eq I.hg e]
  obtain ⟨b, op⟩ := e
  have key : ∀ (h0 : Heap D) (s0 : D), GInv h0 d1 d2 g s0 → Rep h0 d1 L1 a1 → Rep h0 d2 L2 a2 → s0 = gadv adv s op →
      ∃ h' L1' L2', applyTo S d1 d2 h0 (b, gop mix s op) = some h' ∧
        GInv h' d1 d2 g (jstep S adv mix (a1, a2, s) (b, op)).2.2 ∧
        Rep h' d1 L1' (jstep S adv mix (a1, a2, s) (b, op)).1 ∧ Rep h' d2 L2' (jstep S adv mix (a1, a2, s) (b, op)).2.1 := by
    intro h0 s0 I0 P1 P2 hs0
    obtain ⟨h', L1', L2', hop, I', P1', P2'⟩ := plain h0 s0 b (gop mix s op) I0 P1 P2
    refine ⟨h', L1', L2', hop, ?_, ?_, ?_⟩
    · cases b <;> simpa [jstep, hs0] using I'
    · cases b <;> simpa [jstep] using P1'
    · cases b <;> simpa [jstep] using P2'
  cases op with
  | update v => exact key h s I R1 R2 rfl
  | reset => exact key h s I R1 R2 rfl
  | draw v =>
    have hfr : ∀ (d : Ref), ¬ Reach h d g → ∀ r, Reach h d r → read (write h g (.data (adv s))) r = read h r :=
      fun d hn r hr => read_write_ne _ (fun e => hn (e ▸ hr))
    exact key _ (adv s) (I.write (adv s)) (R1.frame (hfr d1 I.ng1)) (R2.frame (hfr d2 I.ng2)) rfl

/-- **the store refines the joint machine**: every schedule of generator-aware operations on two
represented, separated detectors runs without raising, and ends in a store representing `jrun` -/
theorem gen_run {S : Sem D V R} {adv : D → D} {mix : D → V → V} {g d1 d2 : Ref} (σ : List (Bool × GOp V))
    {h : Heap D} {s : D} {L1 L2 : Layout} {a1 a2 : AState D}
    (I : GInv h d1 d2 g s) (R1 : Rep h d1 L1 a1) (R2 : Rep h d2 L2 a2) :
    ∃ h' L1' L2', runOps (applyGenTo S adv mix g d1 d2) h σ = some h' ∧
      GInv h' d1 d2 g (jrun S adv mix (a1, a2, s) σ).2.2 ∧
      Rep h' d1 L1' (jrun S adv mix (a1, a2, s) σ).1 ∧ Rep h' d2 L2' (jrun S adv mix (a1, a2, s) σ).2.1 := by
  induction σ generalizing h s L1 L2 a1 a2 with
  | nil => exact ⟨h, L1, L2, rfl, I, R1, R2⟩
  | cons e σ ih =>
    obtain ⟨h1, L1', L2', hop, I', R1', R2'⟩ := gen_step (S := S) (adv := adv) (mix := mix) I R1 R2 e
    obtain ⟨h', M1, M2, hrun, I'', R1'', R2''⟩ := ih I' R1' R2'
    exact ⟨h', M1, M2, by simp only [runOps, hop]; exact hrun, I'', R1'', R2''⟩

/-- the first detector never draws -/
def NoDraw1 (σ : List (Bool × GOp V)) : Prop := ∀ e ∈ σ, e.1 = false → ∀ v, e.2 ≠ .draw v

/-- pure fact: if only the SECOND detector draws, the second detector and the generator evolve as in the
schedule with the first detector's operations deleted, and the first detector as in the schedule with the
second detector's operations deleted -/
theorem jrun_one_drawer (S : Sem D V R) (adv : D → D) (mix : D → V → V) (σ : List (Bool × GOp V)) (hσ : NoDraw1 σ)
    (j : AState D × AState D × D) :
    (jrun S adv mix j σ).2 = (jrun S adv mix j (σ.filter (·.1))).2 ∧
    ∀ a2' s', (jrun S adv mix j σ).1 = (jrun S adv mix (j.1, a2', s') (σ.filter (!·.1))).1 := by
  induction σ generalizing j with
  | nil => exact ⟨rfl, fun _ _ => rfl⟩
  | cons e σ ih =>
    have hσ' : NoDraw1 σ := fun e' he' => hσ e' (List.mem_cons_of_mem _ he')
    obtain ⟨b, op⟩ := e
    cases b with
    | true =>
      -- an operation of the second detector: present in the first filtered schedule, absent from the second
      have h1 := ih hσ' (jstep S adv mix j (true, op))
      refine ⟨by simpa [jrun, List.filter_cons] using h1.1, fun a2' s' => ?_⟩
      have h2 := h1.2 a2' s'
      simpa [jrun, List.filter_cons, jstep] using h2
    | false =>
      have hnd : ∀ v, op ≠ .draw v := hσ (false, op) List.mem_cons_self rfl
      have hs : gadv adv j.2.2 op = j.2.2 := by
        cases op with
        | draw v => exact absurd rfl (hnd v)
        | update v => rfl
        | reset => rfl
      have hg : ∀ s', gop mix s' op = gop mix j.2.2 op := by
        intro s'
        cases op with
        | draw v => exact absurd rfl (hnd v)
        | update v => rfl
        | reset => rfl
      have h1 := ih hσ' (jstep S adv mix j (false, op))
      constructor
      · have e1 : (jstep S adv mix j (false, op)).2 = j.2 := by simp [jstep, hs]
        have e2 : ∀ (j1 j2 : AState D × AState D × D) (τ : List (Bool × GOp V)), (∀ e ∈ τ, e.1 = true) → j1.2 = j2.2 →
            (jrun S adv mix j1 τ).2 = (jrun S adv mix j2 τ).2 := by
          intro j1 j2 τ
          induction τ generalizing j1 j2 with
          | nil => intro _ e; exact e
          | cons t τ ihτ =>
            intro ht e
            have ht1 : t.1 = true := ht t List.mem_cons_self
            refine ihτ _ _ (fun e' he' => ht e' (List.mem_cons_of_mem _ he')) ?_
            simp only [jstep, ht1, if_true]
            rw [e]
        have h1' := h1.1
        have : (jrun S adv mix j ((false, op) :: σ)).2 = (jrun S adv mix (jstep S adv mix j (false, op)) σ).2 := rfl
        rw [this, h1']
        have : List.filter (·.1) ((false, op) :: σ) = List.filter (·.1) σ := by simp
        rw [this]
        exact e2 _ _ _ (fun e' he' => by simpa using (List.mem_filter.mp he').2) e1
      · intro a2' s'
        have h2 := h1.2 a2' (gadv adv s' op)
        have : List.filter (!·.1) ((false, op) :: σ) = (false, op) :: List.filter (!·.1) σ := by simp
        rw [this]
        have e3 : jstep S adv mix (j.1, a2', s') (false, op) =
            ((jstep S adv mix j (false, op)).1, a2', gadv adv s' op) := by
          simp [jstep, hg s']
        show (jrun S adv mix (jstep S adv mix j (false, op)) σ).1 =
          (jrun S adv mix (jstep S adv mix (j.1, a2', s') (false, op)) (List.filter (!·.1) σ)).1
        rw [e3]
        exact h2

/-- **isolation holds when only one detector draws** (invariant form).  Two represented, separated detectors
and a generator cell neither refers to; a schedule `σ` of generator-aware operations in which the FIRST
detector never draws.  Then no run raises, and
* the SECOND detector's projection and the generator state after `σ` are those after the schedule with the
  first detector's operations deleted (`σ.filter (·.1)`: the second detector alone);
* the FIRST detector's projection after `σ` is the one after the schedule with the second detector's
  operations deleted (the first detector alone).
(If both draw this is false: `generator_coupling_witness`.) -/
theorem generator_one_drawer_inv {S : Sem D V R} {adv : D → D} {mix : D → V → V} {g d1 d2 : Ref}
    {h : Heap D} {s : D} {L1 L2 : Layout} {a1 a2 : AState D}
    (I : GInv h d1 d2 g s) (R1 : Rep h d1 L1 a1) (R2 : Rep h d2 L2 a2)
    (σ : List (Bool × GOp V)) (hσ : NoDraw1 σ) :
    ∃ ha hb hc v1 v2 sg,
      runOps (applyGenTo S adv mix g d1 d2) h σ = some ha ∧
      runOps (applyGenTo S adv mix g d1 d2) h (σ.filter (·.1)) = some hb ∧
      runOps (applyGenTo S adv mix g d1 d2) h (σ.filter (!·.1)) = some hc ∧
      view ha d2 = some v2 ∧ view hb d2 = some v2 ∧ getData ha g = some sg ∧ getData hb g = some sg ∧
      view ha d1 = some v1 ∧ view hc d1 = some v1 := by
  obtain ⟨ha, A1, A2, hra, Ia, Ra1, Ra2⟩ := gen_run (S := S) (adv := adv) (mix := mix) σ I R1 R2
  obtain ⟨hb, B1, B2, hrb, Ib, _, Rb2⟩ := gen_run (S := S) (adv := adv) (mix := mix) (σ.filter (·.1)) I R1 R2
  obtain ⟨hc, C1, C2, hrc, _, Rc1, _⟩ := gen_run (S := S) (adv := adv) (mix := mix) (σ.filter (!·.1)) I R1 R2
  obtain ⟨e2, e1⟩ := jrun_one_drawer S adv mix σ hσ (a1, a2, s)
  have e1' := e1 a2 s
  refine ⟨ha, hb, hc, _, _, _, hra, hrb, hrc, Ra2.view, ?_, getData_eq_some.mpr Ia.hg, ?_, Ra1.view, ?_⟩
  · rw [Rb2.view, e2]
  · rw [e2]; exact getData_eq_some.mpr Ib.hg
  · rw [Rc1.view]
    have : (jrun S adv mix (a1, a2, s) σ).1 = (jrun S adv mix (a1, a2, s) (σ.filter (!·.1))).1 := e1'
    rw [this]

/-- the invariant holds right after the two constructors: `g` is a `data` cell of the initial store that is
not the configuration's model object (`hng`) -/
theorem construct_ginv {S : Sem D V R} {h0 h1 h2 : Heap D} {cfg d1 d2 g : Ref} {c1 c2 : CbArg} {s : D}
    (hn1 : newDetector S h0 cfg c1 = some (d1, h1)) (hn2 : newDetector S h1 cfg c2 = some (d2, h2))
    (hwf : ∀ r, Reach h0 cfg r → r < h0.length)
    (hdisj : ∀ i1 i2, ArgItems h0 c1 i1 → ArgItems h1 c2 i2 → ∀ c, c ∈ i1 → c ∉ i2)
    (hnd1 : ∀ items, ArgItems h0 c1 items → items.Nodup) (hnd2 : ∀ items, ArgItems h1 c2 items → items.Nodup)
    (hg : read h0 g = some (.data s)) (hng : ¬ Reach h0 cfg g) :
    ∃ (L1 L2 : Layout) (a1 a2 : AState D), GInv h2 d1 d2 g s ∧ Rep h2 d1 L1 a1 ∧ Rep h2 d2 L2 a2 := by
  obtain ⟨L1, L2, sc, cm, k1, k2, hc0, _, _, _, _, ho1, ho2, hs, R1, R2⟩ := construct_rep hn1 hn2 hwf hdisj hnd1 hnd2
  have hcm : cm ≠ some g := by
    intro e
    exact hng (Reach.edge (getCfg_eq_some.mp hc0) (by simp [edges, e]))
  -- the constructors do not touch `g`
  have keep : ∀ {h h' : Heap D} {d : Ref} {arg : CbArg}, newDetector S h cfg arg = some (d, h') →
      read h g = some (.data s) → read h' g = some (.data s) := by
    intro h h' d arg hn hgr
    obtain ⟨_, _, _, items, _, _, B⟩ := newDetectorG_spec hn
    rw [B.frame g (read_lt hgr) (fun hm => by
      obtain ⟨_, ⟨cb0, e⟩, _⟩ := B.hitems g hm
      rw [hgr] at e; cases e)]
    exact hgr
  have hg1 := keep hn1 hg
  have hg2 := keep hn2 hg1
  exact ⟨L1, L2, _, _,
    { sep := hs
      hg := hg2
      ng1 := fun hr => hcm (ho1 g s (R1.reach_cell hr) hg)
      ng2 := fun hr => hcm (ho2 g s (R2.reach_cell hr) hg1) }, R1, R2⟩

/-- **isolation when only one detector draws** (C16 with the global generator as a cell): two detectors built
from the same configuration object as in `run_equality`, `g` a `data` cell of the initial store (NumPy's global
generator) that is not the configuration's model object; the first detector never draws. -/
theorem generator_one_drawer {S : Sem D V R} {adv : D → D} {mix : D → V → V}
    {h0 h1 h2 : Heap D} {cfg d1 d2 g : Ref} {c1 c2 : CbArg} {s : D}
    (hn1 : newDetector S h0 cfg c1 = some (d1, h1)) (hn2 : newDetector S h1 cfg c2 = some (d2, h2))
    (hwf : ∀ r, Reach h0 cfg r → r < h0.length)
    (hdisj : ∀ i1 i2, ArgItems h0 c1 i1 → ArgItems h1 c2 i2 → ∀ c, c ∈ i1 → c ∉ i2)
    (hnd1 : ∀ items, ArgItems h0 c1 items → items.Nodup) (hnd2 : ∀ items, ArgItems h1 c2 items → items.Nodup)
    (hg : read h0 g = some (.data s)) (hng : ¬ Reach h0 cfg g)
    (σ : List (Bool × GOp V)) (hσ : NoDraw1 σ) :
    ∃ ha hb hc v1 v2 sg,
      runOps (applyGenTo S adv mix g d1 d2) h2 σ = some ha ∧
      runOps (applyGenTo S adv mix g d1 d2) h2 (σ.filter (·.1)) = some hb ∧
      runOps (applyGenTo S adv mix g d1 d2) h2 (σ.filter (!·.1)) = some hc ∧
      view ha d2 = some v2 ∧ view hb d2 = some v2 ∧ getData ha g = some sg ∧ getData hb g = some sg ∧
      view ha d1 = some v1 ∧ view hc d1 = some v1 := by
  obtain ⟨L1, L2, a1, a2, I, R1, R2⟩ := construct_ginv hn1 hn2 hwf hdisj hnd1 hnd2 hg hng
  exact generator_one_drawer_inv I R1 R2 σ hσ

/-- the locality lemma in the form "an operation on `d` depends only on the cells `d` refers to": two stores
(of any size, with any other contents, the detector laid out anywhere) that represent the same pure state
accept the same operation, and the results again represent the same pure state -/
theorem apply_local {S : Sem D V R} {h k : Heap D} {d e : Ref} {L M : Layout} {a : AState D}
    (Rh : Rep h d L a) (Rk : Rep k e M a) (op : SOp V) :
    ∃ h' k' L' M' a', applyG true S d h op = some h' ∧ applyG true S e k op = some k' ∧
      Rep h' d L' a' ∧ Rep k' e M' a' ∧ view h' d = view k' e := by
  obtain ⟨h', m1, r1, _, R1⟩ := Rh.apply (S := S) op
  obtain ⟨k', m2, r2, _, R2⟩ := Rk.apply (S := S) op
  exact ⟨h', k', _, _, _, r1, r2, R1, R2, by rw [R1.view, R2.view]⟩

/-! ## concrete instances on `Nat` stores: non-vacuity, and witnesses for the variants -/

/-- a configuration without a model object reaches only itself -/
theorem reach_config_none {h : Heap D} {cfg r : Ref} {sc : D} (hc : read h cfg = some (.config sc none))
    (hr : Reach h cfg r) : r = cfg := by
  refine Reach.subset (P := fun r => r = cfg) ?_ hr rfl
  intro x o y hx hxo hy
  subst hx
  rw [hc] at hxo; cases hxo; cases hy

theorem wf_config_none {h : Heap D} {cfg : Ref} {sc : D} (hc : read h cfg = some (.config sc none)) :
    ∀ r, Reach h cfg r → r < h.length := by
  intro r hr
  rw [reach_config_none hc hr]; exact read_lt hc

/-- cells 0, 1: two `HistoryConceptDrift` objects; cell 2: a configuration (no model) -/
def hE : Heap Nat := [.callback ⟨.history, none, []⟩, .callback ⟨.history, none, []⟩, .config 1 none]

/-- after `d1 = Detector(cfg, callbacks=cb0)` (cell 5), `d2 = Detector(cfg, callbacks=cb1)` (cell 8) -/
def hE2 : Heap Nat :=
  [.callback ⟨.history, some 5, []⟩, .callback ⟨.history, some 8, []⟩, .config 1 none,
   .list [0], .data 0, .detector ⟨some 2, 3, 4, none, none, 0⟩,
   .list [1], .data 0, .detector ⟨some 2, 6, 7, none, none, 0⟩]

theorem hE2_built : ∃ h1, newDetector S0 hE 2 (.single 0) = some (5, h1) ∧ newDetector S0 h1 2 (.single 1) = some (8, hE2) :=
  ⟨_, rfl, rfl⟩

theorem hE_disj {h1 : Heap Nat} : ∀ i1 i2, ArgItems hE (.single 0) i1 → ArgItems h1 (.single 1) i2 → ∀ c, c ∈ i1 → c ∉ i2 := by
  intro i1 i2 e1 e2 c hc
  have e1 : i1 = [0] := e1
  have e2 : i2 = [1] := e2
  subst e1 e2
  simp only [List.mem_singleton] at hc ⊢
  subst hc; decide

def σE : List (Bool × SOp Nat) := [(false, .update 5), (true, .update 6), (false, .reset), (true, .update 1), (false, .update 2)]

/-- non-vacuity of `run_equality` (no model, separate callbacks): every hypothesis holds for `hE`, and the
conclusion, computed: the second detector has seen `6, 1` and its callback has recorded `[106, 201]`, the
first has seen `5`, a reset, `2` and its callback holds `[102]` — in the interleaved run and alone -/
example :
    (∃ ha hb vw, runOps (applyTo S0 5 8) hE2 σE = some ha ∧ runOps (applyG true S0 8) hE2 (opsOf true σE) = some hb ∧
      view ha 8 = some vw ∧ view hb 8 = some vw) ∧
    (runOps (applyTo S0 5 8) hE2 σE).bind (view · 8) = some ⟨2, 7, none, [some [106, 201]]⟩ ∧
    (runOps (applyG true S0 8) hE2 (opsOf true σE)).bind (view · 8) = some ⟨2, 7, none, [some [106, 201]]⟩ ∧
    (runOps (applyTo S0 5 8) hE2 σE).bind (view · 5) = some ⟨1, 2, none, [some [102]]⟩ ∧
    (runOps (applyG true S0 5) hE2 (opsOf false σE)).bind (view · 5) = some ⟨1, 2, none, [some [102]]⟩ := by
  obtain ⟨h1, e1, e2⟩ := hE2_built
  exact ⟨run_equality e1 e2 (wf_config_none (sc := 1) rfl) hE_disj nodup_single nodup_single σE true,
    rfl, rfl, rfl, rfl⟩

def σA : List (Bool × SOp Nat) :=
  [(false, .update 5), (true, .update 6), (false, .reset), (true, .update 1), (true, .reset), (true, .update 3)]

/-- non-vacuity of `run_equality` WITH a model object (BOCD-like; `hA2` of `C16b`): the projections agree
(own model parameters `10 = 7 + 3`) although the second detector's model copy lives at DIFFERENT addresses in
the two runs (cell 11 interleaved, cell 10 alone: the first detector's `reset` allocated in between) — the
cell-level statement would need a renaming, the projection does not -/
example :
    (∃ ha hb vw, runOps (applyTo S0 5 9) hA2 σA = some ha ∧ runOps (applyG true S0 9) hA2 (opsOf true σA) = some hb ∧
      view ha 9 = some vw ∧ view hb 9 = some vw) ∧
    (runOps (applyTo S0 5 9) hA2 σA).bind (view · 9) = some ⟨1, 3, some (some 10), []⟩ ∧
    (runOps (applyG true S0 9) hA2 (opsOf true σA)).bind (view · 9) = some ⟨1, 3, some (some 10), []⟩ ∧
    (runOps (applyTo S0 5 9) hA2 σA).bind (getDet · 9) = some ⟨some 1, 6, 7, some 11, none, 1⟩ ∧
    (runOps (applyG true S0 9) hA2 (opsOf true σA)).bind (getDet · 9) = some ⟨some 1, 6, 7, some 10, none, 1⟩ := by
  obtain ⟨h1, e1, e2⟩ := hA2_built
  exact ⟨run_equality e1 e2 hA_wf hdisj_none nodup_none nodup_none σA true, rfl, rfl, rfl, rfl⟩

/-- the hypothesis `hdisj` is necessary for `run_equality` too: with the SAME callbacks list handed to both
constructors (`C16b.isolation_sharedCallbacks_witness`), the second detector's projection after the schedule
`update 5` on the FIRST detector differs from its projection after its own (empty) history -/
theorem run_equality_sharedCallbacks_witness :
    ∃ (h1 h2 : Heap Nat), newDetector S0 hS 2 (.list 1) = some (4, h1) ∧ newDetector S0 h1 2 (.list 1) = some (6, h2) ∧
      (runOps (applyTo S0 4 6) h2 [(false, .update 5)]).bind (view · 6) = some ⟨0, 0, none, [some [5]]⟩ ∧
      (runOps (applyG true S0 6) h2 (opsOf true [(false, SOp.update 5)])).bind (view · 6) = some ⟨0, 0, none, [some []]⟩ :=
  ⟨_, _, rfl, rfl, rfl, rfl⟩

/-- non-vacuity of `history_records` (`hD1` of `C16b`: one history callback): after `update 5, update 6, reset,
update 7, update 8` the callback holds `[107, 208]` = `100 * counter + value` with the counter AFTER the update -/
example :
    (∃ hb vw, runOps (applyG true S0 4) hD1 ([SOp.update 5, .update 6, .reset] ++ [7, 8].map .update) = some hb ∧
      view hb 4 = some vw ∧ vw.hists = [some [107, 208]] ∧ vw.own = 2 ∧ vw.vars = 15) ∧
    trace S0 (arun S0 (initState S0 1 none) [.update 5, .update 6, .reset]) [7, 8] = [107, 208] ∧
    (runOps (applyG true S0 4) hD1 ([SOp.update 5, .update 6, .reset] ++ [7, 8].map .update)).bind (view · 4) =
      some ⟨2, 15, none, [some [107, 208]]⟩ := by
  refine ⟨?_, rfl, rfl⟩
  obtain ⟨sc, cm, hb, vw, hcfg, hrun, hv, hh, ho, hvars, _⟩ :=
    history_records hD1_built (wf_config_none (sc := 1) rfl) rfl [.update 5, .update 6, .reset] [7, 8]
      (Or.inr ⟨[.update 5, .update 6], rfl⟩)
  have e : some ((1 : Nat), (none : Option Ref)) = some (sc, cm) := hcfg
  simp only [Option.some.injEq, Prod.mk.injEq] at e
  obtain ⟨rfl, rfl⟩ := e
  exact ⟨hb, vw, hrun, hv, hh, ho, hvars⟩

/-- **VARIANT (`on_update_end` run BEFORE `_update`)**: same detector, same callback, updates `7, 8`.  The
detector computes the same (`own = 2`, containers `15`) but the callback holds `[7, 108]` — snapshots of the state
BEFORE each update — whereas `history_records` requires `trace = [107, 208]`: its conclusion is false for the
variant (the entries still number one per update: only the CONTENT clause catches this mutant). -/
theorem history_records_pre_witness :
    (runOps (fun h v => updatePre S0 h 4 v) hD1 [7, 8]).bind (view · 4) = some ⟨2, 15, none, [some [7, 108]]⟩ ∧
    (runOps (fun h v => update S0 h 4 v) hD1 [7, 8]).bind (view · 4) = some ⟨2, 15, none, [some [107, 208]]⟩ ∧
    trace S0 (initState S0 1 none) [7, 8] = [107, 208] :=
  ⟨rfl, rfl, rfl⟩

/-- the detector of `hD1` built WITHOUT callbacks from the same initial store -/
def hD0 : Heap Nat :=
  [.callback ⟨.history, none, []⟩, .config 1 none, .list [], .data 0, .detector ⟨some 1, 2, 3, none, none, 0⟩]

theorem hD0_built : newDetector S0 [.callback ⟨.history, none, []⟩, .config 1 none] 1 .none = some (4, hD0) := rfl

/-- non-vacuity of `ctor_transparent_none_single`: without / with the history callback, history
`update 5, update 6, reset, update 7, update 8`: same scalars and containers -/
example :
    (∃ ha' hb' va vb,
      runOps (applyG true S0 4) hD0 [.update 5, .update 6, .reset, .update 7, .update 8] = some ha' ∧
      runOps (applyG true S0 4) hD1 [.update 5, .update 6, .reset, .update 7, .update 8] = some hb' ∧
      view ha' 4 = some va ∧ view hb' 4 = some vb ∧ va.own = vb.own ∧ va.vars = vb.vars ∧ va.model = vb.model) ∧
    (runOps (applyG true S0 4) hD0 [.update 5, .update 6, .reset, .update 7, .update 8]).bind (view · 4) =
      some ⟨2, 15, none, []⟩ ∧
    (runOps (applyG true S0 4) hD1 [.update 5, .update 6, .reset, .update 7, .update 8]).bind (view · 4) =
      some ⟨2, 15, none, [some [107, 208]]⟩ :=
  ⟨ctor_transparent_none_single hD0_built hD1_built (wf_config_none (sc := 1) rfl) _, rfl, rfl⟩

/-- **VARIANT (a streaming callback that WRITES the detector)**: with `updateMeddling` (the callback rebinds the
detector's scalars to the entry it has just recorded) the detector built with the callback ends with scalars
`10808`, the one built without callbacks with `2`: the conclusion of `ctor_transparent` (and of
`C16b.callbacks_transparent`: same object, loops executed or skipped) is FALSE for the variant.  Transparency is
a property of what `HistoryConceptDrift.on_update_end` writes, not of the callback mechanism. -/
theorem transparency_meddling_witness :
    (runOps (fun h v => updateMeddling S0 h 4 v) hD0 [7, 8]).bind (view · 4) = some ⟨2, 15, none, []⟩ ∧
    (runOps (fun h v => updateMeddling S0 h 4 v) hD1 [7, 8]).bind (view · 4) = some ⟨10808, 15, none, [some [107, 10808]]⟩ ∧
    (runOps (fun h v => updateCore S0 h 4 v) hD1 [7, 8]).bind (view · 4) = some ⟨2, 15, none, [some []]⟩ :=
  ⟨rfl, rfl, rfl⟩

/-- cell 0: NumPy's global generator (state `0`); cell 1: a configuration (KSWIN-like, no model) -/
def hG : Heap Nat := [.data 0, .config 1 none]

/-- after `d1 = Detector(cfg)` (cell 4), `d2 = Detector(cfg)` (cell 7) -/
def hG2 : Heap Nat :=
  [.data 0, .config 1 none,
   .list [], .data 0, .detector ⟨some 1, 2, 3, none, none, 0⟩,
   .list [], .data 0, .detector ⟨some 1, 5, 6, none, none, 0⟩]

theorem hG2_built : ∃ h1, newDetector S0 hG 1 .none = some (4, h1) ∧ newDetector S0 h1 1 .none = some (7, hG2) :=
  ⟨_, rfl, rfl⟩

/-- a draw advances the generator by one; the drawn number is added to the value -/
abbrev adv0 : Nat → Nat := fun s => s + 1
abbrev mix0 : Nat → Nat → Nat := fun s v => s + v

/-- **isolation FAILS for two detectors that both draw from the global generator** (the carve-out of C16,
KSWIN): both detectors of `hG2` draw once.  Interleaved, the second detector sees the generator state `1` left by
the first one's draw (containers `1`); alone (the first detector's operation deleted) it sees `0` (containers
`0`).  Every hypothesis of `generator_one_drawer` holds except `NoDraw1`. -/
theorem generator_coupling_witness :
    (runOps (applyGenTo S0 adv0 mix0 0 4 7) hG2 [(false, .draw 0), (true, .draw 0)]).bind (view · 7) = some ⟨1, 1, none, []⟩ ∧
    (runOps (applyGenTo S0 adv0 mix0 0 4 7) hG2 ([(false, GOp.draw 0), (true, GOp.draw 0)].filter (·.1))).bind (view · 7) =
      some ⟨1, 0, none, []⟩ ∧
    ¬ NoDraw1 [(false, GOp.draw 0), (true, GOp.draw 0)] := by
  refine ⟨rfl, rfl, fun hn => ?_⟩
  exact hn (false, .draw 0) List.mem_cons_self rfl 0 rfl

def σG : List (Bool × GOp Nat) := [(false, .update 5), (true, .draw 10), (false, .reset), (true, .draw 20), (false, .update 1)]

theorem σG_noDraw1 : NoDraw1 σG := by
  intro e he hf v
  simp only [σG, List.mem_cons, List.not_mem_nil, or_false] at he
  rcases he with rfl | rfl | rfl | rfl | rfl <;> simp_all

/-- non-vacuity of `generator_one_drawer`: only the second detector draws (`10 + 0`, `20 + 1`: containers `31`,
generator state `2`), interleaved with ordinary operations of the first one — same projections as alone -/
example :
    (∃ ha hb hc v1 v2 sg,
      runOps (applyGenTo S0 adv0 mix0 0 4 7) hG2 σG = some ha ∧
      runOps (applyGenTo S0 adv0 mix0 0 4 7) hG2 (σG.filter (·.1)) = some hb ∧
      runOps (applyGenTo S0 adv0 mix0 0 4 7) hG2 (σG.filter (!·.1)) = some hc ∧
      view ha 7 = some v2 ∧ view hb 7 = some v2 ∧ getData ha 0 = some sg ∧ getData hb 0 = some sg ∧
      view ha 4 = some v1 ∧ view hc 4 = some v1) ∧
    (runOps (applyGenTo S0 adv0 mix0 0 4 7) hG2 σG).bind (view · 7) = some ⟨2, 31, none, []⟩ ∧
    (runOps (applyGenTo S0 adv0 mix0 0 4 7) hG2 σG).bind (getData · 0) = some 2 ∧
    (runOps (applyGenTo S0 adv0 mix0 0 4 7) hG2 σG).bind (view · 4) = some ⟨1, 1, none, []⟩ := by
  obtain ⟨h1, e1, e2⟩ := hG2_built
  refine ⟨generator_one_drawer e1 e2 (wf_config_none (sc := 1) rfl) hdisj_none nodup_none nodup_none
    (g := 0) (s := 0) rfl ?_ σG σG_noDraw1, rfl, rfl, rfl⟩
  intro hr
  have := reach_config_none (h := hG) (cfg := 1) (sc := 1) rfl hr
  exact absurd this (by decide)

/- UNPROVED (full statement): `run_equality`, `ctor_transparent` WITHOUT the hypotheses `hnd1`/`hnd2` (a callbacks
   list in which the same callback object occurs twice).  The representation relation `Rep` describes
   duplicate-free lists only (`forEach_cbs` needs `Nodup` to know that a later iteration does not overwrite an
   earlier one); with a repeated object the callback records twice per update.  The statements are expected
   to remain true (the harness scenario "same callback twice in a list" agrees with /repo), with `AState.cbs`
   indexed by the distinct objects.

   UNPROVED (full statement): `history_records` for a detector with SEVERAL history callbacks or with a
   callback that already holds entries: every callback `i` of the list holds `hs_i ++ trace …` resp. `trace …`
   after a reset.  (`arun_updates` is the single-callback case; the general case is the same induction with
   `a.cbs.map`.)

   NOT MODELLED (therefore no theorem): the third batch callback `PermutationTestDistanceBased`, whose
   `compare` hook calls `np.random.seed` (`utils/stats.py:248`), i.e. WRITES the generator cell; with the cell
   `g` of section 4 this would be one more `GOp` (`seed s`) for which `jrun_one_drawer` is false in the same
   way as for a second drawer.  Streaming data-drift detectors (IncKS, MMDStreaming) are not in the heap
   model.

   SUPERSEDED: the cell-level "equal up to a renaming `ρ` of references" statement written at the end of
   `C16b.lean`.  `run_equality` is stated on the projection `view`, which reads through the references, and
   covers the detectors with a model object as well; the second example above exhibits the two different
   addresses. -/

/-! ## axioms -/
#print axioms alone_rep
#print axioms interleaved_rep
#print axioms interleaved_total
#print axioms construct_rep
#print axioms run_equality
#print axioms apply_local
#print axioms run_equality_sharedCallbacks_witness
#print axioms trace_length
#print axioms trace_getElem
#print axioms arun_records
#print axioms history_records
#print axioms history_records_pre_witness
#print axioms ctor_transparent
#print axioms ctor_transparent_none_single
#print axioms transparency_meddling_witness
#print axioms gen_run
#print axioms jrun_one_drawer
#print axioms generator_one_drawer_inv
#print axioms construct_ginv
#print axioms generator_one_drawer
#print axioms generator_coupling_witness

end Frouros.C16c
