/-
  C19 (second half) — *operability*: a configuration accepted by the validation tables of
  `FrourosModel/Config.lean` can be operated: updating the detector with in-domain values never raises.

  The model represents a raised exception by an error component of the state
  (`RDDM.State.err`, `STEPD.State.err : Option Err`, `ADWIN.State.err : Bool`, `CircMean.update : Except …`,
  queue operations returning `Except`).  Contents:

  1. `operable_adwin` (ℝ)            – the `total` setter never rejects on a non-negative stream
     (+ `operable_adwin_prefix`, `operable_adwin_total_nonneg`, `operable_adwin_negative_witness`);
  2. `operable_rddm` (any carrier)    – `0 < minConcept` ⇒ `err = none` in every reachable state (+ witness);
  3. `operable_stepd` (any carrier)   – `0 < minN` ⇒ `err = none` in every reachable state (+ witness);
  4. `operable_circmean` (any carrier)– `0 < size` ⇒ folding `CircMean.update` never returns `.error` (+ witness);
  5. `operable_kswin` (any carrier)   – `2·numTest ≤ minN` ⇒ a sample without replacement exists whenever the
     window is full; `validTape_exists_iff` shows the size condition is exactly what is needed;
  6. `operable_divisors_*`            – the Python-level divisors are non-zero for accepted configurations;
  7. `operable_queue*`                – `enqueue` never errors on a well-formed queue / a queue reached from
     `CQ.init n`, `0 < n`; `CQ.init 0` does error.
  `…_of_accepted` corollaries take the hypothesis literally in the form `Config.<cls> … = none`.
-/
import FrourosProofs.Props.C05
import FrourosProofs.Props.C02b
import FrourosProofs.Props.C03b
import FrourosProofs.Props.C06
import FrourosProofs.Props.C18
import FrourosProofs.Props.C19
namespace Frouros.C19b
open Frouros

/-! ## 1. ADWIN: the `total` setter never rejects on non-negative streams (ℝ) -/
section ADWINOperable
open ADWIN Frouros.C05

/-- under the representation invariant, `total` is the sum of a suffix of the stream, hence `≥ 0`
when every stream value is -/
theorem Repr.total_nonneg {s : State ℝ} {xs : List ℝ} (h : Repr s xs) (hx : ∀ x ∈ xs, 0 ≤ x) : 0 ≤ s.total := by
  obtain ⟨B, -, -, hsuf, -, ht, -⟩ := h
  rw [ht]
  exact List.sum_nonneg (fun x hx' => hx x (hsuf.subset hx'))

/-- how `insert` sets the error flag (any carrier) -/
theorem insert_err {α : Type} [Num α] (c : Cfg α) (s : State α) (v : α) :
    (ADWIN.insert c s v).err = (s.err || Num.lt (ADWIN.insert c s v).total Num.zero) := rfl

/-- how `deleteOldest` sets the error flag (any carrier): either nothing is deleted, or the setter test is
applied to the new `total` -/
theorem deleteOldest_err {α : Type} [Num α] (s : State α) :
    deleteOldest s = s ∨ (deleteOldest s).err = (s.err || Num.lt (deleteOldest s).total Num.zero) := by
  unfold deleteOldest
  split
  · exact Or.inl rfl
  · split
    · exact Or.inl rfl
    · exact Or.inr rfl

/-- the operability invariant: representation invariant, non-negative stream, no error so far -/
def OpInv (s : State ℝ) (xs : List ℝ) : Prop := Repr s xs ∧ (∀ x ∈ xs, 0 ≤ x) ∧ s.err = false

theorem OpInv_init : OpInv (init : State ℝ) [] := ⟨Repr_init, by simp, rfl⟩
theorem OpInv_reset (s : State ℝ) : OpInv (reset s) [] := ⟨Repr_reset s, by simp, rfl⟩

theorem OpInv_insert (c : Cfg ℝ) (s : State ℝ) (xs : List ℝ) (v : ℝ) (h : OpInv s xs) (hv : 0 ≤ v) :
    OpInv (ADWIN.insert c s v) (xs ++ [v]) := by
  obtain ⟨hr, hx, he⟩ := h
  have hx' : ∀ x ∈ xs ++ [v], 0 ≤ x := by
    intro x hx'
    rcases List.mem_append.mp hx' with h1 | h1
    · exact hx x h1
    · simp at h1; rw [h1]; exact hv
  have hr' := Repr_insert c s xs v hr
  refine ⟨hr', hx', ?_⟩
  rw [insert_err, he, Bool.false_or, RealNum.zero_eq, RealNum.lt_false_iff, not_lt]
  exact Repr.total_nonneg hr' hx'

theorem OpInv_delete (s : State ℝ) (xs : List ℝ) (h : OpInv s xs) (h2 : 2 ≤ numEntries s) :
    OpInv (deleteOldest s) xs := by
  obtain ⟨hr, hx, he⟩ := h
  have hr' := Repr_delete s xs hr h2
  refine ⟨hr', hx, ?_⟩
  rcases deleteOldest_err s with h0 | h0
  · rw [h0]; exact he
  · rw [h0, he, Bool.false_or, RealNum.zero_eq, RealNum.lt_false_iff, not_lt]
    exact Repr.total_nonneg hr' hx

theorem OpInv_checkLoop (c : Cfg ℝ) (fuel : Nat) (s : State ℝ) (xs : List ℝ) (h : OpInv s xs) :
    OpInv (checkLoop c fuel s) xs := by
  induction fuel generalizing s with
  | zero => exact h
  | succ f ih =>
    rw [checkLoop_succ]
    split
    · rename_i hc
      split
      · exact ih _ (OpInv_delete s xs h (scan_true_two hc))
      · exact h
    · exact h

theorem OpInv_step (c : Cfg ℝ) (s : State ℝ) (xs : List ℝ) (v : ℝ) (h : OpInv s xs) (hv : 0 ≤ v) :
    OpInv (step c s v) (xs ++ [v]) := by
  have h1 : OpInv (ADWIN.insert c { s with n := s.n + 1, drift := false } v) (xs ++ [v]) :=
    OpInv_insert c _ xs v h hv
  unfold step
  simp only []
  split
  · exact OpInv_checkLoop c _ _ _ h1
  · exact h1

/-- the invariant along an arbitrary history of updates and resets with non-negative update values;
`sinceReset ops` (from C05) is the list of values fed since the last reset -/
theorem OpInv_run (c : Cfg ℝ) (ops : List (Op ℝ)) (hpos : ∀ v, Op.update v ∈ ops → 0 ≤ v) :
    OpInv ((ADWIN.machine c).run ops) (sinceReset ops) := by
  induction ops using List.reverseRecOn with
  | nil => exact OpInv_init
  | append_singleton ops op ih =>
    have ih' := ih (fun v hv => hpos v (List.mem_append_left _ hv))
    have hrun : (ADWIN.machine c).run (ops ++ [op])
        = (ADWIN.machine c).apply ((ADWIN.machine c).run ops) op := by
      simp [Machine.run, Machine.runFrom, List.foldl_append]
    rw [hrun]
    cases op with
    | update v =>
      have hsr : sinceReset (ops ++ [.update v]) = sinceReset ops ++ [v] := by
        simp [sinceReset, List.foldl_append]
      rw [hsr]
      exact OpInv_step c _ _ v ih' (hpos v (by simp))
    | reset =>
      have hsr : sinceReset (ops ++ [.reset]) = [] := by simp [sinceReset, List.foldl_append]
      rw [hsr]; exact OpInv_reset ((ADWIN.machine c).run ops)

/-- **operable_adwin** (ℝ, exact arithmetic).  For EVERY configuration `c` (no hypothesis at all is needed; the
accepted ones are described by
`C19.adwin_none_iff : adwin delta clock m minWindow n = none ↔ 1 ≤ n ∧ 1 ≤ clock ∧ 0 < delta ∧ delta < 1 ∧ 1 ≤ m ∧ 1 ≤ minWindow`)
and every history of updates and resets whose update values are all `≥ 0`, the reached state has
`err = false`: the `total` setter (`if value < 0: raise ValueError`) never fires — neither in `_insert_bucket`
nor in any `_delete_bucket` of the shrink loop.  Reason: `total` is exactly the sum of the window, a suffix of
the non-negative values seen since the last reset (`C05.Repr`).

The hypothesis `0 ≤ v` is the in-domain condition (ADWIN is fed error indicators / losses); it is needed
(`operable_adwin_negative_witness`).  `reset` clears the model's `err` flag, so the hypothesis is imposed on the
whole history, and `operable_adwin_prefix` states that no error was raised at ANY time during the history.

**Float caveat (finding KF-C05-1).**  Over IEEE doubles the statement is FALSE: `total` is maintained by
floating-point `+=`/`-=`, and after positive reals followed by zeros the cancellation in `_delete_bucket` can
leave a tiny negative `total`, so the setter raises `ValueError("total value must be greater or equal than 0.0.")`
(observed on about 13 % of random streams with `clock = 1`).  This theorem is about exact arithmetic only. -/
theorem operable_adwin (c : Cfg ℝ) (ops : List (Op ℝ)) (hpos : ∀ v, Op.update v ∈ ops → 0 ≤ v) :
    ((ADWIN.machine c).run ops).err = false :=
  (OpInv_run c ops hpos).2.2

/-- no error at any time: every prefix of the history ends in a state with `err = false` -/
theorem operable_adwin_prefix (c : Cfg ℝ) (ops : List (Op ℝ)) (hpos : ∀ v, Op.update v ∈ ops → 0 ≤ v) (k : Nat) :
    ((ADWIN.machine c).run (ops.take k)).err = false :=
  operable_adwin c _ (fun v hv => hpos v (List.mem_of_mem_take hv))

/-- the quantity the setter tests is non-negative after every such history -/
theorem operable_adwin_total_nonneg (c : Cfg ℝ) (ops : List (Op ℝ)) (hpos : ∀ v, Op.update v ∈ ops → 0 ≤ v) :
    0 ≤ ((ADWIN.machine c).run ops).total :=
  let h := OpInv_run c ops hpos
  Repr.total_nonneg h.1 h.2.1

/-- step-wise form (for streams without reset): from any state satisfying the invariant, one more
non-negative value keeps `err = false` -/
theorem operable_adwin_step (c : Cfg ℝ) (s : State ℝ) (xs : List ℝ) (v : ℝ) (h : OpInv s xs) (hv : 0 ≤ v) :
    (step c s v).err = false ∧ OpInv (step c s v) (xs ++ [v]) :=
  ⟨(OpInv_step c s xs v h hv).2.2, OpInv_step c s xs v h hv⟩

/-- non-vacuity: a history with a reset and with zeros after positive values, default-like configuration -/
example : ((ADWIN.machine (⟨1, 2 / 1000, 5, 5, 10⟩ : Cfg ℝ)).run
    [.update 1, .update (1 / 2), .reset, .update 3, .update 0, .update 0]).err = false :=
  operable_adwin _ _ (by
    intro v hv
    simp only [List.mem_cons, Op.update.injEq, List.not_mem_nil, or_false, reduceCtorEq, false_or] at hv
    rcases hv with rfl | rfl | rfl | rfl | rfl <;> norm_num)

/-- an error, once recorded, stays recorded through `deleteOldest` / `checkLoop` (any carrier) -/
theorem deleteOldest_err_mono {α : Type} [Num α] (s : State α) (h : s.err = true) : (deleteOldest s).err = true := by
  rcases deleteOldest_err s with h0 | h0
  · rw [h0]; exact h
  · rw [h0, h]; rfl

theorem checkLoop_err_mono {α : Type} [Num α] (c : Cfg α) (fuel : Nat) (s : State α) (h : s.err = true) :
    (checkLoop c fuel s).err = true := by
  induction fuel generalizing s with
  | zero => exact h
  | succ f ih =>
    rw [checkLoop_succ]
    split
    · split
      · exact ih _ (deleteOldest_err_mono s h)
      · exact h
    · exact h

/-- **the hypothesis `0 ≤ v` of `operable_adwin` cannot be dropped**: a single negative value makes the
`total` setter raise, for every configuration. -/
theorem operable_adwin_negative_witness (c : Cfg ℝ) (v : ℝ) (hv : v < 0) :
    ((ADWIN.machine c).run [.update v]).err = true := by
  show (step c init v).err = true
  have h1 : (ADWIN.insert c { (init : State ℝ) with n := (init : State ℝ).n + 1, drift := false } v).err = true := by
    rw [insert_err]
    have : (ADWIN.insert c { (init : State ℝ) with n := (init : State ℝ).n + 1, drift := false } v).total = v := by
      show (Num.zero : ℝ) + v = v
      simp
    rw [this]
    simp [hv]
  unfold step
  simp only []
  split
  · exact checkLoop_err_mono c _ _ h1
  · exact h1

/- NOT FORMALISED (float counterpart, finding KF-C05-1): at `α = Float` there are streams of non-negative doubles
   (positive reals followed by zeros, `clock = 1`) with `((ADWIN.machine c).run ops).err = true`.  `Float`
   operations are opaque to the kernel, so such a witness could only be checked by compiled evaluation, which the
   proof rules exclude; it is established by the differential harness against the Python code instead.
   The other ADWIN setter that can raise, `width` (`value < 0`), is covered for every carrier by
   `C05.delete_no_underflow` (the subtraction `width - 2^k` never truncates where `checkLoop` deletes). -/

end ADWINOperable
/-! ## What acceptance by the validation tables gives for the integer parameters (any carrier)

`C19.<cls>_none_iff` characterise the accepted domains over ℝ.  The integer tests do not involve the carrier, so
their consequences hold for every carrier (hence for doubles). -/
section Accepted
variable {α : Type} [Num α]
open Frouros.Config

theorem rddm_accepted (warn drift : α) (n maxConcept minConcept maxWarn : Int)
    (h : Config.rddm warn drift n maxConcept minConcept maxWarn = none) : 1 ≤ n ∧ 1 ≤ minConcept := by
  unfold Config.rddm at h
  simp only [C19.firstErr_none_iff] at h
  have h1 := h (Config.minN n) (by simp [Config.spc])
  have h2 := h (decide (minConcept < 1), Err.value) (by simp)
  simp only [Config.minN, decide_eq_false_iff_not] at h1 h2
  omega

theorem stepd_accepted (alphaD alphaW : α) (n : Int) (h : Config.stepd alphaD alphaW n = none) : 1 ≤ n := by
  unfold Config.stepd at h
  simp only [C19.firstErr_none_iff] at h
  have h1 := h (Config.minN n) (by simp)
  simp only [Config.minN, decide_eq_false_iff_not] at h1
  omega

theorem kswin_accepted (alpha : α) (n numTest : Int) (h : Config.kswin alpha n numTest = none) :
    1 ≤ n ∧ 1 ≤ numTest ∧ 2 * numTest ≤ n := by
  unfold Config.kswin at h
  simp only [C19.firstErr_none_iff] at h
  have h1 := h (Config.minN n) (by simp)
  have h2 := h (decide (numTest > n / 2), Err.value) (by simp)
  have h3 := h (decide (numTest < 1), Err.value) (by simp)
  simp only [Config.minN, decide_eq_false_iff_not] at h1 h2 h3
  omega

theorem adwin_accepted (delta : α) (clock m minWindow n : Int) (h : Config.adwin delta clock m minWindow n = none) :
    1 ≤ n ∧ 1 ≤ clock ∧ 1 ≤ m ∧ 1 ≤ minWindow := by
  unfold Config.adwin at h
  simp only [C19.firstErr_none_iff] at h
  have h1 := h (Config.minN n) (by simp)
  have h2 := h (decide (clock < 1), Err.value) (by simp)
  have h3 := h (decide (m < 1), Err.value) (by simp)
  have h4 := h (decide (minWindow < 1), Err.value) (by simp)
  simp only [Config.minN, decide_eq_false_iff_not] at h1 h2 h3 h4
  omega

theorem spc_accepted_minN (warn drift : α) (n : Int) (h : Config.ddm warn drift n = none) : 1 ≤ n := by
  unfold Config.ddm at h
  simp only [C19.firstErr_none_iff] at h
  have h1 := h (Config.minN n) (by simp [Config.spc])
  simp only [Config.minN, decide_eq_false_iff_not] at h1
  omega

end Accepted

/-! ## 2. RDDM (any carrier) -/
section RDDMOperable
variable {α : Type} [Num α]

/-- **operable_rddm** (any carrier, hence literally for doubles).  `C19.rddm_none_iff`:
`rddm warn drift n maxConcept minConcept maxWarn = none ↔ 1 ≤ n ∧ 0 < warn ∧ 0 < drift ∧ warn < drift ∧ 1 ≤ minConcept`.
With `0 < minConcept` every state reachable by ANY history of updates and resets has `err = none`: neither
`CircularQueue.enqueue` nor `maintain_last_element` ever raises (restated from `C02.rddm_inv`; see also
`C03b.rddm_suffix`). -/
theorem operable_rddm (c : RDDM.Cfg α) (hmc : 0 < c.minConcept) {s : RDDM.State α}
    (h : (RDDM.machine c).Reachable s) : s.err = none :=
  (C02.rddm_inv c hmc h).2

/-- history form -/
theorem operable_rddm_run (c : RDDM.Cfg α) (hmc : 0 < c.minConcept) (ops : List (Op α)) :
    ((RDDM.machine c).run ops).err = none :=
  operable_rddm c hmc ((RDDM.machine c).reachable_run ops)

/-- hypothesis literally as acceptance by the validation table -/
theorem operable_rddm_of_accepted (c : RDDM.Cfg α)
    (hacc : Config.rddm c.warn c.drift (c.minN : Int) (c.maxConcept : Int) (c.minConcept : Int) (c.maxWarn : Int) = none)
    (ops : List (Op α)) : ((RDDM.machine c).run ops).err = none :=
  operable_rddm_run c (by have := (rddm_accepted _ _ _ _ _ _ hacc).2; omega) ops

/-- non-vacuity (default-like configuration, a history with a reset) -/
example (w d x y : α) : ((RDDM.machine (⟨w, d, 129, 40000, 7000, 1400⟩ : RDDM.Cfg α)).run
    [.update x, .reset, .update y, .update x]).err = none :=
  operable_rddm_run _ (Nat.succ_pos _) _

/-- non-vacuity of the `_of_accepted` form: the library defaults are accepted (ℝ) -/
example (ops : List (Op ℝ)) :
    ((RDDM.machine (⟨1773 / 1000, 2258 / 1000, 129, 40000, 7000, 1400⟩ : RDDM.Cfg ℝ)).run ops).err = none :=
  operable_rddm_of_accepted _ (by rw [C19.rddm_none_iff]; norm_num) ops

/-- **the hypothesis cannot be dropped**: with `minConcept = 0` (rejected by the table) the very first update
raises `EmptyQueueError` inside `enqueue`. -/
theorem operable_rddm_witness (c : RDDM.Cfg α) (hc : c.minConcept = 0) (v : α) :
    ((RDDM.machine c).run [.update v]).err = some Err.emptyQueue := by
  show (RDDM.step c (RDDM.init c) v).err = some Err.emptyQueue
  simp [RDDM.step, RDDM.init, hc, CQ.init, CQ.enqueue, CQ.isFull, CQ.dequeue, CQ.isEmpty]

end RDDMOperable

/-! ## 3. STEPD (any carrier) -/
section STEPDOperable
variable {α : Type} [Num α]

/-- **operable_stepd** (any carrier).  `C19.stepd_none_iff`:
`stepd alphaD alphaW n = none ↔ 1 ≤ n ∧ 0 < alphaD ∧ 0 < alphaW ∧ alphaD < alphaW`.
With `0 < minN` every state reachable by any history of updates and resets has `err = none`: the
`AccuracyQueue.enqueue` (and the `dequeue` it dispatches to when full) never raises
(restated from `C06.stepd_reachable_inv` / `C02.stepd_inv`; `C06.stepd_counts` has the full bookkeeping). -/
theorem operable_stepd (sf : α → α) (c : STEPD.Cfg α) (hpos : 0 < c.minN) {s : STEPD.State}
    (h : (STEPD.machine sf c).Reachable s) : s.err = none :=
  (C06.stepd_reachable_inv sf c hpos h).1

theorem operable_stepd_run (sf : α → α) (c : STEPD.Cfg α) (hpos : 0 < c.minN) (ops : List (Op Bool)) :
    ((STEPD.machine sf c).run ops).err = none :=
  operable_stepd sf c hpos ((STEPD.machine sf c).reachable_run ops)

theorem operable_stepd_of_accepted (sf : α → α) (c : STEPD.Cfg α)
    (hacc : Config.stepd c.alphaD c.alphaW (c.minN : Int) = none) (ops : List (Op Bool)) :
    ((STEPD.machine sf c).run ops).err = none :=
  operable_stepd_run sf c (by have := stepd_accepted _ _ _ hacc; omega) ops

example (sf : α → α) (aD aW : α) : ((STEPD.machine sf (⟨aD, aW, 30⟩ : STEPD.Cfg α)).run
    [.update true, .reset, .update false, .update true]).err = none :=
  operable_stepd_run sf _ (Nat.succ_pos _) _

example (sf : ℝ → ℝ) (ops : List (Op Bool)) :
    ((STEPD.machine sf (⟨3 / 1000, 5 / 100, 30⟩ : STEPD.Cfg ℝ)).run ops).err = none :=
  operable_stepd_of_accepted sf _ (by rw [C19.stepd_none_iff]; norm_num) ops

/-- **the hypothesis cannot be dropped**: with `minN = 0` the first update raises `EmptyQueueError`. -/
theorem operable_stepd_witness (sf : α → α) (c : STEPD.Cfg α) (hc : c.minN = 0) (v : Bool) :
    ((STEPD.machine sf c).run [.update v]).err = some Err.emptyQueue := by
  show (STEPD.step sf c (STEPD.init c) v).err = some Err.emptyQueue
  simp [STEPD.step, STEPD.init, hc, AccQ.init, AccQ.enqueue, AccQ.dequeue, CQ.init, CQ.isFull, CQ.dequeue,
    CQ.isEmpty]

end STEPDOperable

/-! ## 7. The circular queue (any element type) -/
section QueueOperable
variable {β : Type}

/-- **operable_queue**.  `enqueue` on a well-formed queue (`CQ.WF`, which contains `0 < maxLen`) never errors,
and the result is again well formed with the same capacity, so this can be iterated
(restated from `CQ.enqueue_spec` / `C18.cq_enqueue_ne_error`). -/
theorem operable_queue {q : CQ β} (h : CQ.WF q) (v : β) :
    (∀ e, q.enqueue v ≠ .error e) ∧ ∃ ev q', q.enqueue v = .ok (ev, q') ∧ CQ.WF q' ∧ q'.maxLen = q.maxLen := by
  obtain ⟨ev, q', h1, h2, h3, _⟩ := CQ.enqueue_spec h v
  exact ⟨fun e => CQ.enqueue_ne_error h v e, ev, q', h1, h2, h3⟩

/-- a fresh queue of positive capacity is well formed … -/
theorem operable_queue_init {n : Nat} (hn : 0 < n) : CQ.WF (CQ.init n : CQ β) := CQ.init_WF hn

/-- … and so is every queue obtained from it through the public operations (`enqueue`, `dequeue`, `clear`,
`maintain_last_element`): on none of them `enqueue` errors. -/
theorem operable_queue_reach {n : Nat} (hn : 0 < n) {q : CQ β} (hr : CQ.Reach n q) (v : β) (e : Err) :
    q.enqueue v ≠ .error e :=
  CQ.enqueue_ne_error (CQ.Reach.good hn hr).1 v e

/-- any number of consecutive `enqueue`s from `CQ.init n`, `0 < n`, succeeds -/
theorem operable_queue_enqueueAll {n : Nat} (hn : 0 < n) (xs : List β) :
    ∃ q', CQ.enqueueAll (CQ.init n : CQ β) xs = .ok q' ∧ CQ.WF q' ∧ q'.maxLen = n := by
  obtain ⟨q', h1, h2, h3, _⟩ := CQ.enqueueAll_spec (CQ.init_WF (β := β) hn) xs
  exact ⟨q', h1, h2, h3⟩

/-- **`CQ.init 0` does error**: capacity 0 is at once full and empty; `enqueue` raises `EmptyQueueError`. -/
theorem operable_queue_witness (v : β) : (CQ.init 0 : CQ β).enqueue v = .error .emptyQueue := rfl

example : CQ.WF (CQ.init 3 : CQ Nat) := operable_queue_init (by decide)

end QueueOperable

/-! ## 4. CircularMean (any carrier) -/
section CircMeanOperable
variable {α : Type} [Num α]

/-- one `update` on a state whose queue is well formed succeeds and keeps the queue well formed -/
theorem circMean_update_ok (s : CircMean α) (h : CQ.WF s.q) (v : α) :
    ∃ s', s.update v = .ok s' ∧ CQ.WF s'.q ∧ s'.q.maxLen = s.q.maxLen := by
  obtain ⟨ev, q', h1, h2, h3, _⟩ := CQ.enqueue_spec h v
  cases ev with
  | none => exact ⟨⟨s.mean + (v - s.mean) / Num.ofNat q'.count, q'.count, q'⟩, by simp only [CircMean.update, h1], h2, h3⟩
  | some x => exact ⟨⟨s.mean + (v - x) / Num.ofNat q'.count, q'.count, q'⟩, by simp only [CircMean.update, h1], h2, h3⟩

theorem circMeanRun_ok (s : CircMean α) (h : CQ.WF s.q) (xs : List α) :
    ∃ s', C18.circMeanRun s xs = .ok s' ∧ CQ.WF s'.q ∧ s'.q.maxLen = s.q.maxLen := by
  induction xs generalizing s with
  | nil => exact ⟨s, rfl, h, rfl⟩
  | cons v vs ih =>
    obtain ⟨s1, h1, h2, h3⟩ := circMean_update_ok s h v
    obtain ⟨s', g1, g2, g3⟩ := ih s1 h2
    exact ⟨s', by simp [C18.circMeanRun, h1, g1], g2, g3.trans h3⟩

/-- **operable_circmean** (any carrier).  `CircularMean(size)` is only constructed with `size = window_size`
validated by `C19.positiveInt_none_iff : positiveInt v = none ↔ 1 ≤ v`.  With `0 < size`, folding
`CircMean.update` over ANY list of values from `CircMean.init size` never returns `.error`; the final queue is
well formed with capacity `size`.  (At ℝ, `C18.circular_mean_eq` adds the value of the mean.) -/
theorem operable_circmean {size : Nat} (hsize : 0 < size) (xs : List α) :
    (∀ e, C18.circMeanRun (CircMean.init size : CircMean α) xs ≠ .error e) ∧
    ∃ s, C18.circMeanRun (CircMean.init size : CircMean α) xs = .ok s ∧ CQ.WF s.q ∧ s.q.maxLen = size := by
  obtain ⟨s, h1, h2, h3⟩ := circMeanRun_ok (CircMean.init size : CircMean α) (CQ.init_WF hsize) xs
  refine ⟨fun e he => ?_, s, h1, h2, h3⟩
  rw [h1] at he; cases he

example (x y z : α) : ∃ s, C18.circMeanRun (CircMean.init 2 : CircMean α) [x, y, z] = .ok s :=
  let ⟨s, h, _⟩ := (operable_circmean (α := α) (size := 2) (by decide) [x, y, z]).2
  ⟨s, h⟩

/-- **the hypothesis cannot be dropped**: with `size = 0` the first update raises `EmptyQueueError`. -/
theorem operable_circmean_witness (v : α) (vs : List α) :
    C18.circMeanRun (CircMean.init 0 : CircMean α) (v :: vs) = .error .emptyQueue := rfl

end CircMeanOperable

/-! ## 5. KSWIN: `np.random.choice(older, size = numTest, replace = False)` cannot fail (any carrier) -/
section KSWINOperable
variable {α : Type}

/-- `deque(maxlen = cap).append` never holds more than `cap` values, whatever the previous contents -/
theorem push_length_le (cap : Nat) (w : List α) (v : α) : (KSWIN.push cap w v).length ≤ cap := by
  unfold KSWIN.push
  simp only []
  split
  · rw [List.length_drop]; omega
  · omega

/-- **a sample of `k` distinct indices below `m` exists iff `k ≤ m`** — `List.range k` is one, and no tape can
do better (pigeonhole).  So `np.random.choice(a, k, replace=False)` succeeds exactly when `k ≤ len(a)`. -/
theorem validTape_exists_iff (k m : Nat) : (∃ tape, C06.ValidTape k m tape) ↔ k ≤ m := by
  constructor
  · rintro ⟨tape, hlen, hnd, hlt⟩
    have hsub : tape ⊆ List.range m := fun i hi => List.mem_range.mpr (hlt i hi)
    have := (hnd.subperm hsub).length_le
    rw [hlen, List.length_range] at this
    exact this
  · intro h
    exact ⟨List.range k, List.length_range, List.nodup_range, fun i hi => lt_of_lt_of_le (List.mem_range.mp hi) h⟩

/-- **operable_kswin** (any carrier, ANY state — in particular every reachable one).
`C19.kswin_none_iff : kswin alpha n numTest = none ↔ 1 ≤ n ∧ 0 < alpha ∧ 1 ≤ numTest ∧ 2 * numTest ≤ n`.
With `1 ≤ numTest` and `2 * numTest ≤ minN`: at every update at which the window (after the append) is full —
the only case in which `KSWIN.step` draws — the older part `w[: len(w) - numTest]` has exactly
`minN - numTest ≥ numTest` elements, hence a sample of `numTest` DISTINCT indices into it exists
(`List.range numTest` is a valid tape): `np.random.choice(older, numTest, replace=False)` cannot raise.
Moreover both arguments of `ks_2samp` (the sample, of length `numTest`, and the newest part) are non-empty;
this is the only place where `1 ≤ numTest` is used.  No truncated subtraction is involved: `numTest ≤ len(w)`. -/
theorem operable_kswin (c : KSWIN.Cfg α) (h1 : 1 ≤ c.numTest) (h2 : 2 * c.numTest ≤ c.minN)
    (s : KSWIN.State α) (v : α) :
    let w := KSWIN.push c.minN s.window v
    c.minN ≤ w.length →
      c.numTest ≤ w.length ∧
      (w.take (w.length - c.numTest)).length = c.minN - c.numTest ∧
      c.numTest ≤ (w.take (w.length - c.numTest)).length ∧
      C06.ValidTape c.numTest (w.take (w.length - c.numTest)).length (List.range c.numTest) ∧
      (w.drop (w.length - c.numTest)).length = c.numTest ∧
      w.drop (w.length - c.numTest) ≠ [] ∧ List.range c.numTest ≠ [] := by
  intro w hfull
  have hle : w.length ≤ c.minN := push_length_le c.minN s.window v
  have hlen : w.length = c.minN := le_antisymm hle hfull
  have holder : (w.take (w.length - c.numTest)).length = c.minN - c.numTest := by
    rw [List.length_take, hlen]; omega
  have hnew : (w.drop (w.length - c.numTest)).length = c.numTest := by
    rw [List.length_drop, hlen]; omega
  refine ⟨by omega, holder, by omega, ?_, hnew, ?_, ?_⟩
  · rw [holder]
    exact ⟨List.length_range, List.nodup_range, fun i hi => by have := List.mem_range.mp hi; omega⟩
  · intro h0; rw [h0] at hnew; simp at hnew; omega
  · intro h0
    have := congrArg List.length h0
    simp at this; omega

/-- the same on the stream, for ANY history of updates and resets: `vs` = the values fed since the last reset
including the current one; `C06.older c vs` is the part of the window the sample is drawn from
(`C06.kswin_rule_junkfree` then says every sample element is a genuine element of it). -/
theorem operable_kswin_history (c : KSWIN.Cfg α) (h2 : 2 * c.numTest ≤ c.minN)
    (ops : List (Op (α × List Nat))) (v : α) :
    let vs := (C06.sinceReset ops).map Prod.fst ++ [v]
    c.minN ≤ vs.length →
      c.numTest ≤ (C06.older c vs).length ∧
      C06.ValidTape c.numTest (C06.older c vs).length (List.range c.numTest) := by
  intro vs hfull
  have holder := C06.older_length c vs hfull
  refine ⟨by omega, ?_⟩
  rw [holder]
  exact ⟨List.length_range, List.nodup_range, fun i hi => by have := List.mem_range.mp hi; omega⟩

theorem operable_kswin_of_accepted [Num α] (c : KSWIN.Cfg α)
    (hacc : Config.kswin c.alpha (c.minN : Int) (c.numTest : Int) = none) (s : KSWIN.State α) (v : α) :
    c.minN ≤ (KSWIN.push c.minN s.window v).length →
      C06.ValidTape c.numTest ((KSWIN.push c.minN s.window v).take
        ((KSWIN.push c.minN s.window v).length - c.numTest)).length (List.range c.numTest) := by
  obtain ⟨_, h1, h2⟩ := kswin_accepted _ _ _ hacc
  intro hfull
  exact (operable_kswin c (by omega) (by omega) s v hfull).2.2.2.1

/-- non-vacuity: the library defaults `min_num_instances = 100`, `num_test_instances = 30`; a full window -/
example (a x : α) :
    1 ≤ (⟨a, 100, 30⟩ : KSWIN.Cfg α).numTest ∧
    2 * (⟨a, 100, 30⟩ : KSWIN.Cfg α).numTest ≤ (⟨a, 100, 30⟩ : KSWIN.Cfg α).minN ∧
      (⟨a, 100, 30⟩ : KSWIN.Cfg α).minN ≤
        (KSWIN.push (⟨a, 100, 30⟩ : KSWIN.Cfg α).minN (List.replicate 100 x) x).length := by
  refine ⟨by show 1 ≤ 30; omega, by show 2 * 30 ≤ 100; omega, ?_⟩
  simp [KSWIN.push]

/-- non-vacuity of the `_of_accepted` form: the library defaults are accepted (ℝ) -/
example : Config.kswin (1 / 10000 : ℝ) ((100 : Nat) : Int) ((30 : Nat) : Int) = none := by
  rw [C19.kswin_none_iff]; norm_num

/-- **the size condition cannot be dropped**: if `minN < 2 * numTest` (with `numTest ≤ minN` so that nothing is
truncated), then at a full window NO valid tape exists — `np.random.choice(..., replace=False)` raises
`ValueError: Cannot take a larger sample than population when 'replace=False'`. -/
theorem operable_kswin_witness (c : KSWIN.Cfg α) (h2 : c.minN < 2 * c.numTest)
    (s : KSWIN.State α) (v : α) :
    let w := KSWIN.push c.minN s.window v
    c.minN ≤ w.length →
      ¬ ∃ tape, C06.ValidTape c.numTest (w.take (w.length - c.numTest)).length tape := by
  intro w hfull
  have hle : w.length ≤ c.minN := push_length_le c.minN s.window v
  rw [validTape_exists_iff, List.length_take]
  omega

end KSWINOperable

/-! ## 6. The divisors used at Python level are non-zero for accepted configurations -/
section Divisors

/-- a positive real divisor: non-zero, and the quotient is genuine (`(1 / x) * x = 1`) -/
theorem recip_genuine (x : ℝ) (hx : 0 < x) : x ≠ 0 ∧ (Num.one / x : ℝ) * x = Num.one := by
  have h := ne_of_gt hx
  exact ⟨h, by rw [RealNum.one_eq]; field_simp⟩

/-- **ADWIN `num_instances % clock`** (any carrier).  `C19.adwin_none_iff` gives `1 ≤ clock`: the modulus is
non-zero and `%` is a genuine remainder. -/
theorem operable_divisors_adwin_clock {α : Type} [Num α] (c : ADWIN.Cfg α) (h : 1 ≤ c.clock) (n : Nat) :
    c.clock ≠ 0 ∧ n % c.clock < c.clock :=
  ⟨by omega, Nat.mod_lt _ (by omega)⟩

theorem operable_divisors_adwin_clock_of_accepted {α : Type} [Num α] (c : ADWIN.Cfg α)
    (hacc : Config.adwin c.delta (c.clock : Int) (c.m : Int) (c.minWindow : Int) (c.minN : Int) = none) (n : Nat) :
    c.clock ≠ 0 ∧ n % c.clock < c.clock :=
  operable_divisors_adwin_clock c (by have := (adwin_accepted _ _ _ _ _ hacc).2.1; omega) n

/-- what the hypothesis excludes: with `clock = 0` Lean's totalised `n % 0 = n` makes the model silently skip
every check (`step` = bare insertion), whereas Python raises `ZeroDivisionError` — so the model is only
meaningful for `1 ≤ clock`, which the validation table enforces. -/
theorem operable_divisors_adwin_clock_witness {α : Type} [Num α] (c : ADWIN.Cfg α) (h : c.clock = 0)
    (s : ADWIN.State α) (v : α) :
    ADWIN.step c s v = ADWIN.insert c { s with n := s.n + 1, drift := false } v := by
  have hn : (ADWIN.insert c { s with n := s.n + 1, drift := false } v).n = s.n + 1 := rfl
  unfold ADWIN.step
  simp [h, hn]

/-- **HDDM-W `1 / lambda_`, `1 / alpha_d`, `1 / alpha_w`, `… / 2`** (`mcBound ibc a = sqrt(ibc * log(1 / a) / 2)`,
called with `a = lam` in `updateStats` and `a = alphaD`, `alphaW` in `thr`).
`C19.hddmw_none_iff : hddmw alphaD alphaW lam n = none ↔
  1 ≤ n ∧ (0 < alphaD ∧ alphaD ≤ 1) ∧ (0 < alphaW ∧ alphaW ≤ 1) ∧ alphaD < alphaW ∧ (0 < lam ∧ lam ≤ 1)`. -/
theorem operable_divisors_hddmw (c : HDDMW.Cfg ℝ) (hD : 0 < c.alphaD) (hW : 0 < c.alphaW) (hl : 0 < c.lam) :
    (c.lam ≠ 0 ∧ (Num.one / c.lam : ℝ) * c.lam = Num.one) ∧
    (c.alphaD ≠ 0 ∧ (Num.one / c.alphaD : ℝ) * c.alphaD = Num.one) ∧
    (c.alphaW ≠ 0 ∧ (Num.one / c.alphaW : ℝ) * c.alphaW = Num.one) ∧ (Num.two : ℝ) ≠ 0 :=
  ⟨recip_genuine _ hl, recip_genuine _ hD, recip_genuine _ hW, by simp⟩

theorem operable_divisors_hddmw_of_accepted (c : HDDMW.Cfg ℝ)
    (hacc : Config.hddmw c.alphaD c.alphaW c.lam (c.minN : Int) = none) :
    c.lam ≠ 0 ∧ c.alphaD ≠ 0 ∧ c.alphaW ≠ 0 := by
  obtain ⟨-, ⟨hD, -⟩, ⟨hW, -⟩, -, hl, -⟩ := (C19.hddmw_none_iff _ _ _ _).mp hacc
  obtain ⟨a, b, d, -⟩ := operable_divisors_hddmw c hD hW hl
  exact ⟨a.1, b.1, d.1⟩

example : Config.hddmw (1 / 1000 : ℝ) (5 / 1000) (5 / 100) ((30 : Nat) : Int) = none := by
  rw [C19.hddmw_none_iff]; norm_num

/-- **ECDD `lam / (2 - lam)`** (`ECDD.lamDiv`).  `C19.ecdd_none_iff` gives `0 ≤ lam ≤ 1`, so `2 - lam ≥ 1`:
the divisor is non-zero and the quotient is genuine. -/
theorem operable_divisors_ecdd (c : ECDD.Cfg ℝ) (hl : c.lam ≤ 1) :
    (Num.two - c.lam : ℝ) ≠ 0 ∧ ECDD.lamDiv c * (Num.two - c.lam) = c.lam := by
  have h : (Num.two - c.lam : ℝ) ≠ 0 := by rw [RealNum.two_eq]; intro h0; linarith
  exact ⟨h, by unfold ECDD.lamDiv; field_simp⟩

theorem operable_divisors_ecdd_of_accepted (c : ECDD.Cfg ℝ)
    (hacc : Config.ecdd c.lam c.warn (c.arl : Int) (c.minN : Int) = none) : (Num.two - c.lam : ℝ) ≠ 0 := by
  obtain ⟨-, -, ⟨-, hl⟩, -⟩ := (C19.ecdd_none_iff _ _ _ _).mp hacc
  exact (operable_divisors_ecdd c hl).1

example : Config.ecdd (2 / 10 : ℝ) (1 / 2) ((400 : Nat) : Int) ((30 : Nat) : Int) = none := by
  rw [C19.ecdd_none_iff]; norm_num

/-- the bound `lam ≤ 1` is not the sharp one (`lam ≠ 2` is), but outside it a divisor `0` is possible -/
theorem operable_divisors_ecdd_witness : ∃ c : ECDD.Cfg ℝ, (Num.two - c.lam : ℝ) = 0 :=
  ⟨⟨2, 100, 1 / 2, 30⟩, by simp⟩

/-- **HDDM-A `1 / alpha_d`, `1 / alpha_w`, `… / (2 n)`, `m / (2 n_c n_z)`** (`HDDMA.bound`, `HDDMA.hoeffTest`).
`C19.hddma_none_iff : hddma alphaD alphaW n = none ↔
  1 ≤ n ∧ (0 < alphaD ∧ alphaD ≤ 1) ∧ (0 < alphaW ∧ alphaW ≤ 1) ∧ alphaD < alphaW`.
The counts are `≥ 1` wherever the model divides by them: `hddma_counts_pos` below. -/
theorem operable_divisors_hddma (c : HDDMA.Cfg ℝ) (hD : 0 < c.alphaD) (hW : 0 < c.alphaW) :
    (c.alphaD ≠ 0 ∧ (Num.one / c.alphaD : ℝ) * c.alphaD = Num.one) ∧
    (c.alphaW ≠ 0 ∧ (Num.one / c.alphaW : ℝ) * c.alphaW = Num.one) ∧
    (∀ n, 1 ≤ n → (Num.ofNat (2 * n) : ℝ) ≠ 0) ∧
    (∀ nc nz, 1 ≤ nc → 1 ≤ nz → (Num.ofNat (2 * nc * nz) : ℝ) ≠ 0) := by
  refine ⟨recip_genuine _ hD, recip_genuine _ hW, ?_, ?_⟩
  · intro n hn
    rw [RealNum.ofNat_eq]
    exact_mod_cast (by omega : 2 * n ≠ 0)
  · intro nc nz h1 h2
    rw [RealNum.ofNat_eq]
    have : 2 * nc * nz ≠ 0 := Nat.mul_ne_zero (by omega) (by omega)
    exact_mod_cast this

theorem operable_divisors_hddma_of_accepted (c : HDDMA.Cfg ℝ)
    (hacc : Config.hddma c.alphaD c.alphaW (c.minN : Int) = none) : c.alphaD ≠ 0 ∧ c.alphaW ≠ 0 := by
  obtain ⟨-, ⟨hD, -⟩, ⟨hW, -⟩, -⟩ := (C19.hddma_none_iff _ _ _).mp hacc
  obtain ⟨a, b, -⟩ := operable_divisors_hddma c hD hW
  exact ⟨a.1, b.1⟩

example : Config.hddma (1 / 1000 : ℝ) (5 / 1000) ((30 : Nat) : Int) = none := by
  rw [C19.hddma_none_iff]; norm_num

/-- (any carrier) the counts HDDM-A divides by in one `step`: `z` has just been updated (`n ≥ 1`), the cut
candidate `x` is `z` when it was empty (so `n ≥ 1` in both cases), and likewise `y` in the two-sided test;
the cut-point update can only replace `x`/`y` by `z`.  `side` evaluates `hoeffTest m cut.n z.n …` only when
`m = z.n - cut.n ≠ 0`. -/
theorem hddma_counts_pos {α : Type} [Num α] (c : HDDMA.Cfg α) (s : HDDMA.State α) (v : α) :
    let z := s.t.z.update v
    let x := if s.t.x.n == 0 then z else s.t.x
    let y := if c.twoSided && s.t.y.n == 0 then z else s.t.y
    1 ≤ z.n ∧ 1 ≤ x.n ∧ (c.twoSided = true → 1 ≤ y.n) := by
  intro z x y
  have hz : z.n = s.t.z.n + 1 := rfl
  refine ⟨by omega, ?_, ?_⟩
  · show 1 ≤ (if s.t.x.n == 0 then z else s.t.x).n
    split
    · omega
    · rename_i h; simp at h; omega
  · intro ht
    show 1 ≤ (if c.twoSided && s.t.y.n == 0 then z else s.t.y).n
    split
    · omega
    · rename_i h; simp [ht] at h; omega

/-- **DDM family `… / n`** (`DDM.epsStd er n = (p + sqrt(p (1 - p) / n), …)`).  Every detector of the family
evaluates it only in the branch guarded by `minN ≤ n`; all tables give `1 ≤ minN`
(`C19.ddm_none_iff`, `C19.rddm_none_iff`: `… = none ↔ 1 ≤ n ∧ …`), so the divisor is `≥ 1`. -/
theorem operable_divisors_spc (minN n : Nat) (h1 : 1 ≤ minN) (hg : minN ≤ n) :
    1 ≤ n ∧ (Num.ofNat n : ℝ) ≠ 0 := by
  refine ⟨by omega, ?_⟩
  rw [RealNum.ofNat_eq]
  exact_mod_cast (by omega : n ≠ 0)

/-- DDM: the `n` passed to `epsStd` is literally `s.n + 1` (and `Mean.update` divides by `er.n + 1`) -/
theorem operable_divisors_ddm (s : DDM.State ℝ) (v : ℝ) :
    (Num.ofNat (s.n + 1) : ℝ) ≠ 0 ∧ (Num.ofNat ((s.er.update v).n) : ℝ) ≠ 0 := by
  refine ⟨?_, ?_⟩
  · rw [RealNum.ofNat_eq]; exact_mod_cast (by omega : s.n + 1 ≠ 0)
  · show (Num.ofNat (s.er.n + 1) : ℝ) ≠ 0
    rw [RealNum.ofNat_eq]; exact_mod_cast (by omega : s.er.n + 1 ≠ 0)

/-- RDDM (any carrier): here the counter can be rewound by `_rdd_drift_case` (`RDDM.pre` = counter increment +
optional rebuild), so the guard matters: if the counter the step works with were `0`, then — because
`1 ≤ minN` — the branch containing `epsStd … n` (the division) is NOT executed: the step only stores the value
and clears the flags. -/
theorem operable_divisors_rddm {α : Type} [Num α] (c : RDDM.Cfg α) (h1 : 1 ≤ c.minN) (s0 : RDDM.State α) (v : α)
    (hz : (RDDM.pre c s0).n = 0) :
    RDDM.step c s0 v =
      match (RDDM.pre c s0).preds.enqueue v with
      | .error e => { RDDM.pre c s0 with err := some e }
      | .ok (_, q) =>
        { RDDM.pre c s0 with preds := q, er := (RDDM.pre c s0).er.update v, drift := false, warning := false } := by
  rw [RDDM.step_eq]
  unfold RDDM.post
  have : ¬ c.minN ≤ 0 := by omega
  cases (RDDM.pre c s0).preds.enqueue v with
  | error e => rfl
  | ok p => obtain ⟨ev, q⟩ := p; simp [hz, this]

/-- non-vacuity of the hypothesis `(RDDM.pre c s0).n = 0` (an unreachable but well-typed state: an event is
pending while the prediction queue is empty) -/
example {α : Type} [Num α] (c : RDDM.Cfg α) : (RDDM.pre c { RDDM.init c with rddmDrift := true }).n = 0 := by
  simp [RDDM.pre, RDDM.rebuild_n, RDDM.init, CQ.init]

/-- EDDM `thr / max_distance_threshold` (bonus, from C03b): `C19.eddm_none_iff` gives `0 < level`; then a set
`maxThr` is `≥ 1`, so the divisor is non-zero. -/
theorem operable_divisors_eddm (c : EDDM.Cfg ℝ) (hl : 0 < c.level) (vs : List ℝ) (mx : ℝ)
    (h : (C03b.erun c vs).maxThr = some mx) : mx ≠ 0 := by
  have := C03b.eddm_maxThr_ge_one c (le_of_lt hl) vs mx h
  intro h0; linarith

/-- **STEPD `1 / n_o`, `1 / n_w`** (any carrier, any history of updates and resets).
`C19.stepd_none_iff` gives `1 ≤ minN`.  In the state reached after an update at which the statistic was
evaluated (`2 * minN ≤ n`), the two denominators of `STEPD.statistic n ct nw cw` — `nw = win.q.count` and
`no = n - nw` — are `≥ 1`, `nw ≤ n` (no truncated subtraction), and also `n ≥ 1` (`ct / n`).
(`C01c.Stepd.denominators_pos` is the one-step ℝ version.) -/
theorem operable_divisors_stepd {α : Type} [Num α] (sf : α → α) (c : STEPD.Cfg α) (hpos : 1 ≤ c.minN)
    (ops : List (Op Bool)) :
    let s := (STEPD.machine sf c).run ops
    2 * c.minN ≤ s.n → 1 ≤ s.win.q.count ∧ s.win.q.count ≤ s.n ∧ 1 ≤ s.n - s.win.q.count ∧ 1 ≤ s.n := by
  intro s h2
  have hs : s = C06.sfeed sf c (C06.sinceReset ops) := C06.stepd_history sf c hpos ops
  obtain ⟨hn, -, hc, -⟩ := C06.stepd_counts sf c hpos (C06.sinceReset ops)
  rw [← hs] at hn hc
  rw [hn] at h2 ⊢
  rw [hc]
  omega

/-- at ℝ: the three divisors of the statistic are non-zero reals -/
theorem operable_divisors_stepd_real (sf : ℝ → ℝ) (c : STEPD.Cfg ℝ) (hpos : 1 ≤ c.minN) (ops : List (Op Bool)) :
    let s := (STEPD.machine sf c).run ops
    2 * c.minN ≤ s.n →
      (Num.ofNat s.win.q.count : ℝ) ≠ 0 ∧ (Num.ofNat (s.n - s.win.q.count) : ℝ) ≠ 0 ∧ (Num.ofNat s.n : ℝ) ≠ 0 := by
  intro s h2
  obtain ⟨a, -, b, d⟩ : 1 ≤ s.win.q.count ∧ s.win.q.count ≤ s.n ∧ 1 ≤ s.n - s.win.q.count ∧ 1 ≤ s.n :=
    operable_divisors_stepd sf c hpos ops h2
  simp only [RealNum.ofNat_eq]
  refine ⟨?_, ?_, ?_⟩
  · exact_mod_cast (by omega : s.win.q.count ≠ 0)
  · exact_mod_cast (by omega : s.n - s.win.q.count ≠ 0)
  · exact_mod_cast (by omega : s.n ≠ 0)

/-- non-vacuity: `minN = 2`, four updates: the statistic is evaluated (`n = 4 = 2·minN`) -/
example (sf : ℝ → ℝ) (aD aW : ℝ) :
    2 * (⟨aD, aW, 2⟩ : STEPD.Cfg ℝ).minN ≤
      ((STEPD.machine sf (⟨aD, aW, 2⟩ : STEPD.Cfg ℝ)).run [.update true, .update false, .update true, .update true]).n := by
  have := (C06.stepd_counts sf (⟨aD, aW, 2⟩ : STEPD.Cfg ℝ) (Nat.succ_pos _) [true, false, true, true]).1
  rw [C06.stepd_history sf _ (Nat.succ_pos _)]
  simp only [C06.sinceReset, List.foldl_cons, List.foldl_nil, List.nil_append, List.cons_append] at this ⊢
  rw [this]; decide

end Divisors

end Frouros.C19b

section Axioms
open Frouros.C19b
#print axioms operable_adwin
#print axioms operable_adwin_prefix
#print axioms operable_adwin_total_nonneg
#print axioms operable_adwin_step
#print axioms operable_adwin_negative_witness
#print axioms operable_rddm
#print axioms operable_rddm_run
#print axioms operable_rddm_of_accepted
#print axioms operable_rddm_witness
#print axioms operable_stepd
#print axioms operable_stepd_run
#print axioms operable_stepd_of_accepted
#print axioms operable_stepd_witness
#print axioms operable_circmean
#print axioms operable_circmean_witness
#print axioms validTape_exists_iff
#print axioms operable_kswin
#print axioms operable_kswin_history
#print axioms operable_kswin_of_accepted
#print axioms operable_kswin_witness
#print axioms operable_divisors_adwin_clock
#print axioms operable_divisors_adwin_clock_witness
#print axioms operable_divisors_adwin_clock_of_accepted
#print axioms operable_divisors_hddmw
#print axioms operable_divisors_hddmw_of_accepted
#print axioms operable_divisors_ecdd
#print axioms operable_divisors_ecdd_of_accepted
#print axioms operable_divisors_ecdd_witness
#print axioms operable_divisors_hddma
#print axioms operable_divisors_hddma_of_accepted
#print axioms hddma_counts_pos
#print axioms operable_divisors_spc
#print axioms operable_divisors_ddm
#print axioms operable_divisors_rddm
#print axioms operable_divisors_eddm
#print axioms operable_divisors_stepd
#print axioms operable_divisors_stepd_real
#print axioms operable_queue
#print axioms operable_queue_init
#print axioms operable_queue_reach
#print axioms operable_queue_enqueueAll
#print axioms operable_queue_witness
end Axioms
