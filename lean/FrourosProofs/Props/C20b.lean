/-
  C20b — §1-3  C20: the SEA / Dummy generators over a draw tape (`FrourosModel/Synth2.lean`): sample count,
                features = tape cells, prefix-determinism ("equal seeds"), labels, validation composed with
                generation, lazy pulls and interleaving on the shared global generator;
         §4-5  C19: `Stated.x` (domains as the error messages state them) with `accepts_iff_stated_x` (ℝ/ℤ),
                the carrier-generic literal reading `accepts_iff_any_x`, NaN rejection `nan_rejected_x`
                and the two NaN-accepting parameters (`nan_accepted_*_witness`);
         §6    C15: `saveload_transparent` (codec round trip ⇒ transparent at every point, and conversely),
                `saveFS` (the file made explicit: rejected ⇒ untouched; pickling failure ⇒ truncated);
         §7    C19: operability register `operable_ddm / eddm / ecdd / hddma / hddmw / cusum / bocd`.
-/
import FrourosModel.Synth2
import FrourosProofs.RealNum
import FrourosProofs.Props.C20
import FrourosProofs.Props.C19
import FrourosProofs.Props.C19b
import FrourosProofs.Props.C15
import FrourosProofs.Machine
import FrourosProofs.Machines
import Mathlib.Tactic

namespace Frouros.C20b
open Frouros Frouros.Synthetic Frouros.Synth2

/-! ## 1. SEA -/
section SEA
variable {α : Type} [Num α]

/-! ### one sample -/

/-- **tape consumption of one sample** (any carrier).  A successful `_generate_sample` pops exactly
four floats `x0 x1 x2 r` — the three features ARE the first three — and pops one coin exactly when
`r < noise` (then the label is that coin); otherwise no coin is touched and the label is the clean rule.
Nothing else of the tape is looked at: on any other continuation `f`, `c` of the consumed prefix the
same sample comes out and the continuation is left untouched (frame property). -/
theorem seaSample_frame {thr noise : α} {t t' : Tape α} {s : SeaSample α}
    (h : seaSample thr noise t = some (s, t')) :
    ∃ r cpre, t.floats = s.x0 :: s.x1 :: s.x2 :: r :: t'.floats ∧ t.coins = cpre ++ t'.coins ∧
      ((Num.lt r noise = true ∧ cpre = [s.y]) ∨
       (Num.lt r noise = false ∧ cpre = [] ∧ s.y = if Num.le (s.x0 + s.x1) thr = true then 1 else 0)) ∧
      ∀ f c, seaSample thr noise ⟨s.x0 :: s.x1 :: s.x2 :: r :: f, cpre ++ c⟩ = some (s, ⟨f, c⟩) := by
  obtain ⟨fl, co⟩ := t
  match fl, h with
  | x0 :: x1 :: x2 :: r :: fs, h =>
    simp only [seaSample] at h
    by_cases hr : Num.lt r noise = true
    · simp only [hr, if_true] at h
      match co, h with
      | c :: cs, h =>
        simp only [Option.some.injEq, Prod.mk.injEq] at h
        obtain ⟨rfl, rfl⟩ := h
        exact ⟨r, [c], rfl, rfl, Or.inl ⟨hr, rfl⟩, fun f c' => by simp [seaSample, hr]⟩
    · simp only [hr, if_false, Option.some.injEq, Prod.mk.injEq, Bool.false_eq_true] at h
      obtain ⟨rfl, rfl⟩ := h
      have hr' : Num.lt r noise = false := by simpa using hr
      exact ⟨r, [], rfl, rfl, Or.inr ⟨hr', rfl, rfl⟩, fun f c' => by simp [seaSample, hr']⟩

/-- the sample's label is `seaLabel` (the per-sample rule of `Props/C20.lean`) of its own features, the
`random()` draw `r` and the coin that was (or would have been) drawn -/
theorem seaSample_label {thr noise : α} {t t' : Tape α} {s : SeaSample α}
    (h : seaSample thr noise t = some (s, t')) :
    ∃ r, t.floats = s.x0 :: s.x1 :: s.x2 :: r :: t'.floats ∧ s.y = seaLabel thr noise s.x0 s.x1 r s.y ∧
      (Num.lt r noise = false → ∀ coin, s.y = seaLabel thr noise s.x0 s.x1 r coin) := by
  obtain ⟨r, cpre, hf, -, hcase, -⟩ := seaSample_frame h
  refine ⟨r, hf, ?_, ?_⟩
  · rcases hcase with ⟨hr, -⟩ | ⟨hr, -, hy⟩
    · rw [C20.seaLabel_noisy _ _ _ _ _ _ hr]
    · rw [C20.seaLabel_clean _ _ _ _ _ _ hr]; exact hy
  · intro hr coin
    rcases hcase with ⟨hr', -⟩ | ⟨-, -, hy⟩
    · rw [hr] at hr'; cases hr'
    · rw [C20.seaLabel_clean _ _ _ _ _ _ hr]; exact hy

/-- progress: four floats and one coin are always enough for one sample -/
theorem seaSample_isSome (thr noise : α) (t : Tape α) (hf : 4 ≤ t.floats.length) (hc : 1 ≤ t.coins.length) :
    ∃ s t', seaSample thr noise t = some (s, t') := by
  obtain ⟨fl, co⟩ := t
  match fl, hf with
  | x0 :: x1 :: x2 :: r :: fs, _ =>
    match co, hc with
    | c :: cs, _ =>
      by_cases hr : Num.lt r noise = true
      · exact ⟨_, _, by simp only [seaSample, hr, if_true]; rfl⟩
      · exact ⟨_, _, by simp only [seaSample, hr]; rfl⟩

/-- progress without coins: if the `random()` draw is not below `noise`, four floats are enough -/
theorem seaSample_isSome_clean (thr noise : α) (t : Tape α) (hf : 4 ≤ t.floats.length)
    (hclean : ∀ u ∈ t.floats, Num.lt u noise = false) :
    ∃ s t', seaSample thr noise t = some (s, t') := by
  obtain ⟨fl, co⟩ := t
  match fl, hf with
  | x0 :: x1 :: x2 :: r :: fs, _ =>
    have hr : Num.lt r noise = false := hclean r (by simp)
    exact ⟨_, _, by simp only [seaSample, hr, Bool.false_eq_true, if_false]; rfl⟩

/-- a starved tape is the ONLY reason for the model's `none` (it is not a Python behaviour) -/
theorem seaSample_none_iff (thr noise : α) (t : Tape α) :
    seaSample thr noise t = none ↔
      t.floats.length < 4 ∨ (∃ r, t.floats[3]? = some r ∧ Num.lt r noise = true ∧ t.coins = []) := by
  obtain ⟨fl, co⟩ := t
  match fl with
  | [] => simp [seaSample]
  | [_] => simp [seaSample]
  | [_, _] => simp [seaSample]
  | [_, _, _] => simp [seaSample]
  | x0 :: x1 :: x2 :: r :: fs =>
    by_cases hr : Num.lt r noise = true
    · cases co <;> simp [seaSample, hr]
    · simp [seaSample, hr]

/-! ### schedules of pulls, and the dataset as a special schedule -/

theorem seaPulls_cons_some {p : α × α} {ps : List (α × α)} {t t' : Tape α} {ss : List (SeaSample α)} :
    seaPulls (p :: ps) t = some (ss, t') ↔
      ∃ s t1 ss', seaSample p.1 p.2 t = some (s, t1) ∧ seaPulls ps t1 = some (ss', t') ∧ ss = s :: ss' := by
  constructor
  · intro h
    simp only [seaPulls] at h
    split at h
    · cases h
    · rename_i s t1 h1
      split at h
      · cases h
      · rename_i ss' t2 h2
        simp only [Option.some.injEq, Prod.mk.injEq] at h
        obtain ⟨rfl, rfl⟩ := h
        exact ⟨s, t1, ss', h1, h2, rfl⟩
  · rintro ⟨s, t1, ss', h1, h2, rfl⟩
    simp only [seaPulls, h1, h2]

/-- the dataset is the schedule that pulls `n` times with the same captured arguments -/
theorem seaGen_eq_pulls (thr noise : α) (n : Nat) (t : Tape α) :
    seaGen thr noise n t = seaPulls (List.replicate n (thr, noise)) t := by
  induction n generalizing t with
  | zero => rfl
  | succ n ih =>
    simp only [seaGen, List.replicate_succ, seaPulls]
    cases seaSample thr noise t with
    | none => rfl
    | some st => obtain ⟨s, t1⟩ := st; simp only [ih]

/-- **frame / prefix property of any schedule** (any carrier): `k` pulls consume exactly `4·k` floats
and at most `k` coins, from the FRONT of the tape, deliver `k` samples, and depend on nothing but the
consumed prefix: with any other continuation the same samples come out. -/
theorem seaPulls_frame {ps : List (α × α)} {t t' : Tape α} {ss : List (SeaSample α)}
    (h : seaPulls ps t = some (ss, t')) :
    ∃ pre cpre, t.floats = pre ++ t'.floats ∧ t.coins = cpre ++ t'.coins ∧ pre.length = 4 * ps.length ∧
      cpre.length ≤ ps.length ∧ ss.length = ps.length ∧
      ∀ f c, seaPulls ps ⟨pre ++ f, cpre ++ c⟩ = some (ss, ⟨f, c⟩) := by
  induction ps generalizing t ss with
  | nil =>
    simp only [seaPulls, Option.some.injEq, Prod.mk.injEq] at h
    obtain ⟨rfl, rfl⟩ := h
    exact ⟨[], [], by simp, by simp, by simp, by simp, by simp, fun f c => by simp [seaPulls]⟩
  | cons p ps ih =>
    obtain ⟨s, t1, ss', h1, h2, rfl⟩ := seaPulls_cons_some.mp h
    obtain ⟨r, cp1, hf1, hc1, hcase, hfr1⟩ := seaSample_frame h1
    obtain ⟨pre, cpre, hf2, hc2, hl, hcl, hsl, hfr2⟩ := ih h2
    refine ⟨s.x0 :: s.x1 :: s.x2 :: r :: pre, cp1 ++ cpre, ?_, ?_, ?_, ?_, ?_, ?_⟩
    · rw [hf1, hf2]; simp
    · rw [hc1, hc2]; simp
    · simp [hl]; ring
    · have : cp1.length ≤ 1 := by rcases hcase with ⟨-, h⟩ | ⟨-, h, -⟩ <;> simp [h]
      simp only [List.length_append, List.length_cons]; omega
    · simp [hsl]
    · intro f c
      rw [seaPulls_cons_some]
      refine ⟨s, ⟨pre ++ f, cpre ++ c⟩, ss', ?_, hfr2 f c, rfl⟩
      have := hfr1 (pre ++ f) (cpre ++ c)
      simpa [List.append_assoc] using this

/-- progress: `4·k` floats and `k` coins are enough for `k` pulls -/
theorem seaPulls_isSome (ps : List (α × α)) (t : Tape α) (hf : 4 * ps.length ≤ t.floats.length)
    (hc : ps.length ≤ t.coins.length) : ∃ ss t', seaPulls ps t = some (ss, t') := by
  induction ps generalizing t with
  | nil => exact ⟨[], t, rfl⟩
  | cons p ps ih =>
    simp only [List.length_cons] at hf hc
    obtain ⟨s, t1, h1⟩ := seaSample_isSome p.1 p.2 t (by omega) (by omega)
    obtain ⟨r, cp1, hf1, hc1, hcase, -⟩ := seaSample_frame h1
    have hl1 : cp1.length ≤ 1 := by rcases hcase with ⟨-, h⟩ | ⟨-, h, -⟩ <;> simp [h]
    have hfl : t.floats.length = t1.floats.length + 4 := by rw [hf1]; simp
    have hcl : t.coins.length = cp1.length + t1.coins.length := by rw [hc1]; simp
    obtain ⟨ss', t', h2⟩ := ih t1 (by omega) (by omega)
    exact ⟨s :: ss', t', seaPulls_cons_some.mpr ⟨s, t1, ss', h1, h2, rfl⟩⟩

/-- progress without coins: if no float of the tape is below any of the noise levels -/
theorem seaPulls_isSome_clean (ps : List (α × α)) (t : Tape α) (hf : 4 * ps.length ≤ t.floats.length)
    (hclean : ∀ p ∈ ps, ∀ u ∈ t.floats, Num.lt u p.2 = false) :
    ∃ ss t', seaPulls ps t = some (ss, t') := by
  induction ps generalizing t with
  | nil => exact ⟨[], t, rfl⟩
  | cons p ps ih =>
    simp only [List.length_cons] at hf
    obtain ⟨s, t1, h1⟩ := seaSample_isSome_clean p.1 p.2 t (by omega) (hclean p (by simp))
    obtain ⟨r, cp1, hf1, -, -, -⟩ := seaSample_frame h1
    have hfl : t.floats.length = t1.floats.length + 4 := by rw [hf1]; simp
    obtain ⟨ss', t', h2⟩ := ih t1 (by omega) (fun q hq u hu => hclean q (List.mem_cons_of_mem _ hq) u (by
      rw [hf1]; simp [hu]))
    exact ⟨s :: ss', t', seaPulls_cons_some.mpr ⟨s, t1, ss', h1, h2, rfl⟩⟩

/-- **which tape cells a pull reads** (any carrier): the `j`-th pull of ANY schedule — whatever iterator
it is made on — returns as features the floats number `4j, 4j+1, 4j+2` of the generator's future, uses
float number `4j+3` as its `random()` draw, and its label is `seaLabel` of those and of its own `(thr,
noise)`; if that draw is not below its noise level the label is the clean rule whatever the coins are. -/
theorem seaPulls_get {ps : List (α × α)} {t t' : Tape α} {ss : List (SeaSample α)}
    (h : seaPulls ps t = some (ss, t')) (j : Nat) (s : SeaSample α) (hs : ss[j]? = some s) :
    t.floats[4 * j]? = some s.x0 ∧ t.floats[4 * j + 1]? = some s.x1 ∧ t.floats[4 * j + 2]? = some s.x2 ∧
      ∃ p r, ps[j]? = some p ∧ t.floats[4 * j + 3]? = some r ∧ s.y = seaLabel p.1 p.2 s.x0 s.x1 r s.y ∧
        (Num.lt r p.2 = false → ∀ coin, s.y = seaLabel p.1 p.2 s.x0 s.x1 r coin) := by
  induction ps generalizing t ss j with
  | nil =>
    simp only [seaPulls, Option.some.injEq, Prod.mk.injEq] at h
    obtain ⟨rfl, rfl⟩ := h
    simp at hs
  | cons p ps ih =>
    obtain ⟨s0, t1, ss', h1, h2, rfl⟩ := seaPulls_cons_some.mp h
    obtain ⟨r, hf1, hy, hclean⟩ := seaSample_label h1
    cases j with
    | zero =>
      simp only [List.getElem?_cons_zero, Option.some.injEq] at hs
      subst hs
      rw [hf1]
      exact ⟨by simp, by simp, by simp, p, r, by simp, by simp, hy, hclean⟩
    | succ j =>
      simp only [List.getElem?_cons_succ] at hs
      obtain ⟨a, b, c, q, r', hq, hr', hrest⟩ := ih h2 j hs
      have e0 : 4 * (j + 1) = 4 * j + 4 := by ring
      have e1 : 4 * (j + 1) + 1 = 4 * j + 1 + 4 := by ring
      have e2 : 4 * (j + 1) + 2 = 4 * j + 2 + 4 := by ring
      have e3 : 4 * (j + 1) + 3 = 4 * j + 3 + 4 := by ring
      rw [hf1, e1, e2, e3, e0]
      simp only [List.getElem?_cons_succ]
      exact ⟨a, b, c, q, r', hq, hr', hrest⟩

/-- two schedules one after the other = the concatenated schedule (the generator state is threaded) -/
theorem seaPulls_append (ps qs : List (α × α)) (t : Tape α) :
    seaPulls (ps ++ qs) t =
      match seaPulls ps t with
      | none => none
      | some (ss, t1) =>
        match seaPulls qs t1 with
        | none => none
        | some (ss', t2) => some (ss ++ ss', t2) := by
  induction ps generalizing t with
  | nil =>
    simp only [List.nil_append, seaPulls]
    cases seaPulls qs t with
    | none => rfl
    | some r => rfl
  | cons p ps ih =>
    simp only [List.cons_append, seaPulls]
    cases seaSample p.1 p.2 t with
    | none => rfl
    | some st =>
      obtain ⟨s, t1⟩ := st
      simp only [ih]
      cases seaPulls ps t1 with
      | none => rfl
      | some r =>
        obtain ⟨ss, t2⟩ := r
        simp only
        cases seaPulls qs t2 with
        | none => rfl
        | some r' => rfl

/-! ### validation composed with generation -/

/-- `generate_dataset` raises exactly what the validation table `seaCheck` says (any carrier), and
otherwise returns the not-yet-started iterator with the block's threshold, the given noise and
`num_samples` items to deliver.  (No tape is involved: validation is eager and draws nothing.) -/
theorem seaGenerate_error_iff (block : Nat) (noise : α) (numSamples : Int) (e : Err) :
    seaGenerate block noise numSamples = .error e ↔ seaCheck block numSamples noise = some e := by
  unfold seaGenerate seaCheck
  cases threshold (α := α) block with
  | none => simp [eq_comm]
  | some thr =>
    simp only [Option.isNone_some, Bool.false_eq_true, if_false]
    split
    · simp [eq_comm]
    · split <;> simp [eq_comm]

theorem seaGenerate_ok_iff (block : Nat) (noise : α) (numSamples : Int) (it : SeaIter α) :
    seaGenerate block noise numSamples = .ok it ↔
      seaCheck block numSamples noise = none ∧ threshold (α := α) block = some it.thr ∧ it.noise = noise ∧
        it.remaining = numSamples.toNat := by
  unfold seaGenerate seaCheck
  obtain ⟨thr', noise', rem⟩ := it
  cases threshold (α := α) block with
  | none => simp
  | some thr =>
    simp only [Option.isNone_some, Bool.false_eq_true, if_false]
    split
    · simp
    · split
      · simp
      · simp only [Except.ok.injEq, SeaIter.mk.injEq, Option.some.injEq, true_and]
        constructor
        · rintro ⟨rfl, rfl, rfl⟩; exact ⟨rfl, rfl, rfl⟩
        · rintro ⟨rfl, rfl, rfl⟩; exact ⟨rfl, rfl, rfl⟩

/-- the whole call in terms of the validation table -/
theorem seaDataset_eq (block : Nat) (noise : α) (numSamples : Int) (t : Tape α) :
    seaDataset block noise numSamples t =
      match seaCheck block numSamples noise, threshold (α := α) block with
      | some e, _ => .error e
      | none, some thr => .ok (seaGen thr noise numSamples.toNat t)
      | none, none => .error .invalidBlock := by
  unfold seaDataset
  cases hg : seaGenerate block noise numSamples with
  | error e =>
    rw [seaGenerate_error_iff] at hg
    simp [hg]
  | ok it =>
    obtain ⟨h1, h2, h3, h4⟩ := (seaGenerate_ok_iff _ _ _ _).mp hg
    simp [h1, h2, h3, h4]

/-- **sea_count** (any carrier).  On a tape with at least `4·num_samples` floats and `num_samples` coins:
a rejected argument triple raises the error of the validation table and yields nothing; an accepted one
yields EXACTLY `num_samples` samples. -/
theorem sea_count (block : Nat) (noise : α) (numSamples : Int) (t : Tape α)
    (hf : 4 * numSamples.toNat ≤ t.floats.length) (hc : numSamples.toNat ≤ t.coins.length) :
    (∀ e, seaCheck block numSamples noise = some e → seaDataset block noise numSamples t = .error e) ∧
    (seaCheck block numSamples noise = none →
      ∃ ss t', seaDataset block noise numSamples t = .ok (some (ss, t')) ∧ (ss.length : Int) = numSamples) := by
  constructor
  · intro e he
    rw [seaDataset_eq, he]
  · intro hnone
    have hn : 1 ≤ numSamples := by
      unfold seaCheck at hnone
      split at hnone
      · cases hnone
      · split at hnone
        · cases hnone
        · omega
    cases hthr : threshold (α := α) block with
    | none => simp [seaCheck, hthr] at hnone
    | some thr =>
      obtain ⟨ss, t', h⟩ := seaPulls_isSome (List.replicate numSamples.toNat (thr, noise)) t (by simpa using hf)
        (by simpa using hc)
      refine ⟨ss, t', ?_, ?_⟩
      · rw [seaDataset_eq, hnone, hthr]; simp only; rw [seaGen_eq_pulls, h]
      · obtain ⟨_, _, _, _, _, _, hl, _⟩ := seaPulls_frame h
        rw [hl]; simp; omega

/-- whenever the call delivers a dataset at all, it has exactly `num_samples` samples, `num_samples ≥ 1`,
and exactly `4·num_samples` floats and at most `num_samples` coins were consumed, from the front -/
theorem sea_count_of_ok {block : Nat} {noise : α} {numSamples : Int} {t t' : Tape α} {ss : List (SeaSample α)}
    (h : seaDataset block noise numSamples t = .ok (some (ss, t'))) :
    (ss.length : Int) = numSamples ∧
      ∃ pre cpre, t.floats = pre ++ t'.floats ∧ t.coins = cpre ++ t'.coins ∧
        (pre.length : Int) = 4 * numSamples ∧ (cpre.length : Int) ≤ numSamples := by
  rw [seaDataset_eq] at h
  cases hck : seaCheck block numSamples noise with
  | some e => rw [hck] at h; cases h
  | none =>
    have hn : 1 ≤ numSamples := by
      unfold seaCheck at hck
      split at hck
      · cases hck
      · split at hck
        · cases hck
        · omega
    rw [hck] at h
    cases hthr : threshold (α := α) block with
    | none => rw [hthr] at h; cases h
    | some thr =>
      rw [hthr] at h
      simp only [Except.ok.injEq] at h
      rw [seaGen_eq_pulls] at h
      obtain ⟨pre, cpre, h1, h2, h3, h4, h5, -⟩ := seaPulls_frame h
      simp only [List.length_replicate] at h3 h4 h5
      exact ⟨by omega, pre, cpre, h1, h2, by omega, by omega⟩

/-- **sea_range** (any carrier): the features of the `j`-th sample ARE the tape floats `4j, 4j+1, 4j+2`;
hence any property all tape floats have (e.g. lying in `[0, 10)`) every feature has. -/
theorem sea_range {block : Nat} {noise : α} {numSamples : Int} {t t' : Tape α} {ss : List (SeaSample α)}
    (h : seaDataset block noise numSamples t = .ok (some (ss, t'))) :
    (∀ j s, ss[j]? = some s →
      t.floats[4 * j]? = some s.x0 ∧ t.floats[4 * j + 1]? = some s.x1 ∧ t.floats[4 * j + 2]? = some s.x2) ∧
    (∀ P : α → Prop, (∀ u ∈ t.floats, P u) → ∀ s ∈ ss, P s.x0 ∧ P s.x1 ∧ P s.x2) := by
  rw [seaDataset_eq] at h
  cases hck : seaCheck block numSamples noise with
  | some e => rw [hck] at h; cases h
  | none =>
    rw [hck] at h
    cases hthr : threshold (α := α) block with
    | none => rw [hthr] at h; cases h
    | some thr =>
      rw [hthr] at h
      simp only [Except.ok.injEq] at h
      rw [seaGen_eq_pulls] at h
      have key : ∀ j s, ss[j]? = some s →
          t.floats[4 * j]? = some s.x0 ∧ t.floats[4 * j + 1]? = some s.x1 ∧ t.floats[4 * j + 2]? = some s.x2 := by
        intro j s hs
        obtain ⟨a, b, c, -⟩ := seaPulls_get h j s hs
        exact ⟨a, b, c⟩
      refine ⟨key, ?_⟩
      intro P hP s hs
      obtain ⟨j, hj⟩ := List.mem_iff_getElem?.mp hs
      obtain ⟨a, b, c⟩ := key j s hj
      exact ⟨hP _ (List.mem_of_getElem? a), hP _ (List.mem_of_getElem? b), hP _ (List.mem_of_getElem? c)⟩

/-- **sea_range** over ℝ: tape floats in `[0, 10)` ⇒ every feature in `[0, 10)` -/
theorem sea_range_real {block : Nat} {noise : ℝ} {numSamples : Int} {t t' : Tape ℝ} {ss : List (SeaSample ℝ)}
    (h : seaDataset block noise numSamples t = .ok (some (ss, t')))
    (htape : ∀ u ∈ t.floats, 0 ≤ u ∧ u < 10) :
    ∀ s ∈ ss, (0 ≤ s.x0 ∧ s.x0 < 10) ∧ (0 ≤ s.x1 ∧ s.x1 < 10) ∧ (0 ≤ s.x2 ∧ s.x2 < 10) :=
  (sea_range h).2 (fun u => 0 ≤ u ∧ u < 10) htape

/-- **sea_equal_seeds** (any carrier).  Two generator states whose futures agree on the first
`4·num_samples` floats and the first `num_samples` coins (in particular: equal tapes = equal seeds) give
identical datasets; nothing beyond that prefix matters.  Rejections do not depend on the tape at all. -/
theorem sea_equal_seeds (block : Nat) (noise : α) (numSamples : Int) (t1 t2 : Tape α)
    (hf : t1.floats.take (4 * numSamples.toNat) = t2.floats.take (4 * numSamples.toNat))
    (hc : t1.coins.take numSamples.toNat = t2.coins.take numSamples.toNat) :
    (∀ e, seaDataset block noise numSamples t1 = .error e ↔ seaDataset block noise numSamples t2 = .error e) ∧
    (∀ ss t1', seaDataset block noise numSamples t1 = .ok (some (ss, t1')) →
      ∃ t2', seaDataset block noise numSamples t2 = .ok (some (ss, t2'))) := by
  constructor
  · intro e
    rw [seaDataset_eq, seaDataset_eq]
    cases seaCheck block numSamples noise with
    | some e' => simp
    | none =>
      cases threshold (α := α) block with
      | none => simp
      | some thr => simp
  · intro ss t1' h
    rw [seaDataset_eq] at h ⊢
    cases hck : seaCheck block numSamples noise with
    | some e => rw [hck] at h; cases h
    | none =>
      rw [hck] at h
      cases hthr : threshold (α := α) block with
      | none => rw [hthr] at h; cases h
      | some thr =>
        rw [hthr] at h
        simp only [Except.ok.injEq] at h ⊢
        rw [seaGen_eq_pulls] at h ⊢
        obtain ⟨pre, cpre, h1, h2, h3, h4, -, hfr⟩ := seaPulls_frame h
        simp only [List.length_replicate] at h3 h4
        -- the consumed float prefix is a prefix of `t2` as well
        have hpre : t2.floats = pre ++ t2.floats.drop (4 * numSamples.toNat) := by
          have : t1.floats.take (4 * numSamples.toNat) = pre := by
            rw [h1, ← h3]; simp
          rw [← this, hf]; simp
        have hcpre : t2.coins = cpre ++ t2.coins.drop cpre.length := by
          have e1 : t1.coins.take cpre.length = cpre := by rw [h2]; simp
          have e2 : t2.coins.take cpre.length = cpre := by
            have := congrArg (List.take cpre.length) hc
            rw [List.take_take, List.take_take, Nat.min_eq_left h4] at this
            rw [← this]; exact e1
          conv_lhs => rw [← List.take_append_drop cpre.length t2.coins, e2]
        refine ⟨⟨t2.floats.drop (4 * numSamples.toNat), t2.coins.drop cpre.length⟩, ?_⟩
        have := hfr (t2.floats.drop (4 * numSamples.toNat)) (t2.coins.drop cpre.length)
        rw [← hpre, ← hcpre] at this
        exact this

/-- equal seeds, literally: the same call on the same generator state gives the same dataset AND leaves
the generator in the same state (a function of the tape) — stated for completeness -/
theorem sea_same_tape (block : Nat) (noise : α) (numSamples : Int) (t1 t2 : Tape α) (h : t1 = t2) :
    seaDataset block noise numSamples t1 = seaDataset block noise numSamples t2 := by rw [h]

/-- **no `randint` at a noise level no draw falls below** (any carrier): then no coin is consumed, no
coin is needed, and every label is the clean rule. -/
theorem sea_labels_clean {block : Nat} {noise : α} {numSamples : Int} {t t' : Tape α} {ss : List (SeaSample α)}
    (h : seaDataset block noise numSamples t = .ok (some (ss, t')))
    (hclean : ∀ u ∈ t.floats, Num.lt u noise = false) :
    ∃ thr, threshold (α := α) block = some thr ∧
      ∀ s ∈ ss, s.y = if Num.le (s.x0 + s.x1) thr = true then 1 else 0 := by
  rw [seaDataset_eq] at h
  cases hck : seaCheck block numSamples noise with
  | some e => rw [hck] at h; cases h
  | none =>
    rw [hck] at h
    cases hthr : threshold (α := α) block with
    | none => rw [hthr] at h; cases h
    | some thr =>
      rw [hthr] at h
      simp only [Except.ok.injEq] at h
      rw [seaGen_eq_pulls] at h
      refine ⟨thr, rfl, ?_⟩
      intro s hs
      obtain ⟨j, hj⟩ := List.mem_iff_getElem?.mp hs
      obtain ⟨-, -, -, p, r, hp, hr, -, hcl⟩ := seaPulls_get h j s hj
      have hp' : p = (thr, noise) := by
        have := List.mem_of_getElem? hp
        exact (List.mem_replicate.mp this).2
      subst hp'
      have := hcl (hclean r (List.mem_of_getElem? hr)) 0
      rw [C20.seaLabel_clean _ _ _ _ _ _ (hclean r (List.mem_of_getElem? hr))] at this
      exact this
end SEA

/-- **sea_labels** (ℝ).  At `noise = 0`, on a generator whose float draws are non-negative (as
`uniform(0,10)` and `random()` are), every sample of the dataset has label `1` iff `x0 + x1 ≤ thr` and
label `0` iff `thr < x0 + x1`, where `thr` is the block's threshold. -/
theorem sea_labels {block : Nat} {numSamples : Int} {t t' : Tape ℝ} {ss : List (SeaSample ℝ)}
    (h : seaDataset block (0 : ℝ) numSamples t = .ok (some (ss, t')))
    (hpos : ∀ u ∈ t.floats, 0 ≤ u) :
    ∃ thr : ℝ, threshold (α := ℝ) block = some thr ∧
      ∀ s ∈ ss, (s.y = 1 ↔ s.x0 + s.x1 ≤ thr) ∧ (s.y = 0 ↔ thr < s.x0 + s.x1) := by
  obtain ⟨thr, hthr, hl⟩ := sea_labels_clean h (fun u hu => by simpa using hpos u hu)
  refine ⟨thr, hthr, fun s hs => ?_⟩
  rw [hl s hs]
  by_cases hle : s.x0 + s.x1 ≤ thr
  · simp [hle]
  · simp [hle, not_le.mp hle]

/-- the four blocks spelled out: thresholds 8, 9, 7, 9.5 -/
theorem sea_labels_blocks {block : Nat} {numSamples : Int} {t t' : Tape ℝ} {ss : List (SeaSample ℝ)}
    (h : seaDataset block (0 : ℝ) numSamples t = .ok (some (ss, t')))
    (hpos : ∀ u ∈ t.floats, 0 ≤ u) (s : SeaSample ℝ) (hs : s ∈ ss) :
    (block = 1 → (s.y = 1 ↔ s.x0 + s.x1 ≤ 8)) ∧ (block = 2 → (s.y = 1 ↔ s.x0 + s.x1 ≤ 9)) ∧
    (block = 3 → (s.y = 1 ↔ s.x0 + s.x1 ≤ 7)) ∧ (block = 4 → (s.y = 1 ↔ s.x0 + s.x1 ≤ 9.5)) := by
  obtain ⟨thr, hthr, hl⟩ := sea_labels h hpos
  obtain ⟨t1, t2, t3, t4⟩ := C20.threshold_real
  refine ⟨?_, ?_, ?_, ?_⟩ <;> intro hb <;> subst hb
  · rw [t1] at hthr; cases hthr; exact (hl s hs).1
  · rw [t2] at hthr; cases hthr; exact (hl s hs).1
  · rw [t3] at hthr; cases hthr; exact (hl s hs).1
  · rw [t4] at hthr; cases hthr; exact (hl s hs).1

/-- **sea_count** over ℝ with the documented domain spelled out (composes `C20.seaCheck_none_iff`,
`seaCheck_invalidBlock_iff`, `seaCheck_value_iff`): block in `1..4`, `num_samples ≥ 1`, `noise ∈ [0,1]`
⇒ exactly `num_samples` samples; a block outside `1..4` ⇒ `InvalidBlockError` (whatever the rest is); a
valid block with `num_samples < 1` or `noise ∉ [0,1]` ⇒ `ValueError`. -/
theorem sea_count_real (block : Nat) (noise : ℝ) (numSamples : Int) (t : Tape ℝ)
    (hf : 4 * numSamples.toNat ≤ t.floats.length) (hc : numSamples.toNat ≤ t.coins.length) :
    ((1 ≤ block ∧ block ≤ 4) ∧ 1 ≤ numSamples ∧ 0 ≤ noise ∧ noise ≤ 1 →
      ∃ ss t', seaDataset block noise numSamples t = .ok (some (ss, t')) ∧ (ss.length : Int) = numSamples) ∧
    (¬ (1 ≤ block ∧ block ≤ 4) → seaDataset block noise numSamples t = .error .invalidBlock) ∧
    ((1 ≤ block ∧ block ≤ 4) ∧ (numSamples < 1 ∨ ¬ (0 ≤ noise ∧ noise ≤ 1)) →
      seaDataset block noise numSamples t = .error .value) := by
  obtain ⟨herr, hok⟩ := sea_count block noise numSamples t hf hc
  exact ⟨fun h => hok ((C20.seaCheck_none_iff _ _ _).mpr h),
    fun h => herr _ ((C20.seaCheck_invalidBlock_iff _ _ _).mpr h),
    fun h => herr _ ((C20.seaCheck_value_iff _ _ _).mpr h)⟩

/-! ### non-vacuity (ℝ): block 1, two samples; at noise 0 no coin exists and none is needed; at noise 0.5
the second sample's draw 0.2 takes the coin -/
example : seaDataset 1 (0 : ℝ) 2 ⟨[1, 2, 3, 0.5, 6, 5, 1, 0.2, 7], []⟩
    = .ok (some ([⟨1, 2, 3, 1⟩, ⟨6, 5, 1, 0⟩], ⟨[7], []⟩)) := by
  norm_num [seaDataset, seaGenerate, threshold, seaGen, seaSample, show (2 : Int).toNat = 2 from rfl]
example : seaDataset 1 (0.5 : ℝ) 2 ⟨[1, 2, 3, 0.5, 6, 5, 1, 0.2, 7], [1, 0]⟩
    = .ok (some ([⟨1, 2, 3, 1⟩, ⟨6, 5, 1, 1⟩], ⟨[7], [0]⟩)) := by
  norm_num [seaDataset, seaGenerate, threshold, seaGen, seaSample, show (2 : Int).toNat = 2 from rfl]
example : seaDataset 5 (0.5 : ℝ) 2 ⟨[], []⟩ = .error .invalidBlock := by
  simp [seaDataset, seaGenerate, threshold]
example : seaDataset 2 (1.5 : ℝ) 2 ⟨[], []⟩ = .error .value := by
  norm_num [seaDataset, seaGenerate, threshold]
example : seaDataset 2 (0.5 : ℝ) 0 ⟨[], []⟩ = .error .value := by
  norm_num [seaDataset, seaGenerate, threshold]
/-- the model artefact: a tape that is too short starves (never happens in Python) -/
example : seaDataset 1 (0 : ℝ) 2 ⟨[1, 2, 3, 0.5, 6], []⟩ = .ok none := by
  norm_num [seaDataset, seaGenerate, threshold, seaGen, seaSample, show (2 : Int).toNat = 2 from rfl]

/-- instances of the hypotheses of `sea_count_real` and `sea_equal_seeds` (two different tapes that agree
on the first 4 floats and the first coin) -/
example : ∃ ss t', seaDataset 1 (0.5 : ℝ) 2 ⟨[1, 2, 3, 0.5, 6, 5, 1, 0.2, 7], [1, 0]⟩ = .ok (some (ss, t')) ∧
    (ss.length : Int) = 2 :=
  (sea_count_real 1 0.5 2 _ (by simp) (by simp)).1 (by norm_num)
example : ∃ t2', seaDataset 1 (0 : ℝ) 1 ⟨[1, 2, 3, 0.5, 100], [7, 3]⟩ = .ok (some ([⟨1, 2, 3, 1⟩], t2')) :=
  (sea_equal_seeds 1 0 1 ⟨[1, 2, 3, 0.5, 6, 5, 1, 0.2, 7], [7]⟩ ⟨[1, 2, 3, 0.5, 100], [7, 3]⟩ (by simp) (by simp)).2
    _ ⟨[6, 5, 1, 0.2, 7], [7]⟩
    (by norm_num [seaDataset, seaGenerate, threshold, seaGen, seaSample, show (1 : Int).toNat = 1 from rfl])

/-! ## 2. Laziness: `generate_dataset` draws nothing, `next` draws one sample's worth -/
section Lazy
variable {α : Type} [Num α]

/-- an exhausted iterator raises `StopIteration` and draws nothing (any carrier) -/
theorem seaNext_stop (it : SeaIter α) (t : Tape α) (h : it.remaining = 0) : seaNext it t = some (none, it, t) := by
  simp [seaNext, h]

/-- a live iterator delivers exactly what `_generate_sample` draws from the CURRENT global generator
state — 4 floats and at most one coin (`seaSample_frame`) — and counts down -/
theorem seaNext_live (it : SeaIter α) (t : Tape α) (k : Nat) (h : it.remaining = k + 1) :
    seaNext it t = (seaSample it.thr it.noise t).map (fun st => (some st.1, { it with remaining := k }, st.2)) := by
  simp only [seaNext, h]
  cases seaSample it.thr it.noise t with
  | none => rfl
  | some st => rfl

/-- `list(dataset)` (pull until `StopIteration`) is the eager list `seaGen` of the remaining items, and
leaves the iterator exhausted -/
theorem seaDrain_eq_gen (fuel : Nat) (it : SeaIter α) (t : Tape α) (h : it.remaining ≤ fuel) :
    seaDrain fuel it t =
      (seaGen it.thr it.noise it.remaining t).map (fun r => (r.1, { it with remaining := 0 }, r.2)) := by
  induction fuel generalizing it t with
  | zero =>
    obtain ⟨thr, noise, rem⟩ := it
    simp only [Nat.le_zero] at h
    subst h
    simp [seaDrain, seaGen]
  | succ fuel ih =>
    obtain ⟨thr, noise, rem⟩ := it
    cases rem with
    | zero => simp [seaDrain, seaNext, seaGen]
    | succ k =>
      simp only [seaDrain, seaNext, seaGen]
      cases seaSample thr noise t with
      | none => rfl
      | some st =>
        obtain ⟨s, t1⟩ := st
        simp only
        rw [ih ⟨thr, noise, k⟩ t1 (by simpa using h)]
        cases seaGen thr noise k t1 with
        | none => rfl
        | some r => rfl

/-- **lazy interleaving** (any carrier).  Two datasets `A`, `B` obtained from generators that share the
global NumPy state and pulled alternately `A, B, A, B, …`: the `i`-th sample of `A` is built from the
floats `8i … 8i+3`, the `i`-th sample of `B` from the floats `8i+4 … 8i+7` — NOT from the floats
`4i … 4i+3` a dataset iterated alone would use (`sea_range`).  Instance of `seaPulls_get`. -/
theorem sea_interleave {a b : α × α} {n : Nat} {t t' : Tape α} {ss : List (SeaSample α)}
    (h : seaPulls ((List.replicate n [a, b]).flatten) t = some (ss, t')) (i : Nat) :
    (∀ s, ss[2 * i]? = some s →
      t.floats[8 * i]? = some s.x0 ∧ t.floats[8 * i + 1]? = some s.x1 ∧ t.floats[8 * i + 2]? = some s.x2) ∧
    (∀ s, ss[2 * i + 1]? = some s →
      t.floats[8 * i + 4]? = some s.x0 ∧ t.floats[8 * i + 5]? = some s.x1 ∧ t.floats[8 * i + 6]? = some s.x2) := by
  constructor
  · intro s hs
    obtain ⟨h0, h1, h2, -⟩ := seaPulls_get h (2 * i) s hs
    have e : 4 * (2 * i) = 8 * i := by ring
    rw [e] at h0 h1 h2
    exact ⟨h0, h1, h2⟩
  · intro s hs
    obtain ⟨h0, h1, h2, -⟩ := seaPulls_get h (2 * i + 1) s hs
    have e0 : 4 * (2 * i + 1) = 8 * i + 4 := by ring
    rw [e0] at h0 h1 h2
    exact ⟨h0, h1, h2⟩
end Lazy

/-- witness (ℝ): dataset `A` (block 1, noise 0) pulled alternately with a second dataset `B` sees the
floats `1 2 3` then `9 9 9`; iterated alone from the same generator state it sees `1 2 3` then `6 5 1`.
"Equal seeds ⇒ identical datasets" therefore needs "and nobody else draws from `np.random` in between". -/
example :
    seaPulls [((8 : ℝ), 0), (9, 0), (8, 0), (9, 0)] ⟨[1, 2, 3, 0.5, 6, 5, 1, 0.2, 9, 9, 9, 0.1, 0, 0, 0, 0.3], []⟩
      = some ([⟨1, 2, 3, 1⟩, ⟨6, 5, 1, 0⟩, ⟨9, 9, 9, 0⟩, ⟨0, 0, 0, 1⟩], ⟨[], []⟩) ∧
    seaGen (8 : ℝ) 0 2 ⟨[1, 2, 3, 0.5, 6, 5, 1, 0.2, 9, 9, 9, 0.1, 0, 0, 0, 0.3], []⟩
      = some ([⟨1, 2, 3, 1⟩, ⟨6, 5, 1, 0⟩], ⟨[9, 9, 9, 0.1, 0, 0, 0, 0.3], []⟩) := by
  constructor <;> norm_num [seaPulls, seaGen, seaSample]

/-! ## 3. Dummy -/
section Dummy
variable {α : Type} [Num α]

/-- **tape consumption of one Dummy sample** (any carrier): exactly two floats, which ARE the features; no
coin is ever touched; the label is the rule of the code; frame property as for SEA. -/
theorem dummySample_frame {cls : Int} {t t' : Tape α} {s : DummySample α}
    (h : dummySample cls t = some (s, t')) :
    t.floats = s.x0 :: s.x1 :: t'.floats ∧ t'.coins = t.coins ∧
      s.y = (if Num.lt (s.x0 + s.x1) (Num.ofNat 10) = true then cls else 1 - cls) ∧
      ∀ f c, dummySample cls ⟨s.x0 :: s.x1 :: f, c⟩ = some (s, ⟨f, c⟩) := by
  obtain ⟨fl, co⟩ := t
  match fl, h with
  | x0 :: x1 :: fs, h =>
    simp only [dummySample, Option.some.injEq, Prod.mk.injEq] at h
    obtain ⟨rfl, rfl⟩ := h
    exact ⟨rfl, rfl, rfl, fun f c => rfl⟩

theorem dummySample_isSome (cls : Int) (t : Tape α) (hf : 2 ≤ t.floats.length) :
    ∃ s t', dummySample cls t = some (s, t') := by
  obtain ⟨fl, co⟩ := t
  match fl, hf with
  | x0 :: x1 :: fs, _ => exact ⟨_, _, rfl⟩

theorem dummySample_none_iff (cls : Int) (t : Tape α) : dummySample cls t = none ↔ t.floats.length < 2 := by
  obtain ⟨fl, co⟩ := t
  match fl with
  | [] => simp [dummySample]
  | [_] => simp [dummySample]
  | x0 :: x1 :: fs => simp [dummySample]

theorem dummyPulls_cons_some {c : Int} {cs : List Int} {t t' : Tape α} {ss : List (DummySample α)} :
    dummyPulls (c :: cs) t = some (ss, t') ↔
      ∃ s t1 ss', dummySample c t = some (s, t1) ∧ dummyPulls cs t1 = some (ss', t') ∧ ss = s :: ss' := by
  constructor
  · intro h
    simp only [dummyPulls] at h
    split at h
    · cases h
    · rename_i s t1 h1
      split at h
      · cases h
      · rename_i ss' t2 h2
        simp only [Option.some.injEq, Prod.mk.injEq] at h
        obtain ⟨rfl, rfl⟩ := h
        exact ⟨s, t1, ss', h1, h2, rfl⟩
  · rintro ⟨s, t1, ss', h1, h2, rfl⟩
    simp only [dummyPulls, h1, h2]

theorem dummyGen_eq_pulls (cls : Int) (n : Nat) (t : Tape α) :
    dummyGen cls n t = dummyPulls (List.replicate n cls) t := by
  induction n generalizing t with
  | zero => rfl
  | succ n ih =>
    simp only [dummyGen, List.replicate_succ, dummyPulls]
    cases dummySample cls t with
    | none => rfl
    | some st => obtain ⟨s, t1⟩ := st; simp only [ih]

/-- **frame / prefix property** (any carrier): `k` pulls consume exactly `2·k` floats from the front and
no coin, deliver `k` samples and depend only on the consumed prefix. -/
theorem dummyPulls_frame {cs : List Int} {t t' : Tape α} {ss : List (DummySample α)}
    (h : dummyPulls cs t = some (ss, t')) :
    ∃ pre, t.floats = pre ++ t'.floats ∧ t'.coins = t.coins ∧ pre.length = 2 * cs.length ∧
      ss.length = cs.length ∧ ∀ f c, dummyPulls cs ⟨pre ++ f, c⟩ = some (ss, ⟨f, c⟩) := by
  induction cs generalizing t ss with
  | nil =>
    simp only [dummyPulls, Option.some.injEq, Prod.mk.injEq] at h
    obtain ⟨rfl, rfl⟩ := h
    exact ⟨[], by simp, rfl, by simp, by simp, fun f c => by simp [dummyPulls]⟩
  | cons c cs ih =>
    obtain ⟨s, t1, ss', h1, h2, rfl⟩ := dummyPulls_cons_some.mp h
    obtain ⟨hf1, hc1, -, hfr1⟩ := dummySample_frame h1
    obtain ⟨pre, hf2, hc2, hl, hsl, hfr2⟩ := ih h2
    refine ⟨s.x0 :: s.x1 :: pre, ?_, ?_, ?_, ?_, ?_⟩
    · rw [hf1, hf2]; simp
    · rw [hc2, hc1]
    · simp [hl]; ring
    · simp [hsl]
    · intro f c'
      rw [dummyPulls_cons_some]
      exact ⟨s, ⟨pre ++ f, c'⟩, ss', by simpa using hfr1 (pre ++ f) c', hfr2 f c', rfl⟩

theorem dummyPulls_isSome (cs : List Int) (t : Tape α) (hf : 2 * cs.length ≤ t.floats.length) :
    ∃ ss t', dummyPulls cs t = some (ss, t') := by
  induction cs generalizing t with
  | nil => exact ⟨[], t, rfl⟩
  | cons c cs ih =>
    simp only [List.length_cons] at hf
    obtain ⟨s, t1, h1⟩ := dummySample_isSome c t (by omega)
    obtain ⟨hf1, -, -, -⟩ := dummySample_frame h1
    have hfl : t.floats.length = t1.floats.length + 2 := by rw [hf1]; simp
    obtain ⟨ss', t', h2⟩ := ih t1 (by omega)
    exact ⟨s :: ss', t', dummyPulls_cons_some.mpr ⟨s, t1, ss', h1, h2, rfl⟩⟩

/-- the `j`-th pull of any schedule reads the floats `2j`, `2j+1` and labels them with ITS class -/
theorem dummyPulls_get {cs : List Int} {t t' : Tape α} {ss : List (DummySample α)}
    (h : dummyPulls cs t = some (ss, t')) (j : Nat) (s : DummySample α) (hs : ss[j]? = some s) :
    t.floats[2 * j]? = some s.x0 ∧ t.floats[2 * j + 1]? = some s.x1 ∧
      ∃ c, cs[j]? = some c ∧ s.y = (if Num.lt (s.x0 + s.x1) (Num.ofNat 10) = true then c else 1 - c) := by
  induction cs generalizing t ss j with
  | nil =>
    simp only [dummyPulls, Option.some.injEq, Prod.mk.injEq] at h
    obtain ⟨rfl, rfl⟩ := h
    simp at hs
  | cons c cs ih =>
    obtain ⟨s0, t1, ss', h1, h2, rfl⟩ := dummyPulls_cons_some.mp h
    obtain ⟨hf1, -, hy, -⟩ := dummySample_frame h1
    cases j with
    | zero =>
      simp only [List.getElem?_cons_zero, Option.some.injEq] at hs
      subst hs
      rw [hf1]
      exact ⟨by simp, by simp, c, by simp, hy⟩
    | succ j =>
      simp only [List.getElem?_cons_succ] at hs
      obtain ⟨a, b, q, hq, hrest⟩ := ih h2 j hs
      have e0 : 2 * (j + 1) = 2 * j + 1 + 1 := by ring
      have e1 : 2 * (j + 1) + 1 = 2 * j + 1 + 1 + 1 := by ring
      rw [hf1, e1, e0]
      simp only [List.getElem?_cons_succ]
      exact ⟨a, b, q, hq, hrest⟩

/-- `Dummy.generate_dataset` raises exactly what `dummyCheck` says -/
theorem dummyGenerate_error_iff (cls numSamples : Int) (e : Err) :
    dummyGenerate cls numSamples = .error e ↔ dummyCheck cls numSamples = some e := by
  unfold dummyGenerate dummyCheck
  rw [Bool.or_comm]
  split
  · simp [eq_comm]
  · split <;> simp [eq_comm]

theorem dummyGenerate_ok_iff (cls numSamples : Int) (it : DummyIter) :
    dummyGenerate cls numSamples = .ok it ↔
      dummyCheck cls numSamples = none ∧ it.cls = cls ∧ it.remaining = numSamples.toNat := by
  unfold dummyGenerate dummyCheck
  rw [Bool.or_comm]
  obtain ⟨c, r⟩ := it
  split
  · simp
  · split
    · simp
    · simp only [Except.ok.injEq, DummyIter.mk.injEq, true_and]
      constructor
      · rintro ⟨rfl, rfl⟩; exact ⟨rfl, rfl⟩
      · rintro ⟨rfl, rfl⟩; exact ⟨rfl, rfl⟩

theorem dummyDataset_eq (cls numSamples : Int) (t : Tape α) :
    dummyDataset cls numSamples t =
      match dummyCheck cls numSamples with
      | some e => .error e
      | none => .ok (dummyGen cls numSamples.toNat t) := by
  unfold dummyDataset
  cases hg : dummyGenerate cls numSamples with
  | error e => rw [dummyGenerate_error_iff] at hg; simp [hg]
  | ok it =>
    obtain ⟨h1, h2, h3⟩ := (dummyGenerate_ok_iff _ _ _).mp hg
    simp [h1, h2, h3]

/-- **dummy_count** (any carrier): on a tape with at least `2·num_samples` floats, a class outside `{0,1}`
or `num_samples < 1` raises `ValueError` and yields nothing; otherwise exactly `num_samples` samples. -/
theorem dummy_count (cls numSamples : Int) (t : Tape α) (hf : 2 * numSamples.toNat ≤ t.floats.length) :
    (¬ ((cls = 0 ∨ cls = 1) ∧ 1 ≤ numSamples) → dummyDataset cls numSamples t = .error .value) ∧
    ((cls = 0 ∨ cls = 1) ∧ 1 ≤ numSamples →
      ∃ ss t', dummyDataset cls numSamples t = .ok (some (ss, t')) ∧ (ss.length : Int) = numSamples) := by
  constructor
  · intro hbad
    rw [dummyDataset_eq, ((C20.dummyCheck_some_iff cls numSamples .value).mpr ⟨rfl, hbad⟩)]
  · intro hgood
    obtain ⟨ss, t', h⟩ := dummyPulls_isSome (α := α) (List.replicate numSamples.toNat cls) t (by simpa using hf)
    refine ⟨ss, t', ?_, ?_⟩
    · rw [dummyDataset_eq, (C20.dummyCheck_none_iff cls numSamples).mpr hgood]; simp only
      rw [dummyGen_eq_pulls, h]
    · obtain ⟨_, _, _, _, hl, _⟩ := dummyPulls_frame h
      rw [hl]; simp; omega

/-- **dummy_range** (any carrier): the features of the `j`-th sample ARE the tape floats `2j`, `2j+1` -/
theorem dummy_range {cls numSamples : Int} {t t' : Tape α} {ss : List (DummySample α)}
    (h : dummyDataset cls numSamples t = .ok (some (ss, t'))) :
    (ss.length : Int) = numSamples ∧ (cls = 0 ∨ cls = 1) ∧
    (∀ j s, ss[j]? = some s → t.floats[2 * j]? = some s.x0 ∧ t.floats[2 * j + 1]? = some s.x1) ∧
    (∀ P : α → Prop, (∀ u ∈ t.floats, P u) → ∀ s ∈ ss, P s.x0 ∧ P s.x1) ∧
    (∀ s ∈ ss, s.y = (if Num.lt (s.x0 + s.x1) (Num.ofNat 10) = true then cls else 1 - cls)) := by
  rw [dummyDataset_eq] at h
  cases hck : dummyCheck cls numSamples with
  | some e => rw [hck] at h; cases h
  | none =>
    obtain ⟨hcls, hn⟩ := (C20.dummyCheck_none_iff cls numSamples).mp hck
    rw [hck] at h
    simp only [Except.ok.injEq] at h
    rw [dummyGen_eq_pulls] at h
    obtain ⟨_, _, _, _, hl, _⟩ := dummyPulls_frame h
    have key : ∀ j s, ss[j]? = some s → t.floats[2 * j]? = some s.x0 ∧ t.floats[2 * j + 1]? = some s.x1 := by
      intro j s hs
      obtain ⟨a, b, -⟩ := dummyPulls_get h j s hs
      exact ⟨a, b⟩
    refine ⟨by rw [hl]; simp; omega, hcls, key, ?_, ?_⟩
    · intro P hP s hs
      obtain ⟨j, hj⟩ := List.mem_iff_getElem?.mp hs
      obtain ⟨a, b⟩ := key j s hj
      exact ⟨hP _ (List.mem_of_getElem? a), hP _ (List.mem_of_getElem? b)⟩
    · intro s hs
      obtain ⟨j, hj⟩ := List.mem_iff_getElem?.mp hs
      obtain ⟨-, -, c, hc, hy⟩ := dummyPulls_get h j s hj
      have : c = cls := (List.mem_replicate.mp (List.mem_of_getElem? hc)).2
      rw [this] at hy; exact hy

/-- **dummy_equal_seeds** (any carrier): generator states that agree on the first `2·num_samples` floats
give identical datasets (the coins are irrelevant); rejections do not depend on the tape. -/
theorem dummy_equal_seeds (cls numSamples : Int) (t1 t2 : Tape α)
    (hf : t1.floats.take (2 * numSamples.toNat) = t2.floats.take (2 * numSamples.toNat)) :
    (∀ e, dummyDataset cls numSamples t1 = .error e ↔ dummyDataset cls numSamples t2 = .error e) ∧
    (∀ ss t1', dummyDataset cls numSamples t1 = .ok (some (ss, t1')) →
      ∃ t2', dummyDataset cls numSamples t2 = .ok (some (ss, t2'))) := by
  constructor
  · intro e
    rw [dummyDataset_eq, dummyDataset_eq]
    cases dummyCheck cls numSamples with
    | some e' => simp
    | none => simp
  · intro ss t1' h
    rw [dummyDataset_eq] at h ⊢
    cases hck : dummyCheck cls numSamples with
    | some e => rw [hck] at h; cases h
    | none =>
      rw [hck] at h
      simp only [Except.ok.injEq] at h ⊢
      rw [dummyGen_eq_pulls] at h ⊢
      obtain ⟨pre, h1, -, h3, -, hfr⟩ := dummyPulls_frame h
      simp only [List.length_replicate] at h3
      have hpre : t2.floats = pre ++ t2.floats.drop (2 * numSamples.toNat) := by
        have : t1.floats.take (2 * numSamples.toNat) = pre := by rw [h1, ← h3]; simp
        rw [← this, hf]; simp
      refine ⟨⟨t2.floats.drop (2 * numSamples.toNat), t2.coins⟩, ?_⟩
      have := hfr (t2.floats.drop (2 * numSamples.toNat)) t2.coins
      rw [← hpre] at this
      exact this

/-- the Dummy label is the per-sample rule `dummyLabel` of `Props/C20.lean` (for the accepted classes) -/
theorem dummy_label_bridge {cls numSamples : Int} {t t' : Tape α} {ss : List (DummySample α)}
    (h : dummyDataset cls numSamples t = .ok (some (ss, t'))) :
    ∀ s ∈ ss, s.y = (dummyLabel cls.toNat s.x0 s.x1 : Nat) := by
  obtain ⟨-, hcls, -, -, hy⟩ := dummy_range h
  intro s hs
  rw [hy s hs, C20.dummyLabel_eq]
  rcases hcls with rfl | rfl <;> split <;> simp
end Dummy

/-- **dummy_labels** (ℝ): every sample of the dataset has the given class iff `x0 + x1 < 10` (strict), and
the other class `1 - class_` iff `10 ≤ x0 + x1`. -/
theorem dummy_labels {cls numSamples : Int} {t t' : Tape ℝ} {ss : List (DummySample ℝ)}
    (h : dummyDataset cls numSamples t = .ok (some (ss, t'))) :
    ∀ s ∈ ss, (s.y = cls ↔ s.x0 + s.x1 < 10) ∧ (s.y = 1 - cls ↔ 10 ≤ s.x0 + s.x1) := by
  obtain ⟨-, -, -, -, hy⟩ := dummy_range h
  intro s hs
  rw [hy s hs]
  by_cases hlt : s.x0 + s.x1 < 10
  · have : ¬ (10 : ℝ) ≤ s.x0 + s.x1 := not_le.mpr hlt
    simp [hlt, this]; omega
  · have : (10 : ℝ) ≤ s.x0 + s.x1 := not_lt.mp hlt
    simp [hlt, this]; omega

theorem dummy_range_real {cls numSamples : Int} {t t' : Tape ℝ} {ss : List (DummySample ℝ)}
    (h : dummyDataset cls numSamples t = .ok (some (ss, t')))
    (htape : ∀ u ∈ t.floats, 0 ≤ u ∧ u < 10) :
    ∀ s ∈ ss, (0 ≤ s.x0 ∧ s.x0 < 10) ∧ (0 ≤ s.x1 ∧ s.x1 < 10) :=
  (dummy_range h).2.2.2.1 (fun u => 0 ≤ u ∧ u < 10) htape

/-! non-vacuity (ℝ) -/
example : dummyDataset 1 2 (⟨[3, 4, 6, 4, 9], [5]⟩ : Tape ℝ) = .ok (some ([⟨3, 4, 1⟩, ⟨6, 4, 0⟩], ⟨[9], [5]⟩)) := by
  norm_num [dummyDataset, dummyGenerate, dummyGen, dummySample, show (2 : Int).toNat = 2 from rfl]
example : dummyDataset 0 1 (⟨[6, 4], []⟩ : Tape ℝ) = .ok (some ([⟨6, 4, 1⟩], ⟨[], []⟩)) := by
  norm_num [dummyDataset, dummyGenerate, dummyGen, dummySample, show (1 : Int).toNat = 1 from rfl]
example : dummyDataset 2 2 (⟨[3, 4, 6, 4], []⟩ : Tape ℝ) = .error .value := by
  simp [dummyDataset, dummyGenerate]
example : dummyDataset 1 0 (⟨[3, 4, 6, 4], []⟩ : Tape ℝ) = .error .value := by
  simp [dummyDataset, dummyGenerate]

/-! ## 4. C19 — the STATED domain of every configuration class

`Stated.x` is the domain as the library's own error messages state it, written with ordinary mathematics
(`>`, interval sets `Set.Ioc 0 1`, …) and WITHOUT looking at the Boolean tables of `FrourosModel/Config.lean`;
the message each conjunct comes from is quoted next to it.  `accepts_iff_stated_x` then says the table
accepts exactly the stated domain (over ℝ / ℤ).  Rows where code and statement deliberately differ are
`_witness` theorems (`gaussian`: `prior_var = 0` is nowhere excluded by a message, yet raises
`ZeroDivisionError`).  -/
namespace Stated

/-- base config — "value must be greater than 0." (`min_num_instances`, concept_drift/base.py:45) -/
def minN (n : Int) : Prop := n > 0

/-- DDM (SPC base) — "warning level must be greater than 0.0." · "drift level must be greater than 0.0." ·
"drift level must be greater than warning level." -/
def ddm (warn drift : ℝ) (n : Int) : Prop := minN n ∧ warn > 0 ∧ drift > 0 ∧ drift > warn

/-- RDDM — DDM's, and "min_concept_size must be greater than 0."; nothing is stated (or tested) about
`max_concept_size`, `max_num_instances_warning` -/
def rddm (warn drift : ℝ) (n _maxConcept minConcept _maxWarn : Int) : Prop := ddm warn drift n ∧ minConcept > 0

/-- EDDM — "beta must be greater than 0.0." · "beta must be less than alpha." · "drift level must be greater
than 0.0." · "min_num_misclassified_instances must be greater or equal than 0."; nothing about `alpha` itself -/
def eddm (alpha beta level : ℝ) (minMis : Int) : Prop := beta > 0 ∧ beta < alpha ∧ level > 0 ∧ minMis ≥ 0

/-- HDDM-A — "alpha_d must be in the range (0, 1]." · "alpha_w must be in the range (0, 1]." · "alpha_w must
be greater than alpha_d." -/
def hddma (alphaD alphaW : ℝ) (n : Int) : Prop :=
  minN n ∧ alphaD ∈ Set.Ioc (0 : ℝ) 1 ∧ alphaW ∈ Set.Ioc (0 : ℝ) 1 ∧ alphaW > alphaD

/-- HDDM-W — HDDM-A's, and "lambda_ must be in the range (0, 1]." -/
def hddmw (alphaD alphaW lam : ℝ) (n : Int) : Prop := hddma alphaD alphaW n ∧ lam ∈ Set.Ioc (0 : ℝ) 1

/-- ECDD-WT — "average_run_length must be 100, 400 or 1000." · "lambda_ must be in the range [0, 1]." ·
"warning level must be in the range (0.0, 1.0)." -/
def ecdd (lam warn : ℝ) (arl n : Int) : Prop :=
  minN n ∧ arl ∈ ({100, 400, 1000} : Set Int) ∧ lam ∈ Set.Icc (0 : ℝ) 1 ∧ warn ∈ Set.Ioo (0 : ℝ) 1

/-- ADWIN — "clock value must be greater than 0." · "delta value must be in the range (0, 1)." · "m value must
be greater than 0." · "min_window_size value must be greater than 0." -/
def adwin (delta : ℝ) (clock m minWindow n : Int) : Prop :=
  minN n ∧ clock > 0 ∧ delta ∈ Set.Ioo (0 : ℝ) 1 ∧ m > 0 ∧ minWindow > 0

/-- KSWIN — "alpha value must be greater than 0." · "num_test_instances value must be smaller or equal than
half of min_num_instances." (half as a NUMBER, no rounding) · "num_test_instances value must be greater than 0." -/
def kswin (alpha : ℝ) (n numTest : Int) : Prop :=
  minN n ∧ alpha > 0 ∧ (numTest : ℝ) ≤ (n : ℝ) / 2 ∧ numTest > 0

/-- STEPD — "alpha_d must be greater than 0.0." · "alpha_w must be greater than 0.0." · "alpha_w must be greater
than alpha_d." (no upper bound is stated) -/
def stepd (alphaD alphaW : ℝ) (n : Int) : Prop := minN n ∧ alphaD > 0 ∧ alphaW > 0 ∧ alphaW > alphaD

/-- CUSUM — "lambda_ must be great or equal than 0." · "delta must be in the range [0, 1]." -/
def cusum (lam delta : ℝ) (n : Int) : Prop := minN n ∧ lam ≥ 0 ∧ delta ∈ Set.Icc (0 : ℝ) 1

/-- Page-Hinkley — CUSUM's, and "alpha must be in the range [0, 1]." -/
def pageHinkley (lam delta alpha : ℝ) (n : Int) : Prop := cusum lam delta n ∧ alpha ∈ Set.Icc (0 : ℝ) 1

/-- Geometric moving average — "lambda_ must be great or equal than 0." · "alpha must be in the range [0, 1]." -/
def gma (lam alpha : ℝ) (n : Int) : Prop := minN n ∧ lam ≥ 0 ∧ alpha ∈ Set.Icc (0 : ℝ) 1

/-- BOCD `GaussianUnknownMean` — the only message is "data_var must be greater than 0."; nothing is stated
about `prior_var` -/
def gaussian (_priorVar dataVar : ℝ) : Prop := dataVar > 0

/-- Permutation callback — "value must be greater of equal than 1." · "value must be less than or equal to
1000000." (`num_permutations`; `total_num_permutations` unless `None`) · "value must be greater than 0 or -1."
(`num_jobs`) · `method` one of the five names -/
def permutation (numPerm : Int) (total : Option Int) (numJobs : Int) (methodOk : Bool) : Prop :=
  (numPerm ≥ 1 ∧ numPerm ≤ 1000000) ∧ (total = none ∨ ∃ t, total = some t ∧ t ≥ 1 ∧ t ≤ 1000000) ∧
    (numJobs > 0 ∨ numJobs = -1) ∧ methodOk = true

/-- Reset callback — "value must be greater than 0." -/
def resetCallback (alpha : ℝ) : Prop := alpha > 0
/-- MMD — "chunk_size must be greater than 0 or None." -/
def chunkSize (cs : Option Int) : Prop := cs = none ∨ ∃ c, cs = some c ∧ c > 0
/-- `num_bins` — "value must be greater than 0."; `window_size` — "window_size value must be greater than 0." -/
def positiveInt (v : Int) : Prop := v > 0
/-- PrequentialError — "value must be in the range (0, 1]." -/
def prequential (alpha : ℝ) : Prop := alpha ∈ Set.Ioc (0 : ℝ) 1
end Stated

section AcceptsIffStated
open Frouros.Config

theorem accepts_iff_stated_ddm (warn drift : ℝ) (n : Int) :
    Config.ddm warn drift n = none ↔ Stated.ddm warn drift n := by
  rw [C19.ddm_none_iff]; simp only [Stated.ddm, Stated.minN, gt_iff_lt]; constructor <;> intro h <;> (refine ⟨?_, h.2⟩; omega)

theorem accepts_iff_stated_rddm (warn drift : ℝ) (n a minConcept c : Int) :
    Config.rddm warn drift n a minConcept c = none ↔ Stated.rddm warn drift n a minConcept c := by
  rw [C19.rddm_none_iff]; simp only [Stated.rddm, Stated.ddm, Stated.minN, gt_iff_lt]
  constructor
  · rintro ⟨h1, h2, h3, h4, h5⟩; exact ⟨⟨by omega, h2, h3, h4⟩, by omega⟩
  · rintro ⟨⟨h1, h2, h3, h4⟩, h5⟩; exact ⟨by omega, h2, h3, h4, by omega⟩

theorem accepts_iff_stated_eddm (alpha beta level : ℝ) (minMis : Int) :
    Config.eddm alpha beta level minMis = none ↔ Stated.eddm alpha beta level minMis := by
  rw [C19.eddm_none_iff]; simp only [Stated.eddm, gt_iff_lt, ge_iff_le]

theorem accepts_iff_stated_hddma (alphaD alphaW : ℝ) (n : Int) :
    Config.hddma alphaD alphaW n = none ↔ Stated.hddma alphaD alphaW n := by
  rw [C19.hddma_none_iff]; simp only [Stated.hddma, Stated.minN, Set.mem_Ioc, gt_iff_lt]
  constructor <;> intro h <;> (refine ⟨?_, h.2⟩; omega)

theorem accepts_iff_stated_hddmw (alphaD alphaW lam : ℝ) (n : Int) :
    Config.hddmw alphaD alphaW lam n = none ↔ Stated.hddmw alphaD alphaW lam n := by
  rw [C19.hddmw_none_iff]; simp only [Stated.hddmw, Stated.hddma, Stated.minN, Set.mem_Ioc, gt_iff_lt]
  constructor
  · rintro ⟨h1, h2, h3, h4, h5⟩; exact ⟨⟨by omega, h2, h3, h4⟩, h5⟩
  · rintro ⟨⟨h1, h2, h3, h4⟩, h5⟩; exact ⟨by omega, h2, h3, h4, h5⟩

theorem accepts_iff_stated_ecdd (lam warn : ℝ) (arl n : Int) :
    Config.ecdd lam warn arl n = none ↔ Stated.ecdd lam warn arl n := by
  rw [C19.ecdd_none_iff]
  simp only [Stated.ecdd, Stated.minN, Set.mem_Icc, Set.mem_Ioo, Set.mem_insert_iff, Set.mem_singleton_iff, gt_iff_lt]
  constructor <;> intro h <;> (refine ⟨?_, h.2⟩; omega)

theorem accepts_iff_stated_adwin (delta : ℝ) (clock m minWindow n : Int) :
    Config.adwin delta clock m minWindow n = none ↔ Stated.adwin delta clock m minWindow n := by
  rw [C19.adwin_none_iff]; simp only [Stated.adwin, Stated.minN, Set.mem_Ioo, gt_iff_lt]
  constructor
  · rintro ⟨h1, h2, h3, h4, h5, h6⟩; exact ⟨by omega, by omega, ⟨h3, h4⟩, by omega, by omega⟩
  · rintro ⟨h1, h2, ⟨h3, h4⟩, h5, h6⟩; exact ⟨by omega, by omega, h3, h4, by omega, by omega⟩

/-- KSWIN: the code tests `num_test_instances > min_num_instances // 2` (floor); for integers that is the
stated "at most half of min_num_instances" (an odd `min_num_instances` changes nothing) -/
theorem accepts_iff_stated_kswin (alpha : ℝ) (n numTest : Int) :
    Config.kswin alpha n numTest = none ↔ Stated.kswin alpha n numTest := by
  rw [C19.kswin_none_iff]; simp only [Stated.kswin, Stated.minN, gt_iff_lt]
  have key : (numTest : ℝ) ≤ (n : ℝ) / 2 ↔ 2 * numTest ≤ n := by
    rw [le_div_iff₀ (by norm_num : (0 : ℝ) < 2)]
    constructor
    · intro h; have : ((numTest * 2 : Int) : ℝ) ≤ (n : ℝ) := by push_cast; exact h
      have := Int.cast_le.mp this; omega
    · intro h; have : ((numTest * 2 : Int) : ℝ) ≤ (n : ℝ) := Int.cast_le.mpr (by omega)
      push_cast at this; exact this
  rw [key]
  constructor
  · rintro ⟨h1, h2, h3, h4⟩; exact ⟨by omega, h2, h4, by omega⟩
  · rintro ⟨h1, h2, h3, h4⟩; exact ⟨by omega, h2, by omega, h3⟩

theorem accepts_iff_stated_stepd (alphaD alphaW : ℝ) (n : Int) :
    Config.stepd alphaD alphaW n = none ↔ Stated.stepd alphaD alphaW n := by
  rw [C19.stepd_none_iff]; simp only [Stated.stepd, Stated.minN, gt_iff_lt]
  constructor <;> intro h <;> (refine ⟨?_, h.2⟩; omega)

theorem accepts_iff_stated_cusum (lam delta : ℝ) (n : Int) :
    Config.cusum lam delta n = none ↔ Stated.cusum lam delta n := by
  rw [C19.cusum_none_iff]; simp only [Stated.cusum, Stated.minN, Set.mem_Icc, gt_iff_lt, ge_iff_le]
  constructor <;> intro h <;> (refine ⟨?_, h.2⟩; omega)

theorem accepts_iff_stated_pageHinkley (lam delta alpha : ℝ) (n : Int) :
    Config.pageHinkley lam delta alpha n = none ↔ Stated.pageHinkley lam delta alpha n := by
  rw [C19.pageHinkley_none_iff]
  simp only [Stated.pageHinkley, Stated.cusum, Stated.minN, Set.mem_Icc, gt_iff_lt, ge_iff_le]
  constructor
  · rintro ⟨h1, h2, h3, h4⟩; exact ⟨⟨by omega, h2, h3⟩, h4⟩
  · rintro ⟨⟨h1, h2, h3⟩, h4⟩; exact ⟨by omega, h2, h3, h4⟩

theorem accepts_iff_stated_gma (lam alpha : ℝ) (n : Int) :
    Config.gma lam alpha n = none ↔ Stated.gma lam alpha n := by
  rw [C19.gma_none_iff]; simp only [Stated.gma, Stated.minN, Set.mem_Icc, gt_iff_lt, ge_iff_le]
  constructor <;> intro h <;> (refine ⟨?_, h.2⟩; omega)

/-- `GaussianUnknownMean` — PARTIAL match: accepted iff stated AND `prior_var ≠ 0`; the extra conjunct
is stated nowhere (no message, no docstring): see `accepts_iff_stated_gaussian_witness`. -/
theorem accepts_iff_stated_gaussian_partial (priorVar dataVar : ℝ) :
    Config.gaussian priorVar dataVar = none ↔ Stated.gaussian priorVar dataVar ∧ priorVar ≠ 0 := by
  rw [C19.gaussian_none_iff]; simp only [Stated.gaussian, gt_iff_lt]; tauto

/-- the stated domain holds (`data_var = 1 > 0`) but the constructor raises — and what it raises is a
`ZeroDivisionError` (from `1 / prior_var`), neither `ValueError` nor `TypeError` -/
theorem accepts_iff_stated_gaussian_witness :
    Stated.gaussian 0 1 ∧ Config.gaussian (0 : ℝ) 1 = some .zeroDivision := by
  refine ⟨by simp [Stated.gaussian], ?_⟩
  rw [C19.gaussian_zeroDivision_iff]

theorem accepts_iff_stated_permutation (numPerm : Int) (total : Option Int) (numJobs : Int) (methodOk : Bool) :
    Config.permutation numPerm total numJobs methodOk = none ↔ Stated.permutation numPerm total numJobs methodOk := by
  rw [C19.permutation_none_iff]; simp only [Stated.permutation, gt_iff_lt, ge_iff_le]
  cases total with
  | none =>
    simp
    constructor
    · rintro ⟨h1, h2, h3, h4⟩; exact ⟨⟨h1, h2⟩, by omega, h4⟩
    · rintro ⟨⟨h1, h2⟩, h3, h4⟩; exact ⟨h1, h2, by omega, h4⟩
  | some t =>
    simp
    constructor
    · rintro ⟨h1, h2, h5, h3, h4⟩; exact ⟨⟨h1, h2⟩, h5, by omega, h4⟩
    · rintro ⟨⟨h1, h2⟩, h5, h3, h4⟩; exact ⟨h1, h2, h5, by omega, h4⟩

theorem accepts_iff_stated_resetCallback (alpha : ℝ) :
    Config.resetCallback alpha = none ↔ Stated.resetCallback alpha := by
  rw [C19.resetCallback_none_iff]; rfl

theorem accepts_iff_stated_chunkSize (cs : Option Int) : Config.chunkSize cs = none ↔ Stated.chunkSize cs := by
  rw [C19.chunkSize_none_iff]; cases cs <;> simp [Stated.chunkSize]

theorem accepts_iff_stated_positiveInt (v : Int) : Config.positiveInt v = none ↔ Stated.positiveInt v := by
  rw [C19.positiveInt_none_iff]; simp only [Stated.positiveInt, gt_iff_lt]; omega

theorem accepts_iff_stated_prequential (alpha : ℝ) :
    Config.prequential alpha = none ↔ Stated.prequential alpha := by
  rw [C19.prequential_none_iff]; simp only [Stated.prequential, Set.mem_Ioc]

/-! non-vacuity: the library defaults lie in the stated domains -/
example : Stated.ddm 2 3 30 := by norm_num [Stated.ddm, Stated.minN]
example : Stated.rddm 1.773 2.258 129 40000 7000 1400 := by norm_num [Stated.rddm, Stated.ddm, Stated.minN]
example : Stated.eddm 0.95 0.9 2 30 := by norm_num [Stated.eddm]
example : Stated.hddmw 0.001 0.005 0.05 30 := by norm_num [Stated.hddmw, Stated.hddma, Stated.minN]
example : Stated.ecdd 0.2 0.5 400 30 := by norm_num [Stated.ecdd, Stated.minN]
example : Stated.adwin 0.002 32 5 5 10 := by norm_num [Stated.adwin, Stated.minN]
example : Stated.kswin 0.0001 100 30 := by norm_num [Stated.kswin, Stated.minN]
example : ¬ Stated.kswin 0.0001 100 51 := by norm_num [Stated.kswin, Stated.minN]
example : Stated.stepd 0.003 0.05 30 := by norm_num [Stated.stepd, Stated.minN]
example : Stated.pageHinkley 50 0.005 0.9999 30 := by norm_num [Stated.pageHinkley, Stated.cusum, Stated.minN]
example : Stated.gma 1 0.99 30 := by norm_num [Stated.gma, Stated.minN]
example : Stated.permutation 1000 none (-1) true := by norm_num [Stated.permutation]
example : Stated.prequential 1 := by norm_num [Stated.prequential]
end AcceptsIffStated

/-! ## 5. C19 at EVERY carrier: the tables read literally, and unordered values (NaN)

Over an arbitrary carrier (hence over IEEE doubles) "accepted" is exactly: every stated comparison,
evaluated by the carrier's own `<` / `<=`, comes out True — `Pos v` is the Python expression `v > 0`,
`Nonneg v` is `v >= 0`, `InOC v` is `0 < v <= 1`, … .  The positivity tests are written `not v > 0` in the
(fixed) code and in `Config.notPos` / `notNonneg`; that — not `v <= 0` — is what makes these `iff`s hold
for every carrier, and it is why an unordered value (NaN) is rejected (`nan_rejected_*`).  The two
parameters a NaN still slips through are exhibited (`nan_accepted_*_witness`). -/
section AnyCarrier
variable {α : Type} [Num α]
open Frouros.Config

/-- `v > 0` evaluates to True -/
abbrev Pos (v : α) : Prop := Num.lt (Num.zero : α) v = true
/-- `v >= 0` evaluates to True -/
abbrev Nonneg (v : α) : Prop := Num.le (Num.zero : α) v = true
/-- `0 < v <= 1` / `0 <= v <= 1` / `0 < v < 1` evaluate to True -/
abbrev InOC (v : α) : Prop := Num.lt (Num.zero : α) v = true ∧ Num.le v (Num.one : α) = true
abbrev InCC (v : α) : Prop := Num.le (Num.zero : α) v = true ∧ Num.le v (Num.one : α) = true
abbrev InOO (v : α) : Prop := Num.lt (Num.zero : α) v = true ∧ Num.lt v (Num.one : α) = true

theorem accepts_iff_any_ddm (warn drift : α) (n : Int) :
    Config.ddm warn drift n = none ↔ 1 ≤ n ∧ Pos warn ∧ Pos drift ∧ Num.le drift warn = false := by
  simp [Config.ddm, spc, minN, C19.firstErr_none_iff, notPos, Num.gt, z]
theorem accepts_iff_any_rddm (warn drift : α) (n a minConcept c : Int) :
    Config.rddm warn drift n a minConcept c = none ↔
      1 ≤ n ∧ Pos warn ∧ Pos drift ∧ Num.le drift warn = false ∧ 1 ≤ minConcept := by
  simp [Config.rddm, spc, minN, C19.firstErr_none_iff, notPos, Num.gt, z]
theorem accepts_iff_any_eddm (alpha beta level : α) (minMis : Int) :
    Config.eddm alpha beta level minMis = none ↔
      Pos beta ∧ Num.le alpha beta = false ∧ Pos level ∧ 0 ≤ minMis := by
  simp [Config.eddm, C19.firstErr_none_iff, notPos, Num.gt, Num.ge, z]
theorem accepts_iff_any_hddma (alphaD alphaW : α) (n : Int) :
    Config.hddma alphaD alphaW n = none ↔ 1 ≤ n ∧ InOC alphaD ∧ InOC alphaW ∧ Num.le alphaW alphaD = false := by
  simp [Config.hddma, hddmBase, minN, C19.firstErr_none_iff, notIn, z, o]
theorem accepts_iff_any_hddmw (alphaD alphaW lam : α) (n : Int) :
    Config.hddmw alphaD alphaW lam n = none ↔
      1 ≤ n ∧ InOC alphaD ∧ InOC alphaW ∧ Num.le alphaW alphaD = false ∧ InOC lam := by
  simp [Config.hddmw, hddmBase, minN, C19.firstErr_none_iff, notIn, z, o, and_assoc]
theorem accepts_iff_any_ecdd (lam warn : α) (arl n : Int) :
    Config.ecdd lam warn arl n = none ↔
      1 ≤ n ∧ (arl = 100 ∨ arl = 400 ∨ arl = 1000) ∧ InCC lam ∧ InOO warn := by
  simp [Config.ecdd, minN, C19.firstErr_none_iff, notIn, z, o]
  intro _ _ _ _ _; omega
theorem accepts_iff_any_adwin (delta : α) (clock m minWindow n : Int) :
    Config.adwin delta clock m minWindow n = none ↔ 1 ≤ n ∧ 1 ≤ clock ∧ InOO delta ∧ 1 ≤ m ∧ 1 ≤ minWindow := by
  simp [Config.adwin, minN, C19.firstErr_none_iff, notIn, z, o, and_assoc]
theorem accepts_iff_any_kswin (alpha : α) (n numTest : Int) :
    Config.kswin alpha n numTest = none ↔ 1 ≤ n ∧ Pos alpha ∧ numTest ≤ n / 2 ∧ 1 ≤ numTest := by
  simp [Config.kswin, minN, C19.firstErr_none_iff, notPos, Num.gt, z]
theorem accepts_iff_any_stepd (alphaD alphaW : α) (n : Int) :
    Config.stepd alphaD alphaW n = none ↔ 1 ≤ n ∧ Pos alphaD ∧ Pos alphaW ∧ Num.le alphaW alphaD = false := by
  simp [Config.stepd, minN, C19.firstErr_none_iff, notPos, Num.gt, z]
theorem accepts_iff_any_cusum (lam delta : α) (n : Int) :
    Config.cusum lam delta n = none ↔ 1 ≤ n ∧ Nonneg lam ∧ InCC delta := by
  simp [Config.cusum, minN, C19.firstErr_none_iff, notNonneg, notIn, Num.ge, z, o]
theorem accepts_iff_any_pageHinkley (lam delta alpha : α) (n : Int) :
    Config.pageHinkley lam delta alpha n = none ↔ 1 ≤ n ∧ Nonneg lam ∧ InCC delta ∧ InCC alpha := by
  simp [Config.pageHinkley, minN, C19.firstErr_none_iff, notNonneg, notIn, Num.ge, z, o]
theorem accepts_iff_any_gma (lam alpha : α) (n : Int) :
    Config.gma lam alpha n = none ↔ 1 ≤ n ∧ Nonneg lam ∧ InCC alpha := by
  simp [Config.gma, minN, C19.firstErr_none_iff, notNonneg, notIn, Num.ge, z, o]
theorem accepts_iff_any_gaussian (priorVar dataVar : α) :
    Config.gaussian priorVar dataVar = none ↔ Num.beq priorVar (Num.zero : α) = false ∧ Pos dataVar := by
  simp [Config.gaussian, C19.firstErr_none_iff, notPos, Num.gt, z]
theorem accepts_iff_any_resetCallback (alpha : α) : Config.resetCallback alpha = none ↔ Pos alpha := by
  simp [Config.resetCallback, C19.firstErr_none_iff, notPos, Num.gt, z]
theorem accepts_iff_any_prequential (alpha : α) : Config.prequential alpha = none ↔ InOC alpha := by
  simp [Config.prequential, C19.firstErr_none_iff, notIn, z, o]

/-- a value with which every comparison is False — NaN over IEEE doubles -/
def Unordered (v : α) : Prop :=
  ∀ w : α, Num.lt v w = false ∧ Num.lt w v = false ∧ Num.le v w = false ∧ Num.le w v = false ∧
    Num.beq v w = false

/-- **NaN is rejected** by every validated real parameter (any carrier) -/
theorem nan_rejected_ddm (warn drift : α) (n : Int) (h : Unordered warn ∨ Unordered drift) :
    Config.ddm warn drift n ≠ none := by
  rw [Ne, accepts_iff_any_ddm]; rintro ⟨-, h1, h2, -⟩
  rcases h with h | h
  · rw [Pos, (h _).2.1] at h1; cases h1
  · rw [Pos, (h _).2.1] at h2; cases h2
theorem nan_rejected_rddm (warn drift : α) (n a b c : Int) (h : Unordered warn ∨ Unordered drift) :
    Config.rddm warn drift n a b c ≠ none := by
  rw [Ne, accepts_iff_any_rddm]; rintro ⟨-, h1, h2, -⟩
  rcases h with h | h
  · rw [Pos, (h _).2.1] at h1; cases h1
  · rw [Pos, (h _).2.1] at h2; cases h2
theorem nan_rejected_eddm (alpha beta level : α) (k : Int) (h : Unordered beta ∨ Unordered level) :
    Config.eddm alpha beta level k ≠ none := by
  rw [Ne, accepts_iff_any_eddm]; rintro ⟨h1, -, h2, -⟩
  rcases h with h | h
  · rw [Pos, (h _).2.1] at h1; cases h1
  · rw [Pos, (h _).2.1] at h2; cases h2
theorem nan_rejected_hddmw (alphaD alphaW lam : α) (n : Int)
    (h : Unordered alphaD ∨ Unordered alphaW ∨ Unordered lam) : Config.hddmw alphaD alphaW lam n ≠ none := by
  rw [Ne, accepts_iff_any_hddmw]; rintro ⟨-, h1, h2, -, h3⟩
  rcases h with h | h | h
  · rw [InOC, (h _).2.1] at h1; cases h1.1
  · rw [InOC, (h _).2.1] at h2; cases h2.1
  · rw [InOC, (h _).2.1] at h3; cases h3.1
theorem nan_rejected_hddma (alphaD alphaW : α) (n : Int) (h : Unordered alphaD ∨ Unordered alphaW) :
    Config.hddma alphaD alphaW n ≠ none := by
  rw [Ne, accepts_iff_any_hddma]; rintro ⟨-, h1, h2, -⟩
  rcases h with h | h
  · rw [InOC, (h _).2.1] at h1; cases h1.1
  · rw [InOC, (h _).2.1] at h2; cases h2.1
theorem nan_rejected_ecdd (lam warn : α) (arl n : Int) (h : Unordered lam ∨ Unordered warn) :
    Config.ecdd lam warn arl n ≠ none := by
  rw [Ne, accepts_iff_any_ecdd]; rintro ⟨-, -, h1, h2⟩
  rcases h with h | h
  · rw [InCC, (h _).2.2.2.1] at h1; cases h1.1
  · rw [InOO, (h _).2.1] at h2; cases h2.1
theorem nan_rejected_adwin (delta : α) (clock m w n : Int) (h : Unordered delta) :
    Config.adwin delta clock m w n ≠ none := by
  rw [Ne, accepts_iff_any_adwin]; rintro ⟨-, -, h1, -⟩
  rw [InOO, (h _).2.1] at h1; cases h1.1
theorem nan_rejected_kswin (alpha : α) (n k : Int) (h : Unordered alpha) : Config.kswin alpha n k ≠ none := by
  rw [Ne, accepts_iff_any_kswin]; rintro ⟨-, h1, -⟩
  rw [Pos, (h _).2.1] at h1; cases h1
theorem nan_rejected_stepd (alphaD alphaW : α) (n : Int) (h : Unordered alphaD ∨ Unordered alphaW) :
    Config.stepd alphaD alphaW n ≠ none := by
  rw [Ne, accepts_iff_any_stepd]; rintro ⟨-, h1, h2, -⟩
  rcases h with h | h
  · rw [Pos, (h _).2.1] at h1; cases h1
  · rw [Pos, (h _).2.1] at h2; cases h2
theorem nan_rejected_cusum (lam delta : α) (n : Int) (h : Unordered lam ∨ Unordered delta) :
    Config.cusum lam delta n ≠ none := by
  rw [Ne, accepts_iff_any_cusum]; rintro ⟨-, h1, h2⟩
  rcases h with h | h
  · rw [Nonneg, (h _).2.2.2.1] at h1; cases h1
  · rw [InCC, (h _).2.2.2.1] at h2; cases h2.1
theorem nan_rejected_pageHinkley (lam delta alpha : α) (n : Int)
    (h : Unordered lam ∨ Unordered delta ∨ Unordered alpha) : Config.pageHinkley lam delta alpha n ≠ none := by
  rw [Ne, accepts_iff_any_pageHinkley]; rintro ⟨-, h1, h2, h3⟩
  rcases h with h | h | h
  · rw [Nonneg, (h _).2.2.2.1] at h1; cases h1
  · rw [InCC, (h _).2.2.2.1] at h2; cases h2.1
  · rw [InCC, (h _).2.2.2.1] at h3; cases h3.1
theorem nan_rejected_gma (lam alpha : α) (n : Int) (h : Unordered lam ∨ Unordered alpha) :
    Config.gma lam alpha n ≠ none := by
  rw [Ne, accepts_iff_any_gma]; rintro ⟨-, h1, h2⟩
  rcases h with h | h
  · rw [Nonneg, (h _).2.2.2.1] at h1; cases h1
  · rw [InCC, (h _).2.2.2.1] at h2; cases h2.1
theorem nan_rejected_gaussian_dataVar (priorVar dataVar : α) (h : Unordered dataVar) :
    Config.gaussian priorVar dataVar ≠ none := by
  rw [Ne, accepts_iff_any_gaussian]; rintro ⟨-, h1⟩
  rw [Pos, (h _).2.1] at h1; cases h1
theorem nan_rejected_resetCallback (alpha : α) (h : Unordered alpha) : Config.resetCallback alpha ≠ none := by
  rw [Ne, accepts_iff_any_resetCallback]; intro h1
  rw [Pos, (h _).2.1] at h1; cases h1
theorem nan_rejected_prequential (alpha : α) (h : Unordered alpha) : Config.prequential alpha ≠ none := by
  rw [Ne, accepts_iff_any_prequential]; intro h1
  rw [InOC, (h _).2.1] at h1; cases h1.1

/-- **finding** — EDDM's `alpha` has no test of its own (only `beta >= alpha` ⇒ raise): an unordered
`alpha` is ACCEPTED whenever the other three parameters are (Python: `EDDMConfig(alpha=float("nan"))`
constructs; checked against /repo). -/
theorem nan_accepted_eddm_alpha_witness (alpha beta level : α) (k : Int) (h : Unordered alpha) :
    Config.eddm alpha beta level k = none ↔ Pos beta ∧ Pos level ∧ 0 ≤ k := by
  rw [accepts_iff_any_eddm, (h beta).2.2.1]; simp

/-- **finding** — `GaussianUnknownMean(prior_var=nan)` is accepted (`nan == 0` is False, and `1 / nan`
does not raise) -/
theorem nan_accepted_gaussian_priorVar_witness (priorVar dataVar : α) (h : Unordered priorVar) :
    Config.gaussian priorVar dataVar = none ↔ Pos dataVar := by
  rw [accepts_iff_any_gaussian, (h _).2.2.2.2]; simp
end AnyCarrier

/-- non-vacuity of `Unordered`: the degenerate carrier in which every comparison is False ("all NaN").
(For `Float`, `Unordered NaN` is IEEE-754; it cannot be proved in Lean without `native_decide`,
`Float` operations being opaque.) -/
@[instance_reducible] def allNaN : Num Unit where
  add _ _ := ()
  sub _ _ := ()
  mul _ _ := ()
  div _ _ := ()
  neg _ := ()
  ofNat _ := ()
  ofDec _ _ := ()
  sqrt _ := ()
  log _ := ()
  exp _ := ()
  abs _ := ()
  npow _ _ := ()
  lt _ _ := false
  le _ _ := false
  beq _ _ := false

example : @Unordered Unit allNaN () := fun _ => ⟨rfl, rfl, rfl, rfl, rfl⟩
example : @Config.ddm Unit allNaN () () 30 ≠ none := @nan_rejected_ddm Unit allNaN () () 30 (Or.inl fun _ => ⟨rfl, rfl, rfl, rfl, rfl⟩)
/-- over ℝ the literal reading is the ordinary one -/
example (v : ℝ) : Pos v ↔ 0 < v := by simp [Pos]
example (v : ℝ) : InOC v ↔ v ∈ Set.Ioc (0 : ℝ) 1 := by simp [InOC]

/-! ## 6. C15 — what CAN be said in Lean about save / load

(a) `saveload_transparent`: for ANY detector machine and ANY codec, if decoding the encoding of every
REACHABLE state gives that state back, then a history with `save`+`load` round trips inserted at
arbitrary points ends (hence, taking prefixes, passes at every point) in exactly the state of the
history without them — and no round trip fails.  This reduces clauses 2–3 of C15 ("indistinguishable
object, same outputs on every continuation") to ONE assumption about pickle, the round trip on reachable
states, which is what the differential harness tests; `saveload_transparent_witness` shows the assumption
is also necessary.  Nothing here is about pickle itself.

(b) `saveFS`: a proof-side refinement of `Persist.save` (`FrourosModel/Misc.lean`) in which the target
file is explicit.  It is NOT part of the harness-validated model; it transcribes persistence.py:46-60
(`open(filename, "wb")` comes after both tests and BEFORE `pickle.dump`) and was checked by hand against
/repo (rejected calls leave a pre-existing file byte-identical; a `PicklingError` leaves a truncated file). -/
section C15
variable {S V W : Type}

/-- a history in which `save(detector, f); detector = load(f)` may occur at any point -/
inductive OpSL (V : Type) where
  | op (o : Op V)
  | saveload

/-- `none` = a `load` failed -/
def applySL (M : Machine S V) (enc : S → W) (dec : W → Option S) : Option S → OpSL V → Option S
  | none, _ => none
  | some s, .op o => some (M.apply s o)
  | some s, .saveload => dec (enc s)

/-- the same history with the round trips removed -/
def eraseSL : List (OpSL V) → List (Op V)
  | [] => []
  | .op o :: h => o :: eraseSL h
  | .saveload :: h => eraseSL h

theorem saveload_transparent_from (M : Machine S V) (enc : S → W) (dec : W → Option S)
    (hrt : ∀ s, M.Reachable s → dec (enc s) = some s) (h : List (OpSL V)) (s : S) (hs : M.Reachable s) :
    h.foldl (applySL M enc dec) (some s) = some (M.runFrom s (eraseSL h)) := by
  induction h generalizing s with
  | nil => rfl
  | cons o h ih =>
    cases o with
    | op o =>
      have hr : M.Reachable (M.apply s o) := by
        cases o with
        | update v => exact Machine.Reachable.step v hs
        | reset => exact Machine.Reachable.reset hs
      simp only [List.foldl_cons, applySL, eraseSL]
      rw [ih _ hr]; rfl
    | saveload =>
      simp only [List.foldl_cons, applySL, eraseSL, hrt s hs]
      exact ih s hs

/-- **saveload_transparent** (every machine, every carrier, every codec with the round-trip property) -/
theorem saveload_transparent (M : Machine S V) (enc : S → W) (dec : W → Option S)
    (hrt : ∀ s, M.Reachable s → dec (enc s) = some s) (h : List (OpSL V)) :
    h.foldl (applySL M enc dec) (some M.init) = some (M.run (eraseSL h)) :=
  saveload_transparent_from M enc dec hrt h M.init Machine.Reachable.init

/-- the round-trip hypothesis is necessary: a reachable state the codec does not give back is a history
on which the reloaded detector differs from the original -/
theorem saveload_transparent_witness (M : Machine S V) (enc : S → W) (dec : W → Option S)
    (s : S) (hs : M.Reachable s) (hbad : dec (enc s) ≠ some s) :
    ∃ h : List (OpSL V), h.foldl (applySL M enc dec) (some M.init) ≠ some (M.run (eraseSL h)) := by
  obtain ⟨ops, rfl⟩ := (M.reachable_iff_run s).mp hs
  refine ⟨ops.map .op ++ [.saveload], ?_⟩
  have e1 : ∀ l : List (Op V), eraseSL (l.map OpSL.op ++ [OpSL.saveload]) = l := by
    intro l; induction l with
    | nil => rfl
    | cons o l ih => simp only [List.map_cons, List.cons_append, eraseSL, ih]
  have e2 : ∀ (l : List (Op V)) (s0 : S),
      (l.map OpSL.op).foldl (applySL M enc dec) (some s0) = some (M.runFrom s0 l) := by
    intro l; induction l with
    | nil => intro s0; rfl
    | cons o l ih => intro s0; simp only [List.map_cons, List.foldl_cons, applySL, ih]; rfl
  rw [e1, List.foldl_append, e2]
  simpa [applySL, Machine.run] using hbad

/-- non-vacuity: the identity codec has the round-trip property (the model-side reading "save/load is the
identity on model states"), for every machine -/
example (M : Machine S V) (h : List (OpSL V)) :
    h.foldl (applySL M id some) (some M.init) = some (M.run (eraseSL h)) :=
  saveload_transparent M id some (fun _ _ => rfl) h

/-- if what the user can observe of a reachable state determines it, then a reloaded object with the same
observable state has the same state after ANY continuation -/
theorem continuation_of_equal_obs {O : Type} (M : Machine S V) (obs : S → O)
    (hinj : ∀ s s', M.Reachable s → M.Reachable s' → obs s = obs s' → s = s')
    (s s' : S) (hs : M.Reachable s) (hs' : M.Reachable s') (h : obs s = obs s') (ops : List (Op V)) :
    M.runFrom s ops = M.runFrom s' ops := by rw [hinj s s' hs hs' h]

/-! #### (b) the file -/

inductive SaveOut where | typeError | valueError | pickleError | done
  deriving DecidableEq, Repr

/-- `save(obj, filename, pickle_protocol)` with the file: `file` = content of `filename` before (`none`:
no such file); `pickled` = what `pickle.dump` does: `.inl partial` — raises after having written
`partial` —, `.inr bytes` — succeeds.  Returns the content afterwards and the outcome. -/
def saveFS (isDC : Bool) (protocol : Int) (highest : Nat) (pickled : List Nat ⊕ List Nat)
    (file : Option (List Nat)) : Option (List Nat) × SaveOut :=
  if !isDC then (file, .typeError)
  else if !(0 ≤ protocol && protocol ≤ highest) then (file, .valueError)
  else match pickled with                    -- `open(filename, "wb")` has already truncated the file
    | .inl part => (some part, .pickleError)
    | .inr bytes => (some bytes, .done)

/-- `saveFS` refines `Persist.save`: same decision, in the same order -/
theorem saveFS_refines (isDC : Bool) (protocol : Int) (highest : Nat) (pickled : List Nat ⊕ List Nat)
    (file : Option (List Nat)) :
    (Persist.save isDC protocol highest = .typeError ↔ (saveFS isDC protocol highest pickled file).2 = .typeError) ∧
    (Persist.save isDC protocol highest = .valueError ↔ (saveFS isDC protocol highest pickled file).2 = .valueError) ∧
    (Persist.save isDC protocol highest = .written ↔
      (saveFS isDC protocol highest pickled file).2 = .done ∨ (saveFS isDC protocol highest pickled file).2 = .pickleError) := by
  unfold Persist.save saveFS
  cases isDC <;> by_cases h : (0 ≤ protocol && protocol ≤ (highest : Int)) = true <;> cases pickled <;> simp [h]

/-- **rejected ⇒ no file is created, an existing one is left byte-identical** (clause 7 of C15,
"without writing a usable file", as a statement about the file) -/
theorem saveFS_rejected_untouched (isDC : Bool) (protocol : Int) (highest : Nat) (pickled : List Nat ⊕ List Nat)
    (file : Option (List Nat)) (h : isDC = false ∨ protocol < 0 ∨ (highest : Int) < protocol) :
    (saveFS isDC protocol highest pickled file).1 = file ∧
      ((saveFS isDC protocol highest pickled file).2 = .typeError ∨
       (saveFS isDC protocol highest pickled file).2 = .valueError) := by
  unfold saveFS
  rcases h with h | h | h
  · simp [h]
  · have : (0 ≤ protocol && protocol ≤ (highest : Int)) = false := by simp; omega
    cases isDC <;> simp [this]
  · have : (0 ≤ protocol && protocol ≤ (highest : Int)) = false := by simp; omega
    cases isDC <;> simp [this]

/-- a successful save leaves exactly the pickled bytes, whatever was there (mode `"wb"`) -/
theorem saveFS_done (protocol : Int) (highest : Nat) (bytes : List Nat) (file : Option (List Nat))
    (h0 : 0 ≤ protocol) (h1 : protocol ≤ (highest : Int)) :
    saveFS true protocol highest (.inr bytes) file = (some bytes, .done) := by
  simp [saveFS, h0, h1]

/-- **finding** (witness): when both tests pass and pickling fails, the previous content of the file is
LOST and a truncated file is left behind — the file is opened before `pickle.dump` runs.  (Observed on
/repo with an unpicklable attribute: 0 bytes left, `PicklingError`.) -/
theorem saveFS_pickleError_witness (protocol : Int) (highest : Nat) (part old : List Nat)
    (h0 : 0 ≤ protocol) (h1 : protocol ≤ (highest : Int)) :
    saveFS true protocol highest (.inl part) (some old) = (some part, .pickleError) := by
  simp [saveFS, h0, h1]

example : saveFS false 99 5 (.inr [1, 2]) (some [7]) = (some [7], .typeError) := by decide
example : saveFS true 99 5 (.inr [1, 2]) none = (none, .valueError) := by decide
example : saveFS true 4 5 (.inr [1, 2]) (some [7]) = (some [1, 2], .done) := by decide
example : saveFS true 4 5 (.inl []) (some [7]) = (some [], .pickleError) := by decide
end C15

/-! ## 7. C19 — operability register for the detectors without an error channel

See REPORT.md for the audit of the Python `update` paths.  Summary: the only `raise` sites on the update
paths of DDM / RDDM / EDDM are guarded SETTERS on computed quantities (`min_error_rate`, `min_std` `< 0`;
EDDM's `mean_/old_mean_/std_/variance_distance_error`, `last_distance_error` `< 0`); ECDD-WT, HDDM-A,
HDDM-W, CUSUM, Page-Hinkley, GMA have no reachable `raise` and every division is a NumPy one or has a
divisor `≥ 1`.  The model records (mirroring the assignments) has no error field for these sites, so
operability is stated as: IN EVERY REACHABLE STATE EVERY GUARDED QUANTITY LIES IN ITS GUARD'S DOMAIN. -/
section Operable

/-- an invariant preserved by `reset` and by `step` on in-domain values holds after every history whose
updates are in-domain (generic; any machine) -/
theorem runFrom_inv {S V : Type} (M : Machine S V) (P : S → Prop) (D : V → Prop)
    (hs : ∀ s v, P s → D v → P (M.step s v)) (hr : ∀ s, P s → P (M.reset s))
    (ops : List (Op V)) (s : S) (h : P s) (hd : ∀ v, Op.update v ∈ ops → D v) : P (M.runFrom s ops) := by
  induction ops generalizing s with
  | nil => exact h
  | cons o ops ih =>
    have hd' : ∀ v, Op.update v ∈ ops → D v := fun v hv => hd v (List.mem_cons_of_mem _ hv)
    cases o with
    | update v => exact ih _ (hs s v h (hd v (by simp))) hd'
    | reset => exact ih _ (hr s h) hd'

/-- the running mean of values in `[0,1]` stays in `[0,1]` -/
theorem mean_update_unit (m : Mean ℝ) (v : ℝ) (hm0 : 0 ≤ m.mean) (hm1 : m.mean ≤ 1) (hv0 : 0 ≤ v) (hv1 : v ≤ 1) :
    0 ≤ (m.update v).mean ∧ (m.update v).mean ≤ 1 := by
  simp only [Mean.update, RealNum.ofNat_eq]
  have hk : (1 : ℝ) ≤ ((m.n + 1 : ℕ) : ℝ) := by exact_mod_cast Nat.le_add_left 1 m.n
  have hk0 : (0 : ℝ) < ((m.n + 1 : ℕ) : ℝ) := by linarith
  have e : m.mean + (v - m.mean) / ((m.n + 1 : ℕ) : ℝ)
      = (m.mean * (((m.n + 1 : ℕ) : ℝ) - 1) + v) / ((m.n + 1 : ℕ) : ℝ) := by field_simp; ring
  rw [e]
  constructor
  · exact div_nonneg (by nlinarith) hk0.le
  · rw [div_le_one hk0]; nlinarith

/-- DDM's guarded quantities: the error rate (a probability) and the stored minimum pair (the two
setters `min_error_rate`, `min_std` raise `ValueError` on a negative value; base.py:218, :248) -/
def DDMGuards (s : DDM.State ℝ) : Prop :=
  0 ≤ s.er.mean ∧ s.er.mean ≤ 1 ∧ ∀ p sd, s.minPS = some (p, sd) → 0 ≤ p ∧ 0 ≤ sd

theorem ddm_step_er (c : DDM.Cfg ℝ) (s : DDM.State ℝ) (v : ℝ) : (DDM.step c s v).er = s.er.update v := by
  unfold DDM.step
  simp only []
  repeat' split
  all_goals rfl

/-- the only value `step` ever assigns to the minimum pair is (new error rate, its `sqrt` deviation) -/
theorem ddm_step_minPS (c : DDM.Cfg ℝ) (s : DDM.State ℝ) (v : ℝ) :
    (DDM.step c s v).minPS = s.minPS ∨
      (DDM.step c s v).minPS = some ((s.er.update v).mean, (DDM.epsStd (s.er.update v) (s.n + 1)).2) := by
  unfold DDM.step
  simp only []
  by_cases hb : c.minN ≤ s.n + 1 ∧ DDM.belowMin (DDM.epsStd (s.er.update v) (s.n + 1)).1 s.minPS = true
  · right
    repeat' split
    all_goals simp_all [DDM.epsStd]
  · left
    repeat' split
    all_goals simp_all [DDM.epsStd]

theorem DDMGuards_step (c : DDM.Cfg ℝ) (s : DDM.State ℝ) (v : ℝ) (h : DDMGuards s) (hv : 0 ≤ v ∧ v ≤ 1) :
    DDMGuards (DDM.step c s v) := by
  obtain ⟨h0, h1, hm⟩ := h
  obtain ⟨u0, u1⟩ := mean_update_unit s.er v h0 h1 hv.1 hv.2
  refine ⟨by rw [ddm_step_er]; exact u0, by rw [ddm_step_er]; exact u1, ?_⟩
  intro p sd hp
  rcases ddm_step_minPS c s v with e | e
  · rw [e] at hp; exact hm p sd hp
  · rw [e] at hp
    simp only [Option.some.injEq, Prod.mk.injEq] at hp
    obtain ⟨rfl, rfl⟩ := hp
    exact ⟨u0, by simp [DDM.epsStd, Real.sqrt_nonneg]⟩

/-- **operable_ddm** (ℝ; EVERY configuration, accepted or not; every history with resets whose values lie
in `[0,1]` — in particular error indicators `0/1`): the guarded setters never fire.  Full strength for the
model over ℝ.  NOT claimed for values outside `[0,1]`: there the ℝ-model and the code part ways for a
reason that is not in the code — for `p < 0` NumPy's `sqrt(p(1-p)/n)` is NaN, the comparison with the
minimum is False and the setter is NOT reached (the guard is dead code at IEEE), whereas `Real.sqrt` of a
negative number is the junk value `0` and the ℝ-model would store a negative minimum. -/
theorem operable_ddm (c : DDM.Cfg ℝ) (ops : List (Op ℝ)) (hdom : ∀ v, Op.update v ∈ ops → 0 ≤ v ∧ v ≤ 1) :
    DDMGuards ((DDM.machine c).run ops) :=
  runFrom_inv (DDM.machine c) DDMGuards (fun v => 0 ≤ v ∧ v ≤ 1) (DDMGuards_step c)
    (fun s _ => by simp [DDM.machine, DDM.reset, DDMGuards, Mean.init]) ops _
    (by simp [DDM.machine, DDM.init, DDMGuards, Mean.init]) hdom

/-- non-vacuity: `1, 0, 1, reset, 0.5` is such a history -/
example (c : DDM.Cfg ℝ) : DDMGuards ((DDM.machine c).run [.update 1, .update 0, .update 1, .reset, .update 0.5]) :=
  operable_ddm c _ (by intro v hv; simp at hv; rcases hv with rfl | rfl | rfl | rfl <;> norm_num)

/-- EDDM's guarded quantities (setters eddm.py:216-342 raise `ValueError` on a negative value);
`num_misclassified_instances` and `num_instances` are `Nat` in the model; `lastErr ≤ n` is what makes
`distance = num_instances - last_distance_error` a genuine (not truncated) subtraction. -/
def EDDMGuards (s : EDDM.State ℝ) : Prop :=
  0 ≤ s.mean ∧ 0 ≤ s.oldMean ∧ 0 ≤ s.std ∧ 0 ≤ s.var ∧ s.lastErr ≤ s.n

theorem EDDMGuards_step (c : EDDM.Cfg ℝ) (s : EDDM.State ℝ) (v : ℝ) (h : EDDMGuards s) :
    EDDMGuards (EDDM.step c s v) := by
  obtain ⟨hm, ho, hsd, hv, hl⟩ := h
  have hk : (1 : ℝ) ≤ ((s.numMis + 1 : ℕ) : ℝ) := by exact_mod_cast Nat.le_add_left 1 s.numMis
  have hk0 : (0 : ℝ) < ((s.numMis + 1 : ℕ) : ℝ) := by linarith
  have hd : (0 : ℝ) ≤ ((s.n + 1 - s.lastErr : ℕ) : ℝ) := Nat.cast_nonneg _
  -- the new mean is a convex combination of the old mean and the distance
  have hmean : 0 ≤ s.mean + (((s.n + 1 - s.lastErr : ℕ) : ℝ) - s.mean) / ((s.numMis + 1 : ℕ) : ℝ) := by
    have e : s.mean + (((s.n + 1 - s.lastErr : ℕ) : ℝ) - s.mean) / ((s.numMis + 1 : ℕ) : ℝ)
        = (s.mean * (((s.numMis + 1 : ℕ) : ℝ) - 1) + ((s.n + 1 - s.lastErr : ℕ) : ℝ)) / ((s.numMis + 1 : ℕ) : ℝ) := by
      field_simp; ring
    rw [e]; exact div_nonneg (by nlinarith) hk0.le
  -- Welford's increment `(d - mean')(d - mean)` is `(d - mean)² (1 - 1/k) ≥ 0`
  have hvar : 0 ≤ s.var + (((s.n + 1 - s.lastErr : ℕ) : ℝ) -
      (s.mean + (((s.n + 1 - s.lastErr : ℕ) : ℝ) - s.mean) / ((s.numMis + 1 : ℕ) : ℝ))) *
      (((s.n + 1 - s.lastErr : ℕ) : ℝ) - s.mean) := by
    have e : (((s.n + 1 - s.lastErr : ℕ) : ℝ) -
        (s.mean + (((s.n + 1 - s.lastErr : ℕ) : ℝ) - s.mean) / ((s.numMis + 1 : ℕ) : ℝ))) *
        (((s.n + 1 - s.lastErr : ℕ) : ℝ) - s.mean)
        = (((s.n + 1 - s.lastErr : ℕ) : ℝ) - s.mean) ^ 2 * ((((s.numMis + 1 : ℕ) : ℝ) - 1) / ((s.numMis + 1 : ℕ) : ℝ)) := by
      field_simp; ring
    rw [e]
    have : 0 ≤ (((s.numMis + 1 : ℕ) : ℝ) - 1) / ((s.numMis + 1 : ℕ) : ℝ) := div_nonneg (by linarith) hk0.le
    positivity
  simp only [EDDM.step, EDDMGuards, RealNum.ofNat_eq, RealNum.sqrt_eq]
  split_ifs <;> (try split) <;>
    first
    | exact ⟨hmean, hm, Real.sqrt_nonneg _, hvar, le_refl _⟩
    | exact ⟨hm, ho, hsd, hv, by simp only []; omega⟩

/-- **operable_eddm** (ℝ; every configuration; every history with resets; EVERY value — the value is only
compared with `1`): the six guarded setters never fire, and the distance is never negative. -/
theorem operable_eddm (c : EDDM.Cfg ℝ) (ops : List (Op ℝ)) : EDDMGuards ((EDDM.machine c).run ops) :=
  runFrom_inv (EDDM.machine c) EDDMGuards (fun _ => True) (fun s v h _ => EDDMGuards_step c s v h)
    (fun s _ => by simp [EDDM.machine, EDDM.reset, EDDMGuards]) ops _
    (by simp [EDDM.machine, EDDM.init, EDDMGuards]) (fun _ _ => trivial)

example (c : EDDM.Cfg ℝ) : EDDMGuards ((EDDM.machine c).run [.update 1, .update 0, .update 1, .reset, .update 1]) :=
  operable_eddm c _

/- UNPROVED (full statement): the same guard invariant for RDDM, whose `min_error_rate` / `min_std` setters
are also reached from the replay loop `_rdd_drift_case` (rddm.py:317):
  theorem operable_rddm_guards (c : RDDM.Cfg ℝ) (ops : List (Op ℝ)) (hdom : ∀ v, Op.update v ∈ ops → 0 ≤ v ∧ v ≤ 1) :
      let s := (RDDM.machine c).run ops
      0 ≤ s.er.mean ∧ s.er.mean ≤ 1 ∧ ∀ p sd, s.minPS = some (p, sd) → 0 ≤ p ∧ 0 ≤ sd
It needs the extra invariant "every value stored in `preds` lies in `[0,1]`" through `CQ.enqueue / keepLast`
and an induction over `RDDM.replay`; not attempted in the time box (queue-site operability of RDDM is
`C19b.operable_rddm*`). -/

/-! ### ECDD-WT, HDDM-A, HDDM-W, CUSUM / Page-Hinkley / GMA, BOCD: no reachable `raise` on the update path

The audit (REPORT.md) finds no explicit `raise` reachable from `update` and only these Python-level
(exception-capable) arithmetic sites; each is registered here with the fact that disarms it. -/

/-- ECDD-WT (any carrier): in every reachable state the EWMA still carries the configured `lambda_` and
`1 - lambda_` (so the base of the Python power `one_minus_alpha ** (2 * num_instances)`, ecdd.py:172, is
the constant `1 - lambda_`) -/
theorem operable_ecdd_inv {α : Type} [Num α] (c : ECDD.Cfg α) {s : ECDD.State α}
    (h : (ECDD.machine c).Reachable s) : s.z.alpha = c.lam ∧ s.z.oneMinus = Num.one - c.lam := by
  refine Machine.invariant (ECDD.machine c) (P := fun s => s.z.alpha = c.lam ∧ s.z.oneMinus = Num.one - c.lam)
    ?_ ?_ ?_ h
  · exact ⟨rfl, rfl⟩
  · intro s v hs
    simp only [ECDD.machine, ECDD.step]
    repeat' split
    all_goals exact hs
  · intro s _
    exact ⟨rfl, rfl⟩

/-- **operable_ecdd** (ℝ, accepted configuration, every reachable state): the power's base lies in `[0,1]`
and its exponent `2·n` is a positive integer — neither `OverflowError` nor `0.0 ** negative`; the
constructor's `lambda_ / (2 - lambda_)` has a non-zero divisor; `Mean.update` divides by `n + 1 ≥ 1`. -/
theorem operable_ecdd (c : ECDD.Cfg ℝ) (hacc : Config.ecdd c.lam c.warn (c.arl : Int) (c.minN : Int) = none)
    {s : ECDD.State ℝ} (h : (ECDD.machine c).Reachable s) :
    (0 ≤ s.z.oneMinus ∧ s.z.oneMinus ≤ 1) ∧ (Num.two - c.lam : ℝ) ≠ 0 ∧ (Num.ofNat (s.p.n + 1) : ℝ) ≠ 0 := by
  obtain ⟨-, -, ⟨h0, h1⟩, -⟩ := (C19.ecdd_none_iff _ _ _ _).mp hacc
  obtain ⟨-, hone⟩ := operable_ecdd_inv c h
  refine ⟨?_, C19b.operable_divisors_ecdd_of_accepted c hacc, ?_⟩
  · rw [hone, RealNum.one_eq]; constructor <;> linarith
  · rw [RealNum.ofNat_eq]; positivity

/-- **operable_hddma** (accepted configuration; ANY state, any value): `1 / alpha_d`, `1 / alpha_w` have
non-zero divisors, and the three sample counts the Python-level integer division
`m / (2 * n_cut * n_z)` (hddm.py:223, :302) and `… / (2 * n)` use are `≥ 1` after the first lines of the step. -/
theorem operable_hddma (c : HDDMA.Cfg ℝ) (hacc : Config.hddma c.alphaD c.alphaW (c.minN : Int) = none)
    (s : HDDMA.State ℝ) (v : ℝ) :
    (c.alphaD ≠ 0 ∧ c.alphaW ≠ 0) ∧
    (let z := s.t.z.update v
     let x := if s.t.x.n == 0 then z else s.t.x
     let y := if c.twoSided && s.t.y.n == 0 then z else s.t.y
     1 ≤ z.n ∧ 1 ≤ x.n ∧ (c.twoSided = true → 1 ≤ y.n)) :=
  ⟨C19b.operable_divisors_hddma_of_accepted c hacc, C19b.hddma_counts_pos c s v⟩

/-- **operable_hddmw** (accepted configuration): the only Python-level divisions are `1 / lambda_`,
`1 / alpha_d`, `1 / alpha_w` (hddm.py:566) — divisors non-zero -/
theorem operable_hddmw (c : HDDMW.Cfg ℝ) (hacc : Config.hddmw c.alphaD c.alphaW c.lam (c.minN : Int) = none) :
    c.lam ≠ 0 ∧ c.alphaD ≠ 0 ∧ c.alphaW ≠ 0 :=
  C19b.operable_divisors_hddmw_of_accepted c hacc

/-- **operable_cusum** (CUSUM, Page-Hinkley, GMA; every configuration, any state, any value): the update path
is `+ - *`, `np.maximum` and comparisons; the one division is `Mean.update`'s, by the incremented count -/
theorem operable_cusum (c : CUSUMFam.Cfg ℝ) (s : CUSUMFam.State ℝ) (v : ℝ) :
    (CUSUMFam.step c s v).mean.n = s.mean.n + 1 ∧ (Num.ofNat (s.mean.n + 1) : ℝ) ≠ 0 := by
  refine ⟨rfl, ?_⟩
  rw [RealNum.ofNat_eq]; positivity

/-- **operable_bocd** (accepted `GaussianUnknownMean`): the Python-level divisions `value / data_var`,
`1 / data_var` (bocd.py:114-117) and the constructor's `1 / prior_var` have non-zero divisors; everything
else on the update path is NumPy array arithmetic (inf / nan, no exception). -/
theorem operable_bocd (c : BOCD.Cfg ℝ) (hacc : Config.gaussian c.priorVar c.dataVar = none) :
    c.dataVar ≠ 0 ∧ c.priorVar ≠ 0 := by
  obtain ⟨hp, hd⟩ := (C19.gaussian_none_iff _ _).mp hacc
  exact ⟨ne_of_gt hd, hp⟩

example : Config.ecdd (2 / 10 : ℝ) (1 / 2) ((400 : Nat) : Int) ((30 : Nat) : Int) = none := by
  rw [C19.ecdd_none_iff]; norm_num
example : Config.gaussian (1 : ℝ) 1 = none := by rw [C19.gaussian_none_iff]; norm_num
end Operable

end Frouros.C20b

#print axioms Frouros.C20b.seaSample_frame
#print axioms Frouros.C20b.seaSample_label
#print axioms Frouros.C20b.seaSample_isSome
#print axioms Frouros.C20b.seaSample_isSome_clean
#print axioms Frouros.C20b.seaSample_none_iff
#print axioms Frouros.C20b.seaPulls_cons_some
#print axioms Frouros.C20b.seaGen_eq_pulls
#print axioms Frouros.C20b.seaPulls_frame
#print axioms Frouros.C20b.seaPulls_isSome
#print axioms Frouros.C20b.seaPulls_isSome_clean
#print axioms Frouros.C20b.seaPulls_get
#print axioms Frouros.C20b.seaPulls_append
#print axioms Frouros.C20b.seaGenerate_error_iff
#print axioms Frouros.C20b.seaGenerate_ok_iff
#print axioms Frouros.C20b.seaDataset_eq
#print axioms Frouros.C20b.sea_count
#print axioms Frouros.C20b.sea_count_of_ok
#print axioms Frouros.C20b.sea_range
#print axioms Frouros.C20b.sea_range_real
#print axioms Frouros.C20b.sea_equal_seeds
#print axioms Frouros.C20b.sea_same_tape
#print axioms Frouros.C20b.sea_labels_clean
#print axioms Frouros.C20b.sea_labels
#print axioms Frouros.C20b.sea_labels_blocks
#print axioms Frouros.C20b.sea_count_real
#print axioms Frouros.C20b.seaNext_stop
#print axioms Frouros.C20b.seaNext_live
#print axioms Frouros.C20b.seaDrain_eq_gen
#print axioms Frouros.C20b.sea_interleave
#print axioms Frouros.C20b.dummySample_frame
#print axioms Frouros.C20b.dummySample_isSome
#print axioms Frouros.C20b.dummySample_none_iff
#print axioms Frouros.C20b.dummyPulls_cons_some
#print axioms Frouros.C20b.dummyGen_eq_pulls
#print axioms Frouros.C20b.dummyPulls_frame
#print axioms Frouros.C20b.dummyPulls_isSome
#print axioms Frouros.C20b.dummyPulls_get
#print axioms Frouros.C20b.dummyGenerate_error_iff
#print axioms Frouros.C20b.dummyGenerate_ok_iff
#print axioms Frouros.C20b.dummyDataset_eq
#print axioms Frouros.C20b.dummy_count
#print axioms Frouros.C20b.dummy_range
#print axioms Frouros.C20b.dummy_equal_seeds
#print axioms Frouros.C20b.dummy_label_bridge
#print axioms Frouros.C20b.dummy_labels
#print axioms Frouros.C20b.dummy_range_real
#print axioms Frouros.C20b.accepts_iff_stated_ddm
#print axioms Frouros.C20b.accepts_iff_stated_rddm
#print axioms Frouros.C20b.accepts_iff_stated_eddm
#print axioms Frouros.C20b.accepts_iff_stated_hddma
#print axioms Frouros.C20b.accepts_iff_stated_hddmw
#print axioms Frouros.C20b.accepts_iff_stated_ecdd
#print axioms Frouros.C20b.accepts_iff_stated_adwin
#print axioms Frouros.C20b.accepts_iff_stated_kswin
#print axioms Frouros.C20b.accepts_iff_stated_stepd
#print axioms Frouros.C20b.accepts_iff_stated_cusum
#print axioms Frouros.C20b.accepts_iff_stated_pageHinkley
#print axioms Frouros.C20b.accepts_iff_stated_gma
#print axioms Frouros.C20b.accepts_iff_stated_gaussian_partial
#print axioms Frouros.C20b.accepts_iff_stated_gaussian_witness
#print axioms Frouros.C20b.accepts_iff_stated_permutation
#print axioms Frouros.C20b.accepts_iff_stated_resetCallback
#print axioms Frouros.C20b.accepts_iff_stated_chunkSize
#print axioms Frouros.C20b.accepts_iff_stated_positiveInt
#print axioms Frouros.C20b.accepts_iff_stated_prequential
#print axioms Frouros.C20b.accepts_iff_any_ddm
#print axioms Frouros.C20b.accepts_iff_any_rddm
#print axioms Frouros.C20b.accepts_iff_any_eddm
#print axioms Frouros.C20b.accepts_iff_any_hddma
#print axioms Frouros.C20b.accepts_iff_any_hddmw
#print axioms Frouros.C20b.accepts_iff_any_ecdd
#print axioms Frouros.C20b.accepts_iff_any_adwin
#print axioms Frouros.C20b.accepts_iff_any_kswin
#print axioms Frouros.C20b.accepts_iff_any_stepd
#print axioms Frouros.C20b.accepts_iff_any_cusum
#print axioms Frouros.C20b.accepts_iff_any_pageHinkley
#print axioms Frouros.C20b.accepts_iff_any_gma
#print axioms Frouros.C20b.accepts_iff_any_gaussian
#print axioms Frouros.C20b.accepts_iff_any_resetCallback
#print axioms Frouros.C20b.accepts_iff_any_prequential
#print axioms Frouros.C20b.nan_rejected_ddm
#print axioms Frouros.C20b.nan_rejected_rddm
#print axioms Frouros.C20b.nan_rejected_eddm
#print axioms Frouros.C20b.nan_rejected_hddmw
#print axioms Frouros.C20b.nan_rejected_hddma
#print axioms Frouros.C20b.nan_rejected_ecdd
#print axioms Frouros.C20b.nan_rejected_adwin
#print axioms Frouros.C20b.nan_rejected_kswin
#print axioms Frouros.C20b.nan_rejected_stepd
#print axioms Frouros.C20b.nan_rejected_cusum
#print axioms Frouros.C20b.nan_rejected_pageHinkley
#print axioms Frouros.C20b.nan_rejected_gma
#print axioms Frouros.C20b.nan_rejected_gaussian_dataVar
#print axioms Frouros.C20b.nan_rejected_resetCallback
#print axioms Frouros.C20b.nan_rejected_prequential
#print axioms Frouros.C20b.nan_accepted_eddm_alpha_witness
#print axioms Frouros.C20b.nan_accepted_gaussian_priorVar_witness
#print axioms Frouros.C20b.saveload_transparent_from
#print axioms Frouros.C20b.saveload_transparent
#print axioms Frouros.C20b.saveload_transparent_witness
#print axioms Frouros.C20b.continuation_of_equal_obs
#print axioms Frouros.C20b.saveFS_refines
#print axioms Frouros.C20b.saveFS_rejected_untouched
#print axioms Frouros.C20b.saveFS_done
#print axioms Frouros.C20b.saveFS_pickleError_witness
#print axioms Frouros.C20b.runFrom_inv
#print axioms Frouros.C20b.mean_update_unit
#print axioms Frouros.C20b.ddm_step_er
#print axioms Frouros.C20b.ddm_step_minPS
#print axioms Frouros.C20b.DDMGuards_step
#print axioms Frouros.C20b.operable_ddm
#print axioms Frouros.C20b.EDDMGuards_step
#print axioms Frouros.C20b.operable_eddm
#print axioms Frouros.C20b.operable_ecdd_inv
#print axioms Frouros.C20b.operable_ecdd
#print axioms Frouros.C20b.operable_hddma
#print axioms Frouros.C20b.operable_hddmw
#print axioms Frouros.C20b.operable_cusum
#print axioms Frouros.C20b.operable_bocd
