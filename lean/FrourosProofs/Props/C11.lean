/-
  C11 — two-sample Kolmogorov–Smirnov: statistic and exact p-value; incremental = batch.

  Chain for the exact null distribution (all over `Nat`, no carrier involved):
    `paths_enumerate`  : `paths i j` lists every interleaving exactly once, `C(i+j, i)` of them
    `inside_dp`        : `pathsInside ok i j` = number of interleavings all of whose prefixes satisfy `ok`
    `dp_eq_spec`       : the row-by-row DP the driver runs (`dpCount`) = `pathsInside`
    `choose'_eq`       : the multiplicative loop in `pExactFrac` = `Nat.choose`
    `p_exact`, `p_exact_dist` : `pExactFrac n m h = (#{interleavings with KS lattice distance ≥ h}, C(n+m, n))`
  Arbitrary carrier (hence IEEE doubles):
    `hTwoSided_perm`, `pTwoSided_perm`, `incr_eq_batch` : `h` and the p-value depend only on the multisets
    `statistic_perm_partial` (+ `statistic_perm_witness`) : `statistic` needs `lt` to be a strict total order
  Carrier `ℝ`:
    `stat_eq_sup`, `stat_eq_iSup`, `stat_eq_lattice` : `statistic = sup_z |F_ref z − F_test z| = h / lcm`
    `hTwoSided_eq_pathH`, `p_exact_sample` : for tie-free samples the observed `h` is the KS distance of the sample's
      own interleaving, so the reported fraction is the exact permutation p-value.
-/
import Mathlib.Data.Nat.Choose.Basic
import Mathlib.Data.List.Perm.Basic
import Mathlib.Data.List.Nodup
import Mathlib.Data.List.Infix
import Mathlib.Tactic.Ring
import Mathlib.Tactic.Linarith
import FrourosModel.KS
import FrourosModel.Hist
import FrourosProofs.RealNum

namespace Frouros.C11
open Frouros Frouros.KS

/-! ## 2. Enumeration of interleavings -/

/-- all interleavings with `i` steps `true` (an observation of the reference sample) and `j` steps `false`
(an observation of the test sample); defined by the LAST step -/
def paths : Nat → Nat → List (List Bool)
  | 0, 0 => [[]]
  | i + 1, 0 => (paths i 0).map (· ++ [true])
  | 0, j + 1 => (paths 0 j).map (· ++ [false])
  | i + 1, j + 1 => (paths i (j + 1)).map (· ++ [true]) ++ (paths (i + 1) j).map (· ++ [false])

theorem paths_length (i j : Nat) : (paths i j).length = Nat.choose (i + j) i := by
  fun_induction paths i j with
  | case1 => simp
  | case2 i ih => simp [ih]
  | case3 j ih => simp [ih]
  | case4 i j ih1 ih2 =>
    simp only [List.length_append, List.length_map, ih1, ih2]
    have : i + 1 + (j + 1) = (i + j + 1) + 1 := by omega
    rw [this, Nat.choose_succ_succ]
    have h1 : i + (j + 1) = i + j + 1 := by omega
    have h2 : i + 1 + j = i + j + 1 := by omega
    rw [h1, h2]

theorem count_of_mem_paths {i j : Nat} {p : List Bool} (h : p ∈ paths i j) :
    p.count true = i ∧ p.count false = j := by
  fun_induction paths i j generalizing p with
  | case1 => simp at h; subst h; simp
  | case2 i ih =>
    simp only [List.mem_map] at h
    obtain ⟨q, hq, rfl⟩ := h
    have := ih hq
    simp [List.count_append, this]
  | case3 j ih =>
    simp only [List.mem_map] at h
    obtain ⟨q, hq, rfl⟩ := h
    have := ih hq
    simp [List.count_append, this]
  | case4 i j ih1 ih2 =>
    simp only [List.mem_append, List.mem_map] at h
    rcases h with ⟨q, hq, rfl⟩ | ⟨q, hq, rfl⟩
    · have := ih1 hq
      simp [List.count_append, this]
    · have := ih2 hq
      simp [List.count_append, this]

theorem mem_paths_of_count (p : List Bool) : ∀ i j, p.count true = i → p.count false = j → p ∈ paths i j := by
  induction p using List.reverseRecOn with
  | nil => intro i j hi hj; simp at hi hj; subst hi hj; simp [paths]
  | append_singleton q b ih =>
    intro i j hi hj
    cases b with
    | true =>
      simp [List.count_append] at hi hj
      cases i with
      | zero => omega
      | succ i =>
        have hq := ih i j (by omega) hj
        cases j with
        | zero => simp only [paths, List.mem_map]; exact ⟨q, hq, rfl⟩
        | succ j => simp only [paths, List.mem_append, List.mem_map]; exact Or.inl ⟨q, hq, rfl⟩
    | false =>
      simp [List.count_append] at hi hj
      cases j with
      | zero => omega
      | succ j =>
        have hq := ih i j hi (by omega)
        cases i with
        | zero => simp only [paths, List.mem_map]; exact ⟨q, hq, rfl⟩
        | succ i => simp only [paths, List.mem_append, List.mem_map]; exact Or.inr ⟨q, hq, rfl⟩

theorem mem_paths_iff (i j : Nat) (p : List Bool) :
    p ∈ paths i j ↔ p.count true = i ∧ p.count false = j :=
  ⟨count_of_mem_paths, fun h => mem_paths_of_count p i j h.1 h.2⟩

theorem append_singleton_injective (b : Bool) : Function.Injective (fun p : List Bool => p ++ [b]) := by
  intro p q h
  exact List.append_cancel_right h

theorem paths_nodup (i j : Nat) : (paths i j).Nodup := by
  fun_induction paths i j with
  | case1 => simp
  | case2 i ih => exact ih.map (append_singleton_injective true)
  | case3 j ih => exact ih.map (append_singleton_injective false)
  | case4 i j ih1 ih2 =>
    rw [List.nodup_append]
    refine ⟨ih1.map (append_singleton_injective true), ih2.map (append_singleton_injective false), ?_⟩
    intro a ha b hb hab
    simp only [List.mem_map] at ha hb
    obtain ⟨p, _, rfl⟩ := ha
    obtain ⟨q, _, rfl⟩ := hb
    have := List.append_inj_right' hab rfl
    simp at this

/-- **C11 item 2.**  `paths i j` enumerates, without repetition, exactly the Boolean words with `i` letters `true` and
`j` letters `false`; there are `C(i+j, i)` of them. -/
theorem paths_enumerate (i j : Nat) :
    (paths i j).length = Nat.choose (i + j) i ∧ (paths i j).Nodup ∧
    ∀ p, p ∈ paths i j ↔ p.count true = i ∧ p.count false = j :=
  ⟨paths_length i j, paths_nodup i j, mem_paths_iff i j⟩

example : paths 2 1 = [[false, true, true], [true, false, true], [true, true, false]] := by
  simp [paths]

/-! ## 3. The recursive specification counts the paths that stay inside -/

/-- every prefix of `p` (including `[]` and `p` itself) ends in a point satisfying `ok` -/
def StaysInside (ok : Nat → Nat → Bool) (p : List Bool) : Prop :=
  ∀ q, q <+: p → ok (q.count true) (q.count false) = true

/-- Boolean (executable) form of `StaysInside` -/
def staysInside (ok : Nat → Nat → Bool) (p : List Bool) : Bool :=
  p.inits.all (fun q => ok (q.count true) (q.count false))

theorem staysInside_iff (ok : Nat → Nat → Bool) (p : List Bool) : staysInside ok p = true ↔ StaysInside ok p := by
  simp [staysInside, StaysInside, List.all_eq_true, List.mem_inits]

instance (ok : Nat → Nat → Bool) (p : List Bool) : Decidable (StaysInside ok p) :=
  decidable_of_iff _ (staysInside_iff ok p)

theorem staysInside_nil (ok : Nat → Nat → Bool) : staysInside ok [] = ok 0 0 := by
  simp [staysInside]

theorem staysInside_concat (ok : Nat → Nat → Bool) (p : List Bool) (b : Bool) :
    staysInside ok (p ++ [b]) =
      (staysInside ok p && ok ((p ++ [b]).count true) ((p ++ [b]).count false)) := by
  simp [staysInside, List.inits_append, List.all_append]

/-- **C11 item 3.**  For an ARBITRARY predicate `ok` on lattice points, the recursive specification `pathsInside ok i j`
is the number of interleavings in `paths i j` all of whose prefixes — including `[]` (the origin) and the path itself
(the end point `(i, j)`) — end in a point satisfying `ok` (`staysInside_iff` gives the `Prop` reading). -/
theorem inside_dp (ok : Nat → Nat → Bool) (i j : Nat) :
    pathsInside ok i j = ((paths i j).filter (staysInside ok)).length := by
  rw [← List.countP_eq_length_filter]
  have key : ∀ (b : Bool) (i' j' i j : Nat), (∀ p ∈ paths i' j', (p ++ [b]).count true = i ∧ (p ++ [b]).count false = j) →
      List.countP (staysInside ok) ((paths i' j').map (· ++ [b])) =
        if ok i j then List.countP (staysInside ok) (paths i' j') else 0 := by
    intro b i' j' i j hc
    rw [List.countP_map]
    by_cases hok : ok i j = true
    · rw [if_pos hok]
      apply List.countP_congr
      intro p hp
      simp only [Function.comp, staysInside_concat, (hc p hp).1, (hc p hp).2, hok, Bool.and_true]
    · rw [if_neg hok]
      rw [List.countP_eq_zero]
      intro p hp
      simp only [Function.comp, staysInside_concat, (hc p hp).1, (hc p hp).2, hok, Bool.and_false]
      simp
  have ct : ∀ i' j' p, p ∈ paths i' j' → (p ++ [true]).count true = i' + 1 ∧ (p ++ [true]).count false = j' := by
    intro i' j' p hp
    have := count_of_mem_paths hp
    simp [List.count_append, this]
  have cf : ∀ i' j' p, p ∈ paths i' j' → (p ++ [false]).count true = i' ∧ (p ++ [false]).count false = j' + 1 := by
    intro i' j' p hp
    have := count_of_mem_paths hp
    simp [List.count_append, this]
  fun_induction paths i j with
  | case1 => simp [pathsInside, staysInside_nil]
  | case2 i ih => rw [pathsInside, key true i 0 (i + 1) 0 (ct i 0), ← ih]
  | case3 j ih => rw [pathsInside, key false 0 j 0 (j + 1) (cf 0 j), ← ih]
  | case4 i j ih1 ih2 =>
    rw [pathsInside, List.countP_append, key true i (j + 1) (i + 1) (j + 1) (ct i (j + 1)),
      key false (i + 1) j (i + 1) (j + 1) (cf (i + 1) j), ← ih1, ← ih2]
    split <;> rfl

example : pathsInside (inside 2 2 2) 2 2 = 4 := by simp [pathsInside, inside]
example : ((paths 2 2).filter (staysInside (inside 2 2 2))).length = 4 := by rw [← inside_dp]; simp [pathsInside, inside]

/-! ## 4. The row-by-row dynamic programme equals the recursive specification -/

/-- the local `step` of `dpRow`, named -/
def dpStep (ok : Nat → Nat → Bool) (i : Nat) (prev : Option (List Nat)) (acc : List Nat × Nat) (j : Nat) :
    List Nat × Nat :=
  let up := match prev with
    | none => if j == 0 then 1 else 0
    | some p => p.getD j 0
  let left := if j == 0 then 0 else acc.2
  let v := if ok i j then up + left else 0
  (v :: acc.1, v)

theorem dpRow_eq (ok : Nat → Nat → Bool) (i m : Nat) (prev : Option (List Nat)) :
    dpRow ok i m prev = ((List.range (m + 1)).foldl (dpStep ok i prev) ([], 0)).1.reverse := rfl

/-- `lastVal f k` = value of the cell left of column `k` (0 for `k = 0`) -/
def lastVal (f : Nat → Nat) : Nat → Nat
  | 0 => 0
  | k + 1 => f k

/-- generic loop invariant of one DP row: if `dpStep` computes `f j` from `f (j-1)` at every column `j < K`,
the accumulator after `k ≤ K` columns is `(f (k-1) :: … :: f 0, f (k-1))` -/
theorem dpRow_fold (ok : Nat → Nat → Bool) (i : Nat) (prev : Option (List Nat)) (f : Nat → Nat) (K : Nat)
    (hstep : ∀ j, j < K → ∀ l, (dpStep ok i prev (l, lastVal f j) j) = (f j :: l, f j)) :
    ∀ k, k ≤ K → (List.range k).foldl (dpStep ok i prev) ([], 0) = (((List.range k).map f).reverse, lastVal f k) := by
  intro k
  induction k with
  | zero => intro _; rfl
  | succ k ih =>
    intro hk
    rw [List.range_succ, List.foldl_append, ih (by omega)]
    simp only [List.foldl_cons, List.foldl_nil, hstep k (by omega), List.map_append, List.map_cons, List.map_nil,
      List.reverse_append, List.reverse_cons, List.reverse_nil, List.nil_append, List.cons_append]
    rfl

theorem dpRow_zero (ok : Nat → Nat → Bool) (m : Nat) :
    dpRow ok 0 m none = (List.range (m + 1)).map (pathsInside ok 0) := by
  rw [dpRow_eq, dpRow_fold ok 0 none (pathsInside ok 0) (m + 1) ?_ (m + 1) le_rfl]
  · simp
  · intro j _ l
    cases j with
    | zero => simp [dpStep, pathsInside]
    | succ j => simp [dpStep, pathsInside, lastVal]

theorem dpRow_succ (ok : Nat → Nat → Bool) (i m : Nat) :
    dpRow ok (i + 1) m (some ((List.range (m + 1)).map (pathsInside ok i))) =
      (List.range (m + 1)).map (pathsInside ok (i + 1)) := by
  rw [dpRow_eq, dpRow_fold ok (i + 1) _ (pathsInside ok (i + 1)) (m + 1) ?_ (m + 1) le_rfl]
  · simp
  · intro j hj l
    have hget : ((List.range (m + 1)).map (pathsInside ok i)).getD j 0 = pathsInside ok i j := by
      simp [List.getD_eq_getElem?_getD, hj]
    cases j with
    | zero => simp only [dpStep, hget]; simp [pathsInside]
    | succ j => simp only [dpStep, hget]; simp [pathsInside, lastVal]

/-- invariant of the outer loop: after processing row `i` the row list is `pathsInside ok i 0 … pathsInside ok i m` -/
theorem dp_rows (ok : Nat → Nat → Bool) (m n : Nat) :
    (List.range n).foldl (fun prev i => dpRow ok (i + 1) m (some prev)) (dpRow ok 0 m none) =
      (List.range (m + 1)).map (pathsInside ok n) := by
  induction n with
  | zero => simp [dpRow_zero]
  | succ n ih => rw [List.range_succ, List.foldl_append, ih]; simp [dpRow_succ]

/-- **C11 item 4.**  The dynamic programme the driver runs equals the recursive specification, for every predicate `ok`
and all `n m`.  (No hypothesis: the `getD … 0` defaults in `dpRow`/`dpCount` are never hit — every index read is
`≤ m` in a row of length `m + 1`, which is what `dpRow_zero`/`dpRow_succ`/`dp_rows` establish.) -/
theorem dp_eq_spec (ok : Nat → Nat → Bool) (n m : Nat) : dpCount ok n m = pathsInside ok n m := by
  unfold dpCount
  simp only [dp_rows]
  simp [List.getD_eq_getElem?_getD]

example : dpCount (inside 3 2 6) 3 2 = 8 := by rw [dp_eq_spec]; simp [pathsInside, inside]

/-! ## 5. The exact p-value fraction -/

/-- the loop `Nat.choose'` of `pExactFrac` as a fold -/
theorem choose'_eq_foldl (a b : Nat) :
    pExactFrac.Nat.choose' a b = (List.range b).foldl (fun r k => r * (a - k) / (k + 1)) 1 := by
  unfold pExactFrac.Nat.choose'
  simp [Std.Legacy.Range.forIn_eq_forIn_range', Std.Legacy.Range.size, List.range_eq_range']

/-- the multiplicative loop computes the binomial coefficient (every division is exact).  The statement is true for all
`a b`; in `pExactFrac` it is used with `b = n ≤ n + m = a`, where `a - k` never truncates (`k < b ≤ a`). -/
theorem choose'_eq (a b : Nat) : pExactFrac.Nat.choose' a b = Nat.choose a b := by
  rw [choose'_eq_foldl]
  induction b with
  | zero => simp
  | succ b ih =>
    rw [List.range_succ, List.foldl_append, ih]
    simp only [List.foldl_cons, List.foldl_nil]
    apply Nat.div_eq_of_eq_mul_left (Nat.succ_pos b)
    exact (Nat.choose_succ_right_eq a b).symm

/-- absolute lattice deviation `|i·(m/g) − j·(n/g)|` of the lattice point `(i, j)`; dividing by `lcm n m` gives
`|i/n − j/m|`, the distance between the two empirical CDFs after `i` reference and `j` test observations -/
def latDev (n m i j : Nat) : Nat :=
  ((i * (m / Nat.gcd n m) : Int) - (j * (n / Nat.gcd n m) : Int)).natAbs

theorem inside_eq (n m h i j : Nat) : inside n m h i j = decide (latDev n m i j < h) := rfl

/-- some prefix of the path `p` reaches a lattice point with `|i·(m/g) − j·(n/g)| ≥ h` -/
def Exits (n m h : Nat) (p : List Bool) : Prop :=
  ∃ q, q <+: p ∧ h ≤ latDev n m (q.count true) (q.count false)

/-- Boolean form of `Exits` -/
def exits (n m h : Nat) (p : List Bool) : Bool :=
  p.inits.any (fun q => decide (h ≤ latDev n m (q.count true) (q.count false)))

theorem exits_iff (n m h : Nat) (p : List Bool) : exits n m h p = true ↔ Exits n m h p := by
  simp [exits, Exits, List.any_eq_true, List.mem_inits]

instance (n m h : Nat) (p : List Bool) : Decidable (Exits n m h p) := decidable_of_iff _ (exits_iff n m h p)

theorem exits_eq_not_staysInside (n m h : Nat) (p : List Bool) :
    exits n m h p = !(staysInside (inside n m h) p) := by
  simp only [exits, staysInside, List.not_all_eq_any_not, inside_eq]
  congr 1
  funext q
  rw [← decide_not]
  exact decide_eq_decide.mpr Nat.not_lt.symm

/-- number of interleavings that stay strictly inside the band, as computed by the DP -/
theorem dpCount_inside (n m h : Nat) :
    dpCount (inside n m h) n m = ((paths n m).filter (fun p => !(exits n m h p))).length := by
  rw [dp_eq_spec, inside_dp]
  congr 2
  funext p
  simp [exits_eq_not_staysInside]

/-- **C11 main theorem.**  The reported fraction is (number of interleavings of `n` reference and `m` test observations
that reach a lattice point with `|i·(m/g) − j·(n/g)| ≥ h`, total number `C(n+m, n)` of interleavings).
No hypotheses.  The natural-number subtraction `total - dpCount …` in `pExactFrac` never truncates: the proof shows
`total = #exiting + #inside` and `dpCount … = #inside`. -/
theorem p_exact (n m h : Nat) :
    pExactFrac n m h = (((paths n m).filter (exits n m h)).length, Nat.choose (n + m) n) := by
  unfold pExactFrac
  simp only [choose'_eq, dpCount_inside]
  congr 1
  have h1 := List.length_eq_countP_add_countP (exits n m h) (l := paths n m)
  rw [paths_length] at h1
  rw [← List.countP_eq_length_filter, ← List.countP_eq_length_filter]
  have h2 : List.countP (fun p => !(exits n m h p)) (paths n m) = List.countP (fun a => ¬exits n m h a = true) (paths n m) := by
    apply List.countP_congr; intro p _; simp
  omega

example : pExactFrac 3 2 6 = (2, 10) := by
  rw [p_exact]; simp [paths, exits, latDev, Nat.choose]

/-- the same statement with `Prop`-valued predicate and `Finset`-free counting via `countP` -/
theorem p_exact_countP (n m h : Nat) :
    (pExactFrac n m h).1 = (paths n m).countP (fun p => decide (Exits n m h p)) ∧
    (pExactFrac n m h).2 = (paths n m).length := by
  rw [p_exact, paths_length, List.countP_eq_length_filter]
  refine ⟨?_, rfl⟩
  simp only
  congr 2
  funext p
  simp [← exits_iff]

/-! ### Reading of the fraction: the KS distance of a path, sanity corollaries -/

/-- lattice KS distance of an interleaving: `max` over all prefixes of `|i·(m/g) − j·(n/g)|`
(`= lcm · max_k |i_k/n − j_k/m|`, the two-sample KS distance of the interleaving) -/
def pathH (n m : Nat) (p : List Bool) : Nat :=
  (p.inits.map (fun q => latDev n m (q.count true) (q.count false))).foldl max 0

theorem le_foldl_max_iff (l : List Nat) (a h : Nat) : h ≤ l.foldl max a ↔ h ≤ a ∨ ∃ x ∈ l, h ≤ x := by
  induction l generalizing a with
  | nil => simp
  | cons y ys ih =>
    rw [List.foldl_cons, ih]
    simp only [List.mem_cons, exists_eq_or_imp, le_max_iff]
    tauto

theorem latDev_zero (n m : Nat) : latDev n m 0 0 = 0 := by simp [latDev]

/-- a path leaves the band of half-width `h` iff its KS lattice distance is at least `h` -/
theorem exits_iff_le_pathH (n m h : Nat) (p : List Bool) : Exits n m h p ↔ h ≤ pathH n m p := by
  unfold pathH Exits
  rw [le_foldl_max_iff]
  simp only [List.mem_map, List.mem_inits, exists_exists_and_eq_and]
  constructor
  · rintro ⟨q, hq, hh⟩; exact Or.inr ⟨q, hq, hh⟩
  · rintro (h0 | ⟨q, hq, hh⟩)
    · exact ⟨[], List.nil_prefix, by omega⟩
    · exact ⟨q, hq, hh⟩

/-- **C11 main theorem, distance form.**  `pExactFrac n m h = (#{interleavings with lattice KS distance ≥ h}, C(n+m,n))`:
the reported fraction is exactly the proportion of the `C(n+m, n)` interleavings whose KS distance `D = pathH / lcm`
satisfies `D ≥ h / lcm`. -/
theorem p_exact_dist (n m h : Nat) :
    pExactFrac n m h =
      ((paths n m).countP (fun p => decide (h ≤ pathH n m p)), (paths n m).length) := by
  rw [p_exact, paths_length, List.countP_eq_length_filter]
  congr 3
  funext p
  rw [Bool.eq_iff_iff, exits_iff, decide_eq_true_iff]
  exact exits_iff_le_pathH n m h p

theorem pExactFrac_num_le_den (n m h : Nat) : (pExactFrac n m h).1 ≤ (pExactFrac n m h).2 := by
  rw [p_exact_dist]; exact List.countP_le_length

theorem pExactFrac_den_pos (n m h : Nat) : 0 < (pExactFrac n m h).2 := by
  rw [p_exact]; exact Nat.choose_pos (Nat.le_add_right n m)

/-- `h = 0`: every interleaving counts, the fraction is 1 (`pExactFloat` returns `1.0` directly in this case) -/
theorem pExactFrac_zero (n m : Nat) : (pExactFrac n m 0).1 = (pExactFrac n m 0).2 := by
  rw [p_exact_dist]
  simp

/-- the numerator is antitone in `h` (a larger observed distance never gives a larger p-value) -/
theorem pExactFrac_antitone (n m : Nat) {h h' : Nat} (hh : h ≤ h') : (pExactFrac n m h').1 ≤ (pExactFrac n m h).1 := by
  rw [p_exact_dist, p_exact_dist]
  apply List.countP_mono_left
  intro p _ hp
  simp only [decide_eq_true_iff] at hp ⊢
  omega

/-! ## 6. `hTwoSided`, the p-value and `statistic` depend only on the multisets (arbitrary carrier) -/

section Perm
variable {α : Type} [Num α]

theorem countLe_perm {l l' : List α} (h : l.Perm l') (z : α) : countLe l z = countLe l' z := by
  unfold countLe
  exact (h.filter _).length_eq

theorem devs_perm {ref ref' test test' : List α} (hr : ref.Perm ref') (ht : test.Perm test') :
    (devs ref test).Perm (devs ref' test') := by
  unfold devs
  simp only [hr.length_eq, ht.length_eq]
  simp only [countLe_perm hr, countLe_perm ht]
  exact (hr.append ht).map _

instance maxNatAbs_rightComm : RightCommutative (fun (acc : Nat) (d : Int) => max acc d.natAbs) :=
  ⟨fun a x y => by simp only [max_assoc, max_comm x.natAbs]⟩
instance maxToNat_rightComm : RightCommutative (fun (acc : Nat) (d : Int) => max acc d.toNat) :=
  ⟨fun a x y => by simp only [max_assoc, max_comm x.toNat]⟩
instance maxNegToNat_rightComm : RightCommutative (fun (acc : Nat) (d : Int) => max acc (-d).toNat) :=
  ⟨fun a x y => by simp only [max_assoc, max_comm (-x).toNat]⟩

/-- `h` depends only on the two multisets — for every carrier, so literally for IEEE doubles (NaNs included) -/
theorem hTwoSided_perm {ref ref' test test' : List α} (hr : ref.Perm ref') (ht : test.Perm test') :
    hTwoSided ref test = hTwoSided ref' test' :=
  (devs_perm hr ht).foldl_eq 0

theorem hPlus_perm {ref ref' test test' : List α} (hr : ref.Perm ref') (ht : test.Perm test') :
    hPlus ref test = hPlus ref' test' :=
  (devs_perm hr ht).foldl_eq 0

theorem hMinus_perm {ref ref' test test' : List α} (hr : ref.Perm ref') (ht : test.Perm test') :
    hMinus ref test = hMinus ref' test' :=
  (devs_perm hr ht).foldl_eq 0

/-- the p-value the driver uses for KSWIN / KSTest / IncrementalKSTest, literally at `Float` -/
theorem pTwoSided_perm {ref ref' test test' : List Float} (hr : ref.Perm ref') (ht : test.Perm test') :
    pTwoSided ref test = pTwoSided ref' test' := by
  unfold pTwoSided
  rw [hr.length_eq, ht.length_eq, hTwoSided_perm hr ht]

example (a b c d e : α) : hTwoSided [c, a, b] [e, d] = hTwoSided [a, b, c] [d, e] :=
  hTwoSided_perm (List.perm_append_comm (l₁ := [c]) (l₂ := [a, b])) (List.Perm.swap d e [])

end Perm

/-! ### `statistic`: running min / max selection

`statistic` selects the minimum and maximum of the list of CDF differences with `Num.lt` by a left fold that keeps the
FIRST extremal element.  For an arbitrary carrier with an arbitrary `lt` this is order dependent
(`statistic_perm_witness` below), so — unlike `hTwoSided` — permutation invariance of `statistic` needs the explicit
hypothesis that `lt` is a strict total order on the differences that actually occur. -/

section Stat
variable {α : Type} [Num α]

/-- the list of CDF differences `F_ref z − F_test z`, `z` over the pooled sample, as `statistic` computes it -/
def diffs (ref test : List α) : List α :=
  (ref ++ test).map (fun z => (Num.ofNat (countLe ref z) : α) / Num.ofNat ref.length -
    Num.ofNat (countLe test z) / Num.ofNat test.length)

def selMin (d0 : α) (ds : List α) : α := ds.foldl (fun a d => if Num.lt d a then d else a) d0
def selMax (d0 : α) (ds : List α) : α := ds.foldl (fun a d => if Num.gt d a then d else a) d0
/-- `np.clip(-min, 0, 1)` followed by the final `max` -/
def finish (mn mx : α) : α :=
  let minS := let x := -mn; if Num.lt x Num.zero then Num.zero else if Num.gt x Num.one then Num.one else x
  if Num.gt minS mx then minS else mx

theorem statistic_eq (ref test : List α) :
    statistic ref test = match diffs ref test with
      | [] => Num.zero
      | d0 :: ds => finish (selMin d0 ds) (selMax d0 ds) := rfl

/-- `Num.lt` is a strict total order on the elements of `l` (irreflexive, transitive, trichotomous w.r.t. `=`).
At `ℝ` this holds for every list; at IEEE doubles it holds for every list without NaN and without both signed zeros. -/
structure LtStrictTotalOn (l : List α) : Prop where
  irrefl : ∀ a ∈ l, Num.lt a a = false
  trans : ∀ a ∈ l, ∀ b ∈ l, ∀ c ∈ l, Num.lt a b = true → Num.lt b c = true → Num.lt a c = true
  tri : ∀ a ∈ l, ∀ b ∈ l, a ≠ b → Num.lt a b = true ∨ Num.lt b a = true

theorem LtStrictTotalOn.perm {l l' : List α} (h : LtStrictTotalOn l) (hp : l.Perm l') : LtStrictTotalOn l' where
  irrefl a ha := h.irrefl a (hp.mem_iff.mpr ha)
  trans a ha b hb c hc := h.trans a (hp.mem_iff.mpr ha) b (hp.mem_iff.mpr hb) c (hp.mem_iff.mpr hc)
  tri a ha b hb := h.tri a (hp.mem_iff.mpr ha) b (hp.mem_iff.mpr hb)

theorem selMin_concat (d0 : α) (ds : List α) (d : α) :
    selMin d0 (ds ++ [d]) = if Num.lt d (selMin d0 ds) then d else selMin d0 ds := by
  unfold selMin
  rw [List.foldl_append]
  rfl

theorem selMax_concat (d0 : α) (ds : List α) (d : α) :
    selMax d0 (ds ++ [d]) = if Num.lt (selMax d0 ds) d then d else selMax d0 ds := by
  unfold selMax
  rw [List.foldl_append]
  rfl

/-- the running minimum is a member and no element is strictly below it -/
theorem selMin_spec (d0 : α) (ds : List α) (h : LtStrictTotalOn (d0 :: ds)) :
    selMin d0 ds ∈ d0 :: ds ∧ ∀ x ∈ d0 :: ds, Num.lt x (selMin d0 ds) = false := by
  induction ds using List.reverseRecOn with
  | nil => simpa [selMin] using h.irrefl d0 (by simp)
  | append_singleton ds d ih =>
    have hsub : ∀ x, x ∈ d0 :: ds → x ∈ d0 :: (ds ++ [d]) := by
      intro x hx; simp only [List.mem_cons, List.mem_append] at hx ⊢; tauto
    have hd : d ∈ d0 :: (ds ++ [d]) := by simp
    have h' : LtStrictTotalOn (d0 :: ds) :=
      ⟨fun a ha => h.irrefl a (hsub a ha),
       fun a ha b hb c hc => h.trans a (hsub a ha) b (hsub b hb) c (hsub c hc),
       fun a ha b hb => h.tri a (hsub a ha) b (hsub b hb)⟩
    obtain ⟨hm, hmin⟩ := ih h'
    rw [selMin_concat]
    have hmem : ∀ x, x ∈ d0 :: (ds ++ [d]) → x ∈ d0 :: ds ∨ x = d := by
      intro x hx; simp only [List.mem_cons, List.mem_append, List.mem_nil_iff, or_false] at hx ⊢; tauto
    by_cases hlt : Num.lt d (selMin d0 ds) = true
    · rw [if_pos hlt]
      refine ⟨hd, fun x hx => ?_⟩
      rcases hmem x hx with hx' | rfl
      · by_contra hc
        have hxd : Num.lt x d = true := by simpa using hc
        have := h.trans x hx d hd _ (hsub _ hm) hxd hlt
        rw [hmin x hx'] at this
        exact Bool.false_ne_true this
      · exact h.irrefl x hd
    · rw [if_neg hlt]
      refine ⟨hsub _ hm, fun x hx => ?_⟩
      rcases hmem x hx with hx' | rfl
      · exact hmin x hx'
      · simpa using hlt

/-- the running maximum is a member and no element is strictly above it -/
theorem selMax_spec (d0 : α) (ds : List α) (h : LtStrictTotalOn (d0 :: ds)) :
    selMax d0 ds ∈ d0 :: ds ∧ ∀ x ∈ d0 :: ds, Num.lt (selMax d0 ds) x = false := by
  induction ds using List.reverseRecOn with
  | nil => simpa [selMax] using h.irrefl d0 (by simp)
  | append_singleton ds d ih =>
    have hsub : ∀ x, x ∈ d0 :: ds → x ∈ d0 :: (ds ++ [d]) := by
      intro x hx; simp only [List.mem_cons, List.mem_append] at hx ⊢; tauto
    have hd : d ∈ d0 :: (ds ++ [d]) := by simp
    have h' : LtStrictTotalOn (d0 :: ds) :=
      ⟨fun a ha => h.irrefl a (hsub a ha),
       fun a ha b hb c hc => h.trans a (hsub a ha) b (hsub b hb) c (hsub c hc),
       fun a ha b hb => h.tri a (hsub a ha) b (hsub b hb)⟩
    obtain ⟨hm, hmax⟩ := ih h'
    rw [selMax_concat]
    have hmem : ∀ x, x ∈ d0 :: (ds ++ [d]) → x ∈ d0 :: ds ∨ x = d := by
      intro x hx; simp only [List.mem_cons, List.mem_append, List.mem_nil_iff, or_false] at hx ⊢; tauto
    by_cases hlt : Num.lt (selMax d0 ds) d = true
    · rw [if_pos hlt]
      refine ⟨hd, fun x hx => ?_⟩
      rcases hmem x hx with hx' | rfl
      · by_contra hc
        have hdx : Num.lt d x = true := by simpa using hc
        have := h.trans _ (hsub _ hm) d hd x hx hlt hdx
        rw [hmax x hx'] at this
        exact Bool.false_ne_true this
      · exact h.irrefl x hd
    · rw [if_neg hlt]
      refine ⟨hsub _ hm, fun x hx => ?_⟩
      rcases hmem x hx with hx' | rfl
      · exact hmax x hx'
      · simpa using hlt

theorem selMin_perm {d0 d0' : α} {ds ds' : List α} (hp : (d0 :: ds).Perm (d0' :: ds'))
    (h : LtStrictTotalOn (d0 :: ds)) : selMin d0 ds = selMin d0' ds' := by
  obtain ⟨hm, hmin⟩ := selMin_spec d0 ds h
  obtain ⟨hm', hmin'⟩ := selMin_spec d0' ds' (h.perm hp)
  by_contra hne
  rcases h.tri _ hm _ (hp.mem_iff.mpr hm') hne with hlt | hlt
  · rw [hmin' _ (hp.mem_iff.mp hm)] at hlt; exact Bool.false_ne_true hlt
  · rw [hmin _ (hp.mem_iff.mpr hm')] at hlt; exact Bool.false_ne_true hlt

theorem selMax_perm {d0 d0' : α} {ds ds' : List α} (hp : (d0 :: ds).Perm (d0' :: ds'))
    (h : LtStrictTotalOn (d0 :: ds)) : selMax d0 ds = selMax d0' ds' := by
  obtain ⟨hm, hmax⟩ := selMax_spec d0 ds h
  obtain ⟨hm', hmax'⟩ := selMax_spec d0' ds' (h.perm hp)
  by_contra hne
  rcases h.tri _ hm _ (hp.mem_iff.mpr hm') hne with hlt | hlt
  · rw [hmax _ (hp.mem_iff.mpr hm')] at hlt; exact Bool.false_ne_true hlt
  · rw [hmax' _ (hp.mem_iff.mp hm)] at hlt; exact Bool.false_ne_true hlt

theorem diffs_perm {ref ref' test test' : List α} (hr : ref.Perm ref') (ht : test.Perm test') :
    (diffs ref test).Perm (diffs ref' test') := by
  unfold diffs
  simp only [hr.length_eq, ht.length_eq, countLe_perm hr, countLe_perm ht]
  exact (hr.append ht).map _

/-- `statistic` depends only on the two multisets, provided `Num.lt` is a strict total order on the CDF differences
that occur (see `LtStrictTotalOn`); `statistic_perm_real` discharges the hypothesis at `ℝ`. -/
theorem statistic_perm_partial {ref ref' test test' : List α} (hr : ref.Perm ref') (ht : test.Perm test')
    (hS : LtStrictTotalOn (diffs ref test)) : statistic ref test = statistic ref' test' := by
  have hp := diffs_perm hr ht
  rw [statistic_eq, statistic_eq]
  revert hp hS
  generalize diffs ref test = l
  generalize diffs ref' test' = l'
  intro hS hp
  cases l with
  | nil => rw [List.nil_perm.mp hp]
  | cons d0 ds =>
    cases l' with
    | nil => exact absurd hp.symm (by simp)
    | cons d0' ds' => simp only [selMin_perm hp hS, selMax_perm hp hS]

end Stat

/-! ### incremental = batch

The incremental detector keeps the reference sample SORTED and applies the same function to it and to the raw queue
buffer.  Sorting (by any procedure that returns a permutation, e.g. the model's insertion sort `Hist.sort` with the
carrier's own — possibly non-transitive — `≤`) does not change `h` nor the p-value. -/

section Incr
variable {α : Type} [Num α]

theorem insertSorted_perm (x : α) (l : List α) : (Hist.insertSorted x l).Perm (x :: l) := by
  induction l with
  | nil => exact List.Perm.refl _
  | cons y ys ih =>
    unfold Hist.insertSorted
    split
    · exact List.Perm.refl _
    · exact (ih.cons y).trans (List.Perm.swap x y ys)

theorem sort_perm (l : List α) : (Hist.sort l).Perm l := by
  induction l with
  | nil => exact List.Perm.refl _
  | cons x xs ih => exact (insertSorted_perm x _).trans (ih.cons x)

/-- **C11 item 6.**  `h` computed from the sorted reference and ANY reordering `buf` of the test window equals `h` of the
batch computation — for every carrier. -/
theorem incr_eq_batch (ref test buf : List α) (hb : buf.Perm test) :
    hTwoSided (Hist.sort ref) buf = hTwoSided ref test :=
  hTwoSided_perm (sort_perm ref) hb

theorem incr_eq_batch_float (ref test buf : List Float) (hb : buf.Perm test) :
    pTwoSided (Hist.sort ref) buf = pTwoSided ref test :=
  pTwoSided_perm (sort_perm ref) hb

theorem incr_eq_batch_statistic (ref test buf : List α) (hb : buf.Perm test)
    (hS : LtStrictTotalOn (diffs ref test)) :
    statistic (Hist.sort ref) buf = statistic ref test :=
  (statistic_perm_partial (sort_perm ref).symm hb.symm hS).symm

end Incr

/-- an artificial carrier on `ℤ` whose `lt` is constantly `false` (comparisons "like NaN") -/
@[instance_reducible] def degenerateNum : Num Int where
  ofNat n := n
  ofDec m _ := m
  sqrt := id
  log := id
  exp := id
  abs := id
  npow x _ := x
  lt _ _ := false
  le a b := decide (a ≤ b)
  beq a b := a == b

/-- **Counterexample (arbitrary carrier).**  Without an assumption on `Num.lt`, `statistic` is NOT invariant under
permutations of the reference sample: with a degenerate `lt` the fold returns the difference at the first pooled point. -/
theorem statistic_perm_witness :
    @statistic Int degenerateNum [1, 2] [3] ≠ @statistic Int degenerateNum [2, 1] [3] := by
  decide

/-! ## 1. The statistic is the sup-distance of the empirical CDFs (carrier `ℝ`) -/

section Real
open RealNum

theorem ltStrictTotalOn_real (l : List ℝ) : LtStrictTotalOn l where
  irrefl a _ := by simp
  trans a _ b _ c _ hab hbc := by
    simp only [lt_iff] at *
    exact lt_trans hab hbc
  tri a _ b _ hne := by
    simp only [lt_iff]
    exact lt_or_gt_of_ne hne

/-- at `ℝ` the statistic depends only on the multisets, unconditionally -/
theorem statistic_perm_real {ref ref' test test' : List ℝ} (hr : ref.Perm ref') (ht : test.Perm test') :
    statistic ref test = statistic ref' test' :=
  statistic_perm_partial hr ht (ltStrictTotalOn_real _)

/-- non-vacuity of the hypothesis of `statistic_perm_partial`: it holds for every pair of real samples -/
example (ref test : List ℝ) : LtStrictTotalOn (diffs ref test) := ltStrictTotalOn_real _

/-- empirical CDF `F_l z = #{x ∈ l : x ≤ z} / |l|` (only meaningful for `l ≠ []`) -/
noncomputable def ecdf (l : List ℝ) (z : ℝ) : ℝ := (countLe l z : ℝ) / (l.length : ℝ)

/-- `|F_ref z − F_test z|` -/
noncomputable def cdfDist (ref test : List ℝ) (z : ℝ) : ℝ := |ecdf ref z - ecdf test z|

theorem diffs_real (ref test : List ℝ) :
    diffs ref test = (ref ++ test).map (fun z => ecdf ref z - ecdf test z) := rfl

theorem countLe_le_length (l : List ℝ) (z : ℝ) : countLe l z ≤ l.length := List.length_filter_le _ _

theorem ecdf_nonneg (l : List ℝ) (z : ℝ) : 0 ≤ ecdf l z := by
  unfold ecdf; positivity

theorem ecdf_le_one (l : List ℝ) (z : ℝ) : ecdf l z ≤ 1 := by
  unfold ecdf
  apply div_le_one_of_le₀
  · exact_mod_cast countLe_le_length l z
  · positivity

theorem finish_real (mn mx : ℝ) (h1 : -1 ≤ mn) (h2 : mn ≤ mx) : finish mn mx = max (-mn) mx := by
  unfold finish
  simp only [lt_iff, gt_iff, zero_eq, one_eq]
  rcases le_total (-mn) mx with h | h
  · rw [max_eq_right h]
    split_ifs <;> linarith
  · rw [max_eq_left h]
    split_ifs <;> linarith

/-- the model's statistic is attained at a pooled sample point and dominates `|F_ref − F_test|` at every pooled point.
Auxiliary form: it only needs a non-empty pool, but if one of the samples is empty its `ecdf` is the junk value
`c / 0 = 0`; the main theorems `stat_eq_sup` / `stat_eq_lattice` therefore assume BOTH samples non-empty. -/
theorem stat_eq_max (ref test : List ℝ) (hpool : ref ++ test ≠ []) :
    (∃ z ∈ ref ++ test, statistic ref test = cdfDist ref test z) ∧
    ∀ z ∈ ref ++ test, cdfDist ref test z ≤ statistic ref test := by
  rw [statistic_eq, diffs_real]
  generalize ref ++ test = pool at *
  cases pool with
  | nil => exact absurd rfl hpool
  | cons z0 zs =>
    simp only [List.map_cons]
    set d := fun z => ecdf ref z - ecdf test z with hd
    have hS := ltStrictTotalOn_real (d z0 :: zs.map d)
    obtain ⟨hmn, hmin⟩ := selMin_spec (d z0) (zs.map d) hS
    obtain ⟨hmx, hmax⟩ := selMax_spec (d z0) (zs.map d) hS
    rw [← List.map_cons (f := d), List.mem_map] at hmn hmx
    obtain ⟨zmn, hzmn, hmn⟩ := hmn
    obtain ⟨zmx, hzmx, hmx⟩ := hmx
    have hlo : ∀ z ∈ z0 :: zs, selMin (d z0) (zs.map d) ≤ d z := by
      intro z hz
      have := hmin (d z) (by rw [← List.map_cons (f := d)]; exact List.mem_map_of_mem hz)
      simpa using this
    have hhi : ∀ z ∈ z0 :: zs, d z ≤ selMax (d z0) (zs.map d) := by
      intro z hz
      have := hmax (d z) (by rw [← List.map_cons (f := d)]; exact List.mem_map_of_mem hz)
      simpa using this
    have hb : -1 ≤ selMin (d z0) (zs.map d) := by
      rw [← hmn]
      have := ecdf_nonneg ref zmn
      have := ecdf_le_one test zmn
      simp only [hd]; linarith
    have hle : selMin (d z0) (zs.map d) ≤ selMax (d z0) (zs.map d) := (hlo z0 (by simp)).trans (hhi z0 (by simp))
    rw [finish_real _ _ hb hle]
    constructor
    · rcases le_total (-selMin (d z0) (zs.map d)) (selMax (d z0) (zs.map d)) with h | h
      · refine ⟨zmx, hzmx, ?_⟩
        rw [max_eq_right h, cdfDist]
        show _ = |d zmx|
        rw [hmx, abs_of_nonneg (by linarith)]
      · refine ⟨zmn, hzmn, ?_⟩
        rw [max_eq_left h, cdfDist]
        show _ = |d zmn|
        rw [hmn, abs_of_nonpos (by linarith)]
    · intro z hz
      rw [cdfDist]
      show |d z| ≤ _
      rw [abs_le]
      have := hlo z hz
      have := hhi z hz
      constructor
      · have := le_max_left (-selMin (d z0) (zs.map d)) (selMax (d z0) (zs.map d)); linarith
      · have := le_max_right (-selMin (d z0) (zs.map d)) (selMax (d z0) (zs.map d)); linarith

/-- for every real `z` there is either no pooled point `≤ z` (both counts are 0) or a pooled point `z'` with the same
counts: the step functions only change at sample points -/
theorem counts_at_pool_point (ref test : List ℝ) (z : ℝ) :
    (countLe ref z = 0 ∧ countLe test z = 0) ∨
    ∃ z' ∈ ref ++ test, countLe ref z = countLe ref z' ∧ countLe test z = countLe test z' := by
  cases hS : (ref ++ test).filter (fun x => decide (x ≤ z)) with
  | nil =>
    left
    rw [List.filter_eq_nil_iff] at hS
    constructor
    · unfold countLe
      rw [List.length_eq_zero_iff, List.filter_eq_nil_iff]
      intro x hx
      have := hS x (List.mem_append_left _ hx)
      simpa using this
    · unfold countLe
      rw [List.length_eq_zero_iff, List.filter_eq_nil_iff]
      intro x hx
      have := hS x (List.mem_append_right _ hx)
      simpa using this
  | cons s0 ss =>
    right
    obtain ⟨hm, hmax⟩ := selMax_spec s0 ss (ltStrictTotalOn_real _)
    rw [← hS, List.mem_filter] at hm
    have hz' : selMax s0 ss ≤ z := by simpa using hm.2
    have key : ∀ x ∈ ref ++ test, (x ≤ z ↔ x ≤ selMax s0 ss) := by
      intro x hx
      constructor
      · intro hxz
        have : x ∈ s0 :: ss := by rw [← hS, List.mem_filter]; exact ⟨hx, by simpa using hxz⟩
        simpa using hmax x this
      · intro h; exact h.trans hz'
    refine ⟨selMax s0 ss, hm.1, ?_, ?_⟩
    · unfold countLe
      congr 1
      apply List.filter_congr
      intro x hx
      have := key x (List.mem_append_left _ hx)
      simp only [Num.le, decide_eq_decide]
      exact this
    · unfold countLe
      congr 1
      apply List.filter_congr
      intro x hx
      have := key x (List.mem_append_right _ hx)
      simp only [Num.le, decide_eq_decide]
      exact this

/-- **C11 item 1.**  For non-empty samples (the hypotheses exclude the junk value `c / 0 = 0` of the empirical CDF of an
empty sample) the model's `statistic` is the greatest value of `z ↦ |F_ref z − F_test z|` over ALL real `z`, and that
value is attained at a pooled sample point. -/
theorem stat_eq_sup (ref test : List ℝ) (hr : ref ≠ []) (_ht : test ≠ []) :
    IsGreatest (Set.range (cdfDist ref test)) (statistic ref test) ∧
    ∃ z ∈ ref ++ test, statistic ref test = cdfDist ref test z := by
  have hpool : ref ++ test ≠ [] := by simp [hr]
  obtain ⟨⟨z1, hz1, hz1eq⟩, hub⟩ := stat_eq_max ref test hpool
  refine ⟨⟨⟨z1, hz1eq.symm⟩, ?_⟩, z1, hz1, hz1eq⟩
  rintro _ ⟨z, rfl⟩
  rcases counts_at_pool_point ref test z with ⟨h1, h2⟩ | ⟨z', hz', h1, h2⟩
  · have : cdfDist ref test z = 0 := by simp [cdfDist, ecdf, h1, h2]
    rw [this, hz1eq]
    exact abs_nonneg _
  · have : cdfDist ref test z = cdfDist ref test z' := by simp [cdfDist, ecdf, h1, h2]
    rw [this]
    exact hub z' hz'

/-- the supremum form of `stat_eq_sup` -/
theorem stat_eq_iSup (ref test : List ℝ) (hr : ref ≠ []) (ht : test ≠ []) :
    statistic ref test = ⨆ z : ℝ, cdfDist ref test z :=
  ((stat_eq_sup ref test hr ht).1.csSup_eq).symm

/-- signed lattice deviation at `z` exactly as `devs` computes it -/
def devAt {α : Type} [Num α] (ref test : List α) (z : α) : Int :=
  (countLe ref z * (test.length / Nat.gcd ref.length test.length) : Int) -
    (countLe test z * (ref.length / Nat.gcd ref.length test.length) : Int)

theorem devs_eq {α : Type} [Num α] (ref test : List α) : devs ref test = (ref ++ test).map (devAt ref test) := rfl

theorem foldl_max_natAbs_concat (l : List Int) (d : Int) :
    (l ++ [d]).foldl (fun acc d => max acc d.natAbs) 0 = max (l.foldl (fun acc d => max acc d.natAbs) 0) d.natAbs := by
  rw [List.foldl_append]; rfl

/-- `foldl max 0` of the absolute values is an upper bound, attained when the list is non-empty -/
theorem foldl_max_natAbs_spec (l : List Int) :
    (∀ d ∈ l, d.natAbs ≤ l.foldl (fun acc d => max acc d.natAbs) 0) ∧
    (l ≠ [] → ∃ d ∈ l, l.foldl (fun acc d => max acc d.natAbs) 0 = d.natAbs) := by
  induction l using List.reverseRecOn with
  | nil => simp
  | append_singleton l d ih =>
    rw [foldl_max_natAbs_concat]
    obtain ⟨ih1, ih2⟩ := ih
    constructor
    · intro x hx
      rcases List.mem_append.mp hx with hx | hx
      · exact (ih1 x hx).trans (le_max_left _ _)
      · simp only [List.mem_singleton] at hx; subst hx; exact le_max_right _ _
    · intro _
      rcases le_total (l.foldl (fun acc d => max acc d.natAbs) 0) d.natAbs with h | h
      · exact ⟨d, by simp, max_eq_right h⟩
      · by_cases hl : l = []
        · subst hl; exact ⟨d, by simp, by simp⟩
        · obtain ⟨x, hx, hxe⟩ := ih2 hl
          exact ⟨x, List.mem_append_left _ hx, by rw [max_eq_left h, hxe]⟩

/-- `h` is the largest absolute lattice deviation over the pooled sample (arbitrary carrier) -/
theorem hTwoSided_spec {α : Type} [Num α] (ref test : List α) :
    (∀ z ∈ ref ++ test, (devAt ref test z).natAbs ≤ hTwoSided ref test) ∧
    (ref ++ test ≠ [] → ∃ z ∈ ref ++ test, hTwoSided ref test = (devAt ref test z).natAbs) := by
  obtain ⟨h1, h2⟩ := foldl_max_natAbs_spec (devs ref test)
  rw [devs_eq] at h1 h2
  constructor
  · intro z hz; exact h1 _ (List.mem_map_of_mem hz)
  · intro hne
    obtain ⟨d, hd, hde⟩ := h2 (by simpa using hne)
    obtain ⟨z, hz, rfl⟩ := List.mem_map.mp hd
    exact ⟨z, hz, hde⟩

/-- `|F_ref z − F_test z| = |c_ref·(m/g) − c_test·(n/g)| / lcm(n, m)` for non-empty samples -/
theorem cdfDist_eq_lattice (ref test : List ℝ) (hr : ref ≠ []) (ht : test ≠ []) (z : ℝ) :
    cdfDist ref test z =
      ((devAt ref test z).natAbs : ℝ) / ((ref.length * test.length / Nat.gcd ref.length test.length : ℕ) : ℝ) := by
  have hn : 0 < ref.length := List.length_pos_iff.mpr hr
  have hm : 0 < test.length := List.length_pos_iff.mpr ht
  set n := ref.length with hn'
  set m := test.length with hm'
  set g := Nat.gcd n m with hg'
  have hg : 0 < g := Nat.gcd_pos_of_pos_left m hn
  obtain ⟨a, ha⟩ : g ∣ m := Nat.gcd_dvd_right n m
  obtain ⟨b, hb⟩ : g ∣ n := Nat.gcd_dvd_left n m
  have hma : m / g = a := by rw [ha]; exact Nat.mul_div_cancel_left a hg
  have hnb : n / g = b := by rw [hb]; exact Nat.mul_div_cancel_left b hg
  have ha0 : 0 < a := by rcases Nat.eq_zero_or_pos a with h | h; · rw [h] at ha; omega
                         · exact h
  have hb0 : 0 < b := by rcases Nat.eq_zero_or_pos b with h | h; · rw [h] at hb; omega
                         · exact h
  have hL : n * m / g = b * a * g := by
    rw [ha, hb]
    have : g * b * (g * a) = (b * a * g) * g := by ring
    rw [this, Nat.mul_div_cancel _ hg]
  have hdev : devAt ref test z = (countLe ref z : Int) * (a : Int) - (countLe test z : Int) * (b : Int) := by
    unfold devAt
    rw [← hn', ← hm', ← hg', ← Int.natCast_div, ← Int.natCast_div, hma, hnb]
  rw [hL, Nat.cast_natAbs, Int.cast_abs, hdev, cdfDist, ecdf, ecdf, ← hn', ← hm']
  have hnR : (n : ℝ) = g * b := by rw [hb]; push_cast; ring
  have hmR : (m : ℝ) = g * a := by rw [ha]; push_cast; ring
  have hgR : (0 : ℝ) < g := by exact_mod_cast hg
  have haR : (0 : ℝ) < a := by exact_mod_cast ha0
  have hbR : (0 : ℝ) < b := by exact_mod_cast hb0
  rw [hnR, hmR]
  push_cast
  rw [← abs_of_pos (show (0 : ℝ) < b * a * g by positivity), ← abs_div]
  congr 1
  field_simp

/-- **C11 item 1, lattice form.**  `statistic = h / lcm(n, m)` with `lcm = n·m / gcd n m`. -/
theorem stat_eq_lattice (ref test : List ℝ) (hr : ref ≠ []) (ht : test ≠ []) :
    statistic ref test =
      (hTwoSided ref test : ℝ) / ((ref.length * test.length / Nat.gcd ref.length test.length : ℕ) : ℝ) := by
  have hpool : ref ++ test ≠ [] := by simp [hr]
  obtain ⟨⟨z1, hz1, hz1eq⟩, hub⟩ := stat_eq_max ref test hpool
  obtain ⟨hH1, hH2⟩ := hTwoSided_spec ref test
  obtain ⟨z2, hz2, hz2eq⟩ := hH2 hpool
  apply le_antisymm
  · rw [hz1eq, cdfDist_eq_lattice ref test hr ht]
    apply div_le_div_of_nonneg_right _ (Nat.cast_nonneg _)
    exact_mod_cast hH1 z1 hz1
  · rw [hz2eq, ← cdfDist_eq_lattice ref test hr ht]
    exact hub z2 hz2

/-- a concrete instance: `ref = [1, 2]`, `test = [3]`: `F_ref − F_test` reaches 1 at `z = 2` -/
example : statistic ([1, 2] : List ℝ) [3] = 1 := by
  rw [stat_eq_lattice _ _ (by simp) (by simp)]
  simp [hTwoSided, devs, countLe]
  norm_num

theorem lcm_eq (n m : Nat) : Nat.lcm n m = n * m / Nat.gcd n m := rfl

/-! ### Bridge: the observed `h` is the KS distance of the sample's own interleaving (tie-free samples)

For a pooled sample without ties, listed in increasing order as `s`, the interleaving of the sample is
`pathOf ref s` (`true` at reference observations).  `hTwoSided ref test` is the lattice KS distance `pathH` of that
interleaving, so by `p_exact_dist` the reported fraction is the permutation p-value
`#{interleavings at least as extreme as the observed one} / C(n+m, n)`.  (With ties the statistic is evaluated only
after all tied observations, so it is the distance of no single interleaving; `p_exact` still holds verbatim.) -/

/-- the interleaving of the increasingly listed pooled sample `s` -/
noncomputable def pathOf (ref s : List ℝ) : List Bool := s.map (fun z => decide (z ∈ ref))

theorem countP_split (P : ℝ → Bool) (z : ℝ) (q r l1 l2 : List ℝ) (hperm : (q ++ r).Perm (l1 ++ l2))
    (hq : ∀ x ∈ q, x ≤ z) (hr : ∀ x ∈ r, ¬ x ≤ z) (h1 : ∀ x ∈ l1, P x = true) (h2 : ∀ x ∈ l2, P x = false) :
    q.countP P = countLe l1 z := by
  have h := hperm.countP_eq (fun x => P x && decide (x ≤ z))
  rw [List.countP_append, List.countP_append] at h
  have e1 : q.countP (fun x => P x && decide (x ≤ z)) = q.countP P :=
    List.countP_congr (fun x hx => by simp [hq x hx])
  have e2 : r.countP (fun x => P x && decide (x ≤ z)) = 0 :=
    List.countP_eq_zero.mpr (fun x hx => by simp [hr x hx])
  have e3 : l1.countP (fun x => P x && decide (x ≤ z)) = l1.countP (fun x => decide (x ≤ z)) :=
    List.countP_congr (fun x hx => by simp [h1 x hx])
  have e4 : l2.countP (fun x => P x && decide (x ≤ z)) = 0 :=
    List.countP_eq_zero.mpr (fun x hx => by simp [h2 x hx])
  rw [e1, e2, e3, e4] at h
  unfold countLe
  rw [← List.countP_eq_length_filter]
  simpa [Num.le] using h

theorem pool_disjoint {ref test s : List ℝ} (hs : s.Pairwise (· < ·)) (hp : s.Perm (ref ++ test)) :
    ∀ x ∈ test, x ∉ ref := by
  have hnd : (ref ++ test).Nodup := hp.nodup_iff.mp (hs.imp (fun h => ne_of_lt h))
  intro x hx hx'
  exact (List.disjoint_of_nodup_append hnd) hx' hx

/-- a non-empty prefix `q` of the increasing pooled sample ends at the lattice point `(c_ref z, c_test z)`, `z = last q` -/
theorem prefix_counts {ref test q r : List ℝ} (hs : (q ++ r).Pairwise (· < ·)) (hp : (q ++ r).Perm (ref ++ test))
    (hq : q ≠ []) :
    (pathOf ref q).count true = countLe ref (q.getLast hq) ∧
    (pathOf ref q).count false = countLe test (q.getLast hq) := by
  have hdis := pool_disjoint hs hp
  set z := q.getLast hq with hz
  obtain ⟨hqq, _, hqr⟩ := List.pairwise_append.mp hs
  have hzq : z ∈ q := List.getLast_mem hq
  have hqle : ∀ x ∈ q, x ≤ z := by
    intro x hx
    rw [← List.dropLast_append_getLast hq] at hx hqq
    rcases List.mem_append.mp hx with hx | hx
    · exact le_of_lt ((List.pairwise_append.mp hqq).2.2 x hx z (by simp [hz]))
    · simp only [List.mem_singleton] at hx; exact le_of_eq hx
  have hrgt : ∀ x ∈ r, ¬ x ≤ z := fun x hx => not_le.mpr (hqr z hzq x hx)
  constructor
  · rw [pathOf, List.count_eq_countP, List.countP_map]
    have := countP_split (fun x => decide (x ∈ ref)) z q r ref test hp hqle hrgt
      (fun x hx => by simpa using hx) (fun x hx => by simpa using hdis x hx)
    rw [← this]
    apply List.countP_congr; intro x _; simp
  · rw [pathOf, List.count_eq_countP, List.countP_map]
    have := countP_split (fun x => !decide (x ∈ ref)) z q r test ref (hp.trans List.perm_append_comm) hqle hrgt
      (fun x hx => by simpa using hdis x hx) (fun x hx => by simpa using hx)
    rw [← this]
    apply List.countP_congr; intro x _; simp

theorem latDev_counts (ref test : List ℝ) (z : ℝ) :
    latDev ref.length test.length (countLe ref z) (countLe test z) = (devAt ref test z).natAbs := rfl

/-- **Bridge.**  For a tie-free pooled sample, listed increasingly as `s`, the observed `h` equals the lattice KS distance
of the sample's interleaving.  (The hypotheses force `ref ++ test` to have no repeated value.) -/
theorem hTwoSided_eq_pathH (ref test s : List ℝ) (hs : s.Pairwise (· < ·)) (hp : s.Perm (ref ++ test)) :
    hTwoSided ref test = pathH ref.length test.length (pathOf ref s) := by
  obtain ⟨hub, hatt⟩ := hTwoSided_spec ref test
  apply le_antisymm
  · by_cases hpool : ref ++ test = []
    · have : hTwoSided ref test = 0 := by simp [hTwoSided, devs, hpool]
      omega
    · obtain ⟨z, hz, hze⟩ := hatt hpool
      obtain ⟨l1, l2, rfl⟩ := List.append_of_mem (hp.mem_iff.mpr hz)
      rw [← exits_iff_le_pathH]
      have hs' : ((l1 ++ [z]) ++ l2).Pairwise (· < ·) := by simpa using hs
      have hp' : ((l1 ++ [z]) ++ l2).Perm (ref ++ test) := by simpa using hp
      obtain ⟨c1, c2⟩ := prefix_counts hs' hp' (by simp)
      refine ⟨pathOf ref (l1 ++ [z]), ?_, ?_⟩
      · unfold pathOf
        exact List.IsPrefix.map _ ⟨l2, by simp⟩
      · rw [c1, c2, latDev_counts, hze]
        simp
  · obtain ⟨q', hq', hle⟩ := (exits_iff_le_pathH ref.length test.length _ (pathOf ref s)).mpr le_rfl
    refine hle.trans ?_
    rw [List.prefix_iff_eq_take] at hq'
    unfold pathOf at hq'
    rw [← List.map_take] at hq'
    by_cases hq : s.take q'.length = []
    · rw [hq] at hq'; subst hq'; simp [latDev_zero]
    · have hs' : (s.take q'.length ++ s.drop q'.length).Pairwise (· < ·) := by rwa [List.take_append_drop]
      have hp' : (s.take q'.length ++ s.drop q'.length).Perm (ref ++ test) := by rwa [List.take_append_drop]
      obtain ⟨c1, c2⟩ := prefix_counts hs' hp' hq
      unfold pathOf at c1 c2
      rw [hq', c1, c2, latDev_counts]
      apply hub
      exact hp.mem_iff.mp (List.mem_of_mem_take (List.getLast_mem hq))

theorem pathOf_mem_paths (ref test s : List ℝ) (hs : s.Pairwise (· < ·)) (hp : s.Perm (ref ++ test)) :
    pathOf ref s ∈ paths ref.length test.length := by
  rw [mem_paths_iff]
  have hdis := pool_disjoint hs hp
  unfold pathOf
  constructor
  · rw [List.count_eq_countP, List.countP_map, (hp.countP_eq _), List.countP_append]
    have e1 : ref.countP ((fun x => x == true) ∘ fun z => decide (z ∈ ref)) = ref.length := by
      rw [List.countP_eq_length]; intro x hx; simpa using hx
    have e2 : test.countP ((fun x => x == true) ∘ fun z => decide (z ∈ ref)) = 0 := by
      rw [List.countP_eq_zero]; intro x hx; simpa using hdis x hx
    rw [e1, e2]; rfl
  · rw [List.count_eq_countP, List.countP_map, (hp.countP_eq _), List.countP_append]
    have e1 : ref.countP ((fun x => x == false) ∘ fun z => decide (z ∈ ref)) = 0 := by
      rw [List.countP_eq_zero]; intro x hx; simpa using hx
    have e2 : test.countP ((fun x => x == false) ∘ fun z => decide (z ∈ ref)) = test.length := by
      rw [List.countP_eq_length]; intro x hx; simpa using hdis x hx
    rw [e1, e2]; simp

/-- **C11 items 5 + 1 combined.**  For tie-free samples the fraction reported for the observed statistic is the exact
permutation p-value: the number of interleavings of `n` reference and `m` test observations whose KS distance is at least
that of the observed interleaving, over the number `C(n+m, n)` of all interleavings — and the observed interleaving is
one of them. -/
theorem p_exact_sample (ref test s : List ℝ) (hs : s.Pairwise (· < ·)) (hp : s.Perm (ref ++ test)) :
    pExactFrac ref.length test.length (hTwoSided ref test) =
      ((paths ref.length test.length).countP
          (fun p => decide (pathH ref.length test.length (pathOf ref s) ≤ pathH ref.length test.length p)),
        (paths ref.length test.length).length) ∧
    pathOf ref s ∈ paths ref.length test.length := by
  rw [p_exact_dist, hTwoSided_eq_pathH ref test s hs hp]
  exact ⟨rfl, pathOf_mem_paths ref test s hs hp⟩

/-- non-vacuity of the hypotheses of `hTwoSided_eq_pathH` / `p_exact_sample`: `ref = [1, 3]`, `test = [2]` -/
example : ([1, 2, 3] : List ℝ).Pairwise (· < ·) ∧ ([1, 2, 3] : List ℝ).Perm ([1, 3] ++ [2]) := by
  refine ⟨by simp; norm_num, ?_⟩
  exact List.Perm.cons 1 (List.Perm.swap 3 2 [])

end Real

end Frouros.C11


/-! ## Axiom audit -/
#print axioms Frouros.C11.paths_enumerate
#print axioms Frouros.C11.inside_dp
#print axioms Frouros.C11.dp_eq_spec
#print axioms Frouros.C11.choose'_eq
#print axioms Frouros.C11.p_exact
#print axioms Frouros.C11.p_exact_countP
#print axioms Frouros.C11.p_exact_dist
#print axioms Frouros.C11.pExactFrac_num_le_den
#print axioms Frouros.C11.pExactFrac_den_pos
#print axioms Frouros.C11.pExactFrac_zero
#print axioms Frouros.C11.pExactFrac_antitone
#print axioms Frouros.C11.hTwoSided_perm
#print axioms Frouros.C11.hPlus_perm
#print axioms Frouros.C11.hMinus_perm
#print axioms Frouros.C11.pTwoSided_perm
#print axioms Frouros.C11.statistic_perm_partial
#print axioms Frouros.C11.statistic_perm_witness
#print axioms Frouros.C11.incr_eq_batch
#print axioms Frouros.C11.incr_eq_batch_float
#print axioms Frouros.C11.incr_eq_batch_statistic
#print axioms Frouros.C11.statistic_perm_real
#print axioms Frouros.C11.stat_eq_max
#print axioms Frouros.C11.stat_eq_sup
#print axioms Frouros.C11.stat_eq_iSup
#print axioms Frouros.C11.hTwoSided_spec
#print axioms Frouros.C11.stat_eq_lattice
#print axioms Frouros.C11.hTwoSided_eq_pathH
#print axioms Frouros.C11.p_exact_sample
