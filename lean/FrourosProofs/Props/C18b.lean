/-
  C18b — smaller gaps of C18 (circular queues), C11 (IncrementalKSTest) and C09 (streaming MMD).

  1. Circular queue, GENERAL histories (`enqueue / dequeue / clear / keepLast` in any order):
     the queue always holds exactly the last `count` enqueued values (`cq_holds_last_count`), so a
     full queue exposes exactly the last `maxLen` enqueued values (`cq_full_exposes_last_general`);
     error-tolerant runs (`cq_refines_fifo_skip`).
  2. IncrementalKSTest over histories `fit | update | reset` (`incks_run_*`): the reported float
     `statistic`, the lattice statistic and the p-value are the batch values for
     (reference of the last `fit`, last `w` accepted values since the last `reset`).
  3. Streaming MMD over histories `fit | update | reset` (`mmd_run_*`), the explicit rotation of the
     window, every-carrier chunk-size exactness, RBF instantiation.
  4. AccuracyQueue: bridge to `CQ`, totality, no counter underflow; PrequentialError with resets.
-/
import FrourosProofs.Props.C18
import FrourosProofs.Props.C11b
import FrourosProofs.Machine

namespace Frouros.C18b
open Frouros Frouros.C18

/-! ## 1. Circular queue: general histories -/
section Queue
variable {β : Type}
open CQ

/-- payloads of the `enq` operations of a history, in order -/
def enqVals (ops : List (QOp β)) : List β :=
  ops.filterMap (fun op => match op with | .enq v => some v | _ => none)

@[simp] theorem enqVals_nil : enqVals ([] : List (QOp β)) = [] := rfl
@[simp] theorem enqVals_enq (v : β) (ops : List (QOp β)) : enqVals (.enq v :: ops) = v :: enqVals ops := rfl
@[simp] theorem enqVals_deq (ops : List (QOp β)) : enqVals (.deq :: ops) = enqVals ops := rfl
@[simp] theorem enqVals_clear (ops : List (QOp β)) : enqVals (.clear :: ops) = enqVals ops := rfl
@[simp] theorem enqVals_keepLast (ops : List (QOp β)) : enqVals (.keepLast :: ops) = enqVals ops := rfl
theorem enqVals_append (a b : List (QOp β)) : enqVals (a ++ b) = enqVals a ++ enqVals b := by
  simp [enqVals, List.filterMap_append]

/-- one step of the reference deque keeps the contents a suffix of "everything enqueued so far" -/
theorem specStep_suffix {n : Nat} {l l' E : List β} {op : QOp β} {o : Option β}
    (hs : specStep n l op = .ok (o, l')) (hE : l <:+ E) : l' <:+ E ++ enqVals [op] := by
  cases op with
  | enq v =>
    simp only [enqVals_enq, enqVals_nil]
    simp only [specStep] at hs
    split at hs
    · simp only [Except.ok.injEq, Prod.mk.injEq] at hs
      obtain ⟨-, rfl⟩ := hs
      obtain ⟨t, rfl⟩ := (List.tail_suffix l).trans hE
      exact ⟨t, by simp⟩
    · simp only [Except.ok.injEq, Prod.mk.injEq] at hs
      obtain ⟨-, rfl⟩ := hs
      obtain ⟨t, rfl⟩ := hE
      exact ⟨t, by simp⟩
  | deq =>
    simp only [enqVals_deq, enqVals_nil, List.append_nil]
    cases l with
    | nil => simp [specStep] at hs
    | cons x t =>
      simp only [specStep, Except.ok.injEq, Prod.mk.injEq] at hs
      obtain ⟨-, rfl⟩ := hs
      exact (List.suffix_cons x _).trans hE
  | clear =>
    simp only [specStep, Except.ok.injEq, Prod.mk.injEq] at hs
    obtain ⟨-, rfl⟩ := hs
    exact List.nil_suffix
  | keepLast =>
    simp only [enqVals_keepLast, enqVals_nil, List.append_nil]
    simp only [specStep] at hs
    cases hg : l.getLast? with
    | none => simp [hg] at hs
    | some x =>
      simp only [hg, Except.ok.injEq, Prod.mk.injEq] at hs
      obtain ⟨-, rfl⟩ := hs
      obtain ⟨ys, rfl⟩ := List.getLast?_eq_some_iff.mp hg
      exact (List.suffix_append ys [x]).trans hE

/-- whole histories of the reference deque -/
theorem specRun_suffix {n : Nat} (ops : List (QOp β)) {l l' E : List β} {os : List (Option β)}
    (hs : specRun n l ops = .ok (os, l')) (hE : l <:+ E) : l' <:+ E ++ enqVals ops := by
  induction ops generalizing l E os with
  | nil =>
    simp only [specRun, Except.ok.injEq, Prod.mk.injEq] at hs
    obtain ⟨-, rfl⟩ := hs
    simpa using hE
  | cons op ops ih =>
    simp only [specRun] at hs
    cases h1 : specStep n l op with
    | error e => simp [h1] at hs
    | ok p =>
      obtain ⟨o, l1⟩ := p
      simp only [h1] at hs
      cases h2 : specRun n l1 ops with
      | error e => simp [h2] at hs
      | ok p2 =>
        obtain ⟨os1, l2⟩ := p2
        simp only [h2, Except.ok.injEq, Prod.mk.injEq] at hs
        obtain ⟨-, rfl⟩ := hs
        have := ih h2 (specStep_suffix h1 hE)
        rwa [List.append_assoc, ← enqVals_append] at this

/-- a suffix is determined by its length: it is the `lastN` of that length -/
theorem suffix_eq_lastN {γ : Type} {l E : List γ} (h : l <:+ E) : l = lastN l.length E := by
  obtain ⟨t, rfl⟩ := h
  simp [lastN]

/-- `maxLen` is constant along a successful run -/
theorem implRun_maxLen {q q' : CQ β} (h : WF q) {l : List β} (habs : q.toList = l.map some)
    (ops : List (QOp β)) {os : List (Option β)} (hr : implRun q ops = .ok (os, q')) : q'.maxLen = q.maxLen := by
  induction ops generalizing q l os with
  | nil =>
    simp only [implRun, Except.ok.injEq, Prod.mk.injEq] at hr
    rw [hr.2]
  | cons op ops ih =>
    simp only [implRun] at hr
    cases h1 : implStep q op with
    | error e => simp [h1] at hr
    | ok p =>
      obtain ⟨o, q1⟩ := p
      simp only [h1] at hr
      cases h2 : implRun q1 ops with
      | error e => simp [h2] at hr
      | ok p2 =>
        obtain ⟨os1, q2⟩ := p2
        simp only [h2, Except.ok.injEq, Prod.mk.injEq] at hr
        obtain ⟨-, rfl⟩ := hr
        obtain ⟨w1, m1, l1, -, a1⟩ := (cq_refines_fifo h habs op).2 o q1 h1
        rw [ih w1 a1 h2, m1]

/-- **General histories, from any well-formed queue.**  If `q` is well formed and holds the values `l`
(oldest first), then after ANY history `ops` of `enqueue / dequeue / clear / keepLast` calls that does
not raise, the queue holds exactly the last `count` values of `l ++ (values enqueued by ops)`, oldest
first, and its outputs and contents agree with the reference deque `specRun`. -/
theorem cq_holds_last_count_from {q q' : CQ β} {l : List β} (h : WF q) (habs : q.toList = l.map some)
    (ops : List (QOp β)) {os : List (Option β)} (hr : implRun q ops = .ok (os, q')) :
    WF q' ∧ q'.maxLen = q.maxLen ∧
    ∃ l', specRun q.maxLen l ops = .ok (os, l') ∧ q'.toList = l'.map some ∧
      l' = lastN q'.count (l ++ enqVals ops) := by
  obtain ⟨w', l', hs, ha⟩ := (cq_refines_fifo_run h habs ops).2 os q' hr
  refine ⟨w', implRun_maxLen h habs ops hr, l', hs, ha, ?_⟩
  have hc : q'.count = l'.length := by rw [count_eq_length, ha, List.length_map]
  rw [hc]
  exact suffix_eq_lastN (specRun_suffix ops hs (List.suffix_refl l))

/-- **The queue always holds exactly the last `count` enqueued values** — every capacity `n > 0`, every
history from `init n` in which `enqueue`, `dequeue`, `clear`, `keep-last` are interleaved in any order
(and that does not raise; for raising operations see `cq_refines_fifo_skip`). -/
theorem cq_holds_last_count {n : Nat} (hn : 0 < n) (ops : List (QOp β)) {os : List (Option β)} {q' : CQ β}
    (hr : implRun (CQ.init n : CQ β) ops = .ok (os, q')) :
    q'.toList = (lastN q'.count (enqVals ops)).map some ∧ q'.count ≤ n := by
  obtain ⟨w', m', l', -, ha, hl⟩ :=
    cq_holds_last_count_from (init_WF hn : WF (CQ.init n : CQ β)) (l := []) (by simp [CQ.init, toList]) ops hr
  refine ⟨by rw [ha, hl]; simp, ?_⟩
  have := w'.cnt
  rw [m'] at this
  exact this

/-- **C18, clause "a full queue exposes exactly the last `max_len` items", for general histories.**
After any non-raising history from `init n` (`0 < n`): outputs and contents are those of the reference
deque; the contents are a suffix of the sequence of enqueued values; and when the queue is full
(`count = maxLen = n`) they are exactly the last `n` enqueued values, oldest first, while the raw backing
list (what `np.array(queue)` iterates over) is the rotation by `first` — hence a permutation — of them. -/
theorem cq_full_exposes_last_general {n : Nat} (hn : 0 < n) (ops : List (QOp β)) {os : List (Option β)}
    {q' : CQ β} (hr : implRun (CQ.init n : CQ β) ops = .ok (os, q')) :
    ∃ l', specRun n [] ops = .ok (os, l') ∧ q'.toList = l'.map some ∧ q'.count = l'.length ∧
      l' <:+ enqVals ops ∧
      (q'.isFull = true →
        l' = (enqVals ops).drop ((enqVals ops).length - n) ∧
        q'.toList = q'.raw.rotate q'.first ∧ q'.raw.Perm ((lastN n (enqVals ops)).map some)) := by
  obtain ⟨w', m', l', hs, ha, hl⟩ :=
    cq_holds_last_count_from (init_WF hn : WF (CQ.init n : CQ β)) (l := []) (by simp [CQ.init, toList]) ops hr
  have hc : q'.count = l'.length := by rw [count_eq_length, ha, List.length_map]
  have hsuf : l' <:+ enqVals ops := by simpa using specRun_suffix ops hs (List.suffix_refl ([] : List β))
  refine ⟨l', hs, ha, hc, hsuf, fun hf => ?_⟩
  have hcn : q'.count = n := by
    have : q'.count = q'.maxLen := by simpa [isFull] using hf
    rw [this, m']; rfl
  have hl' : l' = lastN n (enqVals ops) := by rw [hl, hcn]; simp
  refine ⟨hl', toList_full_eq_rotate w' hf, ?_⟩
  rw [← hl', ← ha]
  exact raw_perm_toList_of_full w' hf

/-- non-vacuity: a mixed history (enqueue, dequeue, keep-last, clear, wrap-around) ending in a full queue -/
example : ∃ q' : CQ Nat, implRun (CQ.init 2) [.enq 1, .enq 2, .deq, .enq 3, .keepLast, .enq 4, .clear, .enq 5, .enq 6, .enq 7] =
    .ok ([none, none, some 1, none, none, none, none, none, none, some 5], q') ∧ q'.isFull = true ∧
    q'.toList = [some 6, some 7] := ⟨⟨2, 1, some 0, 2, [some 7, some 6]⟩, by decide, by decide, by decide⟩

/-! ### error-tolerant runs: a raising operation leaves the queue unchanged and the history goes on -/

/-- run a whole history; an operation that raises is recorded as `.error e` and leaves the queue as it
was (in the Python code the emptiness test precedes every mutation) -/
def implRunSkip (q : CQ β) : List (QOp β) → List (Except Err (Option β)) × CQ β
  | [] => ([], q)
  | op :: ops => match implStep q op with
    | .error e => (.error e :: (implRunSkip q ops).1, (implRunSkip q ops).2)
    | .ok (o, q') => (.ok o :: (implRunSkip q' ops).1, (implRunSkip q' ops).2)

def specRunSkip (n : Nat) (l : List β) : List (QOp β) → List (Except Err (Option β)) × List β
  | [] => ([], l)
  | op :: ops => match specStep n l op with
    | .error e => (.error e :: (specRunSkip n l ops).1, (specRunSkip n l ops).2)
    | .ok (o, l') => (.ok o :: (specRunSkip n l' ops).1, (specRunSkip n l' ops).2)

theorem specRunSkip_suffix {n : Nat} (ops : List (QOp β)) {l E : List β} (hE : l <:+ E) :
    (specRunSkip n l ops).2 <:+ E ++ enqVals ops := by
  induction ops generalizing l E with
  | nil => simpa [specRunSkip] using hE
  | cons op ops ih =>
    simp only [specRunSkip]
    have happ : E ++ enqVals (op :: ops) = (E ++ enqVals [op]) ++ enqVals ops := by
      rw [List.append_assoc, ← enqVals_append]; rfl
    cases h1 : specStep n l op with
    | error e =>
      simp only []
      rw [happ]
      have : enqVals [op] = [] := by
        cases op with
        | enq v => simp only [specStep] at h1; split at h1 <;> simp at h1
        | _ => rfl
      rw [this, List.append_nil]
      exact ih hE
    | ok p =>
      obtain ⟨o, l1⟩ := p
      simp only []
      rw [happ]
      exact ih (specStep_suffix h1 hE)

/-- **Simulation for error-tolerant histories.**  From related states (`WF q`, `toList q = l.map some`), for
EVERY list of operations — including those on which `dequeue` / `keep-last` raise `EmptyQueueError` and the
client carries on — the circular queue and the reference deque produce the same sequence of results
(`.ok output` or `.error e`, position by position) and end in related states. -/
theorem cq_refines_fifo_skip {q : CQ β} {l : List β} (h : WF q) (habs : q.toList = l.map some)
    (ops : List (QOp β)) :
    (implRunSkip q ops).1 = (specRunSkip q.maxLen l ops).1 ∧
    WF (implRunSkip q ops).2 ∧ (implRunSkip q ops).2.maxLen = q.maxLen ∧
    (implRunSkip q ops).2.toList = (specRunSkip q.maxLen l ops).2.map some := by
  induction ops generalizing q l with
  | nil => exact ⟨rfl, h, rfl, habs⟩
  | cons op ops ih =>
    obtain ⟨e1, e2⟩ := cq_refines_fifo h habs op
    cases hi : implStep q op with
    | error err =>
      have hs := (e1 err).mp hi
      obtain ⟨i1, i2, i3, i4⟩ := ih h habs
      simp only [implRunSkip, specRunSkip, hi, hs]
      exact ⟨by rw [i1], i2, i3, i4⟩
    | ok p =>
      obtain ⟨o, q1⟩ := p
      obtain ⟨w1, m1, l1, s1, a1⟩ := e2 o q1 hi
      obtain ⟨i1, i2, i3, i4⟩ := ih w1 a1
      rw [m1] at i1 i3 i4
      simp only [implRunSkip, specRunSkip, hi, s1]
      exact ⟨by rw [i1], i2, i3, i4⟩

/-- **"Every sequence of operations", literally.**  For every capacity `n > 0` and EVERY list of operations
from `init n` (raising operations are skipped, as a client catching `EmptyQueueError` would do): same results
as the reference deque, the queue holds exactly the last `count` enqueued values, and a full queue holds exactly
the last `n` enqueued values. -/
theorem cq_skip_from_init {n : Nat} (hn : 0 < n) (ops : List (QOp β)) :
    let q' := (implRunSkip (CQ.init n : CQ β) ops).2
    (implRunSkip (CQ.init n : CQ β) ops).1 = (specRunSkip n [] ops).1 ∧
    q'.toList = (specRunSkip n [] ops).2.map some ∧
    q'.toList = (lastN q'.count (enqVals ops)).map some ∧
    (q'.isFull = true → q'.toList = (lastN n (enqVals ops)).map some) := by
  intro q'
  obtain ⟨i1, i2, i3, i4⟩ :=
    cq_refines_fifo_skip (init_WF hn : WF (CQ.init n : CQ β)) (l := []) (by simp [CQ.init, toList]) ops
  have i3' : q'.maxLen = n := i3
  have i4' : q'.toList = (specRunSkip n [] ops).2.map some := i4
  have hc : q'.count = (specRunSkip n [] ops).2.length := by rw [count_eq_length, i4', List.length_map]
  have hsuf : (specRunSkip n [] ops).2 <:+ enqVals ops := by
    simpa using specRunSkip_suffix (n := n) ops (List.suffix_refl ([] : List β))
  have hl : q'.toList = (lastN q'.count (enqVals ops)).map some := by
    rw [i4', hc]; exact congrArg _ (suffix_eq_lastN hsuf)
  refine ⟨i1, i4', hl, fun hf => ?_⟩
  have : q'.count = q'.maxLen := by simpa [isFull] using hf
  rw [hl, this, i3']

/-- non-vacuity: a history in which two operations raise and the run continues -/
example : implRunSkip (CQ.init 2 : CQ Nat) [.deq, .enq 1, .deq, .keepLast, .enq 2, .enq 3, .enq 4] =
    ([.error .emptyQueue, .ok none, .ok (some 1), .error .emptyQueue, .ok none, .ok none, .ok (some 2)],
      ⟨2, 0, some 1, 2, [some 3, some 4]⟩) := by decide

end Queue
/-! ## 2. Histories `fit | update | reset` of the two windowed streaming detectors

`C11b` (IncrementalKSTest) and `C09` (streaming MMD) treat runs `fit (init w) ref; update*`.  Here the
history is an arbitrary list of `fit`, `update` and `reset` calls.  The specification is a three-line
ghost machine that remembers the reference of the last `fit` and the values accepted since the last
`reset` (an `update` on an unfitted detector raises MissingFitError and is not accepted; a second `fit`
WITHOUT `reset` keeps the accepted values: the window keeps sliding, cf. `C11b.refit_keeps_window`). -/
section Ghost
variable {X : Type}

/-- the public operations of a windowed streaming detector -/
inductive WOp (X : Type) where
  | fit (xs : List X) | update (v : X) | reset

/-- ghost state: (reference passed to the last `fit` since the last `reset`, if any;
values of the accepted updates since the last `reset`, oldest first) -/
def ghostStep (g : Option (List X) × List X) : WOp X → Option (List X) × List X
  | .fit xs => (some xs, g.2)
  | .update v => match g.1 with | none => g | some r => (some r, g.2 ++ [v])
  | .reset => (none, [])
def ghostFrom (g : Option (List X) × List X) (ops : List (WOp X)) : Option (List X) × List X :=
  ops.foldl ghostStep g
def ghost (ops : List (WOp X)) : Option (List X) × List X := ghostFrom (none, []) ops

/-! ### the ghost machine, read declaratively -/

theorem ghostFrom_append (g : Option (List X) × List X) (a b : List (WOp X)) :
    ghostFrom g (a ++ b) = ghostFrom (ghostFrom g a) b := by simp [ghostFrom, List.foldl_append]

/-- whatever happened before a `reset` is forgotten -/
theorem ghost_reset (pre post : List (WOp X)) : ghost (pre ++ [.reset] ++ post) = ghost post := by
  simp [ghost, ghostFrom, List.foldl_append, ghostStep]

/-- updates on an unfitted detector are not accepted -/
theorem ghostFrom_unfitted (vals : List X) (junk : List X) :
    ghostFrom (none, vals) (junk.map WOp.update) = (none, vals) := by
  induction junk with
  | nil => rfl
  | cons v vs ih => simpa [ghostFrom, ghostStep] using ih

/-- updates on a fitted detector are accepted in order -/
theorem ghostFrom_fitted (r : List X) (vals vs : List X) :
    ghostFrom (some r, vals) (vs.map WOp.update) = (some r, vals ++ vs) := by
  induction vs generalizing vals with
  | nil => simp [ghostFrom]
  | cons v vs ih =>
    have := ih (vals ++ [v])
    simpa [ghostFrom, ghostStep] using this

/-- a (re-)`fit` replaces the reference and keeps the accepted values -/
theorem ghost_fit (ops : List (WOp X)) (xs : List X) : ghost (ops ++ [.fit xs]) = (some xs, (ghost ops).2) := by
  simp [ghost, ghostFrom, List.foldl_append, ghostStep]

/-- the fresh-fit runs of `C11b` / `C09` -/
theorem ghost_fresh (r vs : List X) : ghost (WOp.fit r :: vs.map WOp.update) = (some r, vs) := by
  simpa [ghost, ghostFrom, ghostStep] using ghostFrom_fitted r [] vs

/-- the standard shape of a history since the last reset: rejected updates, a `fit`, updates `vs`, a second `fit`
(no reset in between), updates `vs'` -/
theorem ghost_shape (pre : List (WOp X)) (junk : List X) (r r' vs vs' : List X) :
    ghost (pre ++ [.reset] ++ (junk.map .update ++ [.fit r] ++ vs.map .update)) = (some r, vs) ∧
    ghost (pre ++ [.reset] ++ (junk.map .update ++ [.fit r] ++ vs.map .update ++ [.fit r'] ++ vs'.map .update))
      = (some r', vs ++ vs') := by
  have h1 : ghost (junk.map WOp.update ++ [.fit r] ++ vs.map .update) = (some r, vs) := by
    unfold ghost
    rw [ghostFrom_append, ghostFrom_append, ghostFrom_unfitted]
    simpa [ghostFrom, ghostStep] using ghostFrom_fitted r [] vs
  refine ⟨by rw [ghost_reset, h1], ?_⟩
  rw [ghost_reset]
  unfold ghost at h1 ⊢
  rw [ghostFrom_append, ghostFrom_append, h1]
  simpa [ghostFrom, ghostStep] using ghostFrom_fitted r' vs vs'

/-- the ghost is unfitted exactly when it has accepted nothing it could still hold: unfitted ⇒ no values -/
theorem ghostFrom_unfit {g : Option (List X) × List X} (hg : g.1 = none → g.2 = []) (ops : List (WOp X)) :
    (ghostFrom g ops).1 = none → (ghostFrom g ops).2 = [] := by
  induction ops generalizing g with
  | nil => exact hg
  | cons op ops ih =>
    apply ih
    cases op with
    | fit xs => intro h; simp [ghostStep] at h
    | update v =>
      cases h1 : g.1 with
      | none => simpa [ghostStep, h1] using hg h1
      | some r => intro h; simp [ghostStep, h1] at h
    | reset => intro _; rfl
end Ghost

/-! ## 2a. IncrementalKSTest -/
section KS
open Frouros.KS Frouros.C09 Frouros.C11 Frouros.C11b
variable {α : Type} [Num α]

/-- implementation step (outputs discarded) -/
def kStep (s : IncKS.State α) : WOp α → IncKS.State α
  | .fit xs => IncKS.fit s xs
  | .update v => (IncKS.update s v).2
  | .reset => IncKS.reset s

/-- state after a history -/
def kRun (s : IncKS.State α) (ops : List (WOp α)) : IncKS.State α := ops.foldl kStep s

/-- the batch result for (reference, window): what `KSTest` computes on the two samples -/
def batchK (ref win : List α) : IncKS.Result α :=
  ⟨KS.statistic ref win, KS.hTwoSided ref win, IncKS.pOf ref.length win.length (KS.hTwoSided ref win)⟩

/-! ### the invariant -/

/-- state invariant tying the detector state to the ghost state -/
structure RInv (w : Nat) (g : Option (List α) × List α) (s : IncKS.State α) : Prop where
  n_eq : s.n = g.2.length
  window_eq : s.window = w
  ref_eq : s.ref = g.1.map Hist.sort
  q_inv : QInv w g.2 s.q
  unfit : g.1 = none → g.2 = []

theorem rinv_init (w : Nat) : RInv w (none, []) (IncKS.init w : IncKS.State α) :=
  ⟨rfl, rfl, rfl, qinv_init w, fun _ => rfl⟩

theorem RInv.kinv {w : Nat} {g : Option (List α) × List α} {s : IncKS.State α} (h : RInv w g s) {r : List α}
    (hg : g.1 = some r) : KInv w r g.2 s :=
  ⟨h.n_eq, h.window_eq, by rw [h.ref_eq, hg]; rfl, h.q_inv⟩

theorem rinv_step {w : Nat} (hw : 0 < w) {g : Option (List α) × List α} {s : IncKS.State α} (h : RInv w g s)
    (op : WOp α) : RInv w (ghostStep g op) (kStep s op) := by
  cases op with
  | fit xs => exact ⟨h.n_eq, h.window_eq, rfl, h.q_inv, fun hn => by simp [ghostStep] at hn⟩
  | update v =>
    cases hg : g.1 with
    | none =>
      have hr : s.ref = none := by rw [h.ref_eq, hg]; rfl
      have : kStep s (.update v) = s := by simp [kStep, (update_unfitted s hr v).2]
      rw [this]
      simpa [ghostStep, hg] using h
    | some r =>
      obtain ⟨s', he, hs⟩ := update_spec w hw r g.2 s (h.kinv hg) v
      have : kStep s (.update v) = s' := by simp [kStep, he]
      rw [this]
      simp only [ghostStep, hg]
      exact ⟨hs.n_eq, hs.window_eq, hs.ref_eq, hs.q_inv, fun hn => by simp at hn⟩
  | reset =>
    refine ⟨rfl, h.window_eq, rfl, ?_, fun _ => rfl⟩
    have : (IncKS.reset s).q = CQ.init w := by
      show s.q.clear = CQ.init w
      rw [← h.q_inv.maxLen]; rfl
    simp only [kStep, ghostStep]
    rw [this]
    exact qinv_init w

theorem rinv_runFrom {w : Nat} (hw : 0 < w) (ops : List (WOp α)) {g : Option (List α) × List α}
    {s : IncKS.State α} (h : RInv w g s) : RInv w (ghostFrom g ops) (kRun s ops) := by
  induction ops generalizing g s with
  | nil => exact h
  | cons op ops ih => exact ih (rinv_step hw h op)

/-- the invariant holds after every history from the freshly constructed detector -/
theorem rinv_run {w : Nat} (hw : 0 < w) (ops : List (WOp α)) : RInv w (ghost ops) (kRun (IncKS.init w) ops) :=
  rinv_runFrom hw ops (rinv_init w)

/-- one update from a state satisfying the invariant, fitted with reference `r` -/
theorem rinv_update_batch {w : Nat} (hw : 0 < w) {g : Option (List α) × List α} {s : IncKS.State α}
    (h : RInv w g s) {r : List α} (hg : g.1 = some r) (v : α) :
    IncKS.updateErr s = none ∧
    (g.2.length + 1 < w → (IncKS.update s v).1 = none) ∧
    (w ≤ g.2.length + 1 → ∃ res : IncKS.Result α, (IncKS.update s v).1 = some res ∧
      res.h = (batchK r (CQ.lastN w (g.2 ++ [v]))).h ∧ res.p = (batchK r (CQ.lastN w (g.2 ++ [v]))).p ∧
      (LtStrictTotalOn (diffs r (CQ.lastN w (g.2 ++ [v]))) → res = batchK r (CQ.lastN w (g.2 ++ [v])))) := by
  obtain ⟨s', he, hs⟩ := update_spec w hw r g.2 s (h.kinv hg) v
  refine ⟨by simp [IncKS.updateErr, h.ref_eq, hg], fun hlt => by rw [he, if_pos hlt], fun hge => ?_⟩
  have hperm : (s'.q.raw.filterMap id).Perm (CQ.lastN w (g.2 ++ [v])) :=
    qinv_raw_perm w (g.2 ++ [v]) s'.q hs.q_inv (by simpa using hge)
  have hh := incr_eq_batch r _ _ hperm
  have h1 : (Hist.sort r).length = r.length := (sort_perm r).length_eq
  have h2 := hperm.length_eq
  refine ⟨_, by rw [he, if_neg (by omega)], hh, ?_, fun hS => ?_⟩
  · simp only [batchK, h1, h2, hh]
  · simp only [batchK, h1, h2, hh, incr_eq_batch_statistic r _ _ hperm hS]

/-! ### run-level theorems -/

/-- **Unfitted states.**  After any history whose ghost is unfitted (nothing but rejected updates since
construction / the last `reset`), `update` raises MissingFitError and changes nothing; in particular the
window restarts empty after a `reset` (`(ghost ops).2 = []`, `n = 0`). -/
theorem incks_run_unfitted {w : Nat} (hw : 0 < w) (ops : List (WOp α)) (hg : (ghost ops).1 = none) (v : α) :
    IncKS.updateErr (kRun (IncKS.init w) ops) = some .missingFit ∧
    IncKS.update (kRun (IncKS.init w) ops) v = (none, kRun (IncKS.init w) ops) ∧
    (kRun (IncKS.init w) ops).n = 0 ∧ (ghost ops).2 = [] := by
  have h := rinv_run (α := α) hw ops
  have hr : (kRun (IncKS.init w) ops).ref = none := by rw [h.ref_eq, hg]; rfl
  have h2 := h.unfit hg
  exact ⟨(update_unfitted _ hr v).1, (update_unfitted _ hr v).2, by rw [h.n_eq, h2]; rfl, h2⟩

/-- **Incremental = batch over arbitrary histories (every carrier, hence IEEE doubles).**  Let `ops` be any list
of `fit` / `update` / `reset` calls on a detector of window size `w > 0`, `r` the reference of the last `fit` since
the last `reset`, `vals` the updates accepted since the last `reset`.  The next `update v` does not raise, returns
nothing while `|vals| + 1 < w`, and otherwise returns a result whose lattice statistic `h` is the batch
`hTwoSided r (last w values of vals ++ [v])` and whose p-value is `pOf |r| w h` (exact fraction iff
`max |r| w ≤ 10000`, see `C11b.pOf_exact_iff`). -/
theorem incks_run_eq_batch {w : Nat} (hw : 0 < w) (ops : List (WOp α)) {r : List α} (hg : (ghost ops).1 = some r)
    (v : α) :
    IncKS.updateErr (kRun (IncKS.init w) ops) = none ∧
    ((ghost ops).2.length + 1 < w → (IncKS.update (kRun (IncKS.init w) ops) v).1 = none) ∧
    (w ≤ (ghost ops).2.length + 1 → ∃ res : IncKS.Result α,
      (IncKS.update (kRun (IncKS.init w) ops) v).1 = some res ∧
      res.h = KS.hTwoSided r (CQ.lastN w ((ghost ops).2 ++ [v])) ∧
      res.p = IncKS.pOf r.length w res.h) := by
  obtain ⟨h1, h2, h3⟩ := rinv_update_batch hw (rinv_run (α := α) hw ops) hg v
  refine ⟨h1, h2, fun hge => ?_⟩
  obtain ⟨res, e1, e2, e3, -⟩ := h3 hge
  refine ⟨res, e1, e2, ?_⟩
  rw [e3, e2]
  simp only [batchK, CQ.length_lastN, List.length_append, List.length_singleton]
  congr 1; omega

/-- **The reported float statistic, every carrier — PARTIAL.**  Under the hypothesis of `C11.incr_eq_batch_statistic`
(`Num.lt` is a strict total order on the CDF differences of reference vs. window) the WHOLE result — including the
floating `statistic` field the user sees — is the batch result `batchK r window`.
What is missing for "full": the hypothesis `hS` cannot be dropped for an arbitrary carrier
(`incks_statistic_witness`); at IEEE doubles it holds when no difference is NaN (differences of ratios of counts
never are, but that is a fact about `Float`, outside the `Num` interface).  Over `ℝ` it always holds:
`incks_run_eq_batch_real`. -/
theorem incks_run_statistic_partial {w : Nat} (hw : 0 < w) (ops : List (WOp α)) {r : List α}
    (hg : (ghost ops).1 = some r) (v : α) (hge : w ≤ (ghost ops).2.length + 1)
    (hS : LtStrictTotalOn (diffs r (CQ.lastN w ((ghost ops).2 ++ [v])))) :
    (IncKS.update (kRun (IncKS.init w) ops) v).1 = some (batchK r (CQ.lastN w ((ghost ops).2 ++ [v]))) := by
  obtain ⟨-, -, h3⟩ := rinv_update_batch hw (rinv_run (α := α) hw ops) hg v
  obtain ⟨res, e1, -, -, e4⟩ := h3 hge
  rw [e1, e4 hS]

/-- **Incremental = batch over arbitrary histories, carrier `ℝ`, all three reported fields.**  The output of
every `update` of a fitted detector is `none` during warm-up and then exactly the batch result
(`statistic`, `h`, p-value) for (reference of the last `fit`, last `w` values accepted since the last `reset`). -/
theorem incks_run_eq_batch_real {w : Nat} (hw : 0 < w) (ops : List (WOp ℝ)) {r : List ℝ}
    (hg : (ghost ops).1 = some r) (v : ℝ) :
    (IncKS.update (kRun (IncKS.init w) ops) v).1 =
      if (ghost ops).2.length + 1 < w then none
      else some (batchK r (CQ.lastN w ((ghost ops).2 ++ [v]))) := by
  split
  · next hlt => exact (incks_run_eq_batch hw ops hg v).2.1 hlt
  · next hge => exact incks_run_statistic_partial hw ops hg v (by omega) (ltStrictTotalOn_real _)

/-- **State after any history (every carrier):** the counter is the number of updates accepted since the last
`reset` (so every `update` of a fitted detector is counted: the branch of the model that swallows an enqueue error
is dead for `w > 0`), the window size is never changed, and the stored reference is the sorted reference of the
last `fit` since the last `reset`. -/
theorem incks_run_state {w : Nat} (hw : 0 < w) (ops : List (WOp α)) :
    (kRun (IncKS.init w) ops).n = (ghost ops).2.length ∧ (kRun (IncKS.init w) ops).window = w ∧
    (kRun (IncKS.init w) ops).ref = (ghost ops).1.map Hist.sort ∧
    (kRun (IncKS.init w) ops).q.count = min (ghost ops).2.length w :=
  let h := rinv_run (α := α) hw ops
  ⟨h.n_eq, h.window_eq, h.ref_eq, h.q_inv.count⟩

/-- **The two behaviours named in the property, as one statement over `ℝ`.**  Since the last `reset`: rejected
updates `junk`, `fit r`, updates `vs`, a SECOND `fit r'` without reset, updates `vs'`.  Whatever `pre` happened before
the reset is forgotten (the window restarts), `junk` leaves no trace, and after the second `fit` the window keeps
sliding over `vs ++ vs'` (values accepted under the OLD reference are tested against the NEW one). -/
theorem incks_history_shape_real {w : Nat} (hw : 0 < w) (pre : List (WOp ℝ)) (junk r r' vs vs' : List ℝ) (v : ℝ) :
    (IncKS.update (kRun (IncKS.init w)
        (pre ++ [.reset] ++ (junk.map .update ++ [.fit r] ++ vs.map .update))) v).1 =
      (if vs.length + 1 < w then none else some (batchK r (CQ.lastN w (vs ++ [v])))) ∧
    (IncKS.update (kRun (IncKS.init w)
        (pre ++ [.reset] ++ (junk.map .update ++ [.fit r] ++ vs.map .update ++ [.fit r'] ++ vs'.map .update))) v).1 =
      (if (vs ++ vs').length + 1 < w then none else some (batchK r' (CQ.lastN w (vs ++ vs' ++ [v])))) := by
  obtain ⟨g1, g2⟩ := ghost_shape pre junk r r' vs vs'
  constructor
  · have := incks_run_eq_batch_real hw _ (congrArg Prod.fst g1) v
    rw [this, g1]
  · have := incks_run_eq_batch_real hw _ (congrArg Prod.fst g2) v
    rw [this, g2]

/-- non-vacuity of `incks_run_unfitted`: after `fit; update; reset; update` the ghost is unfitted -/
example : (ghost ([.fit [1, 2], .update 3, .reset, .update 4] : List (WOp ℝ))).1 = none := by
  simp [ghost, ghostFrom, ghostStep]
/-- non-vacuity of the hypothesis `hS` of `incks_run_statistic_partial`: it holds for every real history -/
example (w : Nat) (ops : List (WOp ℝ)) (r : List ℝ) (v : ℝ) :
    LtStrictTotalOn (diffs r (CQ.lastN w ((ghost ops).2 ++ [v]))) := ltStrictTotalOn_real _

/-! ### the same for the fresh-fit runs of `C11b` (`fit (init w) ref; update*`) -/

theorem kRun_fresh (w : Nat) (ref vs : List α) :
    kRun (IncKS.init w) (WOp.fit ref :: vs.map WOp.update) = runK (IncKS.fit (IncKS.init w) ref) vs := by
  simp [kRun, kStep, runK, List.foldl_map]

/-- `C11b.incks_eq_batch` completed with the `statistic` field (every carrier, PARTIAL: needs `hS`, see
`incks_run_statistic_partial`) -/
theorem incks_statistic_eq_batch_partial (w : Nat) (hw : 0 < w) (ref vs : List α) (v : α) (ht : w ≤ vs.length + 1)
    (hS : LtStrictTotalOn (diffs ref ((vs ++ [v]).drop (vs.length + 1 - w)))) :
    ∃ res : IncKS.Result α,
      (IncKS.update (runK (IncKS.fit (IncKS.init w) ref) vs) v).1 = some res ∧
      res.statistic = KS.statistic ref ((vs ++ [v]).drop (vs.length + 1 - w)) ∧
      res.h = KS.hTwoSided ref ((vs ++ [v]).drop (vs.length + 1 - w)) ∧
      res.p = IncKS.pOf ref.length w res.h := by
  have hgh := ghost_fresh ref vs
  have hwin : CQ.lastN w ((ghost (WOp.fit ref :: vs.map WOp.update)).2 ++ [v])
      = (vs ++ [v]).drop (vs.length + 1 - w) := by simp [hgh, CQ.lastN]
  have hg : (ghost (WOp.fit ref :: vs.map WOp.update)).1 = some ref := by rw [hgh]
  have hlen : (ghost (WOp.fit ref :: vs.map WOp.update)).2.length = vs.length := by rw [hgh]
  have h := incks_run_statistic_partial hw _ hg v (by omega) (by rw [hwin]; exact hS)
  rw [kRun_fresh, hwin] at h
  refine ⟨_, h, rfl, rfl, ?_⟩
  simp only [batchK, List.length_drop, List.length_append, List.length_singleton]
  congr 1; omega

/-- `C11b.incks_eq_batch` completed with the `statistic` field over `ℝ`, unconditionally -/
theorem incks_eq_batch_real (w : Nat) (hw : 0 < w) (ref vs : List ℝ) (v : ℝ) (ht : w ≤ vs.length + 1) :
    ∃ res : IncKS.Result ℝ,
      (IncKS.update (runK (IncKS.fit (IncKS.init w) ref) vs) v).1 = some res ∧
      res.statistic = KS.statistic ref ((vs ++ [v]).drop (vs.length + 1 - w)) ∧
      res.h = KS.hTwoSided ref ((vs ++ [v]).drop (vs.length + 1 - w)) ∧
      res.p = IncKS.pOf ref.length w res.h :=
  incks_statistic_eq_batch_partial w hw ref vs v ht (ltStrictTotalOn_real _)

/-- why `hS` is needed: on the artificial carrier of `C11.statistic_perm_witness` (`lt` constantly false) the
detector with `w = 1` fitted on `[2, 1]` reports, for the update `3`, a `statistic` different from the batch
statistic of (`[2, 1]`, `[3]`) — the detector sorts its reference, and this `statistic` is order dependent. -/
theorem incks_statistic_witness :
    ((@IncKS.update Int degenerateNum (@IncKS.fit Int degenerateNum (IncKS.init 1) [2, 1]) 3).1.map
        (fun res => res.statistic)) ≠ some (@KS.statistic Int degenerateNum [2, 1] [3]) := by
  decide

/-! ### whole output traces -/

/-- what one call hands back to the client: nothing for `fit` / `reset`; for `update` either MissingFitError
or the optional result -/
def kOut (s : IncKS.State α) : WOp α → Option (Except Err (Option (IncKS.Result α)))
  | .update v => some (match IncKS.updateErr s with | some e => .error e | none => .ok (IncKS.update s v).1)
  | _ => none

/-- the sequence of everything the `update` calls of a history return -/
def kTrace (s : IncKS.State α) : List (WOp α) → List (Except Err (Option (IncKS.Result α)))
  | [] => []
  | op :: ops => (kOut s op).toList ++ kTrace (kStep s op) ops

/-- specification of one output from the ghost state: the BATCH test of (reference, last `w` accepted values) -/
def kSpecOut (w : Nat) (g : Option (List α) × List α) : WOp α → Option (Except Err (Option (IncKS.Result α)))
  | .update v => some (match g.1 with
    | none => .error .missingFit
    | some r => .ok (if g.2.length + 1 < w then none else some (batchK r (CQ.lastN w (g.2 ++ [v])))))
  | _ => none

def kSpecTrace (w : Nat) (g : Option (List α) × List α) : List (WOp α) → List (Except Err (Option (IncKS.Result α)))
  | [] => []
  | op :: ops => (kSpecOut w g op).toList ++ kSpecTrace w (ghostStep g op) ops

/-- forget the floating `statistic` field -/
def projK : Except Err (Option (IncKS.Result α)) → Except Err (Option (Nat × Option (Nat × Nat)))
  | .error e => .error e
  | .ok o => .ok (o.map fun res => (res.h, res.p))

theorem kOut_proj {w : Nat} (hw : 0 < w) {g : Option (List α) × List α} {s : IncKS.State α} (h : RInv w g s)
    (op : WOp α) : (kOut s op).map projK = (kSpecOut w g op).map projK := by
  cases op with
  | fit xs => rfl
  | reset => rfl
  | update v =>
    cases hg : g.1 with
    | none =>
      have hr : s.ref = none := by rw [h.ref_eq, hg]; rfl
      simp [kOut, kSpecOut, hg, (update_unfitted s hr v).1]
    | some r =>
      obtain ⟨h1, h2, h3⟩ := rinv_update_batch hw h hg v
      by_cases hlt : g.2.length + 1 < w
      · simp [kOut, kSpecOut, hg, h1, h2 hlt, hlt]
      · obtain ⟨res, e1, e2, e3, -⟩ := h3 (by omega)
        simp [kOut, kSpecOut, hg, h1, e1, hlt, projK, e2, e3]

/-- **Whole traces, every carrier.**  For every history of `fit` / `update` / `reset` calls from the freshly
constructed detector (`w > 0`), the sequence of everything the `update` calls return — MissingFitError,
"nothing yet", or a result — agrees with the batch specification in the lattice statistic `h` and the p-value,
position by position. -/
theorem incks_trace_eq_batch {w : Nat} (hw : 0 < w) (ops : List (WOp α)) :
    (kTrace (IncKS.init w) ops).map projK = (kSpecTrace w (none, []) ops).map projK := by
  suffices H : ∀ (ops : List (WOp α)) (g : Option (List α) × List α) (s : IncKS.State α), RInv w g s →
      (kTrace s ops).map projK = (kSpecTrace w g ops).map projK from H ops _ _ (rinv_init w)
  intro ops
  induction ops with
  | nil => intro g s _; rfl
  | cons op ops ih =>
    intro g s h
    have h1 := kOut_proj hw h op
    have h2 := ih _ _ (rinv_step hw h op)
    simp only [kTrace, kSpecTrace, List.map_append, h2]
    congr 1
    cases ho : kOut s op <;> cases hs : kSpecOut w g op <;> simp_all

theorem kOut_real {w : Nat} (hw : 0 < w) {g : Option (List ℝ) × List ℝ} {s : IncKS.State ℝ} (h : RInv w g s)
    (op : WOp ℝ) : kOut s op = kSpecOut w g op := by
  cases op with
  | fit xs => rfl
  | reset => rfl
  | update v =>
    cases hg : g.1 with
    | none =>
      have hr : s.ref = none := by rw [h.ref_eq, hg]; rfl
      simp [kOut, kSpecOut, hg, (update_unfitted s hr v).1]
    | some r =>
      obtain ⟨h1, h2, h3⟩ := rinv_update_batch hw h hg v
      by_cases hlt : g.2.length + 1 < w
      · simp [kOut, kSpecOut, hg, h1, h2 hlt, hlt]
      · obtain ⟨res, e1, -, -, e4⟩ := h3 (by omega)
        simp [kOut, kSpecOut, hg, h1, e1, hlt, e4 (ltStrictTotalOn_real _)]

/-- **Whole traces over `ℝ`: the incremental detector IS the batch test on the sliding window**, for every
history of `fit` / `update` / `reset` calls, all three reported fields, errors included. -/
theorem incks_trace_eq_batch_real {w : Nat} (hw : 0 < w) (ops : List (WOp ℝ)) :
    kTrace (IncKS.init w) ops = kSpecTrace w (none, []) ops := by
  suffices H : ∀ (ops : List (WOp ℝ)) (g : Option (List ℝ) × List ℝ) (s : IncKS.State ℝ), RInv w g s →
      kTrace s ops = kSpecTrace w g ops from H ops _ _ (rinv_init w)
  intro ops
  induction ops with
  | nil => intro g s _; rfl
  | cons op ops ih =>
    intro g s h
    simp only [kTrace, kSpecTrace, kOut_real hw h op, ih _ _ (rinv_step hw h op)]

/-- non-vacuity: a history with a rejected update, a fit, a reset, a second fit WITHOUT reset (the window keeps
sliding: the value `4` accepted under the reference `[1, 2]` is still in the window tested against `[0, 5]`) -/
example :
    kSpecTrace (α := ℝ) 2 (none, [])
      [.update 9, .fit [3, 1, 2], .update 5, .reset, .update 7, .fit [1, 2], .update 4, .fit [0, 5], .update 6, .update 8] =
    [.error .missingFit, .ok none, .error .missingFit, .ok none, .ok (some (batchK [0, 5] [4, 6])),
      .ok (some (batchK [0, 5] [6, 8]))] := by
  simp [kSpecTrace, kSpecOut, ghostStep, CQ.lastN]

example : (IncKS.update (kRun (IncKS.init 2)
      [.update 9, .fit [3, 1, 2], .update 5, .reset, .update 7, .fit [1, 2], .update 4, .fit [0, 5], .update 6]) (8 : ℝ)).1
    = some (batchK [0, 5] [6, 8]) := by
  have hg : ghost ([.update 9, .fit [3, 1, 2], .update 5, .reset, .update 7, .fit [1, 2], .update 4, .fit [0, 5],
      .update 6] : List (WOp ℝ)) = (some [0, 5], [4, 6]) := by simp [ghost, ghostFrom, ghostStep]
  have := incks_run_eq_batch_real (w := 2) (by omega) _ (congrArg Prod.fst hg) 8
  simpa [hg, CQ.lastN] using this

end KS

/-! ## 2b. the ring buffer handed to the batch routine is a SPECIFIC rotation of the window -/
section Rotation
open Frouros.C09
variable {β : Type}

/-- For a queue into which `vs` (`t = |vs| ≥ w`) have been enqueued, `np.array(queue)` (with the `None`s
dropped) is the window of the last `w` values rotated left by `w - (t - w) % w`: the oldest value sits in
slot `(t - w) % w`. -/
theorem qinv_raw_eq_rotate (w : Nat) (vs : List β) (q : CQ β) (h : QInv w vs q) (hge : w ≤ vs.length) :
    q.raw.filterMap id = (vs.drop (vs.length - w)).rotate (w - (vs.length - w) % w) := by
  have h1 := toList_eq_rotate q (by rw [h.len, h.maxLen]) (by rw [h.count, h.maxLen]; omega)
  rw [qinv_toList w vs q h hge] at h1
  have h2 := (List.rotate_eq_iff.mp h1.symm)
  have hf : q.first = (vs.length - w) % w := by rw [h.first]; congr 1; omega
  have hlen : (List.map some (List.drop (vs.length - w) vs)).length = w := by simp; omega
  by_cases hw : w = 0
  · subst hw
    have : q.buf = [] := List.eq_nil_of_length_eq_zero h.len
    simp [CQ.raw, this]
  · have hlt : q.first < w := by rw [hf]; exact Nat.mod_lt _ (by omega)
    rw [hlen, Nat.mod_eq_of_lt hlt, hf] at h2
    show q.buf.filterMap id = _
    rw [h2, ← List.map_rotate, List.filterMap_map]
    simp

example : (pushAll (CQ.init 3) [1, 2, 3, 4, 5]).raw.filterMap id = [3, 4, 5].rotate (3 - (5 - 3) % 3) := by decide
end Rotation

/-! ## 2c. IncrementalKSTest: the exact window order, validity of the p-value, symmetry of `h` -/
section KSMore
open Frouros.KS Frouros.C09 Frouros.C11 Frouros.C11b
variable {α : Type} [Num α]

/-- **What the detector computes, every carrier, with nothing left implicit.**  After any history, a fitted
detector's `update v` returns nothing while `t = |vals| + 1 < w` and otherwise the batch triple `batchK` of the
SORTED reference of the last `fit` against the window of the last `w` accepted values rotated left by
`w - (t - w) % w` (the order of `np.array(queue)`).  At IEEE doubles this pins the reported `statistic` down
completely; `incks_run_eq_batch` / `incks_run_statistic_partial` then remove sorting and rotation. -/
theorem incks_run_window {w : Nat} (hw : 0 < w) (ops : List (WOp α)) {r : List α} (hg : (ghost ops).1 = some r)
    (v : α) :
    (IncKS.update (kRun (IncKS.init w) ops) v).1 =
      if (ghost ops).2.length + 1 < w then none
      else some (batchK (Hist.sort r)
        ((CQ.lastN w ((ghost ops).2 ++ [v])).rotate (w - ((ghost ops).2.length + 1 - w) % w))) := by
  obtain ⟨s', he, hs⟩ := C11b.update_spec w hw r (ghost ops).2 _ ((rinv_run (α := α) hw ops).kinv hg) v
  rw [he]
  split
  · rfl
  · next hge =>
    have := qinv_raw_eq_rotate w ((ghost ops).2 ++ [v]) s'.q hs.q_inv (by simp; omega)
    simp only [List.length_append, List.length_singleton] at this
    simp only [this, batchK, CQ.lastN, List.length_append, List.length_singleton]

/-- **The p-value handed to `StatisticalResult` is a valid probability** — for EVERY state (no invariant, no
assumption on the history): whenever `update` returns a result with an exact p-value `a / b`, then `0 < b` and
`a ≤ b`, i.e. `0 ≤ p ≤ 1` and the range check of the result object cannot fail. -/
theorem incks_p_valid (s : IncKS.State α) (v : α) {res : IncKS.Result α} (h : (IncKS.update s v).1 = some res)
    {a b : Nat} (hp : res.p = some (a, b)) : a ≤ b ∧ 0 < b := by
  have hform : ∃ n m hh, res.p = IncKS.pOf n m hh := by
    unfold IncKS.update at h
    split at h
    · simp at h
    · split at h
      · simp at h
      · simp only [] at h
        split at h
        · simp at h
        · simp only [Option.some.injEq] at h
          subst h
          exact ⟨_, _, _, rfl⟩
  obtain ⟨n, m, hh, he⟩ := hform
  rw [he] at hp
  unfold IncKS.pOf at hp
  split at hp
  · simp only [Option.some.injEq] at hp
    have h1 := pExactFrac_num_le_den n m hh
    have h2 := pExactFrac_den_pos n m hh
    rw [hp] at h1 h2
    exact ⟨h1, h2⟩
  · simp at hp

/-- non-vacuity of `incks_p_valid`: a concrete run that returns an exact p-value -/
example : ∃ (res : IncKS.Result ℝ) (a b : Nat),
    (IncKS.update (runK (IncKS.fit (IncKS.init 2) [3, 1, 2]) [(5 : ℝ)]) 0).1 = some res ∧ res.p = some (a, b) ∧
    a ≤ b ∧ 0 < b := by
  obtain ⟨r, h1, _, h3⟩ := incks_eq_batch 2 (by omega) [3, 1, 2] [(5 : ℝ)] 0 (by simp)
  rw [pOf_exact _ _ _ (by simp)] at h3
  exact ⟨r, (pExactFrac 3 2 r.h).1, (pExactFrac 3 2 r.h).2, h1, h3, incks_p_valid _ _ h1 h3⟩

/-- the hypothesis `0 < w` of all run-level theorems is needed: with `window_size = 0` the queue has capacity `0`,
`enqueue` raises, the model swallows the error, and every update of a fitted detector returns nothing and is not
even counted (Python rejects `window_size = 0` in the constructor) -/
theorem incks_zero_window_witness (ref : List α) (v : α) :
    IncKS.update (IncKS.fit (IncKS.init 0) ref) v = (none, IncKS.fit (IncKS.init 0) ref) := rfl

/-- the asymptotic branch (`p = none` in the model, `kstwo.sf` in scipy) is taken iff a size exceeds 10 000 -/
theorem pOf_none_iff (n w h : Nat) : IncKS.pOf n w h = none ↔ 10000 < max n w := by
  unfold IncKS.pOf IncKS.maxAutoN
  by_cases h : max n w ≤ 10000
  · rw [if_pos h]
    constructor
    · intro h'; simp at h'
    · intro h'; omega
  · rw [if_neg h]; exact ⟨fun _ => by omega, fun _ => rfl⟩

/-- **Symmetry of the two-sided lattice statistic (every carrier)**: swapping reference and test sample does not
change `h` (all deviations change sign). -/
theorem hTwoSided_symm (ref test : List α) : hTwoSided test ref = hTwoSided ref test := by
  have hneg : ∀ l : List Int, ∀ a : Nat, (l.map (fun d => -d)).foldl (fun acc d => max acc d.natAbs) a
      = l.foldl (fun acc d => max acc d.natAbs) a := by
    intro l
    induction l with
    | nil => intro a; rfl
    | cons d l ih => intro a; simp only [List.map_cons, List.foldl_cons, Int.natAbs_neg, ih]
  have h1 : devs test ref = ((test ++ ref).map (devAt ref test)).map (fun d => -d) := by
    rw [devs_eq, List.map_map]
    apply List.map_congr_left
    intro z _
    simp only [devAt, Function.comp, Nat.gcd_comm test.length ref.length]
    omega
  unfold hTwoSided
  rw [h1, hneg, devs_eq]
  exact (List.perm_append_comm.map _).foldl_eq 0

example : hTwoSided [(1 : ℝ), 2, 3] [2.5, 7] = hTwoSided [2.5, 7] [(1 : ℝ), 2, 3] := (hTwoSided_symm _ _).symm

end KSMore

/-! ### symmetry of the exact p-value (no carrier involved) -/
section Symm
open Frouros.KS Frouros.C11

theorem latDev_symm (n m i j : Nat) : latDev m n j i = latDev n m i j := by
  unfold latDev
  rw [Nat.gcd_comm m n, ← Int.natAbs_neg, neg_sub]

theorem count_map_not (q : List Bool) :
    (q.map not).count true = q.count false ∧ (q.map not).count false = q.count true := by
  induction q with
  | nil => exact ⟨rfl, rfl⟩
  | cons b q ih => cases b <;> simp [ih.1, ih.2]

theorem map_not_not (p : List Bool) : (p.map not).map not = p := by
  induction p with
  | nil => rfl
  | cons b p ih => simp [ih]

theorem Exits_map_not (n m h : Nat) (p : List Bool) : Exits m n h (p.map not) ↔ Exits n m h p := by
  constructor
  · rintro ⟨q, hq, hh⟩
    have hq' := List.prefix_iff_eq_take.mp hq
    rw [← List.map_take] at hq'
    refine ⟨p.take q.length, List.take_prefix _ _, ?_⟩
    rw [hq', (count_map_not _).1, (count_map_not _).2, latDev_symm] at hh
    simpa using hh
  · rintro ⟨q, hq, hh⟩
    refine ⟨q.map not, hq.map not, ?_⟩
    rw [(count_map_not _).1, (count_map_not _).2, latDev_symm]
    exact hh

/-- **Symmetry of the exact two-sided p-value**: exchanging the two sample sizes does not change the fraction
(bijection `p ↦ p.map not` between the interleavings, which preserves the lattice distance). -/
theorem pExactFrac_symm (n m h : Nat) : pExactFrac m n h = pExactFrac n m h := by
  rw [p_exact, p_exact]
  have hinj : Function.Injective (List.map not) := List.map_injective_iff.mpr (fun a b hab => by cases a <;> cases b <;> simp_all)
  have hperm : (paths m n).Perm ((paths n m).map (List.map not)) := by
    apply (List.perm_ext_iff_of_nodup (paths_nodup m n) ((paths_nodup n m).map hinj)).mpr
    intro p
    rw [mem_paths_iff, List.mem_map]
    constructor
    · rintro ⟨h1, h2⟩
      refine ⟨p.map not, ?_, map_not_not p⟩
      rw [mem_paths_iff, (count_map_not p).1, (count_map_not p).2]
      exact ⟨h2, h1⟩
    · rintro ⟨q, hq, rfl⟩
      rw [mem_paths_iff] at hq
      rw [(count_map_not q).1, (count_map_not q).2]
      exact ⟨hq.2, hq.1⟩
  congr 1
  · rw [← List.countP_eq_length_filter, ← List.countP_eq_length_filter, hperm.countP_eq, List.countP_map]
    apply List.countP_congr
    intro p _
    simp only [Function.comp]
    rw [exits_iff, exits_iff]
    exact Exits_map_not n m h p
  · rw [Nat.add_comm m n, Nat.choose_symm_add]

example : pExactFrac 2 3 6 = (2, 10) := by
  rw [pExactFrac_symm, p_exact]; simp [paths, exits, latDev, Nat.choose]

/-- **The two-sided KS result does not depend on which sample is called the reference** (every carrier): same
lattice statistic `h`, same p-value (exact fraction, or asymptotic branch on both sides). -/
theorem batchK_symm {α : Type} [Num α] (ref test : List α) :
    (batchK test ref).h = (batchK ref test).h ∧ (batchK test ref).p = (batchK ref test).p := by
  refine ⟨hTwoSided_symm ref test, ?_⟩
  simp only [batchK, hTwoSided_symm ref test, IncKS.pOf, Nat.max_comm test.length ref.length, pExactFrac_symm]
end Symm

/-! ## 3. Streaming MMD over histories `fit | update | reset`, and the quick C09 items -/
section MMDRun
open Frouros.MMD Frouros.C09
variable {α : Type} [Num α] {X : Type}

/-- implementation step (outputs discarded) -/
def mStep (k : X → X → α) (s : MMD.Stream α X) : WOp X → MMD.Stream α X
  | .fit xs => Stream.fit k s xs
  | .update v => (Stream.update k s v).2
  | .reset => Stream.reset s

def mRun (k : X → X → α) (s : MMD.Stream α X) (ops : List (WOp X)) : MMD.Stream α X := ops.foldl (mStep k) s

/-- state invariant tying the detector state to the ghost state.  `reset` keeps the stale `pre` (as the Python
code does); the invariant only speaks about `pre` while fitted, and `fit` overwrites it. -/
structure MInv (k : X → X → α) (w : Nat) (cs : Option Nat) (g : Option (List X) × List X) (s : MMD.Stream α X) :
    Prop where
  n_eq : s.n = g.2.length
  window_eq : s.window = w
  chunk_eq : s.chunkSize = cs
  ref_eq : s.ref = g.1
  pre_eq : ∀ r, g.1 = some r → s.pre = some (expectedK k (cs.getD r.length) r)
  q_inv : QInv w g.2 s.q
  unfit : g.1 = none → g.2 = []

theorem minv_init (k : X → X → α) (w : Nat) (cs : Option Nat) : MInv k w cs (none, []) (Stream.init w cs) :=
  ⟨rfl, rfl, rfl, rfl, fun _ h => by simp at h, qinv_init w, fun _ => rfl⟩

theorem MInv.sinv {k : X → X → α} {w : Nat} {cs : Option Nat} {g : Option (List X) × List X} {s : MMD.Stream α X}
    (h : MInv k w cs g s) {r : List X} (hg : g.1 = some r) : SInv k w cs r g.2 s :=
  ⟨h.n_eq, h.window_eq, h.chunk_eq, by rw [h.ref_eq, hg], h.pre_eq r hg, h.q_inv⟩

theorem minv_step {k : X → X → α} {w : Nat} (hw : 0 < w) {cs : Option Nat} {g : Option (List X) × List X}
    {s : MMD.Stream α X} (h : MInv k w cs g s) (op : WOp X) : MInv k w cs (ghostStep g op) (mStep k s op) := by
  cases op with
  | fit xs =>
    refine ⟨h.n_eq, h.window_eq, h.chunk_eq, rfl, fun r hr => ?_, h.q_inv, fun hn => by simp [ghostStep] at hn⟩
    simp only [ghostStep, Option.some.injEq] at hr
    subst hr
    simp only [mStep, Stream.fit, h.chunk_eq]
  | update v =>
    cases hg : g.1 with
    | none =>
      have hr : s.ref = none := by rw [h.ref_eq, hg]
      have : mStep k s (.update v) = s := by simp [mStep, (stream_update_unfitted k s hr v).2]
      rw [this]
      simpa [ghostStep, hg] using h
    | some r =>
      obtain ⟨s', he, hs⟩ := update_spec k w hw cs r g.2 s (h.sinv hg) v
      have : mStep k s (.update v) = s' := by simp [mStep, he]
      rw [this]
      simp only [ghostStep, hg]
      exact ⟨hs.n_eq, hs.window_eq, hs.chunk_eq, hs.ref_eq, fun r' hr' => by
        simp only [Option.some.injEq] at hr'; subst hr'; exact hs.pre_eq, hs.q_inv, fun hn => by simp at hn⟩
  | reset =>
    refine ⟨rfl, h.window_eq, h.chunk_eq, rfl, fun _ hr => by simp [ghostStep] at hr, ?_, fun _ => rfl⟩
    have : (Stream.reset s).q = CQ.init w := by
      show s.q.clear = CQ.init w
      rw [← h.q_inv.maxLen]; rfl
    simp only [mStep, ghostStep]
    rw [this]
    exact qinv_init w

theorem minv_runFrom {k : X → X → α} {w : Nat} (hw : 0 < w) {cs : Option Nat} (ops : List (WOp X))
    {g : Option (List X) × List X} {s : MMD.Stream α X} (h : MInv k w cs g s) :
    MInv k w cs (ghostFrom g ops) (mRun k s ops) := by
  induction ops generalizing g s with
  | nil => exact h
  | cons op ops ih => exact ih (minv_step hw h op)

theorem minv_run (k : X → X → α) {w : Nat} (hw : 0 < w) (cs : Option Nat) (ops : List (WOp X)) :
    MInv k w cs (ghost ops) (mRun k (Stream.init w cs) ops) :=
  minv_runFrom hw ops (minv_init k w cs)

/-- **Unfitted states** (after construction, or after `reset`, possibly followed by rejected updates): `update`
raises MissingFitError and changes nothing; the window restarts empty. -/
theorem mmd_run_unfitted (k : X → X → α) {w : Nat} (hw : 0 < w) (cs : Option Nat) (ops : List (WOp X))
    (hg : (ghost ops).1 = none) (v : X) :
    (mRun k (Stream.init w cs) ops).updateErr = some .missingFit ∧
    Stream.update k (mRun k (Stream.init w cs) ops) v = (none, mRun k (Stream.init w cs) ops) ∧
    (mRun k (Stream.init w cs) ops).n = 0 ∧ (ghost ops).2 = [] := by
  have h := minv_run k hw cs ops
  have hr : (mRun k (Stream.init w cs) ops).ref = none := by rw [h.ref_eq, hg]
  have h2 := h.unfit hg
  exact ⟨(stream_update_unfitted k _ hr v).1, (stream_update_unfitted k _ hr v).2, by rw [h.n_eq, h2]; rfl, h2⟩

/-- **Streaming MMD over arbitrary histories, every carrier (hence IEEE doubles).**  `r` = reference of the last
`fit` since the last `reset`, `vals` = updates accepted since the last `reset`, `t = |vals| + 1`.  The next
`update v` does not raise, returns nothing while `t < w`, and otherwise returns the batch routine `mmd` applied to
`r` (with the reference term computed at THAT `fit`) and to the window of the last `w` accepted values rotated
left by `w - (t - w) % w` — the exact order in which `np.array(queue)` lists it. -/
theorem mmd_run_window (k : X → X → α) {w : Nat} (hw : 0 < w) (cs : Option Nat) (ops : List (WOp X)) {r : List X}
    (hg : (ghost ops).1 = some r) (v : X) :
    (mRun k (Stream.init w cs) ops).updateErr = none ∧
    (Stream.update k (mRun k (Stream.init w cs) ops) v).1 =
      if (ghost ops).2.length + 1 < w then none
      else some (mmd k cs r
        ((CQ.lastN w ((ghost ops).2 ++ [v])).rotate (w - ((ghost ops).2.length + 1 - w) % w))
        (some (expectedK k (cs.getD r.length) r))) := by
  have h := minv_run k hw cs ops
  obtain ⟨s', he, hs⟩ := update_spec k w hw cs r (ghost ops).2 _ (h.sinv hg) v
  refine ⟨by simp [Stream.updateErr, h.ref_eq, hg], ?_⟩
  rw [he]
  split
  · rfl
  · next hge =>
    have := qinv_raw_eq_rotate w ((ghost ops).2 ++ [v]) s'.q hs.q_inv (by simp; omega)
    simp only [List.length_append, List.length_singleton] at this
    rw [this]
    simp only [CQ.lastN, List.length_append, List.length_singleton]

/-- the fresh-fit runs of `C09` are the histories `fit ref :: updates` -/
theorem mRun_fresh (k : X → X → α) (w : Nat) (cs : Option Nat) (ref vs : List X) :
    mRun k (Stream.init w cs) (WOp.fit ref :: vs.map WOp.update) = runS k (Stream.fit k (Stream.init w cs) ref) vs := by
  simp [mRun, mStep, runS, List.foldl_map]

/-- `C09.stream_window` with the rotation made explicit (every carrier): at IEEE doubles the value returned at
update `t = |vs| + 1 ≥ w` is the batch routine on THIS specific reordering of the last `w` values. -/
theorem stream_window_rotation (k : X → X → α) (w : Nat) (hw : 0 < w) (cs : Option Nat) (ref vs : List X) (v : X) :
    (Stream.update k (runS k (Stream.fit k (Stream.init w cs) ref) vs) v).1 =
      if vs.length + 1 < w then none
      else some (mmd k cs ref (((vs ++ [v]).drop (vs.length + 1 - w)).rotate (w - (vs.length + 1 - w) % w))
        (some (expectedK k (cs.getD ref.length) ref))) := by
  have hgh := ghost_fresh ref vs
  have := (mmd_run_window k hw cs (WOp.fit ref :: vs.map WOp.update) (r := ref) (by rw [hgh]) v).2
  rw [mRun_fresh, hgh] at this
  simpa [CQ.lastN] using this

/-- state after any history (every carrier): counter = accepted updates since the last reset, constants unchanged,
reference = that of the last `fit` since the last `reset` -/
theorem mmd_run_state (k : X → X → α) {w : Nat} (hw : 0 < w) (cs : Option Nat) (ops : List (WOp X)) :
    (mRun k (Stream.init w cs) ops).n = (ghost ops).2.length ∧ (mRun k (Stream.init w cs) ops).window = w ∧
    (mRun k (Stream.init w cs) ops).chunkSize = cs ∧ (mRun k (Stream.init w cs) ops).ref = (ghost ops).1 ∧
    (mRun k (Stream.init w cs) ops).q.count = min (ghost ops).2.length w :=
  let h := minv_run k hw cs ops
  ⟨h.n_eq, h.window_eq, h.chunk_eq, h.ref_eq, h.q_inv.count⟩

/-- **Streaming = batch over arbitrary histories (carrier `ℝ`).**  Every `update` of a fitted detector returns
`none` during warm-up and then exactly the batch value `mmd k cs r (last w accepted values) none`, where `r` is the
reference of the last `fit` and the accepted values are counted from the last `reset`. -/
theorem mmd_run_eq_batch (k : X → X → ℝ) {w : Nat} (hw : 0 < w) (cs : Option Nat) (ops : List (WOp X)) {r : List X}
    (hg : (ghost ops).1 = some r) (v : X) :
    (Stream.update k (mRun k (Stream.init w cs) ops) v).1 =
      if (ghost ops).2.length + 1 < w then none
      else some (mmd k cs r (CQ.lastN w ((ghost ops).2 ++ [v])) none) := by
  rw [(mmd_run_window k hw cs ops hg v).2]
  split
  · rfl
  · rw [perm_invariant k cs (List.Perm.refl r) (List.rotate_perm _ _), mmd_precomputed_eq]

/-- … hence the unbiased estimator of MMD² on (reference of the last fit, last `w` accepted values) -/
theorem mmd_run_eq_unbiased (k : X → X → ℝ) (hk : ∀ x, k x x = 1) {w : Nat} (hw : 2 ≤ w) (cs : Option Nat)
    (hcs : ValidChunk cs) (ops : List (WOp X)) {r : List X} (hg : (ghost ops).1 = some r) (hr : 2 ≤ r.length)
    (v : X) (ht : w ≤ (ghost ops).2.length + 1) :
    (Stream.update k (mRun k (Stream.init w cs) ops) v).1 =
      some (unbiased k r (CQ.lastN w ((ghost ops).2 ++ [v]))) := by
  rw [mmd_run_eq_batch k (by omega) cs ops hg v, if_neg (by omega), mmd_eq_unbiased k hk cs hcs _ _ hr]
  rw [CQ.length_lastN]; simp; omega

/-- non-vacuity: rejected update, fit, update, reset, rejected update, fit, update, re-fit without reset, update -/
example (k : ℕ → ℕ → ℝ) :
    (Stream.update k (mRun k (Stream.init 2 none)
      [.update 9, .fit [1, 2], .update 5, .reset, .update 7, .fit [3, 4], .update 6, .fit [10, 11], .update 8]) 12).1
    = some (mmd k none [10, 11] [8, 12] none) := by
  have hg : ghost ([.update 9, .fit [1, 2], .update 5, .reset, .update 7, .fit [3, 4], .update 6, .fit [10, 11],
      .update 8] : List (WOp ℕ)) = (some [10, 11], [6, 8]) := by decide
  have := mmd_run_eq_batch k (w := 2) (by omega) none _ (congrArg Prod.fst hg) 12
  simpa [hg, CQ.lastN] using this

/-- the hypothesis `0 < w` is needed for streaming MMD as well: with `window_size = 0` every update of a fitted
detector returns nothing and is not counted (Python rejects `window_size = 0` in the constructor) -/
theorem mmd_zero_window_witness (k : X → X → α) (cs : Option Nat) (ref : List X) (v : X) :
    Stream.update k (Stream.fit k (Stream.init 0 cs) ref) v = (none, Stream.fit k (Stream.init 0 cs) ref) := rfl

/-- non-vacuity of `mmd_run_eq_unbiased` (RBF kernel, history with a reset and a re-fit) -/
example : (Stream.update (rbf (1 : ℝ)) (mRun (rbf 1) (Stream.init 2 (some 1))
      [.fit [[0], [9]], .update [5], .reset, .fit [[1], [2]], .update [6]]) [7]).1
    = some (unbiased (rbf (1 : ℝ)) [[1], [2]] [[6], [7]]) := by
  have hg : ghost ([.fit [[0], [9]], .update [5], .reset, .fit [[1], [2]], .update [6]] : List (WOp (List ℝ)))
      = (some [[1], [2]], [[6]]) := by simp [ghost, ghostFrom, ghostStep]
  have := mmd_run_eq_unbiased (rbf (1 : ℝ)) (rbf_self 1 one_ne_zero) (w := 2) (by omega) (some 1)
    (by simp [ValidChunk]) _ (congrArg Prod.fst hg) (by simp) [7] (by simp [hg])
  simpa [hg, CQ.lastN] using this

/-! ### whole output traces of streaming MMD -/

def mOut (k : X → X → α) (s : MMD.Stream α X) : WOp X → Option (Except Err (Option α))
  | .update v => some (match s.updateErr with | some e => .error e | none => .ok (Stream.update k s v).1)
  | _ => none
def mTrace (k : X → X → α) (s : MMD.Stream α X) : List (WOp X) → List (Except Err (Option α))
  | [] => []
  | op :: ops => (mOut k s op).toList ++ mTrace k (mStep k s op) ops
/-- specification: the batch value on (reference, last `w` accepted values) -/
def mSpecOut (k : X → X → α) (w : Nat) (cs : Option Nat) (g : Option (List X) × List X) :
    WOp X → Option (Except Err (Option α))
  | .update v => some (match g.1 with
    | none => .error .missingFit
    | some r => .ok (if g.2.length + 1 < w then none else some (mmd k cs r (CQ.lastN w (g.2 ++ [v])) none)))
  | _ => none
def mSpecTrace (k : X → X → α) (w : Nat) (cs : Option Nat) (g : Option (List X) × List X) :
    List (WOp X) → List (Except Err (Option α))
  | [] => []
  | op :: ops => (mSpecOut k w cs g op).toList ++ mSpecTrace k w cs (ghostStep g op) ops

/-- **Whole traces over `ℝ`: streaming MMD IS batch MMD on the sliding window**, for every history of
`fit` / `update` / `reset` calls, errors included. -/
theorem mmd_trace_eq_batch (k : X → X → ℝ) {w : Nat} (hw : 0 < w) (cs : Option Nat) (ops : List (WOp X)) :
    mTrace k (Stream.init w cs) ops = mSpecTrace k w cs (none, []) ops := by
  suffices H : ∀ (ops : List (WOp X)) (g : Option (List X) × List X) (s : MMD.Stream ℝ X), MInv k w cs g s →
      mTrace k s ops = mSpecTrace k w cs g ops from H ops _ _ (minv_init k w cs)
  intro ops
  induction ops with
  | nil => intro g s _; rfl
  | cons op ops ih =>
    intro g s h
    have hout : mOut k s op = mSpecOut k w cs g op := by
      cases op with
      | fit xs => rfl
      | reset => rfl
      | update v =>
        cases hg : g.1 with
        | none =>
          have hr : s.ref = none := by rw [h.ref_eq, hg]
          simp [mOut, mSpecOut, hg, (stream_update_unfitted k s hr v).1]
        | some r =>
          obtain ⟨s', he, hs⟩ := update_spec k w hw cs r g.2 s (h.sinv hg) v
          have herr : s.updateErr = none := by simp [Stream.updateErr, h.ref_eq, hg]
          simp only [mOut, mSpecOut, hg, herr, he]
          by_cases hlt : g.2.length + 1 < w
          · simp [hlt]
          · have hp := qinv_raw_perm w (g.2 ++ [v]) s'.q hs.q_inv (by simp; omega)
            simp only [hlt, if_false]
            rw [perm_invariant k cs (List.Perm.refl r) hp, mmd_precomputed_eq]
            rfl
    simp only [mTrace, mSpecTrace, hout, ih _ _ (minv_step hw h op)]

end MMDRun

/-! ### the quick C09 items -/
section MMDQuick
open Frouros.MMD Frouros.C09

/-- a chunk size at least as large as the list gives the same chunks as `chunk_size = None` -/
theorem chunks_large {X : Type} (c : Nat) (l : List X) (h : l.length ≤ c) : chunks c l = chunks l.length l := by
  by_cases hl : l = []
  · subst hl; rfl
  · rw [chunks_of_length_le c l hl h, chunks_of_length_le l.length l hl (Nat.le_refl _)]

/-- **Every carrier (IEEE doubles included): a chunk size `≥ max(n, m)` performs literally the same computation
as `chunk_size = None`** — no re-association of sums is involved, so the values are bit-identical. -/
theorem mmd_large_chunk {α : Type} [Num α] {X : Type} (k : X → X → α) (c : Nat) (xs ys : List X) (pre : Option α)
    (hx : xs.length ≤ c) (hy : ys.length ≤ c) : mmd k (some c) xs ys pre = mmd k none xs ys pre := by
  unfold mmd expectedK
  simp only [Option.getD_some, Option.getD_none, chunks_large c xs hx, chunks_large c ys hy]

example (k : ℕ → ℕ → Float) : mmd k (some 5) [1, 2, 3] [4, 5] none = mmd k none [1, 2, 3] [4, 5] none :=
  mmd_large_chunk k 5 _ _ _ (by simp) (by simp)

/-- **The RBF instantiation** (the kernel frouros uses): for every bandwidth `σ ≠ 0`, every dimension (rows are
lists of any length), every valid chunk size and all samples with `n, m ≥ 2`, `MMD.compare` is the unbiased
estimator; `σ = 0` is excluded because the exponent is then `0 / 0` (in Python as well). -/
theorem mmd_rbf_eq_unbiased (sigma : ℝ) (hs : sigma ≠ 0) (c : Option Nat) (hc : ValidChunk c)
    (xs ys : List (List ℝ)) (hn : 2 ≤ xs.length) (hm : 2 ≤ ys.length) :
    mmd (rbf sigma) c xs ys none = unbiased (rbf sigma) xs ys :=
  mmd_eq_unbiased (rbf sigma) (rbf_self sigma hs) c hc xs ys hn hm

/-- … in particular for 1-D data, embedded as one-element rows -/
theorem mmd_rbf_eq_unbiased_1d (sigma : ℝ) (hs : sigma ≠ 0) (c : Option Nat) (hc : ValidChunk c)
    (xs ys : List ℝ) (hn : 2 ≤ xs.length) (hm : 2 ≤ ys.length) :
    mmd (rbf sigma) c (xs.map ([·])) (ys.map ([·])) none = unbiased (rbf sigma) (xs.map ([·])) (ys.map ([·])) :=
  mmd_rbf_eq_unbiased sigma hs c hc _ _ (by simpa using hn) (by simpa using hm)

example : mmd (rbf (2 : ℝ)) (some 1) [[1, 0], [2, 5]] [[0, 0], [3, 3], [1, 1]] none
    = unbiased (rbf (2 : ℝ)) [[1, 0], [2, 5]] [[0, 0], [3, 3], [1, 1]] :=
  mmd_rbf_eq_unbiased 2 (by norm_num) (some 1) (by simp [ValidChunk]) _ _ (by simp) (by simp)
end MMDQuick

/-! ## 4. AccuracyQueue: bridge to the circular queue, totality, no counter underflow

`AccQ.enqueue` re-implements the push instead of calling `CQ.enqueue` (as the Python subclass does), so the FIFO
refinement of `CQ` is not inherited by construction.  The bridge lemmas hold for EVERY `AccQ` value (no invariant). -/
section Acc
open CQ AccQ

/-- the queue component of `AccuracyQueue.enqueue` is `CircularQueue.enqueue` (same error, same new queue) -/
theorem accq_enqueue_bridge (a : AccQ) (v : Bool) : (a.enqueue v).map (·.q) = (a.q.enqueue v).map (·.2) := by
  cases h1 : a.q.isFull <;> cases h2 : a.q.isEmpty <;>
    simp [AccQ.enqueue, AccQ.dequeue, CQ.enqueue, CQ.dequeue, h1, h2, Except.map, CQ.nextLast]

theorem accq_dequeue_bridge (a : AccQ) : (a.dequeue).map (fun p => (p.1, p.2.q)) = a.q.dequeue := by
  cases h2 : a.q.isEmpty <;> simp [AccQ.dequeue, CQ.dequeue, h2, Except.map]

theorem accq_keepLast_bridge (a : AccQ) : (a.keepLast).map (·.q) = a.q.keepLast := by
  unfold AccQ.keepLast
  cases h : a.q.keepLast <;> simp [Except.map]

theorem accq_clear_bridge (a : AccQ) : a.clear.q = a.q.clear := rfl

/-- the public operations of the accuracy queue, as one step function on the operation alphabet of `C18.QOp` -/
def accStep (a : AccQ) : QOp Bool → Except Err AccQ
  | .enq v => a.enqueue v
  | .deq => (a.dequeue).map (·.2)
  | .clear => .ok a.clear
  | .keepLast => a.keepLast

def accRun : AccQ → List (QOp Bool) → Except Err AccQ
  | a, [] => .ok a
  | a, op :: ops => match accStep a op with
    | .error e => .error e
    | .ok a' => accRun a' ops

/-- one step: same error, same new queue as the circular queue underneath -/
theorem accStep_bridge (a : AccQ) (op : QOp Bool) : (accStep a op).map (·.q) = (implStep a.q op).map (·.2) := by
  cases op with
  | enq v => exact accq_enqueue_bridge a v
  | deq =>
    have := accq_dequeue_bridge a
    simp only [accStep, implStep, ← this]
    cases a.dequeue <;> simp [Except.map]
  | clear => rfl
  | keepLast =>
    have := accq_keepLast_bridge a
    simp only [accStep, implStep, ← this]
    cases a.keepLast <;> simp [Except.map]

/-- whole histories: the queue inside an `AccuracyQueue` evolves exactly like a `CircularQueue` -/
theorem accRun_bridge (a : AccQ) (ops : List (QOp Bool)) :
    (accRun a ops).map (·.q) = (implRun a.q ops).map (·.2) := by
  induction ops generalizing a with
  | nil => rfl
  | cons op ops ih =>
    have hb := accStep_bridge a op
    cases h1 : accStep a op with
    | error e =>
      cases h2 : implStep a.q op with
      | error e' =>
        rw [h1, h2] at hb
        simp only [Except.map, Except.error.injEq] at hb
        simp [accRun, implRun, h1, h2, Except.map, hb]
      | ok p => rw [h1, h2] at hb; simp [Except.map] at hb
    | ok a1 =>
      cases h2 : implStep a.q op with
      | error e' => rw [h1, h2] at hb; simp [Except.map] at hb
      | ok p =>
        obtain ⟨o, q1⟩ := p
        rw [h1, h2] at hb
        simp only [Except.map, Except.ok.injEq] at hb
        have := ih a1
        rw [hb] at this
        simp only [accRun, implRun, h1, h2]
        rw [this]
        cases implRun q1 ops with
        | error e => rfl
        | ok p2 => rfl

theorem accStep_good {a a' : AccQ} {op : QOp Bool} (h : Good a) (hs : accStep a op = .ok a') : Good a' := by
  cases op with
  | enq v => exact (enqueue_good h hs).1
  | deq =>
    simp only [accStep] at hs
    cases hd : a.dequeue with
    | error e => simp [hd, Except.map] at hs
    | ok p =>
      obtain ⟨e, a1⟩ := p
      simp only [hd, Except.map, Except.ok.injEq] at hs
      subst hs
      exact (dequeue_good h hd).1
  | clear =>
    simp only [accStep, Except.ok.injEq] at hs
    subst hs
    exact clear_good h
  | keepLast => exact (keepLast_good h hs).1

theorem accRun_good {a a' : AccQ} (h : Good a) (ops : List (QOp Bool)) (hr : accRun a ops = .ok a') : Good a' := by
  induction ops generalizing a with
  | nil => simp only [accRun, Except.ok.injEq] at hr; subst hr; exact h
  | cons op ops ih =>
    simp only [accRun] at hr
    cases h1 : accStep a op with
    | error e => simp [h1] at hr
    | ok a1 => simp only [h1] at hr; exact ih (accStep_good h h1) hr

theorem countTrue_map_some (l : List Bool) : countTrue (l.map some) = l.count true := by
  induction l with
  | nil => rfl
  | cons b l ih => rw [List.map_cons, countTrue_cons, ih]; cases b <;> simp [Nat.add_comm]

theorem count_true_add_count_false' (l : List Bool) : l.count true + l.count false = l.length := by
  induction l with
  | nil => rfl
  | cons b l ih => cases b <;> simp <;> omega

/-- **AccuracyQueue, general histories.**  After any non-raising history of `enqueue / dequeue / clear / keep-last`
calls from `AccQ.init n` (`0 < n`): the queue holds exactly the last `count` enqueued Booleans (oldest first),
`num_true` is the number of `True` among them and `num_false` the number of `False` (in particular the FIFO
refinement of `CircularQueue` is inherited, although `AccuracyQueue.enqueue` re-implements the push). -/
theorem accuracy_queue_general {n : Nat} (hn : 0 < n) (ops : List (QOp Bool)) {a' : AccQ}
    (hr : accRun (AccQ.init n) ops = .ok a') :
    a'.q.toList = (lastN a'.q.count (enqVals ops)).map some ∧ a'.q.count ≤ n ∧
    a'.numTrue = (lastN a'.q.count (enqVals ops)).count true ∧
    a'.numFalse = ((lastN a'.q.count (enqVals ops)).count false : Int) := by
  have hb := accRun_bridge (AccQ.init n) ops
  rw [hr] at hb
  cases hi : implRun (AccQ.init n).q ops with
  | error e => rw [hi] at hb; simp [Except.map] at hb
  | ok p =>
    obtain ⟨os, q'⟩ := p
    rw [hi] at hb
    simp only [Except.map, Except.ok.injEq] at hb
    subst hb
    obtain ⟨h1, h2⟩ := cq_holds_last_count hn ops (show implRun (CQ.init n) ops = .ok (os, a'.q) from hi)
    have hg := accRun_good (init_good hn) ops hr
    have ht : a'.numTrue = (lastN a'.q.count (enqVals ops)).count true := by
      rw [hg.numTrue_eq, h1, countTrue_map_some]
    refine ⟨h1, h2, ht, ?_⟩
    have hlen : (lastN a'.q.count (enqVals ops)).length = a'.q.count := by
      have := congrArg List.length h1
      rw [List.length_map, ← count_eq_length] at this
      exact this.symm
    have hsum := count_true_add_count_false' (lastN a'.q.count (enqVals ops))
    unfold AccQ.numFalse
    rw [ht]
    omega

example : accRun (AccQ.init 2) [.enq true, .enq false, .deq, .enq true, .enq true, .keepLast, .enq false] =
    .ok ⟨⟨2, 1, some 0, 2, [some false, some true]⟩, 1⟩ := by decide

/-- **`enqueue` is total on well-formed accuracy queues** (every queue reachable from `AccQ.init n`, `0 < n`, is
`Good` by `AccQ.Reach.good`): the `EmptyQueueError` of the internal eviction is never raised. -/
theorem accq_enqueue_total {a : AccQ} (h : Good a) (v : Bool) : ∃ a', a.enqueue v = .ok a' := by
  cases he : a.enqueue v with
  | ok a' => exact ⟨a', rfl⟩
  | error e =>
    have hb := accq_enqueue_bridge a v
    rw [he] at hb
    cases hq : a.q.enqueue v with
    | error e' => exact absurd hq (enqueue_ne_error h.wf v e')
    | ok p => rw [hq] at hb; simp [Except.map] at hb

/-- non-vacuity of the hypothesis `Good a`: the fresh queue and everything reachable from it (`AccQ.Reach.good`) -/
example : Good (AccQ.init 2) := init_good (by omega)
example {n : Nat} (hn : 0 < n) {a : AccQ} (hr : AccQ.Reach n a) : Good a := (hr.good hn).1

/-- **The `num_true` counter never underflows**: on a well-formed accuracy queue, dequeuing a `True` finds
`num_true > 0`, and in general `num_true` before = `num_true` after + (1 if the dequeued element is `True`), so the
truncated subtraction in the model (a `ValueError` in the Python setter) is never exercised. -/
theorem accq_dequeue_no_underflow {a a' : AccQ} {e : Option Bool} (h : Good a) (hd : a.dequeue = .ok (e, a')) :
    a.numTrue = a'.numTrue + (if e == some true then 1 else 0) ∧ (e = some true → 0 < a.numTrue) := by
  obtain ⟨g1, -, g3⟩ := dequeue_good h hd
  have h1 := h.numTrue_eq
  rw [g3, countTrue_cons, ← g1.numTrue_eq] at h1
  refine ⟨by omega, fun he => ?_⟩
  subst he
  simp at h1
  omega

/-- the hypothesis of `accq_dequeue_no_underflow` is needed: a hand-made (unreachable) value whose counter is
too small dequeues to `num_true = 0` silently in the model (Python would raise `ValueError`) -/
theorem accq_dequeue_underflow_witness :
    (⟨⟨1, 0, some 0, 1, [some true]⟩, 0⟩ : AccQ).dequeue = .ok (some true, ⟨⟨0, 0, some 0, 1, [some true]⟩, 0⟩) := by
  decide

end Acc

/-! ## 5. PrequentialError with resets -/
section PreqReset

/-- the errors passed since construction / the last `reset`, oldest first -/
def errsSinceReset {V : Type} (ops : List (Op V)) : List V :=
  ops.foldl (fun acc op => match op with | .update e => acc ++ [e] | .reset => []) []

@[simp] theorem errsSinceReset_nil {V : Type} : errsSinceReset ([] : List (Op V)) = [] := rfl
@[simp] theorem errsSinceReset_update {V : Type} (ops : List (Op V)) (e : V) :
    errsSinceReset (ops ++ [.update e]) = errsSinceReset ops ++ [e] := by
  simp [errsSinceReset, List.foldl_append]
@[simp] theorem errsSinceReset_reset {V : Type} (ops : List (Op V)) : errsSinceReset (ops ++ [.reset]) = [] := by
  simp [errsSinceReset, List.foldl_append]

/-- sanity check of the definition: whatever came before a reset is dropped -/
theorem errsSinceReset_reset_updates {V : Type} (pre : List (Op V)) (es : List V) :
    errsSinceReset (pre ++ [.reset] ++ es.map Op.update) = es := by
  induction es using List.reverseRecOn with
  | nil => simp
  | append_singleton es e ih =>
    rw [List.map_append, ← List.append_assoc]
    simp only [List.map_cons, List.map_nil, errsSinceReset_update, ih]

def preqStep {α : Type} [Num α] (s : Preq α) : Op α → Preq α
  | .update e => (s.call e).2
  | .reset => s.reset

/-- the metric object after a history of calls and resets (results discarded) -/
def preqRunOps {α : Type} [Num α] (a : α) (ops : List (Op α)) : Preq α := ops.foldl preqStep (Preq.init a)

theorem preqRunOps_snoc {α : Type} [Num α] (a : α) (ops : List (Op α)) (op : Op α) :
    preqRunOps a (ops ++ [op]) = preqStep (preqRunOps a ops) op := by
  simp [preqRunOps, List.foldl_append]

/-- control flow, every carrier: `alpha` is never changed and the dead field `num_instances` stays `0` -/
theorem preqRunOps_consts {α : Type} [Num α] (a : α) (ops : List (Op α)) :
    (preqRunOps a ops).alpha = a ∧ (preqRunOps a ops).numInstances = 0 := by
  induction ops using List.reverseRecOn with
  | nil => exact ⟨rfl, rfl⟩
  | append_singleton ops op ih =>
    rw [preqRunOps_snoc]
    cases op with
    | update e => exact ih
    | reset => exact ⟨ih.1, rfl⟩

/-- **reset = fresh object, every carrier**: what the metric returns after a `reset` does not depend on
anything that happened before it -/
theorem preq_run_after_reset {α : Type} [Num α] (a : α) (pre post : List (Op α)) :
    preqRunOps a (pre ++ [.reset] ++ post) = preqRunOps a post := by
  have h1 : preqRunOps a (pre ++ [.reset]) = Preq.init a := by
    rw [preqRunOps_snoc]
    have := (preqRunOps_consts a pre).1
    simp only [preqStep, Preq.reset, Preq.init, this]
  unfold preqRunOps at h1 ⊢
  rw [List.foldl_append, h1]

theorem fadeSum_nil (a : ℝ) : fadeSum a [] = 0 := by simp [fadeSum]
theorem fadeCnt_zero (a : ℝ) : fadeCnt a 0 = 0 := by simp [fadeCnt]

/-- state invariant over histories with resets (carrier `ℝ`, every `a`) -/
theorem preqRunOps_state (a : ℝ) (ops : List (Op ℝ)) :
    (preqRunOps a ops).cumErr = fadeSum a (errsSinceReset ops) ∧
    (preqRunOps a ops).cumInst = fadeCnt a (errsSinceReset ops).length := by
  induction ops using List.reverseRecOn with
  | nil =>
    rw [errsSinceReset_nil, fadeSum_nil, List.length_nil, fadeCnt_zero]
    simp [preqRunOps, Preq.init]
  | append_singleton ops op ih =>
    obtain ⟨h2, h3⟩ := ih
    have h1 := (preqRunOps_consts a ops).1
    rw [preqRunOps_snoc]
    cases op with
    | update e => simp [preqStep, Preq.call, h1, h2, h3, fadeSum_append, fadeCnt_succ]
    | reset =>
      rw [errsSinceReset_reset, fadeSum_nil, List.length_nil, fadeCnt_zero]
      simp [preqStep, Preq.reset]

/-- **PrequentialError with resets.**  After ANY history of calls and `reset()`s, the value returned by the next
call (error `e`) is the fading average `(Σ_i a^(t-i) e_i) / (Σ_i a^(t-i))` over the errors `e_1 .. e_t` passed SINCE
THE LAST RESET (`e_t = e`), with a positive denominator.  Hypothesis `0 ≤ a` as in `C18.prequential_closed_form`
(it makes the denominator positive; for `a < 0` it can vanish, `C18.prequential_negative_alpha_witness`). -/
theorem prequential_closed_form_resets (a : ℝ) (ha : 0 ≤ a) (ops : List (Op ℝ)) (e : ℝ) :
    0 < fadeCnt a ((errsSinceReset ops).length + 1) ∧
    ((preqRunOps a ops).call e).1 =
      fadeSum a (errsSinceReset ops ++ [e]) / fadeCnt a ((errsSinceReset ops).length + 1) := by
  obtain ⟨h2, h3⟩ := preqRunOps_state a ops
  have h1 := (preqRunOps_consts a ops).1
  refine ⟨fadeCnt_pos ha _, ?_⟩
  simp [Preq.call, h1, h2, h3, fadeSum_append, fadeCnt_succ]

example : ((preqRunOps (1/2 : ℝ) [.update 1, .update 1, .reset, .update 1, .update 0]).call 1).1 = 5 / 7 := by
  have h := (prequential_closed_form_resets (1/2) (by norm_num) [.update 1, .update 1, .reset, .update 1, .update 0] 1).2
  have he : errsSinceReset ([.update 1, .update 1, .reset, .update 1, .update 0] : List (Op ℝ)) = [1, 0] := by
    simp [errsSinceReset]
  rw [h, he]
  simp [fadeSum, fadeCnt, Fin.sum_univ_three]
  norm_num

end PreqReset

/- NOT ATTEMPTED / UNPROVED (full statements), for the record:

  * (C11 review §4.3) the asymptotic p-value: the model has `p = none` above 10 000 (`kstwo.sf` is left to scipy), so
    "incremental = batch" above 10 000 is proved for the branch choice (`pOf_none_iff`) and for `statistic` / `h` only:
      ∀ sf, (asymptotic value of update) = sf (KS.statistic r win) (round (n*w/(n+w)))   -- needs a model change
  * (C11 review §4.4) tie-inclusive composition over ℝ:
      ref ≠ [] → test ≠ [] → pExactFrac n m (hTwoSided ref test)
        = ((paths n m).countP (fun p => statistic ref test ≤ D p), C(n+m,n))   with `D p` declarative, `D p = pathH n m p / lcm n m`
  * every-carrier trace theorem INCLUDING the `statistic` field: false in general (`incks_statistic_witness`); the
    every-carrier trace theorem `incks_trace_eq_batch` therefore projects the `statistic` away and
    `incks_run_window` gives it as the statistic of (sorted reference, rotated window).
  * `(kRun (IncKS.init w) ops).q = C09.pushAll (CQ.init w) (ghost ops).2` (the queue is literally the queue fed with
    the accepted values): true, follows from uniqueness of `QInv`; only `count` is stated (`incks_run_state`).
  * (C09 review §4.5) `fitExpectedK = expectedK` needs a second model function for `_fit` (model change).
-/

end Frouros.C18b

section Axioms
open Frouros.C18b
-- 1. circular queue, general histories
#print axioms specRun_suffix
#print axioms cq_holds_last_count_from
#print axioms cq_holds_last_count
#print axioms cq_full_exposes_last_general
#print axioms cq_refines_fifo_skip
#print axioms cq_skip_from_init
-- 2. ghost machine
#print axioms ghost_reset
#print axioms ghost_fit
#print axioms ghost_fresh
#print axioms ghost_shape
#print axioms ghostFrom_unfit
-- 2a/2c. IncrementalKSTest
#print axioms incks_run_unfitted
#print axioms incks_run_eq_batch
#print axioms incks_run_statistic_partial
#print axioms incks_run_eq_batch_real
#print axioms incks_run_state
#print axioms incks_history_shape_real
#print axioms incks_statistic_eq_batch_partial
#print axioms incks_eq_batch_real
#print axioms incks_statistic_witness
#print axioms incks_trace_eq_batch
#print axioms incks_trace_eq_batch_real
#print axioms qinv_raw_eq_rotate
#print axioms incks_run_window
#print axioms incks_p_valid
#print axioms incks_zero_window_witness
#print axioms pOf_none_iff
#print axioms hTwoSided_symm
#print axioms pExactFrac_symm
#print axioms batchK_symm
-- 3. streaming MMD
#print axioms mmd_run_unfitted
#print axioms mmd_zero_window_witness
#print axioms mmd_run_window
#print axioms stream_window_rotation
#print axioms mmd_run_state
#print axioms mmd_run_eq_batch
#print axioms mmd_run_eq_unbiased
#print axioms mmd_trace_eq_batch
#print axioms mmd_large_chunk
#print axioms mmd_rbf_eq_unbiased
#print axioms mmd_rbf_eq_unbiased_1d
-- 4. AccuracyQueue
#print axioms accq_enqueue_bridge
#print axioms accq_dequeue_bridge
#print axioms accq_keepLast_bridge
#print axioms accStep_bridge
#print axioms accRun_bridge
#print axioms accuracy_queue_general
#print axioms accq_enqueue_total
#print axioms accq_dequeue_no_underflow
#print axioms accq_dequeue_underflow_witness
-- 5. PrequentialError with resets
#print axioms errsSinceReset_reset_updates
#print axioms preqRunOps_consts
#print axioms preq_run_after_reset
#print axioms prequential_closed_form_resets
end Axioms
