/-
  C05 — ADWIN keeps an exact suffix window and shrinks only on a significant cut.

  Model: `Frouros.ADWIN` in `FrourosModel/Window.lean` (unchanged).
  Helper lemmas: `FrourosProofs/Lemmas/SSD.lean` (algebra at ℝ), `FrourosProofs/Lemmas/ADWINRows.lean`
  (bucket bookkeeping, any carrier), `FrourosProofs/Lemmas/ADWINRepr.lean` (representation invariant at ℝ).
-/
import FrourosProofs.Lemmas.SSD
import FrourosProofs.Lemmas.ADWINRows
import FrourosProofs.Lemmas.ADWINRepr

namespace Frouros.C05
open ADWIN
variable {α : Type} [Num α]

/-! ## 1–2. Bucket bookkeeping (any carrier `α`, hence literally for IEEE doubles) -/

/-- `WF` (row bounds + `width = Σ 2^i·|rows[i]|`) is preserved by a whole `step`. -/
theorem WF_step (c : Cfg α) (hm : 1 ≤ c.m) (s : State α) (v : α) (h : WF c s) : WF c (step c s v) := by
  have h1 : WF c (insert c { s with n := s.n + 1, drift := false } v) := WF_insert c hm _ v h
  unfold step
  simp only []
  split
  · exact WF_checkLoop c _ _ h1
  · exact h1

theorem reachable_WF (c : Cfg α) (hm : 1 ≤ c.m) {s : State α} (h : (ADWIN.machine c).Reachable s) : WF c s :=
  (ADWIN.machine c).invariant (P := WF c) (WF_init c) (fun s v => WF_step c hm s v) (fun s _ => WF_reset c s) h

/-- **rows_bounded.**  In every state reachable from `init` by updates and resets (`1 ≤ c.m`):
`rows` is non-empty, every row holds at most `c.m` entries (so `compress` restores the bound after
every insertion), and the last row is non-empty unless the window is the empty `[[]]`. -/
theorem rows_bounded (c : Cfg α) (hm : 1 ≤ c.m) {s : State α} (h : (ADWIN.machine c).Reachable s) :
    s.rows ≠ [] ∧ (∀ r ∈ s.rows, r.length ≤ c.m) ∧
      (s.rows = [[]] ∨ ∀ l, s.rows.getLast? = some l → l ≠ []) := by
  obtain ⟨hr, _⟩ := reachable_WF c hm h
  exact ⟨hr.ne, hr.bound, hr.last.imp id (LastNE_iff_getLast? _).1⟩

/-- non-vacuity of `rows_bounded`: a reachable state with two rows -/
example : ∃ s, (ADWIN.machine (⟨0, 0, 2, 0, 0⟩ : Cfg Float)).Reachable s ∧ s.rows.length = 2 :=
  ⟨_, (ADWIN.machine _).reachable_run [.update 1, .update 2, .update 3], by decide⟩

/-- The hypothesis `1 ≤ c.m` is needed: with `m = 0` the test `row.length == m + 1` succeeds once
(on a one-element row, where nothing can be merged) and never again, so row 0 grows without bound. -/
theorem rows_bounded_m0_witness (v : α) :
    let c : Cfg α := ⟨0, v, 0, 0, 0⟩
    ∃ s, (ADWIN.machine c).Reachable s ∧ ∃ r ∈ s.rows, c.m < r.length := by
  intro c
  refine ⟨_, (ADWIN.machine c).reachable_run [.update v, .update v], [(v, Num.zero), (v, Num.zero)], ?_, by simp [c]⟩
  simp [Machine.run, Machine.runFrom, Machine.apply, ADWIN.machine, step, ADWIN.insert, init, compress, c]


/-- `wsum 0 rows` is the sum `Σ_i 2^i · |rows[i]|` over the rows paired with their indices -/
theorem wsum_eq_sum {β : Type} (i : Nat) (rows : List (List β)) :
    wsum i rows = ((rows.zipIdx i).map (fun p => 2 ^ p.2 * p.1.length)).sum := by
  induction rows generalizing i with
  | nil => rfl
  | cons r rs ih => simp [List.zipIdx_cons, ih]

/-- **width_eq.**  In every reachable state `width = Σ_i 2^i · |rows[i]|`. -/
theorem width_eq (c : Cfg α) (hm : 1 ≤ c.m) {s : State α} (h : (ADWIN.machine c).Reachable s) :
    s.width = (s.rows.zipIdx.map (fun p => 2 ^ p.2 * p.1.length)).sum := by
  rw [← wsum_eq_sum]; exact (reachable_WF c hm h).2

/-- The truncated subtraction `s.width - 2^k` in `deleteOldest` never truncates where `checkLoop`
calls it (a `WF` state on which the scan found a cut; `WF` holds for the state after `insert` by
`WF_insert` and along the loop by `WF_delete`): the dropped bucket size `2^k`, `k` the index of the
last row, is at most `width`, exactly one entry disappears, and the width drops by exactly `2^k > 0`. -/
theorem delete_no_underflow (c : Cfg α) (s : State α) (h : WF c s) (hc : cutFound c s = true) :
    2 ^ (s.rows.length - 1) ≤ s.width
      ∧ (deleteOldest s).width + 2 ^ (s.rows.length - 1) = s.width
      ∧ numEntries (deleteOldest s) + 1 = numEntries s
      ∧ WF c (deleteOldest s) := by
  obtain ⟨h1, _, h3, h4, h5⟩ := WF_delete c s h (le_trans (by decide) (scan_true_two hc))
  exact ⟨h4, h5, h3, h1⟩

/-! ## 5. Control flow of one `step` (any carrier `α`) -/

/-- the state after the insertion phase of `step` (before the optional check) -/
def afterInsert (c : Cfg α) (s : State α) (v : α) : State α :=
  ADWIN.insert c { s with n := s.n + 1, drift := false } v

/-- "the check runs in this step" (`num_instances % clock == 0 and width > min_num_instances`) -/
def checkRuns (c : Cfg α) (s : State α) : Prop := (s.n + 1) % c.clock = 0 ∧ c.minN < s.width + 1

instance (c : Cfg α) (s : State α) : Decidable (checkRuns c s) := by unfold checkRuns; infer_instance

theorem step_eq (c : Cfg α) (s : State α) (v : α) :
    step c s v = if checkRuns c s then checkLoop c (numEntries (afterInsert c s v) + 1) (afterInsert c s v)
                 else afterInsert c s v := by
  unfold step checkRuns
  simp only [afterInsert]
  by_cases h1 : (s.n + 1) % c.clock = 0 <;> by_cases h2 : c.minN < s.width + 1 <;>
    simp [h1, h2, ADWIN.insert]

@[simp] theorem afterInsert_width (c : Cfg α) (s : State α) (v : α) : (afterInsert c s v).width = s.width + 1 := rfl
@[simp] theorem afterInsert_drift (c : Cfg α) (s : State α) (v : α) : (afterInsert c s v).drift = false := rfl
@[simp] theorem afterInsert_n (c : Cfg α) (s : State α) (v : α) : (afterInsert c s v).n = s.n + 1 := rfl

theorem WF_afterInsert (c : Cfg α) (hm : 1 ≤ c.m) (s : State α) (v : α) (h : WF c s) : WF c (afterInsert c s v) :=
  WF_insert c hm _ v h

/-- **shrink_only_on_cut** (any state `s`, reachable or not).  If after a step the window is shorter
than "old window plus the new value", then the check ran in this step and the scan over the state
right after the insertion found a significant cut. -/
theorem shrink_only_on_cut (c : Cfg α) (s : State α) (v : α) (h : (step c s v).width < s.width + 1) :
    checkRuns c s ∧ cutFound c (afterInsert c s v) = true := by
  rw [step_eq] at h
  by_cases hr : checkRuns c s
  · refine ⟨hr, ?_⟩
    rw [if_pos hr] at h
    cases hc : cutFound c (afterInsert c s v) with
    | true => rfl
    | false => rw [checkLoop_of_not_cut c _ _ hc] at h; simp at h
  · rw [if_neg hr] at h; simp at h

/-- the window never grows by more than the inserted value -/
theorem step_width_le (c : Cfg α) (s : State α) (v : α) : (step c s v).width ≤ s.width + 1 := by
  rw [step_eq]
  split
  · exact checkLoop_width_le c _ _
  · exact le_refl _

/-- **drift flag = "check ran and found a cut"** (any state `s`). -/
theorem drift_iff_cut (c : Cfg α) (s : State α) (v : α) :
    (step c s v).drift = true ↔ checkRuns c s ∧ cutFound c (afterInsert c s v) = true := by
  rw [step_eq]
  by_cases hr : checkRuns c s
  · rw [if_pos hr]
    cases hc : cutFound c (afterInsert c s v) with
    | false => rw [checkLoop_of_not_cut c _ _ hc]; simp
    | true =>
      rw [checkLoop_succ, hc]
      simp only [if_true, afterInsert_width, Nat.zero_lt_succ]
      simp [hr, checkLoop_drift c _ (del (afterInsert c s v)) rfl]
  · rw [if_neg hr]; simp [hr]

/-- **drift_iff_dropped.**  For a well-formed state (`WF c s`: in particular every reachable state,
`reachable_WF`) and `1 ≤ c.m`: the step reports drift exactly when it dropped at least one bucket.
`←` holds for every state; `→` needs `WF`, because on an ill-formed state (e.g. an empty last row)
`deleteOldest` is a no-op while `checkLoop` still sets `drift`. -/
theorem drift_iff_dropped (c : Cfg α) (hm : 1 ≤ c.m) (s : State α) (hwf : WF c s) (v : α) :
    (step c s v).drift = true ↔ (step c s v).width < s.width + 1 := by
  constructor
  · intro hd
    obtain ⟨hr, hc⟩ := (drift_iff_cut c s v).1 hd
    rw [step_eq, if_pos hr, checkLoop_succ, hc]
    simp only [if_true, afterInsert_width, Nat.zero_lt_succ]
    have h1 := WF_afterInsert c hm s v hwf
    obtain ⟨_, hlt, _⟩ := WF_delete c _ h1 (le_trans (by decide) (scan_true_two hc))
    refine lt_of_le_of_lt (checkLoop_width_le c _ _) ?_
    show (deleteOldest (afterInsert c s v)).width < s.width + 1
    simpa using hlt
  · intro h
    exact (drift_iff_cut c s v).2 (shrink_only_on_cut c s v h)

/- UNPROVED (full statement), optional witness that `WF` cannot be dropped from `→` above:
   theorem drift_iff_dropped_needs_WF_witness :
     ∃ (c : Cfg ℝ) (s : State ℝ) (v : ℝ), 1 ≤ c.m ∧ (step c s v).drift = true ∧ (step c s v).width = s.width + 1
   Intended instance: `c = ⟨1, 2 * Real.log 4, 10, 0, 0⟩`, the ill-formed (unreachable) state
   `s.rows = [[(0,0),(0,0),(0,0)], []]`, `width = 3`, `total = 0`, `variance = 0`, and `v = 4`: the split 2|2 has
   threshold `0 < |0 - 2|`, `deleteOldest` is a no-op on the empty last row, the loop runs out of fuel with
   `drift = true` and the width unchanged.  Not proved (needs evaluating `scan` with `Real.log`); it concerns
   unreachable states only. -/

theorem drift_iff_dropped_reachable (c : Cfg α) (hm : 1 ≤ c.m) {s : State α}
    (h : (ADWIN.machine c).Reachable s) (v : α) :
    (step c s v).drift = true ↔ (step c s v).width < s.width + 1 :=
  drift_iff_dropped c hm s (reachable_WF c hm h) v

/-- **no_cut_after_check.**  When the check ran, the loop stops because no examined split of the
final window is significant — never because the fuel `numEntries + 1` of the model ran out. -/
theorem no_cut_after_check (c : Cfg α) (hm : 1 ≤ c.m) (s : State α) (hwf : WF c s) (v : α)
    (hr : checkRuns c s) : cutFound c (step c s v) = false := by
  rw [step_eq, if_pos hr]
  exact checkLoop_no_cut c _ _ (WF_afterInsert c hm s v hwf) (le_refl _)

theorem no_cut_after_check_reachable (c : Cfg α) (hm : 1 ≤ c.m) {s : State α}
    (h : (ADWIN.machine c).Reachable s) (v : α) (hr : checkRuns c s) : cutFound c (step c s v) = false :=
  no_cut_after_check c hm s (reachable_WF c hm h) v hr

/-- the fuel of the model is not a limitation: any larger fuel gives the same step -/
theorem step_fuel_irrelevant (c : Cfg α) (hm : 1 ≤ c.m) (s : State α) (hwf : WF c s) (v : α) (extra : Nat) :
    checkLoop c (numEntries (afterInsert c s v) + 1 + extra) (afterInsert c s v)
      = checkLoop c (numEntries (afterInsert c s v) + 1) (afterInsert c s v) :=
  checkLoop_fuel_irrelevant c _ _ _ (WF_afterInsert c hm s v hwf) (by omega) (le_refl _)


/-! ## 3. Algebraic identities (ℝ)

`ssd_merge_eq`, `ssd_insert`, `ssd_delete` are stated and proved in `FrourosProofs/Lemmas/SSD.lean`
(they are used by the representation invariant).  Model-facing corollaries: `merge_summ`
(`compress`), `insert_variance` (`insert`), and the variance clause of `Repr_delete` (`deleteOldest`). -/

example : ADWIN.mergeEntries 1 (([1] : List ℝ).sum, ssd [1]) (([3] : List ℝ).sum, ssd [3])
    = (([1, 3] : List ℝ).sum, ssd [1, 3]) := ssd_merge_eq [1] [3] 1 (by decide) rfl rfl
example : ssd ([1, 2] ++ [6] : List ℝ) = ssd [1, 2] + (([1, 2] : List ℝ).length : ℝ) * (6 - mean [1, 2]) ^ 2
    / ((([1, 2] : List ℝ).length : ℝ) + 1) := ssd_insert [1, 2] 6 (by simp)
example : ssd ([5] : List ℝ) = ssd ([1, 2] ++ [5])
    - (ssd [1, 2] + (((2 : Nat) : ℝ) * ([5] : List ℝ).length) * (mean [1, 2] - mean [5]) ^ 2
        / (((2 : Nat) : ℝ) + ([5] : List ℝ).length)) := ssd_delete [1, 2] [5] 2 (by decide) rfl (by simp)

/-! ## 4. Representation invariant (ℝ) -/

/-- the stream values seen since the last reset -/
def sinceReset (ops : List (Op ℝ)) : List ℝ :=
  ops.foldl (fun acc op => match op with | .update v => acc ++ [v] | .reset => []) []

/-- **repr.**  After any history of updates and resets, the ADWIN state represents *exactly* a
suffix `W` of the values seen since the last reset: there is a segmentation of `W` into consecutive
blocks, one per bucket entry in window order, the block of an entry of row `i` having `2^i` values
and the entry being `(block sum, block ssd)`; and `total = ΣW`, `variance = ssd W`, `width = |W|`.
(`Repr`/`ReprB` in `Lemmas/ADWINRepr.lean`.)  No hypothesis on the configuration is needed. -/
theorem repr (c : Cfg ℝ) (ops : List (Op ℝ)) : Repr ((ADWIN.machine c).run ops) (sinceReset ops) := by
  induction ops using List.reverseRecOn with
  | nil => exact Repr_init
  | append_singleton ops op ih =>
    have hrun : (ADWIN.machine c).run (ops ++ [op])
        = (ADWIN.machine c).apply ((ADWIN.machine c).run ops) op := by
      simp [Machine.run, Machine.runFrom, List.foldl_append]
    rw [hrun]
    cases op with
    | update v =>
      have hsr : sinceReset (ops ++ [.update v]) = sinceReset ops ++ [v] := by
        simp [sinceReset, List.foldl_append]
      rw [hsr]; exact Repr_step c _ _ v ih
    | reset =>
      have hsr : sinceReset (ops ++ [.reset]) = [] := by simp [sinceReset, List.foldl_append]
      rw [hsr]; exact Repr_reset ((ADWIN.machine c).run ops)

/-- pure streams: after feeding `xs` to a fresh detector the state represents a suffix of `xs` -/
theorem repr_stream (c : Cfg ℝ) (xs : List ℝ) : Repr (xs.foldl (step c) init) xs := by
  induction xs using List.reverseRecOn with
  | nil => exact Repr_init
  | append_singleton xs v ih => rw [List.foldl_append]; exact Repr_step c _ _ v ih

/-- **Exact suffix window.**  `width ≤` number of values since the last reset, and `total` /
`variance` are exactly the sum / sum of squared deviations of the last `width` of them. -/
theorem window_exact (c : Cfg ℝ) (ops : List (Op ℝ)) :
    let s := (ADWIN.machine c).run ops
    let xs := sinceReset ops
    s.width ≤ xs.length ∧ s.total = (xs.drop (xs.length - s.width)).sum
      ∧ s.variance = ssd (xs.drop (xs.length - s.width)) := by
  intro s xs
  obtain ⟨B, _, _, hsuf, hw, ht, hv⟩ := repr c ops
  have hW : windowOf B = xs.drop (xs.length - s.width) := by
    have := List.suffix_iff_eq_drop.1 hsuf
    rw [← hw] at this; exact this
  refine ⟨?_, by rw [← hW]; exact ht, by rw [← hW]; exact hv⟩
  have := hsuf.length_le
  show s.width ≤ xs.length
  rw [hw]; exact this

/-- non-vacuity: a history with a reset; the represented stream is `[3, 4]` -/
example (c : Cfg ℝ) :
    Repr ((ADWIN.machine c).run [.update 1, .update 2, .reset, .update 3, .update 4]) [3, 4] := by
  have := repr c [.update 1, .update 2, .reset, .update 3, .update 4]
  simpa [sinceReset] using this

/-- the invariants of every intermediate state are also available step-wise -/
theorem repr_preserved (c : Cfg ℝ) (s : State ℝ) (xs : List ℝ) (v : ℝ) (h : Repr s xs) :
    Repr (ADWIN.insert c s v) (xs ++ [v])
      ∧ (2 ≤ numEntries s → Repr (deleteOldest s) xs)
      ∧ Repr (step c s v) (xs ++ [v]) :=
  ⟨Repr_insert c s xs v h, Repr_delete s xs h, Repr_step c s xs v h⟩

/-! ### the control-flow theorems read on the window (ℝ) -/

/-- **shrink_only_on_cut, on the window.**  If a step shrinks the window then the check ran and some
proper split `W' = P.flatten ++ Q.flatten` of the window `W'` after the insertion, along a bucket
boundary, passes ADWIN's test (`hit`: both parts longer than `minWindow` and
`|mean W0 − mean W1| > threshold`), evaluated with the exact sizes and sums of the two parts. -/
theorem shrink_only_on_cut_split (c : Cfg ℝ) (s : State ℝ) (v : ℝ) (h : (step c s v).width < s.width + 1)
    (xs : List ℝ) (B : List (List (List ℝ))) (hB : ReprB (afterInsert c s v) xs B) :
    checkRuns c s ∧ ∃ P Q, blocksOf B = P ++ Q ∧ P ≠ [] ∧ Q ≠ [] ∧
      hit c (afterInsert c s v) P.flatten.length Q.flatten.length P.flatten.sum Q.flatten.sum := by
  obtain ⟨hr, hc⟩ := shrink_only_on_cut c s v h
  exact ⟨hr, (cutFound_iff_split c _ xs B hB).1 hc⟩

/-- **no_cut_after_check, on the window.**  After a step in which the check ran, *no* proper split of
the final window along a bucket boundary passes ADWIN's test. -/
theorem no_cut_after_check_split (c : Cfg ℝ) (hm : 1 ≤ c.m) (s : State ℝ) (hwf : WF c s) (v : ℝ)
    (hr : checkRuns c s) (xs : List ℝ) (B : List (List (List ℝ))) (hB : ReprB (step c s v) xs B) :
    ∀ P Q, blocksOf B = P ++ Q → P ≠ [] → Q ≠ [] →
      ¬ hit c (step c s v) P.flatten.length Q.flatten.length P.flatten.sum Q.flatten.sum := by
  intro P Q h1 h2 h3 hh
  have := (cutFound_iff_split c _ xs B hB).2 ⟨P, Q, h1, h2, h3, hh⟩
  rw [no_cut_after_check c hm s hwf v hr] at this
  cases this

/-! ## Non-vacuity of the hypotheses used above -/

/-- `WF`, `Reachable`, `checkRuns` and `1 ≤ c.m` are simultaneously satisfiable -/
example : ∃ (c : Cfg ℝ) (s : State ℝ), 1 ≤ c.m ∧ (ADWIN.machine c).Reachable s ∧ WF c s ∧ checkRuns c s :=
  ⟨⟨1, 0, 5, 0, 0⟩, init, by decide, Machine.Reachable.init, WF_init _, by simp [checkRuns, init]⟩

/-- `ReprB` with a non-trivial table: window `[1, 2, 3]` held as one bucket of 2 and one of 1 -/
example : ReprB
    ({ n := 3, drift := false, rows := [[summ [3]], [summ [1, 2]]], total := 6, variance := ssd [1, 2, 3],
       width := 3 } : State ℝ)
    [0, 1, 2, 3] [[[3]], [[1, 2]]] := by
  refine ⟨rfl, by simp, ⟨[0], by simp⟩, by simp, by simp; norm_num, by simp⟩

/-! ## Axioms -/
#print axioms rows_bounded
#print axioms rows_bounded_m0_witness
#print axioms width_eq
#print axioms delete_no_underflow
#print axioms ssd_merge_eq
#print axioms ssd_insert
#print axioms ssd_delete
#print axioms repr
#print axioms repr_stream
#print axioms window_exact
#print axioms repr_preserved
#print axioms cutFound_iff_split
#print axioms shrink_only_on_cut
#print axioms step_width_le
#print axioms drift_iff_cut
#print axioms drift_iff_dropped
#print axioms drift_iff_dropped_reachable
#print axioms no_cut_after_check
#print axioms no_cut_after_check_reachable
#print axioms step_fuel_irrelevant
#print axioms shrink_only_on_cut_split
#print axioms no_cut_after_check_split

end Frouros.C05
