/-
  C01 (continued, after the independent review `/tmp/proofs/review/C01.md`).

  1. `warmup_errors_eddm`            EDDM's counter `numMis` IS the number of errors in the stream since the last
                                     reset (every carrier) – hence "no flag before `minMis` errors" about the INPUT.
  2. `*_const_after_reset`           arbitrary (non-constant) pre-history, a reset, then a constant stream: silent.
  3. `hddmw_const_one*`              HDDM-W on the all-ones stream under a closed-form threshold condition that
                                     covers the default configuration (+ witnesses outside the condition).
  4. `kswin_const_model*`            KSWIN's constant-stream clause with the model's own KS routine plugged in
                                     (the oracle hypothesis `hks` is discharged: `hTwoSided l l = 0`, `p = 1`),
                                     for `ℝ`, for every carrier and literally for `Float`.
  5. (carrier-generic DDM on `0^k`/`1^k`) NOT done: it needs 9 algebraic identities + 2 on the configuration,
     more than the agreed budget; the exact list is in the UNPROVED block at the end of this file.
-/
import Mathlib.Analysis.Complex.ExponentialBounds
import FrourosProofs.Props.C01
import FrourosProofs.Props.C01c
import FrourosProofs.Props.C02b
import FrourosProofs.Props.C11
import FrourosProofs.Lemmas.HDDMWOnes
import FrourosProofs.Lemmas.HDDMWOnesWitness

namespace Frouros.C01d
open Frouros Frouros.C01c

/-! ## 0. The stream since the last reset -/
section Since
variable {V : Type}

/-- ghost transition: an update appends its value, a reset forgets everything -/
def Op.collect (acc : List V) : Op V → List V
  | .update v => acc ++ [v]
  | .reset => []

/-- the values fed by `update` since construction / the last `reset`, oldest first -/
def updatesSinceReset (ops : List (Op V)) : List V := ops.foldl Op.collect []

@[simp] theorem updatesSinceReset_nil : updatesSinceReset ([] : List (Op V)) = [] := rfl

@[simp] theorem updatesSinceReset_append_update (ops : List (Op V)) (v : V) :
    updatesSinceReset (ops ++ [.update v]) = updatesSinceReset ops ++ [v] := by
  simp [updatesSinceReset, List.foldl_append, Op.collect]

@[simp] theorem updatesSinceReset_append_reset (ops : List (Op V)) :
    updatesSinceReset (ops ++ [.reset]) = [] := by
  simp [updatesSinceReset, List.foldl_append, Op.collect]

theorem foldl_collect_updates (vs acc : List V) : (vs.map Op.update).foldl Op.collect acc = acc ++ vs := by
  induction vs generalizing acc with
  | nil => simp
  | cons v vs ih => simp [Op.collect, ih]

/-- sanity check of the definition: without resets it is the whole stream … -/
theorem updatesSinceReset_updates (vs : List V) : updatesSinceReset (vs.map Op.update) = vs := by
  simp [updatesSinceReset, foldl_collect_updates]

/-- … and after a reset exactly the values behind it, whatever came before -/
theorem updatesSinceReset_reset_updates (pre : List (Op V)) (vs : List V) :
    updatesSinceReset (pre ++ [.reset] ++ vs.map Op.update) = vs := by
  simp [updatesSinceReset, List.foldl_append, Op.collect, foldl_collect_updates]

/-- its length is the ghost counter `sinceReset` of `Lemmas/SinceReset.lean` -/
theorem length_updatesSinceReset (ops : List (Op V)) : (updatesSinceReset ops).length = sinceReset ops := by
  induction ops using List.reverseRecOn with
  | nil => rfl
  | append_singleton ops op ih =>
    cases op with
    | update v => simp [ih]
    | reset => simp

/-- product-machine induction with the list of values since the last reset as ghost state -/
theorem run_ghostL {S : Type} (M : Machine S V) (P : List V → S → Prop) (h0 : P [] M.init)
    (hs : ∀ l s v, P l s → P (l ++ [v]) (M.step s v)) (hr : ∀ l s, P l s → P [] (M.reset s))
    (ops : List (Op V)) : P (updatesSinceReset ops) (M.run ops) := by
  induction ops using List.reverseRecOn with
  | nil => exact h0
  | append_singleton ops op ih =>
    have hrun : M.run (ops ++ [op]) = M.apply (M.run ops) op := by
      simp [Machine.run, Machine.runFrom, List.foldl_append]
    rw [hrun]
    cases op with
    | update v => rw [updatesSinceReset_append_update]; exact hs _ _ v ih
    | reset => rw [updatesSinceReset_append_reset]; exact hr _ _ ih
end Since

/-! ## 1. EDDM: `numMis` is the number of errors in the stream since the last reset -/
section EDDMErrors
variable {α : Type} [Num α]

/-- an update value counts as an error exactly when the model's test `Num.beq v 1` succeeds
(`EDDM.step`, first line; Python `if value == 1:` at eddm.py:348) -/
def isError (v : α) : Bool := Num.beq v (Num.one : α)

/-- number of errors among the updates since construction / the last reset -/
def errorsSinceReset (ops : List (Op α)) : Nat := ((updatesSinceReset ops).filter isError).length

theorem eddm_step_numMis_eq (c : EDDM.Cfg α) (s : EDDM.State α) (v : α) :
    (EDDM.step c s v).numMis = s.numMis + (if isError v then 1 else 0) := by
  unfold isError
  grind [EDDM.step]

/-- **EDDM warm-up against the stream** (every carrier, every configuration, every history with resets):
the state counter `numMis` equals the number of updates since the last reset whose value is an error
(`Num.beq v 1`), and a raised flag implies that at least `minMis` errors were fed since the last reset.
This closes the gap of `C01.warmup_run_eddm`, which only related the flags to the state field `numMis`.
(`minMis = 0` is accepted by `Config.eddm`; the implication is then trivially true – there is no
warm-up to speak of.) -/
theorem warmup_errors_eddm (c : EDDM.Cfg α) (ops : List (Op α)) :
    let s := (EDDM.machine c).run ops
    s.numMis = errorsSinceReset ops ∧
    ((s.drift = true ∨ s.warning = true) → c.minMis ≤ errorsSinceReset ops) := by
  intro s
  have key : s.numMis = errorsSinceReset ops := by
    refine run_ghostL (EDDM.machine c) (fun l s => s.numMis = (l.filter isError).length) rfl ?_ ?_ ops
    · intro l s v h
      simp only [EDDM.machine]
      rw [eddm_step_numMis_eq, h, List.filter_append, List.length_append]
      cases hv : isError v <;> simp [hv]
    · intro l s _; rfl
  refine ⟨key, fun hf => ?_⟩
  rw [← key]
  exact (C01.warmup_run_eddm c ops).2.2 hf

/-- contrapositive, the form of the property: while fewer than `minMis` ERRORS were fed since the
last reset (however many non-error updates there were), no flag is up -/
theorem warmup_errors_eddm' (c : EDDM.Cfg α) (ops : List (Op α)) (h : errorsSinceReset ops < c.minMis) :
    ((EDDM.machine c).run ops).drift = false ∧ ((EDDM.machine c).run ops).warning = false := by
  have h3 := (warmup_errors_eddm c ops).2
  cases hd : ((EDDM.machine c).run ops).drift <;> cases hw : ((EDDM.machine c).run ops).warning <;>
    simp only [hd, hw] at h3 <;> first | exact ⟨rfl, rfl⟩ | (have := h3 (by simp); omega)

/-- the counter also never exceeds the number of updates (`C01.warmup_run_eddm`), now as a fact about lists -/
theorem errorsSinceReset_le (ops : List (Op α)) : errorsSinceReset ops ≤ sinceReset ops := by
  rw [← length_updatesSinceReset]
  exact List.length_filter_le _ _

end EDDMErrors

theorem isError_one : isError (1 : ℝ) = true := by simp [isError]
theorem isError_zero : isError (0 : ℝ) = false := by
  cases h : isError (0 : ℝ) with
  | false => rfl
  | true => simp [isError] at h

/-- non-vacuity (carrier `ℝ`): 3 updates before a reset, then `1, 0, 1, 1`: 4 updates, 3 errors since the
reset – fewer than `minMis = 30`, more than 0, different from the number of updates -/
example : errorsSinceReset ([Op.update (1 : ℝ), .update 1, .update 1, .reset, .update 1, .update 0, .update 1, .update 1]) = 3 := by
  simp [errorsSinceReset, updatesSinceReset, Op.collect, List.filter, isError_one, isError_zero]

example : ((EDDM.machine (⟨95 / 100, 9 / 10, 2, 30⟩ : EDDM.Cfg ℝ)).run
    [Op.update (1 : ℝ), .update 1, .update 1, .reset, .update 1, .update 0, .update 1, .update 1]).warning = false := by
  refine (warmup_errors_eddm' _ _ ?_).2
  simp [errorsSinceReset, updatesSinceReset, Op.collect, List.filter, isError_one, isError_zero]

/-! ## 2. Arbitrary pre-history, a reset, then a constant stream

`ConstHist c ops` (C01c) constrains EVERY update of the history, so the `*_const_resets` theorems say
nothing about `[update 0, reset, update 1, update 1, …]`.  The statements below close that gap: `pre` is
an arbitrary history (any values, any resets, for STEPD/RDDM even histories in which the detector
raised), `post` is a constant history (resets allowed).  They are obtained by composing
`C02.run_after_reset_*` (the state after `pre ++ [reset] ++ post` is the state after `post`) with the
`*_const_resets` theorems; the hypotheses are exactly those of the latter.  As `post` is arbitrary the
statement holds at every step behind the reset. -/
section AfterReset

/-- `¬ ConstHist`: the histories covered here are genuinely outside the scope of `*_const_resets` -/
example : ¬ ConstHist (1 : ℝ) ([Op.update 0] ++ [Op.reset] ++ [Op.update 1]) := by
  intro h
  rcases h (Op.update 0) (by simp) with h | ⟨v, hv, hv1⟩
  · cases h
  · cases hv; norm_num at hv1

theorem cusum_const_after_reset (cfg : CUSUMFam.Cfg ℝ) (hl : 0 ≤ cfg.lambda)
    (hd : cfg.kind = .cusum ∨ cfg.kind = .pageHinkley → 0 ≤ cfg.delta)
    (ha : cfg.kind = .pageHinkley → 0 ≤ cfg.alpha) (c : ℝ) (pre : List (Op ℝ)) {post : List (Op ℝ)}
    (h : ConstHist c post) : ((CUSUMFam.machine cfg).run (pre ++ [.reset] ++ post)).drift = false := by
  rw [C02.run_after_reset_cusum]; exact cusum_const_resets cfg hl hd ha c h

theorem ddm_const_after_reset (cfg : DDM.Cfg ℝ) (c : ℝ) (hc : c = 0 ∨ c = 1) (pre : List (Op ℝ))
    {post : List (Op ℝ)} (h : ConstHist c post) :
    ((DDM.machine cfg).run (pre ++ [.reset] ++ post)).drift = false ∧
    ((DDM.machine cfg).run (pre ++ [.reset] ++ post)).warning = false := by
  rw [C02.run_after_reset_ddm]; exact ddm_const_resets cfg c hc h

theorem ecdd_const_after_reset (cfg : ECDD.Cfg ℝ) (hlam : cfg.lam ≤ 1) (c : ℝ) (hc : c = 0 ∨ c = 1)
    (pre : List (Op ℝ)) {post : List (Op ℝ)} (h : ConstHist c post) :
    ((ECDD.machine cfg).run (pre ++ [.reset] ++ post)).drift = false ∧
    ((ECDD.machine cfg).run (pre ++ [.reset] ++ post)).warning = false := by
  rw [C02.run_after_reset_ecdd]; exact ecdd_const_resets cfg hlam c hc h

/-- EDDM, constant `c ≠ 1` (no error ever): every configuration -/
theorem eddm_const_ne_one_after_reset (cfg : EDDM.Cfg ℝ) (c : ℝ) (hc : c ≠ 1) (pre : List (Op ℝ))
    {post : List (Op ℝ)} (h : ConstHist c post) :
    ((EDDM.machine cfg).run (pre ++ [.reset] ++ post)).drift = false ∧
    ((EDDM.machine cfg).run (pre ++ [.reset] ++ post)).warning = false := by
  rw [C02.run_after_reset_eddm]; exact eddm_const_ne_one_resets cfg c hc h

/-- EDDM, any constant; `alpha ≤ 1` is NOT implied by acceptance (`C01c.eddm_const_witness`) -/
theorem eddm_const_after_reset (cfg : EDDM.Cfg ℝ) (hba : cfg.beta < cfg.alpha) (ha : cfg.alpha ≤ 1) (c : ℝ)
    (pre : List (Op ℝ)) {post : List (Op ℝ)} (h : ConstHist c post) :
    ((EDDM.machine cfg).run (pre ++ [.reset] ++ post)).drift = false ∧
    ((EDDM.machine cfg).run (pre ++ [.reset] ++ post)).warning = false := by
  rw [C02.run_after_reset_eddm]; exact eddm_const_resets cfg hba ha c h

theorem hddma_const_after_reset (cfg : HDDMA.Cfg ℝ) (hpos : 0 < cfg.alphaD) (hle : cfg.alphaD ≤ 1) (c : ℝ)
    (pre : List (Op ℝ)) {post : List (Op ℝ)} (h : ConstHist c post) :
    ((HDDMA.machine cfg).run (pre ++ [.reset] ++ post)).drift = false ∧
    ((HDDMA.machine cfg).run (pre ++ [.reset] ++ post)).warning = false := by
  rw [C02.run_after_reset_hddma]; exact hddma_const_resets cfg hpos hle c h

/-- HDDM-W, constant `0`, every configuration (for the constant `1` see `hddmw_const_one_after_reset`) -/
theorem hddmw_const_zero_after_reset (cfg : HDDMW.Cfg ℝ) (pre : List (Op ℝ)) {post : List (Op ℝ)}
    (h : ConstHist (0 : ℝ) post) :
    ((HDDMW.machine cfg).run (pre ++ [.reset] ++ post)).drift = false ∧
    ((HDDMW.machine cfg).run (pre ++ [.reset] ++ post)).warning = false := by
  rw [C02.run_after_reset_hddmw]; exact hddmw_const_zero_resets cfg h

theorem adwin_const_after_reset (cfg : ADWIN.Cfg ℝ) (hd : 0 < cfg.delta) (hd1 : cfg.delta ≤ 1) (c : ℝ)
    (pre : List (Op ℝ)) {post : List (Op ℝ)} (h : ConstHist c post) :
    ((ADWIN.machine cfg).run (pre ++ [.reset] ++ post)).drift = false := by
  rw [C02.run_after_reset_adwin]; exact adwin_const_resets cfg hd hd1 c h

/-- RDDM: `1 ≤ minConcept` (implied by `Config.rddm`) serves both theorems being composed: without it
`reset` does not return to `init` (`C02.reset_eq_init_rddm_witness`) -/
theorem rddm_const_after_reset (cfg : RDDM.Cfg ℝ) (hcap : 1 ≤ cfg.minConcept) (c : ℝ) (hc : c = 0 ∨ c = 1)
    (pre : List (Op ℝ)) {post : List (Op ℝ)} (h : ConstHist c post) :
    ((RDDM.machine cfg).run (pre ++ [.reset] ++ post)).drift = false ∧
    ((RDDM.machine cfg).run (pre ++ [.reset] ++ post)).warning = false := by
  rw [C02.run_after_reset_rddm cfg hcap]; exact rddm_const_resets cfg hcap c hc h

/-- KSWIN with an abstract p-value routine (see §4 for the model's own routine) -/
theorem kswin_const_after_reset (ksP : List ℝ → List ℝ → ℝ) (cfg : KSWIN.Cfg ℝ) (hnt : cfg.numTest ≤ cfg.minN) (x : ℝ)
    (hks : ksP (List.replicate cfg.numTest x) (List.replicate cfg.numTest x) = 1) (ha : cfg.alpha < 1)
    (pre : List (Op (ℝ × List Nat))) {post : List (Op (ℝ × List Nat))} (h : HistOf (KswinConst cfg x) post) :
    ((KSWIN.machine ksP cfg).run (pre ++ [.reset] ++ post)).drift = false := by
  rw [C02.run_after_reset_kswin]; exact kswin_const_resets ksP cfg hnt x hks ha h

/-- STEPD.  `C02.run_after_reset_stepd` needs `0 < minN`; the invariant `Stepd.Inv` holds after `reset` from
ANY state, so here the composition is done directly on `runFrom` and no hypothesis on `minN` is needed
(with `minN = 0` every update raises, `reset` clears the flags and they never change again).
`¬ 1 < alpha_w` is NOT implied by acceptance (`C01c.stepd_const_witness`). -/
theorem stepd_const_after_reset (sf : ℝ → ℝ) (cfg : STEPD.Cfg ℝ) (hD : ¬ 1 < cfg.alphaD) (hW : ¬ 1 < cfg.alphaW)
    (b : Bool) (pre : List (Op Bool)) {post : List (Op Bool)} (h : ConstHist b post) :
    ((STEPD.machine sf cfg).run (pre ++ [.reset] ++ post)).drift = false ∧
    ((STEPD.machine sf cfg).run (pre ++ [.reset] ++ post)).warning = false := by
  have H : ∀ (ops : List (Op Bool)) (s : STEPD.State), Stepd.Inv b s → ConstHist b ops →
      Stepd.Inv b ((STEPD.machine sf cfg).runFrom s ops) := by
    intro ops
    induction ops with
    | nil => intro s hs _; exact hs
    | cons op ops ih =>
      intro s hP hQ
      have hop := hQ op List.mem_cons_self
      have hrest : ConstHist b ops := fun o ho => hQ o (List.mem_cons_of_mem _ ho)
      show Stepd.Inv b ((STEPD.machine sf cfg).runFrom ((STEPD.machine sf cfg).apply s op) ops)
      apply ih _ _ hrest
      rcases hop with rfl | ⟨v, rfl, hv⟩
      · exact Stepd.inv_reset b s
      · subst hv; exact Stepd.inv_step sf hD hW hP
  have hsplit : (STEPD.machine sf cfg).run (pre ++ [.reset] ++ post) =
      (STEPD.machine sf cfg).runFrom ((STEPD.machine sf cfg).reset ((STEPD.machine sf cfg).run pre)) post := by
    simp [Machine.run, Machine.runFrom, List.foldl_append, Machine.apply]
  rw [hsplit]
  have := H post ((STEPD.machine sf cfg).reset ((STEPD.machine sf cfg).run pre))
    (Stepd.inv_reset b ((STEPD.machine sf cfg).run pre)) h
  exact ⟨this.drift, this.warning⟩

/-- non-vacuity: a non-constant pre-history (on which DDM with `minN = 1` does raise flags), a reset,
then ones -/
example : ((DDM.machine (⟨2, 3, 1⟩ : DDM.Cfg ℝ)).run
    ([Op.update 0, .update 1, .update 0, .update 1] ++ [.reset] ++ List.replicate 50 (.update 1))).warning = false :=
  (ddm_const_after_reset _ 1 (Or.inr rfl) _ (constHist_replicate (1 : ℝ) 50)).2

example (sf : ℝ → ℝ) : ((STEPD.machine sf (⟨3 / 1000, 5 / 100, 30⟩ : STEPD.Cfg ℝ)).run
    ([Op.update true, .update false] ++ [.reset] ++ List.replicate 100 (.update true))).warning = false :=
  (stepd_const_after_reset sf _ (by norm_num) (by norm_num) true _ (constHist_replicate true 100)).2
end AfterReset

/-! ## 3. HDDM-W on the all-ones stream

`C01c` proves silence of HDDM-W only for the constant `0` and refutes the general claim with the boundary
configuration `alpha_w = 1`.  Here: a POSITIVE theorem for the constant `1` under the closed-form
conditions `HddmwOnes.ThrInc` / `HddmwOnes.ThrDec` on `(alpha_w, lambda)`:

  * increase test (always run):   `(1-lam)² (2-lam) ≤ (lam + (1-lam)³) · log(1/alpha_w)`
  * decrease test (two-sided):    `2 - lam ≤ log(1/alpha_w)`

Both hold whenever `alpha_w ≤ e⁻² ≈ 0.135` (`hddmw_cfgOK_of_exp`), in particular for the default
`HDDMWConfig()` (`alpha_d = 0.001`, `alpha_w = 0.005`, `lambda_ = 0.05`).  The conditions are SUFFICIENT, not
necessary (the decrease condition is sharp up to its boundary, the increase condition is not).
Outside: `hddmw_ones_witness` (a warning with `alpha_w = 9/10 < 1`). -/
section HDDMWOnes
open HddmwOnes

/-- invariant (`HddmwOnes.Inv`: every sample `s` has `ibc·(2-lam) = lam + 2(1-lam)(1-mean)²`, `0 ≤ mean ≤ 1`,
`lam ≤ inc1.mean` once a cut point exists; no flag) after every history of resets and updates with `1`.
Hypotheses `HddmwOnes.CfgOK`: `0 < lam ≤ 1`, `0 < alpha_d ≤ alpha_w` (implied by `Config.hddmw`; they
exclude the junk values `log(1/0)`, `log` of a negative number), `ThrInc`, and `ThrDec` if two-sided. -/
theorem hddmw_const_one_inv (cfg : HDDMW.Cfg ℝ) (hcfg : CfgOK cfg) {ops : List (Op ℝ)} (h : ConstHist (1 : ℝ) ops) :
    Inv cfg ((HDDMW.machine cfg).run ops) :=
  const_run (HDDMW.machine cfg) (inv_init cfg) (fun _ hs => inv_step hcfg hs) (fun s _ => inv_reset cfg s) h

theorem hddmw_const_one_resets (cfg : HDDMW.Cfg ℝ) (hcfg : CfgOK cfg) {ops : List (Op ℝ)} (h : ConstHist (1 : ℝ) ops) :
    ((HDDMW.machine cfg).run ops).drift = false ∧ ((HDDMW.machine cfg).run ops).warning = false :=
  ⟨(hddmw_const_one_inv cfg hcfg h).drift, (hddmw_const_one_inv cfg hcfg h).warning⟩

/-- stream form -/
theorem hddmw_const_one (cfg : HDDMW.Cfg ℝ) (hcfg : CfgOK cfg) (k : Nat) :
    ((List.replicate k (1 : ℝ)).foldl (HDDMW.step cfg) (HDDMW.init cfg)).drift = false ∧
    ((List.replicate k (1 : ℝ)).foldl (HDDMW.step cfg) (HDDMW.init cfg)).warning = false := by
  have := hddmw_const_one_resets cfg hcfg (constHist_replicate (1 : ℝ) k)
  rwa [← foldl_replicate_eq_run (HDDMW.machine cfg) (1 : ℝ) k] at this

/-- arbitrary pre-history, reset, ones -/
theorem hddmw_const_one_after_reset (cfg : HDDMW.Cfg ℝ) (hcfg : CfgOK cfg) (pre : List (Op ℝ))
    {post : List (Op ℝ)} (h : ConstHist (1 : ℝ) post) :
    ((HDDMW.machine cfg).run (pre ++ [.reset] ++ post)).drift = false ∧
    ((HDDMW.machine cfg).run (pre ++ [.reset] ++ post)).warning = false := by
  rw [C02.run_after_reset_hddmw]; exact hddmw_const_one_resets cfg hcfg h

/-- both 0/1 constants (the error-stream quantifier of the property) -/
theorem hddmw_const_01_resets (cfg : HDDMW.Cfg ℝ) (hcfg : CfgOK cfg) (c : ℝ) (hc : c = 0 ∨ c = 1)
    {ops : List (Op ℝ)} (h : ConstHist c ops) :
    ((HDDMW.machine cfg).run ops).drift = false ∧ ((HDDMW.machine cfg).run ops).warning = false := by
  rcases hc with rfl | rfl
  · exact hddmw_const_zero_resets cfg h
  · exact hddmw_const_one_resets cfg hcfg h

/-- a simple closed form implying all threshold conditions, for both modes and every `0 < lam ≤ 1`:
`alpha_w ≤ e⁻²` -/
theorem hddmw_cfgOK_of_exp (cfg : HDDMW.Cfg ℝ) (hl0 : 0 < cfg.lam) (hl1 : cfg.lam ≤ 1) (hd0 : 0 < cfg.alphaD)
    (hdw : cfg.alphaD ≤ cfg.alphaW) (hw : cfg.alphaW ≤ Real.exp (-2)) : CfgOK cfg := by
  have hw0 : 0 < cfg.alphaW := lt_of_lt_of_le hd0 hdw
  have hlog : 2 ≤ Real.log (1 / cfg.alphaW) := by
    rw [one_div, Real.log_inv]
    have := (Real.log_le_iff_le_exp hw0).2 hw
    linarith
  have hdec : ThrDec cfg.alphaW cfg.lam := by unfold ThrDec; linarith
  exact ⟨hl0, hl1, hd0, hdw, thrInc_of_thrDec hl0 hl1 hdec, fun _ => hdec⟩

/-- `log 200 ≥ 7 log 2 ≥ 7/2` -/
theorem log_200_ge : 7 / 2 ≤ Real.log (1 / (5 / 1000 : ℝ)) := by
  have h1 : Real.log ((2 : ℝ) ^ 7) ≤ Real.log (1 / (5 / 1000 : ℝ)) := Real.log_le_log (by norm_num) (by norm_num)
  rw [Real.log_pow] at h1
  have := HddmwW.log_two_ge
  push_cast at h1
  linarith

/-- the default configuration `HDDMWConfig()` (`alpha_d = 0.001`, `alpha_w = 0.005`, `lambda_ = 0.05`,
`min_num_instances = 30`), one- or two-sided, satisfies the hypotheses -/
theorem hddmw_default_cfgOK (two : Bool) : CfgOK (⟨1 / 1000, 5 / 1000, two, 5 / 100, 30⟩ : HDDMW.Cfg ℝ) := by
  have hdec : ThrDec (5 / 1000 : ℝ) (5 / 100) := by
    unfold ThrDec; have := log_200_ge; linarith
  exact ⟨by norm_num, by norm_num, by norm_num, by norm_num, thrInc_of_thrDec (by norm_num) (by norm_num) hdec,
    fun _ => hdec⟩

/-- non-vacuity / the case asked for: default configuration, both modes, every length -/
theorem hddmw_default_ones (two : Bool) (k : Nat) :
    ((List.replicate k (1 : ℝ)).foldl (HDDMW.step ⟨1 / 1000, 5 / 1000, two, 5 / 100, 30⟩)
      (HDDMW.init ⟨1 / 1000, 5 / 1000, two, 5 / 100, 30⟩)).drift = false ∧
    ((List.replicate k (1 : ℝ)).foldl (HDDMW.step ⟨1 / 1000, 5 / 1000, two, 5 / 100, 30⟩)
      (HDDMW.init ⟨1 / 1000, 5 / 1000, two, 5 / 100, 30⟩)).warning = false :=
  hddmw_const_one _ (hddmw_default_cfgOK two) k

/-- non-vacuity with a non-constant pre-history and a reset (default configuration, two-sided) -/
example : ((HDDMW.machine (⟨1 / 1000, 5 / 1000, true, 5 / 100, 30⟩ : HDDMW.Cfg ℝ)).run
    ([Op.update 0, .update (1 / 2), .update 1] ++ [.reset] ++ List.replicate 500 (.update 1))).warning = false :=
  (hddmw_const_one_after_reset _ (hddmw_default_cfgOK true) _ (constHist_replicate (1 : ℝ) 500)).2

/-- the increase condition alone is strictly weaker than `alpha_w ≤ e⁻²` / `ThrDec`: the one-sided
configuration `alpha_d = 1/4`, `alpha_w = 1/2`, `lambda = 1/2` satisfies `CfgOK` (`3/8 ≤ 5/8 · log 2`)
although `ThrDec` fails (`3/2 > log 2`) -/
theorem hddmw_onesided_half_cfgOK (minN : Nat) :
    CfgOK (⟨1 / 4, 1 / 2, false, 1 / 2, minN⟩ : HDDMW.Cfg ℝ) ∧ ¬ ThrDec (1 / 2 : ℝ) (1 / 2) := by
  have h2 : Real.log (1 / (1 / 2 : ℝ)) = Real.log 2 := by norm_num
  have hlo := Real.log_two_gt_d9
  have hhi := HddmwW.log_two_le
  refine ⟨⟨by norm_num, by norm_num, by norm_num, by norm_num, ?_, by simp⟩, ?_⟩
  · show ThrInc (1 / 2 : ℝ) (1 / 2)
    unfold ThrInc; rw [h2]; norm_num at hlo ⊢; linarith
  · unfold ThrDec; rw [h2]; intro h; norm_num at h; linarith

/-- the configuration `(alpha_d, alpha_w, lambda_) = (0.3, 0.6, 0.05)` of the review (Python: warning at
step 81 of the ones stream) violates the increase condition: `log(1/0.6) ≤ 2/3 < 1.9395…` -/
theorem hddmw_thr_fails_03_06 : ¬ ThrInc (6 / 10 : ℝ) (5 / 100) := by
  unfold ThrInc
  have := Real.log_le_sub_one_of_pos (by norm_num : (0 : ℝ) < 1 / (6 / 10))
  intro h
  norm_num at this h
  nlinarith

/-- **witness, non-degenerate** (`alpha_w < 1`, so the McDiarmid bound is not identically `0`): the
configuration `alpha_d = 1/2`, `alpha_w = 9/10`, one-sided, `lambda = 1/2`, `min_num_instances = 1` –
accepted by `Config.hddmw` – raises a *warning* at the third value of the all-ones stream
(`inc2.mean - inc1.mean = 1/4 > sqrt(7/16 · log(10/9))`), and it violates `ThrInc`. -/
theorem hddmw_ones_witness :
    ((List.replicate 3 (1 : ℝ)).foldl (HDDMW.step ⟨1 / 2, 9 / 10, false, 1 / 2, 1⟩) (HDDMW.init ⟨1 / 2, 9 / 10, false, 1 / 2, 1⟩)).drift = false ∧
    ((List.replicate 3 (1 : ℝ)).foldl (HDDMW.step ⟨1 / 2, 9 / 10, false, 1 / 2, 1⟩) (HDDMW.init ⟨1 / 2, 9 / 10, false, 1 / 2, 1⟩)).warning = true ∧
    ¬ ThrInc (9 / 10 : ℝ) (1 / 2) := by
  refine ⟨(HddmwW2.warning_on_ones (9 / 10) HddmwW2.log_nine_tenths).1,
    (HddmwW2.warning_on_ones (9 / 10) HddmwW2.log_nine_tenths).2, ?_⟩
  unfold ThrInc
  have := HddmwW2.log_nine_tenths
  intro h
  norm_num at this h
  nlinarith

/-- the whole family: `alpha_d = 1/2`, any `alpha_w` with `log(1/alpha_w) < 1/7` (`alpha_w ≳ 0.867`) -/
theorem hddmw_ones_witness_family (aw : ℝ) (hw : Real.log (1 / aw) < 1 / 7) :
    ((List.replicate 3 (1 : ℝ)).foldl (HDDMW.step ⟨1 / 2, aw, false, 1 / 2, 1⟩) (HDDMW.init ⟨1 / 2, aw, false, 1 / 2, 1⟩)).drift = false ∧
    ((List.replicate 3 (1 : ℝ)).foldl (HDDMW.step ⟨1 / 2, aw, false, 1 / 2, 1⟩) (HDDMW.init ⟨1 / 2, aw, false, 1 / 2, 1⟩)).warning = true :=
  HddmwW2.warning_on_ones aw hw

/-- **witness that the decrease condition is needed in two-sided mode**: `alpha_d = 1/4`, `alpha_w = 1/2`,
`lambda = 1/2`, `min_num_instances = 1` (accepted by `Config.hddmw`).  Two-sided, the all-ones stream raises
a *warning* at the SECOND value (the decrease test sees `dec1.mean - dec2.mean = 3/4 - 0 >
sqrt(11/16 · log 2)`: `dec2` has just been re-initialised to mean `0`); one-sided, the same parameters
never raise anything (`hddmw_onesided_half_cfgOK`, `hddmw_const_one`). -/
theorem hddmw_ones_two_sided_witness :
    (((List.replicate 2 (1 : ℝ)).foldl (HDDMW.step ⟨1 / 4, 1 / 2, true, 1 / 2, 1⟩) (HDDMW.init ⟨1 / 4, 1 / 2, true, 1 / 2, 1⟩)).drift = false ∧
     ((List.replicate 2 (1 : ℝ)).foldl (HDDMW.step ⟨1 / 4, 1 / 2, true, 1 / 2, 1⟩) (HDDMW.init ⟨1 / 4, 1 / 2, true, 1 / 2, 1⟩)).warning = true) ∧
    ∀ k : Nat,
     ((List.replicate k (1 : ℝ)).foldl (HDDMW.step ⟨1 / 4, 1 / 2, false, 1 / 2, 1⟩) (HDDMW.init ⟨1 / 4, 1 / 2, false, 1 / 2, 1⟩)).drift = false ∧
     ((List.replicate k (1 : ℝ)).foldl (HDDMW.step ⟨1 / 4, 1 / 2, false, 1 / 2, 1⟩) (HDDMW.init ⟨1 / 4, 1 / 2, false, 1 / 2, 1⟩)).warning = false :=
  ⟨HddmwW3.warning_two_sided, fun k => hddmw_const_one _ (hddmw_onesided_half_cfgOK 1).1 k⟩

/-- so the threshold hypothesis of `hddmw_const_one` cannot simply be dropped, even with `alpha_w < 1` -/
theorem hddmw_const_one_needs_thr :
    ¬ ∀ (cfg : HDDMW.Cfg ℝ), 0 < cfg.alphaD → cfg.alphaD < cfg.alphaW → cfg.alphaW < 1 → 0 < cfg.lam → cfg.lam ≤ 1 →
        1 ≤ cfg.minN → ∀ k : Nat,
        ((List.replicate k (1 : ℝ)).foldl (HDDMW.step cfg) (HDDMW.init cfg)).drift = false ∧
        ((List.replicate k (1 : ℝ)).foldl (HDDMW.step cfg) (HDDMW.init cfg)).warning = false := by
  intro H
  have h := (H ⟨1 / 2, 9 / 10, false, 1 / 2, 1⟩ (by norm_num) (by norm_num) (by norm_num) (by norm_num) (by norm_num)
    (by norm_num) 3).2
  rw [hddmw_ones_witness.2.1] at h
  cases h

/-
  UNPROVED (full statement): the review's configuration itself,
    ((List.replicate 81 (1 : ℝ)).foldl (HDDMW.step ⟨3/10, 6/10, false, 5/100, 30⟩) (HDDMW.init ⟨3/10, 6/10, false, 5/100, 30⟩)).warning = true
  (observed in Python at step 81).  Over `ℝ` this needs, for each of the 81 steps, the sign of
  `up_t - cut` (sums of a power of `19/20` and a square root of `log 20` times a rational) to know when the
  cut point moves (it moves at steps 2 … ≈32 and then stays), i.e. certified enclosures of `log 20`,
  `log(5/3)` and ~80 square roots; not attempted.  What IS proved about this configuration:
  `hddmw_thr_fails_03_06` (it violates the sufficient condition), and the same phenomenon for the
  non-degenerate family `hddmw_ones_witness_family`.
-/
end HDDMWOnes

/-! ## 4. KSWIN: the oracle hypothesis `hks` discharged with the model's own KS routine

`C01c.kswin_const*` take the p-value routine `ksP` as a parameter and ASSUME `ksP l l = 1` on the two
constant samples.  The model's routine is `KS.pTwoSided` (`Float` only): `pExactFloat n m (hTwoSided ref test)`
with the shortcut `h = 0 ↦ 1.0`.  Below:
  * `hTwoSided_self`  – for EVERY carrier (no assumption on `le`, not even reflexivity: both counts use the
                         same `le`-filter, so NaNs cannot break it) two identical samples are at lattice distance `0`;
  * `ksPModel`        – `pExactFloat ∘ hTwoSided` transcribed for an arbitrary carrier (`ofNat a / ofNat b`
                         instead of `ratioToFloat a b`); `ksPModel_self : ksPModel l l = 1`;
                         at `ℝ` it is the exact fraction of `KS.pExactFrac` for ALL samples
                         (`ksPModel_real_eq_frac`: the shortcut is consistent with `C11.pExactFrac_zero`);
  * `pTwoSided_self`  – literally at `Float`: `KS.pTwoSided l l = 1.0`;
  * `kswin_const_model*` – `C01c.kswin_const*` with `ksP := ksPModel`, no `hks`;
  * `kswin_const_any`, `kswin_const_float` – the same for every carrier / literally for IEEE doubles with
                         `KS.pTwoSided`, the only arithmetic hypothesis being `(1 ≤ alpha) = false`.
`alpha < 1` stays: `Config.kswin` validates only `alpha > 0`, and with `1 ≤ alpha` the p-value `1` of identical
samples is "significant" – `C01c.kswin_const_witness` (drift at every step once the window is full);
`kswin_const_model_witness` restates it with the model's routine. -/
section KSWINModel
variable {α : Type} [Num α]

theorem foldl_max_natAbs_zero (ds : List Int) (h : ∀ d ∈ ds, d = 0) :
    ds.foldl (fun acc d => max acc d.natAbs) 0 = 0 := by
  induction ds with
  | nil => rfl
  | cons d ds ih =>
    have hd : d = 0 := h d List.mem_cons_self
    subst hd
    simpa using ih (fun e he => h e (List.mem_cons_of_mem _ he))

/-- two identical samples have KS lattice distance `0` – every carrier, every list (ties, NaNs, empty) -/
theorem hTwoSided_self (l : List α) : KS.hTwoSided l l = 0 := by
  unfold KS.hTwoSided
  apply foldl_max_natAbs_zero
  intro d hd
  unfold KS.devs at hd
  simp only [List.mem_map] at hd
  obtain ⟨z, _, rfl⟩ := hd
  exact Int.sub_self _

/-- the model's two-sided exact p-value (`KS.pTwoSided = pExactFloat ∘ hTwoSided`) for an arbitrary carrier -/
def ksPModel (ref test : List α) : α :=
  let h := KS.hTwoSided ref test
  if h == 0 then Num.one
  else Num.ofNat (KS.pExactFrac ref.length test.length h).1 / Num.ofNat (KS.pExactFrac ref.length test.length h).2

/-- p-value `1` on identical samples: every carrier -/
theorem ksPModel_self (l : List α) : ksPModel l l = (Num.one : α) := by
  unfold ksPModel
  simp [hTwoSided_self]

/-- … and literally for the `Float` routine the driver runs -/
theorem pTwoSided_self (l : List Float) : KS.pTwoSided l l = 1.0 := by
  unfold KS.pTwoSided KS.pExactFloat
  simp [hTwoSided_self]
end KSWINModel

/-- at `ℝ` the routine is the exact fraction for ALL samples: the `h = 0` shortcut agrees with
`C11.pExactFrac_zero` (numerator = denominator) and `C11.pExactFrac_den_pos` -/
theorem ksPModel_real_eq_frac (ref test : List ℝ) :
    ksPModel ref test =
      ((KS.pExactFrac ref.length test.length (KS.hTwoSided ref test)).1 : ℝ) /
      ((KS.pExactFrac ref.length test.length (KS.hTwoSided ref test)).2 : ℝ) := by
  unfold ksPModel
  by_cases h : KS.hTwoSided ref test = 0
  · have hpos := C11.pExactFrac_den_pos ref.length test.length 0
    have hne : ((KS.pExactFrac ref.length test.length 0).2 : ℝ) ≠ 0 := by exact_mod_cast hpos.ne'
    simp only [h, beq_self_eq_true, if_true, RealNum.one_eq]
    rw [C11.pExactFrac_zero, div_self hne]
  · have : (KS.hTwoSided ref test == 0) = false := by simpa using h
    simp only [this, Bool.false_eq_true, if_false, RealNum.ofNat_eq]

/-- KSWIN with the model's KS routine on a constant stream with resets and arbitrary in-range tapes: the window holds
`min n minN` copies of `x` and `drift = false`.  No oracle hypothesis.  `numTest ≤ minN` is implied by
`Config.kswin`; `alpha < 1` is NOT (see the section header). -/
theorem kswin_const_model_inv (cfg : KSWIN.Cfg ℝ) (hnt : cfg.numTest ≤ cfg.minN) (x : ℝ) (ha : cfg.alpha < 1)
    {ops : List (Op (ℝ × List Nat))} (h : HistOf (KswinConst cfg x) ops) :
    Kswin.Inv cfg x ((KSWIN.machine ksPModel cfg).run ops) :=
  kswin_const_inv ksPModel cfg hnt x (by rw [ksPModel_self]; simp) ha h

theorem kswin_const_model_resets (cfg : KSWIN.Cfg ℝ) (hnt : cfg.numTest ≤ cfg.minN) (x : ℝ) (ha : cfg.alpha < 1)
    {ops : List (Op (ℝ × List Nat))} (h : HistOf (KswinConst cfg x) ops) :
    ((KSWIN.machine ksPModel cfg).run ops).drift = false :=
  (kswin_const_model_inv cfg hnt x ha h).drift

/-- stream form (restatement of `C01c.kswin_const` with `ksP := ksPModel`) -/
theorem kswin_const_model (cfg : KSWIN.Cfg ℝ) (hnt : cfg.numTest ≤ cfg.minN) (x : ℝ) (ha : cfg.alpha < 1)
    (tapes : List (List Nat)) (ht : ∀ t ∈ tapes, Kswin.TapeOk cfg t) :
    ((tapes.map (fun t => (x, t))).foldl (fun s vt => KSWIN.step ksPModel cfg s vt.1 vt.2) KSWIN.init).drift = false :=
  kswin_const ksPModel cfg hnt x (by rw [ksPModel_self]; simp) ha tapes ht

theorem kswin_const_model_after_reset (cfg : KSWIN.Cfg ℝ) (hnt : cfg.numTest ≤ cfg.minN) (x : ℝ) (ha : cfg.alpha < 1)
    (pre : List (Op (ℝ × List Nat))) {post : List (Op (ℝ × List Nat))} (h : HistOf (KswinConst cfg x) post) :
    ((KSWIN.machine ksPModel cfg).run (pre ++ [.reset] ++ post)).drift = false :=
  kswin_const_after_reset ksPModel cfg hnt x (by rw [ksPModel_self]; simp) ha pre h

/-- why `alpha < 1` is kept: with `1 ≤ alpha` (accepted) the model's routine makes KSWIN raise drift on a
constant stream at every step from the one that fills the window on -/
theorem kswin_const_model_witness (cfg : KSWIN.Cfg ℝ) (hnt : cfg.numTest ≤ cfg.minN) (x : ℝ) (ha : 1 ≤ cfg.alpha)
    (tapes : List (List Nat)) (ht : ∀ t ∈ tapes, Kswin.TapeOk cfg t) (tape : List Nat) (htape : Kswin.TapeOk cfg tape)
    (hfull : cfg.minN ≤ tapes.length + 1) :
    (((tapes ++ [tape]).map (fun t => (x, t))).foldl (fun s vt => KSWIN.step ksPModel cfg s vt.1 vt.2) KSWIN.init).drift = true :=
  kswin_const_witness ksPModel cfg hnt x (by rw [ksPModel_self]; simp) ha tapes ht tape htape hfull

/-- non-vacuity: `minN = 4`, `numTest = 2`, `alpha = 1/100`, tapes `[0, 1]` -/
example : ((List.replicate 10 ((3 : ℝ), [0, 1])).foldl
    (fun s vt => KSWIN.step ksPModel ⟨1 / 100, 4, 2⟩ s vt.1 vt.2) KSWIN.init).drift = false := by
  have := kswin_const_model ⟨1 / 100, 4, 2⟩ (by norm_num) 3 (by norm_num)
    (List.replicate 10 [0, 1]) (by
      intro t ht; rw [List.mem_replicate] at ht; rw [ht.2]
      exact ⟨rfl, by intro i hi; simp at hi; rcases hi with rfl | rfl <;> norm_num⟩)
  simpa using this

/-! ### every carrier, and literally IEEE doubles -/
section KSWINAny
variable {α : Type} [Num α]
open KSWIN

/-- the indices drawn by `np.random.choice(len(older), num_test)`: `numTest` of them, all in range -/
def TapeOkA (cfg : Cfg α) (tape : List Nat) : Prop :=
  tape.length = cfg.numTest ∧ ∀ i ∈ tape, i < cfg.minN - cfg.numTest

/-- what KSWIN is fed on the constant stream `x` -/
def KswinConstA (cfg : Cfg α) (x : α) (vt : α × List Nat) : Prop := vt.1 = x ∧ TapeOkA cfg vt.2

omit [Num α] in
theorem push_replicate_any (cap m : Nat) (x : α) :
    push cap (List.replicate m x) x = List.replicate (min (m + 1) cap) x := by
  unfold push
  have : List.replicate m x ++ [x] = List.replicate (m + 1) x := by rw [List.replicate_succ']
  simp only [this, List.length_replicate, List.drop_replicate]
  split
  · congr 1; omega
  · congr 1; omega

theorem sample_replicate_any (k : Nat) (x : α) (tape : List Nat) (h : ∀ i ∈ tape, i < k) :
    tape.map (fun i => (List.replicate k x).getD i Num.zero) = List.replicate tape.length x := by
  induction tape with
  | nil => rfl
  | cons i t ih =>
    have hi : i < k := h i List.mem_cons_self
    simp only [List.map_cons, List.length_cons, List.replicate_succ]
    rw [ih (fun j hj => h j (List.mem_cons_of_mem _ hj))]
    congr 1
    simp [List.getD_eq_getElem?_getD, hi]

/-- invariant: the window holds `min n minN` copies of `x`, no drift -/
def InvA (cfg : Cfg α) (x : α) (s : State α) : Prop :=
  s.window = List.replicate (min s.n cfg.minN) x ∧ s.drift = false

theorem invA_step (ksP : List α → List α → α) {cfg : Cfg α} (hnt : cfg.numTest ≤ cfg.minN) {x p1 : α}
    (hks : ksP (List.replicate cfg.numTest x) (List.replicate cfg.numTest x) = p1)
    (hle : Num.le p1 cfg.alpha = false) {s : State α} (h : InvA cfg x s) {tape : List Nat} (ht : TapeOkA cfg tape) :
    InvA cfg x (step ksP cfg s x tape) := by
  obtain ⟨hw, _⟩ := h
  unfold step InvA
  have h0 : min (min s.n cfg.minN + 1) cfg.minN = min (s.n + 1) cfg.minN := by omega
  simp only [hw, push_replicate_any, List.length_replicate, h0]
  by_cases hfull : cfg.minN ≤ s.n + 1
  · have h1 : min (s.n + 1) cfg.minN = cfg.minN := by omega
    simp only [h1, List.take_replicate, List.drop_replicate, le_refl, if_true]
    have h3 : min (cfg.minN - cfg.numTest) cfg.minN = cfg.minN - cfg.numTest := by omega
    have h4 : cfg.minN - (cfg.minN - cfg.numTest) = cfg.numTest := by omega
    rw [h3, h4, sample_replicate_any _ _ _ ht.2, ht.1, hks, hle]
    exact ⟨trivial, rfl⟩
  · have h2 : ¬ cfg.minN ≤ min (s.n + 1) cfg.minN := by omega
    simp only [h2, if_false]
    exact ⟨trivial, trivial⟩

/-- **KSWIN on a constant stream, every carrier, abstract routine**: if the routine returns `p1` on the two
constant samples and `p1 ≤ alpha` is false in the carrier, then after every history of resets and updates
with `x` (in-range tapes) the window is `min n minN` copies of `x` and `drift = false`. -/
theorem kswin_const_any_inv (ksP : List α → List α → α) (cfg : Cfg α) (hnt : cfg.numTest ≤ cfg.minN) (x p1 : α)
    (hks : ksP (List.replicate cfg.numTest x) (List.replicate cfg.numTest x) = p1)
    (hle : Num.le p1 cfg.alpha = false)
    {ops : List (Op (α × List Nat))} (h : HistOf (KswinConstA cfg x) ops) :
    InvA cfg x ((KSWIN.machine ksP cfg).run ops) :=
  run_histOf (KSWIN.machine ksP cfg) (KswinConstA cfg x) (InvA cfg x) ⟨rfl, rfl⟩
    (fun s vt hv hs => by
      obtain ⟨v, tape⟩ := vt
      obtain ⟨hv1, hv2⟩ := hv
      simp only at hv1 hv2; subst hv1
      exact invA_step ksP hnt hks hle hs hv2)
    (fun s _ => ⟨rfl, rfl⟩) ops h

/-- every carrier, the model's routine: the only arithmetic hypothesis is that `1 ≤ alpha` is false in the
carrier (at `ℝ`: `alpha < 1`; at `Float`: `alpha < 1` or `alpha` NaN) -/
theorem kswin_const_any (cfg : Cfg α) (hnt : cfg.numTest ≤ cfg.minN) (x : α)
    (hle : Num.le (Num.one : α) cfg.alpha = false)
    {ops : List (Op (α × List Nat))} (h : HistOf (KswinConstA cfg x) ops) :
    ((KSWIN.machine ksPModel cfg).run ops).drift = false :=
  (kswin_const_any_inv ksPModel cfg hnt x Num.one (ksPModel_self _) hle h).2

/-- **literally IEEE doubles with the routine the driver runs** (`KS.pTwoSided`): any double `x` (NaN and
infinities included), any history of resets and updates with `x`, in-range tapes; hypothesis: the double
comparison `1.0 ≤ alpha` is false -/
theorem kswin_const_float (cfg : Cfg Float) (hnt : cfg.numTest ≤ cfg.minN) (x : Float)
    (hle : Num.le (1.0 : Float) cfg.alpha = false)
    {ops : List (Op (Float × List Nat))} (h : HistOf (KswinConstA cfg x) ops) :
    ((KSWIN.machine KS.pTwoSided cfg).run ops).drift = false :=
  (kswin_const_any_inv KS.pTwoSided cfg hnt x 1.0 (pTwoSided_self _) hle h).2

/-- non-vacuity of `kswin_const_any` at `ℝ` with a history containing a reset -/
example : ((KSWIN.machine ksPModel (⟨1 / 100, 4, 2⟩ : Cfg ℝ)).run
    ([Op.update ((3 : ℝ), [0, 1]), .reset] ++ List.replicate 10 (.update (3, [0, 1])))).drift = false := by
  refine kswin_const_any ⟨1 / 100, 4, 2⟩ (by norm_num) 3 (by rw [RealNum.le_false_iff]; norm_num) ?_
  intro op hop
  have hok : KswinConstA (⟨1 / 100, 4, 2⟩ : Cfg ℝ) 3 ((3 : ℝ), [0, 1]) :=
    ⟨rfl, rfl, by intro i hi; simp at hi; rcases hi with rfl | rfl <;> norm_num⟩
  simp only [List.cons_append, List.nil_append, List.mem_cons, List.mem_replicate] at hop
  rcases hop with rfl | rfl | ⟨_, rfl⟩
  · exact Or.inr ⟨_, rfl, hok⟩
  · exact Or.inl rfl
  · exact Or.inr ⟨_, rfl, hok⟩
end KSWINAny

/-
  UNPROVED (full statement) — task item 5, skipped on purpose (hypothesis budget exceeded):

    structure ExactOn01 (α) [Num α] : Prop   -- `B c` abbreviates `c = Num.zero ∨ c = Num.one`
      sub_self  : B c → c - c = Num.zero                    -- running mean, later updates
      sub_zero  : B c → c - Num.zero = c                    -- running mean, first update
      add_zero  : B c → c + Num.zero = c                    -- mean, `p + s`, `p_min + L·s_min`
      zero_add  : B c → Num.zero + c = c                    -- running mean, first update
      zero_div  : ∀ n, Num.zero / Num.ofNat (n + 1) = Num.zero
      div_one   : B c → c / Num.ofNat 1 = c                 -- running mean, first update
      mul_compl : B c → c * (Num.one - c) = Num.zero        -- `p (1 - p)`
      sqrt_zero : Num.sqrt Num.zero = Num.zero
      lt_irrefl : B c → Num.lt c c = false
    theorem ddm_const_exact [Num α] (E : ExactOn01 α) (cfg : DDM.Cfg α)
        (hw : cfg.warn * Num.zero = Num.zero) (hd : cfg.drift * Num.zero = Num.zero)   -- false for ±inf/NaN levels
        (c : α) (hc : c = Num.zero ∨ c = Num.one) {ops} (h : ConstHist c ops) :
        ((DDM.machine cfg).run ops).drift = false ∧ ((DDM.machine cfg).run ops).warning = false

  Every field is used (the trace of `Mean.update`, `DDM.epsStd`, `DDM.exceeds` on `0^k`/`1^k` is
  `0 + (c - 0)/1`, then `c + (c - c)/n`, `sqrt(c (1 - c)/n)`, `c + 0`, `c + L·0 < c`), all hold at `ℝ` and at
  IEEE doubles, but 9 + 2 hypotheses is beyond the "~6" agreed for this item, and none of them can be
  discharged for `Float` inside Lean (opaque primitives; native evaluation is not allowed).  The `ℝ` statement is
  `C01c.ddm_const_resets`.  Carrier-generic constant-stream facts that ARE proved: `kswin_const_any`,
  `kswin_const_float` (above), `C01c.eddm_step_no_error_any`, `C01c.hddma_side_self_any`.
-/

/-! ## Axioms -/
#print axioms warmup_errors_eddm
#print axioms warmup_errors_eddm'
#print axioms errorsSinceReset_le
#print axioms cusum_const_after_reset
#print axioms ddm_const_after_reset
#print axioms ecdd_const_after_reset
#print axioms eddm_const_ne_one_after_reset
#print axioms eddm_const_after_reset
#print axioms hddma_const_after_reset
#print axioms hddmw_const_zero_after_reset
#print axioms adwin_const_after_reset
#print axioms rddm_const_after_reset
#print axioms kswin_const_after_reset
#print axioms stepd_const_after_reset
#print axioms hddmw_const_one_inv
#print axioms hddmw_const_one_resets
#print axioms hddmw_const_one
#print axioms hddmw_const_one_after_reset
#print axioms hddmw_const_01_resets
#print axioms hddmw_cfgOK_of_exp
#print axioms hddmw_default_cfgOK
#print axioms hddmw_default_ones
#print axioms hddmw_onesided_half_cfgOK
#print axioms hddmw_thr_fails_03_06
#print axioms hddmw_ones_witness
#print axioms hddmw_ones_witness_family
#print axioms hddmw_ones_two_sided_witness
#print axioms hddmw_const_one_needs_thr
#print axioms hTwoSided_self
#print axioms ksPModel_self
#print axioms pTwoSided_self
#print axioms ksPModel_real_eq_frac
#print axioms kswin_const_model_inv
#print axioms kswin_const_model_resets
#print axioms kswin_const_model
#print axioms kswin_const_model_after_reset
#print axioms kswin_const_model_witness
#print axioms kswin_const_any_inv
#print axioms kswin_const_any
#print axioms kswin_const_float

end Frouros.C01d
