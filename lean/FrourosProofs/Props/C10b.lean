/-
  C10b — the histogram and transport distances equal their textbook formulas END TO END (from the two samples),
  repaired JS/KL statements, and the distance axioms at sample / histogram level.  Everything at `α = ℝ`
  (the carrier-generic bookkeeping is in `C10.lean`).  Model: `FrourosModel/Hist.lean` (unchanged).

  1.  Declarative binning (`wLo/wHi`, `edge`, `InBin`, `binCount`, `proportion`: defined WITHOUT the model) and
      `edges_eq_formula`, `counts_eq_formula`, `binsValues_eq_formula` (composition of the unregistered lemmas
      `counts_eq`, `linspace_getD`, `outerEdges_eq`, `minL/maxL`), then
      `hellinger_eq_formula`, `bhattacharyya_eq_formula`, `hi_eq_formula`, `psi_eq_formula`, `psi_FLOOR_eq_formula`;
      computed instances pin the bin semantics.
  2.  `emd_eq_formula`, `energy_eq_formula` (finite sums over ANY sorted arrangement of the pooled sample, `ecdf`
      defined without the model); 2b `emd_eq_sorted_coupling` (equal sizes: mean |x_(i) − y_(i)|);
      2c `emd_eq_integral`, `energy_eq_integral` (interval integrals of `|F_u − F_v|`, `(F_u − F_v)²`).
  3.  JS/KL repaired: `histCdf_mono`, `probabilities_sum/_nonneg/_isProb`, `kl_ge_mass_diff`, `kl_nonneg_of_mass_le`,
      `kl_hist_nonneg`, `js_hist_bounds(_of_covered)`, `js_hist_self`; negative regions `kl_negative_witness` (KF-C10-2),
      `probabilities_degenerate`, `js_degenerate_pooled_witness` (KF-C10-1), `covered_fails_for_constant_sample`.
  4.  Sample level: `AutoHistSpec` (satisfiable: `oneBin_spec`), `jsSamples`, `klSamples` and
      `jsSamples_bounds/_symm/_self/_perm`, `klSamples_nonneg/_self`, witnesses `klSamples_negative_witness`,
      `jsSamples_degenerate_witness`; 4b `proportion_isProb`, `hellinger_sq_eq_bhattacharyya`, `emd_energy_const_map`,
      `emd_energy_affine`; 4c `hellinger_eq_zero_iff`.
  5.  Carrier-independent bookkeeping (`probabilities_length_any`, `linspace_length_any`, `histCdf_below_any`) and the
      specification remark `js_hist_two_points` (`num_bins = 2` ⇒ JS ≡ 0).
-/
import Mathlib.MeasureTheory.Integral.IntervalIntegral.Basic
import FrourosProofs.Props.C10

namespace Frouros.C10b
open Frouros Frouros.Hist Frouros.C10

/-! ## 1. Specification of the binning, independent of the model -/

/-- lower end of numpy's histogram range for pooled minimum `a` and maximum `b`
(`_get_outer_edges`: a degenerate range is widened by `0.5` on both sides) -/
noncomputable def wLo (a b : ℝ) : ℝ := if a = b then a - 1 / 2 else a
/-- upper end of numpy's histogram range -/
noncomputable def wHi (a b : ℝ) : ℝ := if a = b then b + 1 / 2 else b

/-- `i`-th edge of `nb` equal-width bins on `[lo, hi]`: `e_i = lo + i · (hi − lo)/nb` -/
noncomputable def edge (lo hi : ℝ) (nb i : ℕ) : ℝ := lo + i * ((hi - lo) / nb)

/-- `x` lies in bin `i`: `[e_i, e_{i+1})`, the last bin (`i + 1 = nb`) is the closed `[e_{nb-1}, hi]` -/
def InBin (lo hi : ℝ) (nb i : ℕ) (x : ℝ) : Prop :=
  edge lo hi nb i ≤ x ∧ (if i + 1 = nb then x ≤ hi else x < edge lo hi nb (i + 1))

open Classical in
/-- number of elements of the sample `s` in bin `i` -/
noncomputable def binCount (lo hi : ℝ) (nb : ℕ) (s : List ℝ) (i : ℕ) : ℕ :=
  s.countP (fun x => decide (InBin lo hi nb i x))

/-- proportion of the sample `s` in bin `i`: `|{x ∈ s : x in bin i}| / |s|` -/
noncomputable def proportion (lo hi : ℝ) (nb : ℕ) (s : List ℝ) (i : ℕ) : ℝ :=
  (binCount lo hi nb s i : ℝ) / (s.length : ℝ)

theorem edge_zero (lo hi : ℝ) (nb : ℕ) : edge lo hi nb 0 = lo := by simp [edge]

/-- the last edge is `hi` (so the closed last bin is `[e_{nb-1}, e_nb]`) -/
theorem edge_last (lo hi : ℝ) {nb : ℕ} (h : 0 < nb) : edge lo hi nb nb = hi := by
  unfold edge
  have : (nb : ℝ) ≠ 0 := by exact_mod_cast h.ne'
  field_simp; ring

theorem wLo_lt_wHi {a b : ℝ} (h : a ≤ b) : wLo a b < wHi a b := by
  unfold wLo wHi
  by_cases he : a = b
  · simp only [he, if_true]; linarith
  · simp only [he, if_false]; exact lt_of_le_of_ne h he

theorem least_eq_minL {l : List ℝ} {a : ℝ} (ha : IsLeast {x | x ∈ l} a) : minL l = a := by
  have hne : l ≠ [] := List.ne_nil_of_mem ha.1
  exact le_antisymm (minL_le ha.1) (ha.2 (minL_mem hne))

theorem greatest_eq_maxL {l : List ℝ} {b : ℝ} (hb : IsGreatest {x | x ∈ l} b) : maxL l = b := by
  have hne : l ≠ [] := List.ne_nil_of_mem hb.1
  exact le_antisymm (hb.2 (maxL_mem hne)) (le_maxL hb.1)

/-- every non-empty sample has a least and a greatest element (non-vacuity of the hypotheses below) -/
theorem exists_least_greatest {l : List ℝ} (h : l ≠ []) :
    ∃ a b, IsLeast {x | x ∈ l} a ∧ IsGreatest {x | x ∈ l} b :=
  ⟨minL l, maxL l, ⟨minL_mem h, fun _ hx => minL_le hx⟩, ⟨maxL_mem h, fun _ hx => le_maxL hx⟩⟩

/-- the model's edges are the `nb + 1` points `e_0 … e_nb` of the widened pooled range (last one exactly `hi`) -/
theorem edges_eq_formula {pooled : List ℝ} {a b : ℝ}
    (ha : IsLeast {x | x ∈ pooled} a) (hb : IsGreatest {x | x ∈ pooled} b) (n : ℕ) :
    edges pooled (n + 1) = (List.range (n + 2)).map
      (fun i => if i = n + 1 then wHi a b else edge (wLo a b) (wHi a b) (n + 1) i) := by
  have he : edges pooled (n + 1)
      = linspace (outerEdges (minL pooled) (maxL pooled)).1 (outerEdges (minL pooled) (maxL pooled)).2 (n + 2) := rfl
  rw [he, least_eq_minL ha, greatest_eq_maxL hb, outerEdges_eq, linspace_eq]
  apply List.map_congr_left
  intro i _
  unfold wLo wHi edge
  by_cases hab : a = b
  · simp only [hab, if_true]; split
    · norm_num
    · push_cast; ring
  · simp only [hab, if_false]; split
    · rfl
    · push_cast; ring


theorem edges_getD {pooled : List ℝ} {a b : ℝ}
    (ha : IsLeast {x | x ∈ pooled} a) (hb : IsGreatest {x | x ∈ pooled} b) (n i : ℕ) (hi : i < n + 2) :
    (edges pooled (n + 1)).getD i 0 = if i = n + 1 then wHi a b else edge (wLo a b) (wHi a b) (n + 1) i := by
  rw [edges_eq_formula ha hb, List.getD_eq_getElem _ _ (by simpa using hi)]
  simp

/-- the model's Boolean bin test on its own edges decides the declarative `InBin` -/
theorem inBin_edges_iff {pooled : List ℝ} {a b : ℝ}
    (ha : IsLeast {x | x ∈ pooled} a) (hb : IsGreatest {x | x ∈ pooled} b) (n i : ℕ) (hi : i < n + 1) (x : ℝ) :
    inBin (edges pooled (n + 1)) i x = true ↔ InBin (wLo a b) (wHi a b) (n + 1) i x := by
  have hlen : (edges pooled (n + 1)).length = n + 2 := by rw [edges_eq_formula ha hb]; simp
  unfold inBin InBin
  rw [hlen, edges_getD ha hb n i (by omega), edges_getD ha hb n (i + 1) (by omega)]
  have h1 : i ≠ n + 1 := by omega
  simp only [h1, if_false, show n + 2 - 1 - 1 = n by omega, Bool.and_eq_true, RealNum.le_iff, beq_iff_eq,
    Nat.add_right_cancel_iff]
  by_cases hin : i = n
  · simp [hin]
  · simp [hin]

/-- **Declarative binning** (registered composition of `counts_eq`, `linspace_getD`, `outerEdges_eq`, `minL/maxL`):
the model's count vector on its own edges is the vector of declarative bin counts. -/
theorem counts_eq_formula {pooled : List ℝ} {a b : ℝ}
    (ha : IsLeast {x | x ∈ pooled} a) (hb : IsGreatest {x | x ∈ pooled} b) (n : ℕ) (s : List ℝ) :
    counts (edges pooled (n + 1)) s = (List.range (n + 1)).map (binCount (wLo a b) (wHi a b) (n + 1) s) := by
  have hlen : (edges pooled (n + 1)).length = n + 2 := by rw [edges_eq_formula ha hb]; simp
  rw [counts_eq, hlen]
  apply List.map_congr_left
  intro i hi
  unfold binCount
  apply List.countP_congr
  intro x _
  rw [inBin_edges_iff ha hb n i (List.mem_range.mp hi) x]
  simp

/-- **The model's proportion vectors are the textbook proportions** `p_i = |{x ∈ ref : x ∈ bin i}| / |ref|`,
`q_i` likewise, on `nb` equal-width bins of the (widened) pooled range `[wLo a b, wHi a b]`,
`a`/`b` the least/greatest pooled value. -/
theorem binsValues_eq_formula {ref test : List ℝ} {a b : ℝ}
    (ha : IsLeast {x | x ∈ ref ++ test} a) (hb : IsGreatest {x | x ∈ ref ++ test} b) {nb : ℕ} (hnb : 0 < nb) :
    binsValues ref test nb =
      ((List.range nb).map (proportion (wLo a b) (wHi a b) nb ref),
       (List.range nb).map (proportion (wLo a b) (wHi a b) nb test)) := by
  obtain ⟨n, rfl⟩ : ∃ n, nb = n + 1 := ⟨nb - 1, by omega⟩
  rw [binsValues_eq, counts_eq_formula ha hb, counts_eq_formula ha hb, List.map_map, List.map_map]
  rfl

/-! ### sums over the two proportion vectors as `Finset` sums -/

theorem sum_map_range (n : ℕ) (f : ℕ → ℝ) : ((List.range n).map f).sum = ∑ i ∈ Finset.range n, f i := by
  induction n with
  | zero => simp
  | succ n ih => rw [List.sum_range_succ, Finset.sum_range_succ, ih]

theorem sum_zip_map_range (n : ℕ) (f g : ℕ → ℝ) (h : ℝ × ℝ → ℝ) :
    ((List.zip ((List.range n).map f) ((List.range n).map g)).map h).sum
      = ∑ i ∈ Finset.range n, h (f i, g i) := by
  rw [List.zip_map', List.map_map, sum_map_range]
  rfl


/-! ## 1a. The four histogram distances equal their textbook formulas, end to end from the samples

Hypotheses: `a`/`b` are the least/greatest element of the pooled sample (they exist iff the pooled sample is
non-empty: `exists_least_greatest`), `0 < nb` (numpy raises for `bins = 0`; the model returns empty vectors, see
`C10.zero_bins_witness`), both samples non-empty.  The two non-emptiness hypotheses are not used by the proofs of the
Hellinger/Bhattacharyya/HI formulas (both sides would contain the same totalised `c / 0 = 0`); they are kept so that
`p_i`, `q_i` are genuine quotients.  For PSI `ref ≠ []`, `test ≠ []` ARE used (`p_i = 0 ↔` bin empty). -/

/-- **Hellinger distance = `√(Σ_i (√p_i − √q_i)²) / √2`** on the textbook proportions. -/
theorem hellinger_eq_formula {ref test : List ℝ} {a b : ℝ}
    (ha : IsLeast {x | x ∈ ref ++ test} a) (hb : IsGreatest {x | x ∈ ref ++ test} b) {nb : ℕ} (hnb : 0 < nb)
    (_hr : ref ≠ []) (_ht : test ≠ []) :
    hellinger ref test nb =
      Real.sqrt (∑ i ∈ Finset.range nb,
        (Real.sqrt (proportion (wLo a b) (wHi a b) nb ref i) - Real.sqrt (proportion (wLo a b) (wHi a b) nb test i)) ^ 2)
      / Real.sqrt 2 := by
  rw [hellinger_def, hellingerOf_eq, binsValues_eq_formula ha hb hnb, sum_zip_map_range]

/-- **Bhattacharyya distance (the library's `1 − BC`) = `1 − Σ_i √(p_i q_i)`** on the textbook proportions. -/
theorem bhattacharyya_eq_formula {ref test : List ℝ} {a b : ℝ}
    (ha : IsLeast {x | x ∈ ref ++ test} a) (hb : IsGreatest {x | x ∈ ref ++ test} b) {nb : ℕ} (hnb : 0 < nb)
    (_hr : ref ≠ []) (_ht : test ≠ []) :
    bhattacharyya ref test nb =
      1 - ∑ i ∈ Finset.range nb,
        Real.sqrt (proportion (wLo a b) (wHi a b) nb ref i * proportion (wLo a b) (wHi a b) nb test i) := by
  rw [bhattacharyya_def, bhattacharyyaOf_eq, binsValues_eq_formula ha hb hnb]
  unfold bc
  rw [sum_zip_map_range]

/-- **Histogram-intersection normalised complement = `1 − Σ_i min(p_i, q_i)`** on the textbook proportions. -/
theorem hi_eq_formula {ref test : List ℝ} {a b : ℝ}
    (ha : IsLeast {x | x ∈ ref ++ test} a) (hb : IsGreatest {x | x ∈ ref ++ test} b) {nb : ℕ} (hnb : 0 < nb)
    (_hr : ref ≠ []) (_ht : test ≠ []) :
    hi ref test nb =
      1 - ∑ i ∈ Finset.range nb,
        min (proportion (wLo a b) (wHi a b) nb ref i) (proportion (wLo a b) (wHi a b) nb test i) := by
  rw [hi_def, hiOf_eq, binsValues_eq_formula ha hb hnb]
  unfold inter
  rw [sum_zip_map_range]

/-- proportion of bin `i`, with EMPTY bins replaced by `floor` (what `psi.py` does with `sys.float_info.min`) -/
noncomputable def flooredProportion (floor lo hi : ℝ) (nb : ℕ) (s : List ℝ) (i : ℕ) : ℝ :=
  if binCount lo hi nb s i = 0 then floor else proportion lo hi nb s i

theorem fl_proportion (floor lo hi : ℝ) (nb : ℕ) {s : List ℝ} (hs : s ≠ []) (i : ℕ) :
    fl floor (proportion lo hi nb s i) = flooredProportion floor lo hi nb s i := by
  unfold fl flooredProportion proportion
  have hpos : (s.length : ℝ) ≠ 0 := by exact_mod_cast (List.length_pos_iff.mpr hs).ne'
  by_cases h : binCount lo hi nb s i = 0
  · simp [h]
  · have : ((binCount lo hi nb s i : ℝ) / (s.length : ℝ)) ≠ 0 := div_ne_zero (by exact_mod_cast h) hpos
    simp [h, this]

/-- **PSI = `Σ_i (q̃_i − p̃_i) · ln(q̃_i / p̃_i)`** where `p̃_i` (`q̃_i`) is the textbook proportion of `ref` (`test`)
in bin `i`, with exactly the empty bins replaced by `floor`.  `0 < floor` is not used by the proof; it is kept
because for `floor = 0` the quotient/`log` on an empty bin would be Lean's totalised junk. -/
theorem psi_eq_formula {floor : ℝ} (_hf : 0 < floor) {ref test : List ℝ} {a b : ℝ}
    (ha : IsLeast {x | x ∈ ref ++ test} a) (hb : IsGreatest {x | x ∈ ref ++ test} b) {nb : ℕ} (hnb : 0 < nb)
    (hr : ref ≠ []) (ht : test ≠ []) :
    psi floor ref test nb =
      ∑ i ∈ Finset.range nb,
        (flooredProportion floor (wLo a b) (wHi a b) nb test i - flooredProportion floor (wLo a b) (wHi a b) nb ref i)
        * Real.log (flooredProportion floor (wLo a b) (wHi a b) nb test i
                    / flooredProportion floor (wLo a b) (wHi a b) nb ref i) := by
  rw [psi_def, psiOf_eq, binsValues_eq_formula ha hb hnb, sum_zip_map_range]
  apply Finset.sum_congr rfl
  intro i _
  simp only [fl_proportion _ _ _ _ hr, fl_proportion _ _ _ _ ht]

/-- the floor the library uses, `sys.float_info.min = 2.2250738585072014e-308` (the smallest positive NORMAL double),
as the driver passes it (`Ops.lean`, `cmdDist`), read at the carrier ℝ -/
noncomputable def FLOOR : ℝ := Num.ofDec 22250738585072014 324

theorem FLOOR_pos : 0 < FLOOR := by
  unfold FLOOR; rw [RealNum.ofDec_eq]; positivity

/-- **PSI as the library calls it** (floor `sys.float_info.min`). -/
theorem psi_FLOOR_eq_formula {ref test : List ℝ} {a b : ℝ}
    (ha : IsLeast {x | x ∈ ref ++ test} a) (hb : IsGreatest {x | x ∈ ref ++ test} b) {nb : ℕ} (hnb : 0 < nb)
    (hr : ref ≠ []) (ht : test ≠ []) :
    psi FLOOR ref test nb =
      ∑ i ∈ Finset.range nb,
        (flooredProportion FLOOR (wLo a b) (wHi a b) nb test i - flooredProportion FLOOR (wLo a b) (wHi a b) nb ref i)
        * Real.log (flooredProportion FLOOR (wLo a b) (wHi a b) nb test i
                    / flooredProportion FLOOR (wLo a b) (wHi a b) nb ref i) :=
  psi_eq_formula FLOOR_pos ha hb hnb hr ht

/-! ### computed instances (non-vacuity; they pin the bin semantics: inner-edge values go right, last bin closed, floor on the empty bin) -/

theorem exA : IsLeast {x | x ∈ [(0:ℝ),1,2] ++ [2,4]} 0 := by
  refine ⟨by simp, ?_⟩
  intro x hx
  simp only [List.cons_append, List.nil_append, List.mem_cons, List.not_mem_nil, or_false, Set.mem_ofPred_eq] at hx
  rcases hx with rfl|rfl|rfl|rfl|rfl <;> norm_num
theorem exB : IsGreatest {x | x ∈ [(0:ℝ),1,2] ++ [2,4]} 4 := by
  refine ⟨by simp, ?_⟩
  intro x hx
  simp only [List.cons_append, List.nil_append, List.mem_cons, List.not_mem_nil, or_false, Set.mem_ofPred_eq] at hx
  rcases hx with rfl|rfl|rfl|rfl|rfl <;> norm_num

theorem ex_props :
    proportion (wLo 0 4) (wHi 0 4) 2 [(0:ℝ),1,2] 0 = 2/3 ∧ proportion (wLo 0 4) (wHi 0 4) 2 [(0:ℝ),1,2] 1 = 1/3 ∧
    proportion (wLo 0 4) (wHi 0 4) 2 [(2:ℝ),4] 0 = 0 ∧ proportion (wLo 0 4) (wHi 0 4) 2 [(2:ℝ),4] 1 = 1 := by
  have h04 : wLo 0 4 = 0 := by norm_num [wLo]
  have h44 : wHi 0 4 = 4 := by norm_num [wHi]
  simp only [h04, h44]
  refine ⟨?_, ?_, ?_, ?_⟩ <;>
    · simp [proportion, binCount, InBin, edge, List.countP_cons]
      try norm_num

example : hi [(0:ℝ),1,2] [2,4] 2 = 2/3 := by
  obtain ⟨h1, h2, h3, h4⟩ := ex_props
  rw [hi_eq_formula exA exB (by norm_num) (by simp) (by simp)]
  simp only [Finset.sum_range_succ, Finset.sum_range_zero, h1, h2, h3, h4]
  norm_num

example (floor : ℝ) (hf : 0 < floor) : psi floor [(0:ℝ),1,2] [2,4] 2
    = (floor - 2/3) * Real.log (floor / (2/3)) + (1 - 1/3) * Real.log (1 / (1/3)) := by
  obtain ⟨h1, h2, h3, h4⟩ := ex_props
  rw [psi_eq_formula hf exA exB (by norm_num) (by simp) (by simp)]
  have e1 : binCount (wLo 0 4) (wHi 0 4) 2 [(2:ℝ),4] 0 = 0 := by
    have := h3; unfold proportion at this; simpa using this
  have e2 : binCount (wLo 0 4) (wHi 0 4) 2 [(2:ℝ),4] 1 ≠ 0 := by
    intro h; have := h4; unfold proportion at this; rw [h] at this; norm_num at this
  have e3 : binCount (wLo 0 4) (wHi 0 4) 2 [(0:ℝ),1,2] 0 ≠ 0 := by
    intro h; have := h1; unfold proportion at this; rw [h] at this; norm_num at this
  have e4 : binCount (wLo 0 4) (wHi 0 4) 2 [(0:ℝ),1,2] 1 ≠ 0 := by
    intro h; have := h2; unfold proportion at this; rw [h] at this; norm_num at this
  simp only [Finset.sum_range_succ, Finset.sum_range_zero, flooredProportion, e1, e2, e3, e4, if_true, if_false,
    h1, h2, h4, zero_add]

/-- degenerate pooled range: `ref = [5, 5]`, `test = [5]`: the range is widened to `[4.5, 5.5]`, with two bins the
value 5 lies on the inner edge and is counted in the (closed) last bin -/
example : wLo 5 5 = 9/2 ∧ wHi 5 5 = 11/2 ∧ proportion (wLo 5 5) (wHi 5 5) 2 [(5:ℝ), 5] 0 = 0 ∧
    proportion (wLo 5 5) (wHi 5 5) 2 [(5:ℝ), 5] 1 = 1 := by
  have h1 : wLo 5 5 = 9/2 := by norm_num [wLo]
  have h2 : wHi 5 5 = 11/2 := by norm_num [wHi]
  refine ⟨h1, h2, ?_, ?_⟩ <;>
    · rw [h1, h2]
      simp [proportion, binCount, InBin, edge, List.countP_cons]
      try norm_num

/-! ## 2. EMD / energy distance against the empirical cdfs -/

open Classical in
/-- empirical cdf of the sample `s`: `F_s(z) = |{x ∈ s : x ≤ z}| / |s|` (defined without the model) -/
noncomputable def ecdf (s : List ℝ) (z : ℝ) : ℝ := ((s.filter (fun x => decide (x ≤ z))).length : ℝ) / (s.length : ℝ)

theorem countLe_eq (s : List ℝ) (z : ℝ) : (countLe s z : ℝ) / (s.length : ℝ) = ecdf s z := by
  unfold countLe ecdf
  congr 3

theorem cdfDiff_eq (u v : List ℝ) (z : ℝ) : cdfDiff u v z = |ecdf u z - ecdf v z| := by
  unfold cdfDiff; rw [countLe_eq, countLe_eq]

theorem pairs_length {β : Type} (l : List β) : (pairs l).length = l.length - 1 := by
  unfold pairs; simp

theorem pairs_eq_ofFn (z : List ℝ) :
    pairs z = List.ofFn (fun k : Fin (z.length - 1) => (z[k.val]'(by omega), z[k.val + 1]'(by omega))) := by
  apply List.ext_getElem
  · simp [pairs_length]
  · intro i h1 h2
    simp [pairs]

/-- a sum over consecutive pairs as a sum over the index of the left element -/
theorem sum_pairs (z : List ℝ) (f : ℝ × ℝ → ℝ) :
    ((pairs z).map f).sum = ∑ k : Fin (z.length - 1), f (z[k.val]'(by omega), z[k.val + 1]'(by omega)) := by
  rw [pairs_eq_ofFn, List.map_ofFn, List.sum_ofFn]
  rfl

/-- **EMD = `∫ |F_u − F_v|` written as the finite sum over the sorted pooled sample**
`Σ_k |F_u(z_k) − F_v(z_k)| · (z_{k+1} − z_k)`, `z` ANY sorted arrangement of the pooled sample
(it is unique), `F` the empirical cdfs. -/
theorem emd_eq_formula {u v z : List ℝ} (_hu : u ≠ []) (_hv : v ≠ []) (hz : z.Pairwise (· ≤ ·)) (hp : z.Perm (u ++ v)) :
    emd u v = ∑ k : Fin (z.length - 1),
      |ecdf u (z[k.val]'(by omega)) - ecdf v (z[k.val]'(by omega))| * (z[k.val + 1]'(by omega) - z[k.val]'(by omega)) := by
  unfold emd
  rw [cdfDistance_eq, ← eq_sort_of_pairwise hz hp, sum_pairs]
  apply Finset.sum_congr rfl
  intro k _
  simp only [wt, if_true, cdfDiff_eq]

/-- **Energy distance = `√(2 ∫ (F_u − F_v)²)`** as the finite sum over the sorted pooled sample. -/
theorem energy_eq_formula {u v z : List ℝ} (_hu : u ≠ []) (_hv : v ≠ []) (hz : z.Pairwise (· ≤ ·)) (hp : z.Perm (u ++ v)) :
    energy u v = Real.sqrt (2 * ∑ k : Fin (z.length - 1),
      (ecdf u (z[k.val]'(by omega)) - ecdf v (z[k.val]'(by omega))) ^ 2 * (z[k.val + 1]'(by omega) - z[k.val]'(by omega))) := by
  rw [energy_eq, cdfDistance_eq, ← eq_sort_of_pairwise hz hp, sum_pairs]
  congr 2
  apply Finset.sum_congr rfl
  intro k _
  simp only [wt, cdfDiff_eq, show (2 : ℕ) ≠ 1 by decide, if_false, abs_mul_abs_self]
  ring

/-- non-vacuity of `emd_eq_formula` / `energy_eq_formula`: `u = [3, 1]`, `v = [2, 5]`, `z = [1, 2, 3, 5]`;
the formula evaluates to `|1/2 − 0|·1 + |1/2 − 1/2|·1 + |1 − 1/2|·2 = 3/2` -/
example : ([(3:ℝ), 1] ≠ []) ∧ ([(2:ℝ), 5] ≠ []) ∧ [(1:ℝ), 2, 3, 5].Pairwise (· ≤ ·) ∧
    [(1:ℝ), 2, 3, 5].Perm ([3, 1] ++ [2, 5]) := by
  exact ⟨by simp, by simp, by norm_num,
    (List.Perm.cons 1 (List.Perm.swap 3 2 [5])).trans (List.Perm.swap 3 1 [2, 5])⟩

/-! ## 3. JS / KL: the discretised histogram distributions -/

theorem frac_mem {x e0 e1 : ℝ} (h0 : e0 ≤ x) (h1 : x < e1) : 0 ≤ (x - e0) / (e1 - e0) ∧ (x - e0) / (e1 - e0) ≤ 1 := by
  have : 0 < e1 - e0 := by linarith
  exact ⟨div_nonneg (by linarith) this.le, by rw [div_le_one this]; linarith⟩

/-- bounds of the running value of `rv_histogram.cdf` -/
theorem go_bounds (x total : ℝ) (ht : 0 ≤ total) (es : List ℝ) (cs : List ℕ) (acc : ℕ) :
    (acc : ℝ) / total ≤ histCdf.go x total es cs acc ∧
      histCdf.go x total es cs acc ≤ ((acc : ℝ) + (cs.sum : ℕ)) / total := by
  fun_induction histCdf.go x total es cs acc with
  | case1 acc e0 e1 rest c cs' h =>
    simp only [RealNum.ofNat_eq]
    exact ⟨le_rfl, div_le_div_of_nonneg_right (by linarith [Nat.cast_nonneg (α := ℝ) (c :: cs').sum]) ht⟩
  | case2 acc e0 e1 rest c cs' h0 h1 =>
    simp only [RealNum.ofNat_eq, RealNum.lt_iff, not_lt, List.sum_cons, Nat.cast_add] at *
    obtain ⟨f0, f1⟩ := frac_mem h0 h1
    have hc : (0:ℝ) ≤ c := Nat.cast_nonneg c
    have hs : (0:ℝ) ≤ (cs'.sum : ℕ) := Nat.cast_nonneg _
    constructor
    · apply div_le_div_of_nonneg_right _ ht; nlinarith
    · apply div_le_div_of_nonneg_right _ ht; nlinarith
  | case3 acc e0 e1 rest c cs' h0 h1 ih =>
    simp only [List.sum_cons, Nat.cast_add] at *
    have hc : (0:ℝ) ≤ c := Nat.cast_nonneg c
    refine ⟨le_trans (div_le_div_of_nonneg_right (by linarith) ht) ih.1, le_trans ih.2 (le_of_eq ?_)⟩
    ring
  | case4 es cs acc h =>
    simp only [RealNum.ofNat_eq]
    exact ⟨le_rfl, div_le_div_of_nonneg_right (by linarith [Nat.cast_nonneg (α := ℝ) cs.sum]) ht⟩

/-- the running value is monotone in the evaluation point (no sortedness of the edges is needed: the
branches are tested from left to right) -/
theorem go_mono {x y : ℝ} (hxy : x ≤ y) (total : ℝ) (ht : 0 ≤ total) (es : List ℝ) (cs : List ℕ) (acc : ℕ) :
    histCdf.go x total es cs acc ≤ histCdf.go y total es cs acc := by
  fun_induction histCdf.go x total es cs acc with
  | case1 acc e0 e1 rest c cs' h =>
    exact (go_bounds y total ht _ _ acc).1
  | case2 acc e0 e1 rest c cs' h0 h1 =>
    simp only [RealNum.ofNat_eq, RealNum.lt_iff, not_lt] at *
    have hc : (0:ℝ) ≤ c := Nat.cast_nonneg c
    have hy0 : ¬ y < e0 := not_lt.mpr (h0.trans hxy)
    by_cases hy1 : y < e1
    · rw [histCdf.go]
      simp only [RealNum.ofNat_eq, RealNum.lt_iff, hy0, hy1, if_false, if_true]
      apply div_le_div_of_nonneg_right _ ht
      have hd : 0 < e1 - e0 := by linarith
      have : (x - e0) / (e1 - e0) ≤ (y - e0) / (e1 - e0) := div_le_div_of_nonneg_right (by linarith) hd.le
      nlinarith
    · rw [histCdf.go]
      simp only [RealNum.lt_iff, hy0, hy1, if_false]
      refine le_trans ?_ (go_bounds y total ht _ _ _).1
      apply div_le_div_of_nonneg_right _ ht
      obtain ⟨f0, f1⟩ := frac_mem h0 h1
      push_cast; nlinarith
  | case3 acc e0 e1 rest c cs' h0 h1 ih =>
    simp only [RealNum.lt_iff, not_lt] at *
    have hy0 : ¬ y < e0 := not_lt.mpr (h0.trans hxy)
    have hy1 : ¬ y < e1 := not_lt.mpr (h1.trans hxy)
    conv_rhs => rw [histCdf.go]
    simp only [RealNum.lt_iff, hy0, hy1, if_false]
    exact ih
  | case4 es cs acc h =>
    refine le_trans (le_of_eq ?_) (go_bounds y total ht _ _ acc).1
    simp

/-- to the right of all edges the running value is `(acc + Σ cs) / total` -/
theorem go_full (x total : ℝ) (es : List ℝ) (cs : List ℕ) (acc : ℕ) (hx : ∀ e ∈ es, e ≤ x)
    (hlen : cs.length + 1 = es.length) :
    histCdf.go x total es cs acc = ((acc : ℝ) + (cs.sum : ℕ)) / total := by
  fun_induction histCdf.go x total es cs acc with
  | case1 acc e0 e1 rest c cs' h =>
    simp only [RealNum.lt_iff] at h
    exact absurd (hx e0 (by simp)) (not_le.mpr h)
  | case2 acc e0 e1 rest c cs' h0 h1 =>
    simp only [RealNum.lt_iff] at h1
    exact absurd (hx e1 (by simp)) (not_le.mpr h1)
  | case3 acc e0 e1 rest c cs' h0 h1 ih =>
    rw [ih (fun e he => hx e (List.mem_cons_of_mem _ he)) (by simpa using hlen)]
    simp only [List.sum_cons]; push_cast; ring
  | case4 es cs acc h =>
    simp only [RealNum.ofNat_eq]
    match es, cs, h, hlen with
    | [e], [], _, _ => simp
    | e0 :: e1 :: rest, c :: cs', h, _ => exact absurd rfl (fun hh => h e0 e1 rest c cs' hh rfl)


theorem histCdf_cons (e0 : ℝ) (es : List ℝ) (cs : List ℕ) (x : ℝ) :
    histCdf (e0 :: es) cs x = if x < e0 then 0 else histCdf.go x ((cs.sum : ℕ) : ℝ) (e0 :: es) cs 0 := by
  unfold histCdf
  simp

theorem histCdf_nonneg (es : List ℝ) (cs : List ℕ) (x : ℝ) : 0 ≤ histCdf es cs x := by
  cases es with
  | nil => simp [histCdf]
  | cons e0 es =>
    rw [histCdf_cons]
    split
    · exact le_rfl
    · have := (go_bounds x ((cs.sum : ℕ) : ℝ) (Nat.cast_nonneg _) (e0 :: es) cs 0).1
      simpa using this

/-- `rv_histogram.cdf ≤ 1` (for a histogram with at least one observation) -/
theorem histCdf_le_one (es : List ℝ) {cs : List ℕ} (hpos : 0 < cs.sum) (x : ℝ) : histCdf es cs x ≤ 1 := by
  cases es with
  | nil => simp [histCdf]
  | cons e0 es =>
    rw [histCdf_cons]
    split
    · exact zero_le_one
    · have := (go_bounds x ((cs.sum : ℕ) : ℝ) (Nat.cast_nonneg _) (e0 :: es) cs 0).2
      have hp : (0:ℝ) < (cs.sum : ℕ) := by exact_mod_cast hpos
      rw [Nat.cast_zero, zero_add, div_self hp.ne'] at this
      exact this

/-- **`rv_histogram.cdf` is monotone** -/
theorem histCdf_mono (es : List ℝ) (cs : List ℕ) {x y : ℝ} (hxy : x ≤ y) : histCdf es cs x ≤ histCdf es cs y := by
  cases es with
  | nil => simp [histCdf]
  | cons e0 es =>
    by_cases hx : x < e0
    · rw [histCdf_cons e0 es cs x, if_pos hx]; exact histCdf_nonneg _ _ _
    · have hy : ¬ y < e0 := not_lt.mpr ((not_lt.mp hx).trans hxy)
      rw [histCdf_cons, histCdf_cons, if_neg hx, if_neg hy]
      exact go_mono hxy _ (Nat.cast_nonneg _) _ _ _

/-- the cdf is 1 at and to the right of the last edge -/
theorem histCdf_eq_one {es : List ℝ} {cs : List ℕ} (hlen : cs.length + 1 = es.length) (hpos : 0 < cs.sum)
    {x : ℝ} (hx : ∀ e ∈ es, e ≤ x) : histCdf es cs x = 1 := by
  cases es with
  | nil => simp at hlen
  | cons e0 es =>
    have hp : (0:ℝ) < (cs.sum : ℕ) := by exact_mod_cast hpos
    rw [histCdf_cons, if_neg (not_lt.mpr (hx e0 (by simp))), go_full _ _ _ _ _ hx hlen]
    rw [Nat.cast_zero, zero_add, div_self hp.ne']

/-- the cdf is 0 at and to the left of the first edge (strictly increasing edges) -/
theorem histCdf_eq_zero {es : List ℝ} (hs : es.Pairwise (· < ·)) (cs : List ℕ)
    {x : ℝ} (hx : ∀ e ∈ es, x ≤ e) : histCdf es cs x = 0 := by
  cases es with
  | nil => simp [histCdf]
  | cons e0 es =>
    rw [histCdf_cons]
    split
    · rfl
    · rename_i h
      have hxe : x = e0 := le_antisymm (hx e0 (by simp)) (not_lt.mp h)
      subst hxe
      cases es with
      | nil => rw [histCdf.go]; · simp
               · intro _ _ _ _ _ h; cases h
      | cons e1 rest =>
        cases cs with
        | nil => rw [histCdf.go]; · simp
                 · intro _ _ _ _ _ _ h; cases h
        | cons c cs' =>
          have he1 : x < e1 := List.rel_of_pairwise_cons hs (by simp)
          rw [histCdf.go]
          simp [he1]


/-! ### the discretised vector `probabilities` -/

theorem probabilities_eq (es : List ℝ) (cs : List ℕ) (lo hi : ℝ) (nb : ℕ) :
    probabilities es cs lo hi nb
      = (pairs (linspace lo hi nb)).map (fun x => histCdf es cs x.2 - histCdf es cs x.1) := by
  unfold probabilities pairs
  rw [zipWith_eq_map_zip]

theorem sum_pairs_telescope (F : ℝ → ℝ) (l : List ℝ) (h : l ≠ []) :
    ((pairs l).map (fun x => F x.2 - F x.1)).sum = F (l.getLast h) - F (l.head h) := by
  induction l with
  | nil => exact absurd rfl h
  | cons a t ih =>
    cases t with
    | nil => simp [pairs]
    | cons b t' =>
      rw [pairs_cons_cons, List.map_cons, List.sum_cons, ih (by simp)]
      simp only [List.getLast_cons_cons, List.head_cons]
      ring

theorem linspace_ne_nil (lo hi : ℝ) (n : ℕ) : linspace lo hi (n + 2) ≠ [] := by
  intro h; have := linspace_length lo hi n; rw [h] at this; simp at this

theorem linspace_head (lo hi : ℝ) (n : ℕ) : (linspace lo hi (n + 2)).head (linspace_ne_nil lo hi n) = lo := by
  rw [List.head_eq_getElem]
  simp [linspace_eq]

theorem linspace_getLast (lo hi : ℝ) (n : ℕ) : (linspace lo hi (n + 2)).getLast (linspace_ne_nil lo hi n) = hi := by
  rw [List.getLast_eq_getElem]
  simp [linspace_eq]

theorem linspace_pairwise_le {lo hi : ℝ} (h : lo ≤ hi) (n : ℕ) : (linspace lo hi (n + 2)).Pairwise (· ≤ ·) := by
  rcases eq_or_lt_of_le h with rfl | hlt
  · rw [linspace_eq, List.pairwise_map]
    refine List.Pairwise.imp_of_mem ?_ List.pairwise_lt_range
    intro i j _ _ _
    simp
  · exact (linspace_pairwise_lt hlt n).imp le_of_lt

/-- **total mass of the discretised vector** = `cdf(hi) − cdf(lo)` (telescoping; `nb ≥ 2` grid points) -/
theorem probabilities_sum (es : List ℝ) (cs : List ℕ) (lo hi : ℝ) (n : ℕ) :
    (probabilities es cs lo hi (n + 2)).sum = histCdf es cs hi - histCdf es cs lo := by
  rw [probabilities_eq, sum_pairs_telescope (histCdf es cs) _ (linspace_ne_nil lo hi n), linspace_head, linspace_getLast]

/-- **the discretised vector has non-negative entries** (`lo ≤ hi`; any histogram) -/
theorem probabilities_nonneg (es : List ℝ) (cs : List ℕ) {lo hi : ℝ} (h : lo ≤ hi) (n : ℕ) :
    ∀ x ∈ probabilities es cs lo hi (n + 2), 0 ≤ x := by
  intro x hx
  rw [probabilities_eq] at hx
  obtain ⟨y, hy, rfl⟩ := List.mem_map.mp hx
  have := pairs_rel (linspace_pairwise_le h n) y hy
  linarith [histCdf_mono es cs this]

theorem probabilities_length (es : List ℝ) (cs : List ℕ) (lo hi : ℝ) (n : ℕ) :
    (probabilities es cs lo hi (n + 2)).length = n + 1 := by
  rw [probabilities_eq, List.length_map, pairs_length, linspace_length]; rfl

/-- a histogram as `np.histogram` returns it: strictly increasing edges, one count per gap, at least one observation -/
structure ValidHist (es : List ℝ) (cs : List ℕ) : Prop where
  sorted : es.Pairwise (· < ·)
  len : cs.length + 1 = es.length
  pos : 0 < cs.sum

/-- all edges of the histogram lie inside the pooled range `[lo, hi]` — true for the auto-histogram of every
NON-CONSTANT sample (its first/last edge are the sample minimum/maximum); FALSE for a constant sample, whose
edges numpy widens to `c ± 0.5` (`covered_fails_for_constant_sample`) -/
def Covered (es : List ℝ) (lo hi : ℝ) : Prop := ∀ e ∈ es, lo ≤ e ∧ e ≤ hi

theorem ValidHist.lt_of_covered {es : List ℝ} {cs : List ℕ} (hv : ValidHist es cs) {lo hi : ℝ} (hc : Covered es lo hi) :
    lo < hi := by
  obtain ⟨hs, hl, hp⟩ := hv
  match es, cs with
  | [_], [] => simp at hp
  | e0 :: e1 :: rest, c :: cs' =>
    have := List.rel_of_pairwise_cons hs (show e1 ∈ e1 :: rest by simp)
    linarith [(hc e0 (by simp)).1, (hc e1 (by simp)).2]
  | [], _ => simp at hl

/-- **The discretised vector of a covered histogram is a probability vector.** -/
theorem probabilities_isProb {es : List ℝ} {cs : List ℕ} (hv : ValidHist es cs) {lo hi : ℝ} (hc : Covered es lo hi) (n : ℕ) :
    IsProb (probabilities es cs lo hi (n + 2)) := by
  refine ⟨probabilities_nonneg es cs (hv.lt_of_covered hc).le n, ?_⟩
  rw [probabilities_sum, histCdf_eq_one hv.len hv.pos (fun e he => (hc e he).2),
    histCdf_eq_zero hv.sorted cs (fun e he => (hc e he).1)]
  ring

/-- in general the mass of the discretised vector of a valid histogram is in `[0, 1]` -/
theorem probabilities_mass_le_one {es : List ℝ} {cs : List ℕ} (hv : ValidHist es cs) (lo hi : ℝ) (n : ℕ) :
    (probabilities es cs lo hi (n + 2)).sum ≤ 1 := by
  rw [probabilities_sum]
  linarith [histCdf_le_one es hv.pos hi, histCdf_nonneg es cs lo]

/-! ### KL: the strongest true lower bound, and when it is non-negative -/

/-- **Gibbs' inequality without the mass assumption**: for vectors with non-negative entries and equal lengths,
a finite `klOf ref test = Σ rel_entr(test_i, ref_i)` is at least `Σ test − Σ ref`. -/
theorem kl_ge_mass_diff {ref test : List ℝ} (hlen : ref.length = test.length)
    (hr : ∀ x ∈ ref, 0 ≤ x) (ht : ∀ x ∈ test, 0 ≤ x) {v : ℝ} (h : klOf ref test = some v) :
    test.sum - ref.sum ≤ v := by
  unfold klOf at h
  rw [zipWith_eq_map_zip] at h
  obtain ⟨g, hg, rfl⟩ := sumOpt_map_eq_some _ _ _ h
  have hle := sum_map_le (List.zip test ref) (fun x => x.1 - x.2) g (by
    rintro ⟨t, r⟩ hab
    have hm := List.of_mem_zip hab
    have ht0 := ht t hm.1
    have hr0 := hr r hm.2
    have hgx := hg _ hab
    simp only [relEntr_eq] at hgx
    simp only
    split at hgx
    · rename_i h0
      have := Option.some.inj hgx
      rw [← this, h0]; linarith
    · rename_i h0
      split at hgx
      · cases hgx
      · rename_i h1
        have := Option.some.inj hgx
        rw [← this]
        exact gibbs_term (lt_of_le_of_ne ht0 (Ne.symm h0)) (lt_of_le_of_ne hr0 (Ne.symm h1)))
  rw [sum_map_sub', sum_zip_fst hlen.symm, sum_zip_snd hlen.symm] at hle
  exact hle

/-- **KL ≥ 0 whenever the test vector carries at least the mass of the reference vector** (no normalisation needed). -/
theorem kl_nonneg_of_mass_le {ref test : List ℝ} (hlen : ref.length = test.length)
    (hr : ∀ x ∈ ref, 0 ≤ x) (ht : ∀ x ∈ test, 0 ≤ x) (hm : ref.sum ≤ test.sum) {v : ℝ} (h : klOf ref test = some v) :
    0 ≤ v := by
  linarith [kl_ge_mass_diff hlen hr ht h]


/-! ### histogram level: `jsOf` / `klOf` applied to the two discretised vectors, as `js.py` / `kl.py` do -/

/-- **KL(test‖ref) ≥ 0 as soon as the TEST histogram is covered by the pooled range** (then its discretised vector has
mass 1, the reference one has mass ≤ 1).  In the library's pipeline this holds whenever the test sample is not
constant.  `nb = n + 2 ≥ 2` grid points. -/
theorem kl_hist_nonneg {esR esT : List ℝ} {csR csT : List ℕ} (hR : ValidHist esR csR) (hT : ValidHist esT csT)
    {lo hi : ℝ} (hcT : Covered esT lo hi) (n : ℕ) {v : ℝ}
    (h : klOf (probabilities esR csR lo hi (n + 2)) (probabilities esT csT lo hi (n + 2)) = some v) : 0 ≤ v := by
  have hle := (hT.lt_of_covered hcT).le
  refine kl_nonneg_of_mass_le (by rw [probabilities_length, probabilities_length])
    (probabilities_nonneg _ _ hle n) (probabilities_nonneg _ _ hle n) ?_ h
  rw [(probabilities_isProb hT hcT n).2]
  exact probabilities_mass_le_one hR lo hi n

/-- **JS distance is defined and in `[0, √ln 2]`** when both discretised vectors have positive mass
(`cdf(lo) < cdf(hi)` for both histograms; `lo ≤ hi`). -/
theorem js_hist_bounds {esR esT : List ℝ} {csR csT : List ℕ} {lo hi : ℝ} (hle : lo ≤ hi)
    (hmR : histCdf esR csR lo < histCdf esR csR hi) (hmT : histCdf esT csT lo < histCdf esT csT hi) (n : ℕ) :
    ∃ v, jsOf (probabilities esR csR lo hi (n + 2)) (probabilities esT csT lo hi (n + 2)) = some v ∧
      0 ≤ v ∧ v ≤ Real.sqrt (Real.log 2) :=
  js_bounds (probabilities_nonneg _ _ hle n) (probabilities_nonneg _ _ hle n)
    (by rw [probabilities_sum]; linarith) (by rw [probabilities_sum]; linarith)

/-- the same for two covered histograms (both samples non-constant in the library's pipeline) -/
theorem js_hist_bounds_of_covered {esR esT : List ℝ} {csR csT : List ℕ} (hR : ValidHist esR csR) (hT : ValidHist esT csT)
    {lo hi : ℝ} (hcR : Covered esR lo hi) (hcT : Covered esT lo hi) (n : ℕ) :
    ∃ v, jsOf (probabilities esR csR lo hi (n + 2)) (probabilities esT csT lo hi (n + 2)) = some v ∧
      0 ≤ v ∧ v ≤ Real.sqrt (Real.log 2) :=
  js_bounds (probabilities_isProb hR hcR n).1 (probabilities_isProb hT hcT n).1
    (by rw [(probabilities_isProb hR hcR n).2]; exact one_pos) (by rw [(probabilities_isProb hT hcT n).2]; exact one_pos)

/-- **JS distance of a histogram with itself is 0** when the pooled range carries positive mass. -/
theorem js_hist_self {es : List ℝ} {cs : List ℕ} {lo hi : ℝ} (hm : histCdf es cs lo < histCdf es cs hi) (n : ℕ) :
    jsOf (probabilities es cs lo hi (n + 2)) (probabilities es cs lo hi (n + 2)) = some 0 :=
  js_self (by rw [probabilities_sum]; linarith)

/-- non-vacuity (histograms of actual samples): the equal-width 3-bin histograms (`np.histogram(·, bins=3)`) of
`ref = [0, 1, 2, 3]`, i.e. `([1, 1, 2], [0, 1, 2, 3])`, and of `test = [1, 3, 3, 3]`, i.e. `([1, 0, 3], [1, 5/3, 7/3, 3])`;
pooled range `[0, 3]`: both are valid and covered. -/
example : ValidHist [(0:ℝ), 1, 2, 3] [1, 1, 2] ∧ ValidHist [(1:ℝ), 5/3, 7/3, 3] [1, 0, 3] ∧
    Covered [(0:ℝ), 1, 2, 3] 0 3 ∧ Covered [(1:ℝ), 5/3, 7/3, 3] 0 3 := by
  refine ⟨⟨by norm_num, rfl, by decide⟩, ⟨by norm_num, rfl, by decide⟩, ?_, ?_⟩
  · intro e he
    simp only [List.mem_cons, List.not_mem_nil, or_false] at he
    rcases he with rfl | rfl | rfl | rfl <;> norm_num
  · intro e he
    simp only [List.mem_cons, List.not_mem_nil, or_false] at he
    rcases he with rfl | rfl | rfl | rfl <;> norm_num

/-! ### the regions where the properties are FALSE (known findings KF-C10-1, KF-C10-2) -/

/-- a constant sample `c` is never covered when it sits at an end of the pooled range: numpy widens its
histogram range to `c ± 0.5` -/
theorem covered_fails_for_constant_sample (c lo hi : ℝ) (h : lo = c ∨ hi = c) :
    ¬ Covered [c - 1 / 2, c + 1 / 2] lo hi := by
  intro hc
  have h1 := (hc (c - 1 / 2) (by simp)).1
  have h2 := (hc (c + 1 / 2) (by simp)).2
  rcases h with rfl | rfl <;> linarith

theorem probabilities_two (es : List ℝ) (cs : List ℕ) (lo hi : ℝ) :
    probabilities es cs lo hi 2 = [histCdf es cs hi - histCdf es cs lo] := by
  rw [probabilities_eq, linspace_eq]
  simp [pairs, List.range_succ]

/-- cdf of the widened one-bin histogram of a constant sample, at the constant: one half -/
theorem histCdf_const_mid (c : ℝ) (m : ℕ) (hm : 0 < m) : histCdf [c - 1 / 2, c + 1 / 2] [m] c = 1 / 2 := by
  have hp : (m : ℝ) ≠ 0 := by exact_mod_cast hm.ne'
  rw [histCdf_cons, histCdf.go]
  simp only [RealNum.lt_iff, RealNum.ofNat_eq]
  rw [if_neg (by linarith), if_neg (by linarith), if_pos (by linarith)]
  simp only [List.sum_cons, List.sum_nil, add_zero, Nat.cast_zero, zero_add]
  field_simp
  ring

/-- **KF-C10-2 at histogram level, a whole family**: the test sample is the constant `c = lo` (`m > 0` copies, so numpy's
histogram is `([m], [c − 0.5, c + 0.5])`), the reference histogram is ANY valid histogram covered by the pooled range
`[c, hi]` with `c + 0.5 ≤ hi`, `num_bins = 2`.  Then the model (like the library) returns `KL = ½·ln ½ < 0`:
half of the test mass lies left of the pooled grid. -/
theorem kl_negative_witness {esR : List ℝ} {csR : List ℕ} (hR : ValidHist esR csR) {c hi : ℝ} (hcR : Covered esR c hi)
    (hhi : c + 1 / 2 ≤ hi) {m : ℕ} (hm : 0 < m) :
    klOf (probabilities esR csR c hi 2) (probabilities [c - 1 / 2, c + 1 / 2] [m] c hi 2)
      = some (1 / 2 * Real.log (1 / 2)) ∧ 1 / 2 * Real.log (1 / 2) < 0 := by
  constructor
  · rw [probabilities_two, probabilities_two,
      histCdf_eq_one hR.len hR.pos (fun e he => (hcR e he).2), histCdf_eq_zero hR.sorted _ (fun e he => (hcR e he).1),
      histCdf_const_mid c m hm,
      histCdf_eq_one (es := [c - 1 / 2, c + 1 / 2]) (cs := [m]) rfl (by simpa using hm) (by
        intro e he
        simp only [List.mem_cons, List.not_mem_nil, or_false] at he
        rcases he with rfl | rfl <;> linarith)]
    have h : klOf [(1:ℝ) - 0] [(1:ℝ) - 1 / 2] = sumOpt ([(1:ℝ) / 2 * Real.log (1 / 2)].map some) := by
      unfold klOf
      simp only [List.zipWith_cons_cons, List.zipWith_nil_right, relEntr_eq, List.map_cons, List.map_nil]
      norm_num
    rw [h, sumOpt_map_some]; simp
  · have : Real.log (1 / 2) < 0 := Real.log_neg (by norm_num) (by norm_num)
    nlinarith

/-- the finding's own numbers: `ref = [11.0, 10.8, 10.1, 10.9]` (a 3-bin histogram on `[10.1, 11]`), `test = [3.25]*6`,
`num_bins = 2` -/
example : klOf (probabilities [(101:ℝ)/10, 104/10, 107/10, 11] [1, 0, 3] (13/4) 11 2)
      (probabilities [(13:ℝ)/4 - 1 / 2, 13/4 + 1 / 2] [6] (13/4) 11 2) = some (1 / 2 * Real.log (1 / 2)) :=
  (kl_negative_witness (esR := [(101:ℝ)/10, 104/10, 107/10, 11]) (csR := [1, 0, 3])
    ⟨by norm_num, rfl, by decide⟩ (by
      intro e he
      simp only [List.mem_cons, List.not_mem_nil, or_false] at he
      rcases he with rfl | rfl | rfl | rfl <;> norm_num) (by norm_num) (by norm_num : 0 < 6)).1

theorem linspace_degenerate (c : ℝ) (n : ℕ) : ∀ x ∈ linspace c c (n + 2), x = c := by
  intro x hx
  rw [linspace_eq] at hx
  obtain ⟨i, _, rfl⟩ := List.mem_map.mp hx
  split <;> simp

/-- **KF-C10-1, the discretised vectors on a degenerate pooled range are all-zero**: every grid point is `c`, every
cell is `cdf(c) − cdf(c)`; so `Σ = 0` and the hypotheses of `js_hist_bounds` / `js_hist_self` fail. -/
theorem probabilities_degenerate (es : List ℝ) (cs : List ℕ) (c : ℝ) (n : ℕ) :
    probabilities es cs c c (n + 2) = List.replicate (n + 1) 0 := by
  rw [List.eq_replicate_iff]
  refine ⟨probabilities_length es cs c c n, ?_⟩
  intro x hx
  rw [probabilities_eq] at hx
  obtain ⟨y, hy, rfl⟩ := List.mem_map.mp hx
  have := pairs_mem hy
  rw [linspace_degenerate c n y.1 this.1, linspace_degenerate c n y.2 this.2]; ring

/-- **KF-C10-1 witness**: on a degenerate pooled range `jsOf` normalises two all-zero vectors.  At ℝ the model returns
`some 0`, which is an artefact of Lean's `0 / 0 = 0`; in IEEE arithmetic every normalised entry is `0/0 = NaN` and
the library returns `nan` (carrier-independent form: `C10.js_degenerate_div`). -/
theorem js_degenerate_pooled_witness (esR esT : List ℝ) (csR csT : List ℕ) (c : ℝ) (n : ℕ) :
    (probabilities esR csR c c (n + 2)).sum = 0 ∧ (probabilities esT csT c c (n + 2)).sum = 0 ∧
    jsOf (probabilities esR csR c c (n + 2)) (probabilities esT csT c c (n + 2)) = some 0 := by
  rw [probabilities_degenerate, probabilities_degenerate]
  exact ⟨by simp, by simp, js_degenerate_witness (n + 1)⟩

/-! ## 4. Sample level: the JS / KL pipeline with the auto-histogram routine as a parameter -/

/-- what is assumed about `np.histogram(·, bins='auto')` (an INPUT of the model, see `Ops.lean`, `cmdProb`):
it returns a valid histogram; for a non-constant sample the edges run from the sample minimum to the sample
maximum; for a constant sample `c` the range is widened to `c ± 0.5` (one bin); the result does not depend on the
order of the sample. -/
structure AutoHistSpec (autoHist : List ℝ → List ℝ × List ℕ) : Prop where
  valid : ∀ s, s ≠ [] → ValidHist (autoHist s).1 (autoHist s).2
  range : ∀ s, minL s < maxL s → Covered (autoHist s).1 (minL s) (maxL s)
  const : ∀ s, s ≠ [] → minL s = maxL s → autoHist s = ([minL s - 1 / 2, minL s + 1 / 2], [s.length])
  perm : ∀ s s', s.Perm s' → autoHist s = autoHist s'

/-- the one-bin histogram `np.histogram(s, bins=1)` -/
noncomputable def oneBin (s : List ℝ) : List ℝ × List ℕ :=
  ([wLo (minL s) (maxL s), wHi (minL s) (maxL s)], [s.length])

/-- the specification is satisfiable -/
theorem oneBin_spec : AutoHistSpec oneBin where
  valid s hs := by
    refine ⟨?_, rfl, ?_⟩
    · simpa [oneBin] using wLo_lt_wHi (minL_le (maxL_mem hs))
    · simpa [oneBin] using List.length_pos_iff.mpr hs
  range s h := by
    intro e he
    simp only [oneBin, wLo, wHi, h.ne, if_false, List.mem_cons, List.not_mem_nil, or_false] at he
    rcases he with rfl | rfl
    · exact ⟨le_rfl, h.le⟩
    · exact ⟨h.le, le_rfl⟩
  const s _ h := by
    simp only [oneBin, wLo, wHi, h, if_true]
  perm s s' h := by
    simp only [oneBin, minL_perm h, maxL_perm h, h.length_eq]

/-- `JS._js` from the two samples: auto-histograms, `linspace(min, max, num_bins)` of the pooled sample, cdf
differences, `jensenshannon` -/
noncomputable def jsSamples (autoHist : List ℝ → List ℝ × List ℕ) (ref test : List ℝ) (nb : ℕ) : Option ℝ :=
  jsOf (probabilities (autoHist ref).1 (autoHist ref).2 (minL (ref ++ test)) (maxL (ref ++ test)) nb)
       (probabilities (autoHist test).1 (autoHist test).2 (minL (ref ++ test)) (maxL (ref ++ test)) nb)

/-- `KL._kl` from the two samples: `Σ rel_entr(test_i, ref_i)` on the same discretised vectors -/
noncomputable def klSamples (autoHist : List ℝ → List ℝ × List ℕ) (ref test : List ℝ) (nb : ℕ) : Option ℝ :=
  klOf (probabilities (autoHist ref).1 (autoHist ref).2 (minL (ref ++ test)) (maxL (ref ++ test)) nb)
       (probabilities (autoHist test).1 (autoHist test).2 (minL (ref ++ test)) (maxL (ref ++ test)) nb)

theorem Covered.mono {es : List ℝ} {a b a' b' : ℝ} (h : Covered es a b) (ha : a' ≤ a) (hb : b ≤ b') : Covered es a' b' :=
  fun e he => ⟨ha.trans (h e he).1, (h e he).2.trans hb⟩

theorem ne_nil_of_minL_lt_maxL {s : List ℝ} (h : minL s < maxL s) : s ≠ [] := by
  rintro rfl; simp [minL, maxL] at h

theorem pooled_min_le_left (ref test : List ℝ) (h : ref ≠ []) : minL (ref ++ test) ≤ minL ref :=
  minL_le (List.mem_append_left _ (minL_mem h))
theorem pooled_min_le_right (ref test : List ℝ) (h : test ≠ []) : minL (ref ++ test) ≤ minL test :=
  minL_le (List.mem_append_right _ (minL_mem h))
theorem le_pooled_max_left (ref test : List ℝ) (h : ref ≠ []) : maxL ref ≤ maxL (ref ++ test) :=
  le_maxL (List.mem_append_left _ (maxL_mem h))
theorem le_pooled_max_right (ref test : List ℝ) (h : test ≠ []) : maxL test ≤ maxL (ref ++ test) :=
  le_maxL (List.mem_append_right _ (maxL_mem h))

/-- the auto-histogram of a non-constant sample is covered by the pooled range -/
theorem covered_left {A : List ℝ → List ℝ × List ℕ} (hA : AutoHistSpec A) {ref : List ℝ} (test : List ℝ)
    (h : minL ref < maxL ref) : Covered (A ref).1 (minL (ref ++ test)) (maxL (ref ++ test)) :=
  (hA.range ref h).mono (pooled_min_le_left _ _ (ne_nil_of_minL_lt_maxL h)) (le_pooled_max_left _ _ (ne_nil_of_minL_lt_maxL h))
theorem covered_right {A : List ℝ → List ℝ × List ℕ} (hA : AutoHistSpec A) (ref : List ℝ) {test : List ℝ}
    (h : minL test < maxL test) : Covered (A test).1 (minL (ref ++ test)) (maxL (ref ++ test)) :=
  (hA.range test h).mono (pooled_min_le_right _ _ (ne_nil_of_minL_lt_maxL h)) (le_pooled_max_right _ _ (ne_nil_of_minL_lt_maxL h))

/-- **JS distance of two non-constant samples is defined and lies in `[0, √ln 2]`** (`num_bins = n + 2 ≥ 2`). -/
theorem jsSamples_bounds {A : List ℝ → List ℝ × List ℕ} (hA : AutoHistSpec A) {ref test : List ℝ}
    (hr : minL ref < maxL ref) (ht : minL test < maxL test) (n : ℕ) :
    ∃ v, jsSamples A ref test (n + 2) = some v ∧ 0 ≤ v ∧ v ≤ Real.sqrt (Real.log 2) :=
  js_hist_bounds_of_covered (hA.valid ref (ne_nil_of_minL_lt_maxL hr)) (hA.valid test (ne_nil_of_minL_lt_maxL ht))
    (covered_left hA test hr) (covered_right hA ref ht) n

/-- **JS distance is symmetric in the two samples** (as an `Option`; every auto-histogram routine, all samples). -/
theorem jsSamples_symm (A : List ℝ → List ℝ × List ℕ) (ref test : List ℝ) (nb : ℕ) :
    jsSamples A ref test nb = jsSamples A test ref nb := by
  unfold jsSamples
  rw [minL_perm (List.perm_append_comm : (ref ++ test).Perm (test ++ ref)),
    maxL_perm (List.perm_append_comm : (ref ++ test).Perm (test ++ ref)), js_symm]

/-- **JS distance of a non-constant sample with itself is 0.** -/
theorem jsSamples_self {A : List ℝ → List ℝ × List ℕ} (hA : AutoHistSpec A) {x : List ℝ} (hx : minL x < maxL x) (n : ℕ) :
    jsSamples A x x (n + 2) = some 0 := by
  unfold jsSamples
  apply js_self
  rw [(probabilities_isProb (hA.valid x (ne_nil_of_minL_lt_maxL hx)) (covered_left hA x hx) n).2]
  exact one_pos

/-- **JS and KL do not depend on the order of either sample** (for an order-independent auto-histogram). -/
theorem jsSamples_perm {A : List ℝ → List ℝ × List ℕ} (hA : AutoHistSpec A) {ref ref' test test' : List ℝ}
    (hr : ref.Perm ref') (ht : test.Perm test') (nb : ℕ) :
    jsSamples A ref test nb = jsSamples A ref' test' nb ∧ klSamples A ref test nb = klSamples A ref' test' nb := by
  unfold jsSamples klSamples
  rw [hA.perm _ _ hr, hA.perm _ _ ht, minL_perm (hr.append ht), maxL_perm (hr.append ht)]
  exact ⟨rfl, rfl⟩

/-- **KL(test‖ref) ≥ 0 whenever the TEST sample is not constant** (any non-empty reference sample, constant or not;
`none` = `+∞` is the other possible outcome). -/
theorem klSamples_nonneg {A : List ℝ → List ℝ × List ℕ} (hA : AutoHistSpec A) {ref test : List ℝ}
    (hr : ref ≠ []) (ht : minL test < maxL test) (n : ℕ) {v : ℝ} (h : klSamples A ref test (n + 2) = some v) : 0 ≤ v :=
  kl_hist_nonneg (hA.valid ref hr) (hA.valid test (ne_nil_of_minL_lt_maxL ht)) (covered_right hA ref ht) n h

/-- **KL of a sample with itself is (finite and) 0** — every sample, also a constant one. -/
theorem klSamples_self (A : List ℝ → List ℝ × List ℕ) (x : List ℝ) (nb : ℕ) : klSamples A x x nb = some 0 :=
  kl_self _

/-- non-vacuity of `jsSamples_bounds` / `klSamples_nonneg`: two non-constant samples -/
example : minL [(0:ℝ), 1, 2, 3] < maxL [(0:ℝ), 1, 2, 3] ∧ minL [(1:ℝ), 3, 3, 3] < maxL [(1:ℝ), 3, 3, 3] := by
  constructor <;> norm_num [minL, maxL, Num.gt]


/-! ### sample-level witnesses of the known findings -/

theorem minL_replicate (c : ℝ) {m : ℕ} (hm : 0 < m) : minL (List.replicate m c) = c :=
  least_eq_minL ⟨by simp [hm.ne'], fun x hx => by rw [List.eq_of_mem_replicate hx]⟩
theorem maxL_replicate (c : ℝ) {m : ℕ} (hm : 0 < m) : maxL (List.replicate m c) = c :=
  greatest_eq_maxL ⟨by simp [hm.ne'], fun x hx => by rw [List.eq_of_mem_replicate hx]⟩

/-- **KF-C10-2 at sample level (KL < 0), a whole family**: the test sample is `m > 0` copies of `c`, the reference
sample is non-constant and lies in `[c, ∞)` with maximum at least `c + 0.5`, `num_bins = 2`; for EVERY auto-histogram
routine satisfying `AutoHistSpec`, `KL = ½·ln ½ ≈ −0.35`. -/
theorem klSamples_negative_witness {A : List ℝ → List ℝ × List ℕ} (hA : AutoHistSpec A) {ref : List ℝ} {c : ℝ}
    (hr : minL ref < maxL ref) (hc : c ≤ minL ref) (hhi : c + 1 / 2 ≤ maxL ref) {m : ℕ} (hm : 0 < m) :
    klSamples A ref (List.replicate m c) 2 = some (1 / 2 * Real.log (1 / 2)) ∧ 1 / 2 * Real.log (1 / 2) < 0 := by
  have hne := ne_nil_of_minL_lt_maxL hr
  have hlo : minL (ref ++ List.replicate m c) = c :=
    least_eq_minL ⟨by simp [hm.ne'], fun x hx => by
      rcases List.mem_append.mp hx with h | h
      · exact hc.trans (minL_le h)
      · rw [List.eq_of_mem_replicate h]⟩
  have hhi' : maxL (ref ++ List.replicate m c) = maxL ref :=
    greatest_eq_maxL ⟨List.mem_append_left _ (maxL_mem hne), fun x hx => by
      rcases List.mem_append.mp hx with h | h
      · exact le_maxL h
      · rw [List.eq_of_mem_replicate h]; linarith⟩
  have hT : A (List.replicate m c) = ([c - 1 / 2, c + 1 / 2], [m]) := by
    rw [hA.const _ (by simp [hm.ne']) (by rw [minL_replicate c hm, maxL_replicate c hm]), minL_replicate c hm]
    simp
  unfold klSamples
  rw [hlo, hhi', hT]
  exact kl_negative_witness (hA.valid ref hne) ((hA.range ref hr).mono hc le_rfl) hhi hm

/-- the finding's own samples: `ref = [11.0, 10.8, 10.1, 10.9]`, `test = [3.25]*6`, `num_bins = 2` -/
example {A : List ℝ → List ℝ × List ℕ} (hA : AutoHistSpec A) :
    klSamples A [(11:ℝ), 108/10, 101/10, 109/10] (List.replicate 6 (13/4)) 2 = some (1 / 2 * Real.log (1 / 2)) := by
  have h1 : minL [(11:ℝ), 108/10, 101/10, 109/10] = 101/10 := by norm_num [minL]
  have h2 : maxL [(11:ℝ), 108/10, 101/10, 109/10] = 11 := by norm_num [maxL, Num.gt]
  exact (klSamples_negative_witness hA (by rw [h1, h2]; norm_num) (by rw [h1]; norm_num) (by rw [h2]; norm_num)
    (by norm_num : 0 < 6)).1

/-- **KF-C10-1 at sample level**: two constant samples with the same value — the pooled range is a point, both
discretised vectors are all-zero (mass 0, so `jsSamples_bounds`/`jsSamples_self` do not apply) and the ℝ-model's
`some 0` comes from `0 / 0 = 0`; the library returns `nan`. -/
theorem jsSamples_degenerate_witness (A : List ℝ → List ℝ × List ℕ) (c : ℝ) {k m : ℕ} (hk : 0 < k) (n : ℕ) :
    let lo := minL (List.replicate k c ++ List.replicate m c)
    let hi := maxL (List.replicate k c ++ List.replicate m c)
    lo = hi ∧
    (probabilities (A (List.replicate k c)).1 (A (List.replicate k c)).2 lo hi (n + 2)).sum = 0 ∧
    jsSamples A (List.replicate k c) (List.replicate m c) (n + 2) = some 0 := by
  have hpool : List.replicate k c ++ List.replicate m c = List.replicate (k + m) c := by
    rw [List.replicate_append_replicate]
  have hlo : minL (List.replicate k c ++ List.replicate m c) = c := by
    rw [hpool]; exact minL_replicate c (by omega)
  have hhi : maxL (List.replicate k c ++ List.replicate m c) = c := by
    rw [hpool]; exact maxL_replicate c (by omega)
  simp only
  unfold jsSamples
  rw [hlo, hhi]
  obtain ⟨h1, _, h3⟩ := js_degenerate_pooled_witness (A (List.replicate k c)).1 (A (List.replicate m c)).1
    (A (List.replicate k c)).2 (A (List.replicate m c)).2 c n
  exact ⟨rfl, h1, h3⟩

/-! ## 4b. Sample-level axioms of the four binned distances, EMD and energy -/

/-- **The textbook proportions form probability vectors**: the declarative bins partition the pooled range, so
`Σ_i p_i = Σ_i q_i = 1` (each value, also one lying on an inner edge or on `hi`, is counted exactly once). -/
theorem proportion_isProb {ref test : List ℝ} {a b : ℝ}
    (ha : IsLeast {x | x ∈ ref ++ test} a) (hb : IsGreatest {x | x ∈ ref ++ test} b) {nb : ℕ} (hnb : 0 < nb)
    (hr : ref ≠ []) (ht : test ≠ []) :
    (∀ i, 0 ≤ proportion (wLo a b) (wHi a b) nb ref i) ∧ (∀ i, 0 ≤ proportion (wLo a b) (wHi a b) nb test i) ∧
    ∑ i ∈ Finset.range nb, proportion (wLo a b) (wHi a b) nb ref i = 1 ∧
    ∑ i ∈ Finset.range nb, proportion (wLo a b) (wHi a b) nb test i = 1 := by
  obtain ⟨n, rfl⟩ : ∃ n, nb = n + 1 := ⟨nb - 1, by omega⟩
  obtain ⟨h1, h2, _⟩ := binsValues_isProb hr ht n
  rw [binsValues_eq_formula ha hb hnb] at h1 h2
  refine ⟨fun i => by unfold proportion; positivity, fun i => by unfold proportion; positivity, ?_, ?_⟩
  · rw [← sum_map_range]; exact h1.2
  · rw [← sum_map_range]; exact h2.2

/-- **Hellinger² = Bhattacharyya (`1 − BC`) at sample level** — the library's "Bhattacharyya distance" is the
squared Hellinger distance, not `−ln BC`. -/
theorem hellinger_sq_eq_bhattacharyya {ref test : List ℝ} (hr : ref ≠ []) (ht : test ≠ []) (n : ℕ) :
    hellinger ref test (n + 1) ^ 2 = bhattacharyya ref test (n + 1) := by
  obtain ⟨h1, h2, h3⟩ := binsValues_isProb hr ht n
  rw [hellinger_def, bhattacharyya_def, hellingerOf_eq_sqrt_one_sub_bc h3 h1 h2, bhattacharyyaOf_eq,
    Real.sq_sqrt (by linarith [bc_le_one h1 h2])]

/-- **EMD and energy distance under a constant map (`a = 0` in `x ↦ a·x + b`) are 0** — completes
`C10.emd_scale_abs` / `C10.energy_scale_abs` (which need `a ≠ 0`) to every affine map. -/
theorem emd_energy_const_map (b : ℝ) {u v : List ℝ} (_hu : u ≠ []) (_hv : v ≠ []) :
    emd (u.map (fun _ => b)) (v.map (fun _ => b)) = 0 ∧ energy (u.map (fun _ => b)) (v.map (fun _ => b)) = 0 := by
  have key : ∀ p, cdfDistance p (u.map (fun _ => b)) (v.map (fun _ => b)) = 0 := by
    intro p
    rw [cdfDistance_eq]
    apply sum_map_eq_zero
    intro x hx
    have hm := pairs_mem hx
    have hall : ∀ y ∈ Hist.sort (u.map (fun _ => b) ++ v.map (fun _ => b)), y = b := by
      intro y hy
      rw [mem_sort] at hy
      rcases List.mem_append.mp hy with h | h <;> · obtain ⟨_, _, rfl⟩ := List.mem_map.mp h; rfl
    rw [hall _ hm.1, hall _ hm.2]; ring
  exact ⟨key 1, by rw [energy_eq, key 2]; simp⟩

/-- **EMD scales by `|a|` and the energy distance by `√|a|` under EVERY affine map `x ↦ a·x + b`**. -/
theorem emd_energy_affine (a b : ℝ) {u v : List ℝ} (hu : u ≠ []) (hv : v ≠ []) :
    emd (u.map (fun x => a * x + b)) (v.map (fun x => a * x + b)) = |a| * emd u v ∧
    energy (u.map (fun x => a * x + b)) (v.map (fun x => a * x + b)) = Real.sqrt |a| * energy u v := by
  by_cases ha : a = 0
  · subst ha
    have := emd_energy_const_map b hu hv
    simp only [zero_mul, zero_add, abs_zero, Real.sqrt_zero]
    exact this
  · exact ⟨emd_scale_abs ha b hu hv, energy_scale_abs ha b hu hv⟩

/-! ## 2b. Equal sample sizes: EMD is the mean absolute difference of the order statistics -/

/-- indicator of `a ≤ s` -/
noncomputable def ind (a s : ℝ) : ℝ := if a ≤ s then 1 else 0

theorem countLe_eq_sum_ind (l : List ℝ) (s : ℝ) : (countLe l s : ℝ) = (l.map (fun a => ind a s)).sum := by
  induction l with
  | nil => simp [countLe]
  | cons a t ih =>
    have : countLe (a :: t) s = (if a ≤ s then 1 else 0) + countLe t s := by
      unfold countLe
      rw [List.filter_cons]
      by_cases h : a ≤ s
      · simp [h]; ring
      · simp [h]
    rw [this, List.map_cons, List.sum_cons, ← ih]
    unfold ind
    split <;> simp

/-- for two sorted lists of equal length and a threshold `s`, the events `x_(i) ≤ s`, `y_(i) ≤ s` are nested
uniformly in `i` -/
theorem zip_nested {x y : List ℝ} (hx : x.Pairwise (· ≤ ·)) (hy : y.Pairwise (· ≤ ·)) (hlen : x.length = y.length) (s : ℝ) :
    (∀ p ∈ List.zip x y, p.1 ≤ s → p.2 ≤ s) ∨ (∀ p ∈ List.zip x y, p.2 ≤ s → p.1 ≤ s) := by
  induction x generalizing y with
  | nil => left; simp
  | cons a x' ih =>
    cases y with
    | nil => simp at hlen
    | cons b y' =>
      have hx' := hx.of_cons
      have hy' := hy.of_cons
      have hxa : ∀ w ∈ x', a ≤ w := fun w hw => List.rel_of_pairwise_cons hx hw
      have hyb : ∀ w ∈ y', b ≤ w := fun w hw => List.rel_of_pairwise_cons hy hw
      by_cases ha : a ≤ s
      · by_cases hb : b ≤ s
        · rcases ih hx' hy' (by simpa using hlen) with h | h
          · left; intro p hp
            rcases List.mem_cons.mp hp with rfl | hp
            · exact fun _ => hb
            · exact h p hp
          · right; intro p hp
            rcases List.mem_cons.mp hp with rfl | hp
            · exact fun _ => ha
            · exact h p hp
        · right; intro p hp h2
          rcases List.mem_cons.mp hp with rfl | hp
          · exact absurd h2 hb
          · exact absurd ((hyb _ (List.of_mem_zip hp).2).trans h2) hb
      · left; intro p hp h1
        rcases List.mem_cons.mp hp with rfl | hp
        · exact absurd h1 ha
        · exact absurd ((hxa _ (List.of_mem_zip hp).1).trans h1) ha

theorem sum_zip_map_fst {x y : List ℝ} (hlen : x.length = y.length) (f : ℝ → ℝ) :
    ((List.zip x y).map (fun p => f p.1)).sum = (x.map f).sum := by
  have : (List.zip x y).map (fun p => f p.1) = ((List.zip x y).map Prod.fst).map f := by rw [List.map_map]; rfl
  rw [this, List.map_fst_zip (le_of_eq hlen)]

theorem sum_zip_map_snd {x y : List ℝ} (hlen : x.length = y.length) (f : ℝ → ℝ) :
    ((List.zip x y).map (fun p => f p.2)).sum = (y.map f).sum := by
  have : (List.zip x y).map (fun p => f p.2) = ((List.zip x y).map Prod.snd).map f := by rw [List.map_map]; rfl
  rw [this, List.map_snd_zip (le_of_eq hlen.symm)]

/-- `|#{x ≤ s} − #{y ≤ s}| = #{i : exactly one of x_(i) ≤ s, y_(i) ≤ s}` for sorted lists of equal length -/
theorem abs_count_diff {x y : List ℝ} (hx : x.Pairwise (· ≤ ·)) (hy : y.Pairwise (· ≤ ·)) (hlen : x.length = y.length) (s : ℝ) :
    |(countLe x s : ℝ) - (countLe y s : ℝ)| = ((List.zip x y).map (fun p => |ind p.1 s - ind p.2 s|)).sum := by
  rw [countLe_eq_sum_ind, countLe_eq_sum_ind, ← sum_zip_map_fst hlen (fun a => ind a s),
    ← sum_zip_map_snd hlen (fun a => ind a s), ← sum_map_sub']
  rcases zip_nested hx hy hlen s with h | h
  · have hterm : ∀ p ∈ List.zip x y, |ind p.1 s - ind p.2 s| = -(ind p.1 s - ind p.2 s) := by
      intro p hp
      have := h p hp
      unfold ind
      by_cases h1 : p.1 ≤ s
      · simp [h1, this h1]
      · by_cases h2 : p.2 ≤ s <;> simp [h1, h2]
    rw [sum_map_congr _ _ _ hterm, abs_of_nonpos]
    · rw [← neg_one_mul, ← sum_map_mul_left']; apply sum_map_congr; intro p _; ring
    · have := sum_map_nonneg (List.zip x y) (fun p => -(ind p.1 s - ind p.2 s)) (fun p hp => by
        rw [← hterm p hp]; exact abs_nonneg _)
      rw [show (fun p : ℝ × ℝ => -(ind p.1 s - ind p.2 s)) = (fun p => (-1) * (ind p.1 s - ind p.2 s)) by
        funext p; ring, sum_map_mul_left'] at this
      linarith
  · have hterm : ∀ p ∈ List.zip x y, |ind p.1 s - ind p.2 s| = ind p.1 s - ind p.2 s := by
      intro p hp
      have := h p hp
      unfold ind
      by_cases h2 : p.2 ≤ s
      · simp [h2, this h2]
      · by_cases h1 : p.1 ≤ s <;> simp [h1, h2]
    rw [sum_map_congr _ _ _ hterm, abs_of_nonneg]
    have := sum_map_nonneg (List.zip x y) (fun p => ind p.1 s - ind p.2 s) (fun p hp => by
      rw [← hterm p hp]; exact abs_nonneg _)
    exact this


theorem sum_map_mul_right' {β : Type} (l : List β) (c : ℝ) (f : β → ℝ) :
    (l.map (fun x => f x * c)).sum = (l.map f).sum * c := by
  induction l with
  | nil => simp
  | cons a l ih => simp only [List.map_cons, List.sum_cons, ih]; ring

theorem sum_map_div'' {β : Type} (l : List β) (c : ℝ) (f : β → ℝ) :
    (l.map (fun x => f x / c)).sum = (l.map f).sum / c := by
  induction l with
  | nil => simp
  | cons a l ih => simp only [List.map_cons, List.sum_cons, ih]; ring

/-- clamp `w` to `[min a b, max a b]` -/
noncomputable def clamp (a b w : ℝ) : ℝ := max (min a b) (min w (max a b))

/-- on a gap `(s, t)` of a sorted list that contains `a` and `b`, the indicator "exactly one of `a ≤ s`, `b ≤ s`" times
the gap is the increment of the clamp -/
theorem ind_gap {a b s t : ℝ} (hst : s ≤ t) (ha : a ≤ s ∨ t ≤ a) (hb : b ≤ s ∨ t ≤ b) :
    |ind a s - ind b s| * (t - s) = clamp a b t - clamp a b s := by
  unfold ind clamp
  rcases le_total a b with hab | hab
  · rw [min_eq_left hab, max_eq_right hab]
    by_cases h1 : a ≤ s
    · by_cases h2 : b ≤ s
      · simp only [h1, h2, if_true, sub_self, abs_zero, zero_mul]
        rw [min_eq_right h2, min_eq_right (h2.trans hst)]; ring
      · have htb : t ≤ b := hb.resolve_left h2
        simp only [h1, h2, if_true, if_false, sub_zero, abs_one, one_mul]
        rw [min_eq_left htb, min_eq_left (not_le.mp h2).le, max_eq_right (h1.trans hst), max_eq_right h1]
    · have hta : t ≤ a := ha.resolve_left h1
      have h2 : ¬ b ≤ s := fun h => h1 (hab.trans h)
      simp only [h1, h2, if_false, sub_self, abs_zero, zero_mul]
      rw [min_eq_left (hta.trans hab), min_eq_left ((not_le.mp h1).le.trans hab), max_eq_left hta,
        max_eq_left (not_le.mp h1).le]; ring
  · rw [min_eq_right hab, max_eq_left hab]
    by_cases h1 : b ≤ s
    · by_cases h2 : a ≤ s
      · simp only [h1, h2, if_true, sub_self, abs_zero, zero_mul]
        rw [min_eq_right h2, min_eq_right (h2.trans hst)]; ring
      · have hta : t ≤ a := ha.resolve_left h2
        simp only [h1, h2, if_true, if_false, zero_sub, abs_neg, abs_one, one_mul]
        rw [min_eq_left hta, min_eq_left (not_le.mp h2).le, max_eq_right (h1.trans hst), max_eq_right h1]
    · have htb : t ≤ b := hb.resolve_left h1
      have h2 : ¬ a ≤ s := fun h => h1 (hab.trans h)
      simp only [h1, h2, if_false, sub_self, abs_zero, zero_mul]
      rw [min_eq_left (htb.trans hab), min_eq_left ((not_le.mp h1).le.trans hab), max_eq_left htb,
        max_eq_left (not_le.mp h1).le]; ring

theorem clamp_of_le {a b w : ℝ} (h : w ≤ min a b) : clamp a b w = min a b := by
  unfold clamp
  rw [min_eq_left (h.trans (min_le_max)), max_eq_left h]

theorem clamp_of_ge {a b w : ℝ} (h : max a b ≤ w) : clamp a b w = max a b := by
  unfold clamp
  rw [min_eq_right h, max_eq_right min_le_max]

theorem max_sub_min (a b : ℝ) : max a b - min a b = |a - b| := by
  rcases le_total a b with h | h
  · rw [max_eq_right h, min_eq_left h, abs_of_nonpos (by linarith)]; ring
  · rw [max_eq_left h, min_eq_right h, abs_of_nonneg (by linarith)]

theorem sorted_head_le {z : List ℝ} (hz : z.Pairwise (· ≤ ·)) (h : z ≠ []) : ∀ w ∈ z, z.head h ≤ w := by
  cases z with
  | nil => exact absurd rfl h
  | cons a t =>
    intro w hw
    rcases List.mem_cons.mp hw with rfl | hw
    · exact le_rfl
    · exact List.rel_of_pairwise_cons hz hw

theorem sorted_le_getLast {z : List ℝ} (hz : z.Pairwise (· ≤ ·)) (h : z ≠ []) : ∀ w ∈ z, w ≤ z.getLast h := by
  intro w hw
  obtain ⟨i, hi, rfl⟩ := List.mem_iff_getElem.mp hw
  rw [List.getLast_eq_getElem]
  rcases Nat.eq_or_lt_of_le (Nat.le_sub_one_of_lt hi) with heq | hlt
  · simp [heq]
  · exact List.pairwise_iff_getElem.mp hz i (z.length - 1) hi (by omega) hlt

/-- interchange of two finite sums over lists -/
theorem sum_map_sum_comm {β γ : Type} (l₁ : List β) (l₂ : List γ) (f : β → γ → ℝ) :
    (l₁.map (fun a => (l₂.map (fun b => f a b)).sum)).sum = (l₂.map (fun b => (l₁.map (fun a => f a b)).sum)).sum := by
  induction l₁ with
  | nil => simp
  | cons a t ih =>
    simp only [List.map_cons, List.sum_cons, ih]
    rw [sum_map_add']

/-- **EMD for equal sample sizes = mean absolute difference of the order statistics**
`(1/n) Σ_i |x_(i) − y_(i)|`, `x`/`y` ANY sorted arrangements of the two samples (Wasserstein-1 between the two
empirical measures via the monotone coupling). -/
theorem emd_eq_sorted_coupling {u v x y : List ℝ} (hu : u ≠ []) (hlen : u.length = v.length)
    (hx : x.Pairwise (· ≤ ·)) (hxp : x.Perm u) (hy : y.Pairwise (· ≤ ·)) (hyp : y.Perm v) :
    emd u v = ((List.zip x y).map (fun p => |p.1 - p.2|)).sum / (u.length : ℝ) := by
  have hn : (u.length : ℝ) ≠ 0 := by exact_mod_cast (List.length_pos_iff.mpr hu).ne'
  have hxy : x.length = y.length := by rw [hxp.length_eq, hyp.length_eq, hlen]
  set z := Hist.sort (u ++ v) with hzdef
  have hz := sort_pairwise (u ++ v)
  have hzne : z ≠ [] := by
    intro h
    have := (sort_perm (u ++ v)).length_eq
    rw [← hzdef, h] at this
    have hpos := List.length_pos_iff.mpr hu
    simp at this
    omega
  have hmem : ∀ p ∈ List.zip x y, p.1 ∈ z ∧ p.2 ∈ z := by
    intro p hp
    have := List.of_mem_zip hp
    exact ⟨mem_sort.mpr (List.mem_append_left _ (hxp.mem_iff.mp this.1)),
      mem_sort.mpr (List.mem_append_right _ (hyp.mem_iff.mp this.2))⟩
  unfold emd
  rw [cdfDistance_eq, ← hzdef]
  -- every term of the model's sum, rewritten with the clamps
  have hterm : ∀ g ∈ pairs z, wt 1 (cdfDiff u v g.1) * (g.2 - g.1)
      = ((List.zip x y).map (fun p => (clamp p.1 p.2 g.2 - clamp p.1 p.2 g.1) / (u.length : ℝ))).sum := by
    intro g hg
    have hst : g.1 ≤ g.2 := pairs_rel hz g hg
    have hnb := pairs_no_between hz g hg
    have h1 : cdfDiff u v g.1 = |(countLe x g.1 : ℝ) - (countLe y g.1 : ℝ)| / (u.length : ℝ) := by
      unfold cdfDiff
      rw [← hlen, ← countLe_perm hxp, ← countLe_perm hyp, ← sub_div, abs_div, Nat.abs_cast]
    simp only [wt, if_true]
    rw [h1, abs_count_diff hx hy hxy, div_mul_eq_mul_div, ← sum_map_mul_right' , sum_map_div'']
    congr 1
    apply sum_map_congr
    intro p hp
    rw [ind_gap hst (hnb _ (hmem p hp).1) (hnb _ (hmem p hp).2)]
  rw [sum_map_congr _ _ _ hterm, sum_map_sum_comm, ← sum_map_div'']
  apply sum_map_congr
  intro p hp
  have hdiv : (fun g : ℝ × ℝ => (clamp p.1 p.2 g.2 - clamp p.1 p.2 g.1) / (u.length : ℝ))
      = (fun g => (1 / (u.length : ℝ)) * (clamp p.1 p.2 g.2 - clamp p.1 p.2 g.1)) := by
    funext g; ring
  rw [hdiv, sum_map_mul_left', sum_pairs_telescope (clamp p.1 p.2) z hzne,
    clamp_of_ge (le_trans (le_of_eq rfl) (max_le (sorted_le_getLast hz hzne _ (hmem p hp).1) (sorted_le_getLast hz hzne _ (hmem p hp).2))),
    clamp_of_le (le_min (sorted_head_le hz hzne _ (hmem p hp).1) (sorted_head_le hz hzne _ (hmem p hp).2)),
    max_sub_min]
  ring

/-- computed instance: `emd [3, 1] [2, 5] = (|1 − 2| + |3 − 5|)/2 = 3/2` -/
example : emd [(3:ℝ), 1] [2, 5] = 3 / 2 := by
  rw [emd_eq_sorted_coupling (u := [3, 1]) (v := [2, 5]) (x := [1, 3]) (y := [2, 5]) (by simp) rfl (by norm_num) (List.Perm.swap _ _ _) (by norm_num)
    (List.Perm.refl _)]
  norm_num [abs_of_neg]

/-! ## 4c. Definiteness -/

/-- **Definiteness of the binned Hellinger distance**: it vanishes exactly when the two samples have the same
proportion in every bin (so `hellinger = 0` does NOT mean equal samples — only equal binned distributions). -/
theorem hellinger_eq_zero_iff {ref test : List ℝ} {a b : ℝ}
    (ha : IsLeast {x | x ∈ ref ++ test} a) (hb : IsGreatest {x | x ∈ ref ++ test} b) {nb : ℕ} (hnb : 0 < nb)
    (hr : ref ≠ []) (ht : test ≠ []) :
    hellinger ref test nb = 0 ↔
      ∀ i < nb, proportion (wLo a b) (wHi a b) nb ref i = proportion (wLo a b) (wHi a b) nb test i := by
  obtain ⟨hp, hq, _, _⟩ := proportion_isProb ha hb hnb hr ht
  rw [hellinger_eq_formula ha hb hnb hr ht]
  have h2 : Real.sqrt 2 ≠ 0 := (Real.sqrt_pos.mpr (by norm_num)).ne'
  have hS : 0 ≤ ∑ i ∈ Finset.range nb,
      (Real.sqrt (proportion (wLo a b) (wHi a b) nb ref i) - Real.sqrt (proportion (wLo a b) (wHi a b) nb test i)) ^ 2 :=
    Finset.sum_nonneg (fun i _ => sq_nonneg _)
  rw [div_eq_zero_iff, or_iff_left h2, Real.sqrt_eq_zero hS,
    Finset.sum_eq_zero_iff_of_nonneg (fun i _ => sq_nonneg _)]
  constructor
  · intro h i hi
    have := h i (Finset.mem_range.mpr hi)
    rw [sq_eq_zero_iff, sub_eq_zero] at this
    exact (Real.sqrt_inj (hp i) (hq i)).mp this
  · intro h i hi
    rw [h i (Finset.mem_range.mp hi)]; simp

section Integral
open MeasureTheory
/-! ## 2c. EMD as the integral of `|F_u − F_v|` -/

/-- a function that is constant on the open interval `(s, t)` is interval integrable there, with integral `c·(t − s)` -/
theorem integral_of_const_on_Ioo {f : ℝ → ℝ} {s t c : ℝ} (h : ∀ w ∈ Set.uIoo s t, f w = c) :
    IntervalIntegrable f volume s t ∧ ∫ w in s..t, f w = c * (t - s) := by
  have hEq : Set.EqOn (fun _ => c) f (Set.uIoo s t) := fun w hw => (h w hw).symm
  refine ⟨(intervalIntegrable_const (c := c)).congr_uIoo hEq, ?_⟩
  rw [← intervalIntegral.integral_congr_uIoo hEq, intervalIntegral.integral_const]
  simp [mul_comm]

/-- a step function on a sorted grid: integrable from the first to the last grid point, the integral is the
finite sum of value × gap -/
theorem integral_step (f g : ℝ → ℝ) (l : List ℝ) (hne : l ≠ [])
    (h : ∀ p ∈ pairs l, ∀ w ∈ Set.uIoo p.1 p.2, f w = g p.1) :
    IntervalIntegrable f volume (l.head hne) (l.getLast hne) ∧
      ∫ w in (l.head hne)..(l.getLast hne), f w = ((pairs l).map (fun p => g p.1 * (p.2 - p.1))).sum := by
  induction l with
  | nil => exact absurd rfl hne
  | cons a t ih =>
    cases t with
    | nil => simp [pairs]
    | cons b t' =>
      have h1 := integral_of_const_on_Ioo (h (a, b) (by rw [pairs_cons_cons]; simp))
      obtain ⟨i1, i2⟩ := ih (by simp) (fun p hp => h p (by rw [pairs_cons_cons]; exact List.mem_cons_of_mem _ hp))
      simp only [List.head_cons, List.getLast_cons_cons] at *
      refine ⟨h1.1.trans i1, ?_⟩
      rw [pairs_cons_cons, List.map_cons, List.sum_cons, ← i2, ← h1.2,
        intervalIntegral.integral_add_adjacent_intervals h1.1 i1]


/-- the empirical cdf is constant between two consecutive points of a sorted list containing the sample -/
theorem ecdf_const_on_gap {u z : List ℝ} (hz : z.Pairwise (· ≤ ·)) (hsub : ∀ x ∈ u, x ∈ z) {p : ℝ × ℝ} (hp : p ∈ pairs z)
    {w : ℝ} (hw : w ∈ Set.uIoo p.1 p.2) : ecdf u w = ecdf u p.1 := by
  have hle : p.1 ≤ p.2 := pairs_rel hz p hp
  rw [Set.uIoo_of_le hle] at hw
  unfold ecdf
  congr 3
  apply List.filter_congr
  intro x hx
  rw [Bool.eq_iff_iff, decide_eq_true_iff, decide_eq_true_iff]
  rcases pairs_no_between hz p hp x (hsub x hx) with h | h
  · exact ⟨fun _ => h, fun _ => h.trans hw.1.le⟩
  · exact ⟨fun h' => absurd (lt_of_le_of_lt (h.trans h') hw.2) (lt_irrefl _), fun h' => h'.trans hw.1.le⟩

/-- the sorted pooled sample runs from the least to the greatest pooled value -/
theorem sort_head_getLast {l : List ℝ} {a b : ℝ} (ha : IsLeast {x | x ∈ l} a) (hb : IsGreatest {x | x ∈ l} b)
    (hne : Hist.sort l ≠ []) : (Hist.sort l).head hne = a ∧ (Hist.sort l).getLast hne = b := by
  have hz := sort_pairwise l
  constructor
  · exact le_antisymm (sorted_head_le hz hne a (mem_sort.mpr ha.1)) (ha.2 (mem_sort.mp (List.head_mem hne)))
  · exact le_antisymm (hb.2 (mem_sort.mp (List.getLast_mem hne))) (sorted_le_getLast hz hne b (mem_sort.mpr hb.1))

/-- **EMD = `∫_a^b |F_u(w) − F_v(w)| dw`** (Wasserstein-1 in its cdf form), `F` the empirical cdfs, `a`/`b` the least/greatest
pooled value (outside `[a, b]` the integrand vanishes).  The integrand is interval integrable. -/
theorem emd_eq_integral {u v : List ℝ} {a b : ℝ} (_hu : u ≠ []) (_hv : v ≠ [])
    (ha : IsLeast {x | x ∈ u ++ v} a) (hb : IsGreatest {x | x ∈ u ++ v} b) :
    IntervalIntegrable (fun w => |ecdf u w - ecdf v w|) volume a b ∧
    emd u v = ∫ w in a..b, |ecdf u w - ecdf v w| := by
  have hz := sort_pairwise (u ++ v)
  have hne : Hist.sort (u ++ v) ≠ [] := List.ne_nil_of_mem (mem_sort.mpr ha.1)
  obtain ⟨h1, h2⟩ := sort_head_getLast ha hb hne
  have key := integral_step (fun w => |ecdf u w - ecdf v w|) (fun w => |ecdf u w - ecdf v w|) _ hne (by
    intro p hp w hw
    rw [ecdf_const_on_gap hz (fun x hx => mem_sort.mpr (List.mem_append_left _ hx)) hp hw,
      ecdf_const_on_gap hz (fun x hx => mem_sort.mpr (List.mem_append_right _ hx)) hp hw])
  rw [h1, h2] at key
  refine ⟨key.1, ?_⟩
  unfold emd
  rw [cdfDistance_eq, key.2]
  apply sum_map_congr
  intro p _
  simp only [wt, if_true, cdfDiff_eq]

/-- **Energy distance = `√(2 ∫_a^b (F_u(w) − F_v(w))² dw)`** (Cramér–von Mises form of the energy distance). -/
theorem energy_eq_integral {u v : List ℝ} {a b : ℝ} (_hu : u ≠ []) (_hv : v ≠ [])
    (ha : IsLeast {x | x ∈ u ++ v} a) (hb : IsGreatest {x | x ∈ u ++ v} b) :
    IntervalIntegrable (fun w => (ecdf u w - ecdf v w) ^ 2) volume a b ∧
    energy u v = Real.sqrt (2 * ∫ w in a..b, (ecdf u w - ecdf v w) ^ 2) := by
  have hz := sort_pairwise (u ++ v)
  have hne : Hist.sort (u ++ v) ≠ [] := List.ne_nil_of_mem (mem_sort.mpr ha.1)
  obtain ⟨h1, h2⟩ := sort_head_getLast ha hb hne
  have key := integral_step (fun w => (ecdf u w - ecdf v w) ^ 2) (fun w => (ecdf u w - ecdf v w) ^ 2) _ hne (by
    intro p hp w hw
    rw [ecdf_const_on_gap hz (fun x hx => mem_sort.mpr (List.mem_append_left _ hx)) hp hw,
      ecdf_const_on_gap hz (fun x hx => mem_sort.mpr (List.mem_append_right _ hx)) hp hw])
  rw [h1, h2] at key
  refine ⟨key.1, ?_⟩
  rw [energy_eq, cdfDistance_eq, key.2]
  congr 2
  apply sum_map_congr
  intro p _
  simp only [wt, cdfDiff_eq, show (2 : ℕ) ≠ 1 by decide, if_false, abs_mul_abs_self]
  ring

/-- non-vacuity of `emd_eq_integral` / `energy_eq_integral` (and of the formula theorems of part 1): for non-empty
samples the least and greatest pooled values exist -/
example {u v : List ℝ} (hu : u ≠ []) : ∃ a b, IsLeast {x | x ∈ u ++ v} a ∧ IsGreatest {x | x ∈ u ++ v} b :=
  exists_least_greatest (by simp [hu])

end Integral

/-! ## 5. Carrier-independent bookkeeping of the JS/KL discretisation (holds literally for IEEE doubles) -/

/-- `np.linspace(lo, hi, num)` has `num` points, for every carrier -/
theorem linspace_length_any {α : Type} [Num α] (lo hi : α) (num : ℕ) : (linspace lo hi num).length = num := by
  unfold linspace
  split
  · simp_all
  · split <;> simp_all

/-- **`num_bins` grid points give `num_bins − 1` cells** (for every carrier): both discretised vectors of JS/KL have
`num_bins − 1` entries, whatever the histograms are. -/
theorem probabilities_length_any {α : Type} [Num α] (es : List α) (cs : List ℕ) (lo hi : α) (nb : ℕ) :
    (probabilities es cs lo hi nb).length = nb - 1 := by
  unfold probabilities
  simp [linspace_length_any]

/-- left of the first edge the histogram cdf is exactly `0`, for every carrier -/
theorem histCdf_below_any {α : Type} [Num α] (e0 : α) (es : List α) (cs : List ℕ) (x : α) (h : Num.lt x e0 = true) :
    histCdf (e0 :: es) cs x = Num.zero := by
  unfold histCdf
  simp [h]

/-- **Specification remark, `num_bins = 2`**: there is a single cell, so for two covered histograms (two non-constant
samples) both discretised vectors are `[1]` and the JS distance is `0` WHATEVER the samples are (also for disjoint
supports) — "JS distance of the binned distributions" is a very weak notion at small `num_bins`. -/
theorem js_hist_two_points {esR esT : List ℝ} {csR csT : List ℕ} (hR : ValidHist esR csR) (hT : ValidHist esT csT)
    {lo hi : ℝ} (hcR : Covered esR lo hi) (hcT : Covered esT lo hi) :
    jsOf (probabilities esR csR lo hi 2) (probabilities esT csT lo hi 2) = some 0 := by
  rw [probabilities_two, probabilities_two,
    histCdf_eq_one hR.len hR.pos (fun e he => (hcR e he).2), histCdf_eq_zero hR.sorted _ (fun e he => (hcR e he).1),
    histCdf_eq_one hT.len hT.pos (fun e he => (hcT e he).2), histCdf_eq_zero hT.sorted _ (fun e he => (hcT e he).1)]
  exact js_self (by norm_num)

end Frouros.C10b

section Axioms
open Frouros.C10b
#print axioms edges_eq_formula
#print axioms counts_eq_formula
#print axioms binsValues_eq_formula
#print axioms hellinger_eq_formula
#print axioms bhattacharyya_eq_formula
#print axioms hi_eq_formula
#print axioms psi_eq_formula
#print axioms psi_FLOOR_eq_formula
#print axioms proportion_isProb
#print axioms emd_eq_formula
#print axioms energy_eq_formula
#print axioms emd_eq_sorted_coupling
#print axioms emd_eq_integral
#print axioms energy_eq_integral
#print axioms histCdf_mono
#print axioms probabilities_sum
#print axioms probabilities_nonneg
#print axioms probabilities_isProb
#print axioms probabilities_mass_le_one
#print axioms kl_ge_mass_diff
#print axioms kl_nonneg_of_mass_le
#print axioms kl_hist_nonneg
#print axioms js_hist_bounds
#print axioms js_hist_bounds_of_covered
#print axioms js_hist_self
#print axioms covered_fails_for_constant_sample
#print axioms kl_negative_witness
#print axioms probabilities_degenerate
#print axioms js_degenerate_pooled_witness
#print axioms oneBin_spec
#print axioms jsSamples_bounds
#print axioms jsSamples_symm
#print axioms jsSamples_self
#print axioms jsSamples_perm
#print axioms klSamples_nonneg
#print axioms klSamples_self
#print axioms klSamples_negative_witness
#print axioms jsSamples_degenerate_witness
#print axioms hellinger_sq_eq_bhattacharyya
#print axioms hellinger_eq_zero_iff
#print axioms emd_energy_const_map
#print axioms emd_energy_affine
#print axioms js_hist_two_points
#print axioms linspace_length_any
#print axioms probabilities_length_any
#print axioms histCdf_below_any
end Axioms
