/-
  C06 — KSWIN and STEPD apply their documented window tests.

  Model: `KSWIN`, `STEPD` (`FrourosModel/Window.lean`); `AccQ`, `CQ` (`FrourosModel/Stats.lean`).

  * Control-flow statements (sliding window contents, counters, warm-up, decision rule of KSWIN,
    queue bookkeeping of STEPD, histories with resets) are proved for EVERY carrier `α` with `[Num α]`
    (no assumption on the operations), hence hold literally for IEEE doubles.
  * The STEPD statistic (`stepd_rule`) is proved at the carrier `ℝ`.
-/
import Mathlib.Tactic.Ring
import Mathlib.Tactic.FieldSimp
import Mathlib.Tactic.Linarith
import Mathlib.Tactic.NormNum
import Mathlib.Tactic.Positivity
import Mathlib.Data.Nat.ModEq
import FrourosProofs.RealNum
import FrourosProofs.Machines

namespace Frouros.C06
open Frouros

/-! ## Generic: sliding windows and histories with resets -/

/-- `lastN cap vs`: the last `min vs.length cap` elements of `vs` (no truncated subtraction:
`min t cap ≤ t`). -/
def lastN {β : Type} (cap : Nat) (vs : List β) : List β := vs.drop (vs.length - min vs.length cap)

theorem lastN_length {β : Type} (cap : Nat) (vs : List β) : (lastN cap vs).length = min vs.length cap := by
  unfold lastN; simp only [List.length_drop]; omega

theorem lastN_of_le {β : Type} (cap : Nat) (vs : List β) (h : vs.length ≤ cap) : lastN cap vs = vs := by
  unfold lastN; rw [Nat.min_eq_left h]; simp

theorem lastN_nil {β : Type} (cap : Nat) : lastN cap ([] : List β) = [] := rfl

/-- `lastN cap vs` is a suffix of `vs`, and the removed prefix is `vs.take (t - min t cap)` -/
theorem take_append_lastN {β : Type} (cap : Nat) (vs : List β) :
    vs.take (vs.length - min vs.length cap) ++ lastN cap vs = vs := by
  unfold lastN; exact List.take_append_drop _ _

/-- sliding by one: appending `v` and keeping the last `cap` elements -/
theorem lastN_append_singleton {β : Type} (cap : Nat) (vs : List β) (v : β) :
    lastN cap (vs ++ [v]) = lastN cap (lastN cap vs ++ [v]) := by
  unfold lastN
  have h1 : vs.length - min vs.length cap ≤ vs.length := by omega
  rw [← List.drop_append_of_le_length h1, List.drop_drop]
  congr 1
  simp only [List.length_drop, List.length_append, List.length_singleton]
  omega

/-- the updates performed since the last `reset` of a history -/
def sinceReset {V : Type} (ops : List (Op V)) : List V :=
  ops.foldl (fun acc op => match op with | .update v => acc ++ [v] | .reset => []) []

theorem sinceReset_append_update {V : Type} (ops : List (Op V)) (v : V) :
    sinceReset (ops ++ [.update v]) = sinceReset ops ++ [v] := by
  simp [sinceReset, List.foldl_append]

theorem sinceReset_append_reset {V : Type} (ops : List (Op V)) :
    sinceReset (ops ++ [.reset]) = [] := by
  simp [sinceReset, List.foldl_append]

theorem sinceReset_map_update {V : Type} (vs : List V) : sinceReset (vs.map Op.update) = vs := by
  induction vs using List.reverseRecOn with
  | nil => rfl
  | append_singleton vs v ih => rw [List.map_append, List.map_singleton, sinceReset_append_update, ih]

theorem sinceReset_after_reset {V : Type} (pre : List (Op V)) (vs : List V) :
    sinceReset (pre ++ [.reset] ++ vs.map Op.update) = vs := by
  induction vs using List.reverseRecOn with
  | nil => simp [sinceReset_append_reset]
  | append_singleton vs v ih =>
    rw [List.map_append, List.map_singleton, ← List.append_assoc, sinceReset_append_update, ih]

/-- feeding a list of values without reset -/
def feed {S V : Type} (M : Machine S V) (vs : List V) : S := vs.foldl M.step M.init

theorem feed_append_singleton {S V : Type} (M : Machine S V) (vs : List V) (v : V) :
    feed M (vs ++ [v]) = M.step (feed M vs) v := by
  simp [feed, List.foldl_append]

theorem run_map_update {S V : Type} (M : Machine S V) (vs : List V) : M.run (vs.map Op.update) = feed M vs := by
  induction vs using List.reverseRecOn with
  | nil => rfl
  | append_singleton vs v ih =>
    rw [feed_append_singleton, ← ih]
    simp [Machine.run, Machine.runFrom, List.foldl_append, Machine.apply]

/-- If `reset` returns every reachable state to `init`, the state after ANY history (with any number
of resets) is the state obtained by feeding just the values that came after the last reset. -/
theorem run_eq_feed_sinceReset {S V : Type} (M : Machine S V)
    (hreset : ∀ s, M.Reachable s → M.reset s = M.init) (ops : List (Op V)) :
    M.run ops = feed M (sinceReset ops) := by
  induction ops using List.reverseRecOn with
  | nil => rfl
  | append_singleton ops op ih =>
    have h : M.run (ops ++ [op]) = M.apply (M.run ops) op := by
      simp [Machine.run, Machine.runFrom, List.foldl_append]
    rw [h]
    cases op with
    | update v => rw [sinceReset_append_update, feed_append_singleton, ← ih]; rfl
    | reset =>
      rw [sinceReset_append_reset]
      exact hreset _ (M.reachable_run ops)

/-! ## KSWIN (every carrier) -/
section KSWIN
variable {α : Type} [Num α]

/-- the state after feeding `(value, tape)` pairs from `init` (no reset) -/
abbrev kfeed (ksP : List α → List α → α) (c : KSWIN.Cfg α) (xs : List (α × List Nat)) : KSWIN.State α :=
  feed (KSWIN.machine ksP c) xs

omit [Num α] in
/-- `deque(maxlen=cap).append` keeps the last `cap` elements -/
theorem push_eq_lastN (cap : Nat) (w : List α) (v : α) : KSWIN.push cap w v = lastN cap (w ++ [v]) := by
  unfold KSWIN.push lastN
  simp only
  split
  · next h => rw [Nat.min_eq_right (Nat.le_of_lt h)]
  · next h => rw [Nat.min_eq_left (Nat.le_of_not_lt h)]; simp

theorem kstep_window (ksP : List α → List α → α) (c : KSWIN.Cfg α) (s : KSWIN.State α) (v : α) (tape : List Nat) :
    (KSWIN.step ksP c s v tape).window = KSWIN.push c.minN s.window v := by
  unfold KSWIN.step; simp only; split <;> rfl

theorem kstep_n (ksP : List α → List α → α) (c : KSWIN.Cfg α) (s : KSWIN.State α) (v : α) (tape : List Nat) :
    (KSWIN.step ksP c s v tape).n = s.n + 1 := by
  unfold KSWIN.step; simp only; split <;> rfl

/-- **kswin_window.**  After feeding `v_1..v_t` (each with any tape) from `init`, the window holds
exactly the last `min t minN` values (oldest first) and `n = t`. -/
theorem kswin_window (ksP : List α → List α → α) (c : KSWIN.Cfg α) (xs : List (α × List Nat)) :
    (kfeed ksP c xs).window = lastN c.minN (xs.map Prod.fst) ∧ (kfeed ksP c xs).n = xs.length := by
  induction xs using List.reverseRecOn with
  | nil => exact ⟨rfl, rfl⟩
  | append_singleton xs x ih =>
    obtain ⟨ihw, ihn⟩ := ih
    unfold kfeed at *
    rw [feed_append_singleton]
    refine ⟨?_, ?_⟩
    · show (KSWIN.step ksP c _ x.1 x.2).window = _
      rw [kstep_window, ihw, push_eq_lastN, List.map_append, List.map_singleton, ← lastN_append_singleton]
    · show (KSWIN.step ksP c _ x.1 x.2).n = _
      rw [kstep_n, ihn]; simp

/-- the literal form asked for: `window = vs.drop (t - min t minN)` -/
theorem kswin_window_drop (ksP : List α → List α → α) (c : KSWIN.Cfg α) (xs : List (α × List Nat)) :
    (kfeed ksP c xs).window = (xs.map Prod.fst).drop (xs.length - min xs.length c.minN) := by
  rw [(kswin_window ksP c xs).1, lastN, List.length_map]

/-- the window never holds more than `minN` values -/
theorem kswin_window_length (ksP : List α → List α → α) (c : KSWIN.Cfg α) (xs : List (α × List Nat)) :
    (kfeed ksP c xs).window.length = min xs.length c.minN := by
  rw [(kswin_window ksP c xs).1, lastN_length, List.length_map]

theorem kswin_reset_eq_init (ksP : List α → List α → α) (c : KSWIN.Cfg α) (s : KSWIN.State α) :
    (KSWIN.machine ksP c).reset s = (KSWIN.machine ksP c).init := rfl

/-- **kswin_window, histories with resets.**  After ANY history of updates and resets the window holds
the last `min t minN` of the `t` values fed since the last reset, and `n = t`. -/
theorem kswin_window_history (ksP : List α → List α → α) (c : KSWIN.Cfg α) (ops : List (Op (α × List Nat))) :
    ((KSWIN.machine ksP c).run ops).window = lastN c.minN ((sinceReset ops).map Prod.fst) ∧
    ((KSWIN.machine ksP c).run ops).n = (sinceReset ops).length := by
  rw [run_eq_feed_sinceReset _ (fun s _ => kswin_reset_eq_init ksP c s)]
  exact kswin_window ksP c (sinceReset ops)

/-- the older part of the full window: its first `minN - numTest` values -/
def older (c : KSWIN.Cfg α) (vs : List α) : List α := (lastN c.minN vs).take (c.minN - c.numTest)
/-- the newest `numTest` values -/
def newest (c : KSWIN.Cfg α) (vs : List α) : List α := (lastN c.minN vs).drop (c.minN - c.numTest)

omit [Num α] in
theorem older_length (c : KSWIN.Cfg α) (vs : List α) (hfull : c.minN ≤ vs.length) :
    (older c vs).length = c.minN - c.numTest := by
  unfold older; rw [List.length_take, lastN_length]; omega

omit [Num α] in
theorem newest_length (c : KSWIN.Cfg α) (vs : List α) (hfull : c.minN ≤ vs.length) (hk : c.numTest ≤ c.minN) :
    (newest c vs).length = c.numTest := by
  unfold newest; rw [List.length_drop, lastN_length]; omega

omit [Num α] in
/-- `newest` is literally the last `numTest` values of the stream, `older` the `minN - numTest` before them -/
theorem older_append_newest (c : KSWIN.Cfg α) (vs : List α) : older c vs ++ newest c vs = lastN c.minN vs := by
  unfold older newest; exact List.take_append_drop _ _

/-- one step from a state whose window is `w`, in closed form -/
theorem kstep_drift (ksP : List α → List α → α) (c : KSWIN.Cfg α) (s : KSWIN.State α) (v : α) (tape : List Nat) :
    (KSWIN.step ksP c s v tape).drift =
      (let w := KSWIN.push c.minN s.window v
       if c.minN ≤ w.length then
         Num.le (ksP (tape.map (fun i => (w.take (w.length - c.numTest)).getD i Num.zero)) (w.drop (w.length - c.numTest))) c.alpha
       else false) := by
  unfold KSWIN.step; simp only; split <;> rfl

/-- **kswin_rule.**  At the `t`-th update since `init` (`vs = v_1..v_t` the values so far, the last one
drawn with index tape `tape`), if the window is full (`minN ≤ t`):
`drift = (ksP sample newest ≤ alpha)` where `sample` is read off the older part of the window at the
indices of the tape.  This is the literal transcription of the model step (it also holds, for the same
junk reason in model and statement, when `numTest > minN` where `minN - numTest` truncates to `0`, or when a
tape index is out of range and `getD` returns its default).  `kswin_rule_junkfree` below is the statement
under the hypotheses that exclude both (`numTest ≤ minN`, guaranteed by the constructor check
`numTest ≤ minN / 2`; valid tape), where `newest` is the last `numTest` stream values and every sample
element is a genuine element of `older`. -/
theorem kswin_rule (ksP : List α → List α → α) (c : KSWIN.Cfg α) (xs : List (α × List Nat)) (v : α) (tape : List Nat)
    (hfull : c.minN ≤ xs.length + 1) :
    (kfeed ksP c (xs ++ [(v, tape)])).drift =
      Num.le (ksP (tape.map (fun i => (older c (xs.map Prod.fst ++ [v])).getD i Num.zero))
                  (newest c (xs.map Prod.fst ++ [v]))) c.alpha := by
  unfold kfeed
  rw [feed_append_singleton]
  show (KSWIN.step ksP c _ v tape).drift = _
  rw [kstep_drift]
  have hw := (kswin_window ksP c xs).1
  unfold kfeed at hw
  rw [hw, push_eq_lastN, ← lastN_append_singleton]
  have hlen : (lastN c.minN (xs.map Prod.fst ++ [v])).length = c.minN := by
    rw [lastN_length]; simp; omega
  simp only [hlen, Nat.le_refl, if_true]
  rfl

/-- the `getD` default is never used when the tape is a valid draw (indices into the older part):
every sample element is a genuine element of `older`, namely `older[tape[j]]`. -/
theorem kswin_sample_genuine (older : List α) (tape : List Nat) (hvalid : ∀ i ∈ tape, i < older.length) :
    (tape.map (fun i => older.getD i Num.zero)).map some = tape.map (fun i => older[i]?) := by
  rw [List.map_map]
  apply List.map_congr_left
  intro i hi
  have := hvalid i hi
  simp [List.getD_eq_getElem?_getD, List.getElem?_eq_getElem this]

/-- **kswin warm-up.**  While fewer than `minN` values have been seen, no drift is reported. -/
theorem kswin_warmup (ksP : List α → List α → α) (c : KSWIN.Cfg α) (xs : List (α × List Nat))
    (hshort : xs.length < c.minN) : (kfeed ksP c xs).drift = false := by
  induction xs using List.reverseRecOn with
  | nil => rfl
  | append_singleton xs x _ =>
    unfold kfeed
    rw [feed_append_singleton]
    show (KSWIN.step ksP c _ x.1 x.2).drift = _
    rw [kstep_drift]
    have hw := (kswin_window ksP c xs).1
    unfold kfeed at hw
    rw [hw, push_eq_lastN, ← lastN_append_singleton]
    have hlen : (lastN c.minN (xs.map Prod.fst ++ [x.1])).length = xs.length + 1 := by
      rw [lastN_length]; simp at hshort ⊢; omega
    simp only [hlen]
    rw [if_neg]
    simp at hshort; omega

/-- a valid draw of `np.random.choice(older, size = numTest, replace = False)`, as an index tape -/
def ValidTape (numTest olderLen : Nat) (tape : List Nat) : Prop :=
  tape.length = numTest ∧ tape.Nodup ∧ ∀ i ∈ tape, i < olderLen

/-- **kswin_all_reject.**  If EVERY admissible sub-sample of the older part rejects (`p ≤ alpha`), drift is
reported whatever (valid) tape the random generator produced. -/
theorem kswin_all_reject (ksP : List α → List α → α) (c : KSWIN.Cfg α) (xs : List (α × List Nat)) (v : α) (tape : List Nat)
    (hfull : c.minN ≤ xs.length + 1)
    (htape : ValidTape c.numTest (older c (xs.map Prod.fst ++ [v])).length tape)
    (hall : ∀ tp, ValidTape c.numTest (older c (xs.map Prod.fst ++ [v])).length tp →
      Num.le (ksP (tp.map (fun i => (older c (xs.map Prod.fst ++ [v])).getD i Num.zero))
                  (newest c (xs.map Prod.fst ++ [v]))) c.alpha = true) :
    (kfeed ksP c (xs ++ [(v, tape)])).drift = true := by
  rw [kswin_rule ksP c xs v tape hfull]; exact hall tape htape

/-- **kswin_none_reject.**  Dually: if NO admissible sub-sample rejects, no drift is reported whatever
(valid) tape was drawn. -/
theorem kswin_none_reject (ksP : List α → List α → α) (c : KSWIN.Cfg α) (xs : List (α × List Nat)) (v : α) (tape : List Nat)
    (hfull : c.minN ≤ xs.length + 1)
    (htape : ValidTape c.numTest (older c (xs.map Prod.fst ++ [v])).length tape)
    (hnone : ∀ tp, ValidTape c.numTest (older c (xs.map Prod.fst ++ [v])).length tp →
      Num.le (ksP (tp.map (fun i => (older c (xs.map Prod.fst ++ [v])).getD i Num.zero))
                  (newest c (xs.map Prod.fst ++ [v]))) c.alpha = false) :
    (kfeed ksP c (xs ++ [(v, tape)])).drift = false := by
  rw [kswin_rule ksP c xs v tape hfull]; exact hnone tape htape

/-- **kswin_deterministic.**  The whole state after an update is determined by the VALUES fed so far and
the tape of the last update only: earlier tapes (earlier random draws) leave no trace.  (That the run is
*a function* of (stream, tapes) is built into the model: `kfeed` is a function.) -/
theorem kswin_deterministic (ksP : List α → List α → α) (c : KSWIN.Cfg α) (xs ys : List (α × List Nat)) (v : α) (tape : List Nat)
    (hvals : xs.map Prod.fst = ys.map Prod.fst) :
    kfeed ksP c (xs ++ [(v, tape)]) = kfeed ksP c (ys ++ [(v, tape)]) := by
  have hx := kswin_window ksP c xs
  have hy := kswin_window ksP c ys
  have hlen : xs.length = ys.length := by simpa using congrArg List.length hvals
  unfold kfeed at *
  rw [feed_append_singleton, feed_append_singleton]
  show KSWIN.step ksP c _ v tape = KSWIN.step ksP c _ v tape
  have hwin : (feed (KSWIN.machine ksP c) xs).window = (feed (KSWIN.machine ksP c) ys).window := by
    rw [hx.1, hy.1, hvals]
  have hn : (feed (KSWIN.machine ksP c) xs).n = (feed (KSWIN.machine ksP c) ys).n := by
    rw [hx.2, hy.2, hlen]
  unfold KSWIN.step
  simp only [hwin, hn]

omit [Num α] in
/-- with `numTest ≤ minN ≤ t` (no truncated subtraction anywhere) `newest` is literally the last `numTest`
values of the stream -/
theorem newest_eq_lastN (c : KSWIN.Cfg α) (vs : List α) (hfull : c.minN ≤ vs.length) (hk : c.numTest ≤ c.minN) :
    newest c vs = lastN c.numTest vs := by
  unfold newest lastN
  rw [List.drop_drop]
  congr 1
  omega

omit [Num α] in
/-- and `older` is the block of `minN - numTest` values just before them -/
theorem older_eq (c : KSWIN.Cfg α) (vs : List α) (hfull : c.minN ≤ vs.length) :
    older c vs = (vs.drop (vs.length - c.minN)).take (c.minN - c.numTest) := by
  unfold older lastN
  rw [Nat.min_eq_right hfull]

/-- **kswin_rule, junk-free form.**  Under the constraints the constructor enforces (`numTest ≤ minN`) and for
a valid draw (`ValidTape`: `numTest` distinct indices into the older part), at a step with a full window
(`minN ≤ t`): `drift = (ksP sample (last numTest values) ≤ alpha)` where `sample` is exactly the list of
elements `older[tape[j]]` (`j < numTest`) — no `getD` default, no truncated subtraction. -/
theorem kswin_rule_junkfree (ksP : List α → List α → α) (c : KSWIN.Cfg α) (xs : List (α × List Nat)) (v : α) (tape : List Nat)
    (hfull : c.minN ≤ xs.length + 1) (hk : c.numTest ≤ c.minN)
    (htape : ValidTape c.numTest (older c (xs.map Prod.fst ++ [v])).length tape) :
    ∃ sample : List α,
      sample.map some = tape.map (fun i => (older c (xs.map Prod.fst ++ [v]))[i]?) ∧
      sample.length = c.numTest ∧
      (kfeed ksP c (xs ++ [(v, tape)])).drift =
        Num.le (ksP sample (lastN c.numTest (xs.map Prod.fst ++ [v]))) c.alpha := by
  refine ⟨tape.map (fun i => (older c (xs.map Prod.fst ++ [v])).getD i Num.zero),
    kswin_sample_genuine _ _ htape.2.2, by rw [List.length_map]; exact htape.1, ?_⟩
  rw [kswin_rule ksP c xs v tape hfull, newest_eq_lastN c _ (by simp; omega) hk]

/-- histories with resets: the state after any history is the state after feeding the updates that came
after the last reset, so `kswin_rule`, `kswin_warmup`, … apply with `xs := sinceReset ops`. -/
theorem kswin_history (ksP : List α → List α → α) (c : KSWIN.Cfg α) (ops : List (Op (α × List Nat))) :
    (KSWIN.machine ksP c).run ops = kfeed ksP c (sinceReset ops) :=
  run_eq_feed_sinceReset _ (fun s _ => kswin_reset_eq_init ksP c s) ops

end KSWIN

/-! ## The circular queue / accuracy queue refinement (what STEPD needs) -/
section Queue
variable {β : Type}

theorem ring_index_ne {n f i k : Nat} (hik : i < k) (hk : k < n) : (f + i) % n ≠ (f + k) % n := by
  intro h
  have h1 : i ≡ k [MOD n] := Nat.ModEq.add_left_cancel' f h
  have h2 : i % n = k % n := h1
  rw [Nat.mod_eq_of_lt (by omega), Nat.mod_eq_of_lt hk] at h2
  omega

/-- Representation invariant: the ring buffer `q` of capacity `n` holds the list `l` (oldest first). -/
structure QInv (n : Nat) (q : CQ β) (l : List β) : Prop where
  pos : 0 < n
  maxLen : q.maxLen = n
  bufLen : q.buf.length = n
  count : q.count = l.length
  le : l.length ≤ n
  firstLt : q.first < n
  next : q.nextLast = (q.first + q.count) % n
  elems : ∀ i (h : i < l.length), q.buf.getD ((q.first + i) % n) none = some l[i]

theorem qinv_init (n : Nat) (h : 0 < n) : QInv n (CQ.init n : CQ β) [] := by
  refine ⟨h, rfl, by simp [CQ.init], rfl, by simp, h, ?_, by simp⟩
  simp [CQ.nextLast, CQ.init]

/-- the model's own abstraction function `toList` returns exactly `l` -/
theorem qinv_toList {n : Nat} {q : CQ β} {l : List β} (h : QInv n q l) : q.toList = l.map some := by
  unfold CQ.toList
  apply List.ext_getElem
  · simp [h.count]
  · intro i h1 h2
    simp only [List.getElem_map, List.getElem_range, h.maxLen]
    simp only [List.length_map, List.length_range] at h1 h2
    exact h.elems i h2

theorem qinv_dequeue {n : Nat} {q : CQ β} {l : List β} (h : QInv n q l) (hne : 0 < l.length) :
    q.buf.getD q.first none = some l[0] ∧
    QInv n { q with first := (q.first + 1) % q.maxLen, count := q.count - 1 } l.tail := by
  refine ⟨?_, ?_⟩
  · have := h.elems 0 hne
    rwa [Nat.add_zero, Nat.mod_eq_of_lt h.firstLt] at this
  · refine ⟨h.pos, h.maxLen, h.bufLen, ?_, ?_, ?_, ?_, ?_⟩
    · simp [h.count]
    · have := h.le; simp; omega
    · simp only [h.maxLen]; exact Nat.mod_lt _ h.pos
    · show q.nextLast = ((q.first + 1) % q.maxLen + (q.count - 1)) % n
      rw [h.next, h.maxLen, Nat.mod_add_mod]
      congr 1
      have := h.count; omega
    · intro i hi
      show q.buf.getD (((q.first + 1) % q.maxLen + i) % n) none = _
      have hi' : i + 1 < l.length := by simp at hi; omega
      have := h.elems (i + 1) hi'
      rw [h.maxLen, Nat.mod_add_mod, show q.first + 1 + i = q.first + (i + 1) by omega, this]
      simp

theorem qinv_push {n : Nat} {q : CQ β} {l : List β} (h : QInv n q l) (hlt : l.length < n) (v : β) :
    QInv n { q with last := some q.nextLast, buf := q.buf.set q.nextLast (some v), count := q.count + 1 }
      (l ++ [v]) := by
  have hnl : q.nextLast < q.buf.length := by rw [h.next, h.bufLen]; exact Nat.mod_lt _ h.pos
  refine ⟨h.pos, h.maxLen, by simp [h.bufLen], by simp [h.count], by simp; omega, h.firstLt, ?_, ?_⟩
  · show (q.nextLast + 1) % q.maxLen = (q.first + (q.count + 1)) % n
    rw [h.next, h.maxLen, Nat.mod_add_mod, Nat.add_assoc]
  · intro i hi
    show (q.buf.set q.nextLast (some v)).getD ((q.first + i) % n) none = _
    rw [List.getD_eq_getElem?_getD]
    by_cases hil : i < l.length
    · have hne : q.nextLast ≠ (q.first + i) % n := by
        rw [h.next, h.count]; exact (ring_index_ne hil hlt).symm
      rw [List.getElem?_set_ne hne, ← List.getD_eq_getElem?_getD, h.elems i hil, List.getElem_append_left hil]
    · have hi' : i = l.length := by simp at hi; omega
      subst hi'
      have : (q.first + l.length) % n = q.nextLast := by rw [h.next, h.count]
      rw [this, List.getElem?_set_self hnl]
      simp

/-- invariant of the accuracy queue: additionally `numTrue` counts the `true`s held -/
structure AInv (n : Nat) (a : AccQ) (l : List Bool) : Prop where
  q : QInv n a.q l
  numTrue : a.numTrue = l.count true

theorem ainv_init (n : Nat) (h : 0 < n) : AInv n (AccQ.init n) [] := ⟨qinv_init n h, rfl⟩

/-- `AccuracyQueue.enqueue` never fails on a queue of positive capacity and slides the window by one -/
theorem ainv_enqueue {n : Nat} {a : AccQ} {l : List Bool} (h : AInv n a l) (v : Bool) :
    ∃ a', a.enqueue v = .ok a' ∧ AInv n a' (lastN n (l ++ [v])) := by
  unfold AccQ.enqueue
  by_cases hfull : a.q.isFull = true
  · have hlen : l.length = n := by
      have := hfull; simp [CQ.isFull] at this; rw [h.q.count, h.q.maxLen] at this; exact this
    have hpos : 0 < l.length := by have := h.q.pos; omega
    have hne : a.q.isEmpty = false := by
      unfold CQ.isEmpty; rw [h.q.count]; exact beq_false_of_ne (by omega)
    obtain ⟨he, hq'⟩ := qinv_dequeue h.q hpos
    have hq'' := qinv_push hq' (by simp; omega) v
    simp only [hfull, if_true, AccQ.dequeue, CQ.dequeue, hne]
    refine ⟨_, rfl, ?_⟩
    have hl : lastN n (l ++ [v]) = l.tail ++ [v] := by
      unfold lastN
      simp only [List.length_append, List.length_singleton, hlen]
      rw [show n + 1 - min (n + 1) n = 1 by omega]
      cases l with
      | nil => simp at hpos
      | cons b tl => simp
    rw [hl]
    refine ⟨hq'', ?_⟩
    simp only [he, h.numTrue]
    cases l with
    | nil => simp at hpos
    | cons b tl => cases b <;> cases v <;> simp
  · have hlen : l.length < n := by
      have := hfull; simp [CQ.isFull] at this; rw [h.q.count, h.q.maxLen] at this
      have := h.q.le; omega
    simp only [hfull]
    refine ⟨_, rfl, ?_⟩
    rw [lastN_of_le _ _ (by simp; omega)]
    refine ⟨qinv_push h.q hlen v, ?_⟩
    simp only [h.numTrue]
    cases v <;> simp [List.count_append]
end Queue

/-! ## STEPD: bookkeeping and decision table (every carrier) -/
section STEPD
variable {α : Type} [Num α]

/-- the state after feeding the booleans `bs` from `init` (no reset) -/
abbrev sfeed (sf : α → α) (c : STEPD.Cfg α) (bs : List Bool) : STEPD.State := feed (STEPD.machine sf c) bs

/-- the p-value the model computes from its four counters (`none` = statistic `-inf`, p-value `1`) -/
def pval (sf : α → α) (n ct nw cw : Nat) : α :=
  match STEPD.statistic (α := α) n ct nw cw with
  | none => Num.one
  | some t => sf t

/-- one step, in closed form, when the enqueue succeeds -/
theorem sstep_ok (sf : α → α) (c : STEPD.Cfg α) (s : STEPD.State) (v : Bool) (win : AccQ)
    (h : s.win.enqueue v = .ok win) :
    STEPD.step sf c s v =
      { s with
        n := s.n + 1, correctTotal := s.correctTotal + (if v then 1 else 0), win := win,
        drift := decide (2 * c.minN ≤ s.n + 1) &&
          Num.lt (pval sf (s.n + 1) (s.correctTotal + (if v then 1 else 0)) win.q.count win.numTrue) c.alphaD,
        warning := decide (2 * c.minN ≤ s.n + 1) &&
          (!Num.lt (pval sf (s.n + 1) (s.correctTotal + (if v then 1 else 0)) win.q.count win.numTrue) c.alphaD &&
            Num.lt (pval sf (s.n + 1) (s.correctTotal + (if v then 1 else 0)) win.q.count win.numTrue) c.alphaW) } := by
  unfold STEPD.step pval
  simp only [h]
  by_cases h2 : 2 * c.minN ≤ s.n + 1
  · simp only [h2, if_true, decide_true, Bool.true_and]
    split <;> split <;> simp_all
  · simp only [h2, if_false, decide_false, Bool.false_and]

/-- the full refinement invariant of a STEPD run -/
structure SInv (c : STEPD.Cfg α) (s : STEPD.State) (bs : List Bool) : Prop where
  n : s.n = bs.length
  ct : s.correctTotal = bs.count true
  err : s.err = none
  win : AInv c.minN s.win (lastN c.minN bs)

theorem stepd_inv (sf : α → α) (c : STEPD.Cfg α) (hpos : 0 < c.minN) (bs : List Bool) :
    SInv c (sfeed sf c bs) bs := by
  induction bs using List.reverseRecOn with
  | nil => exact ⟨rfl, rfl, rfl, ainv_init _ hpos⟩
  | append_singleton bs b ih =>
    unfold sfeed at *
    rw [feed_append_singleton]
    show SInv c (STEPD.step sf c _ b) _
    obtain ⟨win, hok, hwin⟩ := ainv_enqueue ih.win b
    rw [sstep_ok sf c _ b win hok]
    refine ⟨?_, ?_, ih.err, ?_⟩
    · simp [ih.n]
    · simp only [ih.ct]; cases b <;> simp [List.count_append]
    · rw [lastN_append_singleton]; exact hwin

/-- **stepd_counts.**  After `t` updates `b_1..b_t` from `init` (capacity `0 < minN`, no reset):
`n = t`, `correctTotal = #true` among all, the queue holds `min t minN` entries, namely (through the
model's own abstraction `CQ.toList`) the last `min t minN` booleans, `numTrue` is the number of `true`
among them, and no error has been recorded. -/
theorem stepd_counts (sf : α → α) (c : STEPD.Cfg α) (hpos : 0 < c.minN) (bs : List Bool) :
    (sfeed sf c bs).n = bs.length ∧
    (sfeed sf c bs).correctTotal = bs.count true ∧
    (sfeed sf c bs).win.q.count = min bs.length c.minN ∧
    (sfeed sf c bs).win.numTrue = (lastN c.minN bs).count true ∧
    (sfeed sf c bs).win.q.toList = (lastN c.minN bs).map some ∧
    (sfeed sf c bs).err = none := by
  have h := stepd_inv sf c hpos bs
  exact ⟨h.n, h.ct, by rw [h.win.q.count, lastN_length], h.win.numTrue, qinv_toList h.win.q, h.err⟩

/-- The p-value of the model after the stream `bs`, as a function of the STREAM (not of the state):
the four counters are `t`, `#true`, `min t minN`, `#true` among the last `min t minN`. -/
def streamP (sf : α → α) (c : STEPD.Cfg α) (bs : List Bool) : α :=
  pval sf bs.length (bs.count true) (min bs.length c.minN) ((lastN c.minN bs).count true)

/-- **STEPD decision table (every carrier).**  For every stream (`0 < minN`):
`drift ⇔ 2·minN ≤ t ∧ p < alphaD` and `warning ⇔ 2·minN ≤ t ∧ ¬ p < alphaD ∧ p < alphaW`, with `p` the
p-value computed from the stream counters. -/
theorem stepd_flags (sf : α → α) (c : STEPD.Cfg α) (hpos : 0 < c.minN) (bs : List Bool) :
    (sfeed sf c bs).drift = (decide (2 * c.minN ≤ bs.length) && Num.lt (streamP sf c bs) c.alphaD) ∧
    (sfeed sf c bs).warning = (decide (2 * c.minN ≤ bs.length) &&
        (!Num.lt (streamP sf c bs) c.alphaD && Num.lt (streamP sf c bs) c.alphaW)) := by
  induction bs using List.reverseRecOn with
  | nil =>
    have : ¬ 2 * c.minN ≤ 0 := by omega
    simp [sfeed, feed, STEPD.machine, STEPD.init, this]
  | append_singleton bs b _ =>
    have ih := stepd_inv sf c hpos bs
    have ih' := stepd_inv sf c hpos (bs ++ [b])
    unfold sfeed at *
    rw [feed_append_singleton] at ih' ⊢
    change SInv c (STEPD.step sf c _ b) _ at ih'
    show (STEPD.step sf c _ b).drift = _ ∧ (STEPD.step sf c _ b).warning = _
    obtain ⟨win, hok, _⟩ := ainv_enqueue ih.win b
    rw [sstep_ok sf c _ b win hok] at ih' ⊢
    have hn := ih'.n
    have hct := ih'.ct
    have hcnt := ih'.win.q.count
    have hnt := ih'.win.numTrue
    simp only at hn hct hcnt hnt
    rw [lastN_length] at hcnt
    simp only [streamP, hn, hct, hcnt, hnt, and_self]

/-- **stepd warm-up.**  For `t < 2·minN` both flags are false. -/
theorem stepd_warmup (sf : α → α) (c : STEPD.Cfg α) (hpos : 0 < c.minN) (bs : List Bool)
    (hshort : bs.length < 2 * c.minN) :
    (sfeed sf c bs).drift = false ∧ (sfeed sf c bs).warning = false := by
  obtain ⟨hd, hw⟩ := stepd_flags sf c hpos bs
  have : ¬ 2 * c.minN ≤ bs.length := by omega
  rw [hd, hw]; simp [this]

/-- drift and warning are never raised together -/
theorem stepd_exclusive (sf : α → α) (c : STEPD.Cfg α) (hpos : 0 < c.minN) (bs : List Bool) :
    ¬ ((sfeed sf c bs).drift = true ∧ (sfeed sf c bs).warning = true) := by
  obtain ⟨hd, hw⟩ := stepd_flags sf c hpos bs
  rw [hd, hw]
  cases Num.lt (streamP sf c bs) c.alphaD <;> simp

/-- every reachable state (any history of updates and resets) has no recorded error and a queue of
capacity `minN`; this is what makes `reset` return to `init` -/
theorem stepd_reachable_inv (sf : α → α) (c : STEPD.Cfg α) (hpos : 0 < c.minN) {s : STEPD.State}
    (h : (STEPD.machine sf c).Reachable s) : s.err = none ∧ s.win.q.maxLen = c.minN := by
  refine Machine.invariant (STEPD.machine sf c) (P := fun s => s.err = none ∧ s.win.q.maxLen = c.minN)
    ⟨rfl, rfl⟩ ?_ ?_ h
  · rintro s v ⟨he, hm⟩
    show (STEPD.step sf c s v).err = none ∧ (STEPD.step sf c s v).win.q.maxLen = c.minN
    have hen : ∃ win, s.win.enqueue v = .ok win ∧ win.q.maxLen = c.minN := by
      unfold AccQ.enqueue
      by_cases hfull : s.win.q.isFull = true
      · have hcnt : s.win.q.count = c.minN := by
          have := hfull; simp [CQ.isFull] at this; rw [hm] at this; exact this
        have hne : s.win.q.isEmpty = false := by
          unfold CQ.isEmpty; rw [hcnt]; exact beq_false_of_ne (by omega)
        simp only [hfull, if_true, AccQ.dequeue, CQ.dequeue, hne]
        exact ⟨_, rfl, hm⟩
      · simp only [hfull]
        exact ⟨_, rfl, hm⟩
    obtain ⟨win, hok, hwm⟩ := hen
    rw [sstep_ok sf c s v win hok]
    exact ⟨he, hwm⟩
  · rintro s ⟨he, hm⟩
    exact ⟨he, hm⟩

theorem stepd_reset_eq_init (sf : α → α) (c : STEPD.Cfg α) (hpos : 0 < c.minN) (s : STEPD.State)
    (h : (STEPD.machine sf c).Reachable s) : (STEPD.machine sf c).reset s = (STEPD.machine sf c).init := by
  obtain ⟨he, hm⟩ := stepd_reachable_inv sf c hpos h
  show STEPD.reset s = STEPD.init c
  unfold STEPD.reset STEPD.init AccQ.clear AccQ.init CQ.clear CQ.init
  simp only [he, hm]

/-- **histories with resets.**  After ANY history the state is the one obtained by feeding the booleans
that came after the last reset; hence `stepd_counts`, `stepd_flags`, `stepd_rule` hold for arbitrary
histories with `bs := sinceReset ops`. -/
theorem stepd_history (sf : α → α) (c : STEPD.Cfg α) (hpos : 0 < c.minN) (ops : List (Op Bool)) :
    (STEPD.machine sf c).run ops = sfeed sf c (sinceReset ops) :=
  run_eq_feed_sinceReset _ (stepd_reset_eq_init sf c hpos) ops

/-- **Why `0 < minN` is needed** (`stepd_counts_witness`): with `minN = 0` the very first enqueue raises
`EmptyQueueError` (the queue is at once full and empty); the model records the error, `n` has been
incremented but `correct_total` has not. -/
theorem stepd_counts_witness (sf : α → α) (aD aW : α) :
    (sfeed sf ⟨aD, aW, 0⟩ [true]).err = some Err.emptyQueue ∧
    (sfeed sf ⟨aD, aW, 0⟩ [true]).n = 1 ∧
    (sfeed sf ⟨aD, aW, 0⟩ [true]).correctTotal = 0 := ⟨rfl, rfl, rfl⟩

end STEPD

/-! ## STEPD: the statistic (carrier `ℝ`) -/
section STEPDReal

/-- `1/n_o + 1/n_w` with `n_o = t - n_w` (a REAL subtraction: no truncation) -/
noncomputable def specInv (t nw : ℕ) : ℝ := 1 / ((t : ℝ) - nw) + 1 / (nw : ℝ)
/-- pooled accuracy `p̂ = (c_o + c_w) / t` -/
noncomputable def specP (t co cw : ℕ) : ℝ := ((co : ℝ) + cw) / t
/-- the documented STEPD statistic
`T = (|c_o/n_o - c_w/n_w| - 0.5 (1/n_o + 1/n_w)) / √(p̂ (1-p̂) (1/n_o + 1/n_w))` -/
noncomputable def specT (t nw co cw : ℕ) : ℝ :=
  (|(co : ℝ) / ((t : ℝ) - nw) - (cw : ℝ) / nw| - 0.5 * specInv t nw) /
    √(specP t co cw * (1 - specP t co cw) * specInv t nw)

/-- the model's `_calculate_statistic` on counters `n = t`, `correct_total = co + cw`, window `(nw, cw)` -/
theorem statistic_real (t nw co cw : ℕ) (hnw : 0 < nw) (ht : 2 * nw ≤ t) (hle : co + cw ≤ t) :
    STEPD.statistic (α := ℝ) t (co + cw) nw cw =
      if specP t co cw * (1 - specP t co cw) = 0 then none else some (specT t nw co cw) := by
  have hnwR : (0 : ℝ) < nw := by exact_mod_cast hnw
  have h2 : (nw : ℝ) * 2 ≤ t := by exact_mod_cast (by omega : nw * 2 ≤ t)
  have hno : (0 : ℝ) < (t : ℝ) - nw := by linarith
  have htR : (0 : ℝ) < t := by linarith
  have hinv : 0 < specInv t nw := by unfold specInv; positivity
  have hp0 : 0 ≤ specP t co cw := by unfold specP; positivity
  have hp1 : specP t co cw ≤ 1 := by
    unfold specP; rw [div_le_one htR]; exact_mod_cast hle
  have hcast1 : ((t - nw : ℕ) : ℝ) = (t : ℝ) - nw := Nat.cast_sub (by omega)
  have hcast2 : co + cw - cw = co := by omega
  have hden : √(((co + cw : ℕ) : ℝ) / t * (1 - ((co + cw : ℕ) : ℝ) / t) * (1 / ((t : ℝ) - nw) + 1 / (nw : ℝ))) =
      √(specP t co cw * (1 - specP t co cw) * specInv t nw) := by
    unfold specP specInv; push_cast; rfl
  unfold STEPD.statistic
  simp only [RealNum.ofNat_eq, RealNum.one_eq, RealNum.zero_eq, RealNum.ofDec_eq, RealNum.sqrt_eq,
    RealNum.abs_eq, hcast1, hcast2, hden]
  by_cases hp : specP t co cw * (1 - specP t co cw) = 0
  · have : Num.beq (0 : ℝ) (0 : ℝ) = true := by rw [RealNum.beq_iff]
    simp only [hp, zero_mul, Real.sqrt_zero, this, if_true]
  · have hpos : 0 < specP t co cw * (1 - specP t co cw) :=
      lt_of_le_of_ne (mul_nonneg hp0 (by linarith)) (Ne.symm hp)
    have hsq : 0 < √(specP t co cw * (1 - specP t co cw) * specInv t nw) :=
      Real.sqrt_pos.mpr (mul_pos hpos hinv)
    have : ¬ Num.beq (√(specP t co cw * (1 - specP t co cw) * specInv t nw)) (0 : ℝ) = true := by
      rw [RealNum.beq_iff]; exact ne_of_gt hsq
    simp only [this, hp, if_false]
    unfold specT specInv
    norm_num

/-- number of correct predictions among the newest `min t minN` -/
def cwOf (minN : ℕ) (bs : List Bool) : ℕ := (lastN minN bs).count true
/-- number of correct predictions among all the earlier ones -/
def coOf (minN : ℕ) (bs : List Bool) : ℕ := (bs.take (bs.length - min bs.length minN)).count true

theorem coOf_add_cwOf (minN : ℕ) (bs : List Bool) : coOf minN bs + cwOf minN bs = bs.count true := by
  unfold coOf cwOf
  rw [← List.count_append, take_append_lastN]

/-- the p-value of the model in terms of the stream, for `t ≥ 2·minN` -/
theorem stepd_pvalue (sf : ℝ → ℝ) (c : STEPD.Cfg ℝ) (hpos : 0 < c.minN) (bs : List Bool)
    (ht : 2 * c.minN ≤ bs.length) :
    streamP sf c bs =
      if specP bs.length (coOf c.minN bs) (cwOf c.minN bs) * (1 - specP bs.length (coOf c.minN bs) (cwOf c.minN bs)) = 0
      then 1 else sf (specT bs.length c.minN (coOf c.minN bs) (cwOf c.minN bs)) := by
  unfold streamP pval
  have hmin : min bs.length c.minN = c.minN := by omega
  have hle : coOf c.minN bs + cwOf c.minN bs ≤ bs.length := by
    rw [coOf_add_cwOf]; exact List.count_le_length
  rw [hmin, ← coOf_add_cwOf c.minN bs]
  rw [show List.count true (lastN c.minN bs) = cwOf c.minN bs from rfl,
    statistic_real _ _ _ _ hpos ht hle]
  split_ifs <;> simp

/-- **stepd_rule.**  For `t ≥ 2·minN` (`n_w = minN`, `n_o = t - minN`, `c_w`/`c_o` the numbers of correct
predictions among the last `minN` / all earlier ones), when the pooled variance `p̂(1-p̂)` is non-zero:
`drift ⇔ sf T < alphaD` and `warning ⇔ ¬ drift ∧ sf T < alphaW`, `T` the documented statistic. -/
theorem stepd_rule (sf : ℝ → ℝ) (c : STEPD.Cfg ℝ) (hpos : 0 < c.minN) (bs : List Bool)
    (ht : 2 * c.minN ≤ bs.length)
    (hvar : specP bs.length (coOf c.minN bs) (cwOf c.minN bs) * (1 - specP bs.length (coOf c.minN bs) (cwOf c.minN bs)) ≠ 0) :
    ((sfeed sf c bs).drift = true ↔ sf (specT bs.length c.minN (coOf c.minN bs) (cwOf c.minN bs)) < c.alphaD) ∧
    ((sfeed sf c bs).warning = true ↔
      ¬ (sfeed sf c bs).drift = true ∧ sf (specT bs.length c.minN (coOf c.minN bs) (cwOf c.minN bs)) < c.alphaW) := by
  obtain ⟨hd, hw⟩ := stepd_flags sf c hpos bs
  rw [hd, hw, stepd_pvalue sf c hpos bs ht, if_neg hvar]
  simp [ht]

/-- **stepd_rule, degenerate case.**  For `t ≥ 2·minN` with `p̂(1-p̂) = 0` (all predictions so far correct, or
all wrong) the p-value is `1`: `drift ⇔ 1 < alphaD`, `warning ⇔ ¬ drift ∧ 1 < alphaW`. -/
theorem stepd_rule_degenerate (sf : ℝ → ℝ) (c : STEPD.Cfg ℝ) (hpos : 0 < c.minN) (bs : List Bool)
    (ht : 2 * c.minN ≤ bs.length)
    (hvar : specP bs.length (coOf c.minN bs) (cwOf c.minN bs) * (1 - specP bs.length (coOf c.minN bs) (cwOf c.minN bs)) = 0) :
    ((sfeed sf c bs).drift = true ↔ 1 < c.alphaD) ∧
    ((sfeed sf c bs).warning = true ↔ ¬ (sfeed sf c bs).drift = true ∧ 1 < c.alphaW) := by
  obtain ⟨hd, hw⟩ := stepd_flags sf c hpos bs
  rw [hd, hw, stepd_pvalue sf c hpos bs ht, if_pos hvar]
  simp [ht]

/-- in particular no flag at all in the degenerate case when both levels are at most `1` -/
theorem stepd_degenerate_silent (sf : ℝ → ℝ) (c : STEPD.Cfg ℝ) (hpos : 0 < c.minN) (bs : List Bool)
    (ht : 2 * c.minN ≤ bs.length)
    (hvar : specP bs.length (coOf c.minN bs) (cwOf c.minN bs) * (1 - specP bs.length (coOf c.minN bs) (cwOf c.minN bs)) = 0)
    (hD : c.alphaD ≤ 1) (hW : c.alphaW ≤ 1) :
    (sfeed sf c bs).drift = false ∧ (sfeed sf c bs).warning = false := by
  obtain ⟨hd, hw⟩ := stepd_rule_degenerate sf c hpos bs ht hvar
  constructor
  · rw [← Bool.not_eq_true, hd]; linarith
  · rw [← Bool.not_eq_true, hw]; intro h; linarith [h.2]

end STEPDReal

/-! ## Non-vacuity: concrete instances satisfying the hypotheses -/
section Examples

/-- `kswin_window` / `kswin_window_history` have no hypotheses; a concrete reading (capacity 2): -/
example (ksP : List ℝ → List ℝ → ℝ) :
    ((KSWIN.machine ksP ⟨0.05, 2, 1⟩).run [.update (7, []), .reset, .update (1, []), .update (2, []), .update (3, [])]).window
      = [2, 3] := by
  rw [(kswin_window_history ksP _ _).1]; simp [sinceReset, lastN]

/-- `kswin_rule`, `kswin_rule_junkfree`, `kswin_all_reject`: `minN = 4`, `numTest = 2`, `t = 4`, tape `[1,0]`,
a KS p-value that always rejects. -/
example : (kfeed (fun _ _ => (0 : ℝ)) ⟨0.05, 4, 2⟩ ([(1, []), (2, []), (3, [])] ++ [(4, [1, 0])])).drift = true :=
  kswin_all_reject _ _ _ _ _ (by simp) (by simp [ValidTape, older, lastN]) (by intro tp _; simp; norm_num)

example : ∃ sample : List ℝ, sample = [2, 1] ∧
    (kfeed (α := ℝ) (fun a _ => a.sum) ⟨0.05, 4, 2⟩ ([(1, []), (2, []), (3, [])] ++ [(4, [1, 0])])).drift = Num.le (sample.sum) (0.05 : ℝ) := by
  obtain ⟨sample, h1, _, h3⟩ := kswin_rule_junkfree (fun a _ => a.sum) (⟨0.05, 4, 2⟩ : KSWIN.Cfg ℝ)
    [(1, []), (2, []), (3, [])] 4 [1, 0] (by simp) (by simp) (by simp [ValidTape, older, lastN])
  refine ⟨sample, ?_, h3⟩
  apply List.map_injective_iff.mpr (Option.some_injective _)
  rw [h1]; simp [older, lastN]

/-- `kswin_none_reject`: a KS p-value that never rejects -/
example : (kfeed (fun _ _ => (1 : ℝ)) ⟨0.05, 4, 2⟩ ([(1, []), (2, []), (3, [])] ++ [(4, [1, 0])])).drift = false :=
  kswin_none_reject _ _ _ _ _ (by simp) (by simp [ValidTape, older, lastN]) (by intro tp _; simp; norm_num)

/-- `kswin_warmup`: `t = 3 < 4 = minN` -/
example (ksP : List ℝ → List ℝ → ℝ) : (kfeed ksP ⟨0.05, 4, 2⟩ [(1, []), (2, []), (3, [])]).drift = false :=
  kswin_warmup _ _ _ (by simp)

/-- `kswin_deterministic`: same values, different earlier tapes -/
example (ksP : List ℝ → List ℝ → ℝ) :
    kfeed ksP ⟨0.05, 2, 1⟩ ([(1, [0]), (2, [0])] ++ [(3, [0])]) = kfeed ksP ⟨0.05, 2, 1⟩ ([(1, [5]), (2, [])] ++ [(3, [0])]) :=
  kswin_deterministic _ _ _ _ _ _ (by simp)

/-- `stepd_counts`: `minN = 2`, five updates -/
example (sf : ℝ → ℝ) : (sfeed sf ⟨0.003, 0.05, 2⟩ [true, false, false, true, true]).win.numTrue = 2 := by
  rw [(stepd_counts sf _ (by simp) _).2.2.2.1]; simp [lastN]

/-- `stepd_rule`: `minN = 2`, `t = 4 ≥ 4`, `p̂ = 3/4`, so `p̂(1-p̂) ≠ 0`; with `sf ≡ 0` drift is reported -/
example : (sfeed (fun _ => (0 : ℝ)) ⟨0.003, 0.05, 2⟩ [true, false, true, true]).drift = true := by
  have h := stepd_rule (fun _ => (0 : ℝ)) ⟨0.003, 0.05, 2⟩ (by simp) [true, false, true, true] (by simp)
    (by simp [specP, coOf, cwOf, lastN]; norm_num)
  rw [h.1]; norm_num

/-- `stepd_rule_degenerate` / `stepd_degenerate_silent`: all predictions correct, `p̂ = 1` -/
example (sf : ℝ → ℝ) : (sfeed sf ⟨0.003, 0.05, 2⟩ [true, true, true, true]).drift = false :=
  (stepd_degenerate_silent sf ⟨0.003, 0.05, 2⟩ (by simp) [true, true, true, true] (by simp)
    (by simp [specP, coOf, cwOf, lastN]; norm_num) (by norm_num) (by norm_num)).1

/-- `stepd_warmup`: `t = 3 < 4` -/
example (sf : ℝ → ℝ) : (sfeed sf ⟨0.003, 0.05, 2⟩ [true, false, true]).warning = false :=
  (stepd_warmup sf _ (by simp) _ (by simp)).2

/-- `stepd_history` -/
example (sf : ℝ → ℝ) : ((STEPD.machine sf ⟨0.003, 0.05, 2⟩).run [.update false, .reset, .update true]).correctTotal = 1 := by
  rw [stepd_history sf _ (by simp), (stepd_counts sf _ (by simp) _).2.1]; simp [sinceReset]

end Examples

#print axioms kswin_window
#print axioms kswin_window_drop
#print axioms kswin_window_history
#print axioms kswin_rule
#print axioms kswin_rule_junkfree
#print axioms kswin_sample_genuine
#print axioms kswin_warmup
#print axioms kswin_all_reject
#print axioms kswin_none_reject
#print axioms kswin_deterministic
#print axioms kswin_history
#print axioms ainv_enqueue
#print axioms qinv_toList
#print axioms stepd_counts
#print axioms stepd_counts_witness
#print axioms stepd_flags
#print axioms stepd_warmup
#print axioms stepd_exclusive
#print axioms stepd_reset_eq_init
#print axioms stepd_history
#print axioms statistic_real
#print axioms stepd_pvalue
#print axioms stepd_rule
#print axioms stepd_rule_degenerate
#print axioms stepd_degenerate_silent

end Frouros.C06
