/-
  C07b — CUSUM / Page-Hinkley / geometric moving average: what is order theory and what is real arithmetic.

  Complements `Props/C07.lean` (review C07, §2 and §4):

  1. `lambda_monotone_any*` : "raising `lambda_` can only remove alarms" for EVERY carrier `[Num α]`.
     The statistic does not depend on `lambda_` for any carrier (`C07.lambda_irrelevant`, pure control flow), so
     the verdict comparison is order-theoretic only.  The minimal hypothesis is the pointwise one
     `∀ g, gt g λ' → gt g λ` (`ThrLe λ λ'`); it follows from `Num.le λ λ'` under the single order law
     `gt g l₂ → le l₁ l₂ → gt g l₁` (`GtLeTrans α`), which holds over ℝ, over the rounding toy carrier `Coarse` below,
     and is preserved by adjoining a NaN (`Option α`, comparisons with `none` false) — the situation of IEEE
     doubles.  Run form, step-`t` form and history form (arbitrary interleaving of `update` / `reset`).
  2. `shift_invariance_history` (ℝ) and `shift_invariance_carrier_witness`: shift invariance is a fact of REAL
     arithmetic, not of control flow.  On the computable carrier `Coarse` (integers, every result of magnitude
     ≥ 100 rounded to a multiple of 100 — the absorption `1000 + 3 = 1000` of floating point in miniature)
     the CUSUM verdict on `[0,0,3]` is "drift", on the same stream shifted by `1000` it is "no drift",
     while λ-monotonicity still holds on that carrier (`lambda_monotone_coarse`).
  3. `scale_equivariance*` (ℝ): multiplying the stream, `delta` and `lambda` by `a > 0` multiplies the statistic
     by `a` and leaves every verdict unchanged (review §4 item 5).
  4. `pageHinkley_closed_form`, `gma_closed_form` (ℝ): the statistic as an explicit, non-recursive weighted sum
     (review §4 item 3).
-/
import Mathlib.Tactic.Ring
import Mathlib.Tactic.FieldSimp
import Mathlib.Tactic.Linarith
import Mathlib.Tactic.NormNum
import Mathlib.Algebra.BigOperators.Group.List.Basic
import FrourosProofs.RealNum
import FrourosProofs.Machines
import FrourosProofs.Props.C07

namespace Frouros.C07
open Frouros CUSUMFam

/-! ## 1. λ-monotonicity for every carrier -/

section AnyCarrier
variable {α : Type} [Num α]

/-- `ThrLe l₁ l₂`: as a THRESHOLD, `l₁` is at most `l₂` — every statistic that exceeds `l₂` exceeds `l₁`.
This is the exact (minimal) hypothesis of λ-monotonicity: it is also necessary, see `thrLe_necessary`. -/
def ThrLe (l₁ l₂ : α) : Prop := ∀ g : α, Num.gt g l₂ = true → Num.gt g l₁ = true

/-- the single order law needed to obtain `ThrLe` from the carrier's own `≤`:
`l₂ < g` and `l₁ ≤ l₂` give `l₁ < g`.  (IEEE doubles satisfy it: with a NaN among `g, l₁, l₂` one of the two
hypotheses is `false`; without NaN the comparisons are those of the extended reals.) -/
structure GtLeTrans (α : Type) [Num α] : Prop where
  gt_of_gt_of_le : ∀ g l₁ l₂ : α, Num.gt g l₂ = true → Num.le l₁ l₂ = true → Num.gt g l₁ = true

theorem GtLeTrans.thrLe (H : GtLeTrans α) {l₁ l₂ : α} (h : Num.le l₁ l₂ = true) : ThrLe l₁ l₂ :=
  fun g hg => H.gt_of_gt_of_le g l₁ l₂ hg h

/-- (every carrier) the one-step drift formula is definitional: gate `minN ≤ n` (counter AFTER the increment,
non-strict) and strict comparison of the NEW statistic with `lambda` -/
theorem step_drift_any (c : Cfg α) (s : State α) (v : α) :
    (step c s v).drift = (decide (c.minN ≤ s.n + 1) && Num.gt (step c s v).sum c.lambda) := rfl

/-- (every carrier) the flag after a non-empty run, in terms of the run's own `sum` -/
theorem run_drift_any (c : Cfg α) (xs : List α) (x : α) :
    (runL c (xs ++ [x])).drift =
      (decide (c.minN ≤ xs.length + 1) && Num.gt (runL c (xs ++ [x])).sum c.lambda) := by
  rw [runL_snoc, step_drift_any, run_n]

/-- **λ-monotonicity, every carrier, minimal hypothesis.**  `c` and `c'` agree on `kind`, `delta`, `alpha`,
`minN`; `c.lambda` is at most `c'.lambda` as a threshold (`ThrLe`).  Then on every stream the three state
components `n`, `mean`, `sum` coincide and every alarm raised with the larger threshold is raised with the
smaller one.  No assumption whatsoever on the arithmetic operations of the carrier. -/
theorem lambda_monotone_any_run (c c' : Cfg α) (hk : c'.kind = c.kind) (hd : c'.delta = c.delta)
    (ha : c'.alpha = c.alpha) (hm : c'.minN = c.minN) (hl : ThrLe c.lambda c'.lambda) (xs : List α) :
    (runL c' xs).n = (runL c xs).n ∧ (runL c' xs).mean = (runL c xs).mean ∧ (runL c' xs).sum = (runL c xs).sum ∧
    ((runL c' xs).drift = true → (runL c xs).drift = true) := by
  obtain ⟨h1, h2, h3⟩ := lambda_irrelevant c c' hk hd ha xs
  refine ⟨h1, h2, h3, ?_⟩
  induction xs using List.reverseRecOn with
  | nil => exact id
  | append_singleton xs x _ =>
    rw [run_drift_any, run_drift_any, h3, hm]
    simp only [Bool.and_eq_true, decide_eq_true_eq]
    rintro ⟨hg, hgt⟩
    exact ⟨hg, hl _ hgt⟩

/-- **λ-monotonicity, every carrier, from the carrier's `≤`** under the order law `GtLeTrans α`. -/
theorem lambda_monotone_any (H : GtLeTrans α) (c c' : Cfg α) (hk : c'.kind = c.kind) (hd : c'.delta = c.delta)
    (ha : c'.alpha = c.alpha) (hm : c'.minN = c.minN) (hl : Num.le c.lambda c'.lambda = true) (xs : List α) (t : Nat) :
    (runL c' (xs.take t)).sum = (runL c (xs.take t)).sum ∧
    ((runL c' (xs.take t)).drift = true → (runL c (xs.take t)).drift = true) :=
  let h := lambda_monotone_any_run c c' hk hd ha hm (H.thrLe hl) (xs.take t)
  ⟨h.2.2.1, h.2.2.2⟩

/-- **λ-monotonicity over histories, every carrier**: after ANY interleaving of updates and resets. -/
theorem lambda_monotone_any_history (c c' : Cfg α) (hk : c'.kind = c.kind) (hd : c'.delta = c.delta)
    (ha : c'.alpha = c.alpha) (hm : c'.minN = c.minN) (hl : ThrLe c.lambda c'.lambda) (ops : List (Op α)) :
    ((CUSUMFam.machine c').run ops).sum = ((CUSUMFam.machine c).run ops).sum ∧
    (((CUSUMFam.machine c').run ops).drift = true → ((CUSUMFam.machine c).run ops).drift = true) := by
  rw [run_history, run_history]
  have h := lambda_monotone_any_run c c' hk hd ha hm hl (sinceReset ops)
  exact ⟨h.2.2.1, h.2.2.2⟩

/-- `ThrLe` is not only sufficient but necessary on the values the statistic actually takes: if monotonicity
holds on every stream, then every value `g` reached by the statistic at a step past the warm-up satisfies
`gt g λ' → gt g λ`. -/
theorem thrLe_necessary (c c' : Cfg α) (hk : c'.kind = c.kind) (hd : c'.delta = c.delta)
    (ha : c'.alpha = c.alpha) (hm : c'.minN = c.minN)
    (hmono : ∀ xs : List α, (runL c' xs).drift = true → (runL c xs).drift = true)
    (xs : List α) (x : α) (hgate : c.minN ≤ xs.length + 1) :
    Num.gt (runL c (xs ++ [x])).sum c'.lambda = true → Num.gt (runL c (xs ++ [x])).sum c.lambda = true := by
  intro hg
  have h3 := (lambda_irrelevant c c' hk hd ha (xs ++ [x])).2.2
  have := hmono (xs ++ [x])
  rw [run_drift_any, run_drift_any, h3, hm] at this
  simp only [Bool.and_eq_true, decide_eq_true_eq] at this
  exact (this ⟨hgate, hg⟩).2

end AnyCarrier

/-- ℝ satisfies the order law -/
theorem gtLeTrans_real : GtLeTrans ℝ where
  gt_of_gt_of_le g l₁ l₂ h1 h2 := by
    simp only [RealNum.gt_iff, RealNum.le_iff] at *
    exact lt_of_le_of_lt h2 h1

/-- the ℝ theorem `C07.lambda_monotone` is the instance `α = ℝ` of the carrier-generic one -/
example (c c' : Cfg ℝ) (hk : c'.kind = c.kind) (hd : c'.delta = c.delta) (ha : c'.alpha = c.alpha)
    (hm : c'.minN = c.minN) (hl : c.lambda ≤ c'.lambda) (xs : List ℝ) (t : Nat) :
    (runL c' (xs.take t)).sum = (runL c (xs.take t)).sum ∧
    ((runL c' (xs.take t)).drift = true → (runL c (xs.take t)).drift = true) :=
  lambda_monotone_any gtLeTrans_real c c' hk hd ha hm (by simpa using hl) xs t

/-! ### Adjoining a NaN preserves the order law

`Option α` with `none` playing the rôle of NaN: arithmetic propagates `none`, every comparison involving
`none` is `false` (IEEE semantics).  If `α` satisfies `GtLeTrans` so does `Option α`; hence λ-monotonicity holds
on "ℝ plus a NaN", and on any NaN-free ordered carrier extended by a NaN — which is the order structure of IEEE
doubles (±∞ are ordinary extreme elements).  This is the reason why the hypothesis is stated on `Num.gt`/`Num.le`
and not as "`α` is a linear order". -/

/-- the NaN extension of a carrier -/
@[reducible] def nanNum (α : Type) [Num α] : Num (Option α) where
  add a b := a.bind fun x => b.map fun y => x + y
  sub a b := a.bind fun x => b.map fun y => x - y
  mul a b := a.bind fun x => b.map fun y => x * y
  div a b := a.bind fun x => b.map fun y => x / y
  neg a := a.map fun x => -x
  ofNat n := some (Num.ofNat n)
  ofDec m e := some (Num.ofDec m e)
  sqrt a := a.map Num.sqrt
  log a := a.map Num.log
  exp a := a.map Num.exp
  abs a := a.map Num.abs
  npow a n := a.map fun x => Num.npow x n
  lt a b := match a, b with | some x, some y => Num.lt x y | _, _ => false
  le a b := match a, b with | some x, some y => Num.le x y | _, _ => false
  beq a b := match a, b with | some x, some y => Num.beq x y | _, _ => false

theorem gtLeTrans_nan {α : Type} [Num α] (H : GtLeTrans α) : @GtLeTrans (Option α) (nanNum α) := by
  let _ := nanNum α
  refine ⟨?_⟩
  intro g l₁ l₂ h1 h2
  cases g <;> cases l₁ <;> cases l₂ <;> simp only [Num.gt, Num.lt, Num.le] at h1 h2 ⊢ <;>
    first
    | exact Bool.noConfusion h1
    | exact Bool.noConfusion h2
    | exact H.gt_of_gt_of_le _ _ _ h1 h2

/-- λ-monotonicity on "ℝ with a NaN": streams, `delta`, `alpha` may contain NaN (`none`); thresholds ordered by
the NaN-aware `≤` (so both are non-NaN). -/
theorem lambda_monotone_real_nan :
    letI := nanNum ℝ
    ∀ (c c' : Cfg (Option ℝ)), c'.kind = c.kind → c'.delta = c.delta → c'.alpha = c.alpha → c'.minN = c.minN →
      Num.le c.lambda c'.lambda = true → ∀ xs : List (Option ℝ),
      (runL c' xs).drift = true → (runL c xs).drift = true := by
  let _ := nanNum ℝ
  intro c c' hk hd ha hm hl xs
  exact (lambda_monotone_any_run c c' hk hd ha hm ((gtLeTrans_nan gtLeTrans_real).thrLe hl) xs).2.2.2

/-- the hypothesis is satisfiable on "ℝ with a NaN" (`1 ≤ 3`), and fails — as it must — for a NaN threshold -/
example : (nanNum ℝ).le (some 1) (some 3) = true ∧ (nanNum ℝ).le none (some 3) = false ∧
    (nanNum ℝ).le (some 1) none = false := by
  refine ⟨?_, rfl, rfl⟩
  show Num.le (1 : ℝ) 3 = true
  simp

/-! ## 2. Shift invariance is real arithmetic, not control flow -/

/-! ### 2a. history form over ℝ (review §4 item 1) -/

/-- translate the values of a history, keep the resets -/
def shiftOp (k : ℝ) : Op ℝ → Op ℝ
  | .update v => .update (v + k)
  | .reset => .reset

theorem sinceReset_shift (k : ℝ) (ops : List (Op ℝ)) :
    sinceReset (ops.map (shiftOp k)) = (sinceReset ops).map (· + k) := by
  induction ops using List.reverseRecOn with
  | nil => rfl
  | append_singleton ops op ih =>
    cases op with
    | update v =>
      rw [List.map_append, List.map_singleton]
      show sinceReset (ops.map (shiftOp k) ++ [.update (v + k)]) = _
      rw [sinceReset_snoc_update, sinceReset_snoc_update, ih]; simp
    | reset =>
      rw [List.map_append, List.map_singleton]
      show sinceReset (ops.map (shiftOp k) ++ [.reset]) = _
      rw [sinceReset_snoc_reset, sinceReset_snoc_reset]; rfl

/-- **shift invariance over histories (ℝ).**  After ANY interleaving of updates and resets, translating every
fed value by `k` leaves `n`, the statistic and the verdict unchanged. -/
theorem shift_invariance_history (c : Cfg ℝ) (k : ℝ) (ops : List (Op ℝ)) :
    ((CUSUMFam.machine c).run (ops.map (shiftOp k))).n = ((CUSUMFam.machine c).run ops).n ∧
    ((CUSUMFam.machine c).run (ops.map (shiftOp k))).sum = ((CUSUMFam.machine c).run ops).sum ∧
    ((CUSUMFam.machine c).run (ops.map (shiftOp k))).drift = ((CUSUMFam.machine c).run ops).drift := by
  rw [run_history, run_history, sinceReset_shift]
  obtain ⟨h1, h2, h3, _, _⟩ := shift_invariance_run c k (sinceReset ops)
  exact ⟨h1, h2, h3⟩

/-- non-vacuity: garbage, reset, example stream — shifted by 10 after as well as before the reset -/
example :
    ((CUSUMFam.machine (⟨.cusum, 1, 0, 0, 2⟩ : Cfg ℝ)).run
      [.update (100 + 10), .reset, .update (0 + 10), .update (0 + 10), .update (3 + 10)]).drift =
    ((CUSUMFam.machine (⟨.cusum, 1, 0, 0, 2⟩ : Cfg ℝ)).run
      [.update 100, .reset, .update 0, .update 0, .update 3]).drift :=
  (shift_invariance_history ⟨.cusum, 1, 0, 0, 2⟩ 10 [.update 100, .reset, .update 0, .update 0, .update 3]).2.2

/-! ### 2b. the statement is false for a carrier with rounding

`Coarse` is a computable toy carrier: integers, and EVERY arithmetic result whose magnitude reaches 100 is
rounded (towards −∞) to a multiple of 100 — two significant "digits" in base 100, so to speak.  Small integers are
exact; `1000 + 3` is absorbed to `1000`, exactly as `1e17 + 3.0 = 1e17` for doubles (review C07 §2: CUSUM
`λ = 0.5`, stream `[0,0,3]` → drift, stream `+1e17` → no drift).  `Float` itself cannot be evaluated by the kernel
(its operations are opaque), hence the miniature.  Comparisons are the exact integer ones, so `Coarse` satisfies
`GtLeTrans`: on this carrier λ-monotonicity holds (`lambda_monotone_coarse`) and shift invariance fails
(`shift_invariance_carrier_witness`) — the former is order theory, the latter is real arithmetic. -/

/-- integers with coarse rounding of large magnitudes -/
structure Coarse where
  v : Int
  deriving DecidableEq, Repr

namespace Coarse
/-- rounding: exact below 100 in magnitude, multiples of 100 above -/
def rnd (z : Int) : Coarse := if z.natAbs < 100 then ⟨z⟩ else ⟨(z / 100) * 100⟩

instance : Num Coarse where
  add a b := rnd (a.v + b.v)
  sub a b := rnd (a.v - b.v)
  mul a b := rnd (a.v * b.v)
  div a b := rnd (a.v / b.v)
  neg a := rnd (-a.v)
  ofNat n := rnd n
  ofDec m e := rnd (m / 10 ^ e)
  -- transcendental functions are not used by the CUSUM family; identity placeholders
  sqrt a := a
  log a := a
  exp a := a
  abs a := rnd a.v.natAbs
  npow a n := rnd (a.v ^ n)
  lt a b := decide (a.v < b.v)
  le a b := decide (a.v ≤ b.v)
  beq a b := decide (a.v = b.v)

/-- absorption, as in floating point -/
example : (⟨1000⟩ : Coarse) + ⟨3⟩ = ⟨1000⟩ := by decide
/-- small values are exact -/
example : (⟨40⟩ : Coarse) + ⟨3⟩ = ⟨43⟩ := by decide
end Coarse

theorem gtLeTrans_coarse : GtLeTrans Coarse where
  gt_of_gt_of_le g l₁ l₂ h1 h2 := by
    simp only [Num.gt, Num.lt, Num.le, decide_eq_true_eq] at *
    omega

/-- non-vacuity of the carrier-generic theorem on a carrier that is NOT ℝ (computable, with rounding): thresholds
`1 ≤ 3`, stream `[0,0,3]` (statistic 2): alarm with `1`, none with `3` — the implication is strict; and the same
after a history with a reset -/
example :
    let c : Cfg Coarse := ⟨.cusum, ⟨1⟩, ⟨0⟩, ⟨0⟩, 1⟩
    let c' : Cfg Coarse := ⟨.cusum, ⟨3⟩, ⟨0⟩, ⟨0⟩, 1⟩
    Num.le c.lambda c'.lambda = true ∧
    (runL c [⟨0⟩, ⟨0⟩, ⟨3⟩]).drift = true ∧ (runL c' [⟨0⟩, ⟨0⟩, ⟨3⟩]).drift = false ∧
    ((CUSUMFam.machine c).run [.update ⟨50⟩, .reset, .update ⟨0⟩, .update ⟨0⟩, .update ⟨3⟩]).drift = true ∧
    ((CUSUMFam.machine c').run [.update ⟨50⟩, .reset, .update ⟨0⟩, .update ⟨0⟩, .update ⟨3⟩]).drift = false := by
  decide

/-- λ-monotonicity on the rounding carrier (instance of the carrier-generic theorem) -/
theorem lambda_monotone_coarse (c c' : Cfg Coarse) (hk : c'.kind = c.kind) (hd : c'.delta = c.delta)
    (ha : c'.alpha = c.alpha) (hm : c'.minN = c.minN) (hl : c.lambda.v ≤ c'.lambda.v) (xs : List Coarse) :
    (runL c' xs).drift = true → (runL c xs).drift = true :=
  (lambda_monotone_any_run c c' hk hd ha hm
    (gtLeTrans_coarse.thrLe (by simpa [Num.le] using hl)) xs).2.2.2

/-- **shift invariance is NOT a carrier-generic fact** (`_witness`): on the rounding carrier `Coarse`, CUSUM with
`lambda = 1`, `delta = 0`, `minN = 1`:
* stream `[0, 0, 3]`: means `0, 0, 1`, statistic `0, 0, 2 > 1` — drift at the third step;
* the same stream shifted by `k = 1000` (computed IN the carrier: `3 + 1000` is absorbed to `1000`) is
  `[1000, 1000, 1000]`: statistic `0, 0, 0` — no drift.
So `C07.shift_invariance*` cannot be proved for an arbitrary `[Num α]`, nor for one that merely satisfies the
order law `GtLeTrans` (`Coarse` does): it needs the exact field arithmetic of ℝ.  For IEEE doubles the same
happens with `k = 1e17` (differential harness / review scratch), and this is absorption, not a near-tie:
the two statistics are `2` and `0`. -/
theorem shift_invariance_carrier_witness :
    let c : Cfg Coarse := ⟨.cusum, ⟨1⟩, ⟨0⟩, ⟨0⟩, 1⟩
    let xs : List Coarse := [⟨0⟩, ⟨0⟩, ⟨3⟩]
    let k : Coarse := ⟨1000⟩
    GtLeTrans Coarse ∧
    xs.map (· + k) = [⟨1000⟩, ⟨1000⟩, ⟨1000⟩] ∧
    (runL c xs).sum = ⟨2⟩ ∧ (runL c xs).drift = true ∧
    (runL c (xs.map (· + k))).sum = ⟨0⟩ ∧ (runL c (xs.map (· + k))).drift = false := by
  refine ⟨gtLeTrans_coarse, ?_, ?_, ?_, ?_, ?_⟩ <;> decide

/-- the carrier-generic reading of the witness: there is a carrier satisfying the order law on which some
configuration, shift and stream change the verdict -/
theorem shift_invariance_not_generic :
    ¬ ∀ (α : Type) (inst : Num α), @GtLeTrans α inst → ∀ (c : @Cfg α) (k : α) (xs : List α),
        (@runL α inst c (xs.map (fun x => inst.add x k))).drift = (@runL α inst c xs).drift := by
  intro h
  have := h Coarse inferInstance gtLeTrans_coarse ⟨.cusum, ⟨1⟩, ⟨0⟩, ⟨0⟩, 1⟩ ⟨1000⟩ [⟨0⟩, ⟨0⟩, ⟨3⟩]
  revert this
  decide

/-! ## 3. Scale equivariance (ℝ; review §4 item 5) -/

/-- the configuration with `delta` and `lambda` multiplied by `a` (`alpha`, `kind`, `minN` unchanged) -/
def scaleCfg (a : ℝ) (c : Cfg ℝ) : Cfg ℝ := { c with delta := a * c.delta, lambda := a * c.lambda }

theorem amean_scale (a : ℝ) (xs : List ℝ) : amean (xs.map (a * ·)) = a * amean xs := by
  have hsum : ∀ l : List ℝ, (l.map (a * ·)).sum = a * l.sum := by
    intro l
    induction l with
    | nil => simp
    | cons b l ih => simp only [List.map_cons, List.sum_cons, ih]; ring
  unfold amean
  rw [hsum, List.length_map, mul_div_assoc]

theorem specStep_scale (a : ℝ) (ha : 0 ≤ a) (c : Cfg ℝ) (g m x : ℝ) :
    specStep (scaleCfg a c) (a * g) (a * m) (a * x) = a * specStep c g m x := by
  unfold specStep scaleCfg
  cases c.kind with
  | cusum =>
    simp only []
    rw [mul_max_of_nonneg _ _ ha, mul_zero]
    congr 1; ring
  | pageHinkley => simp only []; ring
  | gma => simp only []; ring

/-- the specified statistic is homogeneous of degree one in `(stream, delta)` -/
theorem specG_scale (a : ℝ) (ha : 0 ≤ a) (c : Cfg ℝ) (xs : List ℝ) :
    specG (scaleCfg a c) (xs.map (a * ·)) = a * specG c xs := by
  induction xs using List.reverseRecOn with
  | nil => simp
  | append_singleton xs x ih =>
    have h := amean_scale a (xs ++ [x])
    simp only [List.map_append, List.map_cons, List.map_nil] at h ⊢
    rw [specG_snoc, specG_snoc, ih, h, specStep_scale a ha]

/-- **scale equivariance.**  For `a > 0`: multiplying every sample, `delta` and `lambda` by `a` multiplies the
statistic by `a` and leaves `n` and every verdict unchanged (change of measurement unit).  `a > 0` is needed for
the verdict (`a = 0` collapses the statistic to `0`), `a ≥ 0` suffices for the statistic (`specG_scale`); for
`a < 0` the CUSUM clamp `max 0` is not equivariant. -/
theorem scale_equivariance_run (a : ℝ) (ha : 0 < a) (c : Cfg ℝ) (xs : List ℝ) :
    (runL (scaleCfg a c) (xs.map (a * ·))).n = (runL c xs).n ∧
    (runL (scaleCfg a c) (xs.map (a * ·))).sum = a * (runL c xs).sum ∧
    (runL (scaleCfg a c) (xs.map (a * ·))).drift = (runL c xs).drift := by
  refine ⟨by simp [run_n], by rw [run_sum, run_sum, specG_scale a ha.le], ?_⟩
  rw [run_drift, run_drift, Bool.eq_iff_iff, specG_scale a ha.le]
  have hlam : (scaleCfg a c).lambda = a * c.lambda := rfl
  have hmin : (scaleCfg a c).minN = c.minN := rfl
  simp only [decide_eq_true_eq, hlam, hmin, List.length_map, ne_eq, List.map_eq_nil_iff,
    mul_lt_mul_iff_right₀ ha]

/-- at every step `t` of the stream -/
theorem scale_equivariance (a : ℝ) (ha : 0 < a) (c : Cfg ℝ) (xs : List ℝ) (t : Nat) :
    (runL (scaleCfg a c) ((xs.map (a * ·)).take t)).sum = a * (runL c (xs.take t)).sum ∧
    (runL (scaleCfg a c) ((xs.map (a * ·)).take t)).drift = (runL c (xs.take t)).drift := by
  rw [← List.map_take]
  exact (scale_equivariance_run a ha c (xs.take t)).2

/-- non-vacuity: the cusum example in units ten times smaller (stream `0,0,30`, `lambda = 10`): statistic `20` -/
example : (runL (⟨.cusum, 10, 0, 0, 2⟩ : Cfg ℝ) [0, 0, 30]).sum = 20 ∧
    (runL (⟨.cusum, 10, 0, 0, 2⟩ : Cfg ℝ) [0, 0, 30]).drift = (runL (⟨.cusum, 1, 0, 0, 2⟩ : Cfg ℝ) [0, 0, 3]).drift := by
  obtain ⟨_, h2, h3⟩ := scale_equivariance_run 10 (by norm_num) (⟨.cusum, 1, 0, 0, 2⟩ : Cfg ℝ) [0, 0, 3]
  norm_num [scaleCfg] at h2 h3
  refine ⟨?_, h3⟩
  rw [h2, run_sum]
  norm_num [specG, specFrom, specStep, amean]

/-- the clamp is the obstruction for negative factors: `a = -1`, cusum, stream `[0, 2]`:
`g = 1` for the original, `g = 0 ≠ -1` for the negated stream -/
theorem scale_negative_witness :
    specG ⟨.cusum, 1, 0, 0, 1⟩ [0, 2] = 1 ∧ specG (scaleCfg (-1) ⟨.cusum, 1, 0, 0, 1⟩) ([0, 2].map ((-1) * ·)) = 0 := by
  constructor <;> norm_num [specG, specFrom, specStep, amean, scaleCfg]

/-! ## 4. Closed (non-recursive) forms of the statistic (ℝ; review §4 item 3) -/

/-- a linear recurrence `g_t = alpha·g_{t-1} + u(m_t, x_t)`, `g_0 = 0`, unrolled:
`g_t = Σ_{i<t} alpha^(t-1-i) · u(m_{i+1}, x_{i+1})` with `m_{i+1}` the arithmetic mean of the first `i+1` values. -/
theorem linear_closed_form (c : Cfg ℝ) (u : ℝ → ℝ → ℝ) (hu : ∀ g m x, specStep c g m x = c.alpha * g + u m x) :
    ∀ (xs : List ℝ) (n : ℕ) (hn : xs.length = n),
      specG c xs = ∑ i : Fin n, c.alpha ^ (n - 1 - i.val) * u (amean (xs.take (i.val + 1))) (xs[i.val]'(hn ▸ i.isLt)) := by
  intro xs
  induction xs using List.reverseRecOn with
  | nil => intro n hn; subst hn; simp
  | append_singleton xs x ih =>
    intro n hn
    have hn' : n = xs.length + 1 := by rw [← hn]; simp
    subst hn'
    rw [specG_snoc, hu, ih xs.length rfl, Fin.sum_univ_castSucc, Finset.mul_sum]
    congr 1
    · apply Finset.sum_congr rfl
      intro i _
      have hi : i.val < xs.length := i.isLt
      have hpow : xs.length + 1 - 1 - (Fin.castSucc i).val = (xs.length - 1 - i.val) + 1 := by
        simp only [Fin.val_castSucc]; omega
      have htake : (xs ++ [x]).take ((Fin.castSucc i).val + 1) = xs.take (i.val + 1) := by
        simp only [Fin.val_castSucc]
        rw [List.take_append_of_le_length (by omega)]
      have hget : (xs ++ [x])[(Fin.castSucc i).val]'(by simp) = xs[i.val] := by
        simp only [Fin.val_castSucc]
        rw [List.getElem_append_left hi]
      rw [hpow, htake, hget, pow_succ]
      ring
    · have hpow : xs.length + 1 - 1 - (Fin.last xs.length).val = 0 := by simp
      have htake : (xs ++ [x]).take ((Fin.last xs.length).val + 1) = xs ++ [x] := by
        simp only [Fin.val_last]
        rw [List.take_of_length_le (by simp)]
      have hget : (xs ++ [x])[(Fin.last xs.length).val]'(by simp) = x := by
        simp only [Fin.val_last]
        rw [List.getElem_append_right (le_refl _)]; simp
      rw [hpow, htake, hget, pow_zero, one_mul]

/-- **Page-Hinkley in closed form**: `g_t = Σ_{i<t} alpha^(t-1-i) · (x_{i+1} − m_{i+1} − delta)`, a geometrically
discounted sum of the deviations from the running mean (`m_{i+1}` = arithmetic mean of the first `i+1` values;
always a non-empty prefix, no `0/0`). -/
theorem pageHinkley_closed_form (c : Cfg ℝ) (hk : c.kind = .pageHinkley) (xs : List ℝ) :
    (runL c xs).sum = ∑ i : Fin xs.length,
      c.alpha ^ (xs.length - 1 - i.val) * (xs[i.val] - amean (xs.take (i.val + 1)) - c.delta) := by
  rw [run_sum]
  exact linear_closed_form c (fun m x => x - m - c.delta)
    (fun g m x => by simp only [specStep, hk]; ring) xs xs.length rfl

/-- **geometric moving average in closed form**: `g_t = (1-alpha) Σ_{i<t} alpha^(t-1-i) · (x_{i+1} − m_{i+1})` -/
theorem gma_closed_form (c : Cfg ℝ) (hk : c.kind = .gma) (xs : List ℝ) :
    (runL c xs).sum = (1 - c.alpha) * ∑ i : Fin xs.length,
      c.alpha ^ (xs.length - 1 - i.val) * (xs[i.val] - amean (xs.take (i.val + 1))) := by
  rw [run_sum, linear_closed_form c (fun m x => (1 - c.alpha) * (x - m))
    (fun g m x => by simp only [specStep, hk]) xs xs.length rfl, Finset.mul_sum]
  apply Finset.sum_congr rfl
  intro i _
  ring

/-- non-vacuity: Page-Hinkley, `alpha = 1/2`, `delta = 1`, stream `2, 4`:
`(1/2)·(2−2−1) + (4−3−1) = −1/2` (the value computed recursively in `C07.lean`) -/
example : (runL (⟨.pageHinkley, 1, 1, 1/2, 1⟩ : Cfg ℝ) [2, 4]).sum = -1/2 := by
  rw [pageHinkley_closed_form _ rfl]
  simp [Fin.sum_univ_succ, amean]
  norm_num

/-! ### CUSUM: the reflection (Lindley) formula -/

/-- the deviations `d_{i+1} = x_{i+1} − m_{i+1} − delta`, `i < t`, as a list (`m_{i+1}` = arithmetic mean of the
first `i+1` values — a non-empty prefix) -/
noncomputable def devs (c : Cfg ℝ) (xs : List ℝ) : List ℝ :=
  List.ofFn (fun i : Fin xs.length => xs[i.val] - amean (xs.take (i.val + 1)) - c.delta)

theorem devs_length (c : Cfg ℝ) (xs : List ℝ) : (devs c xs).length = xs.length := by simp [devs]

theorem devs_getElem (c : Cfg ℝ) (xs : List ℝ) (i : ℕ) (h : i < (devs c xs).length) :
    (devs c xs)[i] = xs[i]'(by simpa [devs_length] using h) - amean (xs.take (i + 1)) - c.delta := by
  simp [devs]

theorem devs_snoc (c : Cfg ℝ) (xs : List ℝ) (x : ℝ) :
    devs c (xs ++ [x]) = devs c xs ++ [x - amean (xs ++ [x]) - c.delta] := by
  apply List.ext_getElem
  · simp [devs_length]
  · intro i h1 h2
    have hi : i < xs.length + 1 := by simpa [devs_length] using h1
    rw [devs_getElem]
    rcases Nat.lt_or_ge i xs.length with hlt | hge
    · have hl : i < (devs c xs).length := by rw [devs_length]; exact hlt
      have e1 : (xs ++ [x])[i]'(by simp; omega) = xs[i] := List.getElem_append_left hlt
      have e2 : (devs c xs ++ [x - amean (xs ++ [x]) - c.delta])[i]'h2 = (devs c xs)[i] :=
        List.getElem_append_left hl
      rw [e1, e2, devs_getElem, List.take_append_of_le_length (by omega)]
    · have : i = xs.length := by omega
      subst this
      have e1 : (xs ++ [x])[xs.length]'(by simp) = x := by simp
      have e2 : (devs c xs ++ [x - amean (xs ++ [x]) - c.delta])[xs.length]'h2 = x - amean (xs ++ [x]) - c.delta := by
        rw [List.getElem_append_right (by rw [devs_length])]
        simp [devs_length]
      rw [e1, e2, List.take_of_length_le (by simp)]

/-- one step of the Lindley recursion `g' = max 0 (g + d)` preserves "`g` is the greatest suffix sum" -/
theorem lindley_step (ds : List ℝ) (g d : ℝ)
    (H : (∀ k, k ≤ ds.length → (ds.drop k).sum ≤ g) ∧ ∃ k, k ≤ ds.length ∧ g = (ds.drop k).sum) :
    (∀ k, k ≤ (ds ++ [d]).length → ((ds ++ [d]).drop k).sum ≤ max 0 (g + d)) ∧
    ∃ k, k ≤ (ds ++ [d]).length ∧ max 0 (g + d) = ((ds ++ [d]).drop k).sum := by
  obtain ⟨hle, k0, hk0, hg⟩ := H
  constructor
  · intro k hk
    rcases Nat.lt_or_ge ds.length k with hgt | hkle
    · rw [List.drop_of_length_le (by simp only [List.length_append, List.length_singleton] at hk ⊢; omega)]
      simp
    · rw [List.drop_append_of_le_length hkle, List.sum_append]
      have := hle k hkle
      have : (ds.drop k).sum + [d].sum ≤ g + d := by simp; linarith
      exact le_trans this (le_max_right _ _)
  · by_cases hpos : 0 ≤ g + d
    · refine ⟨k0, by simp only [List.length_append, List.length_singleton]; omega, ?_⟩
      rw [max_eq_right hpos, List.drop_append_of_le_length hk0, List.sum_append, hg]; simp
    · refine ⟨ds.length + 1, by simp, ?_⟩
      rw [max_eq_left (by linarith), List.drop_of_length_le (by simp)]; simp

/-- **CUSUM reflection formula.**  `g_t = max_{0 ≤ k ≤ t} Σ_{k < i ≤ t} (x_i − m_i − delta)` (empty sum `= 0` for
`k = t`), stated without a `max` operator as "greatest element": every suffix sum of the deviations is `≤ g_t`
and `g_t` is one of them.  Non-recursive characterisation of the one-sided CUSUM statistic: an alarm at `t` means
that SOME recent stretch `k+1..t` has accumulated more than `lambda` above the running mean (plus `delta` per
step). -/
theorem cusum_reflection (c : Cfg ℝ) (hk : c.kind = .cusum) (xs : List ℝ) :
    (∀ k, k ≤ xs.length → ((devs c xs).drop k).sum ≤ (runL c xs).sum) ∧
    ∃ k, k ≤ xs.length ∧ (runL c xs).sum = ((devs c xs).drop k).sum := by
  rw [run_sum]
  induction xs using List.reverseRecOn with
  | nil => simp [devs]
  | append_singleton xs x ih =>
    have hstep : specG c (xs ++ [x]) = max 0 (specG c xs + (x - amean (xs ++ [x]) - c.delta)) := by
      rw [specG_snoc]; simp only [specStep, hk]; congr 1; ring
    have := lindley_step (devs c xs) (specG c xs) (x - amean (xs ++ [x]) - c.delta)
      (by simpa [devs_length] using ih)
    rw [← devs_snoc, ← hstep] at this
    simpa [devs_length] using this

/-- alarm reading of the reflection formula: past the warm-up, CUSUM signals at `t = xs.length ≥ 1` iff some
suffix of the deviations sums to more than `lambda` -/
theorem cusum_drift_iff_suffix (c : Cfg ℝ) (hk : c.kind = .cusum) (xs : List ℝ) (hne : xs ≠ [])
    (hmin : c.minN ≤ xs.length) :
    (runL c xs).drift = true ↔ ∃ k, k ≤ xs.length ∧ c.lambda < ((devs c xs).drop k).sum := by
  obtain ⟨hle, k0, hk0, hg⟩ := cusum_reflection c hk xs
  rw [run_drift, ← run_sum]
  simp only [decide_eq_true_eq, hne, ne_eq, not_false_eq_true, hmin, true_and]
  constructor
  · intro h; exact ⟨k0, hk0, by rw [← hg]; exact h⟩
  · rintro ⟨k, hk', h⟩; exact lt_of_lt_of_le h (hle k hk')

/-- non-vacuity: stream `0, 0, 3`, `delta = 0`: deviations `0, 0, 2`; the suffix `k = 2` sums to `2 = g_3` -/
example : devs ⟨.cusum, 1, 0, 0, 2⟩ [0, 0, 3] = [0, 0, 2] := by
  simp [devs, List.ofFn_succ, amean]
  norm_num

end Frouros.C07

/-! ## Axiom audit -/
#print axioms Frouros.C07.step_drift_any
#print axioms Frouros.C07.run_drift_any
#print axioms Frouros.C07.lambda_monotone_any_run
#print axioms Frouros.C07.lambda_monotone_any
#print axioms Frouros.C07.lambda_monotone_any_history
#print axioms Frouros.C07.thrLe_necessary
#print axioms Frouros.C07.gtLeTrans_real
#print axioms Frouros.C07.gtLeTrans_nan
#print axioms Frouros.C07.lambda_monotone_real_nan
#print axioms Frouros.C07.gtLeTrans_coarse
#print axioms Frouros.C07.lambda_monotone_coarse
#print axioms Frouros.C07.shift_invariance_history
#print axioms Frouros.C07.shift_invariance_carrier_witness
#print axioms Frouros.C07.shift_invariance_not_generic
#print axioms Frouros.C07.specG_scale
#print axioms Frouros.C07.scale_equivariance_run
#print axioms Frouros.C07.scale_equivariance
#print axioms Frouros.C07.scale_negative_witness
#print axioms Frouros.C07.linear_closed_form
#print axioms Frouros.C07.pageHinkley_closed_form
#print axioms Frouros.C07.gma_closed_form
#print axioms Frouros.C07.cusum_reflection
#print axioms Frouros.C07.cusum_drift_iff_suffix
