/-
  C03 (part a, ECDD-WT) — the ECDD model follows the published rule of Ross et al. (2012), as implemented by
  frouros (`ecdd.py`): non-incremental specification of the state and of both flags after `t` updates.

  Carrier: `α = ℝ` (instance in `FrourosProofs/RealNum.lean`).

  Specification.  For a stream `xs`, `λ = c.lam` and `1 ≤ t ≤ xs.length`
    `pHat xs t       = (x₁ + … + x_t) / t`
    `zHat λ xs t     = Σ_{i ≤ t} λ (1-λ)^(t-i) x_i`                                   (EWMA closed form)
    `sigmaHat λ xs t = √( λ/(2-λ) * (1 - (1-λ)^(2t)) * (pHat xs t * (1 - pHat xs t)) )`
    `L_t             = ECDD.controlLimit c.arl (pHat xs t)`                            (the model's polynomial)
    `drift_t   ⇔ minN ≤ t ∧ zHat > pHat + L_t * sigmaHat`
    `warning_t ⇔ minN ≤ t ∧ ¬drift_t ∧ zHat > pHat + c.warn * L_t * sigmaHat`.
-/
import Mathlib.Tactic
import FrourosProofs.RealNum
import FrourosProofs.Machines
import FrourosProofs.Lemmas.PrefixMean

namespace Frouros.C03
open Frouros

/-! ### One ECDD step, field by field (any carrier) -/
section generic
variable {α : Type} [Num α]

/-- the threshold `p + level * L(p) * z_std` computed by one ECDD step (`level = 1` for drift, `c.warn` for
warning), exactly as the code evaluates it -/
def ecddThr (c : ECDD.Cfg α) (s : ECDD.State α) (v : α) (level : α) : α :=
  let p := s.p.update v
  let z := s.z.update v
  p.mean + level * ECDD.controlLimit c.arl p.mean *
    Num.sqrt (ECDD.lamDiv c * (Num.one - Num.npow z.oneMinus (2 * (s.n + 1))) * (p.mean * (Num.one - p.mean)))

/-- Decision table of `ECDD.step`, for EVERY carrier (so literally for IEEE doubles): counter and both
estimators always advance; flags are only raised once `minN ≤ n`; `warning` only when `drift` is not. -/
theorem ecdd_step_fields (c : ECDD.Cfg α) (s : ECDD.State α) (v : α) :
    (ECDD.step c s v).n = s.n + 1 ∧ (ECDD.step c s v).p = s.p.update v ∧
    (ECDD.step c s v).z = s.z.update v ∧
    (ECDD.step c s v).drift =
      (decide (c.minN ≤ s.n + 1) && Num.gt (s.z.update v).mean (ecddThr c s v Num.one)) ∧
    (ECDD.step c s v).warning =
      (decide (c.minN ≤ s.n + 1) && !Num.gt (s.z.update v).mean (ecddThr c s v Num.one)
        && Num.gt (s.z.update v).mean (ecddThr c s v c.warn)) := by
  unfold ECDD.step ecddThr
  by_cases h : c.minN ≤ s.n + 1
  · simp only [h, if_true, decide_true, Bool.true_and]
    generalize Num.gt (s.z.update v).mean _ = d
    cases d <;> simp
  · simp [h]
end generic

/-! ### The non-incremental ECDD statistics -/

/-- EWMA closed form `Σ_{i<t} λ (1-λ)^(t-1-i) x_{i+1}` (0-based indices).  For `t ≤ xs.length` every index
is in range, so the default of `getD` is never used (`zHat_eq_fin`); `t - 1 - i` is a genuine difference
because `i < t`. -/
noncomputable def zHat (lam : ℝ) (xs : List ℝ) (t : ℕ) : ℝ :=
  ∑ i ∈ Finset.range t, lam * (1 - lam) ^ (t - 1 - i) * xs.getD i 0

/-- the same sum over the genuine elements `xs[i]`, `i < t ≤ xs.length` -/
theorem zHat_eq_fin (lam : ℝ) (xs : List ℝ) (t : ℕ) (ht : t ≤ xs.length) :
    zHat lam xs t = ∑ i : Fin t, lam * (1 - lam) ^ (t - 1 - i) * xs[i.1]'(lt_of_lt_of_le i.2 ht) := by
  unfold zHat
  rw [Finset.sum_range]
  refine Finset.sum_congr rfl (fun i _ => ?_)
  have : i.1 < xs.length := lt_of_lt_of_le i.2 ht
  simp [List.getD_eq_getElem?_getD, this]

/-- the EWMA recursion `Z_{t+1} = λ x_{t+1} + (1-λ) Z_t` -/
theorem zHat_succ (lam : ℝ) (xs : List ℝ) (t : ℕ) (ht : t < xs.length) :
    zHat lam xs (t + 1) = lam * xs[t] + (1 - lam) * zHat lam xs t := by
  unfold zHat
  rw [Finset.sum_range_succ, Finset.mul_sum]
  have h1 : xs.getD t 0 = xs[t] := by simp [List.getD_eq_getElem?_getD, ht]
  have h2 : ∀ i ∈ Finset.range t, lam * (1 - lam) ^ (t + 1 - 1 - i) * xs.getD i 0 =
      (1 - lam) * (lam * (1 - lam) ^ (t - 1 - i) * xs.getD i 0) := by
    intro i hi
    have hi' : i < t := Finset.mem_range.mp hi
    have : t + 1 - 1 - i = (t - 1 - i) + 1 := by omega
    rw [this, pow_succ]; ring
  rw [Finset.sum_congr rfl h2, h1]
  have : t + 1 - 1 - t = 0 := by omega
  rw [this, pow_zero]; ring

/-- standard deviation of the EWMA estimator as the code computes it -/
noncomputable def sigmaHat (lam : ℝ) (xs : List ℝ) (t : ℕ) : ℝ :=
  Real.sqrt (lam / (2 - lam) * (1 - (1 - lam) ^ (2 * t)) * (pHat xs t * (1 - pHat xs t)))

/-- the model state after feeding `xs` (no reset) to a freshly constructed ECDD -/
noncomputable def ecddAfter (c : ECDD.Cfg ℝ) (xs : List ℝ) : ECDD.State ℝ :=
  xs.foldl (ECDD.step c) (ECDD.init c)

/-- `ecddAfter` is the `Machine` run over the history consisting of the updates `xs` -/
theorem ecddAfter_eq_run (c : ECDD.Cfg ℝ) (xs : List ℝ) :
    ecddAfter c xs = (ECDD.machine c).run (xs.map Op.update) := by
  unfold ecddAfter Machine.run Machine.runFrom
  rw [List.foldl_map]
  rfl

/-! ### The invariant -/

/-- What the state after `t` updates looks like (`mean_eq` is the division-free form of
`p.mean = pHat xs t`, so that it also covers `t = 0`; the flag clauses carry `1 ≤ t` so that they never
refer to the meaningless `pHat xs 0`). -/
structure ECDDInv (c : ECDD.Cfg ℝ) (xs : List ℝ) (t : ℕ) (s : ECDD.State ℝ) : Prop where
  n_eq : s.n = t
  pn_eq : s.p.n = t
  mean_eq : s.p.mean * t = (xs.take t).sum
  alpha_eq : s.z.alpha = c.lam
  oneMinus_eq : s.z.oneMinus = 1 - c.lam
  z_eq : s.z.mean = zHat c.lam xs t
  drift_eq : s.drift = decide (1 ≤ t ∧ c.minN ≤ t ∧
    pHat xs t + 1 * ECDD.controlLimit c.arl (pHat xs t) * sigmaHat c.lam xs t < zHat c.lam xs t)
  warning_eq : s.warning = decide (1 ≤ t ∧ c.minN ≤ t ∧
    ¬ (pHat xs t + 1 * ECDD.controlLimit c.arl (pHat xs t) * sigmaHat c.lam xs t < zHat c.lam xs t) ∧
    pHat xs t + c.warn * ECDD.controlLimit c.arl (pHat xs t) * sigmaHat c.lam xs t < zHat c.lam xs t)

theorem ecddInv_init (c : ECDD.Cfg ℝ) (xs : List ℝ) : ECDDInv c xs 0 (ECDD.init c) := by
  constructor <;> simp [ECDD.init, Mean.init, EWMA.init, zHat]

theorem ecddInv_step (c : ECDD.Cfg ℝ) (xs : List ℝ) (t : ℕ) (ht : t < xs.length)
    (s : ECDD.State ℝ) (h : ECDDInv c xs t s) : ECDDInv c xs (t + 1) (ECDD.step c s xs[t]) := by
  obtain ⟨hn, hpn, hmean, halpha, hone, hz, -, -⟩ := h
  obtain ⟨hpn', hp, hmean'⟩ := mean_update_prefix xs t ht s.p hpn hmean
  have hz' : (s.z.update xs[t]).mean = zHat c.lam xs (t + 1) := by
    rw [zHat_succ c.lam xs t ht]
    simp only [EWMA.update, halpha, hone, hz]
  have hone' : (s.z.update xs[t]).oneMinus = 1 - c.lam := by simp only [EWMA.update, hone]
  have halpha' : (s.z.update xs[t]).alpha = c.lam := by simp only [EWMA.update, halpha]
  have hthr : ∀ level : ℝ, ecddThr c s xs[t] level =
      pHat xs (t + 1) + level * ECDD.controlLimit c.arl (pHat xs (t + 1)) * sigmaHat c.lam xs (t + 1) := by
    intro level
    unfold ecddThr
    simp only [hp, hone', hn, ECDD.lamDiv, RealNum.one_eq, RealNum.two_eq, RealNum.sqrt_eq, RealNum.npow_eq]
    rfl
  obtain ⟨fn, fp, fz, fdrift, fwarn⟩ := ecdd_step_fields c s xs[t]
  rw [hz', hthr, RealNum.one_eq] at fdrift
  rw [hz', hthr, hthr, RealNum.one_eq] at fwarn
  rw [hn] at fn fdrift fwarn
  have h1 : 1 ≤ t + 1 := by omega
  refine ⟨fn, by rw [fp]; exact hpn', by rw [fp]; exact hmean', by rw [fz]; exact halpha',
    by rw [fz]; exact hone', by rw [fz]; exact hz', ?_, ?_⟩
  · rw [fdrift]; simp [Num.gt, Num.lt]
  · rw [fwarn]; simp [Num.gt, Num.lt, -not_lt, Bool.and_assoc]

/-- the invariant holds after every prefix of the stream -/
theorem ecddInv_take (c : ECDD.Cfg ℝ) (xs : List ℝ) :
    ∀ t, t ≤ xs.length → ECDDInv c xs t (ecddAfter c (xs.take t)) := by
  intro t
  induction t with
  | zero => intro _; simpa [ecddAfter] using ecddInv_init c xs
  | succ t ih =>
    intro ht
    have ht' : t < xs.length := by omega
    have := ecddInv_step c xs t ht' _ (ih (by omega))
    rw [List.take_succ_eq_append_getElem ht']
    unfold ecddAfter at this ⊢
    rw [List.foldl_append]
    exact this

/-! ### Main theorem -/

/-- **C03a, ECDD-WT.**  For every configuration, every real stream `xs` and `1 ≤ t ≤ xs.length`, the model
state after the first `t` values is the one prescribed by the published (non-incremental) rule:
* `p.mean` is the arithmetic mean `pHat xs t`, `z.mean` is the EWMA closed form `zHat λ xs t`;
* `drift_t ⇔ minN ≤ t ∧ Z_t > p_t + L_t σ_t` (the code writes `1 * L_t * σ_t`; over `ℝ` that is `L_t σ_t`);
* `warning_t ⇔ minN ≤ t ∧ ¬drift_t ∧ Z_t > p_t + c.warn * L_t * σ_t`,
with `L_t = ECDD.controlLimit c.arl p_t` (see `controlLimit_100/400/other` for the polynomials) and
`σ_t = sigmaHat λ xs t`.

Hypotheses: `1 ≤ t` excludes the junk value `0/0` of `pHat xs 0` (for `t = 0` see `ecdd_spec_zero`);
`t ≤ xs.length` says that the first `t` values exist (so that `getD` in `zHat` never uses its default,
`zHat_eq_fin`).  No 0/1 hypothesis and no hypothesis on `minN` is needed.
Caveats, stated rather than hidden: (1) `σ_t` contains the quotient `λ / (2 - λ)`; the statement is literally
true also for `λ = 2` only because model and specification then contain the same `2 / 0`; frouros' `EWMA`
rejects `λ ∉ [0,1]`, and for `λ ≠ 2` `ewma_weights_sq` / `sigmaHat_sq` show that the quotient form is the
genuine variance factor `Σ_i (λ (1-λ)^(t-i))²`.  (2) For streams outside `[0,1]` the radicand may be
negative and `Real.sqrt` is then `0` (Python: `nan`); `sigmaHat_sq` shows that for values in `[0,1]` the
root is genuine. -/
theorem ecdd_spec (c : ECDD.Cfg ℝ) (xs : List ℝ) (t : ℕ) (ht1 : 1 ≤ t) (ht : t ≤ xs.length) :
    (ecddAfter c (xs.take t)).n = t ∧
    (ecddAfter c (xs.take t)).p.mean = pHat xs t ∧
    (ecddAfter c (xs.take t)).z.mean = zHat c.lam xs t ∧
    ((ecddAfter c (xs.take t)).drift = true ↔ c.minN ≤ t ∧
      pHat xs t + ECDD.controlLimit c.arl (pHat xs t) * sigmaHat c.lam xs t < zHat c.lam xs t) ∧
    ((ecddAfter c (xs.take t)).warning = true ↔ c.minN ≤ t ∧
      ¬ (pHat xs t + ECDD.controlLimit c.arl (pHat xs t) * sigmaHat c.lam xs t < zHat c.lam xs t) ∧
      pHat xs t + c.warn * ECDD.controlLimit c.arl (pHat xs t) * sigmaHat c.lam xs t
        < zHat c.lam xs t) := by
  obtain ⟨h1, -, h3, -, -, h6, h7, h8⟩ := ecddInv_take c xs t ht
  refine ⟨h1, mean_eq_pHat xs ht1 h3, h6, ?_, ?_⟩
  · rw [h7, decide_eq_true_iff, one_mul]; tauto
  · rw [h8, decide_eq_true_iff, one_mul]; tauto

/-- before any update: no flag, both estimators at their initial value -/
theorem ecdd_spec_zero (c : ECDD.Cfg ℝ) :
    (ecddAfter c []).n = 0 ∧ (ecddAfter c []).drift = false ∧ (ecddAfter c []).warning = false ∧
    (ecddAfter c []).p.mean = 0 ∧ (ecddAfter c []).z.mean = 0 := by
  simp [ecddAfter, ECDD.init, Mean.init, EWMA.init]

/-- warm-up corollary: no flag while `t < minN` -/
theorem ecdd_warmup (c : ECDD.Cfg ℝ) (xs : List ℝ) (t : ℕ) (ht : t ≤ xs.length) (hlt : t < c.minN) :
    (ecddAfter c (xs.take t)).drift = false ∧ (ecddAfter c (xs.take t)).warning = false := by
  obtain ⟨-, -, -, -, -, -, h7, h8⟩ := ecddInv_take c xs t ht
  have hnot : ¬ c.minN ≤ t := by omega
  constructor
  · rw [h7]; simp [hnot]
  · rw [h8]; simp [hnot]

/-- Histories with resets: after `pre ++ [reset]` followed by the updates `xs` the state is `ecddAfter c xs`,
so `ecdd_spec` describes every reachable state in terms of the values seen since the last reset. -/
theorem ecdd_run_after_reset (c : ECDD.Cfg ℝ) (pre : List (Op ℝ)) (xs : List ℝ) :
    (ECDD.machine c).run (pre ++ [Op.reset] ++ xs.map Op.update) = ecddAfter c xs := by
  rw [Machine.run_after_reset _ (fun _ _ => rfl), ← ecddAfter_eq_run]

/-! ### The ingredients of the rule are the intended quantities -/

/-- the control-limit polynomials of Ross et al. at `ℝ` (`ofDec m 2 = m / 100`) -/
theorem controlLimit_100 (p : ℝ) : ECDD.controlLimit 100 p =
    2.76 - 6.23 * p + 18.12 * p ^ 3 - 312.45 * p ^ 5 + 1002.18 * p ^ 7 := by
  simp only [ECDD.controlLimit, RealNum.ofDec_eq, RealNum.npow_eq]
  norm_num
theorem controlLimit_400 (p : ℝ) : ECDD.controlLimit 400 p =
    3.97 - 6.56 * p + 48.73 * p ^ 3 - 330.13 * p ^ 5 + 848.18 * p ^ 7 := by
  simp only [ECDD.controlLimit, RealNum.ofDec_eq, RealNum.npow_eq]
  norm_num
/-- every other value of `arl` (the validated configuration only allows 1000) uses the third polynomial -/
theorem controlLimit_other (arl : ℕ) (h1 : arl ≠ 100) (h4 : arl ≠ 400) (p : ℝ) : ECDD.controlLimit arl p =
    1.17 + 7.56 * p - 21.24 * p ^ 3 + 112.12 * p ^ 5 - 987.23 * p ^ 7 := by
  simp only [ECDD.controlLimit, RealNum.ofDec_eq, RealNum.npow_eq, beq_iff_eq, h1, h4, if_false]
  norm_num

/-- **Variance factor.**  For `λ ≠ 2` (the hypothesis that makes `λ / (2 - λ)` a genuine quotient) the
factor `λ/(2-λ) (1 - (1-λ)^(2t))` used by the code is the sum of the squared EWMA weights
`Σ_{i<t} (λ (1-λ)^(t-1-i))²`, i.e. `Var Z_t / Var x` for uncorrelated equal-variance observations. -/
theorem ewma_weights_sq (lam : ℝ) (hlam : lam ≠ 2) (t : ℕ) :
    ∑ i ∈ Finset.range t, (lam * (1 - lam) ^ (t - 1 - i)) ^ 2 =
      lam / (2 - lam) * (1 - (1 - lam) ^ (2 * t)) := by
  rw [Finset.sum_range_reflect (fun k => (lam * (1 - lam) ^ k) ^ 2) t]
  have h2 : (2 - lam) ≠ 0 := sub_ne_zero.mpr (Ne.symm hlam)
  induction t with
  | zero => simp
  | succ t ih =>
    rw [Finset.sum_range_succ, ih]
    have : (1 - lam) ^ (2 * (t + 1)) = (1 - lam) ^ (2 * t) * (1 - lam) ^ 2 := by
      rw [← pow_add, mul_add, mul_one]
    rw [this, mul_pow, ← pow_mul, mul_comm t 2]
    field_simp
    ring

/-- the EWMA weights sum to `1 - (1-λ)^t` (so `Z_t` is a weighted mean up to the vanishing start-up term) -/
theorem ewma_weights_sum (lam : ℝ) (t : ℕ) :
    ∑ i ∈ Finset.range t, lam * (1 - lam) ^ (t - 1 - i) = 1 - (1 - lam) ^ t := by
  rw [Finset.sum_range_reflect (fun k => lam * (1 - lam) ^ k) t]
  induction t with
  | zero => simp
  | succ t ih => rw [Finset.sum_range_succ, ih, pow_succ]; ring

/-- For `λ ≠ 2`, values in `[0,1]` and `1 ≤ t` the radicand of `σ_t` is non-negative, so `σ_t` is a genuine
square root, and `σ_t² = (Σ_i w_i²) p_t (1 - p_t)` with `w_i = λ (1-λ)^(t-1-i)` the EWMA weights. -/
theorem sigmaHat_sq (lam : ℝ) (hlam : lam ≠ 2) (xs : List ℝ) (h : ∀ x ∈ xs, 0 ≤ x ∧ x ≤ 1)
    {t : ℕ} (ht : 1 ≤ t) :
    sigmaHat lam xs t ^ 2 =
      (∑ i ∈ Finset.range t, (lam * (1 - lam) ^ (t - 1 - i)) ^ 2) * (pHat xs t * (1 - pHat xs t)) := by
  obtain ⟨h0, h1⟩ := pHat_mem_unit xs h ht
  have hw : 0 ≤ ∑ i ∈ Finset.range t, (lam * (1 - lam) ^ (t - 1 - i)) ^ 2 :=
    Finset.sum_nonneg (fun i _ => sq_nonneg _)
  have hr : 0 ≤ (∑ i ∈ Finset.range t, (lam * (1 - lam) ^ (t - 1 - i)) ^ 2) *
      (pHat xs t * (1 - pHat xs t)) := mul_nonneg hw (mul_nonneg h0 (by linarith))
  unfold sigmaHat
  rw [← ewma_weights_sq lam hlam t]
  exact Real.sq_sqrt hr

/-! ### Non-vacuity -/

/-- the hypotheses of `ecdd_spec` are satisfiable by a non-trivial instance (past the warm-up) -/
example : ∃ (c : ECDD.Cfg ℝ) (xs : List ℝ) (t : ℕ), 1 ≤ t ∧ t ≤ xs.length ∧ c.minN ≤ t :=
  ⟨⟨1 / 5, 400, 1 / 2, 2⟩, [0, 1, 1], 3, by norm_num, by simp, by norm_num⟩

/-- A concrete run through `ecdd_spec`: `λ = 1`, `arl = 100`, stream `0,0,0,0,1`.  After 5 values
`p_5 = 1/5`, `Z_5 = 1`, `σ_5 = √(4/25) = 2/5`, `L_5 ≈ 1.572`, so `Z_5 = 1 > 1/5 + L_5 · 2/5 ≈ 0.829`: drift. -/
example : (ecddAfter ⟨1, 100, 1 / 2, 1⟩ ([0, 0, 0, 0, 1].take 5)).drift = true := by
  have hp : pHat [0, 0, 0, 0, 1] 5 = 1 / 5 := by simp [pHat]
  have hz : zHat 1 [0, 0, 0, 0, 1] 5 = 1 := by simp [zHat, Finset.sum_range_succ]
  have hs : sigmaHat 1 [0, 0, 0, 0, 1] 5 = 2 / 5 := by
    unfold sigmaHat
    rw [hp, show (1 : ℝ) / (2 - 1) * (1 - (1 - 1) ^ (2 * 5)) * (1 / 5 * (1 - 1 / 5)) = (2 / 5) ^ 2 by norm_num]
    exact Real.sqrt_sq (by norm_num)
  rw [(ecdd_spec ⟨1, 100, 1 / 2, 1⟩ [0, 0, 0, 0, 1] 5 (by norm_num) (by simp)).2.2.2.1]
  refine ⟨by norm_num, ?_⟩
  show pHat [0, 0, 0, 0, 1] 5 + ECDD.controlLimit 100 (pHat [0, 0, 0, 0, 1] 5) * sigmaHat 1 [0, 0, 0, 0, 1] 5
    < zHat 1 [0, 0, 0, 0, 1] 5
  rw [hp, hz, hs, controlLimit_100]
  norm_num

#print axioms ecdd_spec
#print axioms ecdd_warmup
#print axioms ecdd_step_fields
#print axioms zHat_succ
#print axioms ewma_weights_sq
#print axioms sigmaHat_sq
#print axioms ewma_weights_sum
#print axioms zHat_eq_fin
#print axioms controlLimit_100
#print axioms controlLimit_400
#print axioms controlLimit_other
#print axioms ecdd_run_after_reset
#print axioms ecdd_spec_zero

end Frouros.C03
